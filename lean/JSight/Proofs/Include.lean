import JSight.Model.Include
/-!
Helper definitions and lemmas for `JSight/Props/C08_Include.lean` (INCLUDE handling at scan time).
-/
namespace JSight.C08
open JSight JSight.Gen

/-! ### unfolding equations of `scanIncFile` -/

theorem scanIncFile_zero (fs : FS) (stack : List (Nat × Nat)) (cur pos : Nat) (toks : List FTok) (st : PScan) :
    scanIncFile fs 0 stack cur pos toks st = .error (.inc .fuel) := by
  cases toks <;> rfl

theorem scanIncFile_nil (fs : FS) (fuel : Nat) (stack : List (Nat × Nat)) (cur pos : Nat) (st : PScan) :
    scanIncFile fs (fuel + 1) stack cur pos [] st =
      match flushPending st with
      | .error e => .error e
      | .ok st' => if stack.isEmpty && anyExplicit st'.ctx.frames then .error (.ctx .unclosedAtEOF) else .ok st' := rfl

theorem scanIncFile_dir (fs : FS) (fuel : Nat) (stack : List (Nat × Nat)) (cur pos : Nat) (d : Dir)
    (rest : List FTok) (st : PScan) :
    scanIncFile fs (fuel + 1) stack cur pos (.dir d :: rest) st =
      match flushPending st with
      | .error e => .error e
      | .ok st' =>
        if d.kind == Kind.Jsight && !stack.isEmpty then .error (.inc (.jsightInIncluded cur pos))
        else scanIncFile fs fuel stack cur (pos + 1) rest
          { st' with pending := some d, traces := st'.traces ++ [(d.id, stack)] } := rfl

theorem scanIncFile_close (fs : FS) (fuel : Nat) (stack : List (Nat × Nat)) (cur pos : Nat)
    (rest : List FTok) (st : PScan) :
    scanIncFile fs (fuel + 1) stack cur pos (.close :: rest) st =
      match flushPending st with
      | .error e => .error e
      | .ok st' =>
        match closeExplicit st'.ctx.frames st'.ctx.roots with
        | .error e => .error (.ctx e)
        | .ok c => scanIncFile fs fuel stack cur (pos + 1) rest { st' with ctx := c } := rfl

/-- the INCLUDE token (`processInclude`): the directive written before it is placed first (repair F42); then the name,
the target and the include stack are examined, and the target is scanned from the state with that directive placed -/
theorem scanIncFile_incl (fs : FS) (fuel : Nat) (stack : List (Nat × Nat)) (cur pos f : Nat) (valid : Bool)
    (rest : List FTok) (st : PScan) :
    scanIncFile fs (fuel + 1) stack cur pos (.incl f valid :: rest) st =
      match flushPending st with
      | .error e => .error e
      | .ok stf =>
        if !valid then .error (.inc (.badName cur pos))
        else match fs.get? f with
          | none => .error (.inc (.missing cur pos))
          | some .directory => .error (.inc (.isDirectory cur pos))
          | some (.file toks) =>
            if stack.any (·.1 == cur) then .error (.inc (.recursion cur pos))
            else match scanIncFile fs fuel ((cur, pos) :: stack) f 0 toks stf with
              | .error e => .error e
              | .ok st' => scanIncFile fs fuel stack cur (pos + 1) rest st' := rfl

/-- the INCLUDE token when the directive written before it cannot be placed: its context error -/
theorem scanIncFile_incl_error (fs : FS) (fuel : Nat) (stack : List (Nat × Nat)) (cur pos f : Nat) (valid : Bool)
    (rest : List FTok) (st : PScan) (e : ProjErr) (hfl : flushPending st = .error e) :
    scanIncFile fs (fuel + 1) stack cur pos (.incl f valid :: rest) st = .error e := by
  rw [scanIncFile_incl, hfl]

/-- the INCLUDE token when the directive written before it is placed (giving `stf`) -/
theorem scanIncFile_incl_ok (fs : FS) (fuel : Nat) (stack : List (Nat × Nat)) (cur pos f : Nat) (valid : Bool)
    (rest : List FTok) (st stf : PScan) (hfl : flushPending st = .ok stf) :
    scanIncFile fs (fuel + 1) stack cur pos (.incl f valid :: rest) st =
      if !valid then .error (.inc (.badName cur pos))
      else match fs.get? f with
        | none => .error (.inc (.missing cur pos))
        | some .directory => .error (.inc (.isDirectory cur pos))
        | some (.file toks) =>
          if stack.any (·.1 == cur) then .error (.inc (.recursion cur pos))
          else match scanIncFile fs fuel ((cur, pos) :: stack) f 0 toks stf with
            | .error e => .error e
            | .ok st' => scanIncFile fs fuel stack cur (pos + 1) rest st' := by
  rw [scanIncFile_incl, hfl]

/-- the INCLUDE of an existing file, from a file that is not on the stack: the pending directive is placed, then the
pushing step -/
theorem scanIncFile_incl_file (fs : FS) (fuel : Nat) (stack : List (Nat × Nat)) (cur pos f : Nat)
    (rest body : List FTok) (st : PScan) (hf : fs.get? f = some (.file body))
    (hs : stack.any (·.1 == cur) = false) :
    scanIncFile fs (fuel + 1) stack cur pos (.incl f true :: rest) st =
      match flushPending st with
      | .error e => .error e
      | .ok stf =>
        match scanIncFile fs fuel ((cur, pos) :: stack) f 0 body stf with
        | .error e => .error e
        | .ok st' => scanIncFile fs fuel stack cur (pos + 1) rest st' := by
  rw [scanIncFile_incl]; cases flushPending st <;> simp [hf, hs]

/-- the same when the pending directive is placed (giving `stf`) -/
theorem scanIncFile_incl_file_ok (fs : FS) (fuel : Nat) (stack : List (Nat × Nat)) (cur pos f : Nat)
    (rest body : List FTok) (st stf : PScan) (hf : fs.get? f = some (.file body))
    (hs : stack.any (·.1 == cur) = false) (hfl : flushPending st = .ok stf) :
    scanIncFile fs (fuel + 1) stack cur pos (.incl f true :: rest) st =
      match scanIncFile fs fuel ((cur, pos) :: stack) f 0 body stf with
      | .error e => .error e
      | .ok st' => scanIncFile fs fuel stack cur (pos + 1) rest st' := by
  rw [scanIncFile_incl_file fs fuel stack cur pos f rest body st hf hs, hfl]

/-- every step of the scan places the pending directive first: if that fails, the scan fails with its error -/
theorem scanIncFile_flush_error (fs : FS) (fuel : Nat) (stack : List (Nat × Nat)) (cur pos : Nat) (toks : List FTok)
    (st : PScan) (e : ProjErr) (hfl : flushPending st = .error e) :
    scanIncFile fs (fuel + 1) stack cur pos toks st = .error e := by
  cases toks with
  | nil => rw [scanIncFile_nil, hfl]
  | cons t rest =>
    cases t with
    | dir d => rw [scanIncFile_dir, hfl]
    | close => rw [scanIncFile_close, hfl]
    | incl f valid => rw [scanIncFile_incl, hfl]

/-- an accepted INCLUDE: the pending directive was placed, the name is accepted, the target is an existing regular
file, the including file is not on the stack, and the target was accepted -/
theorem incl_head_ok (fs : FS) (fuel : Nat) (stack : List (Nat × Nat)) (cur pos f : Nat) (v : Bool)
    (rest : List FTok) (st r : PScan)
    (h : scanIncFile fs fuel stack cur pos (FTok.incl f v :: rest) st = .ok r) :
    ∃ n body stf st', fuel = n + 1 ∧ flushPending st = .ok stf ∧ v = true ∧
      fs.get? f = some (.file body) ∧ stack.any (·.1 == cur) = false ∧
      scanIncFile fs n ((cur, pos) :: stack) f 0 body stf = .ok st' ∧
      scanIncFile fs n stack cur (pos + 1) rest st' = .ok r := by
  cases fuel with
  | zero => rw [scanIncFile_zero] at h; cases h
  | succ n =>
    rw [scanIncFile_incl] at h
    cases hfl : flushPending st with
    | error e => simp [hfl] at h
    | ok stf =>
      simp only [hfl] at h
      cases v with
      | false => simp at h
      | true =>
        cases hg : fs.get? f with
        | none => simp [hg] at h
        | some e =>
          cases e with
          | directory => simp [hg] at h
          | file body =>
            simp only [hg] at h
            cases hs : stack.any (·.1 == cur) with
            | true => simp [hs] at h
            | false =>
              simp only [hs] at h
              cases hi : scanIncFile fs n ((cur, pos) :: stack) f 0 body stf with
              | error e => simp [hi] at h
              | ok st' =>
                simp only [hi] at h
                exact ⟨n, body, stf, st', rfl, rfl, rfl, rfl, rfl, hi, by simpa using h⟩

/-! ### the file system -/

theorem get?_mem {fs : FS} {f : Nat} {e : FEntry} (h : fs.get? f = some e) : (f, e) ∈ fs := by
  unfold FS.get? at h
  cases hfd : fs.find? (·.1 == f) with
  | none => simp [hfd] at h
  | some p =>
    simp [hfd] at h
    have hm := List.mem_of_find?_eq_some hfd
    have hp := List.find?_some hfd
    have h1 : p.1 = f := by simpa using hp
    have : p = (f, e) := by cases p; simp_all
    exact this ▸ hm

theorem get?_mem_ids {fs : FS} {f : Nat} {e : FEntry} (h : fs.get? f = some e) : f ∈ fs.map (·.1) :=
  List.mem_map.mpr ⟨(f, e), get?_mem h, rfl⟩

def entrySize (e : Nat × FEntry) : Nat :=
  match e.2 with
  | .file t => t.length + 1
  | .directory => 1

theorem fsSize_eq (fs : FS) : fsSize fs = fs.foldl (fun n e => n + entrySize e) 0 := rfl

theorem foldl_size_ge (l : FS) : ∀ n, n ≤ l.foldl (fun n e => n + entrySize e) n := by
  induction l with
  | nil => intro n; exact Nat.le_refl _
  | cons a l ih => intro n; exact Nat.le_trans (Nat.le_add_right _ _) (ih _)

theorem foldl_size_mem (l : FS) (x : Nat × FEntry) (hx : x ∈ l) :
    ∀ n, n + entrySize x ≤ l.foldl (fun n e => n + entrySize e) n := by
  induction l with
  | nil => cases hx
  | cons a l ih =>
    intro n
    rcases List.mem_cons.mp hx with h | h
    · subst h; exact foldl_size_ge l _
    · exact Nat.le_trans (by omega) (ih h (n + entrySize a))

/-- every file is shorter than the size of the file system -/
theorem file_length_lt_fsSize {fs : FS} {f : Nat} {body : List FTok} (h : fs.get? f = some (.file body)) :
    body.length + 1 ≤ fsSize fs := by
  have := foldl_size_mem fs (f, .file body) (get?_mem h) 0
  rw [fsSize_eq]
  simpa [entrySize] using this

/-! ### results that are not `.ok` -/

/-- success of a scan implies success of the scan of every suffix, from some state -/
theorem ok_suffix (fs : FS) (stack : List (Nat × Nat)) (cur : Nat) (rest : List FTok) (r : PScan) :
    ∀ (pre : List FTok) (fuel pos : Nat) (st : PScan),
      scanIncFile fs fuel stack cur pos (pre ++ rest) st = .ok r →
      ∃ fuel' pos' st', scanIncFile fs fuel' stack cur pos' rest st' = .ok r := by
  intro pre
  induction pre with
  | nil => intro fuel pos st h; exact ⟨fuel, pos, st, h⟩
  | cons t pre ih =>
    intro fuel pos st h
    cases fuel with
    | zero => rw [scanIncFile_zero] at h; cases h
    | succ fuel =>
      rw [List.cons_append] at h
      cases t with
      | dir d =>
        rw [scanIncFile_dir] at h
        cases hfl : flushPending st with
        | error e => simp [hfl] at h
        | ok st' =>
          simp only [hfl] at h
          split at h
          · cases h
          · exact ih _ _ _ h
      | close =>
        rw [scanIncFile_close] at h
        cases hfl : flushPending st with
        | error e => simp [hfl] at h
        | ok st' =>
          simp only [hfl] at h
          cases hc : closeExplicit st'.ctx.frames st'.ctx.roots with
          | error e => simp [hc] at h
          | ok c => simp only [hc] at h; exact ih _ _ _ h
      | incl f valid =>
        obtain ⟨n, body, stf, st', _, _, _, _, _, _, h'⟩ := incl_head_ok fs _ stack cur pos f valid _ st r h
        exact ih _ _ _ h'

/-- a JSIGHT directive at the head of the remaining tokens of an included file -/
theorem jsight_head_not_ok (fs : FS) (fuel : Nat) (stack : List (Nat × Nat)) (cur pos : Nat) (d : Dir)
    (rest : List FTok) (st r : PScan) (hk : d.kind = Kind.Jsight) (hs : stack ≠ []) :
    scanIncFile fs fuel stack cur pos (.dir d :: rest) st ≠ .ok r := by
  cases fuel with
  | zero => rw [scanIncFile_zero]; intro h; cases h
  | succ fuel =>
    rw [scanIncFile_dir]
    cases hfl : flushPending st with
    | error e => intro h; cases h
    | ok st' =>
      have : stack.isEmpty = false := by cases stack with
        | nil => exact absurd rfl hs
        | cons a l => rfl
      simp [hk, this]

/-- an INCLUDE at the head of the remaining tokens of a file that is itself on the include stack -/
theorem incl_head_on_stack_not_ok (fs : FS) (fuel : Nat) (stack : List (Nat × Nat)) (cur pos f : Nat) (v : Bool)
    (rest : List FTok) (st r : PScan) (hs : stack.any (·.1 == cur) = true) :
    scanIncFile fs fuel stack cur pos (.incl f v :: rest) st ≠ .ok r := by
  cases fuel with
  | zero => rw [scanIncFile_zero]; intro h; cases h
  | succ fuel =>
    intro h
    obtain ⟨n, body, stf, st', _, _, _, _, hs', _, _⟩ := incl_head_ok fs _ stack cur pos f v rest st r h
    rw [hs] at hs'; cases hs'

/-- a file that is on the include stack and still has an INCLUDE ahead never finishes -/
theorem incl_on_stack_not_ok (fs : FS) (fuel : Nat) (stack : List (Nat × Nat)) (cur pos : Nat)
    (toks : List FTok) (st r : PScan) (hs : stack.any (·.1 == cur) = true)
    (hi : ∃ f v, FTok.incl f v ∈ toks) :
    scanIncFile fs fuel stack cur pos toks st ≠ .ok r := by
  obtain ⟨f, v, hm⟩ := hi
  obtain ⟨pre, post, rfl⟩ := List.append_of_mem hm
  intro h
  obtain ⟨fuel', pos', st', h'⟩ := ok_suffix fs stack cur _ r pre fuel pos st h
  exact incl_head_on_stack_not_ok fs fuel' stack cur pos' f v post st' r hs h'

/-! ### fuel -/

theorem nodup_push {stack : List (Nat × Nat)} {cur pos : Nat} (hn : (stack.map (·.1)).Nodup)
    (hs : stack.any (·.1 == cur) = false) : (((cur, pos) :: stack).map (·.1)).Nodup := by
  rw [List.map_cons, List.nodup_cons]
  refine ⟨?_, hn⟩
  intro hm
  obtain ⟨x, hx, hx1⟩ := List.mem_map.mp hm
  have : stack.any (·.1 == cur) = true := List.any_eq_true.mpr ⟨x, hx, by simp [hx1]⟩
  rw [hs] at this; cases this

/-- a stack of distinct existing files is no longer than the file system -/
theorem stack_length_le {fs : FS} {stack : List (Nat × Nat)} (hn : (stack.map (·.1)).Nodup)
    (hm : ∀ x ∈ stack, x.1 ∈ fs.map (·.1)) : stack.length ≤ fs.length := by
  have hsub : stack.map (·.1) ⊆ fs.map (·.1) := by
    intro a ha
    obtain ⟨x, hx, rfl⟩ := List.mem_map.mp ha
    exact hm x hx
  have := List.Nodup.length_le_of_subset hn hsub
  simpa using this

/-- the fuel that suffices below a stack of distinct existing files -/
def fuelBound (fs : FS) (stack : List (Nat × Nat)) (toks : List FTok) : Nat :=
  (fs.length - stack.length) * fsSize fs + toks.length + 1

theorem scanIncFile_no_fuel (fs : FS) :
    ∀ (fuel : Nat) (stack : List (Nat × Nat)) (cur pos : Nat) (toks : List FTok) (st : PScan),
      (stack.map (·.1)).Nodup → (∀ x ∈ stack, x.1 ∈ fs.map (·.1)) → cur ∈ fs.map (·.1) →
      fuelBound fs stack toks ≤ fuel →
      scanIncFile fs fuel stack cur pos toks st ≠ .error (.inc .fuel) := by
  intro fuel
  induction fuel with
  | zero => intro stack cur pos toks st _ _ _ hb; unfold fuelBound at hb; omega
  | succ fuel ih =>
    intro stack cur pos toks st hn hm hc hb
    cases toks with
    | nil =>
      rw [scanIncFile_nil]
      cases hfl : flushPending st with
      | error e =>
        unfold flushPending at hfl
        split at hfl
        · cases hfl
        · split at hfl
          · cases hfl; intro h; cases h
          · cases hfl
      | ok st' => simp only []; split <;> intro h <;> cases h
    | cons t rest =>
      have hb' : fuelBound fs stack rest ≤ fuel := by
        unfold fuelBound at hb ⊢; simp only [List.length_cons] at hb; omega
      have hflush : ∀ e, flushPending st = .error e → e ≠ .inc .fuel := by
        intro e hfl
        unfold flushPending at hfl
        split at hfl
        · cases hfl
        · split at hfl
          · cases hfl; intro h; cases h
          · cases hfl
      cases t with
      | dir d =>
        rw [scanIncFile_dir]
        cases hfl : flushPending st with
        | error e => intro h; exact hflush e hfl (by injection h)
        | ok st' =>
          simp only []
          split
          · intro h; cases h
          · exact ih _ _ _ _ _ hn hm hc hb'
      | close =>
        rw [scanIncFile_close]
        cases hfl : flushPending st with
        | error e => intro h; exact hflush e hfl (by injection h)
        | ok st' =>
          simp only []
          cases hce : closeExplicit st'.ctx.frames st'.ctx.roots with
          | error e => intro h; cases h
          | ok c => exact ih _ _ _ _ _ hn hm hc hb'
      | incl f valid =>
        rw [scanIncFile_incl]
        cases hfl : flushPending st with
        | error e => intro h; exact hflush e hfl (by injection h)
        | ok stf =>
        simp only []
        cases valid with
        | false => intro h; cases h
        | true =>
          cases hg : fs.get? f with
          | none => intro h; cases h
          | some e =>
            cases e with
            | directory => intro h; cases h
            | file body =>
              cases hs : stack.any (·.1 == cur) with
              | true => intro h; cases h
              | false =>
                have hn' := nodup_push (pos := pos) hn hs
                have hm' : ∀ x ∈ (cur, pos) :: stack, x.1 ∈ fs.map (·.1) := by
                  intro x hx
                  rcases List.mem_cons.mp hx with h | h
                  · subst h; exact hc
                  · exact hm x h
                have hlen : stack.length + 1 ≤ fs.length := stack_length_le hn' hm'
                have hbody := file_length_lt_fsSize hg
                have hbi : fuelBound fs ((cur, pos) :: stack) body ≤ fuel := by
                  unfold fuelBound at hb ⊢
                  simp only [List.length_cons] at hb ⊢
                  have : fs.length - stack.length = (fs.length - (stack.length + 1)) + 1 := by omega
                  rw [this, Nat.add_mul, Nat.one_mul] at hb
                  omega
                have hinner := ih ((cur, pos) :: stack) f 0 body stf hn' hm' (get?_mem_ids hg) hbi
                simp only [Bool.not_true, Bool.false_eq_true, if_false]
                cases hi : scanIncFile fs fuel ((cur, pos) :: stack) f 0 body stf with
                | error e => intro h; apply hinner; rw [hi]; exact h
                | ok st' => exact ih _ _ _ _ _ hn hm hc hb'

/-! ### live include stacks -/

/-- the stacks that the scan can build from the root: a file is pushed when one of its INCLUDE tokens (with an
accepted name, of an existing regular file) is followed, which happens only if the file is not yet on the stack -/
inductive Live (fs : FS) (root : Nat) : List (Nat × Nat) → Nat → Prop
  | root : Live fs root [] root
  | push {stack : List (Nat × Nat)} {cur pos f : Nat} {all body : List FTok} :
      Live fs root stack cur → stack.any (·.1 == cur) = false →
      fs.get? cur = some (.file all) → all[pos]? = some (.incl f true) → fs.get? f = some (.file body) →
      Live fs root ((cur, pos) :: stack) f

theorem Live.nodup {fs : FS} {root : Nat} {stack : List (Nat × Nat)} {cur : Nat} (h : Live fs root stack cur) :
    (stack.map (·.1)).Nodup := by
  induction h with
  | root => exact List.nodup_nil
  | push _ hs _ _ _ ih => exact nodup_push ih hs

/-- every stack entry is an INCLUDE token of an existing file -/
theorem Live.entry {fs : FS} {root : Nat} {stack : List (Nat × Nat)} {cur : Nat} (h : Live fs root stack cur) :
    ∀ x ∈ stack, ∃ all f, fs.get? x.1 = some (.file all) ∧ all[x.2]? = some (.incl f true) := by
  induction h with
  | root => intro x hx; cases hx
  | push _ _ hc hp _ ih =>
    intro x hx
    rcases List.mem_cons.mp hx with h | h
    · subst h; exact ⟨_, _, hc, hp⟩
    · exact ih x h

theorem Live.mem_fs {fs : FS} {root : Nat} {stack : List (Nat × Nat)} {cur : Nat} (h : Live fs root stack cur) :
    ∀ x ∈ stack, x.1 ∈ fs.map (·.1) := by
  intro x hx
  obtain ⟨all, f, hg, _⟩ := h.entry x hx
  exact get?_mem_ids hg

theorem Live.length_le {fs : FS} {root : Nat} {stack : List (Nat × Nat)} {cur : Nat} (h : Live fs root stack cur) :
    stack.length ≤ fs.length :=
  stack_length_le h.nodup h.mem_fs

/-- the bottom of a non-empty live stack is the root file -/
theorem Live.bottom {fs : FS} {root : Nat} {stack : List (Nat × Nat)} {cur : Nat} (h : Live fs root stack cur) :
    ∀ x, stack.getLast? = some x → x.1 = root := by
  induction h with
  | root => intro x hx; cases hx
  | @push stack cur pos f all body hl _ _ _ _ ih =>
    intro x hx
    cases hl with
    | root => simp at hx; rw [← hx]
    | push h1 h2 h3 h4 h5 =>
      apply ih
      simpa [List.getLast?_cons_cons] using hx

/-- the current file is the target of the innermost INCLUDE -/
theorem Live.top {fs : FS} {root : Nat} {stack : List (Nat × Nat)} {cur : Nat} (h : Live fs root stack cur) :
    ∀ x rest, stack = x :: rest → ∃ all, fs.get? x.1 = some (.file all) ∧ all[x.2]? = some (.incl cur true) := by
  cases h with
  | root => intro x rest hx; cases hx
  | push _ _ hc hp _ => intro x rest hx; cases hx; exact ⟨_, hc, hp⟩

/-- a live file that is on its own stack contains an INCLUDE -/
theorem Live.has_incl {fs : FS} {root : Nat} {stack : List (Nat × Nat)} {cur : Nat} (h : Live fs root stack cur)
    {all : List FTok} (hc : fs.get? cur = some (.file all)) (hs : stack.any (·.1 == cur) = true) :
    ∃ g v, FTok.incl g v ∈ all := by
  obtain ⟨x, hx, hx1⟩ := List.any_eq_true.mp hs
  have hx1 : x.1 = cur := by simpa using hx1
  obtain ⟨all', f, hg, hp⟩ := h.entry x hx
  rw [hx1, hc] at hg
  cases hg
  exact ⟨f, true, List.mem_of_getElem? hp⟩

/-! ### recorded traces -/

/-- a recorded trace `(id, tr)`: `tr` is a live stack of some file that is not on it, and the directive is a token
of that file -/
def TraceOK (fs : FS) (root : Nat) (e : Nat × List (Nat × Nat)) : Prop :=
  ∃ (cur : Nat) (all : List FTok) (p : Nat) (d : Dir), Live fs root e.2 cur ∧ cur ∉ e.2.map (·.1) ∧ fs.get? cur = some (.file all) ∧
    all[p]? = some (FTok.dir d) ∧ d.id = e.1

theorem flush_traces {st st' : PScan} (h : flushPending st = .ok st') : st'.traces = st.traces := by
  unfold flushPending at h
  split at h
  · cases h; rfl
  · split at h
    · cases h
    · cases h; rfl

theorem drop_cons {α} {all : List α} {pos : Nat} {t : α} {rest : List α} (h : t :: rest = all.drop pos) :
    all[pos]? = some t ∧ rest = all.drop (pos + 1) := by
  have hlt : pos < all.length := by
    apply Classical.byContradiction
    intro hn
    rw [List.drop_eq_nil_of_le (by omega)] at h
    cases h
  rw [List.drop_eq_getElem_cons hlt] at h
  cases h
  exact ⟨by simp, rfl⟩

theorem scanIncFile_traces (fs : FS) (root : Nat) :
    ∀ (fuel : Nat) (stack : List (Nat × Nat)) (cur pos : Nat) (toks : List FTok) (st : PScan)
      (all : List FTok) (r : PScan),
      Live fs root stack cur → fs.get? cur = some (.file all) → toks = all.drop pos →
      (stack.any (·.1 == cur) = true → ∃ g v, FTok.incl g v ∈ toks) →
      (∀ e ∈ st.traces, TraceOK fs root e) →
      scanIncFile fs fuel stack cur pos toks st = .ok r → ∀ e ∈ r.traces, TraceOK fs root e := by
  intro fuel
  induction fuel with
  | zero => intro stack cur pos toks st all r _ _ _ _ _ h; rw [scanIncFile_zero] at h; cases h
  | succ fuel ih =>
    intro stack cur pos toks st all r hl hc ht hon htr h
    cases toks with
    | nil =>
      rw [scanIncFile_nil] at h
      cases hfl : flushPending st with
      | error e => simp [hfl] at h
      | ok st' =>
        simp only [hfl] at h
        split at h
        · cases h
        · cases h; rw [flush_traces hfl]; exact htr
    | cons t rest =>
      obtain ⟨hpos, hrest⟩ := drop_cons ht
      -- the file cannot be on the stack: it would never finish
      have hoff : (∀ g v, t ≠ FTok.incl g v) →
          (stack.any (·.1 == cur) = true → ∃ g v, FTok.incl g v ∈ rest) := by
        intro ht' hs
        obtain ⟨g, v, hm⟩ := hon hs
        rcases List.mem_cons.mp hm with h1 | h1
        · exact absurd h1.symm (ht' g v)
        · exact ⟨g, v, h1⟩
      cases t with
      | dir d =>
        have hoff' := hoff (fun g v hh => by cases hh)
        have hnot : stack.any (·.1 == cur) = false := by
          cases hs : stack.any (·.1 == cur) with
          | false => rfl
          | true => exact absurd h (incl_on_stack_not_ok fs _ stack cur pos _ st r hs (hon hs))
        rw [scanIncFile_dir] at h
        cases hfl : flushPending st with
        | error e => simp [hfl] at h
        | ok st' =>
          simp only [hfl] at h
          split at h
          · cases h
          · refine ih _ _ _ _ _ all r hl hc hrest hoff' ?_ h
            intro e he
            simp only [List.mem_append, List.mem_singleton] at he
            rcases he with he | he
            · rw [flush_traces hfl] at he; exact htr e he
            · subst he
              refine ⟨cur, all, pos, d, hl, ?_, hc, hpos, rfl⟩
              intro hm
              obtain ⟨x, hx, hx1⟩ := List.mem_map.mp hm
              have : stack.any (·.1 == cur) = true := List.any_eq_true.mpr ⟨x, hx, by simp [hx1]⟩
              rw [hnot] at this; cases this
      | close =>
        have hoff' := hoff (fun g v hh => by cases hh)
        rw [scanIncFile_close] at h
        cases hfl : flushPending st with
        | error e => simp [hfl] at h
        | ok st' =>
          simp only [hfl] at h
          cases hce : closeExplicit st'.ctx.frames st'.ctx.roots with
          | error e => simp [hce] at h
          | ok c =>
            simp only [hce] at h
            refine ih _ _ _ _ _ all r hl hc hrest hoff' ?_ h
            intro e he
            rw [flush_traces hfl] at he; exact htr e he
      | incl f valid =>
        obtain ⟨n, body, stf, st', hn, hfl, hv, hg, hs, hi, h'⟩ := incl_head_ok fs _ stack cur pos f valid rest st r h
        cases hn
        subst hv
        have hl' : Live fs root ((cur, pos) :: stack) f := Live.push hl hs hc hpos hg
        have htr' := ih ((cur, pos) :: stack) f 0 body stf body st' hl' hg (by simp)
          (fun hs' => hl'.has_incl hg hs') (by rw [flush_traces hfl]; exact htr) hi
        refine ih _ _ _ _ _ all r hl hc hrest ?_ htr' h'
        intro hs'; rw [hs] at hs'; cases hs'

/-! ### textual inclusion -/

def erasePosI : InclErr → InclErr
  | .badName c _ => .badName c 0
  | .missing c _ => .missing c 0
  | .isDirectory c _ => .isDirectory c 0
  | .recursion c _ => .recursion c 0
  | .jsightInIncluded c _ => .jsightInIncluded c 0
  | .fuel => .fuel

def erasePos : ProjErr → ProjErr
  | .inc e => .inc (erasePosI e)
  | .ctx e => .ctx e

/-- what is compared between two runs: the context and the pending directive, or the error without its position -/
def view : Except ProjErr PScan → Except ProjErr (Ctx × Option Dir)
  | .error e => .error (erasePos e)
  | .ok st => .ok (st.ctx, st.pending)

def flushC (c : Ctx) : Option Dir → Except CtxErr Ctx
  | none => .ok c
  | some d => place c.frames c.roots d

theorem flush_eq (st : PScan) : flushPending st =
    match flushC st.ctx st.pending with
    | .error e => .error (.ctx e)
    | .ok c => .ok { ctx := c, pending := none, traces := st.traces } := by
  cases st with
  | mk c p t =>
    cases p with
    | none => rfl
    | some d => simp only [flushPending, flushC]; cases place c.frames c.roots d <;> rfl

theorem flush_idem {st stf : PScan} (h : flushPending st = .ok stf) : flushPending stf = .ok stf := by
  rw [flush_eq] at h
  split at h
  · cases h
  · cases h; rfl

theorem flush_no_fuel {st : PScan} {e : ProjErr} (h : flushPending st = .error e) : e ≠ .inc .fuel := by
  rw [flush_eq] at h
  split at h
  · cases h; intro h; cases h
  · cases h

/-- more fuel does not change a result that is not the fuel error -/
theorem scanIncFile_mono (fs : FS) :
    ∀ (fuel : Nat) (stack : List (Nat × Nat)) (cur pos : Nat) (toks : List FTok) (st : PScan) (k : Nat),
      scanIncFile fs fuel stack cur pos toks st ≠ .error (.inc .fuel) →
      scanIncFile fs (fuel + k) stack cur pos toks st = scanIncFile fs fuel stack cur pos toks st := by
  intro fuel
  induction fuel with
  | zero => intro stack cur pos toks st k h; exact absurd (scanIncFile_zero ..) h
  | succ fuel ih =>
    intro stack cur pos toks st k h
    have hk : fuel + 1 + k = (fuel + k) + 1 := by omega
    rw [hk]
    cases toks with
    | nil => rfl
    | cons t rest =>
      cases t with
      | dir d =>
        rw [scanIncFile_dir] at h
        rw [scanIncFile_dir, scanIncFile_dir]
        cases hfl : flushPending st with
        | error e => rfl
        | ok st' =>
          simp only [hfl] at h ⊢
          cases hj : (d.kind == Kind.Jsight && !stack.isEmpty) with
          | true => simp only [↓reduceIte]
          | false =>
            simp only [hj, Bool.false_eq_true, ↓reduceIte] at h ⊢
            exact ih _ _ _ _ _ _ h
      | close =>
        rw [scanIncFile_close] at h
        rw [scanIncFile_close, scanIncFile_close]
        cases hfl : flushPending st with
        | error e => rfl
        | ok st' =>
          simp only [hfl] at h ⊢
          cases hce : closeExplicit st'.ctx.frames st'.ctx.roots with
          | error e => rfl
          | ok c =>
            simp only [hce] at h ⊢
            exact ih _ _ _ _ _ _ h
      | incl f valid =>
        rw [scanIncFile_incl] at h
        rw [scanIncFile_incl, scanIncFile_incl]
        cases hfl : flushPending st with
        | error e => rfl
        | ok stf =>
        simp only [hfl] at h ⊢
        cases valid with
        | false => rfl
        | true =>
          cases hg : fs.get? f with
          | none => rfl
          | some e =>
            cases e with
            | directory => rfl
            | file body =>
              simp only [hg] at h ⊢
              cases hs : stack.any (·.1 == cur) with
              | true => rfl
              | false =>
                simp only [hs, Bool.not_true, Bool.false_eq_true, ↓reduceIte] at h ⊢
                cases hi : scanIncFile fs fuel ((cur, pos) :: stack) f 0 body stf with
                | error e =>
                  simp only [hi] at h
                  have : scanIncFile fs fuel ((cur, pos) :: stack) f 0 body stf ≠ .error (.inc .fuel) := by
                    rw [hi]; exact h
                  rw [ih _ _ _ _ _ k this, hi]
                | ok st' =>
                  simp only [hi] at h
                  have : scanIncFile fs fuel ((cur, pos) :: stack) f 0 body stf ≠ .error (.inc .fuel) := by
                    rw [hi]; intro hh; cases hh
                  rw [ih _ _ _ _ _ k this, hi]
                  exact ih _ _ _ _ _ _ h

/-- placing the pending directive beforehand does not change a scan: every step of the scan (a directive, ")", an
INCLUDE, the end of the file) places it before anything else happens. (Since the repair F42 this needs no induction:
before, an INCLUDE handed the unplaced directive on to the included file.) -/
theorem scanIncFile_flush (fs : FS) (fuel : Nat) (stack : List (Nat × Nat)) (cur pos : Nat) (toks : List FTok)
    (st stf : PScan) (hfl : flushPending st = .ok stf) :
    scanIncFile fs fuel stack cur pos toks st = scanIncFile fs fuel stack cur pos toks stf := by
  have hfl' := flush_idem hfl
  cases fuel with
  | zero => rw [scanIncFile_zero, scanIncFile_zero]
  | succ fuel =>
    cases toks with
    | nil => rw [scanIncFile_nil, scanIncFile_nil, hfl, hfl']
    | cons t rest =>
      cases t with
      | dir d => rw [scanIncFile_dir, scanIncFile_dir, hfl, hfl']
      | close => rw [scanIncFile_close, scanIncFile_close, hfl, hfl']
      | incl f valid => rw [scanIncFile_incl, scanIncFile_incl, hfl, hfl']

/-- a successful scan has placed the pending directive it started with -/
theorem ok_flush (fs : FS) (fuel : Nat) (stack : List (Nat × Nat)) (cur pos : Nat) (toks : List FTok) (st r : PScan)
    (h : scanIncFile fs fuel stack cur pos toks st = .ok r) : ∃ stf, flushPending st = .ok stf := by
  cases fuel with
  | zero => rw [scanIncFile_zero] at h; cases h
  | succ fuel =>
    cases hfl : flushPending st with
    | ok stf => exact ⟨stf, rfl⟩
    | error e => rw [scanIncFile_flush_error fs fuel stack cur pos toks st e hfl] at h; cases h

/-- before the repair F42 the INCLUDE handed the unplaced directive on to the included file; as long as the included
file is scanned with some fuel that is the same thing, because the first step in the included file places it -/
theorem scanIncFile_incl_file_unplaced (fs : FS) (fuel : Nat) (stack : List (Nat × Nat)) (cur pos f : Nat)
    (rest body : List FTok) (st : PScan) (hf : fs.get? f = some (.file body))
    (hs : stack.any (·.1 == cur) = false) :
    scanIncFile fs (fuel + 2) stack cur pos (.incl f true :: rest) st =
      match scanIncFile fs (fuel + 1) ((cur, pos) :: stack) f 0 body st with
      | .error e => .error e
      | .ok st' => scanIncFile fs (fuel + 1) stack cur (pos + 1) rest st' := by
  rw [scanIncFile_incl_file fs _ stack cur pos f rest body st hf hs]
  cases hfl : flushPending st with
  | error e => rw [scanIncFile_flush_error fs fuel _ f 0 body st e hfl]
  | ok stf => rw [scanIncFile_flush fs _ _ f 0 body st stf hfl]

theorem view_error_inc (a b : InclErr) (h : erasePosI a = erasePosI b) :
    view (.error (.inc a)) = view (.error (.inc b)) := by
  simp [view, erasePos, h]

/-- the outcome of a scan, up to positions and traces, depends on the state only through `ctx` and `pending`, and on
the stack only through its file ids -/
theorem scanIncFile_view (fs : FS) :
    ∀ (fuel : Nat) (s1 s2 : List (Nat × Nat)) (cur p1 p2 : Nat) (toks : List FTok) (st1 st2 : PScan),
      s1.map (·.1) = s2.map (·.1) → st1.ctx = st2.ctx → st1.pending = st2.pending →
      view (scanIncFile fs fuel s1 cur p1 toks st1) = view (scanIncFile fs fuel s2 cur p2 toks st2) := by
  intro fuel
  induction fuel with
  | zero => intro s1 s2 cur p1 p2 toks st1 st2 _ _ _; rw [scanIncFile_zero, scanIncFile_zero]
  | succ fuel ih =>
    intro s1 s2 cur p1 p2 toks st1 st2 hs hc hp
    have hempty : s1.isEmpty = s2.isEmpty := by
      have := congrArg List.length hs
      simp only [List.length_map] at this
      cases s1 <;> cases s2 <;> simp_all
    have hany : s1.any (·.1 == cur) = s2.any (·.1 == cur) := by
      have h1 : ∀ s : List (Nat × Nat), s.any (·.1 == cur) = (s.map (·.1)).any (· == cur) := by
        intro s; rw [List.any_map]; rfl
      rw [h1, h1, hs]
    -- the pending directive is placed in both runs alike
    have hflush : (∃ e, flushPending st1 = .error (.ctx e) ∧ flushPending st2 = .error (.ctx e)) ∨
        (∃ a b, flushPending st1 = .ok a ∧ flushPending st2 = .ok b ∧ a.ctx = b.ctx ∧ a.pending = b.pending) := by
      rw [flush_eq st1, flush_eq st2, hc, hp]
      cases flushC st2.ctx st2.pending with
      | error e => exact Or.inl ⟨e, rfl, rfl⟩
      | ok c => exact Or.inr ⟨_, _, rfl, rfl, rfl, rfl⟩
    cases toks with
    | nil =>
      rw [scanIncFile_nil, scanIncFile_nil]
      rcases hflush with ⟨e, h1, h2⟩ | ⟨a, b, h1, h2, hab, hab'⟩
      · rw [h1, h2]
      · rw [h1, h2]; simp only [hab, hempty]
        split
        · rfl
        · simp [view, hab, hab']
    | cons t rest =>
      cases t with
      | dir d =>
        rw [scanIncFile_dir, scanIncFile_dir]
        rcases hflush with ⟨e, h1, h2⟩ | ⟨a, b, h1, h2, hab, hab'⟩
        · rw [h1, h2]
        · rw [h1, h2]; simp only [hempty]
          split
          · exact view_error_inc _ _ rfl
          · exact ih _ _ _ _ _ _ _ _ hs hab rfl
      | close =>
        rw [scanIncFile_close, scanIncFile_close]
        rcases hflush with ⟨e, h1, h2⟩ | ⟨a, b, h1, h2, hab, hab'⟩
        · rw [h1, h2]
        · rw [h1, h2]; simp only [hab]
          cases closeExplicit b.ctx.frames b.ctx.roots with
          | error e => rfl
          | ok c => exact ih _ _ _ _ _ _ _ _ hs rfl hab'
      | incl f valid =>
        rw [scanIncFile_incl, scanIncFile_incl]
        rcases hflush with ⟨e, h1, h2⟩ | ⟨a, b, h1, h2, hab, hab'⟩
        · rw [h1, h2]
        · rw [h1, h2]
          simp only []
          cases valid with
          | false => exact view_error_inc _ _ rfl
          | true =>
            cases hg : fs.get? f with
            | none => exact view_error_inc _ _ rfl
            | some e =>
              cases e with
              | directory => exact view_error_inc _ _ rfl
              | file body =>
                simp only [hany]
                cases hs2 : s2.any (·.1 == cur) with
                | true => exact view_error_inc _ _ rfl
                | false =>
                  simp only [Bool.not_true, Bool.false_eq_true, ↓reduceIte]
                  have hin := ih ((cur, p1) :: s1) ((cur, p2) :: s2) f 0 0 body a b
                    (by simp [hs]) hab hab'
                  cases h1 : scanIncFile fs fuel ((cur, p1) :: s1) f 0 body a with
                  | error e1 =>
                    cases h2 : scanIncFile fs fuel ((cur, p2) :: s2) f 0 body b with
                    | error e2 => rw [h1, h2] at hin; exact hin
                    | ok b' => rw [h1, h2] at hin; simp [view] at hin
                  | ok a' =>
                    cases h2 : scanIncFile fs fuel ((cur, p2) :: s2) f 0 body b with
                    | error e2 => rw [h1, h2] at hin; simp [view] at hin
                    | ok b' =>
                      rw [h1, h2] at hin
                      simp only [view, Except.ok.injEq, Prod.mk.injEq] at hin
                      exact ih _ _ _ _ _ _ _ _ hs hin.1 hin.2

/-- the effect of a token list without INCLUDE and JSIGHT on context and pending directive (an INCLUDE token counts as
the placement of the pending directive only) -/
def flatRun : List FTok → Ctx → Option Dir → Except CtxErr (Ctx × Option Dir)
  | [], c, p => .ok (c, p)
  | .dir d :: r, c, p =>
    match flushC c p with
    | .error e => .error e
    | .ok c' => flatRun r c' (some d)
  | .close :: r, c, p =>
    match flushC c p with
    | .error e => .error e
    | .ok c' =>
      match closeExplicit c'.frames c'.roots with
      | .error e => .error e
      | .ok c'' => flatRun r c'' none
  | .incl _ _ :: r, c, p =>
    match flushC c p with
    | .error e => .error e
    | .ok c' => flatRun r c' none

/-- scanning a token list without INCLUDE and JSIGHT in front of `X`: independent of stack, file and position -/
theorem scanIncFile_plain (fs : FS) (stack : List (Nat × Nat)) (cur : Nat) (X : List FTok) :
    ∀ (body : List FTok), (∀ g v, FTok.incl g v ∉ body) → (∀ d, FTok.dir d ∈ body → d.kind ≠ Kind.Jsight) →
      ∀ (n pos : Nat) (st : PScan), ∃ tr,
        scanIncFile fs (n + body.length) stack cur pos (body ++ X) st =
          match flatRun body st.ctx st.pending with
          | .error e => .error (.ctx e)
          | .ok cp => scanIncFile fs n stack cur (pos + body.length) X
              { ctx := cp.1, pending := cp.2, traces := tr } := by
  intro body
  induction body with
  | nil => intro _ _ n pos st; exact ⟨st.traces, rfl⟩
  | cons t body ih =>
    intro hincl hjs n pos st
    have hincl' : ∀ g v, FTok.incl g v ∉ body := fun g v hm => hincl g v (List.mem_cons_of_mem _ hm)
    have hjs' : ∀ d, FTok.dir d ∈ body → d.kind ≠ Kind.Jsight := fun d hm => hjs d (List.mem_cons_of_mem _ hm)
    have hlen : n + (t :: body).length = (n + body.length) + 1 := by simp only [List.length_cons]; omega
    have hpos : ∀ p : Nat, p + (t :: body).length = (p + 1) + body.length := by
      intro p; simp only [List.length_cons]; omega
    rw [hlen, hpos, List.cons_append]
    cases t with
    | dir d =>
      have hk : (d.kind == Kind.Jsight) = false := by
        have := hjs d (List.mem_cons_self ..)
        simpa using this
      rw [scanIncFile_dir, flush_eq]
      simp only [flatRun]
      cases flushC st.ctx st.pending with
      | error e => exact ⟨[], rfl⟩
      | ok c =>
        simp only [hk, Bool.false_and, Bool.false_eq_true, ↓reduceIte]
        exact ih hincl' hjs' n (pos + 1) _
    | close =>
      rw [scanIncFile_close, flush_eq]
      simp only [flatRun]
      cases flushC st.ctx st.pending with
      | error e => exact ⟨[], rfl⟩
      | ok c =>
        simp only []
        cases closeExplicit c.frames c.roots with
        | error e => exact ⟨[], rfl⟩
        | ok c' => exact ih hincl' hjs' n (pos + 1) _
    | incl g v => exact absurd (List.mem_cons_self ..) (hincl g v)

/-- the scan of a prefix: an error, or a state from which the rest is scanned; the same for every continuation -/
theorem scanIncFile_prefix (fs : FS) (stack : List (Nat × Nat)) (cur : Nat) :
    ∀ (pre : List FTok) (N pos : Nat) (st : PScan), ∃ o : Except ProjErr PScan, ∀ X : List FTok,
      scanIncFile fs N stack cur pos (pre ++ X) st =
        match o with
        | .error e => .error e
        | .ok st1 => scanIncFile fs (N - pre.length) stack cur (pos + pre.length) X st1 := by
  intro pre
  induction pre with
  | nil => intro N pos st; exact ⟨.ok st, fun X => rfl⟩
  | cons t pre ih =>
    intro N pos st
    cases N with
    | zero => exact ⟨.error (.inc .fuel), fun X => scanIncFile_zero ..⟩
    | succ N =>
      have hlen : N + 1 - (t :: pre).length = N - pre.length := by simp only [List.length_cons]; omega
      have hpos : pos + (t :: pre).length = (pos + 1) + pre.length := by simp only [List.length_cons]; omega
      rw [hlen, hpos]
      cases t with
      | dir d =>
        cases hfl : flushPending st with
        | error e => exact ⟨.error e, fun X => by rw [List.cons_append, scanIncFile_dir, hfl]⟩
        | ok st' =>
          cases hj : (d.kind == Kind.Jsight && !stack.isEmpty) with
          | true =>
            exact ⟨.error (.inc (.jsightInIncluded cur pos)), fun X => by
              rw [List.cons_append, scanIncFile_dir, hfl]; simp only [hj, ↓reduceIte]⟩
          | false =>
            obtain ⟨o, ho⟩ := ih N (pos + 1) { st' with pending := some d, traces := st'.traces ++ [(d.id, stack)] }
            exact ⟨o, fun X => by
              rw [List.cons_append, scanIncFile_dir, hfl]
              simp only [hj, Bool.false_eq_true, ↓reduceIte]
              exact ho X⟩
      | close =>
        cases hfl : flushPending st with
        | error e => exact ⟨.error e, fun X => by rw [List.cons_append, scanIncFile_close, hfl]⟩
        | ok st' =>
          cases hce : closeExplicit st'.ctx.frames st'.ctx.roots with
          | error e => exact ⟨.error (.ctx e), fun X => by rw [List.cons_append, scanIncFile_close, hfl]; simp only [hce]⟩
          | ok c =>
            obtain ⟨o, ho⟩ := ih N (pos + 1) { st' with ctx := c }
            exact ⟨o, fun X => by
              rw [List.cons_append, scanIncFile_close, hfl]; simp only [hce]; exact ho X⟩
      | incl g v =>
        cases hfl : flushPending st with
        | error e => exact ⟨.error e, fun X => by rw [List.cons_append, scanIncFile_incl, hfl]⟩
        | ok stf =>
        cases v with
        | false =>
          exact ⟨.error (.inc (.badName cur pos)), fun X => by rw [List.cons_append, scanIncFile_incl, hfl]; rfl⟩
        | true =>
          cases hg : fs.get? g with
          | none =>
            exact ⟨.error (.inc (.missing cur pos)), fun X => by
              rw [List.cons_append, scanIncFile_incl, hfl]; simp only [hg]; rfl⟩
          | some e =>
            cases e with
            | directory =>
              exact ⟨.error (.inc (.isDirectory cur pos)), fun X => by
                rw [List.cons_append, scanIncFile_incl, hfl]; simp only [hg]; rfl⟩
            | file body =>
              cases hs : stack.any (·.1 == cur) with
              | true =>
                exact ⟨.error (.inc (.recursion cur pos)), fun X => by
                  rw [List.cons_append, scanIncFile_incl, hfl]; simp [hg, hs]⟩
              | false =>
                cases hi : scanIncFile fs N ((cur, pos) :: stack) g 0 body stf with
                | error e =>
                  exact ⟨.error e, fun X => by
                    rw [List.cons_append, scanIncFile_incl_file_ok fs N stack cur pos g _ body st stf hg hs hfl, hi]⟩
                | ok st' =>
                  obtain ⟨o, ho⟩ := ih N (pos + 1) st'
                  exact ⟨o, fun X => by
                    rw [List.cons_append, scanIncFile_incl_file_ok fs N stack cur pos g _ body st stf hg hs hfl, hi]
                    exact ho X⟩

/-- the INCLUDE of a file without INCLUDE and JSIGHT, against its text, from the same state: the two runs end alike.
(Since the repair F42 the directive that is pending at the end of the included file is placed at the very next step of
the spliced run as well — also when that step is an INCLUDE —, so a failure to place it is the same error in both runs.
Since the repair of `processEOF` nothing else happens at the end of an included file: the unclosed-parenthesis check is
made at the end of the root file only, and the included file is scanned below the non-empty stack `(cur, pos) :: stack`.) -/
theorem textual_at (fs : FS) (stack : List (Nat × Nat)) (cur pos f : Nat) (body post : List FTok) (st : PScan)
    (hf : fs.get? f = some (.file body)) (hincl : ∀ g v, FTok.incl g v ∉ body)
    (hjs : ∀ d, FTok.dir d ∈ body → d.kind ≠ Kind.Jsight) (hs : stack.any (·.1 == cur) = false) (n1 n2 : Nat)
    (h1 : scanIncFile fs n1 stack cur pos (FTok.incl f true :: post) st ≠ .error (.inc .fuel))
    (h2 : scanIncFile fs n2 stack cur pos (body ++ post) st ≠ .error (.inc .fuel)) :
    view (scanIncFile fs n1 stack cur pos (FTok.incl f true :: post) st) =
      view (scanIncFile fs n2 stack cur pos (body ++ post) st) := by
  have hcut := scanIncFile_mono fs n1 stack cur pos (FTok.incl f true :: post) st (n2 + body.length + 2) h1
  have hspl := scanIncFile_mono fs n2 stack cur pos (body ++ post) st (n1 + body.length + body.length + 1) h2
  have e1 : n1 + (n2 + body.length + 2) = (n1 + n2 + body.length) + 2 := by omega
  have e2 : n2 + (n1 + body.length + body.length + 1) = (n1 + n2 + 1 + body.length) + body.length := by omega
  have e3 : n1 + n2 + body.length + 1 = (n1 + n2 + 1) + body.length := by omega
  rw [e1, scanIncFile_incl_file_unplaced fs _ stack cur pos f post body st hf hs, e3] at hcut
  rw [e2] at hspl
  obtain ⟨tr1, hin⟩ := scanIncFile_plain fs ((cur, pos) :: stack) f [] body hincl hjs (n1 + n2 + 1) 0 st
  obtain ⟨tr2, hout⟩ := scanIncFile_plain fs stack cur post body hincl hjs (n1 + n2 + 1 + body.length) pos st
  rw [List.append_nil] at hin
  rw [hin] at hcut
  rw [hout] at hspl
  rw [← hcut, ← hspl]
  cases hfr : flatRun body st.ctx st.pending with
  | error e => rfl
  | ok cp =>
    simp only []
    rw [scanIncFile_nil, flush_eq]
    simp only []
    have e4 : n1 + n2 + 1 + body.length = (n1 + n2 + body.length) + 1 := by omega
    cases hfc : flushC cp.1 cp.2 with
    | error e =>
      simp only []
      rw [e4, scanIncFile_flush_error fs _ stack cur (pos + body.length) post
        { ctx := cp.1, pending := cp.2, traces := tr2 } (.ctx e) (by rw [flush_eq]; simp only [hfc])]
    | ok c' =>
      simp only [List.isEmpty_cons, Bool.false_and, Bool.false_eq_true, ↓reduceIte]
      have hfl : flushPending { ctx := cp.1, pending := cp.2, traces := tr2 } =
          .ok { ctx := c', pending := none, traces := tr2 } := by rw [flush_eq]; simp only [hfc]
      rw [scanIncFile_flush fs _ stack cur (pos + body.length) post _ _ hfl]
      exact scanIncFile_view fs _ stack stack cur _ _ post _ _ rfl rfl rfl

/-- a comparison of the scans of two continuations `X`, `Y` carries over to `pre ++ X`, `pre ++ Y` -/
theorem prefix_lift (fs : FS) (stack : List (Nat × Nat)) (cur : Nat) (pre X Y : List FTok)
    (Q : Except ProjErr PScan → Except ProjErr PScan → Prop) (hQe : ∀ e, Q (.error e) (.error e))
    (hQ : ∀ (m p : Nat) (st1 : PScan),
      scanIncFile fs m stack cur p X st1 ≠ .error (.inc .fuel) → scanIncFile fs m stack cur p Y st1 ≠ .error (.inc .fuel) →
      Q (scanIncFile fs m stack cur p X st1) (scanIncFile fs m stack cur p Y st1))
    (n1 n2 pos : Nat) (st : PScan)
    (h1 : scanIncFile fs n1 stack cur pos (pre ++ X) st ≠ .error (.inc .fuel))
    (h2 : scanIncFile fs n2 stack cur pos (pre ++ Y) st ≠ .error (.inc .fuel)) :
    Q (scanIncFile fs n1 stack cur pos (pre ++ X) st) (scanIncFile fs n2 stack cur pos (pre ++ Y) st) := by
  have e1 := scanIncFile_mono fs n1 stack cur pos (pre ++ X) st n2 h1
  have e2 := scanIncFile_mono fs n2 stack cur pos (pre ++ Y) st n1 h2
  rw [Nat.add_comm n2 n1] at e2
  rw [← e1] at h1
  rw [← e2] at h2
  rw [← e1, ← e2]
  obtain ⟨o, ho⟩ := scanIncFile_prefix fs stack cur pre (n1 + n2) pos st
  rw [ho X] at h1
  rw [ho Y] at h2
  rw [ho X, ho Y]
  cases o with
  | error e => exact hQe e
  | ok st1 => exact hQ _ _ st1 h1 h2

/-! ### decidable equality of forests and results (only for the closing `example`s of the Props file;
      not global instances) -/

mutual
  def decTree : (a b : Tree) → Decidable (a = b)
    | .node d k, .node d' k' =>
      if hd : d = d' then
        match decForest k k' with
        | isTrue hk => isTrue (by rw [hd, hk])
        | isFalse hk => isFalse (by intro h; cases h; exact hk rfl)
      else isFalse (by intro h; cases h; exact hd rfl)
  def decForest : (a b : List Tree) → Decidable (a = b)
    | [], [] => isTrue rfl
    | [], _ :: _ => isFalse (by intro h; cases h)
    | _ :: _, [] => isFalse (by intro h; cases h)
    | a :: as, b :: bs =>
      match decTree a b, decForest as bs with
      | isTrue h1, isTrue h2 => isTrue (by rw [h1, h2])
      | isFalse h1, _ => isFalse (by intro h; cases h; exact h1 rfl)
      | _, isFalse h2 => isFalse (by intro h; cases h; exact h2 rfl)
end

def decExcept {ε α : Type} [DecidableEq ε] [DecidableEq α] : DecidableEq (Except ε α)
  | .ok a, .ok b => if h : a = b then isTrue (by rw [h]) else isFalse (by intro h'; cases h'; exact h rfl)
  | .error a, .error b => if h : a = b then isTrue (by rw [h]) else isFalse (by intro h'; cases h'; exact h rfl)
  | .ok _, .error _ => isFalse (by intro h; cases h)
  | .error _, .ok _ => isFalse (by intro h; cases h)

end JSight.C08
