import JSight.Model.Build
/-!
Helpers of `Props/C04_Build.lean`: the catalog construction (`Model/Build.lean`) seen as a fold of
`addDirective` over the directives in source order, a normal form of one step, and the lemmas that
lift facts about one step to the whole construction.
-/
namespace JSight.C04B
open JSight JSight.Build JSight.Gen

/-! ### the directives in source (pre-)order -/

mutual
  def flat : BTree → List BDir | .node d kids => d :: flatF kids
  def flatF : List BTree → List BDir | [] => [] | t :: r => flat t ++ flatF r
end

/-- a directive together with what `addDirective` reads of its surroundings -/
structure Ent where
  d : BDir
  kids : List BDir
  anc : List Up

/-- the parent chain of an entry, the directive first -/
def Ent.chain (e : Ent) : List BDir := e.d :: e.anc.map (·.d)

mutual
  def flatA (anc : List Up) : BTree → List Ent
    | .node d kids => ⟨d, kids.map BTree.dir, anc⟩ :: flatAF (⟨d, kids.map BTree.dir⟩ :: anc) kids
  def flatAF (anc : List Up) : List BTree → List Ent
    | [] => []
    | t :: r => flatA anc t ++ flatAF anc r
end

def step (banned : List Kind) (e : Ent) (c : Cat) : R Cat := addDirective banned e.d e.kids e.anc c

def run (banned : List Kind) : List Ent → Cat → R Cat
  | [], c => .ok c
  | e :: r, c =>
    match step banned e c with
    | .error x => .error x
    | .ok c' => run banned r c'

theorem run_append (banned : List Kind) (l₁ l₂ : List Ent) (c : Cat) :
    run banned (l₁ ++ l₂) c = (match run banned l₁ c with | .error x => .error x | .ok c' => run banned l₂ c') := by
  induction l₁ generalizing c with
  | nil => simp [run]
  | cons e r ih =>
    simp only [List.cons_append, run]
    cases step banned e c with
    | error x => rfl
    | ok c' => exact ih c'

mutual
  theorem addBranch_eq_run (banned : List Kind) (anc : List Up) :
      ∀ (t : BTree) (c : Cat), addBranch banned anc t c = run banned (flatA anc t) c
    | .node d kids, c => by
      rw [addBranch, flatA, run]
      simp only [step]
      cases addDirective banned d (kids.map BTree.dir) anc c with
      | error x => rfl
      | ok c' => exact addForest_eq_run banned _ kids c'
  theorem addForest_eq_run (banned : List Kind) (anc : List Up) :
      ∀ (f : List BTree) (c : Cat), addForest banned anc f c = run banned (flatAF anc f) c
    | [], c => by rw [addForest, flatAF, run]
    | t :: r, c => by
      rw [addForest, flatAF, run_append, addBranch_eq_run banned anc t c]
      cases run banned (flatA anc t) c with
      | error x => rfl
      | ok c' => exact addForest_eq_run banned anc r c'
end

mutual
  theorem flatA_dirs (anc : List Up) : ∀ t : BTree, (flatA anc t).map (·.d) = flat t
    | .node d kids => by simp [flatA, flat, flatAF_dirs _ kids]
  theorem flatAF_dirs (anc : List Up) : ∀ f : List BTree, (flatAF anc f).map (·.d) = flatF f
    | [] => by simp [flatAF, flatF]
    | t :: r => by simp [flatAF, flatF, flatA_dirs anc t, flatAF_dirs anc r]
end

theorem flatAF_append (anc : List Up) (f g : List BTree) : flatAF anc (f ++ g) = flatAF anc f ++ flatAF anc g := by
  induction f with
  | nil => simp [flatAF]
  | cons t r ih => simp [flatAF, ih]

theorem flatF_append (f g : List BTree) : flatF (f ++ g) = flatF f ++ flatF g := by
  induction f with
  | nil => simp [flatF]
  | cons t r ih => simp [flatF, ih]

theorem addForest_append (banned : List Kind) (anc : List Up) (f g : List BTree) (c : Cat) :
    addForest banned anc (f ++ g) c =
      (match addForest banned anc f c with | .error x => .error x | .ok c' => addForest banned anc g c') := by
  simp only [addForest_eq_run, flatAF_append, run_append]

/-! ### lifting facts about one step to a run -/

theorem run_inv {banned : List Kind} (P : Cat → Prop) (l : List Ent)
    (hstep : ∀ e ∈ l, ∀ c c', P c → step banned e c = .ok c' → P c') :
    ∀ c c', P c → run banned l c = .ok c' → P c' := by
  induction l with
  | nil => intro c c' hp h; simp [run] at h; exact h ▸ hp
  | cons e r ih =>
    intro c c' hp h
    simp only [run] at h
    cases hs : step banned e c with
    | error x => simp [hs] at h
    | ok c₁ =>
      simp only [hs] at h
      exact ih (fun e' he' => hstep e' (List.mem_cons_of_mem _ he')) c₁ c'
        (hstep e (List.mem_cons_self ..) c c₁ hp hs) h

theorem run_proj {banned : List Kind} {α : Type} (m : Cat → List α) (g : Ent → List α)
    (hstep : ∀ e c c', step banned e c = .ok c' → m c' = m c ++ g e) :
    ∀ (l : List Ent) c c', run banned l c = .ok c' → m c' = m c ++ l.flatMap g := by
  intro l
  induction l with
  | nil => intro c c' h; simp [run] at h; simp [h]
  | cons e r ih =>
    intro c c' h
    simp only [run] at h
    cases hs : step banned e c with
    | error x => simp [hs] at h
    | ok c₁ =>
      simp only [hs] at h
      rw [ih c₁ c' h, hstep e c c₁ hs]
      simp

theorem run_all {banned : List Kind} (Q : Ent → Prop)
    (hstep : ∀ e c c', step banned e c = .ok c' → Q e) :
    ∀ (l : List Ent) c c', run banned l c = .ok c' → ∀ e ∈ l, Q e := by
  intro l
  induction l with
  | nil => intro c c' _ e he; cases he
  | cons e r ih =>
    intro c c' h
    simp only [run] at h
    cases hs : step banned e c with
    | error x => simp [hs] at h
    | ok c₁ =>
      simp only [hs] at h
      intro e' he'
      cases he' with
      | head => exact hstep _ c c₁ hs
      | tail _ hm => exact ih c₁ c' h e' hm

/-- an entry that fails in every state satisfying a preserved invariant makes the run fail -/
theorem run_fails_of_mem {banned : List Kind} (J : Cat → Prop) (l : List Ent)
    (hkeep : ∀ e ∈ l, ∀ c c', J c → step banned e c = .ok c' → J c')
    (e : Ent) (he : e ∈ l) (hbad : ∀ c c', J c → step banned e c ≠ .ok c') :
    ∀ c c', J c → run banned l c ≠ .ok c' := by
  induction l with
  | nil => cases he
  | cons a r ih =>
    intro c c' hj h
    simp only [run] at h
    cases hs : step banned a c with
    | error x => simp [hs] at h
    | ok c₁ =>
      simp only [hs] at h
      cases he with
      | head => exact hbad c c₁ hj hs
      | tail _ hm =>
        exact ih (fun e' he' => hkeep e' (List.mem_cons_of_mem _ he')) hm c₁ c'
          (hkeep a (List.mem_cons_self ..) c c₁ hj hs) h

/-- two entries of a class whose first member sets a mark that persists and on which every member fails -/
theorem run_conflict {banned : List Kind} (E : Ent → Prop) (Mark : Cat → Prop)
    (hset : ∀ e c c', E e → step banned e c = .ok c' → Mark c')
    (hkeep : ∀ e c c', Mark c → step banned e c = .ok c' → Mark c')
    (hclash : ∀ e c c', E e → Mark c → step banned e c ≠ .ok c') :
    ∀ (l : List Ent) (i j : Nat) (e₁ e₂ : Ent), i < j → l[i]? = some e₁ → l[j]? = some e₂ → E e₁ → E e₂ →
      ∀ c c', run banned l c ≠ .ok c' := by
  intro l
  induction l with
  | nil => intro i j e₁ e₂ _ hi; simp at hi
  | cons a r ih =>
    intro i j e₁ e₂ hij hi hj h₁ h₂ c c' h
    simp only [run] at h
    cases hs : step banned a c with
    | error x => simp [hs] at h
    | ok c₁ =>
      simp only [hs] at h
      cases j with
      | zero => omega
      | succ j =>
        simp only [List.getElem?_cons_succ] at hj
        cases i with
        | zero =>
          simp only [List.getElem?_cons_zero, Option.some.injEq] at hi
          subst hi
          exact run_fails_of_mem Mark r (fun e _ c c' => hkeep e c c') e₂ (List.mem_of_getElem? hj)
            (fun c c' hm => hclash e₂ c c' h₂ hm) c₁ c' (hset _ c c₁ h₁ hs) h
        | succ i =>
          simp only [List.getElem?_cons_succ] at hi
          exact ih i j e₁ e₂ (by omega) hi hj h₁ h₂ c₁ c' h

/-! ### the normal form of one step -/

/-- the kinds whose handler changes nothing of what the faithfulness theorems read -/
def neutral : Kind → Bool
  | .Description | .Body | .Request | .HTTPResponseCode | .Path | .Headers | .Query | .Enum | .Macro | .Paste
  | .Include | .Protocol | .Params | .Result | .TAG | .Tags => true
  | _ => false

def isMeth (k : Kind) : Bool := isHTTP k || k == .Method

/-- the interaction id of a method directive -/
def idOf (e : Ent) : Except Msg IId := if e.d.kind == .Method then rpcIdOf e.chain else httpIdOf e.chain

def KeepI (g : InterM → InterM) : Prop := ∀ x, (g x).iid = x.iid ∧ (g x).annot = x.annot ∧ (g x).tags = x.tags
def KeepT (g : TagM → TagM) : Prop :=
  ∀ x, (g x).name = x.name ∧ (g x).title = x.title ∧ (g x).declared = x.declared
def KeepS (g : ServerM → ServerM) : Prop := ∀ x, (g x).name = x.name ∧ (g x).annot = x.annot

inductive StepR (e : Ent) (c : Cat) : Cat → Prop
  | same : neutral e.d.kind → StepR e c c
  | jsight : e.d.kind = .Jsight → c.jsight = [] → StepR e c { c with jsight := v03 }
  | info : e.d.kind = .Info → c.info = none → StepR e c { c with info := some { id := e.d.id } }
  | title (i : InfoM) : e.d.kind = .Title → c.info = some i → i.title = [] → e.d.param "Title" ≠ [] →
      StepR e c { c with info := some { i with title := e.d.param "Title" } }
  | version (i : InfoM) : e.d.kind = .Version → c.info = some i → i.version = [] → e.d.param "Version" ≠ [] →
      StepR e c { c with info := some { i with version := e.d.param "Version" } }
  | descrInfo (i : InfoM) (text : Bytes) : e.d.kind = .Description →
      (∃ p r, e.anc = p :: r ∧ p.d.kind = .Info) → c.info = some i → i.descr = none →
      StepR e c { c with info := some { i with descr := some text } }
  | inters (g : InterM → InterM) : neutral e.d.kind → KeepI g → StepR e c { c with inters := c.inters.map g }
  | tagsMap (g : TagM → TagM) : neutral e.d.kind → KeepT g → StepR e c { c with tags := c.tags.map g }
  | server : e.d.kind = .Server → e.d.param "Name" ≠ [] → (∀ s ∈ c.servers, s.name ≠ e.d.param "Name") →
      StepR e c { c with servers := c.servers ++ [{ name := e.d.param "Name", annot := e.d.annot }] }
  | baseUrl (g : ServerM → ServerM) : e.d.kind = .BaseURL → KeepS g →
      StepR e c { c with servers := c.servers.map g }
  | type (nt : Bytes) : e.d.kind = .Type → e.d.param "Name" ≠ [] → (∀ t ∈ c.types, t.name ≠ e.d.param "Name") →
      StepR e c { c with types := c.types ++ [{ name := e.d.param "Name", annot := e.d.annot, nota := nt }] }
  | url (sim : List (Bytes × Bytes)) : e.d.kind = .URL → e.d.param "Path" ∉ c.uniqURL →
      StepR e c { c with similar := sim, uniqURL := e.d.param "Path" :: c.uniqURL }
  | method (sim : List (Bytes × Bytes)) (i : IId) (ns : List Bytes) (extra : List TagM) (g : TagM → TagM) :
      isMeth e.d.kind → idOf e = .ok i → c.hasInter i = false → KeepT g →
      (extra = [] ∨ ∃ a, extra = [a] ∧ a.declared = false ∧ c.getTag a.name = none) →
      StepR e c { c with similar := sim, tags := (c.tags ++ extra).map g,
                         inters := c.inters ++ [{ iid := i, annot := e.d.annot, tags := ns }] }
  | proto (p : List Nat) : neutral e.d.kind → StepR e c { c with protoURLs := p }

theorem isEmpty_false_ne {α} {l : List α} (h : l.isEmpty = false) : l ≠ [] := by
  intro h'; subst h'; simp at h

theorem addJSight_ok {d kids anc c c'} (hk : d.kind = .Jsight) (h : addJSight d c = .ok c') :
    StepR ⟨d, kids, anc⟩ c c' := by
  unfold addJSight at h
  simp only [fail] at h
  split at h; · cases h
  split at h; · cases h
  split at h; · cases h
  split at h; · cases h
  rename_i h1 h2 h3 h4
  cases h
  simp at h2 h4
  rw [h2]
  exact .jsight hk h4

theorem bind_ok {α β} {x : R α} {f : α → R β} {b : β} (h : x >>= f = .ok b) : ∃ a, x = .ok a ∧ f a = .ok b := by
  cases x with
  | error e => cases h
  | ok a => exact ⟨a, rfl, h⟩

theorem liftAt_ok {α} {d : BDir} {x : Except Msg α} {a : α} (h : liftAt d x = .ok a) : x = .ok a := by
  cases x with
  | error e => cases h
  | ok b => cases h; rfl

/-- peel the failing branches of a hypothesis `h : (if … then error … else …) = ok c'` -/
macro "peel " h:ident : tactic =>
  `(tactic| (simp only [fail] at $h:ident; repeat' (split at $h:ident <;> try (cases $h:ident; done))))

theorem addInfo_ok {d kids anc c c'} (hk : d.kind = .Info) (h : addInfo d c = .ok c') :
    StepR ⟨d, kids, anc⟩ c c' := by
  unfold addInfo at h
  peel h
  rename_i h1 h2 h3
  cases h
  exact .info hk (by simpa using h3)

theorem addTitle_ok {d kids anc c c'} (hk : d.kind = .Title) (h : addTitle d c = .ok c') :
    StepR ⟨d, kids, anc⟩ c c' := by
  unfold addTitle at h
  peel h
  rename_i i hi _
  cases h
  refine .title i hk hi ?_ ?_ <;> simp_all

theorem addVersion_ok {d kids anc c c'} (hk : d.kind = .Version) (h : addVersion d c = .ok c') :
    StepR ⟨d, kids, anc⟩ c c' := by
  unfold addVersion at h
  peel h
  rename_i i hi _
  cases h
  refine .version i hk hi ?_ ?_ <;> simp_all

theorem updInter_keep (c : Cat) (i : IId) (f : InterM → InterM) (hf : KeepI f) :
    ∃ g, KeepI g ∧ c.updInter i f = { c with inters := c.inters.map g } := by
  refine ⟨fun x => if x.iid == i then f x else x, ?_, rfl⟩
  intro x
  by_cases hx : (x.iid == i) = true
  · simp only [hx, if_true]; exact hf x
  · simp [hx]

theorem updTag_keep (c : Cat) (n : Bytes) (f : TagM → TagM) (hf : KeepT f) :
    ∃ g, KeepT g ∧ c.updTag n f = { c with tags := c.tags.map g } := by
  refine ⟨fun x => if x.name == n then f x else x, ?_, rfl⟩
  intro x
  by_cases hx : (x.name == n) = true
  · simp only [hx, if_true]; exact hf x
  · simp [hx]

theorem step_updInter {e : Ent} (hn : neutral e.d.kind) (c : Cat) (i : IId) (f : InterM → InterM) (hf : KeepI f) :
    StepR e c (c.updInter i f) := by
  obtain ⟨g, hg, heq⟩ := updInter_keep c i f hf
  rw [heq]; exact .inters g hn hg

theorem step_updTag {e : Ent} (hn : neutral e.d.kind) (c : Cat) (n : Bytes) (f : TagM → TagM) (hf : KeepT f) :
    StepR e c (c.updTag n f) := by
  obtain ⟨g, hg, heq⟩ := updTag_keep c n f hf
  rw [heq]; exact .tagsMap g hn hg

theorem addDescription_ok {d kids anc c c'} (hk : d.kind = .Description) (h : addDescription d anc c = .ok c') :
    StepR ⟨d, kids, anc⟩ c c' := by
  have hn : neutral (Ent.mk d kids anc).d.kind = true := by simp [hk, neutral]
  unfold addDescription at h
  simp only [fail] at h
  split at h; · cases h
  split at h; · cases h
  split at h; · cases h
  split at h; · cases h
  split at h; · cases h
  split at h
  · split at h; · cases h
    split at h; · cases h
    cases h
    exact .descrInfo _ _ hk ⟨_, _, rfl, by simp_all⟩ ‹_› (by simp_all)
  split at h
  · obtain ⟨i, hi, h⟩ := bind_ok h
    split at h; · cases h
    split at h; · cases h
    cases h
    exact step_updInter hn _ _ _ (fun x => ⟨rfl, rfl, rfl⟩)
  split at h
  · obtain ⟨i, hi, h⟩ := bind_ok h
    split at h; · cases h
    split at h; · cases h
    cases h
    exact step_updInter hn _ _ _ (fun x => ⟨rfl, rfl, rfl⟩)
  split at h
  · split at h; · cases h
    split at h; · cases h
    cases h
    exact step_updTag hn _ _ _ (fun x => ⟨rfl, rfl, rfl⟩)
  · cases h
theorem addServer_ok {d kids anc c c'} (hk : d.kind = .Server) (h : addServer d c = .ok c') :
    StepR ⟨d, kids, anc⟩ c c' := by
  unfold addServer at h
  peel h
  cases h
  refine .server hk ?_ ?_ <;> simp_all

theorem addBaseUrl_ok {d kids anc c c'} (hk : d.kind = .BaseURL) (h : addBaseUrl d anc c = .ok c') :
    StepR ⟨d, kids, anc⟩ c c' := by
  unfold addBaseUrl at h
  peel h
  cases h
  refine .baseUrl _ hk ?_
  intro x
  dsimp only
  split <;> simp

theorem addType_ok {d kids anc c c'} (hk : d.kind = .Type) (h : addType d c = .ok c') :
    StepR ⟨d, kids, anc⟩ c c' := by
  unfold addType at h
  simp only [fail] at h
  split at h; · cases h
  split at h; · cases h
  obtain ⟨nt, _, h⟩ := bind_ok h
  split at h; · cases h
  cases h
  refine .type nt hk ?_ ?_ <;> simp_all

theorem pathChain_url {d : BDir} {r : List BDir} {p : Bytes} (hk : d.kind = .URL)
    (h : pathChain (d :: r) = .ok p) : p = d.param "Path" := by
  simp only [pathChain, hk, beq_self_eq_true, if_true, chkPath] at h
  split at h
  · cases h; rfl
  · cases h

theorem addURL_ok {d kids anc c c'} (hk : d.kind = .URL) (h : addURL d kids anc c = .ok c') :
    StepR ⟨d, kids, anc⟩ c c' := by
  unfold addURL at h
  simp only [fail] at h
  split at h; · cases h
  obtain ⟨path, hp, h⟩ := bind_ok h
  obtain ⟨pp, _, h⟩ := bind_ok h
  have hp := pathChain_url hk (liftAt_ok hp)
  subst hp
  split at h; · cases h
  split at h; · cases h
  split at h; · cases h
  cases h
  refine .url _ hk ?_
  simp_all
theorem tagsFromDirective_ok {c : Cat} {td : BDir} {ns : List Bytes} (h : tagsFromDirective c td = .ok ns) :
    ns = td.unnamed ∧ ∀ n ∈ ns, ∃ t, c.getTag n = some t ∧ t.declared = true := by
  unfold tagsFromDirective at h
  peel h
  rename_i hall
  cases h
  refine ⟨rfl, ?_⟩
  intro n hn
  have := List.all_eq_true.mp hall n hn
  split at this
  · exact ⟨_, ‹_›, this⟩
  · cases this

theorem tagsFor_ok {c : Cat} {kids : List BDir} {anc : List Up} {i : IId} {ns : List Bytes} {c₂ : Cat}
    (h : tagsFor c kids anc i = .ok (ns, c₂)) :
    ∃ extra, c₂ = { c with tags := c.tags ++ extra } ∧
      (extra = [] ∨ ∃ a, extra = [a] ∧ a.declared = false ∧ c.getTag a.name = none) ∧
      (∀ n ∈ ns, (c₂.getTag n).isSome) := by
  unfold tagsFor at h
  dsimp only at h
  repeat' split at h
  · obtain ⟨ns', h1, h⟩ := bind_ok h
    cases h
    refine ⟨[], by simp, .inl rfl, ?_⟩
    intro n hn
    obtain ⟨t, ht, _⟩ := (tagsFromDirective_ok h1).2 n hn
    simp [ht]
  · obtain ⟨ns', h1, h⟩ := bind_ok h
    cases h
    refine ⟨[], by simp, .inl rfl, ?_⟩
    intro n hn
    obtain ⟨t, ht, _⟩ := (tagsFromDirective_ok h1).2 n hn
    simp [ht]
  · cases h
    refine ⟨[], by simp, .inl rfl, ?_⟩
    intro n hn
    simp_all
  · cases h
    refine ⟨[_], rfl, .inr ⟨_, rfl, rfl, ‹_›⟩, ?_⟩
    intro n hn
    simp only [List.mem_singleton] at hn
    subst hn
    simp_all [Cat.getTag, List.find?_append]

theorem attachAll_keep (i : IId) : ∀ (ns : List Bytes) (c : Cat),
    ∃ g, KeepT g ∧ attachAll c i ns = { c with tags := c.tags.map g }
  | [], c => ⟨id, fun x => ⟨rfl, rfl, rfl⟩, by simp [attachAll]⟩
  | n :: r, c => by
    have hk : KeepT (attach i) := by
      intro x; unfold attach; split <;> exact ⟨rfl, rfl, rfl⟩
    obtain ⟨g₁, hg₁, h₁⟩ := updTag_keep c n (attach i) hk
    obtain ⟨g₂, hg₂, h₂⟩ := attachAll_keep i r (c.updTag n (attach i))
    refine ⟨g₂ ∘ g₁, ?_, ?_⟩
    · intro x
      have a := hg₁ x
      have b := hg₂ (g₁ x)
      simp only [Function.comp]
      exact ⟨b.1.trans a.1, b.2.1.trans a.2.1, b.2.2.trans a.2.2⟩
    · rw [attachAll, h₂, h₁]; simp

theorem isHTTP_iff (k : Kind) : isHTTP k = true ↔ (k = .Get ∨ k = .Post ∨ k = .Put ∨ k = .Patch ∨ k = .Delete) := by
  cases k <;> decide

theorem addHTTPMethod_ok {d kids anc c c'} (hk : isHTTP d.kind = true) (h : addHTTPMethod d kids anc c = .ok c') :
    StepR ⟨d, kids, anc⟩ c c' := by
  unfold addHTTPMethod at h
  simp only [fail] at h
  obtain ⟨path, _, h⟩ := bind_ok h
  obtain ⟨pp, _, h⟩ := bind_ok h
  split at h; · cases h
  rename_i sim _
  obtain ⟨i, hi, h⟩ := bind_ok h
  split at h; · cases h
  rename_i hhas
  obtain ⟨⟨ns, c₂⟩, ht, h⟩ := bind_ok h
  obtain ⟨extra, rfl, hex, _⟩ := tagsFor_ok ht
  obtain ⟨g, hg, ha⟩ := attachAll_keep i ns { c with similar := sim, tags := c.tags ++ extra }
  cases h
  simp only [] at ha
  rw [ha]
  have hne : d.kind ≠ .Method := by intro h'; rw [h'] at hk; revert hk; decide
  exact .method sim i ns extra g (by simp [isMeth, hk]) (by simpa [idOf, Ent.chain, hne] using liftAt_ok hi)
    (by simpa [Cat.hasInter] using hhas) hg hex
theorem addJsonRpcMethod_ok {d kids anc c c'} (hk : d.kind = .Method) (h : addJsonRpcMethod d kids anc c = .ok c') :
    StepR ⟨d, kids, anc⟩ c c' := by
  unfold addJsonRpcMethod at h
  simp only [fail] at h
  split at h; · cases h
  split at h; · cases h
  split at h; · cases h
  obtain ⟨i, hi, h⟩ := bind_ok h
  split at h; · cases h
  rename_i hhas
  obtain ⟨⟨ns, c₂⟩, ht, h⟩ := bind_ok h
  obtain ⟨extra, rfl, hex, _⟩ := tagsFor_ok ht
  obtain ⟨g, hg, ha⟩ := attachAll_keep i ns { c with tags := c.tags ++ extra }
  cases h
  simp only [] at ha
  rw [ha]
  exact .method c.similar i ns extra g (by simp [isMeth, hk]) (by simpa [idOf, Ent.chain, hk] using liftAt_ok hi)
    (by simp at hhas; simpa [Cat.hasInter] using hhas.1) hg hex

theorem StepR.trans_inters {e : Ent} {c c₁ c₂ : Cat} (hn : neutral e.d.kind)
    (h₁ : ∃ g, KeepI g ∧ c₁ = { c with inters := c.inters.map g })
    (h₂ : ∃ g, KeepI g ∧ c₂ = { c₁ with inters := c₁.inters.map g }) : StepR e c c₂ := by
  obtain ⟨g₁, hg₁, rfl⟩ := h₁
  obtain ⟨g₂, hg₂, rfl⟩ := h₂
  have : ({ c with inters := (c.inters.map g₁).map g₂ } : Cat) = { c with inters := c.inters.map (g₂ ∘ g₁) } := by
    simp
  simp only [] 
  rw [this]
  refine .inters _ hn ?_
  intro x
  have a := hg₁ x
  have b := hg₂ (g₁ x)
  exact ⟨b.1.trans a.1, b.2.1.trans a.2.1, b.2.2.trans a.2.2⟩

/-- `c'` is `c` with its interactions mapped by a core-preserving function -/
def IMap (c c' : Cat) : Prop := ∃ g, KeepI g ∧ c' = { c with inters := c.inters.map g }

theorem IMap.refl (c : Cat) : IMap c c := ⟨id, fun _ => ⟨rfl, rfl, rfl⟩, by simp⟩
theorem IMap.upd (c : Cat) (i : IId) (f : InterM → InterM) (hf : KeepI f) : IMap c (c.updInter i f) :=
  updInter_keep c i f hf
theorem IMap.trans {c c₁ c₂ : Cat} (h₁ : IMap c c₁) (h₂ : IMap c₁ c₂) : IMap c c₂ := by
  obtain ⟨g₁, hg₁, rfl⟩ := h₁
  obtain ⟨g₂, hg₂, rfl⟩ := h₂
  refine ⟨g₂ ∘ g₁, ?_, by simp⟩
  intro x
  have a := hg₁ x
  have b := hg₂ (g₁ x)
  exact ⟨b.1.trans a.1, b.2.1.trans a.2.1, b.2.2.trans a.2.2⟩
theorem IMap.step {e : Ent} {c c' : Cat} (hn : neutral e.d.kind) (h : IMap c c') : StepR e c c' := by
  obtain ⟨g, hg, rfl⟩ := h
  exact .inters g hn hg

theorem addQuery_im {d anc c c'} (h : addQuery d anc c = .ok c') : IMap c c' := by
  unfold addQuery at h
  simp only [fail] at h
  split at h; · cases h
  split at h; · cases h
  obtain ⟨i, _, h⟩ := bind_ok h
  split at h; · cases h
  split at h; · cases h
  cases h
  exact .upd _ _ _ (fun x => ⟨rfl, rfl, rfl⟩)

theorem addRequestBody_im {d anc b c c'} (h : addRequestBody d anc b c = .ok c') : IMap c c' := by
  unfold addRequestBody at h
  simp only [fail] at h
  obtain ⟨i, _, h⟩ := bind_ok h
  split at h; · cases h
  split at h; · cases h
  split at h; · cases h
  cases h
  exact .upd _ _ _ (fun x => ⟨rfl, rfl, rfl⟩)

theorem addRequest_tail_im {d : BDir} {anc : List Up} {b : BodyM} {c c₁ c' : Cat} {b1 b2 b3 b4 b5 : Bool} {m : Msg}
    (hc₁ : IMap c c₁)
    (h : (if b1 = true then addRequestBody d anc b c₁
          else if b2 = true then addRequestBody d anc b c₁
          else if b3 = true then addRequestBody d anc b c₁
          else if b4 = true then addRequestBody d anc b c₁
          else if b5 = true then (.error ⟨d.id, m⟩ : R Cat) else pure c₁) = .ok c') : IMap c c' := by
  repeat' split at h
  any_goals (exact hc₁.trans (addRequestBody_im h))
  · cases h
  · cases h; exact hc₁

theorem addRequest_im {d anc c c'} (h : addRequest d anc c = .ok c') : IMap c c' := by
  unfold addRequest at h
  simp only [fail] at h
  split at h; · cases h
  split at h; · cases h
  obtain ⟨nt, _, h⟩ := bind_ok h
  split at h
  · obtain ⟨i, _, h⟩ := bind_ok h
    split at h
    · split at h
      · -- a second Request directive of one method: refused
        obtain ⟨c₁, h₁, _⟩ := bind_ok h
        cases h₁
      · obtain ⟨c₁, h₁, h⟩ := bind_ok h
        cases h₁
        refine addRequest_tail_im ?_ h
        exact .upd _ _ _ (fun x => ⟨rfl, rfl, rfl⟩)
    · obtain ⟨c₁, h₁, h⟩ := bind_ok h
      cases h₁
      exact addRequest_tail_im (.refl _) h
  · obtain ⟨c₁, h₁, h⟩ := bind_ok h
    cases h₁
    exact addRequest_tail_im (.refl _) h

theorem addResponseBody_im {d anc b c c'} (h : addResponseBody d anc b c = .ok c') : IMap c c' := by
  unfold addResponseBody at h
  simp only [fail] at h
  obtain ⟨i, _, h⟩ := bind_ok h
  split at h; · cases h
  split at h; · cases h
  split at h; · cases h
  cases h
  exact .upd _ _ _ (fun x => ⟨rfl, rfl, rfl⟩)

theorem addResponse_im {d anc c c'} (h : addResponse d anc c = .ok c') : IMap c c' := by
  unfold addResponse at h
  simp only [fail] at h
  split at h; · cases h
  split at h; · cases h
  obtain ⟨nt, _, h⟩ := bind_ok h
  generalize (d.kind == Kind.Body && _) = clash at h
  split at h; · cases h
  split at h
  · obtain ⟨i, _, h⟩ := bind_ok h
    obtain ⟨c₁, h₁, h⟩ := bind_ok h
    cases h₁
    have hc₁ : IMap c (c.updInter i fun x =>
        { x with responses := x.responses ++ [{ id := d.id, code := d.keyword, annot := d.annot }] }) :=
      .upd _ _ _ (fun x => ⟨rfl, rfl, rfl⟩)
    repeat' split at h
    any_goals (exact hc₁.trans (addResponseBody_im h))
    · cases h
    · cases h; exact hc₁
  · obtain ⟨c₁, h₁, h⟩ := bind_ok h
    cases h₁
    repeat' split at h
    any_goals (exact addResponseBody_im h)
    · cases h
    · cases h; exact .refl _

theorem addHeaders_im {d anc c c'} (h : addHeaders d anc c = .ok c') : IMap c c' := by
  unfold addHeaders at h
  simp only [fail] at h
  split at h; · cases h
  split at h; · cases h
  split at h; · cases h
  split at h
  · obtain ⟨i, _, h⟩ := bind_ok h
    split at h; · cases h
    split at h; · cases h
    split at h; · cases h
    cases h
    exact .upd _ _ _ (fun x => ⟨rfl, rfl, rfl⟩)
  split at h
  · obtain ⟨i, _, h⟩ := bind_ok h
    split at h; · cases h
    split at h; · cases h
    split at h; · cases h
    cases h
    exact .upd _ _ _ (fun x => ⟨rfl, rfl, rfl⟩)
  · cases h

theorem addBody_im {d anc c c'} (h : addBody d anc c = .ok c') : IMap c c' := by
  unfold addBody at h
  simp only [fail] at h
  split at h; · cases h
  split at h; · cases h
  split at h; · exact addRequest_im h
  split at h; · exact addResponse_im h
  cases h; exact .refl _

theorem addRpcSchema_im {p d anc c c'} (h : addRpcSchema p d anc c = .ok c') : IMap c c' := by
  unfold addRpcSchema at h
  simp only [fail] at h
  split at h; · cases h
  split at h; · cases h
  obtain ⟨i, _, h⟩ := bind_ok h
  split at h; · cases h
  split at h
  · split at h; · cases h
    cases h
    exact .upd _ _ _ (fun x => ⟨rfl, rfl, rfl⟩)
  · split at h; · cases h
    cases h
    exact .upd _ _ _ (fun x => ⟨rfl, rfl, rfl⟩)

theorem addProtocol_ok {d kids anc c c'} (hk : d.kind = .Protocol) (h : addProtocol d anc c = .ok c') :
    StepR ⟨d, kids, anc⟩ c c' := by
  unfold addProtocol at h
  peel h
  cases h
  exact .proto _ (by simp [hk, neutral])

theorem addTags_ok {d anc c c'} (h : addTags d anc c = .ok c') : c' = c := by
  unfold addTags at h
  split at h; · cases h
  obtain ⟨_, _, h⟩ := bind_ok h
  cases h; rfl
theorem step_ok {banned : List Kind} {e : Ent} {c c' : Cat} (h : step banned e c = .ok c') :
    e.d.kind ∉ banned ∧ StepR e c c' := by
  obtain ⟨d, kids, anc⟩ := e
  unfold step addDirective at h
  simp only [fail] at h
  split at h; · cases h
  rename_i hb
  refine ⟨by simpa using hb, ?_⟩
  have nt : ∀ {k}, d.kind = k → neutral k = true → neutral (Ent.mk d kids anc).d.kind = true := by
    intro k hk hn; simpa [hk] using hn
  split at h
  · exact addJSight_ok ‹_› h
  · exact addInfo_ok ‹_› h
  · exact addTitle_ok ‹_› h
  · exact addVersion_ok ‹_› h
  · exact addDescription_ok ‹_› h
  · exact addServer_ok ‹_› h
  · exact addBaseUrl_ok ‹_› h
  · exact addType_ok ‹_› h
  · exact addURL_ok ‹_› h
  · exact addHTTPMethod_ok (by simp [*, isHTTP_iff]) h
  · exact addHTTPMethod_ok (by simp [*, isHTTP_iff]) h
  · exact addHTTPMethod_ok (by simp [*, isHTTP_iff]) h
  · exact addHTTPMethod_ok (by simp [*, isHTTP_iff]) h
  · exact addHTTPMethod_ok (by simp [*, isHTTP_iff]) h
  · exact (addQuery_im h).step (nt ‹_› rfl)
  · exact (addRequest_im h).step (nt ‹_› rfl)
  · exact (addResponse_im h).step (nt ‹_› rfl)
  · exact (addHeaders_im h).step (nt ‹_› rfl)
  · exact (addBody_im h).step (nt ‹_› rfl)
  · exact addProtocol_ok ‹_› h
  · exact addJsonRpcMethod_ok ‹_› h
  · exact (addRpcSchema_im h).step (nt ‹_› rfl)
  · exact (addRpcSchema_im h).step (nt ‹_› rfl)
  · rw [addTags_ok h]; exact .same (nt ‹_› rfl)
  · cases h
    refine .same ?_
    rename_i h1 h2 h3 h4 h5 h6 h7 h8 h9 h10 h11 h12 h13 h14 h15 h16 h17 h18 h19 h20 h21 h22 h23 h24
    show neutral d.kind = true
    cases hk : d.kind <;> simp_all [neutral]
/-! ### `compile` unpacked -/

theorem compile_ok {banned : List Kind} {f : List BTree} {c : Cat} (h : compile banned f = .ok c) :
    ∃ c₀, collectTags f {} = .ok c₀ ∧ checkTypeNames f = .ok () ∧ (∃ x, pathsForest [] f [] = .ok x) ∧
      (∀ t r, f = t :: r → t.dir.kind = .Jsight) ∧ run banned (flatAF [] f) c₀ = .ok c ∧
      validateInfo c = .ok () ∧ validateRequestBody c.inters = .ok () ∧ validateResponseBody c.inters = .ok () := by
  unfold compile at h
  obtain ⟨c₀, h0, h⟩ := bind_ok h
  obtain ⟨⟨⟩, h1, h⟩ := bind_ok h
  obtain ⟨x, h2, h⟩ := bind_ok h
  have key : (∀ t r, f = t :: r → t.dir.kind = .Jsight) ∧
      (do let c ← addForest banned [] f c₀
          validateInfo c
          validateRequestBody c.inters
          validateResponseBody c.inters
          pure c) = Except.ok c := by
    dsimp only at h
    split at h
    · split at h
      · obtain ⟨_, h3, _⟩ := bind_ok h
        cases h3
      · refine ⟨?_, h⟩
        intro t r hf
        cases hf
        simp_all
    · exact ⟨fun t r hf => (by cases hf), h⟩
  obtain ⟨h3, h⟩ := key
  obtain ⟨c₁, h4, h⟩ := bind_ok h
  obtain ⟨⟨⟩, h5, h⟩ := bind_ok h
  obtain ⟨⟨⟩, h6, h⟩ := bind_ok h
  obtain ⟨⟨⟩, h7, h⟩ := bind_ok h
  cases h
  exact ⟨c₀, h0, h1, ⟨x, h2⟩, h3, by rw [← addForest_eq_run]; exact h4, h5, h6, h7⟩

theorem compile_of {banned : List Kind} {f : List BTree} {c₀ c : Cat} {x : List Nat}
    (h0 : collectTags f {} = .ok c₀) (h1 : checkTypeNames f = .ok ()) (h2 : pathsForest [] f [] = .ok x)
    (h3 : ∀ t r, f = t :: r → t.dir.kind = .Jsight) (h4 : run banned (flatAF [] f) c₀ = .ok c)
    (h5 : validateInfo c = .ok ()) (h6 : validateRequestBody c.inters = .ok ())
    (h7 : validateResponseBody c.inters = .ok ()) : compile banned f = .ok c := by
  unfold compile
  rw [← addForest_eq_run] at h4
  simp only [h0, h1, h2, h4, h5, h6, h7, bind, Except.bind]
  cases f with
  | nil => rfl
  | cons t r => simp [h3 t r rfl]; rfl
/-! ### `collectTags` -/

def declTag (d : BDir) : TagM :=
  { name := d.param "TagName", title := if d.annot.isEmpty then d.param "TagName" else d.annot, declared := true }

/-- the tags declared at the top level -/
def declTags (f : List BTree) : List TagM := ((f.map BTree.dir).filter (·.kind == .TAG)).map declTag

theorem collectTags_ok : ∀ (f : List BTree) (c c' : Cat), collectTags f c = .ok c' →
    c' = { c with tags := c.tags ++ declTags f }
  | [], c, c', h => by simp [collectTags] at h; subst h; simp [declTags]
  | t :: r, c, c', h => by
    unfold collectTags at h
    simp only [fail] at h
    split at h
    · split at h; · cases h
      split at h; · cases h
      have := collectTags_ok r _ _ h
      rw [this]
      simp_all [declTags, declTag]
    · have := collectTags_ok r _ _ h
      rw [this]
      simp_all [declTags]

theorem collectTags_empty {f : List BTree} {c₀ : Cat} (h : collectTags f {} = .ok c₀) :
    c₀ = { tags := declTags f } := by
  rw [collectTags_ok f _ _ h]; simp

/-! ### what one step does to each projection -/

theorem neutral_facts {k : Kind} (h : neutral k = true) :
    (k == Kind.Type) = false ∧ (k == Kind.Server) = false ∧ isMeth k = false ∧ k ≠ .Jsight := by
  cases k <;> first | (cases h; done) | decide

theorem isMeth_facts {k : Kind} (h : isMeth k = true) :
    (k == Kind.Type) = false ∧ (k == Kind.Server) = false ∧ k ≠ .Jsight := by
  cases k <;> first | (revert h; decide) | decide

theorem flatMap_if {α β γ : Type} (f : α → β) (p : β → Bool) (q : β → γ) (l : List α) :
    l.flatMap (fun e => if p (f e) then [q (f e)] else []) = ((l.map f).filter p).map q := by
  induction l with
  | nil => rfl
  | cons a r ih =>
    simp only [List.flatMap_cons, ih, List.map_cons, List.filter_cons]
    split <;> simp

theorem types_stepR {e : Ent} {c c' : Cat} (h : StepR e c c') :
    c'.types.map (fun t => (t.name, t.annot)) = c.types.map (fun t => (t.name, t.annot)) ++
      (if e.d.kind == Kind.Type then [(e.d.param "Name", e.d.annot)] else []) := by
  cases h
  case same hn => simp [(neutral_facts hn).1]
  case inters hn _ => simp [(neutral_facts hn).1]
  case tagsMap hn _ => simp [(neutral_facts hn).1]
  case proto hn => simp [(neutral_facts hn).1]
  case method hm _ _ _ _ => simp [(isMeth_facts hm).1]
  all_goals simp [*]

theorem servers_stepR {e : Ent} {c c' : Cat} (h : StepR e c c') :
    c'.servers.map (fun t => (t.name, t.annot)) = c.servers.map (fun t => (t.name, t.annot)) ++
      (if e.d.kind == Kind.Server then [(e.d.param "Name", e.d.annot)] else []) := by
  cases h
  case same hn => simp [(neutral_facts hn).2.1]
  case inters hn _ => simp [(neutral_facts hn).2.1]
  case tagsMap hn _ => simp [(neutral_facts hn).2.1]
  case proto hn => simp [(neutral_facts hn).2.1]
  case method hm _ _ _ _ => simp [(isMeth_facts hm).2.1]
  case baseUrl g hk hg =>
    simp only [hk, List.map_map]
    have : ((fun t : ServerM => (t.name, t.annot)) ∘ g) = (fun t => (t.name, t.annot)) := by
      funext x; simp [(hg x).1, (hg x).2]
    rw [this]; simp
  all_goals simp [*]

theorem inters_stepR {e : Ent} {c c' : Cat} (h : StepR e c c') :
    c'.inters.map (fun x => (Except.ok x.iid, x.annot)) = c.inters.map (fun x => (Except.ok x.iid, x.annot)) ++
      (if isMeth e.d.kind then [(idOf e, e.d.annot)] else []) := by
  cases h
  case same hn => simp [(neutral_facts hn).2.2.1]
  case tagsMap hn _ => simp [(neutral_facts hn).2.2.1]
  case proto hn => simp [(neutral_facts hn).2.2.1]
  case method hm hi _ _ _ => simp [hm, hi]
  case inters g hn hg =>
    simp only [(neutral_facts hn).2.2.1, List.map_map]
    have : ((fun x : InterM => ((Except.ok x.iid : Except Msg IId), x.annot)) ∘ g) = (fun x => (Except.ok x.iid, x.annot)) := by
      funext x; simp [(hg x).1, (hg x).2.1]
    rw [this]; simp
  all_goals simp [*, isMeth, isHTTP_iff]

/-! ### group A -/

theorem types_run {banned : List Kind} {l : List Ent} {c c' : Cat} (h : run banned l c = .ok c') :
    c'.types.map (fun t => (t.name, t.annot)) = c.types.map (fun t => (t.name, t.annot)) ++
      ((l.map (·.d)).filter (·.kind == Kind.Type)).map (fun d => (d.param "Name", d.annot)) := by
  rw [← flatMap_if (fun e : Ent => e.d) (·.kind == Kind.Type) (fun d => (d.param "Name", d.annot))]
  exact run_proj (fun c => c.types.map (fun t => (t.name, t.annot))) _
    (fun e c c' hs => types_stepR (step_ok hs).2) l c c' h

theorem servers_run {banned : List Kind} {l : List Ent} {c c' : Cat} (h : run banned l c = .ok c') :
    c'.servers.map (fun t => (t.name, t.annot)) = c.servers.map (fun t => (t.name, t.annot)) ++
      ((l.map (·.d)).filter (·.kind == Kind.Server)).map (fun d => (d.param "Name", d.annot)) := by
  rw [← flatMap_if (fun e : Ent => e.d) (·.kind == Kind.Server) (fun d => (d.param "Name", d.annot))]
  exact run_proj (fun c => c.servers.map (fun t => (t.name, t.annot))) _
    (fun e c c' hs => servers_stepR (step_ok hs).2) l c c' h

theorem inters_run {banned : List Kind} {l : List Ent} {c c' : Cat} (h : run banned l c = .ok c') :
    c'.inters.map (fun x => (Except.ok x.iid, x.annot)) = c.inters.map (fun x => (Except.ok x.iid, x.annot)) ++
      (l.filter (fun e => isMeth e.d.kind)).map (fun e => (idOf e, e.d.annot)) := by
  have := flatMap_if (fun e : Ent => e) (fun e => isMeth e.d.kind) (fun e => (idOf e, e.d.annot)) l
  simp only [List.map_id'] at this
  rw [← this]
  exact run_proj (fun c => c.inters.map (fun x => (Except.ok x.iid, x.annot))) _
    (fun e c c' hs => inters_stepR (step_ok hs).2) l c c' h
/-! ### tags -/

/-- declared tags first -/
def Part (l : List TagM) : Prop := l.filter (·.declared) ++ l.filter (fun t => !t.declared) = l

theorem tags_stepR {e : Ent} {c c' : Cat} (h : StepR e c c') :
    ∃ extra g, KeepT g ∧ (∀ a ∈ extra, a.declared = false) ∧ c'.tags = (c.tags ++ extra).map g := by
  have idk : KeepT id := fun _ => ⟨rfl, rfl, rfl⟩
  cases h
  case tagsMap g _ hg => exact ⟨[], g, hg, by simp, by simp⟩
  case method extra g _ _ _ hg hex =>
    refine ⟨extra, g, hg, ?_, rfl⟩
    rcases hex with rfl | ⟨a, rfl, ha, _⟩ <;> simp [*]
  all_goals exact ⟨[], id, idk, by simp, by simp⟩

theorem keepT_declared {g : TagM → TagM} (hg : KeepT g) : ((fun t : TagM => t.declared) ∘ g) = (fun t => t.declared) := by
  funext x; simp [(hg x).2.2]

theorem filter_decl_map {g : TagM → TagM} (hg : KeepT g) (l : List TagM) :
    (l.map g).filter (·.declared) = (l.filter (·.declared)).map g := by
  rw [List.filter_map, keepT_declared hg]

theorem filter_undecl_map {g : TagM → TagM} (hg : KeepT g) (l : List TagM) :
    (l.map g).filter (fun t => !t.declared) = (l.filter (fun t => !t.declared)).map g := by
  rw [List.filter_map]
  congr 2
  funext x; simp [(hg x).2.2]

theorem filter_decl_extra {extra : List TagM} (h : ∀ a ∈ extra, a.declared = false) :
    extra.filter (·.declared) = [] ∧ extra.filter (fun t => !t.declared) = extra := by
  constructor
  · rw [List.filter_eq_nil_iff]; intro a ha; simp [h a ha]
  · rw [List.filter_eq_self]; intro a ha; simp [h a ha]

theorem Part_step {l extra : List TagM} {g : TagM → TagM} (hg : KeepT g) (hex : ∀ a ∈ extra, a.declared = false)
    (h : Part l) : Part ((l ++ extra).map g) := by
  unfold Part at *
  rw [filter_decl_map hg, filter_undecl_map hg, List.filter_append, List.filter_append,
    (filter_decl_extra hex).1, (filter_decl_extra hex).2, List.append_nil, ← List.map_append, ← List.append_assoc, h]

theorem declNT_step {l extra : List TagM} {g : TagM → TagM} (hg : KeepT g) (hex : ∀ a ∈ extra, a.declared = false) :
    (((l ++ extra).map g).filter (·.declared)).map (fun t => (t.name, t.title)) =
      (l.filter (·.declared)).map (fun t => (t.name, t.title)) := by
  rw [filter_decl_map hg, List.filter_append, (filter_decl_extra hex).1, List.append_nil, List.map_map]
  congr 1
  funext x; simp [(hg x).1, (hg x).2.1]

theorem tags_run {banned : List Kind} {l : List Ent} {c c' : Cat} (h : run banned l c = .ok c') :
    (c'.tags.filter (·.declared)).map (fun t => (t.name, t.title)) =
      (c.tags.filter (·.declared)).map (fun t => (t.name, t.title)) ∧ (Part c.tags → Part c'.tags) := by
  constructor
  · exact run_inv (fun x => (x.tags.filter (·.declared)).map (fun t => (t.name, t.title)) =
        (c.tags.filter (·.declared)).map (fun t => (t.name, t.title))) l (fun e _ c₁ c₂ hp hs => by
        obtain ⟨extra, g, hg, hex, ht⟩ := tags_stepR (step_ok hs).2
        simp only [ht, declNT_step hg hex]; exact hp) c c' rfl h
  · exact run_inv (fun c => Part c.tags) l (fun e _ c c' hp hs => by
        obtain ⟨extra, g, hg, hex, ht⟩ := tags_stepR (step_ok hs).2
        simp only [ht]; exact Part_step hg hex hp) c c'  |> fun k hp => k hp h

theorem declTags_all (f : List BTree) : ∀ t ∈ declTags f, t.declared = true := by
  intro t ht
  simp only [declTags, List.mem_map] at ht
  obtain ⟨d, _, rfl⟩ := ht
  rfl

theorem Part_of_all {l : List TagM} (h : ∀ t ∈ l, t.declared = true) : Part l := by
  unfold Part
  have h1 : l.filter (·.declared) = l := by rw [List.filter_eq_self]; exact h
  have h2 : l.filter (fun t => !t.declared) = [] := by
    rw [List.filter_eq_nil_iff]; intro a ha; simp [h a ha]
  rw [h1, h2, List.append_nil]

theorem Part_split {l : List TagM} (h : Part l) :
    ∃ n, (l.take n).all (·.declared) = true ∧ (l.drop n).all (fun t => !t.declared) = true := by
  refine ⟨(l.filter (·.declared)).length, ?_, ?_⟩
  · have : l.take (l.filter (·.declared)).length = l.filter (·.declared) := by
      conv => lhs; arg 2; rw [← h]
      simp
    rw [this]; simp
  · have : l.drop (l.filter (·.declared)).length = l.filter (fun t => !t.declared) := by
      conv => lhs; arg 2; rw [← h]
      simp
    rw [this]; simp
theorem jsight_stepR {e : Ent} {c c' : Cat} (h : StepR e c c') :
    (e.d.kind = .Jsight → c'.jsight = v03) ∧ (c.jsight = v03 → c'.jsight = v03) := by
  cases h
  case same hn => exact ⟨fun hk => absurd hk (neutral_facts hn).2.2.2, id⟩
  case inters hn _ => exact ⟨fun hk => absurd hk (neutral_facts hn).2.2.2, id⟩
  case tagsMap hn _ => exact ⟨fun hk => absurd hk (neutral_facts hn).2.2.2, id⟩
  case proto hn => exact ⟨fun hk => absurd hk (neutral_facts hn).2.2.2, id⟩
  case method hm _ _ _ _ => exact ⟨fun hk => absurd hk (isMeth_facts hm).2.2, id⟩
  case jsight => exact ⟨fun _ => rfl, fun _ => rfl⟩
  all_goals exact ⟨fun hk => by simp_all, id⟩

theorem flatAF_head {anc : List Up} {t : BTree} {r : List BTree} :
    ∃ rest, flatAF anc (t :: r) = ⟨t.dir, t.kids.map BTree.dir, anc⟩ :: rest := by
  cases t with
  | node d kids =>
    exact ⟨flatAF (⟨d, kids.map BTree.dir⟩ :: anc) kids ++ flatAF anc r, by simp [flatAF, flatA, BTree.dir, BTree.kids]⟩

theorem jsight_run {banned : List Kind} {e : Ent} {l : List Ent} {c c' : Cat} (hk : e.d.kind = .Jsight)
    (h : run banned (e :: l) c = .ok c') : c'.jsight = v03 := by
  simp only [run] at h
  cases hs : step banned e c with
  | error x => simp [hs] at h
  | ok c₁ =>
    simp only [hs] at h
    exact run_inv (fun c => c.jsight = v03) l (fun e _ c c' hp hs => (jsight_stepR (step_ok hs).2).2 hp) c₁ c'
      ((jsight_stepR (step_ok hs).2).1 hk) h
/-! ### appending a tree to an accepted forest -/

theorem collectTags_append (f g : List BTree) (c : Cat) :
    collectTags (f ++ g) c = (match collectTags f c with | .error x => .error x | .ok c' => collectTags g c') := by
  induction f generalizing c with
  | nil => simp [collectTags]
  | cons t r ih =>
    simp only [List.cons_append, collectTags, fail]
    split
    · split; · rfl
      split; · rfl
      exact ih _
    · exact ih _

theorem checkTypeNames_append (f g : List BTree) :
    checkTypeNames (f ++ g) = (match checkTypeNames f with | .error x => .error x | .ok _ => checkTypeNames g) := by
  induction f with
  | nil => simp [checkTypeNames]
  | cons t r ih =>
    simp only [List.cons_append, checkTypeNames, fail]
    split
    · rfl
    · exact ih

theorem pathsForest_append (anc : List BDir) (f g : List BTree) (last : List Nat) :
    pathsForest anc (f ++ g) last =
      (match pathsForest anc f last with | .error x => .error x | .ok l => pathsForest anc g l) := by
  induction f generalizing last with
  | nil => simp [pathsForest]
  | cons t r ih =>
    simp only [List.cons_append, pathsForest]
    cases pathsTree anc t last with
    | error x => rfl
    | ok l => exact ih l

/-- appending a tree that the pre-stages accept and whose directives leave `info` and `inters` alone -/
theorem compile_snoc {banned : List Kind} {f : List BTree} {c c' : Cat} (h : compile banned f = .ok c) (hf : f ≠ [])
    (t : BTree) (hk : t.dir.kind ≠ .TAG) (hty : ¬ (t.dir.kind = .Type ∧ t.dir.param "Name" = []))
    (hp : ∀ last, ∃ x, pathsTree [] t last = .ok x) (hr : run banned (flatA [] t) c = .ok c')
    (hinfo : c'.info = c.info) (hint : c'.inters = c.inters) : compile banned (f ++ [t]) = .ok c' := by
  obtain ⟨c₀, h0, h1, ⟨x, h2⟩, h3, h4, h5, h6, h7⟩ := compile_ok h
  obtain ⟨y, hy⟩ := hp x
  refine compile_of (c₀ := c₀) (x := y) ?_ ?_ ?_ ?_ ?_ ?_ ?_ ?_
  · rw [collectTags_append, h0]
    simp [collectTags, hk]
  · rw [checkTypeNames_append, h1]
    simp only [checkTypeNames]
    split
    · rename_i hc; simp at hc; exact absurd hc hty
    · rfl
  · rw [pathsForest_append, h2]
    simp [pathsForest, hy]
  · intro t' r' he
    cases f with
    | nil => exact absurd rfl hf
    | cons a r => simp at he; exact he.1 ▸ h3 a r rfl
  · rw [flatAF_append, run_append, h4]
    simp [flatAF, hr]
  · unfold validateInfo; rw [hinfo]; exact h5
  · rw [hint]; exact h6
  · rw [hint]; exact h7

theorem add_type_run {banned : List Kind} {c : Cat} {d : BDir} {nt : Bytes} (hk : d.kind = .Type)
    (hn : d.param "Name" ≠ []) (hfresh : ∀ t ∈ c.types, t.name ≠ d.param "Name")
    (hnot : newNotation (d.param "SchemaNotation") = .ok nt)
    (hbody : (nt = nJsight ∨ nt = nRegex) → d.body.isSome) (hban : d.kind ∉ banned) :
    run banned (flatA [] (.node d [])) c =
      .ok { c with types := c.types ++ [{ name := d.param "Name", annot := d.annot, nota := nt }] } := by
  rw [hk] at hban
  have hany : c.types.any (fun x => x.name == d.param "Name") = false := by
    rw [List.any_eq_false]; intro t ht; simpa using hfresh t ht
  have hbd : ((nt == nJsight || nt == nRegex) && d.body.isNone) = false := by
    cases hb' : d.body with
    | some b => simp
    | none =>
      have : ¬ (nt = nJsight ∨ nt = nRegex) := fun h' => by simpa [hb'] using hbody h'
      simp at this; simp [this]
  simp only [flatA, flatAF, run, step, addDirective, hk, List.map_nil]
  simp [addType, hban, hn, hany, hnot, liftAt, hbd, bind, Except.bind, pure, Except.pure]
theorem add_server_run {banned : List Kind} {c : Cat} {d : BDir} (hk : d.kind = .Server)
    (hn : d.param "Name" ≠ []) (hfresh : ∀ s ∈ c.servers, s.name ≠ d.param "Name") (hban : d.kind ∉ banned) :
    run banned (flatA [] (.node d [])) c =
      .ok { c with servers := c.servers ++ [{ name := d.param "Name", annot := d.annot }] } := by
  rw [hk] at hban
  have hany : c.servers.any (fun x => x.name == d.param "Name") = false := by
    rw [List.any_eq_false]; intro t ht; simpa using hfresh t ht
  simp only [flatA, flatAF, run, step, addDirective, hk, List.map_nil]
  simp [addServer, hban, hn, hany]

theorem add_server_baseurl_run {banned : List Kind} {c : Cat} {d b : BDir} (hk : d.kind = .Server)
    (hn : d.param "Name" ≠ []) (hfresh : ∀ s ∈ c.servers, s.name ≠ d.param "Name") (hban : d.kind ∉ banned)
    (hkb : b.kind = .BaseURL) (hp : b.param "Path" ≠ []) (hab : b.annot = []) (hbanb : b.kind ∉ banned) :
    run banned (flatA [] (.node d [.node b []])) c =
      .ok { c with servers := c.servers ++ [{ name := d.param "Name", annot := d.annot, baseUrl := b.param "Path" }] } := by
  rw [hk] at hban
  rw [hkb] at hbanb
  have hany : c.servers.any (fun x => x.name == d.param "Name") = false := by
    rw [List.any_eq_false]; intro t ht; simpa using hfresh t ht
  have hfind : c.servers.find? (fun x => x.name == d.param "Name") = none := by
    rw [List.find?_eq_none]; intro t ht; simpa using hfresh t ht
  have hmap : c.servers.map (fun x => if x.name = d.param "Name" then { x with baseUrl := b.param "Path" } else x)
      = c.servers := by
    conv => rhs; rw [← List.map_id c.servers]
    apply List.map_congr_left
    intro x hx
    have := hfresh x hx
    simp [this]
  simp only [flatA, flatAF, run, step, addDirective, hk, hkb, List.map_nil, List.map_cons, List.append_nil, BTree.dir]
  simp [addServer, addBaseUrl, hban, hbanb, hn, hany, hp, hab, List.find?_append, hfind, hmap]
/-! ### the handlers that neither read nor write the tags -/

def setTags (ts : List TagM) (c : Cat) : Cat := { c with tags := ts }

/-- `F` neither reads nor writes the tags -/
def Obliv (F : Cat → R Cat) : Prop := ∀ ts c, F (setTags ts c) = (F c).map (setTags ts)

theorem bind_obliv {α} {g : Cat → Cat} (x : R α) (f f' : α → R Cat) (h : ∀ a, f a = (f' a).map g) :
    (x >>= f) = (x >>= f').map g := by
  cases x with
  | error e => rfl
  | ok a => exact h a

macro "osplit" : tactic =>
  `(tactic| repeat' (first | rfl | contradiction | (split <;> try simp only [*, ↓reduceIte])))

/-- split the first condition; the failing branch is the same on both sides -/
macro "ofail" : tactic =>
  `(tactic| ((split <;> try simp only [*, ↓reduceIte]) <;> first | rfl | contradiction | skip))

theorem addInfo_obliv (d : BDir) : Obliv (addInfo d) := by
  intro ts c
  unfold addInfo
  simp only [fail, setTags]
  osplit

theorem addTitle_obliv (d : BDir) : Obliv (addTitle d) := by
  intro ts c
  unfold addTitle
  simp only [fail, setTags]
  osplit

theorem addQuery_obliv (d : BDir) (anc) : Obliv (addQuery d anc) := by
  intro ts c
  unfold addQuery
  simp only [fail, setTags]
  ofail
  ofail
  refine bind_obliv _ _ _ (fun i => ?_)
  simp only [Cat.getInter, Cat.updInter]
  osplit

theorem addJSight_obliv (d : BDir) : Obliv (addJSight d) := by
  intro ts c
  unfold addJSight
  simp only [fail, setTags]
  osplit

theorem addVersion_obliv (d : BDir) : Obliv (addVersion d) := by
  intro ts c
  unfold addVersion
  simp only [fail, setTags]
  osplit

theorem addServer_obliv (d : BDir) : Obliv (addServer d) := by
  intro ts c
  unfold addServer
  simp only [fail, setTags]
  osplit

theorem addBaseUrl_obliv (d : BDir) (anc) : Obliv (addBaseUrl d anc) := by
  intro ts c
  unfold addBaseUrl
  simp only [fail, setTags]
  osplit

theorem addType_obliv (d : BDir) : Obliv (addType d) := by
  intro ts c
  unfold addType
  simp only [fail, setTags]
  ofail
  ofail
  refine bind_obliv _ _ _ (fun i => ?_)
  osplit

theorem addURL_obliv (d : BDir) (kids anc) : Obliv (addURL d kids anc) := by
  intro ts c
  unfold addURL
  simp only [fail, setTags]
  ofail
  refine bind_obliv _ _ _ (fun i => ?_)
  refine bind_obliv _ _ _ (fun i => ?_)
  osplit

theorem addProtocol_obliv (d : BDir) (anc) : Obliv (addProtocol d anc) := by
  intro ts c
  unfold addProtocol
  simp only [fail, setTags]
  osplit

theorem addRpcSchema_obliv (p : Bool) (d : BDir) (anc) : Obliv (addRpcSchema p d anc) := by
  intro ts c
  unfold addRpcSchema
  simp only [fail, setTags]
  ofail
  ofail
  refine bind_obliv _ _ _ (fun i => ?_)
  simp only [Cat.getInter, Cat.updInter]
  osplit

theorem addRequestBody_obliv (d : BDir) (anc) (b) : Obliv (addRequestBody d anc b) := by
  intro ts c
  unfold addRequestBody
  simp only [fail, setTags]
  refine bind_obliv _ _ _ (fun i => ?_)
  simp only [Cat.getInter, Cat.updInter]
  osplit

theorem addResponseBody_obliv (d : BDir) (anc) (b) : Obliv (addResponseBody d anc b) := by
  intro ts c
  unfold addResponseBody
  simp only [fail, setTags]
  refine bind_obliv _ _ _ (fun i => ?_)
  simp only [Cat.getInter, Cat.updInter]
  osplit

theorem addHeaders_obliv (d : BDir) (anc) : Obliv (addHeaders d anc) := by
  intro ts c
  unfold addHeaders
  simp only [fail, setTags]
  ofail
  ofail
  ofail
  split
  · refine bind_obliv _ _ _ (fun i => ?_)
    simp only [Cat.getInter, Cat.updInter]
    osplit
  split
  · refine bind_obliv _ _ _ (fun i => ?_)
    simp only [Cat.getInter, Cat.updInter]
    osplit
  rfl

theorem obliv_upd {F : Cat → R Cat} (h : Obliv F) (ts : List TagM) (c : Cat) (i : IId) (g : InterM → InterM) :
    F ((setTags ts c).updInter i g) = (F (c.updInter i g)).map (setTags ts) := h ts (c.updInter i g)

theorem addRequest_tail_obliv (d : BDir) (anc : List Up) (b : BodyM) (b1 b2 b3 b4 b5 : Bool) (m : Msg) :
    Obliv (fun c => if b1 = true then addRequestBody d anc b c
          else if b2 = true then addRequestBody d anc b c
          else if b3 = true then addRequestBody d anc b c
          else if b4 = true then addRequestBody d anc b c
          else if b5 = true then (.error ⟨d.id, m⟩ : R Cat) else pure c) := by
  intro ts c
  simp only []
  repeat' (first | rfl | exact addRequestBody_obliv d anc _ ts _ | split)

theorem addRequest_obliv (d : BDir) (anc) : Obliv (addRequest d anc) := by
  intro ts c
  unfold addRequest
  by_cases h1 : (!d.annot.isEmpty) = true
  · rw [if_pos h1, if_pos h1]; rfl
  rw [if_neg h1, if_neg h1]
  dsimp only
  by_cases h2 : (!(d.param "SchemaNotation").isEmpty && !(d.param "Type").isEmpty) = true
  · rw [if_pos h2, if_pos h2]; rfl
  rw [if_neg h2, if_neg h2]
  refine bind_obliv _ _ _ (fun nt => ?_)
  split
  · refine bind_obliv _ _ _ (fun i => ?_)
    have hg : (setTags ts c).getInter i = c.getInter i := rfl
    rw [hg]
    cases c.getInter i with
    | none =>
      simp only [pure_bind]
      exact addRequest_tail_obliv d anc _ _ _ _ _ _ _ ts c
    | some x =>
      simp only []
      split
      · rfl
      · simp only [pure_bind]
        exact obliv_upd (addRequest_tail_obliv d anc _ _ _ _ _ _ _) ts c i _
  · simp only [pure_bind]
    exact addRequest_tail_obliv d anc _ _ _ _ _ _ _ ts c

theorem addResponse_obliv (d : BDir) (anc) : Obliv (addResponse d anc) := by
  intro ts c
  unfold addResponse
  simp only [fail]
  ofail
  ofail
  refine bind_obliv _ _ _ (fun nt => ?_)
  generalize (d.kind == Kind.Body && _) = clash
  ofail
  split
  · refine bind_obliv _ _ _ (fun i => ?_)
    simp only [pure_bind]
    repeat' (first | rfl | exact obliv_upd (addResponseBody_obliv d anc _) ts c i _ | split)
  · simp only [pure_bind]
    repeat' (first | rfl | exact addResponseBody_obliv d anc _ ts _ | split)

theorem addBody_obliv (d : BDir) (anc) : Obliv (addBody d anc) := by
  intro ts c
  unfold addBody
  simp only [fail]
  ofail
  ofail
  split; · exact addRequest_obliv d _ ts c
  split; · exact addResponse_obliv d _ ts c
  rfl
/-! ### inserting a declared tag after the declared ones -/

def ins (new : TagM) (ts : List TagM) : List TagM :=
  ts.filter (·.declared) ++ new :: ts.filter (fun t => !t.declared)

def insC (new : TagM) (c : Cat) : Cat := setTags (ins new c.tags) c

theorem obliv_tags {F : Cat → R Cat} (h : Obliv F) {c c' : Cat} (hs : F c = .ok c') : c'.tags = c.tags := by
  have := h c.tags c
  have e : setTags c.tags c = c := rfl
  rw [e, hs] at this
  simp only [Except.map] at this
  injection this with this
  rw [this]; rfl

theorem obliv_sim {F : Cat → R Cat} (h : Obliv F) (new : TagM) {c c' : Cat} (hs : F c = .ok c') :
    F (insC new c) = .ok (insC new c') := by
  unfold insC
  rw [h, hs, obliv_tags h hs]; rfl

theorem find_ins {new : TagM} {ts : List TagM} (hp : Part ts) (m : Bytes) (hm : new.name ≠ m) :
    (ins new ts).find? (·.name == m) = ts.find? (·.name == m) := by
  have : (new.name == m) = false := by simpa using hm
  conv => rhs; rw [← hp]
  simp only [ins, List.find?_append, List.find?_cons, this]

theorem getTag_ins {new : TagM} {c : Cat} (hp : Part c.tags) (m : Bytes) (hm : new.name ≠ m) :
    (insC new c).getTag m = c.getTag m := find_ins hp m hm

theorem ins_map {new : TagM} {g : TagM → TagM} (hg : KeepT g) (hn : g new = new) (ts : List TagM) :
    ins new (ts.map g) = (ins new ts).map g := by
  simp only [ins, filter_decl_map hg, filter_undecl_map hg, List.map_append, List.map_cons, hn]

theorem ins_append {new : TagM} (ts : List TagM) {a : TagM} (ha : a.declared = false) :
    ins new (ts ++ [a]) = ins new ts ++ [a] := by
  simp [ins, List.filter_append, ha]

theorem updTag_ins {new : TagM} {c : Cat} (m : Bytes) (f : TagM → TagM) (hf : KeepT f) (hm : new.name ≠ m) :
    (insC new c).updTag m f = insC new (c.updTag m f) := by
  have hb : (new.name == m) = false := by simpa using hm
  have hg : KeepT (fun x => if x.name == m then f x else x) := by
    intro x
    by_cases hx : (x.name == m) = true
    · simp only [hx, if_true]; exact hf x
    · simp [hx]
  simp only [insC, setTags, Cat.updTag]
  rw [ins_map hg (by simp [hb])]

theorem mem_of_getTag {c : Cat} {m : Bytes} (h : (c.getTag m).isSome) : ∃ t ∈ c.tags, t.name = m := by
  unfold Cat.getTag at h
  cases hf : c.tags.find? (·.name == m) with
  | none => simp [hf] at h
  | some t =>
    exact ⟨t, List.mem_of_find?_eq_some hf, by simpa using List.find?_some hf⟩

theorem tagsFromDirective_sim {new : TagM} {c : Cat} {td : BDir} {ns : List Bytes} (hp : Part c.tags)
    (hfresh : ∀ t ∈ c.tags, t.name ≠ new.name) (hs : tagsFromDirective c td = .ok ns) :
    tagsFromDirective (insC new c) td = .ok ns := by
  have hall := (tagsFromDirective_ok hs).2
  have hns := (tagsFromDirective_ok hs).1
  subst hns
  unfold tagsFromDirective at hs ⊢
  simp only [fail] at hs ⊢
  split at hs; · cases hs
  split at hs; · cases hs
  split at hs
  · rename_i h1 h2 h3
    rw [if_neg h1, if_neg h2, if_pos]
    rw [List.all_eq_true]
    intro m hm
    obtain ⟨t, ht, htd⟩ := hall m hm
    have hne : new.name ≠ m := by
      obtain ⟨t', ht', hn'⟩ := mem_of_getTag (c := c) (m := m) (by simp [ht])
      intro h'; exact hfresh t' ht' (by rw [hn', h'])
    rw [getTag_ins hp m hne, ht]; exact htd
  · cases hs
theorem tfd_bind_sim {new : TagM} {c c₂ : Cat} {td : BDir} {ns : List Bytes} (hp : Part c.tags)
    (hfresh : ∀ t ∈ c₂.tags, t.name ≠ new.name)
    (hs : (do let ns ← tagsFromDirective c td; pure (ns, c) : R (List Bytes × Cat)) = .ok (ns, c₂)) :
    (do let ns ← tagsFromDirective (insC new c) td; pure (ns, insC new c) : R (List Bytes × Cat)) =
      .ok (ns, insC new c₂) := by
  obtain ⟨ns', h1, h⟩ := bind_ok hs
  cases h
  rw [tagsFromDirective_sim hp hfresh h1]; rfl

theorem tagsFor_sim {new : TagM} {c c₂ : Cat} {kids : List BDir} {anc : List Up} {i : IId} {ns : List Bytes}
    (hp : Part c.tags) (hfresh : ∀ t ∈ c₂.tags, t.name ≠ new.name)
    (hs : tagsFor c kids anc i = .ok (ns, c₂)) : tagsFor (insC new c) kids anc i = .ok (ns, insC new c₂) := by
  revert hs
  unfold tagsFor
  dsimp only
  split
  · exact tfd_bind_sim hp hfresh
  split
  · exact tfd_bind_sim hp hfresh
  intro hs
  split at hs
  · rename_i t ht
    cases hs
    have hne : new.name ≠ tagName (pathTagTitle i.path) := by
      obtain ⟨t', ht', hn'⟩ := mem_of_getTag (c := c) (m := tagName (pathTagTitle i.path)) (by simp [ht])
      intro h'; exact hfresh t' ht' (by rw [hn', h'])
    rw [getTag_ins hp _ hne, ht]
  · rename_i ht
    cases hs
    have hne : new.name ≠ tagName (pathTagTitle i.path) := by
      intro h'
      exact hfresh ⟨tagName (pathTagTitle i.path), pathTagTitle i.path, false, none, [], []⟩ (by simp) h'.symm
    rw [getTag_ins hp _ hne, ht]
    simp only [insC, setTags, ins_append _ (show ({ name := tagName (pathTagTitle i.path), title := pathTagTitle i.path, declared := false } : TagM).declared = false from rfl)]

theorem attachAll_sim {new : TagM} (i : IId) : ∀ (ns : List Bytes) (c : Cat), (∀ m ∈ ns, new.name ≠ m) →
    attachAll (insC new c) i ns = insC new (attachAll c i ns)
  | [], c, _ => rfl
  | m :: r, c, h => by
    have hk : KeepT (attach i) := by
      intro x; unfold attach; split <;> exact ⟨rfl, rfl, rfl⟩
    rw [attachAll, attachAll, updTag_ins m _ hk (h m (List.mem_cons_self ..)),
      attachAll_sim i r _ (fun m' hm' => h m' (List.mem_cons_of_mem _ hm'))]

theorem attachAll_tags (i : IId) (ns : List Bytes) (c : Cat) :
    (attachAll c i ns).tags.map (·.name) = c.tags.map (·.name) := by
  obtain ⟨g, hg, h⟩ := attachAll_keep i ns c
  rw [h]
  simp only [List.map_map]
  congr 1
  funext x; simp [(hg x).1]
theorem ok_bind {α β} (a : α) (f : α → R β) : ((Except.ok a : R α) >>= f) = f a := rfl

theorem fresh_of_names {ts ts' : List TagM} {n : Bytes} (h : ts'.map (·.name) = ts.map (·.name))
    (hf : ∀ t ∈ ts, t.name ≠ n) : ∀ t ∈ ts', t.name ≠ n := by
  intro t ht
  have : t.name ∈ ts'.map (·.name) := List.mem_map_of_mem ht
  rw [h, List.mem_map] at this
  obtain ⟨t', ht', he⟩ := this
  rw [← he]; exact hf t' ht'

theorem addHTTPMethod_sim {new : TagM} {d : BDir} {kids : List BDir} {anc : List Up} {c c' : Cat}
    (hp : Part c.tags) (hfresh : ∀ t ∈ c'.tags, t.name ≠ new.name)
    (hs : addHTTPMethod d kids anc c = .ok c') : addHTTPMethod d kids anc (insC new c) = .ok (insC new c') := by
  unfold addHTTPMethod at hs ⊢
  simp only [fail] at hs ⊢
  obtain ⟨path, hpath, hs⟩ := bind_ok hs
  obtain ⟨pp, hpp, hs⟩ := bind_ok hs
  split at hs; · cases hs
  rename_i sim hsim
  obtain ⟨i, hi, hs⟩ := bind_ok hs
  split at hs; · cases hs
  rename_i hhas
  obtain ⟨⟨ns, c₂⟩, ht, hs⟩ := bind_ok hs
  cases hs
  have hfresh₂ : ∀ t ∈ c₂.tags, t.name ≠ new.name :=
    fresh_of_names (attachAll_tags i ns c₂).symm hfresh
  have hns : ∀ m ∈ ns, new.name ≠ m := by
    intro m hm
    obtain ⟨_, _, _, hsome⟩ := tagsFor_ok ht
    obtain ⟨t, htm, hn⟩ := mem_of_getTag (hsome m hm)
    intro h'; exact hfresh₂ t htm (by rw [hn, h'])
  have ht' := tagsFor_sim (new := new) (c := { c with similar := sim }) hp hfresh₂ ht
  have hsim' : checkSimilar (insC new c).similar pp = some sim := hsim
  have hhas' : Cat.hasInter { insC new c with similar := sim } i = false := by
    have : ¬ Cat.hasInter { insC new c with similar := sim } i = true := hhas
    simpa using this
  rw [hpath, ok_bind, hpp, ok_bind]
  simp only [hsim', hi, ok_bind, hhas']
  have e : ({ insC new c with similar := sim } : Cat) = insC new { c with similar := sim } := rfl
  rw [e, ht', ok_bind]
  simp only [attachAll_sim i ns c₂ hns]
  rfl
theorem addJsonRpcMethod_sim {new : TagM} {d : BDir} {kids : List BDir} {anc : List Up} {c c' : Cat}
    (hp : Part c.tags) (hfresh : ∀ t ∈ c'.tags, t.name ≠ new.name)
    (hs : addJsonRpcMethod d kids anc c = .ok c') :
    addJsonRpcMethod d kids anc (insC new c) = .ok (insC new c') := by
  unfold addJsonRpcMethod at hs ⊢
  simp only [fail] at hs ⊢
  split at hs; · cases hs
  split at hs; · cases hs
  split at hs; · cases hs
  rename_i h1 _ p r h2
  obtain ⟨i, hi, hs⟩ := bind_ok hs
  split at hs; · cases hs
  rename_i hhas
  obtain ⟨⟨ns, c₂⟩, ht, hs⟩ := bind_ok hs
  cases hs
  have hfresh₂ : ∀ t ∈ c₂.tags, t.name ≠ new.name :=
    fresh_of_names (attachAll_tags i ns c₂).symm hfresh
  have hns : ∀ m ∈ ns, new.name ≠ m := by
    intro m hm
    obtain ⟨_, _, _, hsome⟩ := tagsFor_ok ht
    obtain ⟨t, htm, hn⟩ := mem_of_getTag (hsome m hm)
    intro h'; exact hfresh₂ t htm (by rw [hn, h'])
  have ht' := tagsFor_sim (new := new) hp hfresh₂ ht
  have hhas' : ¬ ((insC new c).hasInter i || (insC new c).inters.any fun x => x.iid.text == i.text) = true := hhas
  rw [if_neg h1]
  dsimp only
  rw [if_neg h2, hi, ok_bind, if_neg hhas', ht', ok_bind]
  simp only [attachAll_sim i ns c₂ hns]
  rfl

theorem addTags_sim {new : TagM} {d : BDir} {anc : List Up} {c c' : Cat}
    (hp : Part c.tags) (hfresh : ∀ t ∈ c'.tags, t.name ≠ new.name)
    (hs : addTags d anc c = .ok c') : addTags d anc (insC new c) = .ok (insC new c') := by
  unfold addTags at hs ⊢
  split at hs; · cases hs
  rename_i hsec
  rw [if_neg hsec]
  obtain ⟨ns, h1, hs⟩ := bind_ok hs
  cases hs
  rw [tagsFromDirective_sim hp hfresh h1]; rfl

theorem addDescription_obliv (d : BDir) (anc : List Up) (h : ∀ p r, anc = p :: r → (p.d.kind == Kind.TAG) = false) :
    Obliv (addDescription d anc) := by
  intro ts c
  unfold addDescription
  simp only [fail, setTags]
  ofail
  ofail
  ofail
  ofail
  ofail
  rename_i p r
  have hp := h p r rfl
  split
  · osplit
  split
  · refine bind_obliv _ _ _ (fun i => ?_)
    simp only [Cat.getInter, Cat.updInter]
    osplit
  split
  · refine bind_obliv _ _ _ (fun i => ?_)
    simp only [Cat.getInter, Cat.updInter]
    osplit
  simp only [hp]
  rfl
theorem addDescription_sim {new : TagM} {d : BDir} {anc : List Up} {c c' : Cat}
    (hp : Part c.tags) (hfresh : ∀ t ∈ c'.tags, t.name ≠ new.name)
    (hs : addDescription d anc c = .ok c') : addDescription d anc (insC new c) = .ok (insC new c') := by
  by_cases htag : ∀ p r, anc = p :: r → (p.d.kind == Kind.TAG) = false
  · exact obliv_sim (addDescription_obliv d anc htag) new hs
  · have : ∃ p r, anc = p :: r ∧ p.d.kind = Kind.TAG := by
      cases anc with
      | nil => exact absurd (fun p r h => by cases h) htag
      | cons p r =>
        refine ⟨p, r, rfl, ?_⟩
        cases hk : p.d.kind == Kind.TAG with
        | true => simpa using hk
        | false => exact absurd (fun p' r' h => by cases h; exact hk) htag
    obtain ⟨p, r, rfl, hk⟩ := this
    have e1 : (Kind.TAG == Kind.Info) = false := by decide
    have e2 : isHTTP Kind.TAG = false := by decide
    have e3 : (Kind.TAG == Kind.Method) = false := by decide
    unfold addDescription at hs ⊢
    simp only [fail, hk, e1, e2, e3] at hs ⊢
    split at hs; · cases hs
    rename_i h1
    rw [if_neg h1]
    split at hs; · cases hs
    rename_i b hb
    split at hs; · cases hs
    rename_i text htext
    split at hs; · cases hs
    rename_i h2
    rw [if_neg h2]
    simp only [Bool.false_eq_true, if_false, beq_self_eq_true, if_true] at hs ⊢
    split at hs; · cases hs
    rename_i t ht
    split at hs; · cases hs
    rename_i h3
    cases hs
    have hne : new.name ≠ p.d.param "TagName" := by
      obtain ⟨t', ht', hn'⟩ := mem_of_getTag (c := c) (m := p.d.param "TagName") (by simp [ht])
      have hmem : ∃ t'' ∈ (c.updTag (p.d.param "TagName") fun t => { t with descr := some text }).tags,
          t''.name = t'.name := by
        refine ⟨_, List.mem_map_of_mem (f := fun x => if x.name == p.d.param "TagName" then { x with descr := some text } else x) ht', ?_⟩
        split <;> rfl
      obtain ⟨t'', hm'', hn''⟩ := hmem
      intro h'; exact hfresh t'' hm'' (by rw [hn'', hn', h'])
    rw [getTag_ins hp _ hne, ht]
    simp only [h3, Bool.false_eq_true, if_false]
    exact congrArg Except.ok (updTag_ins _ _ (fun x => ⟨rfl, rfl, rfl⟩) hne)
theorem sim_step {banned : List Kind} {new : TagM} {e : Ent} {c c' : Cat}
    (hp : Part c.tags) (hfresh : ∀ t ∈ c'.tags, t.name ≠ new.name)
    (hs : step banned e c = .ok c') : step banned e (insC new c) = .ok (insC new c') := by
  obtain ⟨d, kids, anc⟩ := e
  unfold step addDirective at hs ⊢
  simp only [fail] at hs ⊢
  split at hs; · cases hs
  rename_i hb
  rw [if_neg hb]
  cases hk : d.kind <;> simp only [hk] at hs ⊢
  case Jsight => exact obliv_sim (addJSight_obliv d) new hs
  case Info => exact obliv_sim (addInfo_obliv d) new hs
  case Title => exact obliv_sim (addTitle_obliv d) new hs
  case Version => exact obliv_sim (addVersion_obliv d) new hs
  case Description => exact addDescription_sim hp hfresh hs
  case Server => exact obliv_sim (addServer_obliv d) new hs
  case BaseURL => exact obliv_sim (addBaseUrl_obliv d anc) new hs
  case «Type» => exact obliv_sim (addType_obliv d) new hs
  case URL => exact obliv_sim (addURL_obliv d kids anc) new hs
  case Get => exact addHTTPMethod_sim hp hfresh hs
  case Post => exact addHTTPMethod_sim hp hfresh hs
  case Put => exact addHTTPMethod_sim hp hfresh hs
  case Patch => exact addHTTPMethod_sim hp hfresh hs
  case Delete => exact addHTTPMethod_sim hp hfresh hs
  case Query => exact obliv_sim (addQuery_obliv d anc) new hs
  case Request => exact obliv_sim (addRequest_obliv d anc) new hs
  case HTTPResponseCode => exact obliv_sim (addResponse_obliv d anc) new hs
  case Headers => exact obliv_sim (addHeaders_obliv d anc) new hs
  case Body => exact obliv_sim (addBody_obliv d anc) new hs
  case Protocol => exact obliv_sim (addProtocol_obliv d anc) new hs
  case Method => exact addJsonRpcMethod_sim hp hfresh hs
  case Params => exact obliv_sim (addRpcSchema_obliv true d anc) new hs
  case Result => exact obliv_sim (addRpcSchema_obliv false d anc) new hs
  case Tags => exact addTags_sim hp hfresh hs
  all_goals (cases hs; rfl)

theorem names_step {banned : List Kind} {e : Ent} {c c' : Cat} (hs : step banned e c = .ok c') :
    ∀ t ∈ c.tags, ∃ t' ∈ c'.tags, t'.name = t.name := by
  obtain ⟨extra, g, hg, _, ht⟩ := tags_stepR (step_ok hs).2
  intro t hm
  refine ⟨g t, ?_, (hg t).1⟩
  rw [ht]
  exact List.mem_map_of_mem (List.mem_append_left _ hm)

theorem fresh_step {banned : List Kind} {e : Ent} {c c' : Cat} {n : Bytes} (hs : step banned e c = .ok c')
    (hf : ∀ t ∈ c'.tags, t.name ≠ n) : ∀ t ∈ c.tags, t.name ≠ n := by
  intro t hm
  obtain ⟨t', hm', hn⟩ := names_step hs t hm
  rw [← hn]; exact hf t' hm'

theorem sim_run {banned : List Kind} {new : TagM} : ∀ (l : List Ent) (c c' : Cat), Part c.tags →
    (∀ t ∈ c'.tags, t.name ≠ new.name) → run banned l c = .ok c' →
    run banned l (insC new c) = .ok (insC new c') ∧ (∀ t ∈ c.tags, t.name ≠ new.name)
  | [], c, c', _, hf, h => by simp [run] at h ⊢; subst h; exact ⟨rfl, hf⟩
  | e :: r, c, c', hp, hf, h => by
    simp only [run] at h ⊢
    cases hs : step banned e c with
    | error x => simp [hs] at h
    | ok c₁ =>
      simp only [hs] at h
      have hp₁ : Part c₁.tags := by
        obtain ⟨extra, g, hg, hex, ht⟩ := tags_stepR (step_ok hs).2
        rw [ht]; exact Part_step hg hex hp
      obtain ⟨ih, hf₁⟩ := sim_run r c₁ c' hp₁ hf h
      rw [sim_step hp hf₁ hs]
      exact ⟨ih, fresh_step hs hf₁⟩
theorem ins_all_declared {new : TagM} {ts : List TagM} (h : ∀ t ∈ ts, t.declared = true) : ins new ts = ts ++ [new] := by
  have h1 : ts.filter (·.declared) = ts := by rw [List.filter_eq_self]; exact h
  have h2 : ts.filter (fun t => !t.declared) = [] := by
    rw [List.filter_eq_nil_iff]; intro a ha; simp [h a ha]
  simp [ins, h1, h2]

theorem compile_add_tag {banned : List Kind} {f : List BTree} {c : Cat} (h : compile banned f = .ok c) (d : BDir)
    (hk : d.kind = .TAG) (hn : d.param "TagName" ≠ []) (hfresh : ∀ t ∈ c.tags, t.name ≠ d.param "TagName")
    (hban : d.kind ∉ banned) (hf : f ≠ []) :
    compile banned (f ++ [.node d []]) = .ok (insC (declTag d) c) := by
  obtain ⟨c₀, h0, h1, ⟨x, h2⟩, h3, h4, h5, h6, h7⟩ := compile_ok h
  have hc₀ := collectTags_empty h0
  have hp₀ : Part c₀.tags := by rw [hc₀]; exact Part_of_all (declTags_all f)
  obtain ⟨hsim, hfresh₀⟩ := sim_run (new := declTag d) _ c₀ c hp₀ hfresh h4
  refine compile_of (c₀ := insC (declTag d) c₀) (x := x) ?_ ?_ ?_ ?_ ?_ ?_ ?_ ?_
  · rw [collectTags_append, h0]
    have hnone : c₀.getTag (d.param "TagName") = none := by
      unfold Cat.getTag
      rw [List.find?_eq_none]
      intro t ht
      have := hfresh₀ t ht
      simpa [declTag] using this
    have hne : (d.param "TagName").isEmpty = false := by simpa using hn
    simp only [collectTags, BTree.dir, hk, beq_self_eq_true, if_true, hne, hnone, Option.isSome_none,
      Bool.false_eq_true, if_false]
    congr 1
    simp only [insC, setTags]
    rw [ins_all_declared (by rw [hc₀]; exact declTags_all f)]
    rfl
  · rw [checkTypeNames_append, h1]
    simp [checkTypeNames, BTree.dir, hk]
  · rw [pathsForest_append, h2]
    simp [pathsForest, pathsTree, hk]
  · intro t' r' he
    cases f with
    | nil => exact absurd rfl hf
    | cons a r => simp at he; exact he.1 ▸ h3 a r rfl
  · rw [flatAF_append, run_append, hsim]
    rw [hk] at hban
    simp [flatAF, flatA, run, step, addDirective, hk, hban]
  · exact h5
  · exact h6
  · exact h7
/-! ### group B: what a second declaration runs into -/

theorem getElem_flatAF {f : List BTree} {i : Nat} {d : BDir} (h : (flatF f)[i]? = some d) :
    ∃ e, (flatAF [] f)[i]? = some e ∧ e.d = d := by
  rw [← flatAF_dirs [] f, List.getElem?_map] at h
  cases he : (flatAF [] f)[i]? with
  | none => simp [he] at h
  | some e => exact ⟨e, rfl, by simpa [he] using h⟩

/-- two entries of a conflicting class at different positions make `compile` fail -/
theorem compile_conflict {banned : List Kind} {f : List BTree} (E : Ent → Prop) (Mark : Cat → Prop)
    (hset : ∀ e c c', E e → step banned e c = .ok c' → Mark c')
    (hkeep : ∀ e c c', Mark c → step banned e c = .ok c' → Mark c')
    (hclash : ∀ e c c', E e → Mark c → step banned e c ≠ .ok c')
    {i j : Nat} {e₁ e₂ : Ent} (hij : i ≠ j) (h₁ : (flatAF [] f)[i]? = some e₁) (h₂ : (flatAF [] f)[j]? = some e₂)
    (E₁ : E e₁) (E₂ : E e₂) : ∀ c, compile banned f ≠ .ok c := by
  intro c h
  obtain ⟨c₀, _, _, _, _, hr, _⟩ := compile_ok h
  rcases Nat.lt_or_gt_of_ne hij with hlt | hgt
  · exact run_conflict E Mark hset hkeep hclash _ i j e₁ e₂ hlt h₁ h₂ E₁ E₂ c₀ c hr
  · exact run_conflict E Mark hset hkeep hclash _ j i e₂ e₁ hgt h₂ h₁ E₂ E₁ c₀ c hr

theorem stepR_type {e : Ent} {c c' : Cat} (h : StepR e c c') (hk : e.d.kind = .Type) :
    (∀ t ∈ c.types, t.name ≠ e.d.param "Name") ∧ ∃ t ∈ c'.types, t.name = e.d.param "Name" := by
  cases h
  case type nt _ hn hf => exact ⟨hf, _, List.mem_append_right _ (List.mem_singleton_self _), rfl⟩
  all_goals simp_all [neutral, isMeth, isHTTP, httpMethods]

theorem stepR_server {e : Ent} {c c' : Cat} (h : StepR e c c') (hk : e.d.kind = .Server) :
    (∀ t ∈ c.servers, t.name ≠ e.d.param "Name") ∧ ∃ t ∈ c'.servers, t.name = e.d.param "Name" := by
  cases h
  case server _ hn hf => exact ⟨hf, _, List.mem_append_right _ (List.mem_singleton_self _), rfl⟩
  all_goals simp_all [neutral, isMeth, isHTTP, httpMethods]

theorem stepR_url {e : Ent} {c c' : Cat} (h : StepR e c c') (hk : e.d.kind = .URL) :
    e.d.param "Path" ∉ c.uniqURL ∧ e.d.param "Path" ∈ c'.uniqURL := by
  cases h
  case url _ _ hf => exact ⟨hf, List.mem_cons_self ..⟩
  all_goals simp_all [neutral, isMeth, isHTTP, httpMethods]

theorem stepR_title {e : Ent} {c c' : Cat} (h : StepR e c c') (hk : e.d.kind = .Title) :
    (∀ i, c.info = some i → i.title = []) ∧ ∃ i, c'.info = some i ∧ i.title ≠ [] := by
  cases h
  case title i _ hi ht hp => exact ⟨fun i' h' => by rw [hi] at h'; cases h'; exact ht, _, rfl, hp⟩
  all_goals simp_all [neutral, isMeth, isHTTP, httpMethods]

theorem stepR_version {e : Ent} {c c' : Cat} (h : StepR e c c') (hk : e.d.kind = .Version) :
    (∀ i, c.info = some i → i.version = []) ∧ ∃ i, c'.info = some i ∧ i.version ≠ [] := by
  cases h
  case version i _ hi ht hp => exact ⟨fun i' h' => by rw [hi] at h'; cases h'; exact ht, _, rfl, hp⟩
  all_goals simp_all [neutral, isMeth, isHTTP, httpMethods]

theorem stepR_method {e : Ent} {c c' : Cat} (h : StepR e c c') (hk : isMeth e.d.kind = true) :
    ∃ i, idOf e = .ok i ∧ c.hasInter i = false ∧ c'.hasInter i = true := by
  cases h
  case method sim i ns extra g _ hi hh _ _ => exact ⟨i, hi, hh, by simp [Cat.hasInter]⟩
  case same hn => rw [(neutral_facts hn).2.2.1] at hk; cases hk
  case inters hn _ => rw [(neutral_facts hn).2.2.1] at hk; cases hk
  case tagsMap hn _ => rw [(neutral_facts hn).2.2.1] at hk; cases hk
  case proto hn => rw [(neutral_facts hn).2.2.1] at hk; cases hk
  all_goals simp_all [isMeth, isHTTP, httpMethods]

/-- what any step preserves -/
theorem stepR_mono {e : Ent} {c c' : Cat} (h : StepR e c c') :
    (∀ n, (∃ t ∈ c.types, t.name = n) → ∃ t ∈ c'.types, t.name = n) ∧
    (∀ n, (∃ t ∈ c.servers, t.name = n) → ∃ t ∈ c'.servers, t.name = n) ∧
    (∀ p, p ∈ c.uniqURL → p ∈ c'.uniqURL) ∧
    (∀ i, c.hasInter i = true → c'.hasInter i = true) ∧
    (∀ i, c.info = some i → ∃ i', c'.info = some i' ∧ (i.title ≠ [] → i'.title ≠ []) ∧
      (i.version ≠ [] → i'.version ≠ []) ∧ (i.descr.isSome → i'.descr.isSome)) := by
  have hid : ∀ i, c.info = some i → ∃ i', c.info = some i' ∧ (i.title ≠ [] → i'.title ≠ []) ∧
      (i.version ≠ [] → i'.version ≠ []) ∧ (i.descr.isSome → i'.descr.isSome) :=
    fun i hi => ⟨i, hi, id, id, id⟩
  cases h
  case same => exact ⟨fun _ h => h, fun _ h => h, fun _ h => h, fun _ h => h, hid⟩
  case jsight => exact ⟨fun _ h => h, fun _ h => h, fun _ h => h, fun _ h => h, hid⟩
  case proto => exact ⟨fun _ h => h, fun _ h => h, fun _ h => h, fun _ h => h, hid⟩
  case tagsMap => exact ⟨fun _ h => h, fun _ h => h, fun _ h => h, fun _ h => h, hid⟩
  case info _ hn => exact ⟨fun _ h => h, fun _ h => h, fun _ h => h, fun _ h => h, fun i hi => by simp [hn] at hi⟩
  case title i _ hi ht hp =>
    refine ⟨fun _ h => h, fun _ h => h, fun _ h => h, fun _ h => h, fun i' hi' => ?_⟩
    rw [hi] at hi'; cases hi'
    exact ⟨_, rfl, fun _ => hp, id, id⟩
  case version i _ hi ht hp =>
    refine ⟨fun _ h => h, fun _ h => h, fun _ h => h, fun _ h => h, fun i' hi' => ?_⟩
    rw [hi] at hi'; cases hi'
    exact ⟨_, rfl, id, fun _ => hp, id⟩
  case descrInfo i text _ _ hi hd =>
    refine ⟨fun _ h => h, fun _ h => h, fun _ h => h, fun _ h => h, fun i' hi' => ?_⟩
    rw [hi] at hi'; cases hi'
    exact ⟨_, rfl, id, id, fun _ => rfl⟩
  case inters g _ hg =>
    refine ⟨fun _ h => h, fun _ h => h, fun _ h => h, fun i h => ?_, hid⟩
    simp only [Cat.hasInter, List.any_eq_true, List.mem_map] at h ⊢
    obtain ⟨x, hx, hxi⟩ := h
    exact ⟨g x, ⟨x, hx, rfl⟩, by rw [(hg x).1]; exact hxi⟩
  case server =>
    exact ⟨fun _ h => h, fun n ⟨t, ht, hn⟩ => ⟨t, List.mem_append_left _ ht, hn⟩, fun _ h => h, fun _ h => h, hid⟩
  case baseUrl g _ hg =>
    refine ⟨fun _ h => h, fun n ⟨t, ht, hn⟩ => ⟨g t, List.mem_map_of_mem ht, by rw [(hg t).1]; exact hn⟩,
      fun _ h => h, fun _ h => h, hid⟩
  case type =>
    exact ⟨fun n ⟨t, ht, hn⟩ => ⟨t, List.mem_append_left _ ht, hn⟩, fun _ h => h, fun _ h => h, fun _ h => h, hid⟩
  case url => exact ⟨fun _ h => h, fun _ h => h, fun _ h => List.mem_cons_of_mem _ h, fun _ h => h, hid⟩
  case method =>
    refine ⟨fun _ h => h, fun _ h => h, fun _ h => h, fun i h => ?_, hid⟩
    simp only [Cat.hasInter, List.any_append, Bool.or_eq_true] at h ⊢
    exact .inl h
theorem dup_type {banned : List Kind} {f : List BTree} {i j : Nat} {d₁ d₂ : BDir} (hij : i ≠ j)
    (h₁ : (flatF f)[i]? = some d₁) (h₂ : (flatF f)[j]? = some d₂) (k₁ : d₁.kind = .Type) (k₂ : d₂.kind = .Type)
    (hn : d₁.param "Name" = d₂.param "Name") : ∀ c, compile banned f ≠ .ok c := by
  obtain ⟨e₁, he₁, rfl⟩ := getElem_flatAF h₁
  obtain ⟨e₂, he₂, rfl⟩ := getElem_flatAF h₂
  refine compile_conflict (fun e => e.d.kind = .Type ∧ e.d.param "Name" = e₁.d.param "Name")
    (fun c => ∃ t ∈ c.types, t.name = e₁.d.param "Name") ?_ ?_ ?_ hij he₁ he₂ ⟨k₁, rfl⟩ ⟨k₂, hn.symm⟩
  · intro e c c' ⟨hk, hp⟩ hs
    rw [← hp]; exact (stepR_type (step_ok hs).2 hk).2
  · intro e c c' hm hs
    exact (stepR_mono (step_ok hs).2).1 _ hm
  · intro e c c' ⟨hk, hp⟩ ⟨t, ht, hn⟩ hs
    exact (stepR_type (step_ok hs).2 hk).1 t ht (by rw [hn, hp])

theorem dup_server {banned : List Kind} {f : List BTree} {i j : Nat} {d₁ d₂ : BDir} (hij : i ≠ j)
    (h₁ : (flatF f)[i]? = some d₁) (h₂ : (flatF f)[j]? = some d₂) (k₁ : d₁.kind = .Server) (k₂ : d₂.kind = .Server)
    (hn : d₁.param "Name" = d₂.param "Name") : ∀ c, compile banned f ≠ .ok c := by
  obtain ⟨e₁, he₁, rfl⟩ := getElem_flatAF h₁
  obtain ⟨e₂, he₂, rfl⟩ := getElem_flatAF h₂
  refine compile_conflict (fun e => e.d.kind = .Server ∧ e.d.param "Name" = e₁.d.param "Name")
    (fun c => ∃ t ∈ c.servers, t.name = e₁.d.param "Name") ?_ ?_ ?_ hij he₁ he₂ ⟨k₁, rfl⟩ ⟨k₂, hn.symm⟩
  · intro e c c' ⟨hk, hp⟩ hs
    rw [← hp]; exact (stepR_server (step_ok hs).2 hk).2
  · intro e c c' hm hs
    exact (stepR_mono (step_ok hs).2).2.1 _ hm
  · intro e c c' ⟨hk, hp⟩ ⟨t, ht, hn⟩ hs
    exact (stepR_server (step_ok hs).2 hk).1 t ht (by rw [hn, hp])

theorem dup_url {banned : List Kind} {f : List BTree} {i j : Nat} {d₁ d₂ : BDir} (hij : i ≠ j)
    (h₁ : (flatF f)[i]? = some d₁) (h₂ : (flatF f)[j]? = some d₂) (k₁ : d₁.kind = .URL) (k₂ : d₂.kind = .URL)
    (hn : d₁.param "Path" = d₂.param "Path") : ∀ c, compile banned f ≠ .ok c := by
  obtain ⟨e₁, he₁, rfl⟩ := getElem_flatAF h₁
  obtain ⟨e₂, he₂, rfl⟩ := getElem_flatAF h₂
  refine compile_conflict (fun e => e.d.kind = .URL ∧ e.d.param "Path" = e₁.d.param "Path")
    (fun c => e₁.d.param "Path" ∈ c.uniqURL) ?_ ?_ ?_ hij he₁ he₂ ⟨k₁, rfl⟩ ⟨k₂, hn.symm⟩
  · intro e c c' ⟨hk, hp⟩ hs
    rw [← hp]; exact (stepR_url (step_ok hs).2 hk).2
  · intro e c c' hm hs
    exact (stepR_mono (step_ok hs).2).2.2.1 _ hm
  · intro e c c' ⟨hk, hp⟩ hm hs
    exact (stepR_url (step_ok hs).2 hk).1 (by rw [hp]; exact hm)

theorem dup_title {banned : List Kind} {f : List BTree} {i j : Nat} {d₁ d₂ : BDir} (hij : i ≠ j)
    (h₁ : (flatF f)[i]? = some d₁) (h₂ : (flatF f)[j]? = some d₂) (k₁ : d₁.kind = .Title) (k₂ : d₂.kind = .Title) :
    ∀ c, compile banned f ≠ .ok c := by
  obtain ⟨e₁, he₁, rfl⟩ := getElem_flatAF h₁
  obtain ⟨e₂, he₂, rfl⟩ := getElem_flatAF h₂
  refine compile_conflict (fun e => e.d.kind = .Title)
    (fun c => ∃ i, c.info = some i ∧ i.title ≠ []) ?_ ?_ ?_ hij he₁ he₂ k₁ k₂
  · intro e c c' hk hs
    exact (stepR_title (step_ok hs).2 hk).2
  · intro e c c' ⟨i, hi, ht⟩ hs
    obtain ⟨i', hi', h1, _⟩ := (stepR_mono (step_ok hs).2).2.2.2.2 i hi
    exact ⟨i', hi', h1 ht⟩
  · intro e c c' hk ⟨i, hi, ht⟩ hs
    exact ht ((stepR_title (step_ok hs).2 hk).1 i hi)

theorem dup_version {banned : List Kind} {f : List BTree} {i j : Nat} {d₁ d₂ : BDir} (hij : i ≠ j)
    (h₁ : (flatF f)[i]? = some d₁) (h₂ : (flatF f)[j]? = some d₂) (k₁ : d₁.kind = .Version)
    (k₂ : d₂.kind = .Version) : ∀ c, compile banned f ≠ .ok c := by
  obtain ⟨e₁, he₁, rfl⟩ := getElem_flatAF h₁
  obtain ⟨e₂, he₂, rfl⟩ := getElem_flatAF h₂
  refine compile_conflict (fun e => e.d.kind = .Version)
    (fun c => ∃ i, c.info = some i ∧ i.version ≠ []) ?_ ?_ ?_ hij he₁ he₂ k₁ k₂
  · intro e c c' hk hs
    exact (stepR_version (step_ok hs).2 hk).2
  · intro e c c' ⟨i, hi, ht⟩ hs
    obtain ⟨i', hi', _, h2, _⟩ := (stepR_mono (step_ok hs).2).2.2.2.2 i hi
    exact ⟨i', hi', h2 ht⟩
  · intro e c c' hk ⟨i, hi, ht⟩ hs
    exact ht ((stepR_version (step_ok hs).2 hk).1 i hi)

theorem dup_method {banned : List Kind} {f : List BTree} {i j : Nat} {e₁ e₂ : Ent} {x : IId} (hij : i ≠ j)
    (h₁ : (flatAF [] f)[i]? = some e₁) (h₂ : (flatAF [] f)[j]? = some e₂)
    (k₁ : isMeth e₁.d.kind = true) (k₂ : isMeth e₂.d.kind = true) (i₁ : idOf e₁ = .ok x) (i₂ : idOf e₂ = .ok x) :
    ∀ c, compile banned f ≠ .ok c := by
  refine compile_conflict (fun e => isMeth e.d.kind = true ∧ idOf e = .ok x)
    (fun c => c.hasInter x = true) ?_ ?_ ?_ hij h₁ h₂ ⟨k₁, i₁⟩ ⟨k₂, i₂⟩
  · intro e c c' ⟨hk, hi⟩ hs
    obtain ⟨y, hy, _, h⟩ := stepR_method (step_ok hs).2 hk
    rw [hi] at hy; cases hy; exact h
  · intro e c c' hm hs
    exact (stepR_mono (step_ok hs).2).2.2.2.1 _ hm
  · intro e c c' ⟨hk, hi⟩ hm hs
    obtain ⟨y, hy, h, _⟩ := stepR_method (step_ok hs).2 hk
    rw [hi] at hy; cases hy; rw [hm] at h; cases h

/-- the message of the second method directive (when its earlier checks pass) -/
theorem addHTTPMethod_defined {d : BDir} {kids : List BDir} {anc : List Up} {c : Cat} {i : IId} {path : Bytes}
    {pp sim : List (Bytes × Bytes)} (hpath : pathChain (d :: anc.map (·.d)) = .ok path)
    (hpp : checkedParams d path = .ok pp) (hsim : checkSimilar c.similar pp = some sim)
    (hi : httpIdOf (d :: anc.map (·.d)) = .ok i) (hhas : c.hasInter i = true) :
    addHTTPMethod d kids anc c = .error ⟨d.id, .methodDefined⟩ := by
  have hhas' : Cat.hasInter { c with similar := sim } i = true := hhas
  unfold addHTTPMethod
  simp only [hpath, liftAt, ok_bind, hpp, hsim, hi, hhas', if_true, fail]
theorem step_description {banned : List Kind} {e : Ent} {c c' : Cat} (hk : e.d.kind = .Description)
    (hs : step banned e c = .ok c') : addDescription e.d e.anc c = .ok c' := by
  unfold step addDirective at hs
  simp only [fail] at hs
  split at hs; · cases hs
  simpa only [hk] using hs

/-- an entry whose parent is an INFO directive -/
def underInfo (e : Ent) : Prop := ∃ p r, e.anc = p :: r ∧ p.d.kind = .Info

theorem addDescription_info {d : BDir} {anc : List Up} {c c' : Cat} (hu : ∃ p r, anc = p :: r ∧ p.d.kind = .Info)
    (hs : addDescription d anc c = .ok c') :
    (∀ i, c.info = some i → i.descr = none) ∧ ∃ i, c'.info = some i ∧ i.descr.isSome := by
  obtain ⟨p, r, rfl, hk⟩ := hu
  unfold addDescription at hs
  simp only [fail, hk, beq_self_eq_true, if_true] at hs
  split at hs; · cases hs
  split at hs; · cases hs
  split at hs; · cases hs
  split at hs; · cases hs
  split at hs; · cases hs
  split at hs; · cases hs
  rename_i i hi hd
  cases hs
  refine ⟨fun i' hi' => ?_, _, rfl, rfl⟩
  rw [hi] at hi'; cases hi'
  simpa using hd

theorem dup_info_description {banned : List Kind} {f : List BTree} {i j : Nat} {e₁ e₂ : Ent} (hij : i ≠ j)
    (h₁ : (flatAF [] f)[i]? = some e₁) (h₂ : (flatAF [] f)[j]? = some e₂)
    (k₁ : e₁.d.kind = .Description) (k₂ : e₂.d.kind = .Description) (u₁ : underInfo e₁) (u₂ : underInfo e₂) :
    ∀ c, compile banned f ≠ .ok c := by
  refine compile_conflict (fun e => e.d.kind = .Description ∧ underInfo e)
    (fun c => ∃ i, c.info = some i ∧ i.descr.isSome) ?_ ?_ ?_ hij h₁ h₂ ⟨k₁, u₁⟩ ⟨k₂, u₂⟩
  · intro e c c' ⟨hk, hu⟩ hs
    exact (addDescription_info hu (step_description hk hs)).2
  · intro e c c' ⟨i, hi, ht⟩ hs
    obtain ⟨i', hi', _, _, h3⟩ := (stepR_mono (step_ok hs).2).2.2.2.2 i hi
    exact ⟨i', hi', h3 ht⟩
  · intro e c c' ⟨hk, hu⟩ ⟨i, hi, ht⟩ hs
    have := (addDescription_info hu (step_description hk hs)).1 i hi
    rw [this] at ht; cases ht

/-! ### required parameters -/

/-- the required named parameter of a directive kind (checked by its handler wherever the directive stands) -/
def requiredParam : Kind → Option String
  | .Jsight => some "Version"
  | .Title => some "Title"
  | .Version => some "Version"
  | .Server => some "Name"
  | .BaseURL => some "Path"
  | .Type => some "Name"
  | .Protocol => some "ProtocolName"
  | .Method => some "MethodName"
  | _ => none

theorem step_missing {banned : List Kind} {e : Ent} {p : String} (hr : requiredParam e.d.kind = some p)
    (hm : e.d.param p = []) : ∀ c c', step banned e c ≠ .ok c' := by
  intro c c' hs
  obtain ⟨d, kids, anc⟩ := e
  unfold step addDirective at hs
  simp only [fail] at hs
  split at hs; · cases hs
  cases hk : d.kind <;> simp only [hk, requiredParam] at hr hs <;> try (cases hr; done)
  all_goals
    cases hr
    simp only at hm
    first
    | (unfold addJSight at hs; simp [hm, fail] at hs)
    | (unfold addTitle at hs; simp [hm, fail] at hs)
    | (unfold addVersion at hs; simp [hm, fail] at hs)
    | (unfold addServer at hs; simp [hm, fail] at hs)
    | (unfold addBaseUrl at hs; simp [hm, fail] at hs)
    | (unfold addType at hs; simp [hm, fail] at hs)
    | (unfold addProtocol at hs; simp only [hm, fail] at hs; split at hs <;> simp at hs)
    | (unfold addJsonRpcMethod at hs; simp [hm, fail] at hs)

theorem missing_required {banned : List Kind} {f : List BTree} {d : BDir} {p : String} (hd : d ∈ flatF f)
    (hr : requiredParam d.kind = some p) (hm : d.param p = []) : ∀ c, compile banned f ≠ .ok c := by
  intro c h
  obtain ⟨c₀, _, _, _, _, hrun, _⟩ := compile_ok h
  rw [← flatAF_dirs [] f, List.mem_map] at hd
  obtain ⟨e, he, rfl⟩ := hd
  exact run_fails_of_mem (fun _ => True) _ (fun _ _ _ _ _ _ => trivial) e he
    (fun c c' _ => step_missing hr hm c c') c₀ c trivial hrun
/-! ### top-level TAG directives -/

theorem collectTags_missing : ∀ (f : List BTree) (t : BTree), t ∈ f → t.dir.kind = .TAG → t.dir.param "TagName" = [] →
    ∀ c c', collectTags f c ≠ .ok c'
  | [], _, hm, _, _, _, _, _ => by cases hm
  | a :: r, t, hm, hk, hn, c, c', h => by
    unfold collectTags at h
    simp only [fail] at h
    cases hm with
    | head => simp [hk, hn] at h
    | tail _ hm' =>
      split at h
      · split at h; · cases h
        split at h; · cases h
        exact collectTags_missing r t hm' hk hn _ _ h
      · exact collectTags_missing r t hm' hk hn _ _ h

theorem collectTags_has : ∀ (f : List BTree) (t : BTree), t ∈ f → t.dir.kind = .TAG →
    ∀ c c', (c.getTag (t.dir.param "TagName")).isSome → collectTags f c ≠ .ok c'
  | [], _, hm, _, _, _, _, _ => by cases hm
  | a :: r, t, hm, hk, c, c', hg, h => by
    unfold collectTags at h
    simp only [fail] at h
    have keep : ∀ x : TagM, ({ c with tags := c.tags ++ [x] } : Cat).getTag (t.dir.param "TagName") |>.isSome := by
      intro x
      unfold Cat.getTag at hg ⊢
      simp only [List.find?_append]
      cases hf : c.tags.find? (·.name == t.dir.param "TagName") with
      | none => simp [hf] at hg
      | some y => simp
    cases hm with
    | head => simp [hk, hg] at h; split at h <;> cases h
    | tail _ hm' =>
      split at h
      · split at h; · cases h
        split at h; · cases h
        exact collectTags_has r t hm' hk _ _ (keep _) h
      · exact collectTags_has r t hm' hk _ _ hg h

theorem collectTags_dup : ∀ (f : List BTree) (i j : Nat) (t₁ t₂ : BTree), i < j → f[i]? = some t₁ → f[j]? = some t₂ →
    t₁.dir.kind = .TAG → t₂.dir.kind = .TAG → t₁.dir.param "TagName" = t₂.dir.param "TagName" →
    ∀ c c', collectTags f c ≠ .ok c'
  | [], i, j, t₁, t₂, _, h₁, _, _, _, _, _, _, _ => by simp at h₁
  | a :: r, i, j, t₁, t₂, hij, h₁, h₂, k₁, k₂, hn, c, c', h => by
    cases j with
    | zero => omega
    | succ j =>
      simp only [List.getElem?_cons_succ] at h₂
      unfold collectTags at h
      simp only [fail] at h
      cases i with
      | zero =>
        simp only [List.getElem?_cons_zero, Option.some.injEq] at h₁
        subst h₁
        simp only [k₁, beq_self_eq_true, if_true] at h
        split at h; · cases h
        split at h; · cases h
        refine collectTags_has r t₂ (List.mem_of_getElem? h₂) k₂ _ _ ?_ h
        rw [← hn]
        simp [Cat.getTag, List.find?_append]
      | succ i =>
        simp only [List.getElem?_cons_succ] at h₁
        split at h
        · split at h; · cases h
          split at h; · cases h
          exact collectTags_dup r i j t₁ t₂ (by omega) h₁ h₂ k₁ k₂ hn _ _ h
        · exact collectTags_dup r i j t₁ t₂ (by omega) h₁ h₂ k₁ k₂ hn _ _ h

/-! ### `Tags` directives name declared tags -/

theorem step_tags {banned : List Kind} {e : Ent} {c c' : Cat} (hk : e.d.kind = .Tags)
    (hs : step banned e c = .ok c') : addTags e.d e.anc c = .ok c' := by
  unfold step addDirective at hs
  simp only [fail] at hs
  split at hs; · cases hs
  simpa only [hk] using hs

theorem undeclared_tag {banned : List Kind} {f : List BTree} {d : BDir} {n : Bytes} (hd : d ∈ flatF f)
    (hk : d.kind = .Tags) (hn : n ∈ d.unnamed) (hno : ∀ t ∈ declTags f, t.name ≠ n) :
    ∀ c, compile banned f ≠ .ok c := by
  intro c h
  obtain ⟨c₀, h0, _, _, _, hrun, _⟩ := compile_ok h
  rw [← flatAF_dirs [] f, List.mem_map] at hd
  obtain ⟨e, he, rfl⟩ := hd
  refine run_fails_of_mem (fun c => ∀ t ∈ c.tags, t.declared = true → t.name ≠ n) _ ?_ e he ?_ c₀ c ?_ hrun
  · intro e' _ c₁ c₂ hj hs
    obtain ⟨extra, g, hg, hex, ht⟩ := tags_stepR (step_ok hs).2
    intro t htm htd
    rw [ht, List.mem_map] at htm
    obtain ⟨t', ht', rfl⟩ := htm
    rw [(hg t').2.2] at htd
    rw [(hg t').1]
    rcases List.mem_append.mp ht' with h' | h'
    · exact hj t' h' htd
    · rw [hex t' h'] at htd; cases htd
  · intro c₁ c₂ hj hs
    have := step_tags hk hs
    unfold addTags at this
    split at this; · cases this
    obtain ⟨ns, h1, _⟩ := bind_ok this
    obtain ⟨hns, hall⟩ := tagsFromDirective_ok h1
    subst hns
    obtain ⟨t, ht, htd⟩ := hall n hn
    have hmem := List.mem_of_find?_eq_some ht
    have hname : t.name = n := by simpa using List.find?_some ht
    exact hj t hmem htd hname
  · rw [collectTags_empty h0]
    intro t ht _
    exact hno t ht
/-! ### the names and ids of an accepted catalog never repeat -/

theorem nodup_snoc {α} {l : List α} {a : α} (h : l.Nodup) (ha : a ∉ l) : (l ++ [a]).Nodup := by
  rw [List.nodup_append]
  refine ⟨h, by simp, ?_⟩
  intro x hx y hy
  simp only [List.mem_singleton] at hy
  subst hy
  intro hxy; subst hxy; exact ha hx

theorem nodup_stepR {e : Ent} {c c' : Cat} (h : StepR e c c') :
    ((c.types.map (·.name)).Nodup → (c'.types.map (·.name)).Nodup) ∧
    ((c.servers.map (·.name)).Nodup → (c'.servers.map (·.name)).Nodup) ∧
    ((c.inters.map (·.iid)).Nodup → (c'.inters.map (·.iid)).Nodup) := by
  cases h
  case type nt _ _ hf =>
    refine ⟨fun hn => ?_, id, id⟩
    simp only [List.map_append, List.map_cons, List.map_nil]
    refine nodup_snoc hn ?_
    intro hm
    obtain ⟨t, ht, hn'⟩ := List.mem_map.mp hm
    exact hf t ht hn'
  case server _ _ hf =>
    refine ⟨id, fun hn => ?_, id⟩
    simp only [List.map_append, List.map_cons, List.map_nil]
    refine nodup_snoc hn ?_
    intro hm
    obtain ⟨t, ht, hn'⟩ := List.mem_map.mp hm
    exact hf t ht hn'
  case baseUrl g _ hg =>
    refine ⟨id, fun hn => ?_, id⟩
    have : (fun x : ServerM => x.name) ∘ g = (fun x => x.name) := by funext x; simp [(hg x).1]
    simpa only [List.map_map, this] using hn
  case inters g _ hg =>
    refine ⟨id, id, fun hn => ?_⟩
    have : (fun x : InterM => x.iid) ∘ g = (fun x => x.iid) := by funext x; simp [(hg x).1]
    simpa only [List.map_map, this] using hn
  case method sim i ns extra g _ _ hh _ _ =>
    refine ⟨id, id, fun hn => ?_⟩
    simp only [List.map_append, List.map_cons, List.map_nil]
    refine nodup_snoc hn ?_
    intro hm
    obtain ⟨x, hx, hi⟩ := List.mem_map.mp hm
    have : c.hasInter i = true := by
      simp only [Cat.hasInter, List.any_eq_true]
      exact ⟨x, hx, by simp [hi]⟩
    rw [this] at hh; cases hh
  all_goals exact ⟨id, id, id⟩

theorem nodup_compile {banned : List Kind} {f : List BTree} {c : Cat} (h : compile banned f = .ok c) :
    (c.types.map (·.name)).Nodup ∧ (c.servers.map (·.name)).Nodup ∧ (c.inters.map (·.iid)).Nodup := by
  obtain ⟨c₀, h0, _, _, _, hr, _⟩ := compile_ok h
  refine run_inv (fun c => (c.types.map (·.name)).Nodup ∧ (c.servers.map (·.name)).Nodup ∧
      (c.inters.map (·.iid)).Nodup) _ (fun e _ c₁ c₂ hp hs => ?_) c₀ c ?_ hr
  · have := nodup_stepR (step_ok hs).2
    exact ⟨this.1 hp.1, this.2.1 hp.2.1, this.2.2 hp.2.2⟩
  · rw [collectTags_empty h0]; simp
end JSight.C04B
