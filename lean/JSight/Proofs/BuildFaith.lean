import JSight.Model.Build
/-!
Helpers of `Props/C04_Build.lean`: the catalog construction (`Model/Build.lean`) seen as a fold of
`addDirective` over the directives in source order, a normal form of one step, and the lemmas that
lift facts about one step to the whole construction.
-/
namespace JSight.C04B
open JSight JSight.Build JSight.Gen

/-! ### the directives in source (pre-)order -/

mutual
  def flat : BTree → List BDir | .node d kids => d :: flatF kids
  def flatF : List BTree → List BDir | [] => [] | t :: r => flat t ++ flatF r
end

/-- a directive together with what `addDirective` reads of its surroundings -/
structure Ent where
  d : BDir
  kids : List BDir
  anc : List Up

/-- the parent chain of an entry, the directive first -/
def Ent.chain (e : Ent) : List BDir := e.d :: e.anc.map (·.d)

mutual
  def flatA (anc : List Up) : BTree → List Ent
    | .node d kids => ⟨d, kids.map BTree.dir, anc⟩ :: flatAF (⟨d, kids.map BTree.dir⟩ :: anc) kids
  def flatAF (anc : List Up) : List BTree → List Ent
    | [] => []
    | t :: r => flatA anc t ++ flatAF anc r
end

def step (banned : List Kind) (e : Ent) (c : Cat) : R Cat := addDirective banned e.d e.kids e.anc c

def run (banned : List Kind) : List Ent → Cat → R Cat
  | [], c => .ok c
  | e :: r, c =>
    match step banned e c with
    | .error x => .error x
    | .ok c' => run banned r c'

theorem run_append (banned : List Kind) (l₁ l₂ : List Ent) (c : Cat) :
    run banned (l₁ ++ l₂) c = (match run banned l₁ c with | .error x => .error x | .ok c' => run banned l₂ c') := by
  induction l₁ generalizing c with
  | nil => simp [run]
  | cons e r ih =>
    simp only [List.cons_append, run]
    cases step banned e c with
    | error x => rfl
    | ok c' => exact ih c'

mutual
  theorem addBranch_eq_run (banned : List Kind) (anc : List Up) :
      ∀ (t : BTree) (c : Cat), addBranch banned anc t c = run banned (flatA anc t) c
    | .node d kids, c => by
      rw [addBranch, flatA, run]
      simp only [step]
      cases addDirective banned d (kids.map BTree.dir) anc c with
      | error x => rfl
      | ok c' => exact addForest_eq_run banned _ kids c'
  theorem addForest_eq_run (banned : List Kind) (anc : List Up) :
      ∀ (f : List BTree) (c : Cat), addForest banned anc f c = run banned (flatAF anc f) c
    | [], c => by rw [addForest, flatAF, run]
    | t :: r, c => by
      rw [addForest, flatAF, run_append, addBranch_eq_run banned anc t c]
      cases run banned (flatA anc t) c with
      | error x => rfl
      | ok c' => exact addForest_eq_run banned anc r c'
end

mutual
  theorem flatA_dirs (anc : List Up) : ∀ t : BTree, (flatA anc t).map (·.d) = flat t
    | .node d kids => by simp [flatA, flat, flatAF_dirs _ kids]
  theorem flatAF_dirs (anc : List Up) : ∀ f : List BTree, (flatAF anc f).map (·.d) = flatF f
    | [] => by simp [flatAF, flatF]
    | t :: r => by simp [flatAF, flatF, flatA_dirs anc t, flatAF_dirs anc r]
end

theorem flatAF_append (anc : List Up) (f g : List BTree) : flatAF anc (f ++ g) = flatAF anc f ++ flatAF anc g := by
  induction f with
  | nil => simp [flatAF]
  | cons t r ih => simp [flatAF, ih]

theorem flatF_append (f g : List BTree) : flatF (f ++ g) = flatF f ++ flatF g := by
  induction f with
  | nil => simp [flatF]
  | cons t r ih => simp [flatF, ih]

theorem addForest_append (banned : List Kind) (anc : List Up) (f g : List BTree) (c : Cat) :
    addForest banned anc (f ++ g) c =
      (match addForest banned anc f c with | .error x => .error x | .ok c' => addForest banned anc g c') := by
  simp only [addForest_eq_run, flatAF_append, run_append]

/-! ### lifting facts about one step to a run -/

theorem run_inv {banned : List Kind} (P : Cat → Prop) (l : List Ent)
    (hstep : ∀ e ∈ l, ∀ c c', P c → step banned e c = .ok c' → P c') :
    ∀ c c', P c → run banned l c = .ok c' → P c' := by
  induction l with
  | nil => intro c c' hp h; simp [run] at h; exact h ▸ hp
  | cons e r ih =>
    intro c c' hp h
    simp only [run] at h
    cases hs : step banned e c with
    | error x => simp [hs] at h
    | ok c₁ =>
      simp only [hs] at h
      exact ih (fun e' he' => hstep e' (List.mem_cons_of_mem _ he')) c₁ c'
        (hstep e (List.mem_cons_self ..) c c₁ hp hs) h

theorem run_proj {banned : List Kind} {α : Type} (m : Cat → List α) (g : Ent → List α)
    (hstep : ∀ e c c', step banned e c = .ok c' → m c' = m c ++ g e) :
    ∀ (l : List Ent) c c', run banned l c = .ok c' → m c' = m c ++ l.flatMap g := by
  intro l
  induction l with
  | nil => intro c c' h; simp [run] at h; simp [h]
  | cons e r ih =>
    intro c c' h
    simp only [run] at h
    cases hs : step banned e c with
    | error x => simp [hs] at h
    | ok c₁ =>
      simp only [hs] at h
      rw [ih c₁ c' h, hstep e c c₁ hs]
      simp

theorem run_all {banned : List Kind} (Q : Ent → Prop)
    (hstep : ∀ e c c', step banned e c = .ok c' → Q e) :
    ∀ (l : List Ent) c c', run banned l c = .ok c' → ∀ e ∈ l, Q e := by
  intro l
  induction l with
  | nil => intro c c' _ e he; cases he
  | cons e r ih =>
    intro c c' h
    simp only [run] at h
    cases hs : step banned e c with
    | error x => simp [hs] at h
    | ok c₁ =>
      simp only [hs] at h
      intro e' he'
      cases he' with
      | head => exact hstep _ c c₁ hs
      | tail _ hm => exact ih c₁ c' h e' hm

/-- an entry that fails in every state satisfying a preserved invariant makes the run fail -/
theorem run_fails_of_mem {banned : List Kind} (J : Cat → Prop) (l : List Ent)
    (hkeep : ∀ e ∈ l, ∀ c c', J c → step banned e c = .ok c' → J c')
    (e : Ent) (he : e ∈ l) (hbad : ∀ c c', J c → step banned e c ≠ .ok c') :
    ∀ c c', J c → run banned l c ≠ .ok c' := by
  induction l with
  | nil => cases he
  | cons a r ih =>
    intro c c' hj h
    simp only [run] at h
    cases hs : step banned a c with
    | error x => simp [hs] at h
    | ok c₁ =>
      simp only [hs] at h
      cases he with
      | head => exact hbad c c₁ hj hs
      | tail _ hm =>
        exact ih (fun e' he' => hkeep e' (List.mem_cons_of_mem _ he')) hm c₁ c'
          (hkeep a (List.mem_cons_self ..) c c₁ hj hs) h

/-- two entries of a class whose first member sets a mark that persists and on which every member fails -/
theorem run_conflict {banned : List Kind} (E : Ent → Prop) (Mark : Cat → Prop)
    (hset : ∀ e c c', E e → step banned e c = .ok c' → Mark c')
    (hkeep : ∀ e c c', Mark c → step banned e c = .ok c' → Mark c')
    (hclash : ∀ e c c', E e → Mark c → step banned e c ≠ .ok c') :
    ∀ (l : List Ent) (i j : Nat) (e₁ e₂ : Ent), i < j → l[i]? = some e₁ → l[j]? = some e₂ → E e₁ → E e₂ →
      ∀ c c', run banned l c ≠ .ok c' := by
  intro l
  induction l with
  | nil => intro i j e₁ e₂ _ hi; simp at hi
  | cons a r ih =>
    intro i j e₁ e₂ hij hi hj h₁ h₂ c c' h
    simp only [run] at h
    cases hs : step banned a c with
    | error x => simp [hs] at h
    | ok c₁ =>
      simp only [hs] at h
      cases j with
      | zero => omega
      | succ j =>
        simp only [List.getElem?_cons_succ] at hj
        cases i with
        | zero =>
          simp only [List.getElem?_cons_zero, Option.some.injEq] at hi
          subst hi
          exact run_fails_of_mem Mark r (fun e _ c c' => hkeep e c c') e₂ (List.mem_of_getElem? hj)
            (fun c c' hm => hclash e₂ c c' h₂ hm) c₁ c' (hset _ c c₁ h₁ hs) h
        | succ i =>
          simp only [List.getElem?_cons_succ] at hi
          exact ih i j e₁ e₂ (by omega) hi hj h₁ h₂ c₁ c' h

/-! ### the normal form of one step -/

/-- the kinds whose handler changes nothing of what the faithfulness theorems read -/
def neutral : Kind → Bool
  | .Description | .Body | .Request | .HTTPResponseCode | .Path | .Headers | .Query | .Enum | .Macro | .Paste
  | .Include | .Protocol | .Params | .Result | .TAG | .Tags => true
  | _ => false

def isMeth (k : Kind) : Bool := isHTTP k || k == .Method

/-- the interaction id of a method directive -/
def idOf (e : Ent) : Except Msg IId := if e.d.kind == .Method then rpcIdOf e.chain else httpIdOf e.chain

def KeepI (g : InterM → InterM) : Prop := ∀ x, (g x).iid = x.iid ∧ (g x).annot = x.annot ∧ (g x).tags = x.tags
def KeepT (g : TagM → TagM) : Prop :=
  ∀ x, (g x).name = x.name ∧ (g x).title = x.title ∧ (g x).declared = x.declared
def KeepS (g : ServerM → ServerM) : Prop := ∀ x, (g x).name = x.name ∧ (g x).annot = x.annot

inductive StepR (e : Ent) (c : Cat) : Cat → Prop
  | same : neutral e.d.kind → StepR e c c
  | jsight : e.d.kind = .Jsight → c.jsight = [] → StepR e c { c with jsight := v03 }
  | info : e.d.kind = .Info → c.info = none → StepR e c { c with info := some { id := e.d.id } }
  | title (i : InfoM) : e.d.kind = .Title → c.info = some i → i.title = [] → e.d.param "Title" ≠ [] →
      StepR e c { c with info := some { i with title := e.d.param "Title" } }
  | version (i : InfoM) : e.d.kind = .Version → c.info = some i → i.version = [] → e.d.param "Version" ≠ [] →
      StepR e c { c with info := some { i with version := e.d.param "Version" } }
  | descrInfo (i : InfoM) (text : Bytes) : e.d.kind = .Description →
      (∃ p r, e.anc = p :: r ∧ p.d.kind = .Info) → c.info = some i → i.descr = none →
      StepR e c { c with info := some { i with descr := some text } }
  | inters (g : InterM → InterM) : neutral e.d.kind → KeepI g → StepR e c { c with inters := c.inters.map g }
  | tagsMap (g : TagM → TagM) : neutral e.d.kind → KeepT g → StepR e c { c with tags := c.tags.map g }
  | server : e.d.kind = .Server → e.d.param "Name" ≠ [] → (∀ s ∈ c.servers, s.name ≠ e.d.param "Name") →
      StepR e c { c with servers := c.servers ++ [{ name := e.d.param "Name", annot := e.d.annot }] }
  | baseUrl (g : ServerM → ServerM) : e.d.kind = .BaseURL → KeepS g →
      StepR e c { c with servers := c.servers.map g }
  | type (nt : Bytes) : e.d.kind = .Type → e.d.param "Name" ≠ [] → (∀ t ∈ c.types, t.name ≠ e.d.param "Name") →
      StepR e c { c with types := c.types ++ [{ name := e.d.param "Name", annot := e.d.annot, nota := nt }] }
  | url (sim : List (Bytes × Bytes)) : e.d.kind = .URL → e.d.param "Path" ∉ c.uniqURL →
      StepR e c { c with similar := sim, uniqURL := e.d.param "Path" :: c.uniqURL }
  | method (sim : List (Bytes × Bytes)) (i : IId) (ns : List Bytes) (extra : List TagM) (g : TagM → TagM) :
      isMeth e.d.kind → idOf e = .ok i → c.hasInter i = false → KeepT g →
      (extra = [] ∨ ∃ a, extra = [a] ∧ a.declared = false ∧ c.getTag a.name = none) →
      StepR e c { c with similar := sim, tags := (c.tags ++ extra).map g,
                         inters := c.inters ++ [{ iid := i, annot := e.d.annot, tags := ns }] }
  | proto (p : List Nat) : neutral e.d.kind → StepR e c { c with protoURLs := p }

theorem isEmpty_false_ne {α} {l : List α} (h : l.isEmpty = false) : l ≠ [] := by
  intro h'; subst h'; simp at h

theorem addJSight_ok {d kids anc c c'} (hk : d.kind = .Jsight) (h : addJSight d c = .ok c') :
    StepR ⟨d, kids, anc⟩ c c' := by
  unfold addJSight at h
  simp only [fail] at h
  split at h; · cases h
  split at h; · cases h
  split at h; · cases h
  split at h; · cases h
  rename_i h1 h2 h3 h4
  cases h
  simp at h2 h4
  rw [h2]
  exact .jsight hk h4

theorem bind_ok {α β} {x : R α} {f : α → R β} {b : β} (h : x >>= f = .ok b) : ∃ a, x = .ok a ∧ f a = .ok b := by
  cases x with
  | error e => cases h
  | ok a => exact ⟨a, rfl, h⟩

theorem liftAt_ok {α} {d : BDir} {x : Except Msg α} {a : α} (h : liftAt d x = .ok a) : x = .ok a := by
  cases x with
  | error e => cases h
  | ok b => cases h; rfl

/-- peel the failing branches of a hypothesis `h : (if … then error … else …) = ok c'` -/
macro "peel " h:ident : tactic =>
  `(tactic| (simp only [fail] at $h:ident; repeat' (split at $h:ident <;> try (cases $h:ident; done))))

theorem addInfo_ok {d kids anc c c'} (hk : d.kind = .Info) (h : addInfo d c = .ok c') :
    StepR ⟨d, kids, anc⟩ c c' := by
  unfold addInfo at h
  peel h
  rename_i h1 h2 h3
  cases h
  exact .info hk (by simpa using h3)

theorem addTitle_ok {d kids anc c c'} (hk : d.kind = .Title) (h : addTitle d c = .ok c') :
    StepR ⟨d, kids, anc⟩ c c' := by
  unfold addTitle at h
  peel h
  rename_i i hi _
  cases h
  refine .title i hk hi ?_ ?_ <;> simp_all

theorem addVersion_ok {d kids anc c c'} (hk : d.kind = .Version) (h : addVersion d c = .ok c') :
    StepR ⟨d, kids, anc⟩ c c' := by
  unfold addVersion at h
  peel h
  rename_i i hi _
  cases h
  refine .version i hk hi ?_ ?_ <;> simp_all

theorem updInter_keep (c : Cat) (i : IId) (f : InterM → InterM) (hf : KeepI f) :
    ∃ g, KeepI g ∧ c.updInter i f = { c with inters := c.inters.map g } := by
  refine ⟨fun x => if x.iid == i then f x else x, ?_, rfl⟩
  intro x
  by_cases hx : (x.iid == i) = true
  · simp only [hx, if_true]; exact hf x
  · simp [hx]

theorem updTag_keep (c : Cat) (n : Bytes) (f : TagM → TagM) (hf : KeepT f) :
    ∃ g, KeepT g ∧ c.updTag n f = { c with tags := c.tags.map g } := by
  refine ⟨fun x => if x.name == n then f x else x, ?_, rfl⟩
  intro x
  by_cases hx : (x.name == n) = true
  · simp only [hx, if_true]; exact hf x
  · simp [hx]

theorem step_updInter {e : Ent} (hn : neutral e.d.kind) (c : Cat) (i : IId) (f : InterM → InterM) (hf : KeepI f) :
    StepR e c (c.updInter i f) := by
  obtain ⟨g, hg, heq⟩ := updInter_keep c i f hf
  rw [heq]; exact .inters g hn hg

theorem step_updTag {e : Ent} (hn : neutral e.d.kind) (c : Cat) (n : Bytes) (f : TagM → TagM) (hf : KeepT f) :
    StepR e c (c.updTag n f) := by
  obtain ⟨g, hg, heq⟩ := updTag_keep c n f hf
  rw [heq]; exact .tagsMap g hn hg

theorem addDescription_ok {d kids anc c c'} (hk : d.kind = .Description) (h : addDescription d anc c = .ok c') :
    StepR ⟨d, kids, anc⟩ c c' := by
  have hn : neutral (Ent.mk d kids anc).d.kind = true := by simp [hk, neutral]
  unfold addDescription at h
  simp only [fail] at h
  split at h; · cases h
  split at h; · cases h
  split at h; · cases h
  split at h; · cases h
  split at h; · cases h
  split at h
  · split at h; · cases h
    split at h; · cases h
    cases h
    exact .descrInfo _ _ hk ⟨_, _, rfl, by simp_all⟩ ‹_› (by simp_all)
  split at h
  · obtain ⟨i, hi, h⟩ := bind_ok h
    split at h; · cases h
    split at h; · cases h
    cases h
    exact step_updInter hn _ _ _ (fun x => ⟨rfl, rfl, rfl⟩)
  split at h
  · obtain ⟨i, hi, h⟩ := bind_ok h
    split at h; · cases h
    split at h; · cases h
    cases h
    exact step_updInter hn _ _ _ (fun x => ⟨rfl, rfl, rfl⟩)
  split at h
  · split at h; · cases h
    split at h; · cases h
    cases h
    exact step_updTag hn _ _ _ (fun x => ⟨rfl, rfl, rfl⟩)
  · cases h
theorem addServer_ok {d kids anc c c'} (hk : d.kind = .Server) (h : addServer d c = .ok c') :
    StepR ⟨d, kids, anc⟩ c c' := by
  unfold addServer at h
  peel h
  cases h
  refine .server hk ?_ ?_ <;> simp_all

theorem addBaseUrl_ok {d kids anc c c'} (hk : d.kind = .BaseURL) (h : addBaseUrl d anc c = .ok c') :
    StepR ⟨d, kids, anc⟩ c c' := by
  unfold addBaseUrl at h
  peel h
  cases h
  refine .baseUrl _ hk ?_
  intro x
  dsimp only
  split <;> simp

theorem addType_ok {d kids anc c c'} (hk : d.kind = .Type) (h : addType d c = .ok c') :
    StepR ⟨d, kids, anc⟩ c c' := by
  unfold addType at h
  simp only [fail] at h
  split at h; · cases h
  split at h; · cases h
  obtain ⟨nt, _, h⟩ := bind_ok h
  split at h; · cases h
  cases h
  refine .type nt hk ?_ ?_ <;> simp_all

theorem pathChain_url {d : BDir} {r : List BDir} {p : Bytes} (hk : d.kind = .URL)
    (h : pathChain (d :: r) = .ok p) : p = d.param "Path" := by
  simp only [pathChain, hk, beq_self_eq_true, if_true, chkPath] at h
  split at h
  · cases h; rfl
  · cases h

theorem addURL_ok {d kids anc c c'} (hk : d.kind = .URL) (h : addURL d kids anc c = .ok c') :
    StepR ⟨d, kids, anc⟩ c c' := by
  unfold addURL at h
  simp only [fail] at h
  split at h; · cases h
  obtain ⟨path, hp, h⟩ := bind_ok h
  obtain ⟨pp, _, h⟩ := bind_ok h
  have hp := pathChain_url hk (liftAt_ok hp)
  subst hp
  split at h; · cases h
  split at h; · cases h
  split at h; · cases h
  cases h
  refine .url _ hk ?_
  simp_all
theorem tagsFromDirective_ok {c : Cat} {td : BDir} {ns : List Bytes} (h : tagsFromDirective c td = .ok ns) :
    ns = td.unnamed ∧ ∀ n ∈ ns, ∃ t, c.getTag n = some t ∧ t.declared = true := by
  unfold tagsFromDirective at h
  peel h
  rename_i hall
  cases h
  refine ⟨rfl, ?_⟩
  intro n hn
  have := List.all_eq_true.mp hall n hn
  split at this
  · exact ⟨_, ‹_›, this⟩
  · cases this

theorem tagsFor_ok {c : Cat} {kids : List BDir} {anc : List Up} {i : IId} {ns : List Bytes} {c₂ : Cat}
    (h : tagsFor c kids anc i = .ok (ns, c₂)) :
    ∃ extra, c₂ = { c with tags := c.tags ++ extra } ∧
      (extra = [] ∨ ∃ a, extra = [a] ∧ a.declared = false ∧ c.getTag a.name = none) ∧
      (∀ n ∈ ns, (c₂.getTag n).isSome) := by
  unfold tagsFor at h
  dsimp only at h
  repeat' split at h
  · obtain ⟨ns', h1, h⟩ := bind_ok h
    cases h
    refine ⟨[], by simp, .inl rfl, ?_⟩
    intro n hn
    obtain ⟨t, ht, _⟩ := (tagsFromDirective_ok h1).2 n hn
    simp [ht]
  · obtain ⟨ns', h1, h⟩ := bind_ok h
    cases h
    refine ⟨[], by simp, .inl rfl, ?_⟩
    intro n hn
    obtain ⟨t, ht, _⟩ := (tagsFromDirective_ok h1).2 n hn
    simp [ht]
  · cases h
    refine ⟨[], by simp, .inl rfl, ?_⟩
    intro n hn
    simp_all
  · cases h
    refine ⟨[_], rfl, .inr ⟨_, rfl, rfl, ‹_›⟩, ?_⟩
    intro n hn
    simp only [List.mem_singleton] at hn
    subst hn
    simp_all [Cat.getTag, List.find?_append]

theorem attachAll_keep (i : IId) : ∀ (ns : List Bytes) (c : Cat),
    ∃ g, KeepT g ∧ attachAll c i ns = { c with tags := c.tags.map g }
  | [], c => ⟨id, fun x => ⟨rfl, rfl, rfl⟩, by simp [attachAll]⟩
  | n :: r, c => by
    have hk : KeepT (attach i) := by
      intro x; unfold attach; split <;> exact ⟨rfl, rfl, rfl⟩
    obtain ⟨g₁, hg₁, h₁⟩ := updTag_keep c n (attach i) hk
    obtain ⟨g₂, hg₂, h₂⟩ := attachAll_keep i r (c.updTag n (attach i))
    refine ⟨g₂ ∘ g₁, ?_, ?_⟩
    · intro x
      have a := hg₁ x
      have b := hg₂ (g₁ x)
      simp only [Function.comp]
      exact ⟨b.1.trans a.1, b.2.1.trans a.2.1, b.2.2.trans a.2.2⟩
    · rw [attachAll, h₂, h₁]; simp

theorem isHTTP_iff (k : Kind) : isHTTP k = true ↔ (k = .Get ∨ k = .Post ∨ k = .Put ∨ k = .Patch ∨ k = .Delete) := by
  cases k <;> decide

theorem addHTTPMethod_ok {d kids anc c c'} (hk : isHTTP d.kind = true) (h : addHTTPMethod d kids anc c = .ok c') :
    StepR ⟨d, kids, anc⟩ c c' := by
  unfold addHTTPMethod at h
  simp only [fail] at h
  obtain ⟨path, _, h⟩ := bind_ok h
  obtain ⟨pp, _, h⟩ := bind_ok h
  split at h; · cases h
  rename_i sim _
  obtain ⟨i, hi, h⟩ := bind_ok h
  split at h; · cases h
  rename_i hhas
  obtain ⟨⟨ns, c₂⟩, ht, h⟩ := bind_ok h
  obtain ⟨extra, rfl, hex, _⟩ := tagsFor_ok ht
  obtain ⟨g, hg, ha⟩ := attachAll_keep i ns { c with similar := sim, tags := c.tags ++ extra }
  cases h
  simp only [] at ha
  rw [ha]
  have hne : d.kind ≠ .Method := by intro h'; rw [h'] at hk; revert hk; decide
  exact .method sim i ns extra g (by simp [isMeth, hk]) (by simpa [idOf, Ent.chain, hne] using liftAt_ok hi)
    (by simpa [Cat.hasInter] using hhas) hg hex
end JSight.C04B
