import JSight.Model.Build
/-!
Helpers of `Props/C04_Build.lean`: the catalog construction (`Model/Build.lean`) seen as a fold of
`addDirective` over the directives in source order, a normal form of one step, and the lemmas that
lift facts about one step to the whole construction.
-/
namespace JSight.C04B
open JSight JSight.Build JSight.Gen

/-! ### the directives in source (pre-)order -/

mutual
  def flat : BTree → List BDir | .node d kids => d :: flatF kids
  def flatF : List BTree → List BDir | [] => [] | t :: r => flat t ++ flatF r
end

/-- a directive together with what `addDirective` reads of its surroundings -/
structure Ent where
  d : BDir
  kids : List BDir
  anc : List Up

/-- the parent chain of an entry, the directive first -/
def Ent.chain (e : Ent) : List BDir := e.d :: e.anc.map (·.d)

mutual
  def flatA (anc : List Up) : BTree → List Ent
    | .node d kids => ⟨d, kids.map BTree.dir, anc⟩ :: flatAF (⟨d, kids.map BTree.dir⟩ :: anc) kids
  def flatAF (anc : List Up) : List BTree → List Ent
    | [] => []
    | t :: r => flatA anc t ++ flatAF anc r
end

def step (banned : List Kind) (e : Ent) (c : Cat) : R Cat := addDirective banned e.d e.kids e.anc c

def run (banned : List Kind) : List Ent → Cat → R Cat
  | [], c => .ok c
  | e :: r, c =>
    match step banned e c with
    | .error x => .error x
    | .ok c' => run banned r c'

theorem run_append (banned : List Kind) (l₁ l₂ : List Ent) (c : Cat) :
    run banned (l₁ ++ l₂) c = (match run banned l₁ c with | .error x => .error x | .ok c' => run banned l₂ c') := by
  induction l₁ generalizing c with
  | nil => simp [run]
  | cons e r ih =>
    simp only [List.cons_append, run]
    cases step banned e c with
    | error x => rfl
    | ok c' => exact ih c'

mutual
  theorem addBranch_eq_run (banned : List Kind) (anc : List Up) :
      ∀ (t : BTree) (c : Cat), addBranch banned anc t c = run banned (flatA anc t) c
    | .node d kids, c => by
      rw [addBranch, flatA, run]
      simp only [step]
      cases addDirective banned d (kids.map BTree.dir) anc c with
      | error x => rfl
      | ok c' => exact addForest_eq_run banned _ kids c'
  theorem addForest_eq_run (banned : List Kind) (anc : List Up) :
      ∀ (f : List BTree) (c : Cat), addForest banned anc f c = run banned (flatAF anc f) c
    | [], c => by rw [addForest, flatAF, run]
    | t :: r, c => by
      rw [addForest, flatAF, run_append, addBranch_eq_run banned anc t c]
      cases run banned (flatA anc t) c with
      | error x => rfl
      | ok c' => exact addForest_eq_run banned anc r c'
end

mutual
  theorem flatA_dirs (anc : List Up) : ∀ t : BTree, (flatA anc t).map (·.d) = flat t
    | .node d kids => by simp [flatA, flat, flatAF_dirs _ kids]
  theorem flatAF_dirs (anc : List Up) : ∀ f : List BTree, (flatAF anc f).map (·.d) = flatF f
    | [] => by simp [flatAF, flatF]
    | t :: r => by simp [flatAF, flatF, flatA_dirs anc t, flatAF_dirs anc r]
end

theorem flatAF_append (anc : List Up) (f g : List BTree) : flatAF anc (f ++ g) = flatAF anc f ++ flatAF anc g := by
  induction f with
  | nil => simp [flatAF]
  | cons t r ih => simp [flatAF, ih]

theorem flatF_append (f g : List BTree) : flatF (f ++ g) = flatF f ++ flatF g := by
  induction f with
  | nil => simp [flatF]
  | cons t r ih => simp [flatF, ih]

theorem addForest_append (banned : List Kind) (anc : List Up) (f g : List BTree) (c : Cat) :
    addForest banned anc (f ++ g) c =
      (match addForest banned anc f c with | .error x => .error x | .ok c' => addForest banned anc g c') := by
  simp only [addForest_eq_run, flatAF_append, run_append]

/-! ### lifting facts about one step to a run -/

theorem run_inv {banned : List Kind} (P : Cat → Prop) (l : List Ent)
    (hstep : ∀ e ∈ l, ∀ c c', P c → step banned e c = .ok c' → P c') :
    ∀ c c', P c → run banned l c = .ok c' → P c' := by
  induction l with
  | nil => intro c c' hp h; simp [run] at h; exact h ▸ hp
  | cons e r ih =>
    intro c c' hp h
    simp only [run] at h
    cases hs : step banned e c with
    | error x => simp [hs] at h
    | ok c₁ =>
      simp only [hs] at h
      exact ih (fun e' he' => hstep e' (List.mem_cons_of_mem _ he')) c₁ c'
        (hstep e (List.mem_cons_self ..) c c₁ hp hs) h

theorem run_proj {banned : List Kind} {α : Type} (m : Cat → List α) (g : Ent → List α)
    (hstep : ∀ e c c', step banned e c = .ok c' → m c' = m c ++ g e) :
    ∀ (l : List Ent) c c', run banned l c = .ok c' → m c' = m c ++ l.flatMap g := by
  intro l
  induction l with
  | nil => intro c c' h; simp [run] at h; simp [h]
  | cons e r ih =>
    intro c c' h
    simp only [run] at h
    cases hs : step banned e c with
    | error x => simp [hs] at h
    | ok c₁ =>
      simp only [hs] at h
      rw [ih c₁ c' h, hstep e c c₁ hs]
      simp

theorem run_all {banned : List Kind} (Q : Ent → Prop)
    (hstep : ∀ e c c', step banned e c = .ok c' → Q e) :
    ∀ (l : List Ent) c c', run banned l c = .ok c' → ∀ e ∈ l, Q e := by
  intro l
  induction l with
  | nil => intro c c' _ e he; cases he
  | cons e r ih =>
    intro c c' h
    simp only [run] at h
    cases hs : step banned e c with
    | error x => simp [hs] at h
    | ok c₁ =>
      simp only [hs] at h
      intro e' he'
      cases he' with
      | head => exact hstep _ c c₁ hs
      | tail _ hm => exact ih c₁ c' h e' hm

/-- an entry that fails in every state satisfying a preserved invariant makes the run fail -/
theorem run_fails_of_mem {banned : List Kind} (J : Cat → Prop) (l : List Ent)
    (hkeep : ∀ e ∈ l, ∀ c c', J c → step banned e c = .ok c' → J c')
    (e : Ent) (he : e ∈ l) (hbad : ∀ c c', J c → step banned e c ≠ .ok c') :
    ∀ c c', J c → run banned l c ≠ .ok c' := by
  induction l with
  | nil => cases he
  | cons a r ih =>
    intro c c' hj h
    simp only [run] at h
    cases hs : step banned a c with
    | error x => simp [hs] at h
    | ok c₁ =>
      simp only [hs] at h
      cases he with
      | head => exact hbad c c₁ hj hs
      | tail _ hm =>
        exact ih (fun e' he' => hkeep e' (List.mem_cons_of_mem _ he')) hm c₁ c'
          (hkeep a (List.mem_cons_self ..) c c₁ hj hs) h

/-- two entries of a class whose first member sets a mark that persists and on which every member fails -/
theorem run_conflict {banned : List Kind} (E : Ent → Prop) (Mark : Cat → Prop)
    (hset : ∀ e c c', E e → step banned e c = .ok c' → Mark c')
    (hkeep : ∀ e c c', Mark c → step banned e c = .ok c' → Mark c')
    (hclash : ∀ e c c', E e → Mark c → step banned e c ≠ .ok c') :
    ∀ (l : List Ent) (i j : Nat) (e₁ e₂ : Ent), i < j → l[i]? = some e₁ → l[j]? = some e₂ → E e₁ → E e₂ →
      ∀ c c', run banned l c ≠ .ok c' := by
  intro l
  induction l with
  | nil => intro i j e₁ e₂ _ hi; simp at hi
  | cons a r ih =>
    intro i j e₁ e₂ hij hi hj h₁ h₂ c c' h
    simp only [run] at h
    cases hs : step banned a c with
    | error x => simp [hs] at h
    | ok c₁ =>
      simp only [hs] at h
      cases j with
      | zero => omega
      | succ j =>
        simp only [List.getElem?_cons_succ] at hj
        cases i with
        | zero =>
          simp only [List.getElem?_cons_zero, Option.some.injEq] at hi
          subst hi
          exact run_fails_of_mem Mark r (fun e _ c c' => hkeep e c c') e₂ (List.mem_of_getElem? hj)
            (fun c c' hm => hclash e₂ c c' h₂ hm) c₁ c' (hset _ c c₁ h₁ hs) h
        | succ i =>
          simp only [List.getElem?_cons_succ] at hi
          exact ih i j e₁ e₂ (by omega) hi hj h₁ h₂ c₁ c' h

/-! ### the normal form of one step -/

/-- the kinds whose handler changes nothing of what the faithfulness theorems read -/
def neutral : Kind → Bool
  | .Description | .Body | .Request | .HTTPResponseCode | .Path | .Headers | .Query | .Enum | .Macro | .Paste
  | .Include | .Protocol | .Params | .Result | .TAG | .Tags => true
  | _ => false

def isMeth (k : Kind) : Bool := isHTTP k || k == .Method

/-- the interaction id of a method directive -/
def idOf (e : Ent) : Except Msg IId := if e.d.kind == .Method then rpcIdOf e.chain else httpIdOf e.chain

def KeepI (g : InterM → InterM) : Prop := ∀ x, (g x).iid = x.iid ∧ (g x).annot = x.annot ∧ (g x).tags = x.tags
def KeepT (g : TagM → TagM) : Prop :=
  ∀ x, (g x).name = x.name ∧ (g x).title = x.title ∧ (g x).declared = x.declared
def KeepS (g : ServerM → ServerM) : Prop := ∀ x, (g x).name = x.name ∧ (g x).annot = x.annot

inductive StepR (e : Ent) (c : Cat) : Cat → Prop
  | same : neutral e.d.kind → StepR e c c
  | jsight : e.d.kind = .Jsight → c.jsight = [] → StepR e c { c with jsight := v03 }
  | info : e.d.kind = .Info → c.info = none → StepR e c { c with info := some { id := e.d.id } }
  | title (i : InfoM) : e.d.kind = .Title → c.info = some i → i.title = [] → e.d.param "Title" ≠ [] →
      StepR e c { c with info := some { i with title := e.d.param "Title" } }
  | version (i : InfoM) : e.d.kind = .Version → c.info = some i → i.version = [] → e.d.param "Version" ≠ [] →
      StepR e c { c with info := some { i with version := e.d.param "Version" } }
  | descrInfo (i : InfoM) (text : Bytes) : e.d.kind = .Description →
      (∃ p r, e.anc = p :: r ∧ p.d.kind = .Info) → c.info = some i → i.descr = none →
      StepR e c { c with info := some { i with descr := some text } }
  | inters (g : InterM → InterM) : neutral e.d.kind → KeepI g → StepR e c { c with inters := c.inters.map g }
  | tagsMap (g : TagM → TagM) : neutral e.d.kind → KeepT g → StepR e c { c with tags := c.tags.map g }
  | server : e.d.kind = .Server → e.d.param "Name" ≠ [] → (∀ s ∈ c.servers, s.name ≠ e.d.param "Name") →
      StepR e c { c with servers := c.servers ++ [{ name := e.d.param "Name", annot := e.d.annot }] }
  | baseUrl (g : ServerM → ServerM) : e.d.kind = .BaseURL → KeepS g →
      StepR e c { c with servers := c.servers.map g }
  | type (nt : Bytes) : e.d.kind = .Type → e.d.param "Name" ≠ [] → (∀ t ∈ c.types, t.name ≠ e.d.param "Name") →
      StepR e c { c with types := c.types ++ [{ name := e.d.param "Name", annot := e.d.annot, nota := nt }] }
  | url (sim : List (Bytes × Bytes)) : e.d.kind = .URL → e.d.param "Path" ∉ c.uniqURL →
      StepR e c { c with similar := sim, uniqURL := e.d.param "Path" :: c.uniqURL }
  | method (sim : List (Bytes × Bytes)) (i : IId) (ns : List Bytes) (extra : List TagM) (g : TagM → TagM) :
      isMeth e.d.kind → idOf e = .ok i → c.hasInter i = false → KeepT g →
      (extra = [] ∨ ∃ a, extra = [a] ∧ a.declared = false ∧ c.getTag a.name = none) →
      StepR e c { c with similar := sim, tags := (c.tags ++ extra).map g,
                         inters := c.inters ++ [{ iid := i, annot := e.d.annot, tags := ns }] }
  | proto (p : List Nat) : neutral e.d.kind → StepR e c { c with protoURLs := p }

theorem isEmpty_false_ne {α} {l : List α} (h : l.isEmpty = false) : l ≠ [] := by
  intro h'; subst h'; simp at h

theorem addJSight_ok {d kids anc c c'} (hk : d.kind = .Jsight) (h : addJSight d c = .ok c') :
    StepR ⟨d, kids, anc⟩ c c' := by
  unfold addJSight at h
  simp only [fail] at h
  split at h; · cases h
  split at h; · cases h
  split at h; · cases h
  split at h; · cases h
  rename_i h1 h2 h3 h4
  cases h
  simp at h2 h4
  rw [h2]
  exact .jsight hk h4

theorem bind_ok {α β} {x : R α} {f : α → R β} {b : β} (h : x >>= f = .ok b) : ∃ a, x = .ok a ∧ f a = .ok b := by
  cases x with
  | error e => cases h
  | ok a => exact ⟨a, rfl, h⟩

theorem liftAt_ok {α} {d : BDir} {x : Except Msg α} {a : α} (h : liftAt d x = .ok a) : x = .ok a := by
  cases x with
  | error e => cases h
  | ok b => cases h; rfl

/-- peel the failing branches of a hypothesis `h : (if … then error … else …) = ok c'` -/
macro "peel " h:ident : tactic =>
  `(tactic| (simp only [fail] at $h:ident; repeat' (split at $h:ident <;> try (cases $h:ident; done))))

theorem addInfo_ok {d kids anc c c'} (hk : d.kind = .Info) (h : addInfo d c = .ok c') :
    StepR ⟨d, kids, anc⟩ c c' := by
  unfold addInfo at h
  peel h
  rename_i h1 h2 h3
  cases h
  exact .info hk (by simpa using h3)

theorem addTitle_ok {d kids anc c c'} (hk : d.kind = .Title) (h : addTitle d c = .ok c') :
    StepR ⟨d, kids, anc⟩ c c' := by
  unfold addTitle at h
  peel h
  rename_i i hi _
  cases h
  refine .title i hk hi ?_ ?_ <;> simp_all

theorem addVersion_ok {d kids anc c c'} (hk : d.kind = .Version) (h : addVersion d c = .ok c') :
    StepR ⟨d, kids, anc⟩ c c' := by
  unfold addVersion at h
  peel h
  rename_i i hi _
  cases h
  refine .version i hk hi ?_ ?_ <;> simp_all

theorem updInter_keep (c : Cat) (i : IId) (f : InterM → InterM) (hf : KeepI f) :
    ∃ g, KeepI g ∧ c.updInter i f = { c with inters := c.inters.map g } := by
  refine ⟨fun x => if x.iid == i then f x else x, ?_, rfl⟩
  intro x
  by_cases hx : (x.iid == i) = true
  · simp only [hx, if_true]; exact hf x
  · simp [hx]

theorem updTag_keep (c : Cat) (n : Bytes) (f : TagM → TagM) (hf : KeepT f) :
    ∃ g, KeepT g ∧ c.updTag n f = { c with tags := c.tags.map g } := by
  refine ⟨fun x => if x.name == n then f x else x, ?_, rfl⟩
  intro x
  by_cases hx : (x.name == n) = true
  · simp only [hx, if_true]; exact hf x
  · simp [hx]

theorem step_updInter {e : Ent} (hn : neutral e.d.kind) (c : Cat) (i : IId) (f : InterM → InterM) (hf : KeepI f) :
    StepR e c (c.updInter i f) := by
  obtain ⟨g, hg, heq⟩ := updInter_keep c i f hf
  rw [heq]; exact .inters g hn hg

theorem step_updTag {e : Ent} (hn : neutral e.d.kind) (c : Cat) (n : Bytes) (f : TagM → TagM) (hf : KeepT f) :
    StepR e c (c.updTag n f) := by
  obtain ⟨g, hg, heq⟩ := updTag_keep c n f hf
  rw [heq]; exact .tagsMap g hn hg

theorem addDescription_ok {d kids anc c c'} (hk : d.kind = .Description) (h : addDescription d anc c = .ok c') :
    StepR ⟨d, kids, anc⟩ c c' := by
  have hn : neutral (Ent.mk d kids anc).d.kind = true := by simp [hk, neutral]
  unfold addDescription at h
  simp only [fail] at h
  split at h; · cases h
  split at h; · cases h
  split at h; · cases h
  split at h; · cases h
  split at h; · cases h
  split at h
  · split at h; · cases h
    split at h; · cases h
    cases h
    exact .descrInfo _ _ hk ⟨_, _, rfl, by simp_all⟩ ‹_› (by simp_all)
  split at h
  · obtain ⟨i, hi, h⟩ := bind_ok h
    split at h; · cases h
    split at h; · cases h
    cases h
    exact step_updInter hn _ _ _ (fun x => ⟨rfl, rfl, rfl⟩)
  split at h
  · obtain ⟨i, hi, h⟩ := bind_ok h
    split at h; · cases h
    split at h; · cases h
    cases h
    exact step_updInter hn _ _ _ (fun x => ⟨rfl, rfl, rfl⟩)
  split at h
  · split at h; · cases h
    split at h; · cases h
    cases h
    exact step_updTag hn _ _ _ (fun x => ⟨rfl, rfl, rfl⟩)
  · cases h
theorem addServer_ok {d kids anc c c'} (hk : d.kind = .Server) (h : addServer d c = .ok c') :
    StepR ⟨d, kids, anc⟩ c c' := by
  unfold addServer at h
  peel h
  cases h
  refine .server hk ?_ ?_ <;> simp_all

theorem addBaseUrl_ok {d kids anc c c'} (hk : d.kind = .BaseURL) (h : addBaseUrl d anc c = .ok c') :
    StepR ⟨d, kids, anc⟩ c c' := by
  unfold addBaseUrl at h
  peel h
  cases h
  refine .baseUrl _ hk ?_
  intro x
  dsimp only
  split <;> simp

theorem addType_ok {d kids anc c c'} (hk : d.kind = .Type) (h : addType d c = .ok c') :
    StepR ⟨d, kids, anc⟩ c c' := by
  unfold addType at h
  simp only [fail] at h
  split at h; · cases h
  split at h; · cases h
  obtain ⟨nt, _, h⟩ := bind_ok h
  split at h; · cases h
  cases h
  refine .type nt hk ?_ ?_ <;> simp_all

theorem pathChain_url {d : BDir} {r : List BDir} {p : Bytes} (hk : d.kind = .URL)
    (h : pathChain (d :: r) = .ok p) : p = d.param "Path" := by
  simp only [pathChain, hk, beq_self_eq_true, if_true, chkPath] at h
  split at h
  · cases h; rfl
  · cases h

theorem addURL_ok {d kids anc c c'} (hk : d.kind = .URL) (h : addURL d kids anc c = .ok c') :
    StepR ⟨d, kids, anc⟩ c c' := by
  unfold addURL at h
  simp only [fail] at h
  split at h; · cases h
  obtain ⟨path, hp, h⟩ := bind_ok h
  obtain ⟨pp, _, h⟩ := bind_ok h
  have hp := pathChain_url hk (liftAt_ok hp)
  subst hp
  split at h; · cases h
  split at h; · cases h
  split at h; · cases h
  cases h
  refine .url _ hk ?_
  simp_all
theorem tagsFromDirective_ok {c : Cat} {td : BDir} {ns : List Bytes} (h : tagsFromDirective c td = .ok ns) :
    ns = td.unnamed ∧ ∀ n ∈ ns, ∃ t, c.getTag n = some t ∧ t.declared = true := by
  unfold tagsFromDirective at h
  peel h
  rename_i hall
  cases h
  refine ⟨rfl, ?_⟩
  intro n hn
  have := List.all_eq_true.mp hall n hn
  split at this
  · exact ⟨_, ‹_›, this⟩
  · cases this

theorem tagsFor_ok {c : Cat} {kids : List BDir} {anc : List Up} {i : IId} {ns : List Bytes} {c₂ : Cat}
    (h : tagsFor c kids anc i = .ok (ns, c₂)) :
    ∃ extra, c₂ = { c with tags := c.tags ++ extra } ∧
      (extra = [] ∨ ∃ a, extra = [a] ∧ a.declared = false ∧ c.getTag a.name = none) ∧
      (∀ n ∈ ns, (c₂.getTag n).isSome) := by
  unfold tagsFor at h
  dsimp only at h
  repeat' split at h
  · obtain ⟨ns', h1, h⟩ := bind_ok h
    cases h
    refine ⟨[], by simp, .inl rfl, ?_⟩
    intro n hn
    obtain ⟨t, ht, _⟩ := (tagsFromDirective_ok h1).2 n hn
    simp [ht]
  · obtain ⟨ns', h1, h⟩ := bind_ok h
    cases h
    refine ⟨[], by simp, .inl rfl, ?_⟩
    intro n hn
    obtain ⟨t, ht, _⟩ := (tagsFromDirective_ok h1).2 n hn
    simp [ht]
  · cases h
    refine ⟨[], by simp, .inl rfl, ?_⟩
    intro n hn
    simp_all
  · cases h
    refine ⟨[_], rfl, .inr ⟨_, rfl, rfl, ‹_›⟩, ?_⟩
    intro n hn
    simp only [List.mem_singleton] at hn
    subst hn
    simp_all [Cat.getTag, List.find?_append]

theorem attachAll_keep (i : IId) : ∀ (ns : List Bytes) (c : Cat),
    ∃ g, KeepT g ∧ attachAll c i ns = { c with tags := c.tags.map g }
  | [], c => ⟨id, fun x => ⟨rfl, rfl, rfl⟩, by simp [attachAll]⟩
  | n :: r, c => by
    have hk : KeepT (attach i) := by
      intro x; unfold attach; split <;> exact ⟨rfl, rfl, rfl⟩
    obtain ⟨g₁, hg₁, h₁⟩ := updTag_keep c n (attach i) hk
    obtain ⟨g₂, hg₂, h₂⟩ := attachAll_keep i r (c.updTag n (attach i))
    refine ⟨g₂ ∘ g₁, ?_, ?_⟩
    · intro x
      have a := hg₁ x
      have b := hg₂ (g₁ x)
      simp only [Function.comp]
      exact ⟨b.1.trans a.1, b.2.1.trans a.2.1, b.2.2.trans a.2.2⟩
    · rw [attachAll, h₂, h₁]; simp

theorem isHTTP_iff (k : Kind) : isHTTP k = true ↔ (k = .Get ∨ k = .Post ∨ k = .Put ∨ k = .Patch ∨ k = .Delete) := by
  cases k <;> decide

theorem addHTTPMethod_ok {d kids anc c c'} (hk : isHTTP d.kind = true) (h : addHTTPMethod d kids anc c = .ok c') :
    StepR ⟨d, kids, anc⟩ c c' := by
  unfold addHTTPMethod at h
  simp only [fail] at h
  obtain ⟨path, _, h⟩ := bind_ok h
  obtain ⟨pp, _, h⟩ := bind_ok h
  split at h; · cases h
  rename_i sim _
  obtain ⟨i, hi, h⟩ := bind_ok h
  split at h; · cases h
  rename_i hhas
  obtain ⟨⟨ns, c₂⟩, ht, h⟩ := bind_ok h
  obtain ⟨extra, rfl, hex, _⟩ := tagsFor_ok ht
  obtain ⟨g, hg, ha⟩ := attachAll_keep i ns { c with similar := sim, tags := c.tags ++ extra }
  cases h
  simp only [] at ha
  rw [ha]
  have hne : d.kind ≠ .Method := by intro h'; rw [h'] at hk; revert hk; decide
  exact .method sim i ns extra g (by simp [isMeth, hk]) (by simpa [idOf, Ent.chain, hne] using liftAt_ok hi)
    (by simpa [Cat.hasInter] using hhas) hg hex
theorem addJsonRpcMethod_ok {d kids anc c c'} (hk : d.kind = .Method) (h : addJsonRpcMethod d kids anc c = .ok c') :
    StepR ⟨d, kids, anc⟩ c c' := by
  unfold addJsonRpcMethod at h
  simp only [fail] at h
  split at h; · cases h
  split at h; · cases h
  split at h; · cases h
  obtain ⟨i, hi, h⟩ := bind_ok h
  split at h; · cases h
  rename_i hhas
  obtain ⟨⟨ns, c₂⟩, ht, h⟩ := bind_ok h
  obtain ⟨extra, rfl, hex, _⟩ := tagsFor_ok ht
  obtain ⟨g, hg, ha⟩ := attachAll_keep i ns { c with tags := c.tags ++ extra }
  cases h
  simp only [] at ha
  rw [ha]
  exact .method c.similar i ns extra g (by simp [isMeth, hk]) (by simpa [idOf, Ent.chain, hk] using liftAt_ok hi)
    (by simp at hhas; simpa [Cat.hasInter] using hhas.1) hg hex

theorem StepR.trans_inters {e : Ent} {c c₁ c₂ : Cat} (hn : neutral e.d.kind)
    (h₁ : ∃ g, KeepI g ∧ c₁ = { c with inters := c.inters.map g })
    (h₂ : ∃ g, KeepI g ∧ c₂ = { c₁ with inters := c₁.inters.map g }) : StepR e c c₂ := by
  obtain ⟨g₁, hg₁, rfl⟩ := h₁
  obtain ⟨g₂, hg₂, rfl⟩ := h₂
  have : ({ c with inters := (c.inters.map g₁).map g₂ } : Cat) = { c with inters := c.inters.map (g₂ ∘ g₁) } := by
    simp
  simp only [] 
  rw [this]
  refine .inters _ hn ?_
  intro x
  have a := hg₁ x
  have b := hg₂ (g₁ x)
  exact ⟨b.1.trans a.1, b.2.1.trans a.2.1, b.2.2.trans a.2.2⟩

/-- `c'` is `c` with its interactions mapped by a core-preserving function -/
def IMap (c c' : Cat) : Prop := ∃ g, KeepI g ∧ c' = { c with inters := c.inters.map g }

theorem IMap.refl (c : Cat) : IMap c c := ⟨id, fun _ => ⟨rfl, rfl, rfl⟩, by simp⟩
theorem IMap.upd (c : Cat) (i : IId) (f : InterM → InterM) (hf : KeepI f) : IMap c (c.updInter i f) :=
  updInter_keep c i f hf
theorem IMap.trans {c c₁ c₂ : Cat} (h₁ : IMap c c₁) (h₂ : IMap c₁ c₂) : IMap c c₂ := by
  obtain ⟨g₁, hg₁, rfl⟩ := h₁
  obtain ⟨g₂, hg₂, rfl⟩ := h₂
  refine ⟨g₂ ∘ g₁, ?_, by simp⟩
  intro x
  have a := hg₁ x
  have b := hg₂ (g₁ x)
  exact ⟨b.1.trans a.1, b.2.1.trans a.2.1, b.2.2.trans a.2.2⟩
theorem IMap.step {e : Ent} {c c' : Cat} (hn : neutral e.d.kind) (h : IMap c c') : StepR e c c' := by
  obtain ⟨g, hg, rfl⟩ := h
  exact .inters g hn hg

theorem addQuery_im {d anc c c'} (h : addQuery d anc c = .ok c') : IMap c c' := by
  unfold addQuery at h
  simp only [fail] at h
  split at h; · cases h
  split at h; · cases h
  obtain ⟨i, _, h⟩ := bind_ok h
  split at h; · cases h
  split at h; · cases h
  cases h
  exact .upd _ _ _ (fun x => ⟨rfl, rfl, rfl⟩)

theorem addRequestBody_im {d anc b c c'} (h : addRequestBody d anc b c = .ok c') : IMap c c' := by
  unfold addRequestBody at h
  simp only [fail] at h
  obtain ⟨i, _, h⟩ := bind_ok h
  split at h; · cases h
  split at h; · cases h
  split at h; · cases h
  cases h
  exact .upd _ _ _ (fun x => ⟨rfl, rfl, rfl⟩)

theorem addRequest_im {d anc c c'} (h : addRequest d anc c = .ok c') : IMap c c' := by
  unfold addRequest at h
  simp only [fail] at h
  split at h; · cases h
  split at h; · cases h
  obtain ⟨nt, _, h⟩ := bind_ok h
  split at h
  · obtain ⟨i, _, h⟩ := bind_ok h
    obtain ⟨c₁, h₁, h⟩ := bind_ok h
    cases h₁
    have hc₁ : IMap c (c.updInter i fun x => if x.request.isNone then { x with request := some { id := d.id } } else x) := by
      refine .upd _ _ _ (fun x => ?_)
      split <;> exact ⟨rfl, rfl, rfl⟩
    repeat' split at h
    any_goals (exact hc₁.trans (addRequestBody_im h))
    · cases h
    · cases h; exact hc₁
  · obtain ⟨c₁, h₁, h⟩ := bind_ok h
    cases h₁
    repeat' split at h
    any_goals (exact addRequestBody_im h)
    · cases h
    · cases h; exact .refl _

theorem addResponseBody_im {d anc b c c'} (h : addResponseBody d anc b c = .ok c') : IMap c c' := by
  unfold addResponseBody at h
  simp only [fail] at h
  obtain ⟨i, _, h⟩ := bind_ok h
  split at h; · cases h
  split at h; · cases h
  split at h; · cases h
  cases h
  exact .upd _ _ _ (fun x => ⟨rfl, rfl, rfl⟩)

theorem addResponse_im {d anc c c'} (h : addResponse d anc c = .ok c') : IMap c c' := by
  unfold addResponse at h
  simp only [fail] at h
  split at h; · cases h
  obtain ⟨nt, _, h⟩ := bind_ok h
  generalize (d.kind == Kind.Body && _) = clash at h
  split at h; · cases h
  split at h
  · obtain ⟨i, _, h⟩ := bind_ok h
    obtain ⟨c₁, h₁, h⟩ := bind_ok h
    cases h₁
    have hc₁ : IMap c (c.updInter i fun x =>
        { x with responses := x.responses ++ [{ id := d.id, code := d.keyword, annot := d.annot }] }) :=
      .upd _ _ _ (fun x => ⟨rfl, rfl, rfl⟩)
    repeat' split at h
    any_goals (exact hc₁.trans (addResponseBody_im h))
    · cases h
    · cases h; exact hc₁
  · obtain ⟨c₁, h₁, h⟩ := bind_ok h
    cases h₁
    repeat' split at h
    any_goals (exact addResponseBody_im h)
    · cases h
    · cases h; exact .refl _

theorem addHeaders_im {d anc c c'} (h : addHeaders d anc c = .ok c') : IMap c c' := by
  unfold addHeaders at h
  simp only [fail] at h
  split at h; · cases h
  split at h; · cases h
  split at h; · cases h
  split at h
  · obtain ⟨i, _, h⟩ := bind_ok h
    split at h; · cases h
    split at h; · cases h
    split at h; · cases h
    cases h
    exact .upd _ _ _ (fun x => ⟨rfl, rfl, rfl⟩)
  split at h
  · obtain ⟨i, _, h⟩ := bind_ok h
    split at h; · cases h
    split at h; · cases h
    split at h; · cases h
    cases h
    exact .upd _ _ _ (fun x => ⟨rfl, rfl, rfl⟩)
  · cases h

theorem addBody_im {d anc c c'} (h : addBody d anc c = .ok c') : IMap c c' := by
  unfold addBody at h
  simp only [fail] at h
  split at h; · cases h
  split at h; · cases h
  split at h; · exact addRequest_im h
  split at h; · exact addResponse_im h
  cases h; exact .refl _

theorem addRpcSchema_im {p d anc c c'} (h : addRpcSchema p d anc c = .ok c') : IMap c c' := by
  unfold addRpcSchema at h
  simp only [fail] at h
  split at h; · cases h
  split at h; · cases h
  obtain ⟨i, _, h⟩ := bind_ok h
  split at h; · cases h
  split at h
  · split at h; · cases h
    cases h
    exact .upd _ _ _ (fun x => ⟨rfl, rfl, rfl⟩)
  · split at h; · cases h
    cases h
    exact .upd _ _ _ (fun x => ⟨rfl, rfl, rfl⟩)

theorem addProtocol_ok {d kids anc c c'} (hk : d.kind = .Protocol) (h : addProtocol d anc c = .ok c') :
    StepR ⟨d, kids, anc⟩ c c' := by
  unfold addProtocol at h
  peel h
  cases h
  exact .proto _ (by simp [hk, neutral])

theorem addTags_ok {d c c'} (h : addTags d c = .ok c') : c' = c := by
  unfold addTags at h
  obtain ⟨_, _, h⟩ := bind_ok h
  cases h; rfl
theorem step_ok {banned : List Kind} {e : Ent} {c c' : Cat} (h : step banned e c = .ok c') :
    e.d.kind ∉ banned ∧ StepR e c c' := by
  obtain ⟨d, kids, anc⟩ := e
  unfold step addDirective at h
  simp only [fail] at h
  split at h; · cases h
  rename_i hb
  refine ⟨by simpa using hb, ?_⟩
  have nt : ∀ {k}, d.kind = k → neutral k = true → neutral (Ent.mk d kids anc).d.kind = true := by
    intro k hk hn; simpa [hk] using hn
  split at h
  · exact addJSight_ok ‹_› h
  · exact addInfo_ok ‹_› h
  · exact addTitle_ok ‹_› h
  · exact addVersion_ok ‹_› h
  · exact addDescription_ok ‹_› h
  · exact addServer_ok ‹_› h
  · exact addBaseUrl_ok ‹_› h
  · exact addType_ok ‹_› h
  · exact addURL_ok ‹_› h
  · exact addHTTPMethod_ok (by simp [*, isHTTP_iff]) h
  · exact addHTTPMethod_ok (by simp [*, isHTTP_iff]) h
  · exact addHTTPMethod_ok (by simp [*, isHTTP_iff]) h
  · exact addHTTPMethod_ok (by simp [*, isHTTP_iff]) h
  · exact addHTTPMethod_ok (by simp [*, isHTTP_iff]) h
  · exact (addQuery_im h).step (nt ‹_› rfl)
  · exact (addRequest_im h).step (nt ‹_› rfl)
  · exact (addResponse_im h).step (nt ‹_› rfl)
  · exact (addHeaders_im h).step (nt ‹_› rfl)
  · exact (addBody_im h).step (nt ‹_› rfl)
  · exact addProtocol_ok ‹_› h
  · exact addJsonRpcMethod_ok ‹_› h
  · exact (addRpcSchema_im h).step (nt ‹_› rfl)
  · exact (addRpcSchema_im h).step (nt ‹_› rfl)
  · rw [addTags_ok h]; exact .same (nt ‹_› rfl)
  · cases h
    refine .same ?_
    rename_i h1 h2 h3 h4 h5 h6 h7 h8 h9 h10 h11 h12 h13 h14 h15 h16 h17 h18 h19 h20 h21 h22 h23 h24
    show neutral d.kind = true
    cases hk : d.kind <;> simp_all [neutral]
/-! ### `compile` unpacked -/

theorem compile_ok {banned : List Kind} {f : List BTree} {c : Cat} (h : compile banned f = .ok c) :
    ∃ c₀, collectTags f {} = .ok c₀ ∧ checkTypeNames f = .ok () ∧ (∃ x, pathsForest [] f none = .ok x) ∧
      (∀ t r, f = t :: r → t.dir.kind = .Jsight) ∧ run banned (flatAF [] f) c₀ = .ok c ∧
      validateInfo c = .ok () ∧ validateRequestBody c.inters = .ok () ∧ validateResponseBody c.inters = .ok () := by
  unfold compile at h
  obtain ⟨c₀, h0, h⟩ := bind_ok h
  obtain ⟨⟨⟩, h1, h⟩ := bind_ok h
  obtain ⟨x, h2, h⟩ := bind_ok h
  have key : (∀ t r, f = t :: r → t.dir.kind = .Jsight) ∧
      (do let c ← addForest banned [] f c₀
          validateInfo c
          validateRequestBody c.inters
          validateResponseBody c.inters
          pure c) = Except.ok c := by
    dsimp only at h
    split at h
    · split at h
      · obtain ⟨_, h3, _⟩ := bind_ok h
        cases h3
      · refine ⟨?_, h⟩
        intro t r hf
        cases hf
        simp_all
    · exact ⟨fun t r hf => (by cases hf), h⟩
  obtain ⟨h3, h⟩ := key
  obtain ⟨c₁, h4, h⟩ := bind_ok h
  obtain ⟨⟨⟩, h5, h⟩ := bind_ok h
  obtain ⟨⟨⟩, h6, h⟩ := bind_ok h
  obtain ⟨⟨⟩, h7, h⟩ := bind_ok h
  cases h
  exact ⟨c₀, h0, h1, ⟨x, h2⟩, h3, by rw [← addForest_eq_run]; exact h4, h5, h6, h7⟩

theorem compile_of {banned : List Kind} {f : List BTree} {c₀ c : Cat} {x : Option Nat}
    (h0 : collectTags f {} = .ok c₀) (h1 : checkTypeNames f = .ok ()) (h2 : pathsForest [] f none = .ok x)
    (h3 : ∀ t r, f = t :: r → t.dir.kind = .Jsight) (h4 : run banned (flatAF [] f) c₀ = .ok c)
    (h5 : validateInfo c = .ok ()) (h6 : validateRequestBody c.inters = .ok ())
    (h7 : validateResponseBody c.inters = .ok ()) : compile banned f = .ok c := by
  unfold compile
  rw [← addForest_eq_run] at h4
  simp only [h0, h1, h2, h4, h5, h6, h7, bind, Except.bind]
  cases f with
  | nil => rfl
  | cons t r => simp [h3 t r rfl]; rfl
/-! ### `collectTags` -/

def declTag (d : BDir) : TagM :=
  { name := d.param "TagName", title := if d.annot.isEmpty then d.param "TagName" else d.annot, declared := true }

/-- the tags declared at the top level -/
def declTags (f : List BTree) : List TagM := ((f.map BTree.dir).filter (·.kind == .TAG)).map declTag

theorem collectTags_ok : ∀ (f : List BTree) (c c' : Cat), collectTags f c = .ok c' →
    c' = { c with tags := c.tags ++ declTags f }
  | [], c, c', h => by simp [collectTags] at h; subst h; simp [declTags]
  | t :: r, c, c', h => by
    unfold collectTags at h
    simp only [fail] at h
    split at h
    · split at h; · cases h
      split at h; · cases h
      have := collectTags_ok r _ _ h
      rw [this]
      simp_all [declTags, declTag]
    · have := collectTags_ok r _ _ h
      rw [this]
      simp_all [declTags]

theorem collectTags_empty {f : List BTree} {c₀ : Cat} (h : collectTags f {} = .ok c₀) :
    c₀ = { tags := declTags f } := by
  rw [collectTags_ok f _ _ h]; simp

/-! ### what one step does to each projection -/

theorem neutral_facts {k : Kind} (h : neutral k = true) :
    (k == Kind.Type) = false ∧ (k == Kind.Server) = false ∧ isMeth k = false ∧ k ≠ .Jsight := by
  cases k <;> first | (cases h; done) | decide

theorem isMeth_facts {k : Kind} (h : isMeth k = true) :
    (k == Kind.Type) = false ∧ (k == Kind.Server) = false ∧ k ≠ .Jsight := by
  cases k <;> first | (revert h; decide) | decide

theorem flatMap_if {α β γ : Type} (f : α → β) (p : β → Bool) (q : β → γ) (l : List α) :
    l.flatMap (fun e => if p (f e) then [q (f e)] else []) = ((l.map f).filter p).map q := by
  induction l with
  | nil => rfl
  | cons a r ih =>
    simp only [List.flatMap_cons, ih, List.map_cons, List.filter_cons]
    split <;> simp

theorem types_stepR {e : Ent} {c c' : Cat} (h : StepR e c c') :
    c'.types.map (fun t => (t.name, t.annot)) = c.types.map (fun t => (t.name, t.annot)) ++
      (if e.d.kind == Kind.Type then [(e.d.param "Name", e.d.annot)] else []) := by
  cases h
  case same hn => simp [(neutral_facts hn).1]
  case inters hn _ => simp [(neutral_facts hn).1]
  case tagsMap hn _ => simp [(neutral_facts hn).1]
  case proto hn => simp [(neutral_facts hn).1]
  case method hm _ _ _ _ => simp [(isMeth_facts hm).1]
  all_goals simp [*]

theorem servers_stepR {e : Ent} {c c' : Cat} (h : StepR e c c') :
    c'.servers.map (fun t => (t.name, t.annot)) = c.servers.map (fun t => (t.name, t.annot)) ++
      (if e.d.kind == Kind.Server then [(e.d.param "Name", e.d.annot)] else []) := by
  cases h
  case same hn => simp [(neutral_facts hn).2.1]
  case inters hn _ => simp [(neutral_facts hn).2.1]
  case tagsMap hn _ => simp [(neutral_facts hn).2.1]
  case proto hn => simp [(neutral_facts hn).2.1]
  case method hm _ _ _ _ => simp [(isMeth_facts hm).2.1]
  case baseUrl g hk hg =>
    simp only [hk, List.map_map]
    have : ((fun t : ServerM => (t.name, t.annot)) ∘ g) = (fun t => (t.name, t.annot)) := by
      funext x; simp [(hg x).1, (hg x).2]
    rw [this]; simp
  all_goals simp [*]

theorem inters_stepR {e : Ent} {c c' : Cat} (h : StepR e c c') :
    c'.inters.map (fun x => (Except.ok x.iid, x.annot)) = c.inters.map (fun x => (Except.ok x.iid, x.annot)) ++
      (if isMeth e.d.kind then [(idOf e, e.d.annot)] else []) := by
  cases h
  case same hn => simp [(neutral_facts hn).2.2.1]
  case tagsMap hn _ => simp [(neutral_facts hn).2.2.1]
  case proto hn => simp [(neutral_facts hn).2.2.1]
  case method hm hi _ _ _ => simp [hm, hi]
  case inters g hn hg =>
    simp only [(neutral_facts hn).2.2.1, List.map_map]
    have : ((fun x : InterM => ((Except.ok x.iid : Except Msg IId), x.annot)) ∘ g) = (fun x => (Except.ok x.iid, x.annot)) := by
      funext x; simp [(hg x).1, (hg x).2.1]
    rw [this]; simp
  all_goals simp [*, isMeth, isHTTP_iff]

/-! ### group A -/

theorem types_run {banned : List Kind} {l : List Ent} {c c' : Cat} (h : run banned l c = .ok c') :
    c'.types.map (fun t => (t.name, t.annot)) = c.types.map (fun t => (t.name, t.annot)) ++
      ((l.map (·.d)).filter (·.kind == Kind.Type)).map (fun d => (d.param "Name", d.annot)) := by
  rw [← flatMap_if (fun e : Ent => e.d) (·.kind == Kind.Type) (fun d => (d.param "Name", d.annot))]
  exact run_proj (fun c => c.types.map (fun t => (t.name, t.annot))) _
    (fun e c c' hs => types_stepR (step_ok hs).2) l c c' h

theorem servers_run {banned : List Kind} {l : List Ent} {c c' : Cat} (h : run banned l c = .ok c') :
    c'.servers.map (fun t => (t.name, t.annot)) = c.servers.map (fun t => (t.name, t.annot)) ++
      ((l.map (·.d)).filter (·.kind == Kind.Server)).map (fun d => (d.param "Name", d.annot)) := by
  rw [← flatMap_if (fun e : Ent => e.d) (·.kind == Kind.Server) (fun d => (d.param "Name", d.annot))]
  exact run_proj (fun c => c.servers.map (fun t => (t.name, t.annot))) _
    (fun e c c' hs => servers_stepR (step_ok hs).2) l c c' h

theorem inters_run {banned : List Kind} {l : List Ent} {c c' : Cat} (h : run banned l c = .ok c') :
    c'.inters.map (fun x => (Except.ok x.iid, x.annot)) = c.inters.map (fun x => (Except.ok x.iid, x.annot)) ++
      (l.filter (fun e => isMeth e.d.kind)).map (fun e => (idOf e, e.d.annot)) := by
  have := flatMap_if (fun e : Ent => e) (fun e => isMeth e.d.kind) (fun e => (idOf e, e.d.annot)) l
  simp only [List.map_id'] at this
  rw [← this]
  exact run_proj (fun c => c.inters.map (fun x => (Except.ok x.iid, x.annot))) _
    (fun e c c' hs => inters_stepR (step_ok hs).2) l c c' h
/-! ### tags -/

/-- declared tags first -/
def Part (l : List TagM) : Prop := l.filter (·.declared) ++ l.filter (fun t => !t.declared) = l

theorem tags_stepR {e : Ent} {c c' : Cat} (h : StepR e c c') :
    ∃ extra g, KeepT g ∧ (∀ a ∈ extra, a.declared = false) ∧ c'.tags = (c.tags ++ extra).map g := by
  have idk : KeepT id := fun _ => ⟨rfl, rfl, rfl⟩
  cases h
  case tagsMap g _ hg => exact ⟨[], g, hg, by simp, by simp⟩
  case method extra g _ _ _ hg hex =>
    refine ⟨extra, g, hg, ?_, rfl⟩
    rcases hex with rfl | ⟨a, rfl, ha, _⟩ <;> simp [*]
  all_goals exact ⟨[], id, idk, by simp, by simp⟩

theorem keepT_declared {g : TagM → TagM} (hg : KeepT g) : ((fun t : TagM => t.declared) ∘ g) = (fun t => t.declared) := by
  funext x; simp [(hg x).2.2]

theorem filter_decl_map {g : TagM → TagM} (hg : KeepT g) (l : List TagM) :
    (l.map g).filter (·.declared) = (l.filter (·.declared)).map g := by
  rw [List.filter_map, keepT_declared hg]

theorem filter_undecl_map {g : TagM → TagM} (hg : KeepT g) (l : List TagM) :
    (l.map g).filter (fun t => !t.declared) = (l.filter (fun t => !t.declared)).map g := by
  rw [List.filter_map]
  congr 2
  funext x; simp [(hg x).2.2]

theorem filter_decl_extra {extra : List TagM} (h : ∀ a ∈ extra, a.declared = false) :
    extra.filter (·.declared) = [] ∧ extra.filter (fun t => !t.declared) = extra := by
  constructor
  · rw [List.filter_eq_nil_iff]; intro a ha; simp [h a ha]
  · rw [List.filter_eq_self]; intro a ha; simp [h a ha]

theorem Part_step {l extra : List TagM} {g : TagM → TagM} (hg : KeepT g) (hex : ∀ a ∈ extra, a.declared = false)
    (h : Part l) : Part ((l ++ extra).map g) := by
  unfold Part at *
  rw [filter_decl_map hg, filter_undecl_map hg, List.filter_append, List.filter_append,
    (filter_decl_extra hex).1, (filter_decl_extra hex).2, List.append_nil, ← List.map_append, ← List.append_assoc, h]

theorem declNT_step {l extra : List TagM} {g : TagM → TagM} (hg : KeepT g) (hex : ∀ a ∈ extra, a.declared = false) :
    (((l ++ extra).map g).filter (·.declared)).map (fun t => (t.name, t.title)) =
      (l.filter (·.declared)).map (fun t => (t.name, t.title)) := by
  rw [filter_decl_map hg, List.filter_append, (filter_decl_extra hex).1, List.append_nil, List.map_map]
  congr 1
  funext x; simp [(hg x).1, (hg x).2.1]

theorem tags_run {banned : List Kind} {l : List Ent} {c c' : Cat} (h : run banned l c = .ok c') :
    (c'.tags.filter (·.declared)).map (fun t => (t.name, t.title)) =
      (c.tags.filter (·.declared)).map (fun t => (t.name, t.title)) ∧ (Part c.tags → Part c'.tags) := by
  constructor
  · exact run_inv (fun x => (x.tags.filter (·.declared)).map (fun t => (t.name, t.title)) =
        (c.tags.filter (·.declared)).map (fun t => (t.name, t.title))) l (fun e _ c₁ c₂ hp hs => by
        obtain ⟨extra, g, hg, hex, ht⟩ := tags_stepR (step_ok hs).2
        simp only [ht, declNT_step hg hex]; exact hp) c c' rfl h
  · exact run_inv (fun c => Part c.tags) l (fun e _ c c' hp hs => by
        obtain ⟨extra, g, hg, hex, ht⟩ := tags_stepR (step_ok hs).2
        simp only [ht]; exact Part_step hg hex hp) c c'  |> fun k hp => k hp h

theorem declTags_all (f : List BTree) : ∀ t ∈ declTags f, t.declared = true := by
  intro t ht
  simp only [declTags, List.mem_map] at ht
  obtain ⟨d, _, rfl⟩ := ht
  rfl

theorem Part_of_all {l : List TagM} (h : ∀ t ∈ l, t.declared = true) : Part l := by
  unfold Part
  have h1 : l.filter (·.declared) = l := by rw [List.filter_eq_self]; exact h
  have h2 : l.filter (fun t => !t.declared) = [] := by
    rw [List.filter_eq_nil_iff]; intro a ha; simp [h a ha]
  rw [h1, h2, List.append_nil]

theorem Part_split {l : List TagM} (h : Part l) :
    ∃ n, (l.take n).all (·.declared) = true ∧ (l.drop n).all (fun t => !t.declared) = true := by
  refine ⟨(l.filter (·.declared)).length, ?_, ?_⟩
  · have : l.take (l.filter (·.declared)).length = l.filter (·.declared) := by
      conv => lhs; arg 2; rw [← h]
      simp
    rw [this]; simp
  · have : l.drop (l.filter (·.declared)).length = l.filter (fun t => !t.declared) := by
      conv => lhs; arg 2; rw [← h]
      simp
    rw [this]; simp
theorem jsight_stepR {e : Ent} {c c' : Cat} (h : StepR e c c') :
    (e.d.kind = .Jsight → c'.jsight = v03) ∧ (c.jsight = v03 → c'.jsight = v03) := by
  cases h
  case same hn => exact ⟨fun hk => absurd hk (neutral_facts hn).2.2.2, id⟩
  case inters hn _ => exact ⟨fun hk => absurd hk (neutral_facts hn).2.2.2, id⟩
  case tagsMap hn _ => exact ⟨fun hk => absurd hk (neutral_facts hn).2.2.2, id⟩
  case proto hn => exact ⟨fun hk => absurd hk (neutral_facts hn).2.2.2, id⟩
  case method hm _ _ _ _ => exact ⟨fun hk => absurd hk (isMeth_facts hm).2.2, id⟩
  case jsight => exact ⟨fun _ => rfl, fun _ => rfl⟩
  all_goals exact ⟨fun hk => by simp_all, id⟩

theorem flatAF_head {anc : List Up} {t : BTree} {r : List BTree} :
    ∃ rest, flatAF anc (t :: r) = ⟨t.dir, t.kids.map BTree.dir, anc⟩ :: rest := by
  cases t with
  | node d kids =>
    exact ⟨flatAF (⟨d, kids.map BTree.dir⟩ :: anc) kids ++ flatAF anc r, by simp [flatAF, flatA, BTree.dir, BTree.kids]⟩

theorem jsight_run {banned : List Kind} {e : Ent} {l : List Ent} {c c' : Cat} (hk : e.d.kind = .Jsight)
    (h : run banned (e :: l) c = .ok c') : c'.jsight = v03 := by
  simp only [run] at h
  cases hs : step banned e c with
  | error x => simp [hs] at h
  | ok c₁ =>
    simp only [hs] at h
    exact run_inv (fun c => c.jsight = v03) l (fun e _ c c' hp hs => (jsight_stepR (step_ok hs).2).2 hp) c₁ c'
      ((jsight_stepR (step_ok hs).2).1 hk) h
/-! ### appending a tree to an accepted forest -/

theorem collectTags_append (f g : List BTree) (c : Cat) :
    collectTags (f ++ g) c = (match collectTags f c with | .error x => .error x | .ok c' => collectTags g c') := by
  induction f generalizing c with
  | nil => simp [collectTags]
  | cons t r ih =>
    simp only [List.cons_append, collectTags, fail]
    split
    · split; · rfl
      split; · rfl
      exact ih _
    · exact ih _

theorem checkTypeNames_append (f g : List BTree) :
    checkTypeNames (f ++ g) = (match checkTypeNames f with | .error x => .error x | .ok _ => checkTypeNames g) := by
  induction f with
  | nil => simp [checkTypeNames]
  | cons t r ih =>
    simp only [List.cons_append, checkTypeNames, fail]
    split
    · rfl
    · exact ih

theorem pathsForest_append (anc : List BDir) (f g : List BTree) (last : Option Nat) :
    pathsForest anc (f ++ g) last =
      (match pathsForest anc f last with | .error x => .error x | .ok l => pathsForest anc g l) := by
  induction f generalizing last with
  | nil => simp [pathsForest]
  | cons t r ih =>
    simp only [List.cons_append, pathsForest]
    cases pathsTree anc t last with
    | error x => rfl
    | ok l => exact ih l

/-- appending a tree that the pre-stages accept and whose directives leave `info` and `inters` alone -/
theorem compile_snoc {banned : List Kind} {f : List BTree} {c c' : Cat} (h : compile banned f = .ok c) (hf : f ≠ [])
    (t : BTree) (hk : t.dir.kind ≠ .TAG) (hty : ¬ (t.dir.kind = .Type ∧ t.dir.param "Name" = []))
    (hp : ∀ last, ∃ x, pathsTree [] t last = .ok x) (hr : run banned (flatA [] t) c = .ok c')
    (hinfo : c'.info = c.info) (hint : c'.inters = c.inters) : compile banned (f ++ [t]) = .ok c' := by
  obtain ⟨c₀, h0, h1, ⟨x, h2⟩, h3, h4, h5, h6, h7⟩ := compile_ok h
  obtain ⟨y, hy⟩ := hp x
  refine compile_of (c₀ := c₀) (x := y) ?_ ?_ ?_ ?_ ?_ ?_ ?_ ?_
  · rw [collectTags_append, h0]
    simp [collectTags, hk]
  · rw [checkTypeNames_append, h1]
    simp only [checkTypeNames]
    split
    · rename_i hc; simp at hc; exact absurd hc hty
    · rfl
  · rw [pathsForest_append, h2]
    simp [pathsForest, hy]
  · intro t' r' he
    cases f with
    | nil => exact absurd rfl hf
    | cons a r => simp at he; exact he.1 ▸ h3 a r rfl
  · rw [flatAF_append, run_append, h4]
    simp [flatAF, hr]
  · unfold validateInfo; rw [hinfo]; exact h5
  · rw [hint]; exact h6
  · rw [hint]; exact h7

theorem add_type_run {banned : List Kind} {c : Cat} {d : BDir} {nt : Bytes} (hk : d.kind = .Type)
    (hn : d.param "Name" ≠ []) (hfresh : ∀ t ∈ c.types, t.name ≠ d.param "Name")
    (hnot : newNotation (d.param "SchemaNotation") = .ok nt)
    (hbody : (nt = nJsight ∨ nt = nRegex) → d.body.isSome) (hban : d.kind ∉ banned) :
    run banned (flatA [] (.node d [])) c =
      .ok { c with types := c.types ++ [{ name := d.param "Name", annot := d.annot, nota := nt }] } := by
  rw [hk] at hban
  have hany : c.types.any (fun x => x.name == d.param "Name") = false := by
    rw [List.any_eq_false]; intro t ht; simpa using hfresh t ht
  have hbd : ((nt == nJsight || nt == nRegex) && d.body.isNone) = false := by
    cases hb' : d.body with
    | some b => simp
    | none =>
      have : ¬ (nt = nJsight ∨ nt = nRegex) := fun h' => by simpa [hb'] using hbody h'
      simp at this; simp [this]
  simp only [flatA, flatAF, run, step, addDirective, hk, List.map_nil]
  simp [addType, hban, hn, hany, hnot, liftAt, hbd, bind, Except.bind, pure, Except.pure]
theorem add_server_run {banned : List Kind} {c : Cat} {d : BDir} (hk : d.kind = .Server)
    (hn : d.param "Name" ≠ []) (hfresh : ∀ s ∈ c.servers, s.name ≠ d.param "Name") (hban : d.kind ∉ banned) :
    run banned (flatA [] (.node d [])) c =
      .ok { c with servers := c.servers ++ [{ name := d.param "Name", annot := d.annot }] } := by
  rw [hk] at hban
  have hany : c.servers.any (fun x => x.name == d.param "Name") = false := by
    rw [List.any_eq_false]; intro t ht; simpa using hfresh t ht
  simp only [flatA, flatAF, run, step, addDirective, hk, List.map_nil]
  simp [addServer, hban, hn, hany]

theorem add_server_baseurl_run {banned : List Kind} {c : Cat} {d b : BDir} (hk : d.kind = .Server)
    (hn : d.param "Name" ≠ []) (hfresh : ∀ s ∈ c.servers, s.name ≠ d.param "Name") (hban : d.kind ∉ banned)
    (hkb : b.kind = .BaseURL) (hp : b.param "Path" ≠ []) (hab : b.annot = []) (hbanb : b.kind ∉ banned) :
    run banned (flatA [] (.node d [.node b []])) c =
      .ok { c with servers := c.servers ++ [{ name := d.param "Name", annot := d.annot, baseUrl := b.param "Path" }] } := by
  rw [hk] at hban
  rw [hkb] at hbanb
  have hany : c.servers.any (fun x => x.name == d.param "Name") = false := by
    rw [List.any_eq_false]; intro t ht; simpa using hfresh t ht
  have hfind : c.servers.find? (fun x => x.name == d.param "Name") = none := by
    rw [List.find?_eq_none]; intro t ht; simpa using hfresh t ht
  have hmap : c.servers.map (fun x => if x.name = d.param "Name" then { x with baseUrl := b.param "Path" } else x)
      = c.servers := by
    conv => rhs; rw [← List.map_id c.servers]
    apply List.map_congr_left
    intro x hx
    have := hfresh x hx
    simp [this]
  simp only [flatA, flatAF, run, step, addDirective, hk, hkb, List.map_nil, List.map_cons, List.append_nil, BTree.dir]
  simp [addServer, addBaseUrl, hban, hbanb, hn, hany, hp, hab, List.find?_append, hfind, hmap]
/-! ### the handlers that neither read nor write the tags -/

def setTags (ts : List TagM) (c : Cat) : Cat := { c with tags := ts }

/-- `F` neither reads nor writes the tags -/
def Obliv (F : Cat → R Cat) : Prop := ∀ ts c, F (setTags ts c) = (F c).map (setTags ts)

theorem bind_obliv {α} {g : Cat → Cat} (x : R α) (f f' : α → R Cat) (h : ∀ a, f a = (f' a).map g) :
    (x >>= f) = (x >>= f').map g := by
  cases x with
  | error e => rfl
  | ok a => exact h a

macro "osplit" : tactic =>
  `(tactic| repeat' (first | rfl | contradiction | (split <;> try simp only [*, ↓reduceIte])))

/-- split the first condition; the failing branch is the same on both sides -/
macro "ofail" : tactic =>
  `(tactic| ((split <;> try simp only [*, ↓reduceIte]) <;> first | rfl | contradiction | skip))

theorem addInfo_obliv (d : BDir) : Obliv (addInfo d) := by
  intro ts c
  unfold addInfo
  simp only [fail, setTags]
  osplit

theorem addTitle_obliv (d : BDir) : Obliv (addTitle d) := by
  intro ts c
  unfold addTitle
  simp only [fail, setTags]
  osplit

theorem addQuery_obliv (d : BDir) (anc) : Obliv (addQuery d anc) := by
  intro ts c
  unfold addQuery
  simp only [fail, setTags]
  ofail
  ofail
  refine bind_obliv _ _ _ (fun i => ?_)
  simp only [Cat.getInter, Cat.updInter]
  osplit

theorem addJSight_obliv (d : BDir) : Obliv (addJSight d) := by
  intro ts c
  unfold addJSight
  simp only [fail, setTags]
  osplit

theorem addVersion_obliv (d : BDir) : Obliv (addVersion d) := by
  intro ts c
  unfold addVersion
  simp only [fail, setTags]
  osplit

theorem addServer_obliv (d : BDir) : Obliv (addServer d) := by
  intro ts c
  unfold addServer
  simp only [fail, setTags]
  osplit

theorem addBaseUrl_obliv (d : BDir) (anc) : Obliv (addBaseUrl d anc) := by
  intro ts c
  unfold addBaseUrl
  simp only [fail, setTags]
  osplit

theorem addType_obliv (d : BDir) : Obliv (addType d) := by
  intro ts c
  unfold addType
  simp only [fail, setTags]
  ofail
  ofail
  refine bind_obliv _ _ _ (fun i => ?_)
  osplit

theorem addURL_obliv (d : BDir) (kids anc) : Obliv (addURL d kids anc) := by
  intro ts c
  unfold addURL
  simp only [fail, setTags]
  ofail
  refine bind_obliv _ _ _ (fun i => ?_)
  refine bind_obliv _ _ _ (fun i => ?_)
  osplit

theorem addProtocol_obliv (d : BDir) (anc) : Obliv (addProtocol d anc) := by
  intro ts c
  unfold addProtocol
  simp only [fail, setTags]
  osplit

theorem addRpcSchema_obliv (p : Bool) (d : BDir) (anc) : Obliv (addRpcSchema p d anc) := by
  intro ts c
  unfold addRpcSchema
  simp only [fail, setTags]
  ofail
  ofail
  refine bind_obliv _ _ _ (fun i => ?_)
  simp only [Cat.getInter, Cat.updInter]
  osplit

theorem addRequestBody_obliv (d : BDir) (anc) (b) : Obliv (addRequestBody d anc b) := by
  intro ts c
  unfold addRequestBody
  simp only [fail, setTags]
  refine bind_obliv _ _ _ (fun i => ?_)
  simp only [Cat.getInter, Cat.updInter]
  osplit

theorem addResponseBody_obliv (d : BDir) (anc) (b) : Obliv (addResponseBody d anc b) := by
  intro ts c
  unfold addResponseBody
  simp only [fail, setTags]
  refine bind_obliv _ _ _ (fun i => ?_)
  simp only [Cat.getInter, Cat.updInter]
  osplit

theorem addHeaders_obliv (d : BDir) (anc) : Obliv (addHeaders d anc) := by
  intro ts c
  unfold addHeaders
  simp only [fail, setTags]
  ofail
  ofail
  ofail
  split
  · refine bind_obliv _ _ _ (fun i => ?_)
    simp only [Cat.getInter, Cat.updInter]
    osplit
  split
  · refine bind_obliv _ _ _ (fun i => ?_)
    simp only [Cat.getInter, Cat.updInter]
    osplit
  rfl

theorem obliv_upd {F : Cat → R Cat} (h : Obliv F) (ts : List TagM) (c : Cat) (i : IId) (g : InterM → InterM) :
    F ((setTags ts c).updInter i g) = (F (c.updInter i g)).map (setTags ts) := h ts (c.updInter i g)

theorem addRequest_obliv (d : BDir) (anc) : Obliv (addRequest d anc) := by
  intro ts c
  unfold addRequest
  simp only [fail]
  ofail
  ofail
  refine bind_obliv _ _ _ (fun nt => ?_)
  split
  · refine bind_obliv _ _ _ (fun i => ?_)
    simp only [pure_bind]
    repeat' (first | rfl | exact obliv_upd (addRequestBody_obliv d anc _) ts c i _ | split)
  · simp only [pure_bind]
    repeat' (first | rfl | exact addRequestBody_obliv d anc _ ts _ | split)

theorem addResponse_obliv (d : BDir) (anc) : Obliv (addResponse d anc) := by
  intro ts c
  unfold addResponse
  simp only [fail]
  ofail
  refine bind_obliv _ _ _ (fun nt => ?_)
  generalize (d.kind == Kind.Body && _) = clash
  ofail
  split
  · refine bind_obliv _ _ _ (fun i => ?_)
    simp only [pure_bind]
    repeat' (first | rfl | exact obliv_upd (addResponseBody_obliv d anc _) ts c i _ | split)
  · simp only [pure_bind]
    repeat' (first | rfl | exact addResponseBody_obliv d anc _ ts _ | split)

theorem addBody_obliv (d : BDir) (anc) : Obliv (addBody d anc) := by
  intro ts c
  unfold addBody
  simp only [fail]
  ofail
  ofail
  split; · exact addRequest_obliv d _ ts c
  split; · exact addResponse_obliv d _ ts c
  rfl
end JSight.C04B
