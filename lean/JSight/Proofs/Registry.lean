import JSight.Model.Registry
/-!
Helper lemmas for the name-level registry model (`JSight.Reg`): `addAll` succeeds exactly when the keys of
the declarations are pairwise distinct and absent from the initial entries; the result is the initial
entries followed by the keys in source order.
-/
namespace JSight.Reg

/-- the (collection, key) pair a declaration registers -/
abbrev Decl.k (d : Decl) : Coll × Nat := (d.coll, d.key)

theorem add_ok_iff (es : Entries) (d : Decl) (es' : Entries) :
    add es d = .ok es' ↔ (d.coll, d.key) ∉ es ∧ es' = es ++ [(d.coll, d.key)] := by
  unfold add
  by_cases h : es.contains (d.coll, d.key) = true
  · simp only [h, if_true]
    constructor
    · intro h'; cases h'
    · intro ⟨h', _⟩; exact absurd (List.contains_iff_mem.mp h) h'
  · simp only [h]
    have hn : (d.coll, d.key) ∉ es := fun hm => h (List.contains_iff_mem.mpr hm)
    constructor
    · intro h'
      injection h' with h'
      exact ⟨hn, h'.symm⟩
    · intro ⟨_, h'⟩; rw [h']; rfl

theorem add_fresh_eq (es : Entries) (d : Decl) (h : (d.coll, d.key) ∉ es) :
    add es d = .ok (es ++ [(d.coll, d.key)]) :=
  (add_ok_iff es d _).mpr ⟨h, rfl⟩

theorem add_dup_eq (es : Entries) (d : Decl) (h : (d.coll, d.key) ∈ es) :
    add es d = .error d.id := by
  unfold add
  simp [h]

theorem addAll_append (es : Entries) (l₁ l₂ : List Decl) :
    addAll es (l₁ ++ l₂) = (match addAll es l₁ with
      | .error i => .error i
      | .ok es' => addAll es' l₂) := by
  induction l₁ generalizing es with
  | nil => rfl
  | cons d r ih =>
    simp only [List.cons_append, addAll]
    cases add es d with
    | error i => rfl
    | ok es' => exact ih es'

/-- soundness: an accepted list has distinct keys, none of which was present, and the entries are appended in order -/
theorem addAll_ok (es : Entries) (ds : List Decl) (es' : Entries) (h : addAll es ds = .ok es') :
    es' = es ++ ds.map (fun d => (d.coll, d.key)) ∧ (ds.map (fun d => (d.coll, d.key))).Nodup ∧
      ∀ x, x ∈ ds.map (fun d => (d.coll, d.key)) → x ∉ es := by
  induction ds generalizing es with
  | nil =>
    simp only [addAll] at h
    injection h with h
    simp [h]
  | cons d r ih =>
    simp only [addAll] at h
    cases hadd : add es d with
    | error i => rw [hadd] at h; cases h
    | ok es₁ =>
      rw [hadd] at h
      obtain ⟨hn, he⟩ := (add_ok_iff es d es₁).mp hadd
      obtain ⟨h1, h2, h3⟩ := ih es₁ h
      subst he
      refine ⟨?_, ?_, ?_⟩
      · rw [h1]; simp
      · rw [List.map_cons, List.nodup_cons]
        refine ⟨?_, h2⟩
        intro hm
        exact h3 _ hm (by simp)
      · intro x hx hxe
        rw [List.map_cons, List.mem_cons] at hx
        rcases hx with rfl | hx
        · exact hn hxe
        · exact h3 x hx (by simp [hxe])

/-- completeness: distinct fresh keys are accepted -/
theorem addAll_of_nodup (es : Entries) (ds : List Decl)
    (hnd : (ds.map (fun d => (d.coll, d.key))).Nodup)
    (hfresh : ∀ x, x ∈ ds.map (fun d => (d.coll, d.key)) → x ∉ es) :
    addAll es ds = .ok (es ++ ds.map (fun d => (d.coll, d.key))) := by
  induction ds generalizing es with
  | nil => simp [addAll]
  | cons d r ih =>
    rw [List.map_cons, List.nodup_cons] at hnd
    have hn : (d.coll, d.key) ∉ es := hfresh _ (by simp)
    simp only [addAll, add_fresh_eq es d hn]
    rw [ih (es ++ [(d.coll, d.key)]) hnd.2]
    · simp
    · intro x hx hxe
      rw [List.mem_append] at hxe
      rcases hxe with hxe | hxe
      · exact hfresh x (by simp [List.map_cons]; right; simpa using hx) hxe
      · simp only [List.mem_singleton] at hxe
        subst hxe
        exact hnd.1 hx

theorem addAll_nil_ok_iff (ds : List Decl) (es : Entries) :
    addAll [] ds = .ok es ↔ (ds.map (fun d => (d.coll, d.key))).Nodup ∧ es = ds.map (fun d => (d.coll, d.key)) := by
  constructor
  · intro h
    obtain ⟨h1, h2, _⟩ := addAll_ok [] ds es h
    exact ⟨h2, by simpa using h1⟩
  · intro ⟨h1, h2⟩
    rw [h2]
    have := addAll_of_nodup [] ds h1 (by intro x _ hx; cases hx)
    simpa using this

theorem collection_append (e₁ e₂ : Entries) (c : Coll) :
    collection (e₁ ++ e₂) c = collection e₁ c ++ collection e₂ c := by
  simp [collection]

theorem collection_cons_ne (x : Coll × Nat) (e : Entries) (c : Coll) (h : c ≠ x.1) :
    collection (x :: e) c = collection e c := by
  have : (x.1 == c) = false := by
    rw [beq_eq_false_iff_ne]; exact fun h' => h h'.symm
  simp [collection, this]

theorem collection_perm (e₁ e₂ : Entries) (h : e₁.Perm e₂) (c : Coll) :
    (collection e₁ c).Perm (collection e₂ c) :=
  (h.filter _).map _

/-- core has no `DecidableEq (Except ε α)`; used as a `local instance` by the `decide` examples of the Props files -/
def decExcept {ε α : Type} [DecidableEq ε] [DecidableEq α] : DecidableEq (Except ε α)
  | .ok a, .ok b => if h : a = b then isTrue (by rw [h]) else isFalse (fun h' => h (by injection h'))
  | .error a, .error b => if h : a = b then isTrue (by rw [h]) else isFalse (fun h' => h (by injection h'))
  | .ok _, .error _ => isFalse (fun h => by cases h)
  | .error _, .ok _ => isFalse (fun h => by cases h)

end JSight.Reg
