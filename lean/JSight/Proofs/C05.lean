import JSight.Model.Scanner
/-!
C05 — helper definitions and lemmas (generic in the table): Bool checks over decision trees and what they
imply for `Code.select`, unfolding lemmas of `interp` / `byteStep`, fuel monotonicity of `interp`.
No fact about the generated table is used here.
-/
namespace JSight.C05
open JSight JSight.Gen

/-! ### Bool checks over a decision tree -/
section tree
variable {S : Type}

/-- no byte test separates `a` from `b` -/
def symB (a b : UInt8) : Code S → Bool
  | .leaf _ _ => true
  | .ifB bs t e => (bs.contains a == bs.contains b) && symB a b t && symB a b e
  | .ifC _ t e => symB a b t && symB a b e

theorem select_eq_of_symB {a b : UInt8} (ev : Cond → Bool) :
    ∀ t : Code S, symB a b t = true → t.select a ev = t.select b ev
  | .leaf _ _, _ => rfl
  | .ifB bs t e, h => by
    simp only [symB, Bool.and_eq_true, beq_iff_eq] at h
    simp only [Code.select, h.1.1, select_eq_of_symB ev t h.1.2, select_eq_of_symB ev e h.2]
  | .ifC c t e, h => by
    simp only [symB, Bool.and_eq_true] at h
    simp only [Code.select, select_eq_of_symB ev t h.1, select_eq_of_symB ev e h.2]

/-- every leaf that byte `c` can select (the matching branch of a byte test, both branches of a
condition test) satisfies `p` -/
def allSel (c : UInt8) (p : List (Op S) × Cont S → Bool) : Code S → Bool
  | .leaf ops k => p (ops, k)
  | .ifB bs t e => if bs.contains c then allSel c p t else allSel c p e
  | .ifC _ t e => allSel c p t && allSel c p e

theorem allSel_select {c : UInt8} {p : List (Op S) × Cont S → Bool} (ev : Cond → Bool) :
    ∀ t : Code S, allSel c p t = true → p (t.select c ev) = true
  | .leaf _ _, h => h
  | .ifB bs t e, h => by
    simp only [allSel] at h
    simp only [Code.select]
    cases hb : bs.contains c
    · rw [hb] at h; exact allSel_select ev e h
    · rw [hb] at h; exact allSel_select ev t h
  | .ifC cd t e, h => by
    simp only [allSel, Bool.and_eq_true] at h
    simp only [Code.select]
    cases ev cd
    · exact allSel_select ev e h.2
    · exact allSel_select ev t h.1

/-- the tree tests bytes of `X` only (on the paths that fail every byte test), and every leaf that a byte
outside `X` can select satisfies `p` -/
def allOther (X : List UInt8) (p : List (Op S) × Cont S → Bool) : Code S → Bool
  | .leaf ops k => p (ops, k)
  | .ifB bs _ e => bs.all X.contains && allOther X p e
  | .ifC _ t e => allOther X p t && allOther X p e

theorem allOther_select {X : List UInt8} {c : UInt8} {p : List (Op S) × Cont S → Bool}
    (ev : Cond → Bool) (hc : c ∉ X) :
    ∀ t : Code S, allOther X p t = true → p (t.select c ev) = true
  | .leaf _ _, h => h
  | .ifB bs _ e, h => by
    simp only [allOther, Bool.and_eq_true, List.all_eq_true] at h
    have hb : bs.contains c = false := by
      cases hb : bs.contains c
      · rfl
      · exfalso
        have hm : c ∈ bs := by simpa using hb
        have := h.1 c hm
        exact hc (by simpa using this)
    simp only [Code.select, hb]
    exact allOther_select ev hc e h.2
  | .ifC cd t e, h => by
    simp only [allOther, Bool.and_eq_true] at h
    simp only [Code.select]
    cases ev cd
    · exact allOther_select ev hc e h.2
    · exact allOther_select ev hc t h.1

/-- "is exactly this leaf" -/
def isLeaf [DecidableEq S] (l₀ : List (Op S) × Cont S) : List (Op S) × Cont S → Bool :=
  fun l => decide (l = l₀)

theorem eq_of_isLeaf [DecidableEq S] {l₀ l : List (Op S) × Cont S} (h : isLeaf l₀ l = true) : l = l₀ :=
  of_decide_eq_true h

end tree

/-! ### `interp` -/

theorem interp_zero (d : Src) (o : Oracle) (c : UInt8) (st : St) (sc : Sc) :
    interp d o c 0 st sc = .error (.fault .fuel) := rfl

theorem interp_succ (d : Src) (o : Oracle) (c : UInt8) (fuel : Nat) (st : St) (sc : Sc) :
    interp d o c (fuel + 1) st sc =
      match execOps sc ((code st).select c (evalCond d sc)).1 with
      | .error f => .error (.fault f)
      | .ok sc' =>
        match ((code st).select c (evalCond d sc)).2 with
        | .done => .ok sc'
        | .err => .error (.diag sc'.cur)
        | .call s' => interp d o c fuel s' sc'
        | .redispatch => interp d o c fuel sc'.step sc'
        | .jschema => libBody sc' .schemaBegin (o.schemaLen sc'.cur) .stateSchemaClosed (c != 0)
        | .enumBody => libBody sc' .enumBegin (o.enumLen sc'.cur) .stateEnumBodyClose false := rfl

theorem interp_done {d : Src} {o : Oracle} {c : UInt8} {fuel : Nat} {st : St} {sc sc' : Sc}
    {ops : List (Op St)} (h : (code st).select c (evalCond d sc) = (ops, .done))
    (he : execOps sc ops = .ok sc') : interp d o c (fuel + 1) st sc = .ok sc' := by
  rw [interp_succ, h]; simp only; rw [he]

theorem interp_call {d : Src} {o : Oracle} {c : UInt8} {fuel : Nat} {st s' : St} {sc sc' : Sc}
    {ops : List (Op St)} (h : (code st).select c (evalCond d sc) = (ops, .call s'))
    (he : execOps sc ops = .ok sc') : interp d o c (fuel + 1) st sc = interp d o c fuel s' sc' := by
  rw [interp_succ, h]; simp only; rw [he]

theorem interp_redispatch {d : Src} {o : Oracle} {c : UInt8} {fuel : Nat} {st : St} {sc sc' : Sc}
    {ops : List (Op St)} (h : (code st).select c (evalCond d sc) = (ops, .redispatch))
    (he : execOps sc ops = .ok sc') : interp d o c (fuel + 1) st sc = interp d o c fuel sc'.step sc' := by
  rw [interp_succ, h]; simp only; rw [he]

/-- two bytes that no state function separates (and that are both NUL or both not) are interpreted alike -/
theorem interp_sym (d : Src) (o : Oracle) {a b : UInt8} (hz : (a != 0) = (b != 0))
    (hsel : ∀ (st : St) (ev : Cond → Bool), (code st).select a ev = (code st).select b ev) :
    ∀ (fuel : Nat) (st : St) (sc : Sc), interp d o a fuel st sc = interp d o b fuel st sc := by
  intro fuel
  induction fuel with
  | zero => intro st sc; rfl
  | succ n ih =>
    intro st sc
    rw [interp_succ, interp_succ, hsel]
    simp only [ih, hz]

/-- more fuel does not change a result that is not the fuel fault -/
theorem interp_mono (d : Src) (o : Oracle) (c : UInt8) :
    ∀ (fuel : Nat) (st : St) (sc : Sc) (r : Except Stop Sc),
      interp d o c fuel st sc = r → r ≠ .error (.fault .fuel) → interp d o c (fuel + 1) st sc = r := by
  intro fuel
  induction fuel with
  | zero =>
    intro st sc r h hr
    rw [interp_zero] at h
    exact absurd h.symm hr
  | succ n ih =>
    intro st sc r h hr
    rw [interp_succ] at h
    rw [interp_succ]
    generalize (code st).select c (evalCond d sc) = p at h ⊢
    obtain ⟨ops, k⟩ := p
    simp only at h ⊢
    cases he : execOps sc ops with
    | error f => rw [he] at h; simpa using h
    | ok sc' =>
      rw [he] at h
      cases k with
      | done => exact h
      | err => exact h
      | call s' => exact ih s' sc' r h hr
      | redispatch => exact ih sc'.step sc' r h hr
      | jschema => exact h
      | enumBody => exact h

theorem interp_mono_add (d : Src) (o : Oracle) (c : UInt8) (fuel : Nat) (st : St) (sc : Sc)
    (r : Except Stop Sc) (h : interp d o c fuel st sc = r) (hr : r ≠ .error (.fault .fuel)) :
    ∀ k : Nat, interp d o c (fuel + k) st sc = r
  | 0 => h
  | k + 1 => interp_mono d o c (fuel + k) st sc r (interp_mono_add d o c fuel st sc r h hr k) hr

/-! ### `byteStep` -/

/-- the tail of `byteStep`: apply the pending rewind together with the `curIndex++` -/
def finishByte (r : Except Stop Sc) : Except Stop Sc :=
  match r with
  | .error s => .error s
  | .ok sc1 =>
    if sc1.rew > sc1.cur + 1 then .error (.fault .underflow)
    else .ok { sc1 with cur := sc1.cur + 1 - sc1.rew, rew := 0 }

theorem byteStep_eq (d : Src) (o : Oracle) (sc : Sc) :
    byteStep d o sc =
      if (sc.cur != d.size && curByte d sc == 0) = true then .error (.diag sc.cur)
      else finishByte (interp d o (curByte d sc) stepFuel sc.step sc) := rfl

theorem finishByte_fuel {r : Except Stop Sc} (h : finishByte r = .error (.fault .fuel)) :
    r = .error (.fault .fuel) := by
  cases r with
  | error s => simpa [finishByte] using h
  | ok sc1 =>
    simp only [finishByte] at h
    split at h
    · simp at h
    · simp at h

theorem curByte_of_lt {d : Src} {sc : Sc} (h : sc.cur < d.size) : curByte d sc = d.get sc.cur := by
  have : (sc.cur == d.size) = false := by simpa using Nat.ne_of_lt h
  simp [curByte, this]

/-- a byte inside the file, not NUL, whose step succeeds without a rewind: `cur` advances by one -/
theorem byteStep_ok {d : Src} {o : Oracle} {sc sc1 : Sc} (hlt : sc.cur < d.size) (h0 : d.get sc.cur ≠ 0)
    (hi : interp d o (d.get sc.cur) stepFuel sc.step sc = .ok sc1) (hrew : sc1.rew = 0) :
    byteStep d o sc = .ok { sc1 with cur := sc1.cur + 1, rew := 0 } := by
  rw [byteStep_eq, curByte_of_lt hlt, hi]
  have : (d.get sc.cur == 0) = false := by simpa using h0
  simp [finishByte, this, hrew]

end JSight.C05
