import JSight.Model.AllOf
/-!
C12 — allOf inheritance: definitions used by the well-formedness predicate (`depthOk`, `lineage`) and helper
lemmas (core Lean only).  The property theorems are in `JSight/Props/C12.lean`.
-/
namespace JSight.C12
open JSight.AllOf

/-! ### Definitions -/

/-- the inherited copy of a property: same key, marked with the direct base -/
def mark (b : Nat) (p : Prpty) : Prpty := { key := p.key, from_ := some b }

/-- the property keys of a property list, in order -/
def keys (l : List Prpty) : List Nat := l.map (·.key)

/-- `depthOk st f n`: every allOf chain that starts at `n` ends within `f` steps (false when the fuel runs out:
    with `f = st.length` this holds for every type iff the allOf graph is acyclic) -/
def depthOk (st : Store) : Nat → Nat → Bool
  | 0, _ => false
  | f + 1, n =>
    match st.get? n with
    | some sc => sc.bases.all (depthOk st f)
    | none => true

/-- `lineage st f n`: the types that contribute properties to `n`, in expansion order — the lineages of the bases in
    written order, then `n` itself.  A type occurs twice iff it is reachable along two different paths. -/
def lineage (st : Store) : Nat → Nat → List Nat
  | 0, n => [n]
  | f + 1, n =>
    (match st.get? n with
     | some sc => sc.bases.flatMap (lineage st f)
     | none => []) ++ [n]

/-- own keys of the type named `n` -/
def ownKeys (st : Store) (n : Nat) : List Nat :=
  match st.get? n with
  | some sc => keys sc.kids
  | none => []

/-! ### Lists -/

theorem flatMap_congr' {α β} {l : List α} {f g : α → List β} (h : ∀ x ∈ l, f x = g x) :
    l.flatMap f = l.flatMap g := by
  induction l with
  | nil => rfl
  | cons a l ih =>
    simp only [List.flatMap_cons]
    rw [h a (by simp), ih (fun x hx => h x (by simp [hx]))]

/-- pigeonhole: a duplicate-free list inside `m` is not longer than `m` -/
theorem nodup_length_le : ∀ (l m : List Nat), l.Nodup → (∀ x ∈ l, x ∈ m) → l.length ≤ m.length := by
  intro l
  induction l with
  | nil => intro m _ _; simp
  | cons x l ih =>
    intro m hnd hsub
    have hx : x ∈ m := hsub x (by simp)
    have hnd' := List.nodup_cons.mp hnd
    have h1 : l.length ≤ (m.erase x).length := by
      apply ih _ hnd'.2
      intro y hy
      have hne : y ≠ x := by
        intro h; subst h; exact hnd'.1 hy
      exact (List.mem_erase_of_ne hne).mpr (hsub y (by simp [hy]))
    rw [List.length_erase_of_mem hx] at h1
    have : 0 < m.length := List.length_pos_of_mem hx
    simp only [List.length_cons]
    omega

theorem find?_append_left_mem {α} (p : α → Bool) (l1 l2 : List α) (x : α) (hx : x ∈ l1) (hp : p x = true) :
    ∃ y, (l1 ++ l2).find? p = some y ∧ y ∈ l1 := by
  rw [List.find?_append]
  cases h : l1.find? p with
  | none =>
    have := List.find?_eq_none.mp h x hx
    simp [hp] at this
  | some y => exact ⟨y, by simp, List.mem_of_find?_eq_some h⟩

/-! ### Store access -/

theorem get?_cons (a : Nat) (sc : Schema) (s : Store) (m : Nat) :
    Store.get? ((a, sc) :: s) m = if a = m then some sc else Store.get? s m := by
  simp only [Store.get?, List.find?_cons]
  by_cases h : a = m
  · simp [h]
  · have hb : (a == m) = false := by simp [h]
    simp [h, hb]

theorem set_cons (a : Nat) (sc : Schema) (s : Store) (n : Nat) (v : Schema) :
    Store.set ((a, sc) :: s) n v = (if a = n then (n, v) else (a, sc)) :: Store.set s n v := by
  simp [Store.set]

theorem get?_nil (m : Nat) : Store.get? [] m = none := rfl

theorem get?_set (s : Store) (n m : Nat) (v : Schema) :
    (s.set n v).get? m = if m = n then (s.get? n).map (fun _ => v) else s.get? m := by
  induction s with
  | nil => simp [Store.set, get?_nil]
  | cons p s ih =>
    obtain ⟨a, sc⟩ := p
    rw [set_cons, get?_cons a sc s m, get?_cons a sc s n]
    by_cases han : a = n
    · subst han
      simp only [if_true]
      rw [get?_cons]
      by_cases hm : a = m
      · subst hm; simp
      · have : ¬ m = a := fun h => hm h.symm
        simp only [hm, this, if_false, ih]
    · simp only [han, if_false]
      rw [get?_cons, ih]
      by_cases hm : a = m
      · have : ¬ m = n := fun h => han (hm.trans h)
        simp [hm, this]
      · simp [hm]

theorem get?_mem {s : Store} {n : Nat} {sc : Schema} (h : s.get? n = some sc) : (n, sc) ∈ s := by
  unfold Store.get? at h
  cases hf : s.find? (·.1 == n) with
  | none => simp [hf] at h
  | some p =>
    simp [hf] at h
    have h1 := List.mem_of_find?_eq_some hf
    have h2 := List.find?_some hf
    simp at h2
    subst h h2
    exact h1

theorem mem_get? {s : Store} {p : Nat × Schema} (h : p ∈ s) : ∃ sc, s.get? p.1 = some sc := by
  unfold Store.get?
  cases hf : s.find? (·.1 == p.1) with
  | none =>
    have := List.find?_eq_none.mp hf p h
    simp at this
  | some q => exact ⟨q.2, rfl⟩

theorem get?_name {s : Store} {n : Nat} {sc : Schema} (h : s.get? n = some sc) : n ∈ s.map (·.1) :=
  List.mem_map.mpr ⟨(n, sc), get?_mem h, rfl⟩

theorem name_get? {s : Store} {n : Nat} (h : n ∈ s.map (·.1)) : ∃ sc, s.get? n = some sc := by
  rcases List.mem_map.mp h with ⟨p, hp, rfl⟩
  exact mem_get? hp

theorem length_pos_of_get? {s : Store} {n : Nat} {sc : Schema} (h : s.get? n = some sc) : 0 < s.length :=
  List.length_pos_of_mem (get?_mem h)

theorem set_names (s : Store) (n : Nat) (v : Schema) : (s.set n v).map (·.1) = s.map (·.1) := by
  induction s with
  | nil => rfl
  | cons p s ih =>
    obtain ⟨a, sc⟩ := p
    rw [set_cons, List.map_cons, List.map_cons, ih]
    by_cases h : a = n <;> simp [h]

theorem get?_none_of_not_name {s : Store} {n : Nat} (h : n ∉ s.map (·.1)) : s.get? n = none := by
  cases hg : s.get? n with
  | none => rfl
  | some sc => exact absurd (get?_name hg) h

/-- two stores with the same (duplicate-free) names in the same order and the same lookups are equal -/
theorem store_ext : ∀ (s1 s2 : Store), (s1.map (·.1)).Nodup → s1.map (·.1) = s2.map (·.1) →
    (∀ n, s1.get? n = s2.get? n) → s1 = s2 := by
  intro s1
  induction s1 with
  | nil => intro s2 _ hn _; cases s2 with
    | nil => rfl
    | cons _ _ => simp at hn
  | cons p t1 ih =>
    intro s2 hnd hn hg
    cases s2 with
    | nil => simp at hn
    | cons q t2 =>
      obtain ⟨a, x⟩ := p
      obtain ⟨a', y⟩ := q
      simp only [List.map_cons, List.cons.injEq] at hn
      obtain ⟨haa, hn⟩ := hn
      subst haa
      simp only [List.map_cons, List.nodup_cons] at hnd
      have hxy : x = y := by
        have := hg a
        rw [get?_cons, get?_cons] at this
        simpa using this
      subst hxy
      congr 1
      apply ih t2 hnd.2 hn
      intro n
      by_cases hna : a = n
      · subst hna
        rw [get?_none_of_not_name hnd.1, get?_none_of_not_name (hn ▸ hnd.1)]
      · have := hg n
        rw [get?_cons, get?_cons] at this
        simpa [hna] using this


/-! ### `unshiftAll` -/

@[simp] theorem keys_nil : keys [] = [] := rfl
@[simp] theorem keys_cons (p : Prpty) (l : List Prpty) : keys (p :: l) = p.key :: keys l := rfl
@[simp] theorem keys_append (l1 l2 : List Prpty) : keys (l1 ++ l2) = keys l1 ++ keys l2 := by simp [keys]
@[simp] theorem keys_map_mark (b : Nat) (l : List Prpty) : keys (l.map (mark b)) = keys l := by
  simp [keys, mark, Function.comp_def]
theorem mem_keys {k : Nat} {l : List Prpty} : k ∈ keys l ↔ ∃ p ∈ l, p.key = k := by simp [keys]

theorem find?_key_none {l : List Prpty} {k : Nat} (h : k ∉ keys l) : l.find? (·.key == k) = none := by
  apply List.find?_eq_none.mpr
  intro x hx hk
  exact h (mem_keys.mpr ⟨x, hx, by simpa using hk⟩)

/-- fresh inheritance: no key of the base occurs yet — all properties are put in front, marked, in order -/
theorem unshiftAll_fresh (b : Nat) : ∀ (vs kids : List Prpty), (keys vs).Nodup → (∀ k ∈ keys vs, k ∉ keys kids) →
    unshiftAll b vs kids = .ok (vs.map (mark b) ++ kids) := by
  intro vs
  induction vs with
  | nil => intro kids _ _; rfl
  | cons v rest ih =>
    intro kids hnd hdis
    simp only [keys_cons, List.nodup_cons] at hnd
    have h1 := ih kids hnd.2 (fun k hk => hdis k (by simp [hk]))
    have hnone : (rest.map (mark b) ++ kids).find? (·.key == v.key) = none := by
      apply find?_key_none
      simp only [keys_append, keys_map_mark, List.mem_append, not_or]
      exact ⟨hnd.1, hdis v.key (by simp)⟩
    simp only [unshiftAll, h1, hnone, List.map_cons, List.cons_append, mark]

/-- re-inheritance: every key of the base is already there as an inherited property — nothing changes -/
theorem unshiftAll_done (b : Nat) : ∀ (vs kids : List Prpty),
    (∀ v ∈ vs, ∃ p, kids.find? (·.key == v.key) = some p ∧ p.from_.isSome = true) →
    unshiftAll b vs kids = .ok kids := by
  intro vs
  induction vs with
  | nil => intro kids _; rfl
  | cons v rest ih =>
    intro kids h
    have h1 := ih kids (fun v hv => h v (by simp [hv]))
    rcases h v (by simp) with ⟨p, hp, hm⟩
    have : p.from_.isNone = false := by
      cases hf : p.from_ <;> simp [hf] at hm ⊢
    simp [unshiftAll, h1, hp, this]

/-- shape of a successful run: marked properties with new keys are put in front of the old list -/
theorem unshiftAll_shape (b : Nat) : ∀ (vs kids kids' : List Prpty), unshiftAll b vs kids = .ok kids' →
    ∃ new, kids' = new ++ kids ∧ ∀ q ∈ new, q.from_ = some b ∧ q.key ∈ keys vs ∧ q.key ∉ keys kids := by
  intro vs
  induction vs with
  | nil =>
    intro kids kids' h
    simp [unshiftAll] at h
    exact ⟨[], by simp [h]⟩
  | cons v rest ih =>
    intro kids kids' h
    simp only [unshiftAll] at h
    cases h1 : unshiftAll b rest kids with
    | error e => simp [h1] at h
    | ok k1 =>
      rcases ih kids k1 h1 with ⟨new, hk1, hnew⟩
      simp only [h1] at h
      cases hf : k1.find? (·.key == v.key) with
      | some p =>
        simp only [hf] at h
        by_cases hp : p.from_.isNone = true
        · simp [hp] at h
        · simp [hp] at h
          subst h
          exact ⟨new, hk1, fun q hq => ⟨(hnew q hq).1, by simp [(hnew q hq).2.1], (hnew q hq).2.2⟩⟩
      | none =>
        simp only [hf] at h
        simp at h
        subst h
        refine ⟨{ key := v.key, from_ := some b } :: new, by simp [hk1], ?_⟩
        intro q hq
        rcases List.mem_cons.mp hq with rfl | hq
        · refine ⟨rfl, by simp, ?_⟩
          intro hk
          rcases mem_keys.mp hk with ⟨x, hx, hxk⟩
          have := List.find?_eq_none.mp hf x (by simp [hk1, hx])
          simp at this
          exact this hxk
        · exact ⟨(hnew q hq).1, by simp [(hnew q hq).2.1], (hnew q hq).2.2⟩

/-- only override errors come out of `unshiftAll`, and only for a key of the base that clashes with an own property -/
theorem unshiftAll_error (b : Nat) : ∀ (vs kids : List Prpty) (e : Err), unshiftAll b vs kids = .error e →
    ∃ k, e = .override k b ∧ k ∈ keys vs ∧ ∃ p, kids.find? (·.key == k) = some p ∧ p.from_ = none := by
  intro vs
  induction vs with
  | nil => intro kids e h; simp [unshiftAll] at h
  | cons v rest ih =>
    intro kids e h
    simp only [unshiftAll] at h
    cases h1 : unshiftAll b rest kids with
    | error e1 =>
      simp only [h1] at h
      have he : e1 = e := by injection h
      subst he
      rcases ih kids e1 h1 with ⟨k, he, hk, hp⟩
      exact ⟨k, he, by simp [hk], hp⟩
    | ok k1 =>
      rcases unshiftAll_shape b rest kids k1 h1 with ⟨new, hk1, hnew⟩
      simp only [h1] at h
      cases hf : k1.find? (·.key == v.key) with
      | none => simp [hf] at h
      | some p =>
        simp only [hf] at h
        by_cases hp : p.from_.isNone = true
        · simp only [hp, if_true] at h
          cases h
          refine ⟨v.key, rfl, by simp, p, ?_, by simpa using hp⟩
          rw [hk1, List.find?_append] at hf
          cases hn : new.find? (·.key == v.key) with
          | none => simpa [hn] using hf
          | some q =>
            simp [hn] at hf
            subst hf
            have := (hnew q (List.mem_of_find?_eq_some hn)).1
            simp [this] at hp
        · simp [hp] at h

/-- an own (not inherited) property whose key is also a key of the base is rejected -/
theorem unshiftAll_clash (b : Nat) : ∀ (vs kids : List Prpty) (v : Prpty) (p : Prpty), v ∈ vs →
    kids.find? (·.key == v.key) = some p → p.from_ = none →
    ∃ k, unshiftAll b vs kids = .error (.override k b) ∧ k ∈ keys vs ∧
      ∃ p, kids.find? (·.key == k) = some p ∧ p.from_ = none := by
  intro vs kids v p hv hf hp
  cases h : unshiftAll b vs kids with
  | error e =>
    rcases unshiftAll_error b vs kids e h with ⟨k, rfl, hk⟩
    exact ⟨k, rfl, hk⟩
  | ok k1 =>
    exfalso
    -- a successful run never skips over an own property: show by induction that it would have failed at `v`
    induction vs generalizing k1 with
    | nil => simp at hv
    | cons w rest ih =>
      simp only [unshiftAll] at h
      cases h1 : unshiftAll b rest kids with
      | error e => simp [h1] at h
      | ok k2 =>
        rcases List.mem_cons.mp hv with rfl | hv'
        · rcases unshiftAll_shape b rest kids k2 h1 with ⟨new, hk2, hnew⟩
          have hkk : v.key ∈ keys kids :=
            mem_keys.mpr ⟨p, List.mem_of_find?_eq_some hf, by simpa using List.find?_some hf⟩
          have hn : new.find? (·.key == v.key) = none := by
            apply List.find?_eq_none.mpr
            intro q hq hqk
            exact (hnew q hq).2.2 (by rw [show q.key = v.key by simpa using hqk]; exact hkk)
          have : k2.find? (·.key == v.key) = some p := by rw [hk2, List.find?_append, hn]; simpa using hf
          simp [h1, this, hp] at h
        · exact ih hv' k2 h1

/-! ### `expand`, `depthOk` -/

theorem expand_succ (st : Store) (f : Nat) (sc : Schema) :
    expand st (f + 1) sc =
      (sc.bases.flatMap fun b => match st.get? b with
        | some ut => (expand st f ut).map (mark b)
        | none => []) ++ sc.kids := rfl

theorem depthOk_succ {st : Store} {f n : Nat} {sc : Schema} (h : st.get? n = some sc) :
    depthOk st (f + 1) n = sc.bases.all (depthOk st f) := by
  simp [depthOk, h]

theorem depthOk_mono_succ (st : Store) : ∀ f n, depthOk st f n = true → depthOk st (f + 1) n = true := by
  intro f
  induction f with
  | zero => intro n h; simp [depthOk] at h
  | succ f ih =>
    intro n h
    cases hg : st.get? n with
    | none => simp [depthOk, hg]
    | some sc =>
      rw [depthOk_succ hg] at h ⊢
      rw [List.all_eq_true] at h ⊢
      exact fun b hb => ih b (h b hb)

theorem depthOk_mono (st : Store) {f f' : Nat} (hle : f ≤ f') (n : Nat) (h : depthOk st f n = true) :
    depthOk st f' n = true := by
  induction hle with
  | refl => exact h
  | step _ ih => exact depthOk_mono_succ st _ n ih

/-- the least sufficient depth -/
theorem depthOk_min (st : Store) (n : Nat) : ∀ d, depthOk st d n = true →
    ∃ m, m < d ∧ depthOk st (m + 1) n = true ∧ depthOk st m n = false := by
  intro d
  induction d with
  | zero => intro h; simp [depthOk] at h
  | succ d ih =>
    intro h
    cases hd : depthOk st d n with
    | true =>
      rcases ih hd with ⟨m, hm, h1, h2⟩
      exact ⟨m, by omega, h1, h2⟩
    | false => exact ⟨d, by omega, h, hd⟩

/-- more fuel than the depth does not change the expansion -/
theorem expand_stable (st : Store) : ∀ f (sc : Schema), (∀ b ∈ sc.bases, depthOk st f b = true) →
    ∀ f', f ≤ f' → expand st (f' + 1) sc = expand st (f + 1) sc := by
  intro f
  induction f with
  | zero =>
    intro sc h f' _
    have : sc.bases = [] := List.eq_nil_iff_forall_not_mem.mpr (fun b hb => by simpa [depthOk] using h b hb)
    simp [expand_succ, this]
  | succ f ih =>
    intro sc h f' hle
    obtain ⟨f'', rfl⟩ : ∃ f'', f' = f'' + 1 := ⟨f' - 1, by omega⟩
    rw [expand_succ st (f'' + 1), expand_succ st (f + 1)]
    congr 1
    apply flatMap_congr'
    intro b hb
    cases hg : st.get? b with
    | none => rfl
    | some ut =>
      have hb' := h b hb
      rw [depthOk_succ hg, List.all_eq_true] at hb'
      simp only
      rw [ih ut hb' f'' (by omega)]

theorem expand_no_bases (st : Store) (f : Nat) (sc : Schema) (h : sc.bases = []) : expand st f sc = sc.kids := by
  cases f with
  | zero => rfl
  | succ f => simp [expand_succ, h]


/-! ### The invariant of partially processed stores -/

section Main
variable (st0 : Store)

/-- the fully expanded version of a schema of the original store -/
def full (sc : Schema) : Schema := { sc with kids := expand st0 st0.length sc }

/-- the expansion of the type named `b` (empty if undefined) -/
def expOf (b : Nat) : List Prpty :=
  match st0.get? b with
  | some ut => expand st0 st0.length ut
  | none => []

/-- the inherited part for a list of bases -/
def inh (bs : List Nat) : List Prpty := bs.flatMap fun b => (expOf st0 b).map (mark b)

/-- the pure effect of inheriting from the bases `rs` (in processing order) on a property list -/
def unshiftMany : List Nat → List Prpty → Except Err (List Prpty)
  | [], kids => .ok kids
  | b :: rest, kids =>
    match unshiftAll b (expOf st0 b) kids with
    | .error e => .error e
    | .ok k => unshiftMany rest k

/-- every type is either still original or fully expanded -/
def Good (st : Store) : Prop := ∀ n, st.get? n = st0.get? n ∨ st.get? n = (st0.get? n).map (full st0)

/-- the type named `n` is fully expanded (vacuous for undefined names) -/
def Done (st : Store) (n : Nat) : Prop := st.get? n = (st0.get? n).map (full st0)

/-- what the proofs use of well-formedness -/
structure WFS : Prop where
  obj : ∀ n sc, st0.get? n = some sc → sc.isObject = false → sc.bases = []
  bases : ∀ n sc, st0.get? n = some sc → ∀ b ∈ sc.bases, ∃ ut, st0.get? b = some ut ∧ ut.isObject = true
  nbases : ∀ n sc, st0.get? n = some sc → sc.bases.length ≤ st0.length
  acyclic : ∀ n sc, st0.get? n = some sc → depthOk st0 st0.length n = true
  once : ∀ n sc, st0.get? n = some sc → (keys (expand st0 st0.length sc)).Nodup

@[simp] theorem inh_nil : inh st0 [] = [] := rfl
theorem inh_append (l1 l2 : List Nat) : inh st0 (l1 ++ l2) = inh st0 l1 ++ inh st0 l2 := by simp [inh]
theorem inh_single (b : Nat) : inh st0 [b] = (expOf st0 b).map (mark b) := by simp [inh]

theorem mem_inh_marked {bs : List Nat} {p : Prpty} (h : p ∈ inh st0 bs) : ∃ b ∈ bs, p.from_ = some b := by
  unfold inh at h
  rcases List.mem_flatMap.mp h with ⟨b, hb, hp⟩
  rcases List.mem_map.mp hp with ⟨v, _, rfl⟩
  exact ⟨b, hb, rfl⟩

theorem expand_succ_inh (sc : Schema) : expand st0 (st0.length + 1) sc = inh st0 sc.bases ++ sc.kids := by
  rw [expand_succ]
  congr 1
  apply flatMap_congr'
  intro b _
  unfold expOf
  cases st0.get? b <;> rfl

variable {st0}

theorem expand_unfold (h : WFS st0) {n : Nat} {sc0 : Schema} (hg : st0.get? n = some sc0) :
    expand st0 st0.length sc0 = inh st0 sc0.bases ++ sc0.kids := by
  obtain ⟨l, hl⟩ : ∃ l, st0.length = l + 1 := ⟨st0.length - 1, by have := length_pos_of_get? hg; omega⟩
  have hac := h.acyclic n sc0 hg
  rw [hl, depthOk_succ hg, List.all_eq_true] at hac
  have e1 : expand st0 (st0.length + 1) sc0 = expand st0 st0.length sc0 := by
    rw [hl]; exact expand_stable st0 l sc0 hac (l + 1) (by omega)
  rw [← e1, expand_succ_inh]

theorem full_eq (h : WFS st0) {n : Nat} {sc0 : Schema} (hg : st0.get? n = some sc0) :
    full st0 sc0 = { sc0 with kids := inh st0 sc0.bases ++ sc0.kids } := by
  unfold full; rw [expand_unfold h hg]

theorem good_get {st : Store} (hgood : Good st0 st) {b : Nat} {ut0 : Schema} (hg : st0.get? b = some ut0) :
    ∃ ut, st.get? b = some ut ∧ (ut = ut0 ∨ ut = full st0 ut0) := by
  rcases hgood b with h | h
  · exact ⟨ut0, by rw [h, hg], Or.inl rfl⟩
  · exact ⟨full st0 ut0, by rw [h, hg]; rfl, Or.inr rfl⟩

theorem good_none {st : Store} (hgood : Good st0 st) {b : Nat} : st.get? b = none ↔ st0.get? b = none := by
  rcases hgood b with h | h <;> rw [h] <;> simp

theorem good_set {st : Store} (hgood : Good st0 st) {b : Nat} {ut0 : Schema} (hg : st0.get? b = some ut0) :
    Good st0 (st.set b (full st0 ut0)) := by
  intro n
  rw [get?_set]
  by_cases hn : n = b
  · subst hn
    rcases good_get hgood hg with ⟨ut, hut, _⟩
    right; simp [hut, hg]
  · simp only [hn, if_false]; exact hgood n

theorem done_set_self {st : Store} (hgood : Good st0 st) {b : Nat} {ut0 : Schema} (hg : st0.get? b = some ut0) :
    Done st0 (st.set b (full st0 ut0)) b := by
  unfold Done
  rcases good_get hgood hg with ⟨ut, hut, _⟩
  rw [get?_set]; simp [hut, hg]

theorem done_set_other {st : Store} {b n : Nat} (v : Schema) (hn : n ≠ b) (hd : Done st0 st n) :
    Done st0 (st.set b v) n := by
  unfold Done at hd ⊢
  rw [get?_set]; simp only [hn, if_false]; exact hd

theorem done_set {st : Store} (hgood : Good st0 st) {b : Nat} {ut0 : Schema} (hg : st0.get? b = some ut0)
    {n : Nat} (hd : Done st0 st n) : Done st0 (st.set b (full st0 ut0)) n := by
  by_cases hn : n = b
  · subst hn; exact done_set_self hgood hg
  · exact done_set_other _ hn hd

variable (st0)

/-- post-condition shared by `process`, `inheritAll`, `inherit` -/
structure Post (st : Store) (memo : List Nat) (st' : Store) (memo' : List Nat) : Prop where
  good : Good st0 st'
  mono : ∀ n, Done st0 st n → Done st0 st' n
  memo : ∀ n ∈ memo', n ∈ memo ∨ Done st0 st' n
  names : st'.map (·.1) = st.map (·.1)

/-- the memo entries that matter at depth `d` are expanded (deeper ones may be pending) -/
def MemoOK (d : Nat) (st : Store) (memo : List Nat) : Prop :=
  ∀ n ∈ memo, Done st0 st n ∨ depthOk st0 d n = false

def cost (L : Nat) : Nat → Nat
  | 0 => 1
  | d + 1 => cost L d + (L + 2)

variable {st0}

theorem Post.refl {st : Store} {memo : List Nat} (hgood : Good st0 st) : Post st0 st memo st memo :=
  ⟨hgood, fun _ h => h, fun _ h => Or.inl h, rfl⟩

theorem Post.trans {st st1 st2 : Store} {memo memo1 memo2 : List Nat}
    (h1 : Post st0 st memo st1 memo1) (h2 : Post st0 st1 memo1 st2 memo2) : Post st0 st memo st2 memo2 := by
  refine ⟨h2.good, fun n h => h2.mono n (h1.mono n h), ?_, h2.names.trans h1.names⟩
  intro n hn
  rcases h2.memo n hn with h | h
  · rcases h1.memo n h with h' | h'
    · exact Or.inl h'
    · exact Or.inr (h2.mono n h')
  · exact Or.inr h

theorem MemoOK.post {d : Nat} {st st' : Store} {memo memo' : List Nat} (hm : MemoOK st0 d st memo)
    (hp : Post st0 st memo st' memo') : MemoOK st0 d st' memo' := by
  intro n hn
  rcases hp.memo n hn with h | h
  · rcases hm n h with h' | h'
    · exact Or.inl (hp.mono n h')
    · exact Or.inr h'
  · exact Or.inl h

theorem cost_mono (L : Nat) {m d : Nat} (h : m ≤ d) : cost L m ≤ cost L d := by
  induction h with
  | refl => exact Nat.le_refl _
  | step _ ih => simp only [cost]; omega

theorem cost_eq (L d : Nat) : cost L d = d * (L + 2) + 1 := by
  induction d with
  | zero => simp [cost]
  | succ d ih => simp only [cost, ih, Nat.succ_mul]; omega

/-! ### The pure effect on the property list -/

theorem unshiftMany_fresh : ∀ (rs : List Nat) (kids : List Prpty), (keys (inh st0 rs.reverse ++ kids)).Nodup →
    unshiftMany st0 rs kids = .ok (inh st0 rs.reverse ++ kids) := by
  intro rs
  induction rs with
  | nil => intro kids _; simp [unshiftMany]
  | cons b rest ih =>
    intro kids hnd
    rw [List.reverse_cons, inh_append, inh_single, List.append_assoc] at hnd ⊢
    have hnd2 := hnd
    rw [keys_append, List.nodup_append] at hnd2
    have hnd3 := hnd2.2.1
    rw [keys_append, keys_map_mark, List.nodup_append] at hnd3
    have hu := unshiftAll_fresh b (expOf st0 b) kids hnd3.1 (fun k hk hk' => hnd3.2.2 k hk k hk' rfl)
    simp only [unshiftMany, hu]
    exact ih _ hnd

theorem unshiftMany_done : ∀ (rs : List Nat) (kids : List Prpty),
    (∀ b ∈ rs, ∀ v ∈ expOf st0 b, ∃ p, kids.find? (·.key == v.key) = some p ∧ p.from_.isSome = true) →
    unshiftMany st0 rs kids = .ok kids := by
  intro rs
  induction rs with
  | nil => intro kids _; rfl
  | cons b rest ih =>
    intro kids h
    have hu := unshiftAll_done b (expOf st0 b) kids (h b (by simp))
    simp only [unshiftMany, hu]
    exact ih kids (fun b' hb' => h b' (by simp [hb']))

theorem done_state (bs : List Nat) (own : List Prpty) :
    ∀ b ∈ bs, ∀ v ∈ expOf st0 b,
      ∃ p, (inh st0 bs ++ own).find? (·.key == v.key) = some p ∧ p.from_.isSome = true := by
  intro b hb v hv
  have hmem : mark b v ∈ inh st0 bs :=
    List.mem_flatMap.mpr ⟨b, hb, List.mem_map.mpr ⟨v, hv, rfl⟩⟩
  rcases find?_append_left_mem (·.key == v.key) (inh st0 bs) own (mark b v) hmem (by simp [mark]) with ⟨p, hp, hpm⟩
  rcases mem_inh_marked st0 hpm with ⟨b', _, hb'⟩
  exact ⟨p, hp, by simp [hb']⟩

/-! ### The main induction -/

variable (st0)

/-- `process` on an object schema whose bases are in the store, at depth `d`: from the original own properties
    (fresh) or from the already expanded list (re-processing) the result is the expansion -/
def MainStmt (d : Nat) : Prop :=
  ∀ (fuel : Nat) (st : Store) (memo : List Nat) (sc : Schema) (own : List Prpty),
    Good st0 st → MemoOK st0 d st memo → sc.isObject = true →
    (∀ b ∈ sc.bases, depthOk st0 d b = true ∧ ∃ ut, st0.get? b = some ut ∧ ut.isObject = true) →
    sc.bases.length ≤ st0.length → cost st0.length d ≤ fuel →
    ((sc.kids = own ∧ (keys (inh st0 sc.bases ++ own)).Nodup) ∨ sc.kids = inh st0 sc.bases ++ own) →
    ∃ st' memo', process fuel st memo sc = .ok (st', memo', { sc with kids := inh st0 sc.bases ++ own }) ∧
      Post st0 st memo st' memo'

variable {st0}

theorem inherit_step (h : WFS st0) (d : Nat) (ih : ∀ m, m ≤ d → MainStmt st0 m)
    (fuel : Nat) (st : Store) (memo : List Nat) (b : Nat) (ut0 : Schema)
    (hgood : Good st0 st) (hmemo : MemoOK st0 (d + 1) st memo)
    (hb : depthOk st0 (d + 1) b = true) (hg : st0.get? b = some ut0) (hobj : ut0.isObject = true)
    (hfuel : cost st0.length d + 1 ≤ fuel) :
    ∃ st' memo', Post st0 st memo st' memo' ∧
      ∀ sc, inherit fuel st memo sc b =
        match unshiftAll b (expOf st0 b) sc.kids with
        | .error e => .error e
        | .ok k => .ok (st', memo', { sc with kids := k }) := by
  obtain ⟨f, rfl⟩ : ∃ f, fuel = f + 1 := ⟨fuel - 1, by omega⟩
  rcases good_get hgood hg with ⟨ut, hut, hcase⟩
  have hutobj : ut.isObject = true := by rcases hcase with rfl | rfl <;> simp [full, hobj]
  have hexp : expOf st0 b = expand st0 st0.length ut0 := by simp [expOf, hg]
  by_cases hm : b ∈ memo
  · have hdone : Done st0 st b := (hmemo b hm).resolve_right (by simp [hb])
    have hfull : ut = full st0 ut0 := by
      unfold Done at hdone; rw [hut, hg] at hdone; simpa using hdone
    refine ⟨st, memo, Post.refl hgood, ?_⟩
    intro sc
    rw [inherit]
    cases hu : unshiftAll b (expOf st0 b) sc.kids <;> rw [hexp] at hu <;>
      simp [hut, hobj, hm, hfull, full, hu]
  · rcases depthOk_min st0 b (d + 1) hb with ⟨m, hmlt, hm1, hm0⟩
    have hbases : ∀ b' ∈ ut0.bases, depthOk st0 m b' = true := by
      rw [depthOk_succ hg, List.all_eq_true] at hm1; exact hm1
    have hutb : ut.bases = ut0.bases := by rcases hcase with rfl | rfl <;> rfl
    have hmemo' : MemoOK st0 m st (b :: memo) := by
      intro n hn
      rcases List.mem_cons.mp hn with rfl | hn
      · exact Or.inr hm0
      · rcases hmemo n hn with h' | h'
        · exact Or.inl h'
        · right
          cases hd : depthOk st0 m n with
          | false => rfl
          | true => rw [depthOk_mono st0 (by omega) n hd] at h'; exact absurd h' (by simp)
    have hstate : (ut.kids = ut0.kids ∧ (keys (inh st0 ut.bases ++ ut0.kids)).Nodup) ∨
        ut.kids = inh st0 ut.bases ++ ut0.kids := by
      rcases hcase with rfl | rfl
      · left; refine ⟨rfl, ?_⟩
        rw [← expand_unfold h hg]; exact h.once b _ hg
      · right; show expand st0 st0.length ut0 = _
        exact expand_unfold h hg
    rcases ih m (by omega) f st (b :: memo) ut ut0.kids hgood hmemo' hutobj
      (by rw [hutb]; exact fun b' hb' => ⟨hbases b' hb', h.bases b ut0 hg b' hb'⟩)
      (by rw [hutb]; exact h.nbases b ut0 hg)
      (by have := cost_mono st0.length (show m ≤ d by omega); omega)
      hstate with ⟨st1, memo1, hproc, hpost⟩
    have hres : ({ ut with kids := inh st0 ut.bases ++ ut0.kids } : Schema) = full st0 ut0 := by
      rw [full_eq h hg]; rcases hcase with rfl | rfl <;> rfl
    rw [hres] at hproc
    refine ⟨st1.set b (full st0 ut0), memo1,
      ⟨good_set hpost.good hg, ?_, ?_, (set_names _ _ _).trans hpost.names⟩, ?_⟩
    · exact fun n hn => done_set hpost.good hg (hpost.mono n hn)
    · intro n hn
      rcases hpost.memo n hn with h' | h'
      · rcases List.mem_cons.mp h' with rfl | h''
        · exact Or.inr (done_set_self hpost.good hg)
        · exact Or.inl h''
      · exact Or.inr (done_set hpost.good hg h')
    · intro sc
      rw [inherit]
      cases hu : unshiftAll b (expOf st0 b) sc.kids <;> rw [hexp] at hu <;>
        simp [hut, hutobj, hm, hproc, full, hu]

theorem inheritAll_run (h : WFS st0) (d : Nat) (ih : ∀ m, m ≤ d → MainStmt st0 m) (rs2 : List Nat) :
    ∀ (rs1 : List Nat) (fuel : Nat) (st : Store) (memo : List Nat) (sc : Schema),
      Good st0 st → MemoOK st0 (d + 1) st memo →
      (∀ b ∈ rs1, depthOk st0 (d + 1) b = true ∧ ∃ ut, st0.get? b = some ut ∧ ut.isObject = true) →
      cost st0.length d + 1 + rs1.length ≤ fuel →
      ∃ st' memo', Post st0 st memo st' memo' ∧
        inheritAll fuel st memo sc (rs1 ++ rs2) =
          match unshiftMany st0 rs1 sc.kids with
          | .error e => .error e
          | .ok k => inheritAll (fuel - rs1.length) st' memo' { sc with kids := k } rs2 := by
  intro rs1
  induction rs1 with
  | nil =>
    intro fuel st memo sc hgood _ _ _
    exact ⟨st, memo, Post.refl hgood, by simp [unshiftMany]⟩
  | cons b rest ihl =>
    intro fuel st memo sc hgood hmemo hbs hfuel
    obtain ⟨f, rfl⟩ : ∃ f, fuel = f + 1 := ⟨fuel - 1, by simp at hfuel; omega⟩
    simp only [List.length_cons] at hfuel
    rcases (hbs b (by simp)).2 with ⟨ut0, hg, hobj⟩
    rcases inherit_step h d ih f st memo b ut0 hgood hmemo (hbs b (by simp)).1 hg hobj (by omega)
      with ⟨st1, memo1, hpost1, hinh⟩
    rw [List.cons_append, inheritAll, hinh sc]
    cases hu : unshiftAll b (expOf st0 b) sc.kids with
    | error e => exact ⟨st1, memo1, hpost1, by simp [unshiftMany, hu]⟩
    | ok k =>
      rcases ihl f st1 memo1 { sc with kids := k } hpost1.good (hmemo.post hpost1)
        (fun b' hb' => hbs b' (by simp [hb'])) (by omega) with ⟨st2, memo2, hpost2, hrun⟩
      refine ⟨st2, memo2, hpost1.trans hpost2, ?_⟩
      simp only [unshiftMany, hu, hrun, List.length_cons, Nat.add_sub_add_right]

theorem main (h : WFS st0) : ∀ d, MainStmt st0 d := by
  intro d
  induction d using Nat.strongRecOn with
  | _ d ih =>
    intro fuel st memo sc own hgood hmemo hobj hbases hlen hfuel hstate
    cases d with
    | zero =>
      have hnil : sc.bases = [] :=
        List.eq_nil_iff_forall_not_mem.mpr (fun b hb => by simpa [depthOk] using (hbases b hb).1)
      obtain ⟨f, rfl⟩ : ∃ f, fuel = f + 1 := ⟨fuel - 1, by simp [cost] at hfuel; omega⟩
      have hk : sc.kids = inh st0 sc.bases ++ own := by
        rcases hstate with h' | h'
        · simp [hnil, h'.1]
        · exact h'
      refine ⟨st, memo, ?_, Post.refl hgood⟩
      have hp : process (f + 1) st memo sc = .ok (st, memo, sc) := by
        rw [process]; simp [hobj, hnil, inheritAll]
      rw [hp, ← hk]
    | succ d =>
      obtain ⟨f, rfl⟩ : ∃ f, fuel = f + 1 := ⟨fuel - 1, by simp [cost] at hfuel; omega⟩
      simp only [cost] at hfuel
      rcases inheritAll_run h d (fun m hm => ih m (by omega)) [] sc.bases.reverse f st memo sc hgood hmemo
        (fun b hb => hbases b (by simpa using hb)) (by simp; omega) with ⟨st', memo', hpost, hrun⟩
      have hpure : unshiftMany st0 sc.bases.reverse sc.kids = .ok (inh st0 sc.bases ++ own) := by
        rcases hstate with ⟨hk, hnd⟩ | hk
        · have := unshiftMany_fresh (st0 := st0) sc.bases.reverse sc.kids (by simpa [hk] using hnd)
          simpa [hk] using this
        · have := unshiftMany_done (st0 := st0) sc.bases.reverse sc.kids
            (by rw [hk]; exact fun b hb => done_state sc.bases own b (by simpa using hb))
          rw [this, hk]
      refine ⟨st', memo', ?_, hpost⟩
      have hp : process (f + 1) st memo sc = inheritAll f st memo sc sc.bases.reverse := by
        rw [process]; simp [hobj]
      rw [hp, ← List.append_nil sc.bases.reverse, hrun, hpure]
      simp [inheritAll]


/-! ### Top level: store types, outside schemas, `processStore` -/

theorem wfs_depth (h : WFS st0) {b : Nat} {ut : Schema} (hg : st0.get? b = some ut) (d : Nat)
    (hd : st0.length ≤ d) : depthOk st0 d b = true :=
  depthOk_mono st0 hd b (h.acyclic b ut hg)

theorem memoOK_of_done {st : Store} {memo : List Nat} (hm : ∀ n ∈ memo, Done st0 st n) (d : Nat) :
    MemoOK st0 d st memo := fun n hn => Or.inl (hm n hn)

theorem done_of_post {st st' : Store} {memo memo' : List Nat} (hm : ∀ n ∈ memo, Done st0 st n)
    (hp : Post st0 st memo st' memo') : ∀ n ∈ memo', Done st0 st' n := by
  intro n hn
  rcases hp.memo n hn with h | h
  · exact hp.mono n (hm n h)
  · exact h

/-- (re-)processing a type of the store, whatever its state: the result is its expansion -/
theorem process_store_type (h : WFS st0) (fuel : Nat) (st : Store) (memo : List Nat) (n : Nat) (sc0 sc : Schema)
    (hgood : Good st0 st) (hmemo : ∀ n ∈ memo, Done st0 st n)
    (hg0 : st0.get? n = some sc0) (hg : st.get? n = some sc) (hfuel : cost st0.length st0.length ≤ fuel) :
    ∃ st' memo', process fuel st memo sc = .ok (st', memo', full st0 sc0) ∧ Post st0 st memo st' memo' := by
  rcases good_get hgood hg0 with ⟨ut, hut, hcase⟩
  rw [hg] at hut
  have hsc : sc = ut := by injection hut
  subst hsc
  by_cases hobj : sc0.isObject = true
  · have hscobj : sc.isObject = true := by rcases hcase with rfl | rfl <;> simp [full, hobj]
    have hscb : sc.bases = sc0.bases := by rcases hcase with rfl | rfl <;> rfl
    have hstate : (sc.kids = sc0.kids ∧ (keys (inh st0 sc.bases ++ sc0.kids)).Nodup) ∨
        sc.kids = inh st0 sc.bases ++ sc0.kids := by
      rcases hcase with rfl | rfl
      · left; refine ⟨rfl, ?_⟩
        rw [← expand_unfold h hg0]; exact h.once n _ hg0
      · right; show expand st0 st0.length sc0 = _
        exact expand_unfold h hg0
    rcases main h st0.length fuel st memo sc sc0.kids hgood (memoOK_of_done hmemo _) hscobj
      (by rw [hscb]; intro b hb
          rcases h.bases n sc0 hg0 b hb with ⟨ut, hu, ho⟩
          exact ⟨wfs_depth h hu _ (Nat.le_refl _), ut, hu, ho⟩)
      (by rw [hscb]; exact h.nbases n sc0 hg0) hfuel hstate with ⟨st', memo', hproc, hpost⟩
    have hres : ({ sc with kids := inh st0 sc.bases ++ sc0.kids } : Schema) = full st0 sc0 := by
      rw [full_eq h hg0]; rcases hcase with rfl | rfl <;> rfl
    rw [hres] at hproc
    exact ⟨st', memo', hproc, hpost⟩
  · have hobj' : sc0.isObject = false := by simpa using hobj
    have hnil := h.obj n sc0 hg0 hobj'
    have hfull : full st0 sc0 = sc0 := by
      unfold full; rw [expand_no_bases st0 _ sc0 hnil]
    have hsc : sc = sc0 := by rcases hcase with rfl | rfl <;> simp [hfull]
    subst hsc
    obtain ⟨f, rfl⟩ : ∃ f, fuel = f + 1 :=
      ⟨fuel - 1, by have := cost_eq st0.length st0.length; omega⟩
    refine ⟨st, memo, ?_, Post.refl hgood⟩
    rw [process, hfull]; simp [hobj']

/-- a schema outside the store that names bases of the store -/
theorem process_ext (h : WFS st0) (fuel : Nat) (st : Store) (memo : List Nat) (sc : Schema)
    (hgood : Good st0 st) (hmemo : ∀ n ∈ memo, Done st0 st n) (hobj : sc.isObject = true)
    (hbases : ∀ b ∈ sc.bases, ∃ ut, st0.get? b = some ut ∧ ut.isObject = true)
    (hlen : sc.bases.length ≤ st0.length)
    (hnd : (keys (expand st0 (st0.length + 1) sc)).Nodup)
    (hfuel : cost st0.length st0.length ≤ fuel) :
    ∃ st' memo', process fuel st memo sc = .ok (st', memo', { sc with kids := expand st0 (st0.length + 1) sc }) ∧
      Post st0 st memo st' memo' := by
  rw [expand_succ_inh] at hnd ⊢
  exact main h st0.length fuel st memo sc sc.kids hgood (memoOK_of_done hmemo _) hobj
    (fun b hb => by
      rcases hbases b hb with ⟨ut, hu, ho⟩
      exact ⟨wfs_depth h hu _ (Nat.le_refl _), ut, hu, ho⟩)
    hlen hfuel (Or.inl ⟨rfl, hnd⟩)

theorem processStore_run (h : WFS st0) (fuel : Nat) (hfuel : cost st0.length st0.length ≤ fuel) :
    ∀ (order : List Nat) (st : Store) (memo : List Nat), Good st0 st → (∀ n ∈ memo, Done st0 st n) →
    ∃ st' memo', processStore fuel order st memo = .ok (st', memo') ∧ Post st0 st memo st' memo' ∧
      (∀ n ∈ memo', Done st0 st' n) ∧ ∀ n ∈ order, Done st0 st' n := by
  intro order
  induction order with
  | nil =>
    intro st memo hgood hmemo
    exact ⟨st, memo, rfl, Post.refl hgood, hmemo, by simp⟩
  | cons n rest ih =>
    intro st memo hgood hmemo
    cases hg : st.get? n with
    | none =>
      rcases ih st memo hgood hmemo with ⟨st', memo', hrun, hpost, hm', hall⟩
      refine ⟨st', memo', by simp [processStore, hg, hrun], hpost, hm', ?_⟩
      intro n' hn'
      rcases List.mem_cons.mp hn' with rfl | hn'
      · have h0 : st0.get? n' = none := (good_none hgood).mp hg
        unfold Done
        rw [h0, (good_none hpost.good).mpr h0]; rfl
      · exact hall n' hn'
    | some sc =>
      cases hg0 : st0.get? n with
      | none => rw [(good_none hgood).mpr hg0] at hg; cases hg
      | some sc0 =>
        rcases process_store_type h fuel st memo n sc0 sc hgood hmemo hg0 hg hfuel with ⟨st1, memo1, hproc, hpost1⟩
        have hpost1' : Post st0 st memo (st1.set n (full st0 sc0)) memo1 := by
          refine ⟨good_set hpost1.good hg0, fun m hm => done_set hpost1.good hg0 (hpost1.mono m hm), ?_,
            (set_names _ _ _).trans hpost1.names⟩
          intro m hm
          rcases hpost1.memo m hm with h' | h'
          · exact Or.inl h'
          · exact Or.inr (done_set hpost1.good hg0 h')
        rcases ih (st1.set n (full st0 sc0)) memo1 hpost1'.good (done_of_post hmemo hpost1')
          with ⟨st', memo', hrun, hpost, hm', hall⟩
        refine ⟨st', memo', by simp [processStore, hg, hproc, hrun], hpost1'.trans hpost, hm', ?_⟩
        intro n' hn'
        rcases List.mem_cons.mp hn' with rfl | hn'
        · exact hpost.mono _ (done_set_self hpost1.good hg0)
        · exact hall n' hn'

/-! ### Rejections: the bases written after `b` are inherited, then `b` is looked at -/

theorem process_upto (h : WFS st0) (fuel : Nat) (st : Store) (memo : List Nat) (sc : Schema)
    (pre : List Nat) (b : Nat) (post : List Nat)
    (hgood : Good st0 st) (hmemo : ∀ n ∈ memo, Done st0 st n) (hobj : sc.isObject = true)
    (hb : sc.bases = pre ++ b :: post)
    (hpost : ∀ b' ∈ post, ∃ ut, st0.get? b' = some ut ∧ ut.isObject = true)
    (hnd : (keys (inh st0 post ++ sc.kids)).Nodup)
    (hfuel : cost st0.length st0.length + post.length + 4 ≤ fuel) :
    ∃ st' memo' f', Post st0 st memo st' memo' ∧ cost st0.length st0.length + 2 ≤ f' ∧
      process fuel st memo sc =
        inheritAll f' st' memo' { sc with kids := inh st0 post ++ sc.kids } (b :: pre.reverse) := by
  obtain ⟨f, rfl⟩ : ∃ f, fuel = f + 1 := ⟨fuel - 1, by omega⟩
  have hp : process (f + 1) st memo sc = inheritAll f st memo sc sc.bases.reverse := by
    rw [process]; simp [hobj]
  have hrev : sc.bases.reverse = post.reverse ++ (b :: pre.reverse) := by simp [hb]
  rcases inheritAll_run h st0.length (fun m _ => main h m) (b :: pre.reverse) post.reverse f st memo sc hgood
    (memoOK_of_done hmemo _)
    (fun b' hb' => by
      rcases hpost b' (by simpa using hb') with ⟨ut, hu, ho⟩
      exact ⟨wfs_depth h hu _ (by omega), ut, hu, ho⟩)
    (by simp; omega) with ⟨st', memo', hpost', hrun⟩
  have hpure := unshiftMany_fresh (st0 := st0) post.reverse sc.kids (by simpa using hnd)
  simp only [List.reverse_reverse] at hpure
  refine ⟨st', memo', f - post.reverse.length, hpost', by simp; omega, ?_⟩
  rw [hp, hrev, hrun, hpure]

theorem inheritAll_notFound (st : Store) (memo : List Nat) (sc : Schema) (b : Nat) (rest : List Nat) (f : Nat)
    (hf : 2 ≤ f) (hg : st.get? b = none) : inheritAll f st memo sc (b :: rest) = .error (.notFound b) := by
  obtain ⟨f, rfl⟩ : ∃ f', f = f' + 2 := ⟨f - 2, by omega⟩
  rw [inheritAll, inherit]; simp [hg]

theorem inheritAll_notObject (st : Store) (memo : List Nat) (sc : Schema) (b : Nat) (rest : List Nat) (f : Nat)
    (ut : Schema) (hf : 2 ≤ f) (hg : st.get? b = some ut) (ho : ut.isObject = false) :
    inheritAll f st memo sc (b :: rest) = .error (.notObject b) := by
  obtain ⟨f, rfl⟩ : ∃ f', f = f' + 2 := ⟨f - 2, by omega⟩
  rw [inheritAll, inherit]; simp [hg, ho]

theorem inheritAll_override (h : WFS st0) (st : Store) (memo : List Nat) (sc : Schema) (b : Nat) (rest : List Nat)
    (f : Nat) (ut0 : Schema) (v p : Prpty)
    (hgood : Good st0 st) (hmemo : ∀ n ∈ memo, Done st0 st n)
    (hf : cost st0.length st0.length + 2 ≤ f) (hg : st0.get? b = some ut0) (ho : ut0.isObject = true)
    (hv : v ∈ expand st0 st0.length ut0) (hfind : sc.kids.find? (·.key == v.key) = some p) (hp : p.from_ = none) :
    ∃ k, inheritAll f st memo sc (b :: rest) = .error (.override k b) ∧ k ∈ keys (expand st0 st0.length ut0) ∧
      ∃ p, sc.kids.find? (·.key == k) = some p ∧ p.from_ = none := by
  obtain ⟨f, rfl⟩ : ∃ f', f = f' + 1 := ⟨f - 1, by omega⟩
  rcases inherit_step h st0.length (fun m _ => main h m) f st memo b ut0 hgood (memoOK_of_done hmemo _)
    (wfs_depth h hg _ (by omega)) hg ho (by omega) with ⟨st', memo', _, hinh⟩
  have hexp : expOf st0 b = expand st0 st0.length ut0 := by simp [expOf, hg]
  rcases unshiftAll_clash b (expOf st0 b) sc.kids v p (by rw [hexp]; exact hv) hfind hp with ⟨k, hk, hkv, hkp⟩
  refine ⟨k, ?_, by rw [← hexp]; exact hkv, hkp⟩
  rw [inheritAll, hinh sc, hk]

end Main

/-! ### From the plain conditions to `WFS`: lineages and keys -/

theorem lineage_self (st : Store) (f n : Nat) : n ∈ lineage st f n := by
  cases f <;> simp [lineage]

theorem lineage_none {st : Store} {b : Nat} (hg : st.get? b = none) (f : Nat) : lineage st f b = [b] := by
  cases f <;> simp [lineage, hg]

theorem lineage_succ {st : Store} {n : Nat} {sc : Schema} (hg : st.get? n = some sc) (f : Nat) :
    lineage st (f + 1) n = sc.bases.flatMap (lineage st f) ++ [n] := by
  simp [lineage, hg]

theorem ownKeys_none {st : Store} {b : Nat} (hg : st.get? b = none) : ownKeys st b = [] := by
  simp [ownKeys, hg]

theorem ownKeys_some {st : Store} {b : Nat} {sc : Schema} (hg : st.get? b = some sc) :
    ownKeys st b = keys sc.kids := by
  simp [ownKeys, hg]

/-- the keys of an expansion are the own keys along the lineage -/
theorem keys_expand (st : Store) : ∀ (f n : Nat) (sc : Schema), st.get? n = some sc →
    keys (expand st f sc) = (lineage st f n).flatMap (ownKeys st) := by
  intro f
  induction f with
  | zero => intro n sc hg; simp [expand, lineage, ownKeys_some hg]
  | succ f ih =>
    intro n sc hg
    rw [expand_succ, lineage_succ hg, keys_append, List.flatMap_append, List.flatMap_assoc]
    simp only [List.flatMap_cons, List.flatMap_nil, List.append_nil, ownKeys_some hg]
    congr 1
    unfold keys
    rw [List.map_flatMap]
    apply flatMap_congr'
    intro b _
    cases hb : st.get? b with
    | none => simp [lineage_none hb, ownKeys_none hb]
    | some ut =>
      have := ih b ut hb
      simp only [keys] at this
      simp [← this, mark, Function.comp_def]

theorem keys_expOf (st : Store) (b : Nat) :
    keys (expOf st b) = (lineage st st.length b).flatMap (ownKeys st) := by
  unfold expOf
  cases hb : st.get? b with
  | none => simp [lineage_none hb, ownKeys_none hb]
  | some ut => exact keys_expand st _ b ut hb

theorem keys_inh (st : Store) (bs : List Nat) :
    keys (inh st bs) = (bs.flatMap (lineage st st.length)).flatMap (ownKeys st) := by
  unfold inh keys
  rw [List.map_flatMap, List.flatMap_assoc]
  apply flatMap_congr'
  intro b _
  have := keys_expOf st b
  simp only [keys] at this
  simp [← this, mark, Function.comp_def]

theorem flatMap_nodup_each {α β} (g : α → List β) : ∀ (l : List α), (l.flatMap g).Nodup → ∀ p ∈ l, (g p).Nodup := by
  intro l
  induction l with
  | nil => intro _ p hp; simp at hp
  | cons a l ih =>
    intro h p hp
    rw [List.flatMap_cons, List.nodup_append] at h
    rcases List.mem_cons.mp hp with rfl | hp
    · exact h.1
    · exact ih h.2.1 p hp

theorem flatMap_nodup_owner {α β} (g : α → List β) : ∀ (l : List α), (l.flatMap g).Nodup →
    ∀ p ∈ l, ∀ q ∈ l, ∀ k, k ∈ g p → k ∈ g q → p = q := by
  intro l
  induction l with
  | nil => intro _ p hp; simp at hp
  | cons a l ih =>
    intro h p hp q hq k hkp hkq
    rw [List.flatMap_cons, List.nodup_append] at h
    rcases List.mem_cons.mp hp with hpa | hpl
    · rcases List.mem_cons.mp hq with hqa | hql
      · rw [hpa, hqa]
      · rw [hpa] at hkp
        exact absurd rfl (h.2.2 k hkp k (List.mem_flatMap.mpr ⟨q, hql, hkq⟩))
    · rcases List.mem_cons.mp hq with hqa | hql
      · rw [hqa] at hkq
        exact absurd rfl (h.2.2 k hkq k (List.mem_flatMap.mpr ⟨p, hpl, hkp⟩))
      · exact ih h.2.1 p hpl q hql k hkp hkq

/-- a duplicate-free list of type names has duplicate-free keys, if keys are unique across the store -/
theorem nodup_flatMap_ownKeys (st : Store) (hk : (st.flatMap fun p => keys p.2.kids).Nodup) :
    ∀ (l : List Nat), l.Nodup → (l.flatMap (ownKeys st)).Nodup := by
  intro l
  induction l with
  | nil => intro _; simp
  | cons a l ih =>
    intro hnd
    rw [List.nodup_cons] at hnd
    rw [List.flatMap_cons, List.nodup_append]
    refine ⟨?_, ih hnd.2, ?_⟩
    · cases ha : st.get? a with
      | none => simp [ownKeys_none ha]
      | some sc =>
        rw [ownKeys_some ha]
        exact flatMap_nodup_each (fun p : Nat × Schema => keys p.2.kids) st hk (a, sc) (get?_mem ha)
    · intro k hka k' hkl hkk
      subst hkk
      rcases List.mem_flatMap.mp hkl with ⟨a', ha', hka'⟩
      cases ha : st.get? a with
      | none => simp [ownKeys_none ha] at hka
      | some sc =>
        cases hb : st.get? a' with
        | none => simp [ownKeys_none hb] at hka'
        | some sc' =>
          rw [ownKeys_some ha] at hka
          rw [ownKeys_some hb] at hka'
          have := flatMap_nodup_owner (fun p : Nat × Schema => keys p.2.kids) st hk (a, sc) (get?_mem ha)
            (a', sc') (get?_mem hb) k hka hka'
          have haa : a = a' := congrArg Prod.fst this
          subst haa
          exact hnd.1 ha'

theorem mem_ownKeys_store {st : Store} {a k : Nat} (h : k ∈ ownKeys st a) :
    k ∈ st.flatMap fun p => keys p.2.kids := by
  cases ha : st.get? a with
  | none => simp [ownKeys_none ha] at h
  | some sc =>
    rw [ownKeys_some ha] at h
    exact List.mem_flatMap.mpr ⟨(a, sc), get?_mem ha, h⟩

/-- bases are pairwise different when the lineages are disjoint -/
theorem nodup_of_flatMap_lineage (st : Store) (f : Nat) : ∀ (bs : List Nat),
    (bs.flatMap (lineage st f)).Nodup → bs.Nodup := by
  intro bs
  induction bs with
  | nil => intro _; simp
  | cons a l ih =>
    intro h
    rw [List.flatMap_cons, List.nodup_append] at h
    rw [List.nodup_cons]
    refine ⟨?_, ih h.2.1⟩
    intro ha
    exact h.2.2 a (lineage_self st f a) a (List.mem_flatMap.mpr ⟨a, ha, lineage_self st f a⟩) rfl

end JSight.C12
