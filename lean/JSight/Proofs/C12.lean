import JSight.Model.AllOf
/-!
C12 — allOf inheritance: definitions used by the well-formedness predicate (`depthOk`, `lineage`) and helper
lemmas (core Lean only).  The property theorems are in `JSight/Props/C12.lean`.
-/
namespace JSight.C12
open JSight.AllOf

/-! ### Definitions -/

/-- the inherited copy of a property: same key, marked with the direct base -/
def mark (b : Nat) (p : Prpty) : Prpty := { key := p.key, from_ := some b }

/-- the property keys of a property list, in order -/
def keys (l : List Prpty) : List Nat := l.map (·.key)

/-- `depthOk st f n`: every allOf chain that starts at `n` ends within `f` steps (false when the fuel runs out:
    with `f = st.length` this holds for every type iff the allOf graph is acyclic) -/
def depthOk (st : Store) : Nat → Nat → Bool
  | 0, _ => false
  | f + 1, n =>
    match st.get? n with
    | some sc => sc.bases.all (depthOk st f)
    | none => true

/-- `lineage st f n`: the types that contribute properties to `n`, in expansion order — the lineages of the bases in
    written order, then `n` itself.  A type occurs twice iff it is reachable along two different paths. -/
def lineage (st : Store) : Nat → Nat → List Nat
  | 0, n => [n]
  | f + 1, n =>
    (match st.get? n with
     | some sc => sc.bases.flatMap (lineage st f)
     | none => []) ++ [n]

/-- own keys of the type named `n` -/
def ownKeys (st : Store) (n : Nat) : List Nat :=
  match st.get? n with
  | some sc => keys sc.kids
  | none => []

/-! ### Lists -/

theorem flatMap_congr' {α β} {l : List α} {f g : α → List β} (h : ∀ x ∈ l, f x = g x) :
    l.flatMap f = l.flatMap g := by
  induction l with
  | nil => rfl
  | cons a l ih =>
    simp only [List.flatMap_cons]
    rw [h a (by simp), ih (fun x hx => h x (by simp [hx]))]

/-- pigeonhole: a duplicate-free list inside `m` is not longer than `m` -/
theorem nodup_length_le : ∀ (l m : List Nat), l.Nodup → (∀ x ∈ l, x ∈ m) → l.length ≤ m.length := by
  intro l
  induction l with
  | nil => intro m _ _; simp
  | cons x l ih =>
    intro m hnd hsub
    have hx : x ∈ m := hsub x (by simp)
    have hnd' := List.nodup_cons.mp hnd
    have h1 : l.length ≤ (m.erase x).length := by
      apply ih _ hnd'.2
      intro y hy
      have hne : y ≠ x := by
        intro h; subst h; exact hnd'.1 hy
      exact (List.mem_erase_of_ne hne).mpr (hsub y (by simp [hy]))
    rw [List.length_erase_of_mem hx] at h1
    have : 0 < m.length := List.length_pos_of_mem hx
    simp only [List.length_cons]
    omega

theorem find?_append_left_mem {α} (p : α → Bool) (l1 l2 : List α) (x : α) (hx : x ∈ l1) (hp : p x = true) :
    ∃ y, (l1 ++ l2).find? p = some y ∧ y ∈ l1 := by
  rw [List.find?_append]
  cases h : l1.find? p with
  | none =>
    have := List.find?_eq_none.mp h x hx
    simp [hp] at this
  | some y => exact ⟨y, by simp, List.mem_of_find?_eq_some h⟩

/-! ### Store access -/

theorem get?_cons (a : Nat) (sc : Schema) (s : Store) (m : Nat) :
    Store.get? ((a, sc) :: s) m = if a = m then some sc else Store.get? s m := by
  simp only [Store.get?, List.find?_cons]
  by_cases h : a = m
  · simp [h]
  · have hb : (a == m) = false := by simp [h]
    simp [h, hb]

theorem set_cons (a : Nat) (sc : Schema) (s : Store) (n : Nat) (v : Schema) :
    Store.set ((a, sc) :: s) n v = (if a = n then (n, v) else (a, sc)) :: Store.set s n v := by
  simp [Store.set]

theorem get?_nil (m : Nat) : Store.get? [] m = none := rfl

theorem get?_set (s : Store) (n m : Nat) (v : Schema) :
    (s.set n v).get? m = if m = n then (s.get? n).map (fun _ => v) else s.get? m := by
  induction s with
  | nil => simp [Store.set, get?_nil]
  | cons p s ih =>
    obtain ⟨a, sc⟩ := p
    rw [set_cons, get?_cons a sc s m, get?_cons a sc s n]
    by_cases han : a = n
    · subst han
      simp only [if_true]
      rw [get?_cons]
      by_cases hm : a = m
      · subst hm; simp
      · have : ¬ m = a := fun h => hm h.symm
        simp only [hm, this, if_false, ih]
    · simp only [han, if_false]
      rw [get?_cons, ih]
      by_cases hm : a = m
      · have : ¬ m = n := fun h => han (hm.trans h)
        simp [hm, this]
      · simp [hm]

theorem get?_mem {s : Store} {n : Nat} {sc : Schema} (h : s.get? n = some sc) : (n, sc) ∈ s := by
  unfold Store.get? at h
  cases hf : s.find? (·.1 == n) with
  | none => simp [hf] at h
  | some p =>
    simp [hf] at h
    have h1 := List.mem_of_find?_eq_some hf
    have h2 := List.find?_some hf
    simp at h2
    subst h h2
    exact h1

theorem mem_get? {s : Store} {p : Nat × Schema} (h : p ∈ s) : ∃ sc, s.get? p.1 = some sc := by
  unfold Store.get?
  cases hf : s.find? (·.1 == p.1) with
  | none =>
    have := List.find?_eq_none.mp hf p h
    simp at this
  | some q => exact ⟨q.2, rfl⟩

theorem get?_name {s : Store} {n : Nat} {sc : Schema} (h : s.get? n = some sc) : n ∈ s.map (·.1) :=
  List.mem_map.mpr ⟨(n, sc), get?_mem h, rfl⟩

theorem name_get? {s : Store} {n : Nat} (h : n ∈ s.map (·.1)) : ∃ sc, s.get? n = some sc := by
  rcases List.mem_map.mp h with ⟨p, hp, rfl⟩
  exact mem_get? hp

theorem length_pos_of_get? {s : Store} {n : Nat} {sc : Schema} (h : s.get? n = some sc) : 0 < s.length :=
  List.length_pos_of_mem (get?_mem h)


/-! ### `unshiftAll` -/

@[simp] theorem keys_nil : keys [] = [] := rfl
@[simp] theorem keys_cons (p : Prpty) (l : List Prpty) : keys (p :: l) = p.key :: keys l := rfl
@[simp] theorem keys_append (l1 l2 : List Prpty) : keys (l1 ++ l2) = keys l1 ++ keys l2 := by simp [keys]
@[simp] theorem keys_map_mark (b : Nat) (l : List Prpty) : keys (l.map (mark b)) = keys l := by
  simp [keys, mark, Function.comp_def]
theorem mem_keys {k : Nat} {l : List Prpty} : k ∈ keys l ↔ ∃ p ∈ l, p.key = k := by simp [keys]

theorem find?_key_none {l : List Prpty} {k : Nat} (h : k ∉ keys l) : l.find? (·.key == k) = none := by
  apply List.find?_eq_none.mpr
  intro x hx hk
  exact h (mem_keys.mpr ⟨x, hx, by simpa using hk⟩)

/-- fresh inheritance: no key of the base occurs yet — all properties are put in front, marked, in order -/
theorem unshiftAll_fresh (b : Nat) : ∀ (vs kids : List Prpty), (keys vs).Nodup → (∀ k ∈ keys vs, k ∉ keys kids) →
    unshiftAll b vs kids = .ok (vs.map (mark b) ++ kids) := by
  intro vs
  induction vs with
  | nil => intro kids _ _; rfl
  | cons v rest ih =>
    intro kids hnd hdis
    simp only [keys_cons, List.nodup_cons] at hnd
    have h1 := ih kids hnd.2 (fun k hk => hdis k (by simp [hk]))
    have hnone : (rest.map (mark b) ++ kids).find? (·.key == v.key) = none := by
      apply find?_key_none
      simp only [keys_append, keys_map_mark, List.mem_append, not_or]
      exact ⟨hnd.1, hdis v.key (by simp)⟩
    simp only [unshiftAll, h1, hnone, List.map_cons, List.cons_append, mark]

/-- re-inheritance: every key of the base is already there as an inherited property — nothing changes -/
theorem unshiftAll_done (b : Nat) : ∀ (vs kids : List Prpty),
    (∀ v ∈ vs, ∃ p, kids.find? (·.key == v.key) = some p ∧ p.from_.isSome = true) →
    unshiftAll b vs kids = .ok kids := by
  intro vs
  induction vs with
  | nil => intro kids _; rfl
  | cons v rest ih =>
    intro kids h
    have h1 := ih kids (fun v hv => h v (by simp [hv]))
    rcases h v (by simp) with ⟨p, hp, hm⟩
    have : p.from_.isNone = false := by
      cases hf : p.from_ <;> simp [hf] at hm ⊢
    simp [unshiftAll, h1, hp, this]

/-- shape of a successful run: marked properties with new keys are put in front of the old list -/
theorem unshiftAll_shape (b : Nat) : ∀ (vs kids kids' : List Prpty), unshiftAll b vs kids = .ok kids' →
    ∃ new, kids' = new ++ kids ∧ ∀ q ∈ new, q.from_ = some b ∧ q.key ∈ keys vs ∧ q.key ∉ keys kids := by
  intro vs
  induction vs with
  | nil =>
    intro kids kids' h
    simp [unshiftAll] at h
    exact ⟨[], by simp [h]⟩
  | cons v rest ih =>
    intro kids kids' h
    simp only [unshiftAll] at h
    cases h1 : unshiftAll b rest kids with
    | error e => simp [h1] at h
    | ok k1 =>
      rcases ih kids k1 h1 with ⟨new, hk1, hnew⟩
      simp only [h1] at h
      cases hf : k1.find? (·.key == v.key) with
      | some p =>
        simp only [hf] at h
        by_cases hp : p.from_.isNone = true
        · simp [hp] at h
        · simp [hp] at h
          subst h
          exact ⟨new, hk1, fun q hq => ⟨(hnew q hq).1, by simp [(hnew q hq).2.1], (hnew q hq).2.2⟩⟩
      | none =>
        simp only [hf] at h
        simp at h
        subst h
        refine ⟨{ key := v.key, from_ := some b } :: new, by simp [hk1], ?_⟩
        intro q hq
        rcases List.mem_cons.mp hq with rfl | hq
        · refine ⟨rfl, by simp, ?_⟩
          intro hk
          rcases mem_keys.mp hk with ⟨x, hx, hxk⟩
          have := List.find?_eq_none.mp hf x (by simp [hk1, hx])
          simp at this
          exact this hxk
        · exact ⟨(hnew q hq).1, by simp [(hnew q hq).2.1], (hnew q hq).2.2⟩

/-- only override errors come out of `unshiftAll`, and only for a key of the base that clashes with an own property -/
theorem unshiftAll_error (b : Nat) : ∀ (vs kids : List Prpty) (e : Err), unshiftAll b vs kids = .error e →
    ∃ k, e = .override k b ∧ k ∈ keys vs ∧ ∃ p, kids.find? (·.key == k) = some p ∧ p.from_ = none := by
  intro vs
  induction vs with
  | nil => intro kids e h; simp [unshiftAll] at h
  | cons v rest ih =>
    intro kids e h
    simp only [unshiftAll] at h
    cases h1 : unshiftAll b rest kids with
    | error e1 =>
      simp only [h1] at h
      cases h
      rcases ih kids e1 h1 with ⟨k, he, hk, hp⟩
      exact ⟨k, he, by simp [hk], hp⟩
    | ok k1 =>
      rcases unshiftAll_shape b rest kids k1 h1 with ⟨new, hk1, hnew⟩
      simp only [h1] at h
      cases hf : k1.find? (·.key == v.key) with
      | none => simp [hf] at h
      | some p =>
        simp only [hf] at h
        by_cases hp : p.from_.isNone = true
        · simp only [hp, if_true] at h
          cases h
          refine ⟨v.key, rfl, by simp, p, ?_, by simpa using hp⟩
          rw [hk1, List.find?_append] at hf
          cases hn : new.find? (·.key == v.key) with
          | none => simpa [hn] using hf
          | some q =>
            simp [hn] at hf
            subst hf
            have := (hnew q (List.mem_of_find?_eq_some hn)).1
            simp [this] at hp
        · simp [hp] at h

/-- an own (not inherited) property whose key is also a key of the base is rejected -/
theorem unshiftAll_clash (b : Nat) : ∀ (vs kids : List Prpty) (v : Prpty) (p : Prpty), v ∈ vs →
    kids.find? (·.key == v.key) = some p → p.from_ = none →
    ∃ k, unshiftAll b vs kids = .error (.override k b) ∧ k ∈ keys vs ∧
      ∃ p, kids.find? (·.key == k) = some p ∧ p.from_ = none := by
  intro vs kids v p hv hf hp
  cases h : unshiftAll b vs kids with
  | error e =>
    rcases unshiftAll_error b vs kids e h with ⟨k, rfl, hk⟩
    exact ⟨k, rfl, hk⟩
  | ok k1 =>
    exfalso
    -- a successful run never skips over an own property: show by induction that it would have failed at `v`
    induction vs generalizing k1 with
    | nil => simp at hv
    | cons w rest ih =>
      simp only [unshiftAll] at h
      cases h1 : unshiftAll b rest kids with
      | error e => simp [h1] at h
      | ok k2 =>
        rcases List.mem_cons.mp hv with rfl | hv'
        · rcases unshiftAll_shape b rest kids k2 h1 with ⟨new, hk2, hnew⟩
          have hkk : v.key ∈ keys kids :=
            mem_keys.mpr ⟨p, List.mem_of_find?_eq_some hf, by simpa using List.find?_some hf⟩
          have hn : new.find? (·.key == v.key) = none := by
            apply List.find?_eq_none.mpr
            intro q hq hqk
            exact (hnew q hq).2.2 (by rw [show q.key = v.key by simpa using hqk]; exact hkk)
          have : k2.find? (·.key == v.key) = some p := by rw [hk2, List.find?_append, hn]; simpa using hf
          simp [h1, this, hp] at h
        · exact ih hv' k2 h1

/-! ### `expand`, `depthOk` -/

theorem expand_succ (st : Store) (f : Nat) (sc : Schema) :
    expand st (f + 1) sc =
      (sc.bases.flatMap fun b => match st.get? b with
        | some ut => (expand st f ut).map (mark b)
        | none => []) ++ sc.kids := rfl

theorem depthOk_succ {st : Store} {f n : Nat} {sc : Schema} (h : st.get? n = some sc) :
    depthOk st (f + 1) n = sc.bases.all (depthOk st f) := by
  simp [depthOk, h]

theorem depthOk_mono_succ (st : Store) : ∀ f n, depthOk st f n = true → depthOk st (f + 1) n = true := by
  intro f
  induction f with
  | zero => intro n h; simp [depthOk] at h
  | succ f ih =>
    intro n h
    cases hg : st.get? n with
    | none => simp [depthOk, hg]
    | some sc =>
      rw [depthOk_succ hg] at h ⊢
      rw [List.all_eq_true] at h ⊢
      exact fun b hb => ih b (h b hb)

theorem depthOk_mono (st : Store) {f f' : Nat} (hle : f ≤ f') (n : Nat) (h : depthOk st f n = true) :
    depthOk st f' n = true := by
  induction hle with
  | refl => exact h
  | step _ ih => exact depthOk_mono_succ st _ n ih

/-- the least sufficient depth -/
theorem depthOk_min (st : Store) (n : Nat) : ∀ d, depthOk st d n = true →
    ∃ m, m < d ∧ depthOk st (m + 1) n = true ∧ depthOk st m n = false := by
  intro d
  induction d with
  | zero => intro h; simp [depthOk] at h
  | succ d ih =>
    intro h
    cases hd : depthOk st d n with
    | true =>
      rcases ih hd with ⟨m, hm, h1, h2⟩
      exact ⟨m, by omega, h1, h2⟩
    | false => exact ⟨d, by omega, h, hd⟩

/-- more fuel than the depth does not change the expansion -/
theorem expand_stable (st : Store) : ∀ f (sc : Schema), (∀ b ∈ sc.bases, depthOk st f b = true) →
    ∀ f', f ≤ f' → expand st (f' + 1) sc = expand st (f + 1) sc := by
  intro f
  induction f with
  | zero =>
    intro sc h f' _
    have : sc.bases = [] := List.eq_nil_iff_forall_not_mem.mpr (fun b hb => by simpa [depthOk] using h b hb)
    simp [expand_succ, this]
  | succ f ih =>
    intro sc h f' hle
    obtain ⟨f'', rfl⟩ : ∃ f'', f' = f'' + 1 := ⟨f' - 1, by omega⟩
    rw [expand_succ st (f'' + 1), expand_succ st (f + 1)]
    congr 1
    apply flatMap_congr'
    intro b hb
    cases hg : st.get? b with
    | none => rfl
    | some ut =>
      have hb' := h b hb
      rw [depthOk_succ hg, List.all_eq_true] at hb'
      simp only
      rw [ih ut hb' f'' (by omega)]

theorem expand_no_bases (st : Store) (f : Nat) (sc : Schema) (h : sc.bases = []) : expand st f sc = sc.kids := by
  cases f with
  | zero => rfl
  | succ f => simp [expand_succ, h]

end JSight.C12
