import JSight.Proofs.ScanTrivia
/-!
C14, last clause — run-level part: soundness of the abstract interpreter `tRun` of `ScanTrivia` with respect
to the scanner model, and the coverage invariant of `lexAll` derived from it.  Generic in the table: the
table enters only through the hypotheses `Facts`.
-/
namespace JSight.ScanTrivia
open JSight Gen ScanLex
open JSight.ScanSafe (Reach)

/-! ### which byte positions the found events cover -/

/-- position `i` lies in the item that the event `x` completes, `acc` being the open Begin before `x` -/
def itemCov (acc : Option Evp) (x : Evp) (i : Nat) : Prop :=
  if x.1.isBeginning then False
  else if x.1.isEnding then
    (match acc with
     | some b => b.2 ≤ i ∧ i < x.2 + 1
     | none => False)
  else i = x.2

def covCA : Option Evp → List Evp → Nat → Prop
  | _, [], _ => False
  | acc, x :: r, i => itemCov acc x i ∨ covCA (if x.1.isBeginning then some x else none) r i

/-- `i` lies in a completed (Begin, End) pair or in a context event of the list -/
def covC (L : List Evp) (i : Nat) : Prop := covCA none L i

/-- `i` is covered by the events of `L`: by a completed item, or by the open Begin at the end of `L` -/
def CovL (L : List Evp) (i : Nat) : Prop := covC L i ∨ ∃ b, lastOpen L = some b ∧ b.2 ≤ i

theorem covCA_append (acc : Option Evp) (L : List Evp) (x : Evp) (i : Nat) :
    covCA acc (L ++ [x]) i ↔ covCA acc L i ∨ itemCov (lastOpenA acc L) x i := by
  induction L generalizing acc with
  | nil => simp [covCA, lastOpenA]
  | cons y r ih =>
    simp only [List.cons_append, covCA, lastOpenA, ih, or_assoc]

theorem covC_append (L : List Evp) (x : Evp) (i : Nat) :
    covC (L ++ [x]) i ↔ covC L i ∨ itemCov (lastOpen L) x i := covCA_append none L x i

/-- lexemes delivered so far -/
def InLex (acc : List Lexeme) (i : Nat) : Prop := ∃ l ∈ acc, l.b ≤ i ∧ i < l.e1

def isBlank (c : UInt8) : Bool := c == 32 || c == 9 || c == 10 || c == 13

/-- **why a byte may belong to no lexeme.**  `Skipped d o i`: the byte at position `i` of the file is

* `blank`        – a blank or a line end;
* `commentStart` – a `'#'` read by a byte step that moves into the comment sub-machine;
* `commentText`  – read in a state of the comment sub-machine (`inComment`, computed from the table; the
                   table check shows that it is entered only by `commentStart`);
* `annotOpen1/2` – the two bytes of an annotation opener `//` or `/*`: the second one is read in the
                   annotation-sign state;
* `annotClose1/2`– the two bytes of the `*/` that closes a multi-line annotation: the byte step reading
                   the `'/'` finds `AnnotationEnd` right before the `'*'`.

The configurations are configurations of the run (`Reach`: reachable from `Sc.init`). -/
inductive Skipped (d : Src) (o : Oracle) (i : Nat) : Prop
  | blank : isBlank (d.get i) = true → Skipped d o i
  | commentStart (sc sc2 : Sc) : Reach d o sc → sc.cur = i → d.get i = 35 → byteStep d o sc = .ok sc2 →
      inComment sc2.step = true → Skipped d o i
  | commentText (sc : Sc) : Reach d o sc → sc.cur = i → inComment sc.step = true → Skipped d o i
  | annotOpen1 (sc : Sc) : Reach d o sc → sc.cur = i + 1 → isSign sc.step = true → d.get i = 47 →
      (d.get (i + 1) = 47 ∨ d.get (i + 1) = 42) → Skipped d o i
  | annotOpen2 (sc : Sc) : Reach d o sc → sc.cur = i → isSign sc.step = true → 1 ≤ i → d.get (i - 1) = 47 →
      (d.get i = 47 ∨ d.get i = 42) → Skipped d o i
  | annotClose1 (sc sc2 : Sc) : Reach d o sc → sc.cur = i + 1 → byteStep d o sc = .ok sc2 →
      (Ev.annotationEnd, i - 1) ∈ sc2.finds → 1 ≤ i → d.get i = 42 → d.get (i + 1) = 47 → Skipped d o i
  | annotClose2 (sc sc2 : Sc) : Reach d o sc → sc.cur = i → byteStep d o sc = .ok sc2 →
      (Ev.annotationEnd, i - 2) ∈ sc2.finds → 2 ≤ i → d.get (i - 1) = 42 → d.get i = 47 → Skipped d o i

/-- the end of input was read in a listed exception state (known finding) -/
def EofInException (d : Src) (o : Oracle) : Prop :=
  ∃ sc, Reach d o sc ∧ sc.cur = d.size ∧ eofExc sc.step = true

theorem not_eofInException (d : Src) (o : Oracle) : ¬ EofInException d o := by
  rintro ⟨sc, _, _, h⟩
  simp [eofExc, eofExceptions] at h

/-- the schema library delimits bodies inside the input -/
def OracleInside (d : Src) (o : Oracle) : Prop :=
  (∀ p k, o.schemaLen p = .len k → p + k ≤ d.size) ∧ (∀ p k, o.enumLen p = .len k → p + k ≤ d.size)

/-- events, all of whose Begins are at position `p` -/
def BeginsAt (l : List Evp) (p : Nat) : Prop := ∀ x ∈ l, x.1.isBeginning = true → x.2 = p
def NoCtx (l : List Evp) : Prop := ∀ x ∈ l, x.1.isBeginning = true ∨ x.1.isEnding = true
def NoEnd (l : List Evp) : Prop := ∀ x ∈ l, x.1.isEnding = false
def AllBegin (l : List Evp) : Prop := ∀ x ∈ l, x.1.isBeginning = true

/-- what is left of the queue when the first lexeme has been delivered -/
def afterFirst : List Evp → List Evp
  | [] => []
  | x :: r => if x.1.isBeginning then afterFirst r else r

theorem noEnd_afterFirst_append {l : List Evp} {x : Evp} (h : NoEnd (afterFirst l))
    (hx : x.1.isEnding = true → AllBegin l) : NoEnd (afterFirst (l ++ [x])) := by
  induction l with
  | nil =>
    simp only [List.nil_append, afterFirst]
    split <;> simp [NoEnd]
  | cons y r ih =>
    simp only [List.cons_append, afterFirst] at h ⊢
    by_cases hy : y.1.isBeginning = true
    · simp only [hy, if_true] at h ⊢
      exact ih h (fun he z hz => hx he z (List.mem_cons_of_mem _ hz))
    · simp only [hy] at h ⊢
      intro z hz
      rcases List.mem_append.mp hz with hz | hz
      · exact h z hz
      · simp only [List.mem_singleton] at hz
        subst hz
        cases he : z.1.isEnding with
        | false => rfl
        | true => exact absurd (hx he y List.mem_cons_self) hy

/-- the events found so far in a byte step at index `cur` on byte `c` (`sld`: an End / context event is
among them) -/
def ExtOK (c : UInt8) (cur : Nat) (sld : Bool) (new : List Evp) : Prop :=
  BeginsAt new cur ∧ (c = 0 → NoCtx new) ∧ (sld = false → AllBegin new) ∧ (c ≠ 0 → NoEnd (afterFirst new))

theorem ExtOK.nil (c : UInt8) (cur : Nat) (sld : Bool) : ExtOK c cur sld [] := by
  refine ⟨?_, ?_, ?_, ?_⟩
  · intro x hx; simp at hx
  · intro _ x hx; simp at hx
  · intro _ x hx; simp at hx
  · intro _ x hx; simp [afterFirst] at hx

theorem ExtOK.snoc {c : UInt8} {cur : Nat} {sld sld' : Bool} {new : List Evp} {x : Evp}
    (h : ExtOK c cur sld new) (h1 : x.1.isBeginning = true → x.2 = cur)
    (h2 : c = 0 → x.1.isBeginning = true ∨ x.1.isEnding = true)
    (h3 : c ≠ 0 → x.1.isEnding = true → sld = false)
    (h4 : sld' = false → x.1.isBeginning = true ∧ sld = false) : ExtOK c cur sld' (new ++ [x]) := by
  obtain ⟨hb, hn, hs1, hs2⟩ := h
  refine ⟨?_, ?_, ?_, ?_⟩
  · intro y hy
    rcases List.mem_append.mp hy with hy | hy
    · exact hb y hy
    · simp only [List.mem_singleton] at hy; subst hy; exact h1
  · intro hc y hy
    rcases List.mem_append.mp hy with hy | hy
    · exact hn hc y hy
    · simp only [List.mem_singleton] at hy; subst hy; exact h2 hc
  · intro hf y hy
    obtain ⟨hx, hsl⟩ := h4 hf
    rcases List.mem_append.mp hy with hy | hy
    · exact hs1 hsl y hy
    · simp only [List.mem_singleton] at hy; subst hy; exact hx
  · intro hc
    exact noEnd_afterFirst_append (hs2 hc) (fun he => hs1 (h3 hc he))

/-! ### the invariants -/

/-- between byte steps: every byte before `cur` is accounted for -/
structure TrInv (d : Src) (o : Oracle) (acc : List Lexeme) (sc : Sc) : Prop where
  sign : isSign sc.step = true → 1 ≤ sc.cur ∧ d.get (sc.cur - 1) = 47
  cov : ∀ i, i < sc.cur → i < d.size →
    InLex acc i ∨ CovL (Lof sc) i ∨ Skipped d o i ∨ (isSign sc.step = true ∧ i + 1 = sc.cur)

/-- after the end of input: a lexeme that is still open was opened at the end of input -/
def EndInv (d : Src) (o : Oracle) (sc : Sc) : Prop :=
  OracleInside d o → d.size < sc.cur → ∀ b, lastOpen (Lof sc) = some b → d.size ≤ b.2 ∨ EofInException d o

/-- the shape of the event queue after a byte step that started with an empty queue -/
def QPost (d : Src) (c : UInt8) (cur2 : Nat) (q : List Evp) : Prop :=
  (c ≠ 0 → NoEnd (afterFirst q)) ∧ (c = 0 → BeginsAt q d.size ∧ NoCtx q ∧ (cur2 ≤ d.size → q = []))

/-- the table facts the run-level proofs rest on -/
structure Facts : Prop where
  lex : ∀ st, ScanLex.stateOK certs st = true
  tbl : ∀ st, silentOK (code st) st = true
  glob : globalOK = true

section step
variable (d : Src) (sc0 : Sc) (c : UInt8)

/-- the relation between the abstract value and the configuration inside the byte step that started in
`sc0` on byte `c` -/
structure TM (K : Ctx) (a : TV) (sc : Sc) : Prop where
  cur : sc.cur = sc0.cur
  rew : sc.rew = a.rew
  stk : ∀ s ∈ sc.stack, isStackable s = true
  reg : match a.reg with
    | some r => sc.step = r
    | none => isStackable sc.step = true
  opn : (lastOpen (Lof sc)).map (·.1) = a.opn
  opos : ∀ b, lastOpen (Lof sc) = some b → b.2 ≤ sc0.cur
  fresh : a.fresh = true → ∀ b, lastOpen (Lof sc) = some b → b.2 = sc0.cur
  covLt : ∀ i, i < sc0.cur → CovL (Lof sc0) i → CovL (Lof sc) i ∨ (a.star = true ∧ i + 1 = sc0.cur)
  covCur : a.cov = true → covC (Lof sc) sc0.cur
  star : a.star = true → 2 ≤ sc0.cur ∧ d.get (sc0.cur - 1) = 42 ∧ c = 47 ∧
    (Ev.annotationEnd, sc0.cur - 2) ∈ sc.finds
  pstar : a.pstar = true → 1 ≤ sc0.cur ∧ d.get (sc0.cur - 1) = 42
  sat : a.P.Sat c
  ext : ∃ new, sc.finds = sc0.finds ++ new ∧ ExtOK c sc0.cur a.sld new

end step

theorem within_sound {P : PathCond} {bs : List UInt8} {c : UInt8} (h : within P bs = true) (hs : P.Sat c) :
    c ∈ bs := by
  unfold within at h
  cases hp : P.pos with
  | none => simp [hp] at h
  | some p =>
    simp only [hp, List.all_eq_true] at h
    have := hs.1 p hp
    simpa using h c (by simpa using this)

theorem lof_snoc (sc : Sc) (x : Evp) : Lof { sc with finds := sc.finds ++ [x] } = Lof sc ++ [x] := by
  simp [Lof]

theorem lastOpen_none_of_isNone {L : List Evp} {a : Option Ev} (h : (lastOpen L).map (·.1) = a)
    (ha : a = none) : lastOpen L = none := lastOpen_none_of_map (by rw [h, ha])

theorem covC_mono {L : List Evp} {x : Evp} {i : Nat} (h : covC L i) : covC (L ++ [x]) i :=
  (covC_append L x i).mpr (Or.inl h)

section found
variable {d : Src} {o : Oracle} {sc0 : Sc} {c : UInt8}

theorem found_tr {K : Ctx} {a a' : TV} {sc : Sc} {e : Ev} {back : Nat}
    (m : TM d sc0 c K a sc) (ha : tOp K a (.found e back) = some a') (hb : back ≤ sc.cur) :
    TM d sc0 c K a' { sc with finds := sc.finds ++ [(e, sc.cur - back)] } := by
  have hL := lof_snoc sc (e, sc.cur - back)
  have hcur := m.cur
  obtain ⟨new, hn, hext⟩ := m.ext
  have hfin : ({ sc with finds := sc.finds ++ [(e, sc.cur - back)] } : Sc).finds
      = sc0.finds ++ (new ++ [(e, sc.cur - back)]) := by simp [hn]
  by_cases hB : e.isBeginning = true
  · -- a Begin
    simp only [tOp, hB, if_true, Bool.and_eq_true, Option.isNone_iff_eq_none, beq_iff_eq] at ha
    split at ha
    · next hcond =>
      obtain ⟨hopn, hback⟩ := hcond
      subst hback
      simp only [Option.some.injEq] at ha
      subst ha
      have hlo : lastOpen (Lof sc) = none := lastOpen_none_of_isNone m.opn hopn
      refine ⟨hcur, m.rew, m.stk, m.reg, ?_, ?_, ?_, ?_, ?_, ?_, m.pstar, m.sat, ⟨_, hfin, ?_⟩⟩
      · rw [hL, lastOpen_append]; simp [hB]
      · intro b hbb; rw [hL, lastOpen_append] at hbb; simp [hB] at hbb; subst hbb; simp [hcur]
      · intro _ b hbb; rw [hL, lastOpen_append] at hbb; simp [hB] at hbb; subst hbb; simp [hcur]
      · intro i hi hc
        rcases m.covLt i hi hc with h | h
        · rcases h with h | ⟨b, hb1, _⟩
          · exact Or.inl (Or.inl (by rw [hL]; exact covC_mono h))
          · rw [hlo] at hb1; cases hb1
        · exact Or.inr h
      · intro hcv; rw [hL]; exact covC_mono (m.covCur hcv)
      · intro hs
        obtain ⟨h1, h2, h3, h4⟩ := m.star hs
        exact ⟨h1, h2, h3, by simp [h4]⟩
      · exact hext.snoc (fun _ => by simp [hcur]) (fun _ => Or.inl hB)
          (fun _ he => by rw [begin_not_end hB] at he; cases he) (fun hf => ⟨hB, hf⟩)
    · cases ha
  · by_cases hE : e.isEnding = true
    · -- an End
      simp only [tOp, hB, hE, if_true, Bool.false_eq_true, if_false] at ha
      split at ha
      · cases ha
      · next hcond =>
        simp only [Bool.or_eq_true, Bool.and_eq_true, Option.isNone_iff_eq_none, Bool.not_eq_true',
          not_or, not_and, Bool.not_eq_false] at hcond
        obtain ⟨hopn, hsl⟩ := hcond
        cases hlo : lastOpen (Lof sc) with
        | none => rw [← m.opn, hlo] at hopn; exact absurd rfl hopn
        | some b =>
          have hbp := m.opos b hlo
          have hlo' : lastOpen (Lof sc ++ [(e, sc.cur - back)]) = none := by
            rw [lastOpen_append]; simp [hB]
          have hsld : c ≠ 0 → a.sld = false := by
            intro hc
            cases hs : a.sld with
            | false => rfl
            | true => exact absurd (Sat.eofOnly m.sat (hsl hs)) hc
          have hextT : ExtOK c sc0.cur true (new ++ [(e, sc.cur - back)]) :=
            hext.snoc (fun h => absurd h hB) (fun _ => Or.inr hE) (fun hc _ => hsld hc)
              (fun hf => by cases hf)
          have hopn' : (lastOpen (Lof sc ++ [(e, sc.cur - back)])).map (·.1) = none := by rw [hlo']; rfl
          have hitem : ∀ i, (b.2 ≤ i ∧ i < sc.cur - back + 1) → covC (Lof sc ++ [(e, sc.cur - back)]) i := by
            intro i hi
            rw [covC_append, hlo]
            exact Or.inr (by simp [itemCov, hB, hE, hi])
          have hmem : ∀ y, y ∈ sc.finds → y ∈ sc.finds ++ [(e, sc.cur - back)] :=
            fun y hy => List.mem_append_left _ hy
          split at ha
          · -- back = 0
            next hb0 =>
            simp only [beq_iff_eq] at hb0
            subst hb0
            simp only [Option.some.injEq] at ha
            subst ha
            refine ⟨hcur, m.rew, m.stk, m.reg, (by rw [hL]; exact hopn'),
              (by intro b' hb'; rw [hL, hlo'] at hb'; cases hb'),
              (by intro _ b' hb'; rw [hL, hlo'] at hb'; cases hb'), ?_, ?_, ?_, m.pstar, m.sat, ⟨_, hfin, hextT⟩⟩
            · intro i hi hc
              rcases m.covLt i hi hc with h | h
              · rcases h with h | ⟨b', hb1, hb2⟩
                · exact Or.inl (Or.inl (by rw [hL]; exact covC_mono h))
                · rw [hlo] at hb1; cases hb1
                  exact Or.inl (Or.inl (by rw [hL]; exact hitem i ⟨hb2, by omega⟩))
              · exact Or.inr h
            · intro _
              rw [hL]
              exact hitem _ ⟨hbp, by omega⟩
            · intro hs
              obtain ⟨h1, h2, h3, h4⟩ := m.star hs
              exact ⟨h1, h2, h3, hmem _ h4⟩
          · split at ha
            · -- back = 1
              next hb1 =>
              simp only [beq_iff_eq] at hb1
              subst hb1
              simp only [Option.some.injEq] at ha
              subst ha
              refine ⟨hcur, m.rew, m.stk, m.reg, (by rw [hL]; exact hopn'),
                (by intro b' hb'; rw [hL, hlo'] at hb'; cases hb'),
                (by intro _ b' hb'; rw [hL, hlo'] at hb'; cases hb'), ?_, ?_, ?_, m.pstar, m.sat, ⟨_, hfin, hextT⟩⟩
              · intro i hi hc
                rcases m.covLt i hi hc with h | h
                · rcases h with h | ⟨b', hb1, hb2⟩
                  · exact Or.inl (Or.inl (by rw [hL]; exact covC_mono h))
                  · rw [hlo] at hb1; cases hb1
                    exact Or.inl (Or.inl (by rw [hL]; exact hitem i ⟨hb2, by omega⟩))
                · exact Or.inr h
              · intro hcv
                rw [hL]
                exact covC_mono (m.covCur hcv)
              · intro hs
                obtain ⟨h1, h2, h3, h4⟩ := m.star hs
                exact ⟨h1, h2, h3, hmem _ h4⟩
            · split at ha
              · -- back = 2: the closing "*/"
                next hb2 =>
                simp only [Bool.and_eq_true, beq_iff_eq, Bool.not_eq_true'] at hb2
                obtain ⟨⟨⟨⟨hb2, hps⟩, hw⟩, hea⟩, _⟩ := hb2
                subst hb2
                subst hea
                simp only [Option.some.injEq] at ha
                subst ha
                obtain ⟨hp1, hp2⟩ := m.pstar hps
                have hc47 : c = 47 := by simpa using within_sound hw m.sat
                refine ⟨hcur, m.rew, m.stk, m.reg, (by rw [hL]; exact hopn'),
                  (by intro b' hb'; rw [hL, hlo'] at hb'; cases hb'),
                  (by intro _ b' hb'; rw [hL, hlo'] at hb'; cases hb'), ?_, ?_, ?_, m.pstar, m.sat, ⟨_, hfin, hextT⟩⟩
                · intro i hi hc
                  rcases m.covLt i hi hc with h | h
                  · rcases h with h | ⟨b', hb1, hb2⟩
                    · exact Or.inl (Or.inl (by rw [hL]; exact covC_mono h))
                    · rw [hlo] at hb1; cases hb1
                      by_cases hi2 : i + 1 = sc0.cur
                      · exact Or.inr ⟨rfl, hi2⟩
                      · exact Or.inl (Or.inl (by rw [hL]; exact hitem i ⟨hb2, by omega⟩))
                  · exact Or.inr ⟨rfl, h.2⟩
                · intro hcv
                  rw [hL]
                  exact covC_mono (m.covCur hcv)
                · intro _
                  refine ⟨by omega, hp2, hc47, ?_⟩
                  rw [hcur]
                  exact List.mem_append_right _ (by simp)
              · cases ha
    · -- a context event
      have hEf : e.isEnding = false := by simpa using hE
      have hBf : e.isBeginning = false := by simpa using hB
      simp only [tOp, hBf, hEf, Bool.false_eq_true, if_false, Bool.and_eq_true, Option.isNone_iff_eq_none,
        beq_iff_eq] at ha
      split at ha
      · next hcond =>
        obtain ⟨⟨hopn, hback⟩, hnz⟩ := hcond
        subst hback
        simp only [Option.some.injEq] at ha
        subst ha
        have hc0 : c ≠ 0 := Sat.nonzero m.sat hnz
        have hlo : lastOpen (Lof sc) = none := lastOpen_none_of_isNone m.opn hopn
        have hlo' : lastOpen (Lof sc ++ [(e, sc.cur - 0)]) = none := by
          rw [lastOpen_append]; simp [hBf]
        refine ⟨hcur, m.rew, m.stk, m.reg, (by rw [hL, hlo', hopn]; rfl),
          (by intro b' hb'; rw [hL, hlo'] at hb'; cases hb'),
          (by intro _ b' hb'; rw [hL, hlo'] at hb'; cases hb'), ?_, ?_, ?_, m.pstar, m.sat, ⟨_, hfin, ?_⟩⟩
        · intro i hi hc
          rcases m.covLt i hi hc with h | h
          · rcases h with h | ⟨b', hb1, _⟩
            · exact Or.inl (Or.inl (by rw [hL]; exact covC_mono h))
            · rw [hlo] at hb1; cases hb1
          · exact Or.inr h
        · intro _
          rw [hL, covC_append]
          exact Or.inr (by simp [itemCov, hBf, hEf, hcur])
        · intro hs
          obtain ⟨h1, h2, h3, h4⟩ := m.star hs
          exact ⟨h1, h2, h3, List.mem_append_left _ h4⟩
        · exact hext.snoc (fun h => absurd h hB) (fun h => absurd h hc0)
            (fun _ he => absurd he hE) (fun hf => by cases hf)
      · cases ha

theorem tOp_sound {K : Ctx} {a a' : TV} {sc sc' : Sc} {op : Op St}
    (m : TM d sc0 c K a sc) (ha : tOp K a op = some a') (he : execOp sc op = .ok sc') :
    TM d sc0 c K a' sc' := by
  cases op with
  | setStep s =>
    simp [tOp] at ha; subst ha
    simp [execOp] at he; subst he
    exact ⟨m.cur, m.rew, m.stk, rfl, m.opn, m.opos, m.fresh, m.covLt, m.covCur, m.star, m.pstar, m.sat, m.ext⟩
  | push s =>
    simp [tOp] at ha
    obtain ⟨hs, rfl⟩ := ha
    simp [execOp] at he; subst he
    refine ⟨m.cur, m.rew, ?_, m.reg, m.opn, m.opos, m.fresh, m.covLt, m.covCur, m.star, m.pstar, m.sat, m.ext⟩
    intro t ht
    rcases List.mem_cons.mp ht with rfl | ht
    · exact hs
    · exact m.stk t ht
  | pushCur =>
    simp [execOp] at he; subst he
    have hreg := m.reg
    have hs : isStackable sc.step = true ∧ a' = a := by
      cases hr : a.reg with
      | none => simp [tOp, hr] at ha; rw [hr] at hreg; exact ⟨hreg, ha.symm⟩
      | some r =>
        simp [tOp, hr] at ha
        rw [hr] at hreg
        simp at hreg
        exact ⟨by rw [hreg]; exact ha.1, ha.2.symm⟩
    obtain ⟨hs, rfl⟩ := hs
    refine ⟨m.cur, m.rew, ?_, m.reg, m.opn, m.opos, m.fresh, m.covLt, m.covCur, m.star, m.pstar, m.sat, m.ext⟩
    intro t ht
    rcases List.mem_cons.mp ht with rfl | ht
    · exact hs
    · exact m.stk t ht
  | popToStep =>
    simp [tOp] at ha; subst ha
    unfold execOp at he
    cases hst : sc.stack with
    | nil => simp [hst] at he
    | cons t r =>
      simp [hst] at he; subst he
      refine ⟨m.cur, m.rew, ?_, ?_, m.opn, m.opos, m.fresh, m.covLt, m.covCur, m.star, m.pstar, m.sat, m.ext⟩
      · intro s hs; exact m.stk s (by rw [hst]; exact List.mem_cons_of_mem _ hs)
      · exact m.stk t (by rw [hst]; exact List.mem_cons_self)
  | rewind n =>
    simp [tOp] at ha; subst ha
    simp [execOp] at he; subst he
    refine ⟨m.cur, ?_, m.stk, m.reg, m.opn, m.opos, m.fresh, m.covLt, m.covCur, m.star, m.pstar, m.sat, m.ext⟩
    show sc.rew + n = a.rew + n
    rw [m.rew]
  | found e back =>
    unfold execOp at he
    by_cases hb : back ≤ sc.cur
    · simp [hb] at he; subst he
      exact found_tr m ha hb
    · simp [hb] at he

theorem tOps_sound {K : Ctx} : ∀ (ops : List (Op St)) {a a' : TV} {sc sc' : Sc},
    TM d sc0 c K a sc → tOps K a ops = some a' → execOps sc ops = .ok sc' → TM d sc0 c K a' sc' := by
  intro ops
  induction ops with
  | nil =>
    intro a a' sc sc' m ha he
    simp [tOps] at ha; simp [execOps] at he
    subst ha; subst he; exact m
  | cons op r ih =>
    intro a a' sc sc' m ha he
    unfold tOps at ha
    unfold execOps at he
    cases h1 : tOp K a op with
    | none => simp [h1] at ha
    | some a1 =>
      cases h2 : execOp sc op with
      | error f => simp [h2] at he
      | ok sc1 =>
        simp only [h1] at ha
        simp only [h2] at he
        exact ih (tOp_sound m h1 h2) ha he

theorem TM.withP {K : Ctx} {a : TV} {sc : Sc} (m : TM d sc0 c K a sc) {P : PathCond} (hP : P.Sat c) :
    TM d sc0 c K { a with P := P } sc :=
  ⟨m.cur, m.rew, m.stk, m.reg, m.opn, m.opos, m.fresh, m.covLt, m.covCur, m.star, m.pstar, hP, m.ext⟩

/-- the checked tree accepts the selected leaf, from an abstract value that still describes the configuration -/
theorem tCode_select {K : Ctx} {run : St → TV → Bool} {sc : Sc} :
    ∀ (code : Code St) (a : TV), tCode K run a code = true → TM d sc0 c K a sc →
    ∃ a0 a', TM d sc0 c K a0 sc ∧ tOps K a0 (code.select c (evalCond d sc)).1 = some a' ∧
      tCont K run a' (code.select c (evalCond d sc)).2 = true := by
  intro code
  induction code with
  | leaf ops k =>
    intro a hc m
    simp only [tCode] at hc
    cases ho : tOps K a ops with
    | none => simp [ho] at hc
    | some a' =>
      simp only [ho] at hc
      exact ⟨a, a', m, by simpa [Code.select] using ho, by simpa [Code.select] using hc⟩
  | ifB bs t e iht ihe =>
    intro a hc m
    simp only [tCode, Bool.and_eq_true, Bool.or_eq_true] at hc
    by_cases hb : bs.contains c = true
    · have hs' := Sat.thenP m.sat hb
      have hb2 : c ∈ bs := by simpa using hb
      rcases hc.1 with hemp | hc1
      · rw [Sat.not_isEmpty hs'] at hemp; cases hemp
      · obtain ⟨a0, a', h1, h2, h3⟩ := iht _ hc1 (m.withP hs')
        exact ⟨a0, a', h1, by simpa [Code.select, hb2] using h2, by simpa [Code.select, hb2] using h3⟩
    · have hb' : bs.contains c = false := by simpa using hb
      have hs' := Sat.elseP m.sat hb'
      have hb2 : c ∉ bs := by simpa using hb
      rcases hc.2 with hemp | hc2
      · rw [Sat.not_isEmpty hs'] at hemp; cases hemp
      · obtain ⟨a0, a', h1, h2, h3⟩ := ihe _ hc2 (m.withP hs')
        exact ⟨a0, a', h1, by simpa [Code.select, hb2] using h2, by simpa [Code.select, hb2] using h3⟩
  | ifC cd t e iht ihe =>
    intro a hc m
    simp only [tCode, Bool.and_eq_true] at hc
    by_cases hb : evalCond d sc cd = true
    · have m1 : TM d sc0 c K (if cd == .prevIsStar then { a with pstar := true } else a) sc := by
        by_cases hcd : cd = .prevIsStar
        · subst hcd
          simp only [beq_self_eq_true, if_true]
          refine ⟨m.cur, m.rew, m.stk, m.reg, m.opn, m.opos, m.fresh, m.covLt, m.covCur, m.star, ?_, m.sat, m.ext⟩
          intro _
          simp only [evalCond, Bool.and_eq_true, decide_eq_true_eq, beq_iff_eq] at hb
          rw [m.cur] at hb
          exact ⟨hb.1, by simpa [B.star] using hb.2⟩
        · have : (cd == Cond.prevIsStar) = false := by simpa using hcd
          simp only [this]
          exact m
      obtain ⟨a0, a', h1, h2, h3⟩ := iht _ hc.1 m1
      exact ⟨a0, a', h1, by simpa [Code.select, hb] using h2, by simpa [Code.select, hb] using h3⟩
    · obtain ⟨a0, a', h1, h2, h3⟩ := ihe _ hc.2 m
      exact ⟨a0, a', h1, by simpa [Code.select, hb] using h2, by simpa [Code.select, hb] using h3⟩

end found

theorem allBegin_open {L new : List Evp} (ha : AllBegin new) (hne : new ≠ []) : lastOpen (L ++ new) ≠ none := by
  rcases List.eq_nil_or_concat new with h | ⟨l, x, h⟩
  · exact absurd h hne
  · subst h
    rw [List.concat_eq_append, ← List.append_assoc, lastOpen_append]
    have := ha x (by simp)
    simp [this]

/-! ### the end of a byte step -/

theorem stack_facts (hG : globalOK = true) {s : St} (hs : isStackable s = true) :
    inComment s = false ∧ isSign s = false ∧ eofExc s = false ∧ ∃ ce, certs.cert s = some ce ∧ ce.opn = none := by
  simp only [globalOK, Bool.and_eq_true, List.all_eq_true, beq_iff_eq, Bool.not_eq_true'] at hG
  obtain ⟨⟨⟨h1, h2⟩, _⟩, _⟩ := hG
  have hc : stackableC.contains s = true := by rw [← h1 s (St.mem_all s)]; exact hs
  have := h2 s (by simpa using hc)
  obtain ⟨⟨⟨ha, hb⟩, he⟩, hcert⟩ := this
  refine ⟨ha, hb, he, ?_⟩
  cases hce : certs.cert s with
  | none => simp [hce] at hcert
  | some ce => exact ⟨ce, rfl, by simpa [hce] using hcert⟩

theorem stackable_of_contains (hG : globalOK = true) {s : St} (hs : certs.stackable.contains s = true) :
    isStackable s = true := by
  simp only [globalOK, Bool.and_eq_true, List.all_eq_true, beq_iff_eq] at hG
  rw [hG.1.1.1 s (St.mem_all s)]
  exact hs

/-- what is known when a byte step starts in `sc0` on byte `c` -/
structure StepCtx (d : Src) (o : Oracle) (acc : List Lexeme) (sc0 : Sc) (c : UInt8) : Prop where
  reach : Reach d o sc0
  inv : TrInv d o acc sc0
  le : sc0.cur ≤ d.size
  byte : c = curByte d sc0
  nz : sc0.cur ≠ d.size → c ≠ 0

theorem StepCtx.get {d o acc sc0 c} (S : StepCtx d o acc sc0 c) (hc : c ≠ 0) :
    sc0.cur < d.size ∧ c = d.get sc0.cur := by
  have hb := S.byte
  unfold curByte at hb
  by_cases he : sc0.cur = d.size
  · simp [he] at hb; exact absurd hb hc
  · simp [he] at hb
    exact ⟨Nat.lt_of_le_of_ne S.le he, hb⟩

theorem StepCtx.eof {d o acc sc0 c} (S : StepCtx d o acc sc0 c) (hc : c = 0) : sc0.cur = d.size := by
  apply Classical.byContradiction
  intro hne
  exact S.nz hne hc

/-- the context `K` describes the state the step started in (or, after a continuation in a state popped
from the step stack, claims nothing) -/
def KRel (K : Ctx) (sc0 : Sc) : Prop :=
  K.sign0 = isSign sc0.step ∧ (K.com0 = true → inComment sc0.step = true) ∧
  (K.exc0 = true → eofExc sc0.step = true)

/-- what holds after the step function(s) returned, once `curIndex++` (and the pending rewind) is applied -/
def PostT (d : Src) (o : Oracle) (acc : List Lexeme) (sc0 : Sc) (c : UInt8) (sc1 : Sc) : Prop :=
  ∀ sc2, byteStep d o sc0 = .ok sc2 → sc1.rew ≤ sc1.cur + 1 →
    sc2 = { sc1 with cur := sc1.cur + 1 - sc1.rew, rew := 0 } →
    TrInv d o acc sc2 ∧ EndInv d o sc2 ∧ (sc0.finds = [] → QPost d c sc2.cur sc2.finds)

section post
variable {d : Src} {o : Oracle} {acc : List Lexeme} {sc0 : Sc} {c : UInt8}

/-- the bytes before the current one stay accounted for -/
theorem cov_before {K : Ctx} {a : TV} {sc sc2 : Sc} (S : StepCtx d o acc sc0 c) (hK : KRel K sc0)
    (m : TM d sc0 c K a sc) (hbs : byteStep d o sc0 = .ok sc2) (hfin : ∀ y ∈ sc.finds, y ∈ sc2.finds)
    (i : Nat) (hlt : i < sc0.cur) (hsz : i < d.size)
    (hsign : K.sign0 = true → i + 1 = sc0.cur → within a.P [47, 42] = true) :
    InLex acc i ∨ CovL (Lof sc) i ∨ Skipped d o i := by
  rcases S.inv.cov i hlt hsz with h | h | h | h
  · exact .inl h
  · rcases m.covLt i hlt h with h' | ⟨hst, hi1⟩
    · exact .inr (.inl h')
    · obtain ⟨h1, h2, h3, h4⟩ := m.star hst
      have hc0 : c ≠ 0 := by rw [h3]; decide
      obtain ⟨_, hget⟩ := S.get hc0
      refine .inr (.inr (Skipped.annotClose1 sc0 sc2 S.reach hi1.symm hbs ?_ (by omega) ?_ ?_))
      · have : i - 1 = sc0.cur - 2 := by omega
        rw [this]; exact hfin _ h4
      · have : i = sc0.cur - 1 := by omega
        rw [this]; exact h2
      · rw [hi1, ← hget, h3]
  · exact .inr (.inr h)
  · obtain ⟨hsg, hi1⟩ := h
    have hs0 : K.sign0 = true := by rw [hK.1]; exact hsg
    have hw := within_sound (hsign hs0 hi1) m.sat
    have hc0 : c ≠ 0 := by
      intro h0; subst h0; simp at hw
    obtain ⟨_, hget⟩ := S.get hc0
    obtain ⟨_, hprev⟩ := S.inv.sign hsg
    refine .inr (.inr (Skipped.annotOpen1 sc0 S.reach hi1.symm hsg ?_ ?_))
    · have : i = sc0.cur - 1 := by omega
      rw [this]; exact hprev
    · rw [hi1, ← hget]
      simpa using hw

theorem done_tr {K : Ctx} {a : TV} {sc : Sc} (F : Facts) (S : StepCtx d o acc sc0 c) (hK : KRel K sc0)
    (m : TM d sc0 c K a sc) (hd : doneOK K a = true) : PostT d o acc sc0 c sc := by
  intro sc2 hbs hrw hsc2
  simp only [doneOK, Bool.and_eq_true] at hd
  obtain ⟨⟨⟨⟨htgt, heof⟩, hrwz⟩, hprev⟩, hcurOK⟩ := hd
  have hcur := m.cur
  have hrew := m.rew
  have hstep : sc2.step = sc.step := by rw [hsc2]
  have hlof : Lof sc2 = Lof sc := by rw [hsc2]; rfl
  have hfinds : sc2.finds = sc.finds := by rw [hsc2]
  have hcur2 : sc2.cur = sc0.cur + 1 - a.rew := by rw [hsc2, ← hcur, ← hrew]
  refine ⟨⟨?_, ?_⟩, ?_, ?_⟩
  · -- the sign state is entered on '/'
    intro hs
    rw [hstep] at hs
    have hreg := m.reg
    cases hr : a.reg with
    | none =>
      rw [hr] at hreg
      have := (stack_facts F.glob hreg).2.1
      rw [hs] at this; cases this
    | some r =>
      rw [hr] at hreg htgt
      simp only at hreg
      rw [hreg] at hs
      simp only [hs, Bool.not_true, Bool.false_or, Bool.and_eq_true, beq_iff_eq] at htgt
      obtain ⟨hw, hr0⟩ := htgt.2
      have hc47 : c = 47 := by simpa using within_sound hw m.sat
      have hc0 : c ≠ 0 := by rw [hc47]; decide
      obtain ⟨_, hget⟩ := S.get hc0
      rw [hcur2, hr0]
      exact ⟨by omega, by simp [← hget, hc47]⟩
  · -- coverage
    intro i hi hsz
    rw [hcur2] at hi
    rw [hlof, hstep]
    by_cases hlt : i < sc0.cur
    · have := cov_before S hK m hbs (fun y hy => by rw [hfinds]; exact hy) i hlt hsz (by
        intro hs0 hi1
        simp only [hs0, Bool.not_true, Bool.false_or, Bool.or_eq_true, decide_eq_true_eq] at hprev
        rcases hprev with h | h
        · omega
        · exact h)
      rcases this with h | h | h
      · exact .inl h
      · exact .inr (.inl h)
      · exact .inr (.inr (.inl h))
    · have hi0 : i = sc0.cur := by omega
      have hr0 : a.rew = 0 := by omega
      have hc0 : c ≠ 0 := by
        intro h0
        have := S.eof h0
        omega
      obtain ⟨_, hget⟩ := S.get hc0
      simp only [Bool.or_eq_true, bne_iff_ne, ne_eq, Bool.and_eq_true] at hcurOK
      rcases hcurOK with ((((((((h | h) | h) | h) | h) | h) | h) | h) | h)
      · exact absurd hr0 h
      · exact absurd (Sat.eofOnly m.sat h) hc0
      · exact .inr (.inl (.inl (by rw [hi0]; exact m.covCur h)))
      · cases hlo : lastOpen (Lof sc) with
        | none => rw [← m.opn, hlo] at h; cases h
        | some b => exact .inr (.inl (.inr ⟨b, hlo, by rw [hi0]; exact m.opos b hlo⟩))
      · obtain ⟨h1, h2, h3, h4⟩ := m.star h
        refine .inr (.inr (.inl (Skipped.annotClose2 sc0 sc2 S.reach hi0.symm hbs ?_ (by omega) ?_ ?_)))
        · rw [hfinds, hi0]; exact h4
        · rw [hi0]; exact h2
        · rw [hi0, ← hget, h3]
      · have hw := within_sound h m.sat
        refine .inr (.inr (.inl (Skipped.blank ?_)))
        rw [hi0, ← hget]
        simp only [blanks, List.mem_cons, List.not_mem_nil, or_false] at hw
        rcases hw with hw | hw | hw | hw | hw
        · exact absurd hw hc0
        all_goals (rw [hw]; decide)
      · exact .inr (.inr (.inl (Skipped.commentText sc0 S.reach hi0.symm (hK.2.1 h))))
      · have hreg := m.reg
        cases hr : a.reg with
        | none => rw [hr] at h; cases h
        | some r =>
          rw [hr] at h hreg
          simp only [Bool.or_eq_true, Bool.and_eq_true] at h hreg
          rcases h with ⟨hw, hcm⟩ | ⟨hw, hsg⟩
          · have hc35 : c = 35 := by simpa using within_sound hw m.sat
            refine .inr (.inr (.inl (Skipped.commentStart sc0 sc2 S.reach hi0.symm ?_ hbs ?_)))
            · rw [hi0, ← hget, hc35]
            · rw [hstep, hreg]; exact hcm
          · refine .inr (.inr (.inr ⟨by rw [hreg]; exact hsg, ?_⟩))
            rw [hcur2, hr0, hi0]; rfl
      · obtain ⟨hs0, hw⟩ := h
        have hsg : isSign sc0.step = true := by rw [← hK.1]; exact hs0
        obtain ⟨h1, hprev'⟩ := S.inv.sign hsg
        have hw' := within_sound hw m.sat
        refine .inr (.inr (.inl (Skipped.annotOpen2 sc0 S.reach hi0.symm hsg (by omega) ?_ ?_)))
        · rw [hi0]; exact hprev'
        · rw [hi0, ← hget]; simpa using hw'
  · -- end of input
    intro _ hdead b hb
    rw [hlof] at hb
    rw [hcur2] at hdead
    have hsz : sc0.cur = d.size := by have := S.le; omega
    have hc0 : c = 0 := by
      have := S.byte
      simpa [curByte, hsz] using this
    simp only [Bool.or_eq_true, Option.isNone_iff_eq_none] at heof
    rcases heof with ((h | h) | h) | h
    · exact absurd hc0 (Sat.nonzero m.sat h)
    · rw [← m.opn, hb] at h; cases h
    · exact .inl (by rw [m.fresh h b hb, hsz]; exact Nat.le_refl _)
    · exact .inr ⟨sc0, S.reach, hsz, hK.2.2 h⟩
  · -- the queue
    intro hf0
    obtain ⟨new, hn, hext⟩ := m.ext
    rw [hfinds, hn, hf0, List.nil_append]
    refine ⟨fun hc => hext.2.2.2 hc, fun hc => ⟨?_, hext.2.1 hc, ?_⟩⟩
    · rw [← S.eof hc]
      exact hext.1
    · intro hle
      rw [hcur2, S.eof hc] at hle
      simp only [Bool.or_eq_true, beq_iff_eq, Bool.and_eq_true, Bool.not_eq_true',
        Option.isNone_iff_eq_none] at hrwz
      rcases hrwz with (h | h) | ⟨hsl, hop⟩
      · omega
      · exact absurd hc (Sat.nonzero m.sat h)
      · apply Classical.byContradiction
        intro hne
        have := allBegin_open (L := sc.evStack.reverse ++ sc0.finds) (hext.2.2.1 hsl) hne
        apply this
        have : Lof sc = sc.evStack.reverse ++ sc0.finds ++ new := by simp [Lof, hn]
        rw [← this]
        exact lastOpen_none_of_isNone m.opn hop

theorem lib_tr {K : Ctx} {a : TV} {sc sc1 : Sc} {begin : Ev} {closing : St} {ans : LenAns} {z : Bool}
    (S : StepCtx d o acc sc0 c) (hK : KRel K sc0) (m : TM d sc0 c K a sc)
    (hl : libOK K a closing = true) (hb : begin.isBeginning = true)
    (hans : ∀ k, ans = .len k → OracleInside d o → sc.cur + k ≤ d.size)
    (hlb : libBody sc begin ans closing z = .ok sc1) : PostT d o acc sc0 c sc1 := by
  unfold libBody at hlb
  cases ans with
  | miss => simp at hlb
  | err pos => simp at hlb
  | len n =>
    simp only at hlb
    by_cases hz : (n == 0 && z) = true
    · simp [hz] at hlb
    · simp only [hz, if_false, Except.ok.injEq, Bool.false_eq_true] at hlb
      subst hlb
      simp only [libOK, Bool.and_eq_true, Option.isNone_iff_eq_none, beq_iff_eq, Bool.not_eq_true'] at hl
      obtain ⟨⟨⟨⟨hopn, hr0⟩, hs0⟩, _⟩, hsg⟩ := hl
      intro sc2 hbs hrw hsc2
      have hcur := m.cur
      have hrew := m.rew
      have hlo : lastOpen (Lof sc) = none := lastOpen_none_of_isNone m.opn hopn
      have hstep : sc2.step = closing := by rw [hsc2]
      have hlof : Lof sc2 = Lof sc ++ [(begin, sc.cur)] := by rw [hsc2]; simp [Lof]
      have hfinds : sc2.finds = sc.finds ++ [(begin, sc.cur)] := by rw [hsc2]
      have hcur2 : sc2.cur = sc0.cur + (n - 1) + 1 := by
        rw [hsc2]
        show sc.cur + (n - 1) + 1 - sc.rew = _
        rw [hrew, hr0, hcur]; rfl
      have hlo2 : lastOpen (Lof sc2) = some (begin, sc.cur) := by
        rw [hlof, lastOpen_append]; simp [hb]
      refine ⟨⟨?_, ?_⟩, ?_, ?_⟩
      · intro hs; rw [hstep, hsg] at hs; cases hs
      · intro i hi hsz
        rw [hcur2] at hi
        by_cases hlt : i < sc0.cur
        · have := cov_before S hK m hbs (fun y hy => by rw [hfinds]; exact List.mem_append_left _ hy)
            i hlt hsz (by intro h; rw [hs0] at h; cases h)
          rcases this with h | h | h
          · exact .inl h
          · rcases h with h | ⟨b, hb1, _⟩
            · exact .inr (.inl (.inl (by rw [hlof]; exact covC_mono h)))
            · rw [hlo] at hb1; cases hb1
          · exact .inr (.inr (.inl h))
        · exact .inr (.inl (.inr ⟨_, hlo2, by show sc.cur ≤ i; omega⟩))
      · intro hO hdead b hbb
        rw [hlo2] at hbb
        cases hbb
        rw [hcur2] at hdead
        have := hans n rfl hO
        exact .inl (by show d.size ≤ sc.cur; omega)
      · intro hf0
        obtain ⟨new, hn, hext⟩ := m.ext
        have hext' : ExtOK c sc0.cur a.sld (new ++ [(begin, sc.cur)]) :=
          hext.snoc (fun _ => hcur) (fun _ => Or.inl hb)
            (fun _ he => by rw [begin_not_end hb] at he; cases he) (fun hf => ⟨hb, hf⟩)
        rw [hfinds, hn, hf0, List.nil_append]
        refine ⟨fun hc => hext'.2.2.2 hc, fun hc => ⟨?_, hext'.2.1 hc, ?_⟩⟩
        · rw [← S.eof hc]
          exact hext'.1
        · intro hle
          rw [hcur2, S.eof hc] at hle
          omega

theorem tRun_succ (K : Ctx) (f : Nat) (st : St) (a : TV) :
    tRun K (f + 1) st a = tCode K (tRun K f) a (code st) := rfl

/-- continuing in a state popped from the step stack: its own table check applies -/
theorem restart_tm {K : Ctx} {a : TV} {sc : Sc} (F : Facts) (hK : KRel K sc0) (m : TM d sc0 c K a sc)
    (hreg : isStackable sc.step = true)
    (hc : (a.rew == 0 && !a.star && !K.sign0 && a.opn.isNone && (!a.sld || within a.P sealBytes)) = true) :
    KRel (ctxOf sc.step) sc0 ∧
    (∃ af, tRun (ctxOf sc.step) af sc.step (entryTV none sc.step a.sld) = true) ∧
    TM d sc0 c (ctxOf sc.step) (entryTV none sc.step a.sld) sc := by
  simp only [Bool.and_eq_true] at hc
  obtain ⟨⟨⟨⟨hr0, hst⟩, hs0⟩, hopn⟩, hsl⟩ := hc
  have hr0 : a.rew = 0 := by simpa using hr0
  have hst : a.star = false := by simpa using hst
  have hs0 : K.sign0 = false := by simpa using hs0
  have hopn : a.opn = none := by simpa using hopn
  have hsl : a.sld = false ∨ within a.P sealBytes = true := by simpa using hsl
  obtain ⟨hcm, hsg, hex, ce, hce, hco⟩ := stack_facts F.glob hreg
  have htbl := F.tbl sc.step
  unfold silentOK at htbl
  rw [hce] at htbl
  simp only [hco, hreg, Bool.not_true, Bool.false_or, Bool.and_eq_true] at htbl
  refine ⟨⟨?_, ?_, ?_⟩, ?_, ?_⟩
  · show isSign sc.step = isSign sc0.step
    rw [hsg, ← hK.1, hs0]
  · intro h; simp only [ctxOf] at h; rw [hcm] at h; cases h
  · intro h; simp only [ctxOf] at h; rw [hex] at h; cases h
  · refine ⟨absFuel + 1, ?_⟩
    rw [tRun_succ]
    cases hs : a.sld with
    | false => exact htbl.1
    | true => exact htbl.2
  · refine ⟨m.cur, (by rw [m.rew, hr0]; rfl), m.stk, rfl, (by rw [m.opn, hopn]; rfl), m.opos,
      (fun h => by cases h), ?_, (fun h => by cases h), (fun h => by cases h), (fun h => by cases h), ?_, m.ext⟩
    · intro i hi hcv
      rcases m.covLt i hi hcv with h | ⟨h, _⟩
      · exact .inl h
      · rw [hst] at h; cases h
    · show (if a.sld then (⟨some sealBytes, []⟩ : PathCond) else PathCond.top).Sat c
      cases hs : a.sld with
      | false => exact Sat.top c
      | true =>
        rcases hsl with h | h
        · rw [hs] at h; cases h
        · have := within_sound h m.sat
          refine ⟨?_, by simp⟩
          intro p hp
          simp only [if_true, Option.some.injEq] at hp
          subst hp
          simpa using this

theorem interp_tr (F : Facts) (S : StepCtx d o acc sc0 c) :
    ∀ (cf af : Nat) (st : St) (K : Ctx) (a : TV) (sc sc1 : Sc), KRel K sc0 → tRun K af st a = true →
      TM d sc0 c K a sc → interp d o c cf st sc = .ok sc1 → PostT d o acc sc0 c sc1 := by
  intro cf
  induction cf with
  | zero => intro af st K a sc sc1 _ _ _ hi; simp [interp] at hi
  | succ cf ih =>
    intro af st K a sc sc1 hK hr m hi
    cases af with
    | zero => simp [tRun] at hr
    | succ af =>
      simp only [tRun] at hr
      obtain ⟨a0, a', m0, hops, hcont⟩ := tCode_select (code st) a hr m
      unfold interp at hi
      generalize hsel : (code st).select c (evalCond d sc) = sel at hi hops hcont
      obtain ⟨ops, k⟩ := sel
      simp only at hi hops hcont
      cases he : execOps sc ops with
      | error f => simp [he] at hi
      | ok sc' =>
        simp only [he] at hi
        have m' := tOps_sound ops m0 hops he
        cases k with
        | done =>
          simp only [Except.ok.injEq] at hi
          subst hi
          exact done_tr F S hK m' hcont
        | err => simp at hi
        | call s' => exact ih af s' K a' sc' sc1 hK hcont m' hi
        | redispatch =>
          simp only at hi
          simp only [tCont] at hcont
          have hreg := m'.reg
          cases hr' : a'.reg with
          | some r =>
            simp only [hr'] at hcont hreg
            rw [hreg] at hi
            exact ih af r K a' sc' sc1 hK hcont m' hi
          | none =>
            simp only [hr'] at hcont hreg
            obtain ⟨hK2, ⟨af2, hrun2⟩, m2⟩ := restart_tm F hK m' hreg hcont
            exact ih af2 sc'.step _ _ sc' sc1 hK2 hrun2 m2 hi
        | jschema =>
          simp only at hi
          simp only [tCont] at hcont
          exact lib_tr S hK m' hcont rfl (fun k hk hO => hO.1 _ _ hk) hi
        | enumBody =>
          simp only at hi
          simp only [tCont] at hcont
          exact lib_tr S hK m' hcont rfl (fun k hk hO => hO.2 _ _ hk) hi

/-- **one byte step** preserves the coverage invariant -/
theorem byteStep_tr (F : Facts) {h : Nat} {sc sc2 : Sc} (r : StRel certs d o h sc) (hR : Reach d o sc)
    (hT : TrInv d o acc sc) (hc : sc.cur ≤ d.size) (hs : byteStep d o sc = .ok sc2) :
    TrInv d o acc sc2 ∧ EndInv d o sc2 ∧ (sc.finds = [] → QPost d (curByte d sc) sc2.cur sc2.finds) := by
  have hs0 := hs
  unfold byteStep at hs
  simp only at hs
  by_cases hnul : (sc.cur != d.size && curByte d sc == 0) = true
  · simp [hnul] at hs
  · simp only [hnul, if_false, Bool.false_eq_true] at hs
    cases hi : interp d o (curByte d sc) stepFuel sc.step sc with
    | error s => simp [hi] at hs
    | ok sc1 =>
      simp only [hi] at hs
      by_cases hrew : sc1.rew > sc1.cur + 1
      · simp [hrew] at hs
      · simp only [hrew, if_false, Except.ok.injEq] at hs
        have S : StepCtx d o acc sc (curByte d sc) := by
          refine ⟨hR, hT, hc, rfl, ?_⟩
          intro hne h0
          apply hnul
          simp [hne, h0]
        obtain ⟨ce, hce, ho, hg, _⟩ := r.ent hc
        have htbl := F.tbl sc.step
        unfold silentOK at htbl
        rw [hce] at htbl
        simp only [Bool.and_eq_true] at htbl
        have hrun : tRun (ctxOf sc.step) (absFuel + 1) sc.step (entryTV ce.opn sc.step false) = true := by
          rw [tRun_succ]; exact htbl.1
        have m : TM d sc (curByte d sc) (ctxOf sc.step) (entryTV ce.opn sc.step false) sc := by
          refine ⟨rfl, r.rew, fun s hs => stackable_of_contains F.glob (r.stk s hs), rfl, ho, ?_,
            (fun hf => by cases hf), (fun i _ hcv => .inl hcv), (fun hf => by cases hf), (fun hf => by cases hf),
            (fun hf => by cases hf), Sat.top _, ⟨[], by simp, ExtOK.nil _ _ _⟩⟩
          intro b hb
          have := (lastOpen_some (h := h) hb).2
          omega
        have hK : KRel (ctxOf sc.step) sc := ⟨rfl, fun hh => hh, fun hh => hh⟩
        exact interp_tr F S stepFuel (absFuel + 1) sc.step _ _ sc sc1 hK hrun m hi sc2 hs0
          (Nat.le_of_not_gt hrew) hs.symm

end post

/-! ### the lexeme events -/

/-- everything that is carried through the loops of `Next` -/
structure G (d : Src) (o : Oracle) (h : Nat) (acc : List Lexeme) (sc : Sc) : Prop where
  st : StRel certs d o h sc
  reach : Reach d o sc
  tr : TrInv d o acc sc
  en : EndInv d o sc
  accle : ∀ l ∈ acc, l.e1 ≤ h

def optAcc (ol : Option Lexeme) (acc : List Lexeme) : List Lexeme :=
  match ol with
  | none => acc
  | some l => l :: acc

theorem InLex.mono {acc : List Lexeme} {i : Nat} (ol : Option Lexeme) (h : InLex acc i) : InLex (optAcc ol acc) i := by
  obtain ⟨l, hl, hb⟩ := h
  cases ol with
  | none => exact ⟨l, hl, hb⟩
  | some l' => exact ⟨l, List.mem_cons_of_mem _ hl, hb⟩

/-- delivering a lexeme moves its bytes from "covered by pending events" to "covered by a lexeme" -/
theorem cov_event {d o h} {sc sc' : Sc} {ev : Evp} {rest : List Evp} {ol : Option Lexeme}
    (hf : sc.finds = ev :: rest) (hI : EvInv d o h sc)
    (hp : processEvent { sc with finds := rest } ev = .ok (ol, sc')) (i : Nat) (hc : CovL (Lof sc) i) :
    (∃ l, ol = some l ∧ l.b ≤ i ∧ i < l.e1) ∨ CovL (Lof sc') i := by
  obtain ⟨hw, hst⟩ := hI
  unfold processEvent at hp
  rcases hst with hst | ⟨b, hst, hbb⟩
  · simp only [Lof, hst, hf, List.reverse_nil, List.nil_append] at hw hc
    by_cases hb : ev.1.isBeginning = true
    · simp [hb] at hp
      obtain ⟨rfl, rfl⟩ := hp
      refine .inr ?_
      simpa [Lof, hst] using hc
    · by_cases he : ev.1.isEnding = true
      · simp [hb, he, hst] at hp
      · simp [hb, he] at hp
        obtain ⟨rfl, rfl⟩ := hp
        have hbf : ev.1.isBeginning = false := by simpa using hb
        have hef : ev.1.isEnding = false := by simpa using he
        rcases hc with hc | ⟨b, hb1, hb2⟩
        · simp only [covC, covCA, itemCov, hbf, hef, Bool.false_eq_true, if_false] at hc
          rcases hc with hc | hc
          · exact .inl ⟨_, rfl, by simp [hc]⟩
          · exact .inr (.inl (by simpa [Lof, hst, covC] using hc))
        · refine .inr (.inr ⟨b, ?_, hb2⟩)
          simpa [Lof, hst, lastOpen, lastOpenA, hbf] using hb1
  · simp only [Lof, hst, hf, List.reverse_cons, List.reverse_nil, List.nil_append, List.singleton_append] at hw hc
    cases hw with
    | pair _ _ _ _ _ hh hg hw' =>
      obtain ⟨_, he, heb, _⟩ := matches_begin_end hg.1
      simp [heb, he, hst, hg.1] at hp
      obtain ⟨rfl, rfl⟩ := hp
      rcases hc with hc | ⟨b', hb1, hb2⟩
      · simp only [covC, covCA, itemCov, hbb, heb, he, if_true, Bool.false_eq_true, if_false, false_or] at hc
        rcases hc with hc | hc
        · exact .inl ⟨_, rfl, hc.1, hc.2⟩
        · exact .inr (.inl (by simpa [Lof, covC] using hc))
      · refine .inr (.inr ⟨b', ?_, hb2⟩)
        simpa [Lof, lastOpen, lastOpenA, hbb, heb] using hb1
    | ctx _ _ _ h1 => simp [hbb] at h1

/-- what `processEvent` returns depends on the kind of the event only -/
theorem processEvent_kind {sc sc' : Sc} {ev : Evp} {ol : Option Lexeme}
    (hp : processEvent sc ev = .ok (ol, sc')) :
    sc'.finds = sc.finds ∧ (ol = none ↔ ev.1.isBeginning = true) := by
  unfold processEvent at hp
  by_cases hb : ev.1.isBeginning = true
  · simp [hb] at hp
    obtain ⟨rfl, rfl⟩ := hp
    exact ⟨rfl, by simp [hb]⟩
  · by_cases he : ev.1.isEnding = true
    · simp only [hb, he, if_true, Bool.false_eq_true, if_false] at hp
      split at hp
      · cases hp
      · split at hp
        · simp only [Except.ok.injEq, Prod.mk.injEq] at hp
          obtain ⟨rfl, rfl⟩ := hp
          exact ⟨rfl, by simp [hb]⟩
        · cases hp
    · simp [hb, he] at hp
      obtain ⟨rfl, rfl⟩ := hp
      exact ⟨rfl, by simp [hb]⟩

theorem event_tr {d o h acc} {sc sc' : Sc} {ev : Evp} {rest : List Evp} {ol : Option Lexeme}
    (g : G d o h acc sc) (hf : sc.finds = ev :: rest)
    (hp : processEvent { sc with finds := rest } ev = .ok (ol, sc')) :
    (∃ h', G d o h' (optAcc ol acc) sc') ∧ sc'.finds = rest ∧ sc'.cur = sc.cur ∧
      (ol = none ↔ ev.1.isBeginning = true) := by
  obtain ⟨h1, h2, h3, h4, _, h', hev, hb, hl, hm⟩ := processEvent_inv hf g.st.ev hp
  obtain ⟨hk1, hk2⟩ := processEvent_kind hp
  refine ⟨⟨h', g.st.transfer h1 h2 h3 h4 hev hb hl, Reach.event g.reach hf hp, ⟨?_, ?_⟩, ?_, ?_⟩, hk1, h3, hk2⟩
  · rw [h1, h3]; exact g.tr.sign
  · intro i hi hsz
    rw [h3] at hi
    rw [h1, h3]
    rcases g.tr.cov i hi hsz with hc | hc | hc | hc
    · exact .inl (hc.mono ol)
    · rcases cov_event hf g.st.ev hp i hc with ⟨l, rfl, hlb⟩ | hc'
      · exact .inl ⟨l, List.mem_cons_self, hlb⟩
      · exact .inr (.inl hc')
    · exact .inr (.inr (.inl hc))
    · exact .inr (.inr (.inr hc))
  · intro hO hdead b hbb
    rw [h3] at hdead
    rw [hl] at hbb
    exact g.en hO hdead b hbb
  · cases ol with
    | none =>
      simp only at hm
      subst hm
      exact g.accle
    | some l =>
      simp only at hm
      obtain ⟨hm1, hm2, hm3⟩ := hm
      subst hm3
      intro l0 hl0
      rcases List.mem_cons.mp hl0 with rfl | hl0
      · exact Nat.le_refl _
      · exact Nat.le_trans (g.accle l0 hl0) (Nat.le_trans hm1 hm2.1)

/-- the parameter bookkeeping of `Next` does not matter -/
theorem G.params {d o h acc} {sc : Sc} (g : G d o h acc sc) (p : List (Nat × Nat)) :
    G d o h acc { sc with lastParams := p } :=
  ⟨g.st.transfer rfl rfl rfl rfl (by simpa [EvInv, Lof] using g.st.ev) rfl rfl, Reach.params p g.reach,
   ⟨g.tr.sign, g.tr.cov⟩, g.en, g.accle⟩

theorem drain_tr {d o} : ∀ (n : Nat) (h : Nat) (acc : List Lexeme) (sc sc' : Sc) (ol : Option Lexeme),
    G d o h acc sc → drainFinds n sc = .ok (ol, sc') →
    (∃ h', G d o h' (optAcc ol acc) sc') ∧ sc'.cur = sc.cur ∧
      (ol ≠ none → sc'.finds = afterFirst sc.finds) ∧ (ol = none → sc'.finds = sc.finds.drop n) := by
  intro n
  induction n with
  | zero =>
    intro h acc sc sc' ol g hd
    simp [drainFinds] at hd
    obtain ⟨rfl, rfl⟩ := hd
    exact ⟨⟨h, g⟩, rfl, fun hne => absurd rfl hne, fun _ => by simp⟩
  | succ n ih =>
    intro h acc sc sc' ol g hd
    unfold drainFinds at hd
    cases hf : sc.finds with
    | nil => simp [hf] at hd
    | cons ev rest =>
      simp only [hf] at hd
      cases hp : processEvent { sc with finds := rest } ev with
      | error s => simp [hp] at hd
      | ok res =>
        obtain ⟨ol1, sc1⟩ := res
        obtain ⟨⟨h', g1⟩, hfr, hcur, hkind⟩ := event_tr g hf hp
        cases ol1 with
        | none =>
          simp only [hp] at hd
          have hb : ev.1.isBeginning = true := hkind.mp rfl
          obtain ⟨hg, hc, ha, hdr⟩ := ih _ _ _ _ _ g1 hd
          refine ⟨hg, by rw [hc, hcur], ?_, ?_⟩
          · intro hne; rw [ha hne, hfr]; simp [afterFirst, hb]
          · intro hn; rw [hdr hn, hfr]; simp
        | some lex =>
          simp only [hp] at hd
          simp only [Except.ok.injEq, Prod.mk.injEq] at hd
          obtain ⟨rfl, rfl⟩ := hd
          have hb : ev.1.isBeginning = false := by
            cases hbb : ev.1.isBeginning with
            | false => rfl
            | true => have := hkind.mpr hbb; cases this
          refine ⟨⟨h', ?_⟩, ?_, ?_, fun hn => by cases hn⟩
          · cases lex.ty <;> first | exact g1 | exact g1.params _
          · cases lex.ty <;> exact hcur
          · intro _
            have : afterFirst (ev :: rest) = rest := by simp [afterFirst, hb]
            rw [this]
            cases lex.ty <;> exact hfr

/-! ### the shape of the event queue between the calls of `Next` -/

/-- at the start of `Next`: no End is queued (so a queued Begin is the last queued event), or the end of
input has been read and everything queued was found there -/
def QInv (d : Src) (sc : Sc) : Prop :=
  NoEnd sc.finds ∨ (d.size < sc.cur ∧ BeginsAt sc.finds d.size ∧ NoCtx sc.finds)

/-- at the start of the byte loop -/
def BL (d : Src) (sc : Sc) : Prop :=
  sc.finds = [] ∨ (d.size < sc.cur ∧ BeginsAt (Lof sc) d.size ∧ NoCtx sc.finds)

/-- when `Next` reports the end of the lexeme stream: whatever is still pending starts at the end of input -/
def FinalQ (d : Src) (o : Oracle) (sc : Sc) : Prop :=
  d.size < sc.cur ∧ NoCtx sc.finds ∧
  ∀ x ∈ Lof sc, x.1.isBeginning = true → OracleInside d o → d.size ≤ x.2 ∨ EofInException d o

theorem afterFirst_sub : ∀ (l : List Evp) (x : Evp), x ∈ afterFirst l → x ∈ l
  | [], x, h => by simp [afterFirst] at h
  | y :: r, x, h => by
    simp only [afterFirst] at h
    split at h
    · exact List.mem_cons_of_mem _ (afterFirst_sub r x h)
    · exact List.mem_cons_of_mem _ h

/-- a queued Begin is preceded by no open Begin, and followed by its End or by nothing -/
theorem begin_head {d o h} {sc : Sc} {ev : Evp} {rest : List Evp} (hI : EvInv d o h sc)
    (hf : sc.finds = ev :: rest) (hb : ev.1.isBeginning = true) :
    sc.evStack = [] ∧ (NoEnd rest → rest = []) := by
  obtain ⟨hw, hst⟩ := hI
  rcases hst with hst | ⟨b, hst, hbb⟩
  · refine ⟨hst, ?_⟩
    simp only [Lof, hst, hf, List.reverse_nil, List.nil_append] at hw
    intro hne
    cases hw with
    | opn => rfl
    | pair _ _ e rest' _ _ hg _ =>
      have := (matches_begin_end hg.1).2.1
      rw [hne e List.mem_cons_self] at this; cases this
    | ctx _ _ _ h1 => rw [hb] at h1; cases h1
  · simp only [Lof, hst, hf, List.reverse_cons, List.reverse_nil, List.nil_append, List.singleton_append] at hw
    cases hw with
    | pair _ _ _ _ _ _ hg _ =>
      have := (matches_begin_end hg.1).2.2.1
      rw [hb] at this; cases this
    | ctx _ _ _ h1 => rw [hbb] at h1; cases h1

theorem lastOpenA_mem {acc : Option Evp} {L : List Evp} {b : Evp} (h : lastOpenA acc L = some b) :
    acc = some b ∨ b ∈ L := by
  induction L generalizing acc with
  | nil => exact .inl h
  | cons y r ih =>
    simp only [lastOpenA] at h
    rcases ih h with h' | h'
    · split at h'
      · cases h'; exact .inr List.mem_cons_self
      · cases h'
    · exact .inr (List.mem_cons_of_mem _ h')

theorem finalQ_of_BL {d o h acc} {sc : Sc} (g : G d o h acc sc) (hbl : BL d sc) (hdead : d.size < sc.cur) :
    FinalQ d o sc := by
  rcases hbl with hf | ⟨_, hb, hn⟩
  · refine ⟨hdead, (by rw [hf]; intro x hx; cases hx), ?_⟩
    intro x hx hxb hO
    have hlof : Lof sc = sc.evStack.reverse := by simp [Lof, hf]
    rcases g.st.ev.2 with hst | ⟨b, hst, _⟩
    · rw [hlof, hst] at hx; cases hx
    · rw [hlof, hst] at hx
      simp only [List.reverse_cons, List.reverse_nil, List.nil_append, List.mem_singleton] at hx
      subst hx
      apply g.en hO hdead
      rw [hlof, hst]
      simp [lastOpen, lastOpenA, hxb]
  · exact ⟨hdead, hn, fun x hx hxb _ => .inl (by rw [hb x hx hxb]; exact Nat.le_refl _)⟩

theorem covCA_ge {size : Nat} {E : Prop} {i : Nat} : ∀ (L : List Evp) (acc : Option Evp),
    (∀ x ∈ L, x.1.isBeginning = true → size ≤ x.2 ∨ E) → NoCtx L →
    (∀ b, acc = some b → size ≤ b.2 ∨ E) → covCA acc L i → size ≤ i ∨ E := by
  intro L
  induction L with
  | nil => intro acc _ _ _ h; cases h
  | cons x r ih =>
    intro acc hB hN hA h
    simp only [covCA] at h
    rcases h with h | h
    · unfold itemCov at h
      split at h
      · cases h
      · split at h
        · cases acc with
          | none => cases h
          | some b =>
            rcases hA b rfl with hb | hb
            · exact .inl (Nat.le_trans hb h.1)
            · exact .inr hb
        · next h1 h2 =>
          rcases hN x List.mem_cons_self with h3 | h3
          · exact absurd h3 h1
          · exact absurd h3 h2
    · refine ih _ (fun y hy => hB y (List.mem_cons_of_mem _ hy)) (fun y hy => hN y (List.mem_cons_of_mem _ hy)) ?_ h
      intro b hb
      split at hb
      · next hxb => cases hb; exact hB _ List.mem_cons_self hxb
      · cases hb

/-- at the end of the lexeme stream the pending events cover no byte of the file -/
theorem final_cov {d o h acc} {sc : Sc} (g : G d o h acc sc) (hq : FinalQ d o sc) (hO : OracleInside d o)
    (i : Nat) (hc : CovL (Lof sc) i) : d.size ≤ i ∨ EofInException d o := by
  obtain ⟨_, hn, hb⟩ := hq
  have hN : NoCtx (Lof sc) := by
    intro x hx
    simp only [Lof, List.mem_append, List.mem_reverse] at hx
    rcases hx with hx | hx
    · rcases g.st.ev.2 with hst | ⟨b, hst, hbb⟩
      · rw [hst] at hx; cases hx
      · rw [hst] at hx; simp only [List.mem_singleton] at hx; subst hx; exact .inl hbb
    · exact hn x hx
  rcases hc with hc | ⟨b, hb1, hb2⟩
  · exact covCA_ge (Lof sc) none (fun x hx hxb => hb x hx hxb hO) hN (fun b hb' => by cases hb') hc
  · have hbb := (lastOpen_some (h := 0) hb1).1
    rcases lastOpenA_mem hb1 with h' | h'
    · cases h'
    · rcases hb b h' hbb hO with h'' | h''
      · exact .inl (Nat.le_trans h'' hb2)
      · exact .inr h''

/-! ### the loops of `Next` and `lexAll` -/

theorem suffix_Q {d : Src} {cur : Nat} {l l' : List Evp} (hsub : ∀ x ∈ l', x ∈ l)
    (h : d.size < cur ∧ BeginsAt l d.size ∧ NoCtx l) : d.size < cur ∧ BeginsAt l' d.size ∧ NoCtx l' :=
  ⟨h.1, fun x hx => h.2.1 x (hsub x hx), fun x hx => h.2.2 x (hsub x hx)⟩

theorem byteLoop_tr {d o} (F : Facts) : ∀ (fuel : Nat) (h : Nat) (acc : List Lexeme) (sc sc' : Sc)
    (ol : Option Lexeme), G d o h acc sc → BL d sc → byteLoop d o fuel sc = .ok (ol, sc') →
    (∃ h', G d o h' (optAcc ol acc) sc') ∧ (ol ≠ none → QInv d sc') ∧ (ol = none → FinalQ d o sc') := by
  intro fuel
  induction fuel with
  | zero => intro h acc sc sc' ol _ _ hb; simp [byteLoop] at hb
  | succ fuel ih =>
    intro h acc sc sc' ol g hbl hb
    unfold byteLoop at hb
    by_cases hc : sc.cur > d.size
    · simp [hc] at hb
      obtain ⟨rfl, rfl⟩ := hb
      exact ⟨⟨h, g⟩, fun hne => absurd rfl hne, fun _ => finalQ_of_BL g hbl hc⟩
    · simp only [hc, if_false] at hb
      have hle : sc.cur ≤ d.size := Nat.le_of_not_gt hc
      have hf0 : sc.finds = [] := by
        rcases hbl with hf | ⟨hd, _⟩
        · exact hf
        · exact absurd hd hc
      cases hs : byteStep d o sc with
      | error s => simp [hs] at hb
      | ok sc2 =>
        simp only [hs] at hb
        obtain ⟨htr, hen, hq⟩ := byteStep_tr F g.st g.reach g.tr hle hs
        have hq := hq hf0
        have g2 : G d o h acc sc2 :=
          ⟨ScanLex.byteStep_inv F.lex g.st hle hs, Reach.step g.reach hle hs, htr, hen, g.accle⟩
        cases hd : drainFinds sc2.finds.length sc2 with
        | error s => simp [hd] at hb
        | ok res =>
          obtain ⟨ol3, sc3⟩ := res
          obtain ⟨⟨h3, g3⟩, hcur3, hsome, hnone⟩ := drain_tr _ _ _ _ _ _ g2 hd
          cases ol3 with
          | some lex =>
            simp [hd] at hb
            obtain ⟨rfl, rfl⟩ := hb
            refine ⟨⟨h3, g3⟩, fun _ => ?_, fun hn => by cases hn⟩
            have hfin := hsome (by simp)
            by_cases hc0 : curByte d sc = 0
            · obtain ⟨hb1, hb2, hb3⟩ := hq.2 hc0
              by_cases hlive : sc2.cur ≤ d.size
              · have := hb3 hlive
                refine .inl ?_
                rw [hfin, this]
                intro x hx; simp [afterFirst] at hx
              · refine .inr ?_
                rw [hfin, hcur3]
                exact suffix_Q (afterFirst_sub _) ⟨Nat.lt_of_not_le hlive, hb1, hb2⟩
            · exact .inl (by rw [hfin]; exact hq.1 hc0)
          | none =>
            simp only [hd] at hb
            have hfin := hnone rfl
            simp only [List.drop_length] at hfin
            exact ih _ _ _ _ _ g3 (.inl hfin) hb

theorem next_tr {d o} (F : Facts) {fuel h acc} {sc sc' : Sc} {ol : Option Lexeme}
    (g : G d o h acc sc) (hq : QInv d sc) (hn : next d o fuel sc = .ok (ol, sc')) :
    (∃ h', G d o h' (optAcc ol acc) sc') ∧ (ol ≠ none → QInv d sc') ∧ (ol = none → FinalQ d o sc') := by
  unfold next at hn
  cases hf : sc.finds with
  | nil => simp only [hf] at hn; exact byteLoop_tr F _ _ _ _ _ _ g (.inl hf) hn
  | cons ev rest =>
    simp only [hf] at hn
    cases hp : processEvent { sc with finds := rest } ev with
    | error s => simp [hp] at hn
    | ok res =>
      obtain ⟨ol1, sc1⟩ := res
      obtain ⟨⟨h', g1⟩, hfr, hcur, hkind⟩ := event_tr g hf hp
      have hsub : ∀ x ∈ rest, x ∈ sc.finds := fun x hx => by rw [hf]; exact List.mem_cons_of_mem _ hx
      cases ol1 with
      | none =>
        simp only [hp] at hn
        have hb : ev.1.isBeginning = true := hkind.mp rfl
        obtain ⟨hst0, hrest⟩ := begin_head g.st.ev hf hb
        have hbl : BL d sc1 := by
          rcases hq with hq | hq
          · refine .inl ?_
            rw [hfr]
            exact hrest (fun x hx => hq x (hsub x hx))
          · refine .inr ⟨by rw [hcur]; exact hq.1, ?_, ?_⟩
            · have hl : Lof sc1 = Lof sc := by
                unfold processEvent at hp
                simp [hb] at hp
                rw [← hp]
                simp [Lof, hst0, hf]
              rw [hl]
              simp only [Lof, hst0, List.reverse_nil, List.nil_append]
              exact hq.2.1
            · rw [hfr]; exact fun x hx => hq.2.2 x (hsub x hx)
        obtain ⟨hg, h1, h2⟩ := byteLoop_tr F _ _ _ _ _ _ g1 hbl hn
        exact ⟨hg, h1, h2⟩
      | some lex =>
        simp [hp] at hn
        obtain ⟨rfl, rfl⟩ := hn
        refine ⟨⟨h', g1⟩, fun _ => ?_, fun hn => by cases hn⟩
        rcases hq with hq | hq
        · exact .inl (by rw [hfr]; exact fun x hx => hq x (hsub x hx))
        · refine .inr ?_
          rw [hfr, hcur]
          exact suffix_Q hsub hq

theorem inLex_reverse {acc : List Lexeme} {i : Nat} : InLex acc.reverse i ↔ InLex acc i := by
  simp [InLex]

theorem G.init {d o} (F : Facts) : G d o 0 [] Sc.init ∧ QInv d Sc.init := by
  have hg := F.glob
  simp only [globalOK, Bool.and_eq_true, Bool.not_eq_true'] at hg
  refine ⟨⟨stRel_init init_ok, Reach.init, ⟨?_, ?_⟩, ?_, (fun l hl => by cases hl)⟩, .inl ?_⟩
  · intro hs
    have : isSign Sc.init.step = false := hg.1.2
    rw [this] at hs; cases hs
  · intro i hi; simp [Sc.init] at hi
  · intro _ hd; simp [Sc.init] at hd
  · intro x hx; simp [Sc.init] at hx

theorem lexAll_tr {d o} (F : Facts) : ∀ (n : Nat) (h : Nat) (acc : List Lexeme) (sc : Sc),
    G d o h acc sc → QInv d sc → (lexAll d o n sc acc).2.1 = none →
    ∃ h' acc', (lexAll d o n sc acc).1 = acc'.reverse ∧ G d o h' acc' (lexAll d o n sc acc).2.2 ∧
      FinalQ d o (lexAll d o n sc acc).2.2 := by
  intro n
  induction n with
  | zero => intro h acc sc _ _ he; simp [lexAll] at he
  | succ n ih =>
    intro h acc sc g hq he
    unfold lexAll at he ⊢
    cases hn : next d o (4 * (d.size + 2)) sc with
    | error s => simp [hn] at he
    | ok res =>
      obtain ⟨ol, sc'⟩ := res
      obtain ⟨⟨h', g'⟩, hq1, hq2⟩ := next_tr F g hq hn
      cases ol with
      | none =>
        exact ⟨h', acc, rfl, g', hq2 rfl⟩
      | some lex =>
        simp only [hn] at he ⊢
        exact ih h' (lex :: acc) sc' g' (hq1 (by simp)) he

/-- the run-level statement: at a clean end every byte of the file lies in a delivered lexeme or is skipped
for a listed reason -/
theorem final_bytes {d o h acc} {sc : Sc} (g : G d o h acc sc) (hfq : FinalQ d o sc) (hO : OracleInside d o)
    (i : Nat) (hi : i < d.size) : InLex acc i ∨ Skipped d o i ∨ EofInException d o := by
  rcases g.tr.cov i (Nat.lt_trans hi hfq.1) hi with hc | hc | hc | hc
  · exact .inl hc
  · rcases final_cov g hfq hO i hc with h1 | h1
    · omega
    · exact .inr (.inr h1)
  · exact .inr (.inl hc)
  · have := hfq.1; omega

/-- every configuration of a run satisfies the invariants, for some list of delivered lexemes -/
theorem reach_G {d o} (F : Facts) {sc : Sc} (hR : Reach d o sc) : ∃ h acc, G d o h acc sc := by
  induction hR with
  | init => exact ⟨0, [], (G.init F).1⟩
  | @step sc sc' _ hle hs ih =>
    obtain ⟨h, acc, g⟩ := ih
    obtain ⟨htr, hen, _⟩ := byteStep_tr F g.st g.reach g.tr hle hs
    exact ⟨h, acc, ScanLex.byteStep_inv F.lex g.st hle hs, Reach.step g.reach hle hs, htr, hen, g.accle⟩
  | @event sc sc' ev rest lex _ hf hp ih =>
    obtain ⟨h, acc, g⟩ := ih
    obtain ⟨⟨h', g'⟩, _⟩ := event_tr g hf hp
    exact ⟨h', _, g'⟩
  | @params sc p _ ih =>
    obtain ⟨h, acc, g⟩ := ih
    exact ⟨h, acc, g.params p⟩

theorem le_bndL {d o} : ∀ {h : Nat} {L : List Evp}, WfL d o h L → h ≤ bndL h L := by
  intro h L w
  induction w with
  | nil h => exact Nat.le_refl _
  | opn h b hb hh => simpa [bndL, evEnd, hb] using hh
  | pair h b e rest hb hh hg _ ih =>
    have he := (matches_begin_end hg.1).2.2.1
    have : bndL h (b :: e :: rest) = bndL (e.2 + 1) rest := by simp [bndL, evEnd, he]
    rw [this]
    have := hg.2.1
    omega
  | ctx h x rest h1 _ hh _ _ ih =>
    have : bndL h (x :: rest) = bndL (x.2 + 1) rest := by simp [bndL, evEnd, h1]
    rw [this]
    omega

/-- **one byte step**: a byte that the step leaves behind uncovered is skipped for a listed reason (or it is
the `'/'` after which the scanner waits in the annotation-sign state) -/
theorem step_skips {d o} (F : Facts) {sc sc2 : Sc} (hR : Reach d o sc) (hlt : sc.cur < d.size)
    (hs : byteStep d o sc = .ok sc2) (hadv : sc.cur < sc2.cur) (hunc : ¬ CovL (Lof sc2) sc.cur) :
    Skipped d o sc.cur ∨ (isSign sc2.step = true ∧ sc2.cur = sc.cur + 1 ∧ d.get sc.cur = 47) := by
  obtain ⟨h, acc, g⟩ := reach_G F hR
  have hle : sc.cur ≤ d.size := Nat.le_of_lt hlt
  obtain ⟨htr, _, _⟩ := byteStep_tr F g.st g.reach g.tr hle hs
  rcases htr.cov sc.cur hadv hlt with hc | hc | hc | hc
  · exfalso
    obtain ⟨l, hl, hl1, hl2⟩ := hc
    obtain ⟨ce, _, _, hg, _⟩ := g.st.ent hle
    have h1 := g.accle l hl
    have h2 := le_bndL g.st.ev.1
    omega
  · exact absurd hc hunc
  · exact .inl hc
  · refine .inr ⟨hc.1, hc.2.symm, ?_⟩
    have := (htr.sign hc.1).2
    rw [← hc.2] at this
    simpa using this

end JSight.ScanTrivia
