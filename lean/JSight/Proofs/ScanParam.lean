import JSight.Model.Scanner
/-!
Helpers of `Props/C17_Scan.lean`: the run of the scanner model over a quoted parameter.

* `At d p l` / `Holds d content`: the file holds the bytes `l` at offset `p` / is `content`.
* `stepQ_*`, `stepQS_*`, `stepPA*`, `stepEK_eof`: ONE byte step (`byteStep`) of the handful of states involved
  (`stateParameterOrAnnotation`, `…AfterFirstSpace`, `stateParameterStart` via its call, `stateParameterInQuoted`,
  `stateParameterInQuotedSlash`, `stateExpectKeyword` at the end of the file) on a symbolic byte, obtained by
  `simp [code, …]` on these states of the regenerated table — re-checked against whatever the table says.
* `loopQ`: the in-quotes loop consumes `escBody v` (induction over `v`).
* `param_open`, `param_byteLoop`, `param_badEscape`, `param_bslEof`, `param_lineEnd`, `param_eof`: from ANY
  configuration in `stateParameterOrAnnotation` (after any keyword, or after a previous parameter).
* `get_*`: whole runs (`lexAll`) of files that start with `GET`: one parameter, two parameters, a parameter and
  an annotation (`stepPAS_slash` … `annot_byteLoop`), and the error cases.
-/
namespace JSight.ScanParam
open JSight JSight.Gen

/-- the file holds the bytes `l` at offset `p` (all of them inside the file) -/
def At (d : Src) : Nat → Bytes → Prop
  | _, [] => True
  | p, c :: l => p < d.size ∧ d.get p = c ∧ At d (p + 1) l

/-- `d` is the file `content` -/
def Holds (d : Src) (content : Bytes) : Prop := d.size = content.length ∧ ∀ i, d.get i = content.getD i 0

theorem holds_ofList (b : Bytes) : Holds (Src.ofList b) b := ⟨rfl, fun _ => rfl⟩

theorem holds_ofArray (b : Bytes) : Holds (Src.ofArray b.toArray) b :=
  ⟨by simp [Src.ofArray], fun i => by simp [Src.ofArray]⟩

theorem at_of_holds {d : Src} : ∀ (l a b : Bytes), Holds d (a ++ l ++ b) → At d a.length l
  | [], _, _, _ => trivial
  | c :: l, a, b, h => by
    refine ⟨?_, ?_, ?_⟩
    · rw [h.1]; simp
    · rw [h.2]; simp
    · have h' : Holds d ((a ++ [c]) ++ l ++ b) := by simpa using h
      simpa using at_of_holds l (a ++ [c]) b h'

theorem At.append {d : Src} : ∀ {a : Bytes} {p : Nat} {b : Bytes}, At d p (a ++ b) → At d p a ∧ At d (p + a.length) b
  | [], _, _, h => ⟨trivial, by simpa using h⟩
  | c :: a, p, b, h => by
    obtain ⟨h1, h2, h3⟩ := h
    obtain ⟨h4, h5⟩ := At.append h3
    refine ⟨⟨h1, h2, h4⟩, ?_⟩
    have : p + (c :: a).length = p + 1 + a.length := by simp; omega
    rw [this]; exact h5

theorem At.le {d : Src} : ∀ {l : Bytes} {p : Nat}, At d p l → p ≤ d.size → p + l.length ≤ d.size
  | [], _, _, h => by simpa using h
  | c :: l, p, h, _ => by
    have := At.le h.2.2 h.1
    simp; omega

theorem slice_succ (d : Src) (p n : Nat) : d.slice p (p + (n + 1)) = d.get p :: d.slice (p + 1) (p + 1 + n) := by
  simp only [Src.slice]
  have e1 : p + (n + 1) - p = n + 1 := by omega
  have e2 : p + 1 + n - (p + 1) = n := by omega
  rw [e1, e2, List.range_succ_eq_map]
  simp [Function.comp_def, Nat.add_assoc, Nat.add_comm 1]

theorem At.slice {d : Src} : ∀ {l : Bytes} {p : Nat}, At d p l → d.slice p (p + l.length) = l
  | [], p, _ => by simp [Src.slice]
  | c :: l, p, h => by
    rw [List.length_cons, slice_succ, h.2.1, At.slice h.2.2]

/-! ### one byte step of the states involved (facts about the regenerated table) -/

/-- a configuration with an empty queue of found events and no pending rewind -/
abbrev cfg (st : St) (stk : List St) (es : List (Ev × Nat)) (lp : List (Nat × Nat)) (p : Nat) : Sc :=
  ⟨st, stk, [], es, lp, p, 0⟩

section steps
set_option linter.unusedSimpArgs false
variable (d : Src) (o : Oracle) (stk : List St) (es : List (Ev × Nat)) (lp : List (Nat × Nat)) (p : Nat)

/-- in quotes: an ordinary byte is consumed -/
theorem stepQ_plain (hp : p < d.size) (h0 : d.get p ≠ 0) (h10 : d.get p ≠ 10) (h13 : d.get p ≠ 13)
    (h92 : d.get p ≠ 92) (h34 : d.get p ≠ 34) :
    byteStep d o (cfg .stateParameterInQuoted stk es lp p) = .ok (cfg .stateParameterInQuoted stk es lp (p + 1)) := by
  simp [byteStep, curByte, Nat.ne_of_lt hp, interp, stepFuel, code, Code.select, execOps, h0, h10, h13, h92, h34]

/-- in quotes: a backslash opens an escape -/
theorem stepQ_bsl (hp : p < d.size) (h : d.get p = 92) :
    byteStep d o (cfg .stateParameterInQuoted stk es lp p) = .ok (cfg .stateParameterInQuotedSlash stk es lp (p + 1)) := by
  simp [byteStep, curByte, Nat.ne_of_lt hp, interp, stepFuel, code, Code.select, execOps, execOp, h]

/-- in quotes: the quote closes the parameter (`ParameterEnd` found at this byte) -/
theorem stepQ_quote (hp : p < d.size) (h : d.get p = 34) :
    byteStep d o (cfg .stateParameterInQuoted stk es lp p) =
      .ok ⟨.stateParameterOrAnnotation, stk, [(.parameterEnd, p)], es, lp, p + 1, 0⟩ := by
  simp [byteStep, curByte, Nat.ne_of_lt hp, interp, stepFuel, code, Code.select, execOps, execOp, h]

/-- in quotes: a line end or a zero byte is an error at this byte -/
theorem stepQ_bad (hp : p < d.size) (h : d.get p = 10 ∨ d.get p = 13 ∨ d.get p = 0) :
    byteStep d o (cfg .stateParameterInQuoted stk es lp p) = .error (.diag p) := by
  rcases h with h | h | h <;>
    simp [byteStep, curByte, Nat.ne_of_lt hp, interp, stepFuel, code, Code.select, execOps, execOp, h]

/-- in quotes: the end of the file is an error at the end of the file -/
theorem stepQ_eof (hp : p = d.size) :
    byteStep d o (cfg .stateParameterInQuoted stk es lp p) = .error (.diag p) := by
  simp [byteStep, curByte, hp, interp, stepFuel, code, Code.select, execOps, execOp]

/-- after a backslash: `"` and `\` are accepted -/
theorem stepQS_ok (hp : p < d.size) (h : d.get p = 34 ∨ d.get p = 92) :
    byteStep d o (cfg .stateParameterInQuotedSlash stk es lp p) = .ok (cfg .stateParameterInQuoted stk es lp (p + 1)) := by
  rcases h with h | h <;>
    simp [byteStep, curByte, Nat.ne_of_lt hp, interp, stepFuel, code, Code.select, execOps, execOp, h]

/-- after a backslash: any other byte is an error at this byte -/
theorem stepQS_bad (hp : p < d.size) (h34 : d.get p ≠ 34) (h92 : d.get p ≠ 92) :
    byteStep d o (cfg .stateParameterInQuotedSlash stk es lp p) = .error (.diag p) := by
  by_cases h0 : d.get p = 0
  · simp [byteStep, curByte, Nat.ne_of_lt hp, h0]
  · simp [byteStep, curByte, Nat.ne_of_lt hp, interp, stepFuel, code, Code.select, execOps, execOp, h0, h34, h92]

/-- after a backslash: the end of the file is an error at the end of the file -/
theorem stepQS_eof (hp : p = d.size) :
    byteStep d o (cfg .stateParameterInQuotedSlash stk es lp p) = .error (.diag p) := by
  simp [byteStep, curByte, hp, interp, stepFuel, code, Code.select, execOps, execOp]

/-- after a keyword: the first blank -/
theorem stepPA_blank (hp : p < d.size) (h : d.get p = 32 ∨ d.get p = 9) :
    byteStep d o (cfg .stateParameterOrAnnotation stk es lp p) =
      .ok (cfg .stateParameterOrAnnotationAfterFirstSpace stk es lp (p + 1)) := by
  rcases h with h | h <;>
    simp [byteStep, curByte, Nat.ne_of_lt hp, interp, stepFuel, code, Code.select, execOps, execOp, h]

/-- after the blank(s): further blanks -/
theorem stepPAS_blank (hp : p < d.size) (h : d.get p = 32 ∨ d.get p = 9) :
    byteStep d o (cfg .stateParameterOrAnnotationAfterFirstSpace stk es lp p) =
      .ok (cfg .stateParameterOrAnnotationAfterFirstSpace stk es lp (p + 1)) := by
  rcases h with h | h <;>
    simp [byteStep, curByte, Nat.ne_of_lt hp, interp, stepFuel, code, Code.select, execOps, execOp, h]

/-- after the blank(s): the opening quote (`ParameterBegin` found at this byte) -/
theorem stepPAS_quote (hp : p < d.size) (h : d.get p = 34) :
    byteStep d o (cfg .stateParameterOrAnnotationAfterFirstSpace stk es lp p) =
      .ok ⟨.stateParameterInQuoted, stk, [(.parameterBegin, p)], es, lp, p + 1, 0⟩ := by
  simp [byteStep, curByte, Nat.ne_of_lt hp, interp, stepFuel, code, Code.select, execOps, execOp, h]

/-- after the closing quote: a line end returns to the state the keyword pushed -/
theorem stepPA_eol (t : St) (hp : p < d.size) (h : d.get p = 10 ∨ d.get p = 13) :
    byteStep d o (cfg .stateParameterOrAnnotation (t :: stk) es lp p) = .ok (cfg t stk es lp (p + 1)) := by
  rcases h with h | h <;>
    simp [byteStep, curByte, Nat.ne_of_lt hp, interp, stepFuel, code, Code.select, execOps, execOp, h]

/-- after the closing quote: the end of the file returns to the state the keyword pushed -/
theorem stepPA_eof (t : St) (hp : p = d.size) :
    byteStep d o (cfg .stateParameterOrAnnotation (t :: stk) es lp p) = .ok (cfg t stk es lp (p + 1)) := by
  simp [byteStep, curByte, hp, interp, stepFuel, code, Code.select, execOps, execOp]

/-- `stateExpectKeyword` at the end of the file -/
theorem stepEK_eof (hp : p = d.size) :
    byteStep d o (cfg .stateExpectKeyword stk es lp p) = .ok (cfg .stateExpectKeyword stk es lp (p + 1)) := by
  simp [byteStep, curByte, hp, interp, stepFuel, code, Code.select, execOps, execOp]

end steps

/-! ### the byte loop -/

theorem byteLoop_ok {d : Src} {o : Oracle} {sc sc2 : Sc} (fuel : Nat) (hle : sc.cur ≤ d.size)
    (hs : byteStep d o sc = .ok sc2) (hf : sc2.finds = []) :
    byteLoop d o (fuel + 1) sc = byteLoop d o fuel sc2 := by
  rw [byteLoop, if_neg (Nat.not_lt.mpr hle), hs]
  simp [hf, drainFinds]

theorem byteLoop_err {d : Src} {o : Oracle} {sc : Sc} {s : Stop} (fuel : Nat) (hle : sc.cur ≤ d.size)
    (hs : byteStep d o sc = .error s) : byteLoop d o (fuel + 1) sc = .error s := by
  rw [byteLoop, if_neg (Nat.not_lt.mpr hle), hs]

/-- **the in-quotes loop**: the escaped spelling of a value without line ends and zero bytes is consumed
entirely, the scanner stays in `stateParameterInQuoted` and nothing else changes -/
theorem loopQ (d : Src) (o : Oracle) (stk : List St) (es : List (Ev × Nat)) (lp : List (Nat × Nat)) :
    ∀ (v : Bytes) (p fuel : Nat), (∀ c ∈ v, c ≠ 10 ∧ c ≠ 13 ∧ c ≠ 0) → At d p (escBody v) →
      byteLoop d o (fuel + (escBody v).length) (cfg .stateParameterInQuoted stk es lp p) =
        byteLoop d o fuel (cfg .stateParameterInQuoted stk es lp (p + (escBody v).length))
  | [], p, fuel, _, _ => by simp [escBody]
  | c :: r, p, fuel, hv, hat => by
    have hc := hv c (by simp)
    have hr : ∀ x ∈ r, x ≠ 10 ∧ x ≠ 13 ∧ x ≠ 0 := fun x hx => hv x (List.mem_cons_of_mem _ hx)
    by_cases h : (c == B.quote || c == B.bsl) = true
    · have he : escBody (c :: r) = B.bsl :: c :: escBody r := by rw [escBody, if_pos h]
      rw [he] at hat ⊢
      obtain ⟨h1, h2, h3, h4, h5⟩ := hat
      have hcc : d.get (p + 1) = 34 ∨ d.get (p + 1) = 92 := by
        rw [h4]; simpa [B.quote, B.bsl] using h
      have e1 : fuel + (B.bsl :: c :: escBody r).length = (fuel + (escBody r).length + 1) + 1 := by
        simp only [List.length_cons]; omega
      have e2 : p + (B.bsl :: c :: escBody r).length = p + 1 + 1 + (escBody r).length := by
        simp only [List.length_cons]; omega
      rw [e1, e2, byteLoop_ok _ (Nat.le_of_lt h1) (stepQ_bsl d o stk es lp p h1 h2) rfl,
        byteLoop_ok _ (Nat.le_of_lt h3) (stepQS_ok d o stk es lp (p + 1) h3 hcc) rfl]
      exact loopQ d o stk es lp r (p + 1 + 1) fuel hr h5
    · have he : escBody (c :: r) = c :: escBody r := by rw [escBody, if_neg h]
      rw [he] at hat ⊢
      obtain ⟨h1, h2, h3⟩ := hat
      have hq : c ≠ 34 ∧ c ≠ 92 := by simpa [B.quote, B.bsl] using h
      have e1 : fuel + (c :: escBody r).length = (fuel + (escBody r).length) + 1 := by
        simp only [List.length_cons]; omega
      have e2 : p + (c :: escBody r).length = p + 1 + (escBody r).length := by
        simp only [List.length_cons]; omega
      rw [e1, e2, byteLoop_ok _ (Nat.le_of_lt h1)
        (stepQ_plain d o stk es lp p h1 (h2 ▸ hc.2.2) (h2 ▸ hc.1) (h2 ▸ hc.2.1) (h2 ▸ hq.2) (h2 ▸ hq.1)) rfl]
      exact loopQ d o stk es lp r (p + 1) fuel hr h3

/-- a byte step that finds one Begin event: the event is shifted onto the stack of open events -/
theorem byteLoop_begin {d : Src} {o : Oracle} {sc : Sc} {st : St} {stk : List St} {e : Ev} {q : Nat}
    {es : List (Ev × Nat)} {lp : List (Nat × Nat)} {p' : Nat} (fuel : Nat) (hle : sc.cur ≤ d.size)
    (hs : byteStep d o sc = .ok ⟨st, stk, [(e, q)], es, lp, p', 0⟩) (he : e.isBeginning = true) :
    byteLoop d o (fuel + 1) sc = byteLoop d o fuel (cfg st stk ((e, q) :: es) lp p') := by
  rw [byteLoop, if_neg (Nat.not_lt.mpr hle), hs]
  simp [drainFinds, processEvent, he]

/-- a byte step that finds `ParameterEnd` while `ParameterBegin` is open: the parameter lexeme is returned -/
theorem byteLoop_paramEnd {d : Src} {o : Oracle} {sc : Sc} {st : St} {stk : List St} {b q : Nat}
    {es : List (Ev × Nat)} {lp : List (Nat × Nat)} {p' : Nat} (fuel : Nat) (hle : sc.cur ≤ d.size)
    (hs : byteStep d o sc = .ok ⟨st, stk, [(.parameterEnd, q)], (.parameterBegin, b) :: es, lp, p', 0⟩) :
    byteLoop d o (fuel + 1) sc =
      .ok (some ⟨.parameter, b, q + 1⟩, cfg st stk es (lp ++ [(b, q + 1)]) p') := by
  rw [byteLoop, if_neg (Nat.not_lt.mpr hle), hs]
  simp [drainFinds, processEvent, Ev.isBeginning, Ev.isEnding, Ev.matches, Ev.lexTy]

/-- further blanks before the parameter -/
theorem loopBlanks (d : Src) (o : Oracle) (stk : List St) (es : List (Ev × Nat)) (lp : List (Nat × Nat)) :
    ∀ (ws : Bytes) (p fuel : Nat), (∀ w ∈ ws, w = 32 ∨ w = 9) → At d p ws →
      byteLoop d o (fuel + ws.length) (cfg .stateParameterOrAnnotationAfterFirstSpace stk es lp p) =
        byteLoop d o fuel (cfg .stateParameterOrAnnotationAfterFirstSpace stk es lp (p + ws.length))
  | [], _, _, _, _ => by simp
  | w :: ws, p, fuel, hw, hat => by
    obtain ⟨h1, h2, h3⟩ := hat
    have e1 : fuel + (w :: ws).length = fuel + ws.length + 1 := by simp only [List.length_cons]; omega
    have e2 : p + (w :: ws).length = p + 1 + ws.length := by simp only [List.length_cons]; omega
    rw [e1, e2, byteLoop_ok _ (Nat.le_of_lt h1) (stepPAS_blank d o stk es lp p h1 (h2 ▸ hw w (by simp))) rfl]
    exact loopBlanks d o stk es lp ws (p + 1) fuel (fun x hx => hw x (List.mem_cons_of_mem _ hx)) h3

theorem quoteParam_length (v : Bytes) : (quoteParam v).length = (escBody v).length + 2 := by
  simp [quoteParam]

/-- **a quoted parameter after a keyword (or after another parameter)**: from `stateParameterOrAnnotation`,
blanks and then `quoteParam v` yield the Parameter lexeme whose bytes are exactly that occurrence of
`quoteParam v`; the scanner is back in `stateParameterOrAnnotation` right after the closing quote. -/
theorem param_byteLoop (d : Src) (o : Oracle) (stk : List St) (es : List (Ev × Nat)) (lp : List (Nat × Nat))
    (v : Bytes) (sp : UInt8) (ws : Bytes) (p fuel : Nat)
    (hv : ∀ c ∈ v, c ≠ 10 ∧ c ≠ 13 ∧ c ≠ 0) (hsp : sp = 32 ∨ sp = 9) (hws : ∀ w ∈ ws, w = 32 ∨ w = 9)
    (hat : At d p (sp :: (ws ++ quoteParam v))) :
    byteLoop d o (fuel + 1 + ws.length + (quoteParam v).length) (cfg .stateParameterOrAnnotation stk es lp p) =
      .ok (some ⟨.parameter, p + 1 + ws.length, p + 1 + ws.length + (quoteParam v).length⟩,
        cfg .stateParameterOrAnnotation stk es
          (lp ++ [(p + 1 + ws.length, p + 1 + ws.length + (quoteParam v).length)])
          (p + 1 + ws.length + (quoteParam v).length)) := by
  obtain ⟨h1, h2, h3⟩ := hat
  obtain ⟨h4, h5⟩ := At.append h3
  obtain ⟨h6, h7, h8⟩ := h5
  obtain ⟨h9, h10⟩ := At.append h8
  obtain ⟨h11, h12, -⟩ := h10
  have hle := At.le h4 h1
  generalize hb : p + 1 + ws.length = b at *
  have e1 : fuel + 1 + ws.length + (quoteParam v).length = (((fuel + 1) + (escBody v).length + 1) + ws.length) + 1 := by
    rw [quoteParam_length]; omega
  rw [e1, byteLoop_ok _ (Nat.le_of_lt h1) (stepPA_blank d o stk es lp p h1 (h2 ▸ hsp)) rfl,
    loopBlanks d o stk es lp ws (p + 1) _ hws h4, hb,
    byteLoop_begin _ (Nat.le_of_lt h6) (stepPAS_quote d o stk es lp b h6 h7) rfl,
    loopQ d o stk ((.parameterBegin, b) :: es) lp v (b + 1) _ hv h9,
    byteLoop_paramEnd _ (Nat.le_of_lt h11) (stepQ_quote d o stk _ lp _ h11 h12)]
  have e2 : b + (quoteParam v).length = b + 1 + (escBody v).length + 1 := by rw [quoteParam_length]; omega
  rw [e2]

/-- the keyword `GET` at the start of a file: its lexeme, and `stateParameterOrAnnotation` after it -/
theorem get_next (d : Src) (o : Oracle) (fuel : Nat) (hat : At d 0 [71, 69, 84]) :
    next d o (fuel + 3) Sc.init =
      .ok (some ⟨.keyword, 0, 3⟩, cfg .stateParameterOrAnnotation [.stateExpectKeyword] [] [] 3) := by
  obtain ⟨h0, g0, h1, g1, h2, g2, -⟩ := hat
  have n0 : 0 ≠ d.size := Nat.ne_of_lt h0
  have n1 : 1 ≠ d.size := Nat.ne_of_lt h1
  have n2 : 2 ≠ d.size := Nat.ne_of_lt h2
  have l1 : ¬ 1 > d.size := by omega
  have l2 : ¬ 2 > d.size := by omega
  simp at g1 g2
  simp [next, Sc.init, byteLoop, byteStep, curByte, interp, stepFuel, code, Code.select, execOps, execOp,
    drainFinds, processEvent, Ev.isBeginning, Ev.isEnding, Ev.matches, Ev.lexTy, g0, g1, g2, n0, n1, n2, l1, l2]

/-- **the opening of a quoted parameter and any escaped prefix of its value**: the scanner is in
`stateParameterInQuoted`, `ParameterBegin` is open at the quote, nothing else changed -/
theorem param_open (d : Src) (o : Oracle) (stk : List St) (es : List (Ev × Nat)) (lp : List (Nat × Nat))
    (u : Bytes) (sp : UInt8) (ws : Bytes) (p fuel : Nat)
    (hu : ∀ c ∈ u, c ≠ 10 ∧ c ≠ 13 ∧ c ≠ 0) (hsp : sp = 32 ∨ sp = 9) (hws : ∀ w ∈ ws, w = 32 ∨ w = 9)
    (hat : At d p (sp :: (ws ++ 34 :: escBody u))) :
    byteLoop d o (fuel + (escBody u).length + 1 + ws.length + 1) (cfg .stateParameterOrAnnotation stk es lp p) =
      byteLoop d o fuel (cfg .stateParameterInQuoted stk ((.parameterBegin, p + 1 + ws.length) :: es) lp
        (p + 1 + ws.length + 1 + (escBody u).length)) := by
  obtain ⟨h1, h2, h3⟩ := hat
  obtain ⟨h4, h5⟩ := At.append h3
  obtain ⟨h6, h7, h8⟩ := h5
  rw [byteLoop_ok _ (Nat.le_of_lt h1) (stepPA_blank d o stk es lp p h1 (h2 ▸ hsp)) rfl,
    loopBlanks d o stk es lp ws (p + 1) _ hws h4,
    byteLoop_begin _ (Nat.le_of_lt h6) (stepPAS_quote d o stk es lp _ h6 h7) rfl,
    loopQ d o stk _ lp u _ _ hu h8]

/-- where the bytes after the escaped prefix are -/
theorem at_after {d : Src} {sp : UInt8} {ws u t : Bytes} {p : Nat}
    (hat : At d p (sp :: (ws ++ 34 :: (escBody u ++ t)))) :
    At d p (sp :: (ws ++ 34 :: escBody u)) ∧ At d (p + 1 + ws.length + 1 + (escBody u).length) t ∧
      p + 1 + ws.length + 1 + (escBody u).length ≤ d.size := by
  have e : sp :: (ws ++ 34 :: (escBody u ++ t)) = (sp :: (ws ++ 34 :: escBody u)) ++ t := by simp
  rw [e] at hat
  obtain ⟨h1, h2⟩ := At.append hat
  have e2 : p + (sp :: (ws ++ 34 :: escBody u)).length = p + 1 + ws.length + 1 + (escBody u).length := by
    simp only [List.length_cons, List.length_append]; omega
  rw [e2] at h2
  refine ⟨h1, h2, ?_⟩
  rw [← e2]
  exact At.le h1 (Nat.le_of_lt h1.1)

section errors
variable (d : Src) (o : Oracle) (stk : List St) (es : List (Ev × Nat)) (lp : List (Nat × Nat))
  (u : Bytes) (sp : UInt8) (ws : Bytes) (p fuel : Nat)
  (hu : ∀ c ∈ u, c ≠ 10 ∧ c ≠ 13 ∧ c ≠ 0) (hsp : sp = 32 ∨ sp = 9) (hws : ∀ w ∈ ws, w = 32 ∨ w = 9)
include hu hsp hws

/-- **bad escape**: a backslash before a byte other than `"` and `\` is an error at that byte -/
theorem param_badEscape (c : UInt8) (rest : Bytes) (h34 : c ≠ 34) (h92 : c ≠ 92)
    (hat : At d p (sp :: (ws ++ 34 :: (escBody u ++ 92 :: c :: rest)))) :
    byteLoop d o (fuel + 2 + (escBody u).length + 1 + ws.length + 1) (cfg .stateParameterOrAnnotation stk es lp p) =
      .error (.diag (p + 1 + ws.length + 1 + (escBody u).length + 1)) := by
  obtain ⟨h1, ⟨h2, h3, h4, h5, -⟩, -⟩ := at_after hat
  rw [param_open d o stk es lp u sp ws p _ hu hsp hws h1,
    byteLoop_ok _ (Nat.le_of_lt h2) (stepQ_bsl d o stk _ lp _ h2 h3) rfl,
    byteLoop_err _ (Nat.le_of_lt h4) (stepQS_bad d o stk _ lp _ h4 (h5 ▸ h34) (h5 ▸ h92))]

/-- a backslash at the very end of the file is an error at the end of the file -/
theorem param_bslEof
    (hat : At d p (sp :: (ws ++ 34 :: (escBody u ++ [92])))) (hsz : d.size = p + 1 + ws.length + 1 + (escBody u).length + 1) :
    byteLoop d o (fuel + 2 + (escBody u).length + 1 + ws.length + 1) (cfg .stateParameterOrAnnotation stk es lp p) =
      .error (.diag d.size) := by
  obtain ⟨h1, ⟨h2, h3, -⟩, -⟩ := at_after hat
  rw [param_open d o stk es lp u sp ws p _ hu hsp hws h1,
    byteLoop_ok _ (Nat.le_of_lt h2) (stepQ_bsl d o stk _ lp _ h2 h3) rfl,
    byteLoop_err _ (Nat.le_of_eq hsz.symm) (stepQS_eof d o stk _ lp _ hsz.symm), hsz]

/-- **unterminated quote**: a line end (or a zero byte) inside the quotes is an error at that byte -/
theorem param_lineEnd (e : UInt8) (rest : Bytes) (he : e = 10 ∨ e = 13 ∨ e = 0)
    (hat : At d p (sp :: (ws ++ 34 :: (escBody u ++ e :: rest)))) :
    byteLoop d o (fuel + 1 + (escBody u).length + 1 + ws.length + 1) (cfg .stateParameterOrAnnotation stk es lp p) =
      .error (.diag (p + 1 + ws.length + 1 + (escBody u).length)) := by
  obtain ⟨h1, ⟨h2, h3, -⟩, -⟩ := at_after hat
  rw [param_open d o stk es lp u sp ws p _ hu hsp hws h1,
    byteLoop_err _ (Nat.le_of_lt h2) (stepQ_bad d o stk _ lp _ h2 (h3 ▸ he))]

/-- **unterminated quote**: the end of the file inside the quotes is an error at the end of the file -/
theorem param_eof
    (hat : At d p (sp :: (ws ++ 34 :: escBody u))) (hsz : d.size = p + 1 + ws.length + 1 + (escBody u).length) :
    byteLoop d o (fuel + 1 + (escBody u).length + 1 + ws.length + 1) (cfg .stateParameterOrAnnotation stk es lp p) =
      .error (.diag d.size) := by
  rw [param_open d o stk es lp u sp ws p _ hu hsp hws hat,
    byteLoop_err _ (Nat.le_of_eq hsz.symm) (stepQ_eof d o stk _ lp _ hsz.symm), hsz]

end errors

/-! ### after the parameter; `next` and `lexAll` -/

theorem byteLoop_exit {d : Src} {o : Oracle} {sc : Sc} (fuel : Nat) (h : sc.cur > d.size) :
    byteLoop d o (fuel + 1) sc = .ok (none, sc) := by
  rw [byteLoop, if_pos h]

theorem next_cfg (d : Src) (o : Oracle) (fuel : Nat) (st : St) (stk : List St) (es : List (Ev × Nat))
    (lp : List (Nat × Nat)) (p : Nat) : next d o fuel (cfg st stk es lp p) = byteLoop d o fuel (cfg st stk es lp p) := rfl

/-- a line end that ends the file after the parameters of a top-level directive: clean end, no lexeme -/
theorem tail_eol (d : Src) (o : Oracle) (stk : List St) (es : List (Ev × Nat)) (lp : List (Nat × Nat))
    (e : UInt8) (p fuel : Nat) (he : e = 10 ∨ e = 13) (hat : At d p [e]) (hsz : d.size = p + 1) :
    byteLoop d o (fuel + 3) (cfg .stateParameterOrAnnotation (.stateExpectKeyword :: stk) es lp p) =
      .ok (none, cfg .stateExpectKeyword stk es lp (p + 2)) := by
  obtain ⟨h1, h2, -⟩ := hat
  rw [byteLoop_ok _ (Nat.le_of_lt h1) (stepPA_eol d o stk es lp p _ h1 (h2 ▸ he)) rfl,
    byteLoop_ok _ (Nat.le_of_eq hsz.symm) (stepEK_eof d o stk es lp _ hsz.symm) rfl,
    byteLoop_exit]
  show p + 1 + 1 > d.size
  omega

/-- the end of the file right after the parameter -/
theorem tail_eof (d : Src) (o : Oracle) (t : St) (stk : List St) (es : List (Ev × Nat)) (lp : List (Nat × Nat))
    (p fuel : Nat) (hsz : d.size = p) :
    byteLoop d o (fuel + 2) (cfg .stateParameterOrAnnotation (t :: stk) es lp p) =
      .ok (none, cfg t stk es lp (p + 1)) := by
  rw [byteLoop_ok _ (Nat.le_of_eq hsz.symm) (stepPA_eof d o stk es lp p _ hsz.symm) rfl, byteLoop_exit]
  show p + 1 > d.size
  omega

theorem lexAll_acc (d : Src) (o : Oracle) : ∀ (n : Nat) (sc : Sc) (acc : List Lexeme),
    lexAll d o n sc acc = (acc.reverse ++ (lexAll d o n sc []).1, (lexAll d o n sc []).2)
  | 0, _, _ => by simp [lexAll]
  | n + 1, sc, acc => by
    simp only [lexAll]
    cases hn : next d o (4 * (d.size + 2)) sc with
    | error s => simp
    | ok r =>
      obtain ⟨l, sc'⟩ := r
      cases l with
      | none => simp
      | some l =>
        simp only
        rw [lexAll_acc d o n sc' (l :: acc), lexAll_acc d o n sc' [l]]
        simp

theorem lexAll_some {d : Src} {o : Oracle} {sc sc' : Sc} {l : Lexeme} (n : Nat)
    (h : next d o (4 * (d.size + 2)) sc = .ok (some l, sc')) :
    lexAll d o (n + 1) sc [] = (l :: (lexAll d o n sc' []).1, (lexAll d o n sc' []).2) := by
  rw [lexAll, h]
  simp only
  rw [lexAll_acc]
  simp

theorem lexAll_none {d : Src} {o : Oracle} {sc sc' : Sc} (n : Nat)
    (h : next d o (4 * (d.size + 2)) sc = .ok (none, sc')) : lexAll d o (n + 1) sc [] = ([], none, sc') := by
  rw [lexAll, h]; rfl

theorem lexAll_error {d : Src} {o : Oracle} {sc : Sc} {s : Stop} (n : Nat)
    (h : next d o (4 * (d.size + 2)) sc = .error s) : lexAll d o (n + 1) sc [] = ([], some s, sc) := by
  rw [lexAll, h]; rfl

theorem fuel_split {F k : Nat} (h : k ≤ F) : ∃ f, F = f + k := ⟨F - k, by omega⟩

/-! ### files that start with `GET`, blanks, and a quoted parameter -/

/-- the configuration after the keyword `GET` -/
abbrev afterGET : Sc := cfg .stateParameterOrAnnotation [.stateExpectKeyword] [] [] 3

/-- the configuration after `GET`, blanks and a quoted parameter that occupies `[b, e1)` -/
abbrev afterParam (b e1 : Nat) : Sc := cfg .stateParameterOrAnnotation [.stateExpectKeyword] [] [(b, e1)] e1

section get
variable (d : Src) (o : Oracle) (sp : UInt8) (ws : Bytes) (hsp : sp = 32 ∨ sp = 9) (hws : ∀ w ∈ ws, w = 32 ∨ w = 9)

theorem get_first {body : Bytes} (hH : Holds d ([71, 69, 84] ++ body)) :
    next d o (4 * (d.size + 2)) Sc.init = .ok (some ⟨.keyword, 0, 3⟩, afterGET) := by
  have hat : At d 0 [71, 69, 84] := at_of_holds [71, 69, 84] [] body (by simpa using hH)
  obtain ⟨f, hf⟩ := fuel_split (F := 4 * (d.size + 2)) (k := 3) (by omega)
  rw [hf]; exact get_next d o f hat

include hsp hws

/-- `GET`, blanks, `quoteParam v`, then anything: the first two lexemes -/
theorem get_quoted_lexAll (v rest : Bytes) (hv : ∀ c ∈ v, c ≠ 10 ∧ c ≠ 13 ∧ c ≠ 0)
    (hH : Holds d ([71, 69, 84] ++ (sp :: (ws ++ quoteParam v)) ++ rest)) :
    lexAll d o (d.size + 2) Sc.init [] =
      (⟨.keyword, 0, 3⟩ :: ⟨.parameter, 4 + ws.length, 4 + ws.length + (quoteParam v).length⟩ ::
        (lexAll d o d.size (afterParam (4 + ws.length) (4 + ws.length + (quoteParam v).length)) []).1,
       (lexAll d o d.size (afterParam (4 + ws.length) (4 + ws.length + (quoteParam v).length)) []).2) := by
  have hat : At d 3 (sp :: (ws ++ quoteParam v)) := at_of_holds _ [71, 69, 84] rest hH
  have hsz : d.size = 3 + (1 + (ws.length + (quoteParam v).length)) + rest.length := by
    rw [hH.1]; simp only [List.length_append, List.length_cons, List.length_nil]; omega
  have h1 := get_first d o (body := (sp :: (ws ++ quoteParam v)) ++ rest) (by simpa using hH)
  obtain ⟨f, hf⟩ := fuel_split (F := 4 * (d.size + 2)) (k := 1 + ws.length + (quoteParam v).length) (by omega)
  have h2 : next d o (4 * (d.size + 2)) afterGET =
      .ok (some ⟨.parameter, 4 + ws.length, 4 + ws.length + (quoteParam v).length⟩,
        afterParam (4 + ws.length) (4 + ws.length + (quoteParam v).length)) := by
    rw [hf, next_cfg, ← Nat.add_assoc, ← Nat.add_assoc,
      param_byteLoop d o _ [] [] v sp ws 3 f hv hsp hws hat]
    have e : 3 + 1 + ws.length = 4 + ws.length := by omega
    rw [e]; rfl
  rw [lexAll_some (d.size + 1) h1, lexAll_some d.size h2]

/-- `GET`, blanks, `quoteParam v`, one line end, end of file: the whole run -/
theorem get_quoted_eol (v : Bytes) (e : UInt8) (hv : ∀ c ∈ v, c ≠ 10 ∧ c ≠ 13 ∧ c ≠ 0) (he : e = 10 ∨ e = 13)
    (hH : Holds d ([71, 69, 84] ++ (sp :: (ws ++ quoteParam v)) ++ [e])) :
    lexAll d o (d.size + 2) Sc.init [] =
      ([⟨.keyword, 0, 3⟩, ⟨.parameter, 4 + ws.length, 4 + ws.length + (quoteParam v).length⟩], none,
        cfg .stateExpectKeyword [] [] [(4 + ws.length, 4 + ws.length + (quoteParam v).length)] (d.size + 1)) := by
  rw [get_quoted_lexAll d o sp ws hsp hws v [e] hv hH]
  have hsz : d.size = 3 + (1 + (ws.length + (quoteParam v).length)) + 1 := by
    rw [hH.1]; simp only [List.length_append, List.length_cons, List.length_nil]; omega
  have hat : At d (4 + ws.length + (quoteParam v).length) [e] := by
    have := at_of_holds [e] ([71, 69, 84] ++ (sp :: (ws ++ quoteParam v))) [] (by simpa using hH)
    have e2 : ([71, 69, 84] ++ (sp :: (ws ++ quoteParam v))).length = 4 + ws.length + (quoteParam v).length := by
      simp only [List.length_append, List.length_cons, List.length_nil]; omega
    rwa [e2] at this
  obtain ⟨f, hf⟩ := fuel_split (F := 4 * (d.size + 2)) (k := 3) (by omega)
  obtain ⟨n, hn⟩ : ∃ n, d.size = n + 1 := ⟨d.size - 1, by omega⟩
  have h3 : next d o (4 * (d.size + 2)) (afterParam (4 + ws.length) (4 + ws.length + (quoteParam v).length)) =
      .ok (none, cfg .stateExpectKeyword [] [] [(4 + ws.length, 4 + ws.length + (quoteParam v).length)] (d.size + 1)) := by
    rw [hf, next_cfg, tail_eol d o [] [] _ e _ f he hat (by omega)]
    have : 4 + ws.length + (quoteParam v).length + 2 = d.size + 1 := by omega
    rw [this]
  conv => lhs; rw [hn]
  rw [lexAll_none n h3]

/-- `GET`, blanks, `quoteParam v`, end of file: the whole run -/
theorem get_quoted_eof (v : Bytes) (hv : ∀ c ∈ v, c ≠ 10 ∧ c ≠ 13 ∧ c ≠ 0)
    (hH : Holds d ([71, 69, 84] ++ (sp :: (ws ++ quoteParam v)))) :
    lexAll d o (d.size + 2) Sc.init [] =
      ([⟨.keyword, 0, 3⟩, ⟨.parameter, 4 + ws.length, 4 + ws.length + (quoteParam v).length⟩], none,
        cfg .stateExpectKeyword [] [] [(4 + ws.length, 4 + ws.length + (quoteParam v).length)] (d.size + 1)) := by
  rw [get_quoted_lexAll d o sp ws hsp hws v [] hv (by simpa using hH)]
  have hsz : d.size = 3 + (1 + (ws.length + (quoteParam v).length)) := by
    rw [hH.1]; simp only [List.length_append, List.length_cons, List.length_nil]; omega
  obtain ⟨f, hf⟩ := fuel_split (F := 4 * (d.size + 2)) (k := 2) (by omega)
  obtain ⟨n, hn⟩ : ∃ n, d.size = n + 1 := ⟨d.size - 1, by omega⟩
  have h3 : next d o (4 * (d.size + 2)) (afterParam (4 + ws.length) (4 + ws.length + (quoteParam v).length)) =
      .ok (none, cfg .stateExpectKeyword [] [] [(4 + ws.length, 4 + ws.length + (quoteParam v).length)] (d.size + 1)) := by
    rw [hf, next_cfg, tail_eof d o _ [] [] _ _ f (by omega)]
    have : 4 + ws.length + (quoteParam v).length = d.size := by omega
    rw [this]
  conv => lhs; rw [hn]
  rw [lexAll_none n h3]


omit hsp hws in
theorem get_error {body : Bytes} {s : Stop} (hH : Holds d ([71, 69, 84] ++ body))
    (h2 : next d o (4 * (d.size + 2)) afterGET = .error s) :
    lexAll d o (d.size + 2) Sc.init [] = ([⟨.keyword, 0, 3⟩], some s, afterGET) := by
  rw [lexAll_some (d.size + 1) (get_first d o hH), lexAll_error d.size h2]

/-- `GET "`, an escaped prefix, a backslash before a byte other than `"` and `\`: error at that byte -/
theorem get_badEscape (u rest : Bytes) (c : UInt8) (hu : ∀ c ∈ u, c ≠ 10 ∧ c ≠ 13 ∧ c ≠ 0)
    (h34 : c ≠ 34) (h92 : c ≠ 92)
    (hH : Holds d ([71, 69, 84] ++ (sp :: (ws ++ 34 :: (escBody u ++ 92 :: c :: rest))))) :
    lexAll d o (d.size + 2) Sc.init [] =
      ([⟨.keyword, 0, 3⟩], some (.diag (5 + ws.length + (escBody u).length + 1)), afterGET) := by
  have hat : At d 3 (sp :: (ws ++ 34 :: (escBody u ++ 92 :: c :: rest))) :=
    at_of_holds _ [71, 69, 84] [] (by simpa using hH)
  have hsz : d.size = 3 + (1 + (ws.length + (1 + ((escBody u).length + (2 + rest.length))))) := by
    rw [hH.1]; simp only [List.length_append, List.length_cons, List.length_nil]; omega
  obtain ⟨f, hf⟩ := fuel_split (F := 4 * (d.size + 2)) (k := 2 + (escBody u).length + 1 + ws.length + 1) (by omega)
  refine get_error d o hH ?_
  rw [hf, next_cfg]
  simp only [← Nat.add_assoc]
  rw [param_badEscape d o _ [] [] u sp ws 3 f hu hsp hws c rest h34 h92 hat]
  have e : 3 + 1 + ws.length + 1 + (escBody u).length + 1 = 5 + ws.length + (escBody u).length + 1 := by omega
  rw [e]

/-- `GET "`, an escaped prefix, a backslash, end of file: error at the end of the file -/
theorem get_bslEof (u : Bytes) (hu : ∀ c ∈ u, c ≠ 10 ∧ c ≠ 13 ∧ c ≠ 0)
    (hH : Holds d ([71, 69, 84] ++ (sp :: (ws ++ 34 :: (escBody u ++ [92]))))) :
    lexAll d o (d.size + 2) Sc.init [] = ([⟨.keyword, 0, 3⟩], some (.diag d.size), afterGET) := by
  have hat : At d 3 (sp :: (ws ++ 34 :: (escBody u ++ [92]))) :=
    at_of_holds _ [71, 69, 84] [] (by simpa using hH)
  have hsz : d.size = 3 + (1 + (ws.length + (1 + ((escBody u).length + 1)))) := by
    rw [hH.1]; simp only [List.length_append, List.length_cons, List.length_nil]; omega
  obtain ⟨f, hf⟩ := fuel_split (F := 4 * (d.size + 2)) (k := 2 + (escBody u).length + 1 + ws.length + 1) (by omega)
  refine get_error d o hH ?_
  rw [hf, next_cfg]
  simp only [← Nat.add_assoc]
  rw [param_bslEof d o _ [] [] u sp ws 3 f hu hsp hws hat (by omega)]

/-- `GET "`, an escaped prefix, a line end (or a zero byte): error at that byte -/
theorem get_lineEnd (u rest : Bytes) (e : UInt8) (hu : ∀ c ∈ u, c ≠ 10 ∧ c ≠ 13 ∧ c ≠ 0)
    (he : e = 10 ∨ e = 13 ∨ e = 0)
    (hH : Holds d ([71, 69, 84] ++ (sp :: (ws ++ 34 :: (escBody u ++ e :: rest))))) :
    lexAll d o (d.size + 2) Sc.init [] =
      ([⟨.keyword, 0, 3⟩], some (.diag (5 + ws.length + (escBody u).length)), afterGET) := by
  have hat : At d 3 (sp :: (ws ++ 34 :: (escBody u ++ e :: rest))) :=
    at_of_holds _ [71, 69, 84] [] (by simpa using hH)
  have hsz : d.size = 3 + (1 + (ws.length + (1 + ((escBody u).length + (1 + rest.length))))) := by
    rw [hH.1]; simp only [List.length_append, List.length_cons, List.length_nil]; omega
  obtain ⟨f, hf⟩ := fuel_split (F := 4 * (d.size + 2)) (k := 1 + (escBody u).length + 1 + ws.length + 1) (by omega)
  refine get_error d o hH ?_
  rw [hf, next_cfg]
  simp only [← Nat.add_assoc]
  rw [param_lineEnd d o _ [] [] u sp ws 3 f hu hsp hws e rest he hat]
  have e : 3 + 1 + ws.length + 1 + (escBody u).length = 5 + ws.length + (escBody u).length := by omega
  rw [e]

/-- `GET "`, an escaped prefix, end of file: error at the end of the file -/
theorem get_eof (u : Bytes) (hu : ∀ c ∈ u, c ≠ 10 ∧ c ≠ 13 ∧ c ≠ 0)
    (hH : Holds d ([71, 69, 84] ++ (sp :: (ws ++ 34 :: escBody u)))) :
    lexAll d o (d.size + 2) Sc.init [] = ([⟨.keyword, 0, 3⟩], some (.diag d.size), afterGET) := by
  have hat : At d 3 (sp :: (ws ++ 34 :: escBody u)) :=
    at_of_holds _ [71, 69, 84] [] (by simpa using hH)
  have hsz : d.size = 3 + (1 + (ws.length + (1 + (escBody u).length))) := by
    rw [hH.1]; simp only [List.length_append, List.length_cons, List.length_nil]; omega
  obtain ⟨f, hf⟩ := fuel_split (F := 4 * (d.size + 2)) (k := 1 + (escBody u).length + 1 + ws.length + 1) (by omega)
  refine get_error d o hH ?_
  rw [hf, next_cfg]
  simp only [← Nat.add_assoc]
  rw [param_eof d o _ [] [] u sp ws 3 f hu hsp hws hat (by omega)]

end get

/-! ### `scanFile` -/

theorem scanFile_valid (content : Bytes) (o : Oracle) (h : firstInvalidUTF8 content = none) :
    scanFile content o =
      lexAll (Src.ofArray content.toArray) o ((Src.ofArray content.toArray).size + 2) Sc.init [] := by
  simp [scanFile, h]

theorem size_ofArray (content : Bytes) : (Src.ofArray content.toArray).size = content.length := by
  simp [Src.ofArray]

theorem go_ascii : ∀ (s : Bytes) (fuel i : Nat), (∀ c ∈ s, c < 0x80) → firstInvalidUTF8.go fuel i s = none
  | _, 0, _, _ => by simp [firstInvalidUTF8.go]
  | [], _ + 1, _, _ => by simp [firstInvalidUTF8.go]
  | a :: r, fuel + 1, i, h => by
    have ha : a < 0x80 := h a (by simp)
    have hl : utf8SeqLen (a :: r) = 1 := by simp [utf8SeqLen, ha]
    rw [firstInvalidUTF8.go]
    simp only [hl]
    exact go_ascii r fuel (i + 1) (fun c hc => h c (List.mem_cons_of_mem _ hc))

/-- a file of ASCII bytes passes the encoding check -/
theorem firstInvalidUTF8_ascii (s : Bytes) (h : ∀ c ∈ s, c < 0x80) : firstInvalidUTF8 s = none :=
  go_ascii s _ _ h

/-- the escaped spelling of a value without `"` and `\` is the value -/
theorem escBody_plain : ∀ (u : Bytes), (∀ c ∈ u, c ≠ 34 ∧ c ≠ 92) → escBody u = u
  | [], _ => rfl
  | c :: r, h => by
    have hc := h c (by simp)
    have : (c == B.quote || c == B.bsl) = false := by simp [B.quote, B.bsl, hc.1, hc.2]
    rw [escBody, this]
    simp only [Bool.false_eq_true, if_false]
    rw [escBody_plain r (fun x hx => h x (List.mem_cons_of_mem _ hx))]
theorem escBody_ascii : ∀ (v : Bytes), (∀ c ∈ v, c < 0x80) → ∀ c ∈ escBody v, c < 0x80
  | [], _, c, hc => by simp [escBody] at hc
  | a :: r, h, c, hc => by
    have ha := h a (by simp)
    have ih := escBody_ascii r (fun x hx => h x (List.mem_cons_of_mem _ hx))
    rw [escBody] at hc
    split at hc
    · simp only [List.mem_cons] at hc
      rcases hc with hc | hc | hc
      · rw [hc]; decide
      · rw [hc]; exact ha
      · exact ih c hc
    · simp only [List.mem_cons] at hc
      rcases hc with hc | hc
      · rw [hc]; exact ha
      · exact ih c hc

theorem quoted_file_ascii (v : Bytes) (h : ∀ c ∈ v, c < 0x80) :
    firstInvalidUTF8 ([71, 69, 84, 32] ++ quoteParam v ++ [10]) = none := by
  apply firstInvalidUTF8_ascii
  intro c hc
  simp only [quoteParam, List.mem_append, List.mem_cons, List.mem_nil_iff, or_false] at hc
  rcases hc with ((hc | hc | hc | hc) | (hc | hc | hc)) | hc
  all_goals first | (rw [hc]; decide) | exact escBody_ascii v h c hc
/-! ### an annotation after the parameters -/

section annot
set_option linter.unusedSimpArgs false
variable (d : Src) (o : Oracle) (stk : List St) (es : List (Ev × Nat)) (lp : List (Nat × Nat)) (p : Nat)

theorem stepPAS_slash (hp : p < d.size) (h : d.get p = 47) :
    byteStep d o (cfg .stateParameterOrAnnotationAfterFirstSpace stk es lp p) =
      .ok (cfg .stateAnnotationSign2 stk es lp (p + 1)) := by
  simp [byteStep, curByte, Nat.ne_of_lt hp, interp, stepFuel, code, Code.select, execOps, execOp, h]

theorem stepAS2_slash (hp : p < d.size) (h : d.get p = 47) :
    byteStep d o (cfg .stateAnnotationSign2 stk es lp p) = .ok (cfg .stateAnnotationTextStart stk es lp (p + 1)) := by
  simp [byteStep, curByte, Nat.ne_of_lt hp, interp, stepFuel, code, Code.select, execOps, execOp, h]

/-- the first byte of the annotation text (`AnnotationBegin` found at this byte) -/
theorem stepATS_plain (hp : p < d.size) (h0 : d.get p ≠ 0) (h10 : d.get p ≠ 10) (h13 : d.get p ≠ 13) (h35 : d.get p ≠ 35) :
    byteStep d o (cfg .stateAnnotationTextStart stk es lp p) =
      .ok ⟨.stateAnnotation, stk, [(.annotationBegin, p)], es, lp, p + 1, 0⟩ := by
  simp [byteStep, curByte, Nat.ne_of_lt hp, interp, stepFuel, code, Code.select, execOps, execOp, h0, h10, h13, h35]

theorem stepA_plain (hp : p < d.size) (h0 : d.get p ≠ 0) (h10 : d.get p ≠ 10) (h13 : d.get p ≠ 13) (h35 : d.get p ≠ 35) :
    byteStep d o (cfg .stateAnnotation stk es lp p) = .ok (cfg .stateAnnotation stk es lp (p + 1)) := by
  simp [byteStep, curByte, Nat.ne_of_lt hp, interp, stepFuel, code, Code.select, execOps, execOp, h0, h10, h13, h35]

/-- the line end after the annotation of a top-level directive (`AnnotationEnd` found at the byte before) -/
theorem stepA_eol (hp : p + 1 < d.size) (h : d.get (p + 1) = 10 ∨ d.get (p + 1) = 13) :
    byteStep d o (cfg .stateAnnotation (.stateExpectKeyword :: stk) es lp (p + 1)) =
      .ok ⟨.stateExpectKeyword, stk, [(.annotationEnd, p)], es, lp, p + 2, 0⟩ := by
  rcases h with h | h <;>
    simp [byteStep, curByte, Nat.ne_of_lt hp, interp, stepFuel, code, Code.select, execOps, execOp, h]

end annot

theorem byteLoop_annotEnd {d : Src} {o : Oracle} {sc : Sc} {st : St} {stk : List St} {b q : Nat}
    {es : List (Ev × Nat)} {lp : List (Nat × Nat)} {p' : Nat} (fuel : Nat) (hle : sc.cur ≤ d.size)
    (hs : byteStep d o sc = .ok ⟨st, stk, [(.annotationEnd, q)], (.annotationBegin, b) :: es, lp, p', 0⟩) :
    byteLoop d o (fuel + 1) sc = .ok (some ⟨.annotation, b, q + 1⟩, cfg st stk es lp p') := by
  rw [byteLoop, if_neg (Nat.not_lt.mpr hle), hs]
  simp [drainFinds, processEvent, Ev.isBeginning, Ev.isEnding, Ev.matches, Ev.lexTy]

/-- the annotation text is consumed -/
theorem loopA (d : Src) (o : Oracle) (stk : List St) (es : List (Ev × Nat)) (lp : List (Nat × Nat)) :
    ∀ (t : Bytes) (p fuel : Nat), (∀ c ∈ t, c ≠ 0 ∧ c ≠ 10 ∧ c ≠ 13 ∧ c ≠ 35) → At d p t →
      byteLoop d o (fuel + t.length) (cfg .stateAnnotation stk es lp p) =
        byteLoop d o fuel (cfg .stateAnnotation stk es lp (p + t.length))
  | [], _, _, _, _ => by simp
  | c :: t, p, fuel, ht, hat => by
    obtain ⟨h1, h2, h3⟩ := hat
    have hc := ht c (by simp)
    have e1 : fuel + (c :: t).length = fuel + t.length + 1 := by simp only [List.length_cons]; omega
    have e2 : p + (c :: t).length = p + 1 + t.length := by simp only [List.length_cons]; omega
    rw [e1, e2, byteLoop_ok _ (Nat.le_of_lt h1)
      (stepA_plain d o stk es lp p h1 (h2 ▸ hc.1) (h2 ▸ hc.2.1) (h2 ▸ hc.2.2.1) (h2 ▸ hc.2.2.2)) rfl]
    exact loopA d o stk es lp t (p + 1) fuel (fun x hx => ht x (List.mem_cons_of_mem _ hx)) h3

/-- **an annotation after the parameters of a top-level directive**: blanks, `//`, a non-empty text without
`#`, line ends and zero bytes, a line end: the Annotation lexeme is the text; the scanner is in
`stateExpectKeyword` after the line end -/
theorem annot_byteLoop (d : Src) (o : Oracle) (stk : List St) (es : List (Ev × Nat)) (lp : List (Nat × Nat))
    (sp : UInt8) (ws : Bytes) (x : UInt8) (t : Bytes) (e : UInt8) (p fuel : Nat)
    (hsp : sp = 32 ∨ sp = 9) (hws : ∀ w ∈ ws, w = 32 ∨ w = 9)
    (ht : ∀ c ∈ x :: t, c ≠ 0 ∧ c ≠ 10 ∧ c ≠ 13 ∧ c ≠ 35) (he : e = 10 ∨ e = 13)
    (hat : At d p (sp :: (ws ++ 47 :: 47 :: x :: (t ++ [e])))) :
    byteLoop d o (fuel + 1 + t.length + 1 + 1 + 1 + ws.length + 1)
        (cfg .stateParameterOrAnnotation (.stateExpectKeyword :: stk) es lp p) =
      .ok (some ⟨.annotation, p + 1 + ws.length + 2, p + 1 + ws.length + 2 + 1 + t.length⟩,
        cfg .stateExpectKeyword stk es lp (p + 1 + ws.length + 2 + 1 + t.length + 1)) := by
  obtain ⟨h1, h2, h3⟩ := hat
  obtain ⟨h4, h5⟩ := At.append h3
  obtain ⟨h6, h7, h8, h9, h10, h11, h12⟩ := h5
  obtain ⟨h13, h14⟩ := At.append h12
  obtain ⟨h15, h16, -⟩ := h14
  have hx := ht x (by simp)
  generalize hb : p + 1 + ws.length = b at *
  rw [byteLoop_ok _ (Nat.le_of_lt h1) (stepPA_blank d o _ es lp p h1 (h2 ▸ hsp)) rfl,
    loopBlanks d o _ es lp ws (p + 1) _ hws h4, hb,
    byteLoop_ok _ (Nat.le_of_lt h6) (stepPAS_slash d o _ es lp _ h6 h7) rfl,
    byteLoop_ok _ (Nat.le_of_lt h8) (stepAS2_slash d o _ es lp _ h8 h9) rfl,
    byteLoop_begin _ (Nat.le_of_lt h10)
      (stepATS_plain d o _ es lp _ h10 (h11 ▸ hx.1) (h11 ▸ hx.2.1) (h11 ▸ hx.2.2.1) (h11 ▸ hx.2.2.2)) rfl,
    loopA d o _ _ lp t _ _ (fun c hc => ht c (List.mem_cons_of_mem _ hc)) h13]
  have e2 : b + 1 + 1 + 1 + t.length = (b + 2 + t.length) + 1 := by omega
  rw [e2] at h15 h16 ⊢
  rw [byteLoop_annotEnd _ (Nat.le_of_lt h15) (stepA_eol d o stk _ lp _ h15 (h16 ▸ he))]

/-! ### whole runs with two parameters, and with an annotation -/

theorem lexAll_some_cfg {d : Src} {o : Oracle} {st : St} {stk : List St} {es : List (Ev × Nat)}
    {lp : List (Nat × Nat)} {p : Nat} {sc' : Sc} {l : Lexeme} (n : Nat)
    (h : byteLoop d o (4 * (d.size + 2)) (cfg st stk es lp p) = .ok (some l, sc')) :
    lexAll d o (n + 1) (cfg st stk es lp p) [] = (l :: (lexAll d o n sc' []).1, (lexAll d o n sc' []).2) :=
  lexAll_some n h

theorem lexAll_none_cfg {d : Src} {o : Oracle} {st : St} {stk : List St} {es : List (Ev × Nat)}
    {lp : List (Nat × Nat)} {p : Nat} {sc' : Sc} (n : Nat)
    (h : byteLoop d o (4 * (d.size + 2)) (cfg st stk es lp p) = .ok (none, sc')) :
    lexAll d o (n + 1) (cfg st stk es lp p) [] = ([], none, sc') :=
  lexAll_none n h

section get2
variable (d : Src) (o : Oracle)

/-- `GET`, two quoted parameters, then anything: the first three lexemes -/
theorem get_two_quoted_lexAll (v1 v2 rest : Bytes) (sp1 sp2 : UInt8) (ws1 ws2 : Bytes)
    (hv1 : ∀ c ∈ v1, c ≠ 10 ∧ c ≠ 13 ∧ c ≠ 0) (hv2 : ∀ c ∈ v2, c ≠ 10 ∧ c ≠ 13 ∧ c ≠ 0)
    (hsp1 : sp1 = 32 ∨ sp1 = 9) (hws1 : ∀ w ∈ ws1, w = 32 ∨ w = 9)
    (hsp2 : sp2 = 32 ∨ sp2 = 9) (hws2 : ∀ w ∈ ws2, w = 32 ∨ w = 9) (b1 b2 : Nat)
    (hb1 : b1 = 4 + ws1.length) (hb2 : b2 = b1 + (quoteParam v1).length + 1 + ws2.length)
    (hH : Holds d (([71, 69, 84] ++ (sp1 :: (ws1 ++ quoteParam v1))) ++ (sp2 :: (ws2 ++ quoteParam v2)) ++ rest)) :
    lexAll d o (d.size + 2) Sc.init [] =
      (⟨.keyword, 0, 3⟩ :: ⟨.parameter, b1, b1 + (quoteParam v1).length⟩ ::
        ⟨.parameter, b2, b2 + (quoteParam v2).length⟩ ::
        (lexAll d o (d.size - 1) (cfg .stateParameterOrAnnotation [.stateExpectKeyword] []
          [(b1, b1 + (quoteParam v1).length), (b2, b2 + (quoteParam v2).length)] (b2 + (quoteParam v2).length)) []).1,
       (lexAll d o (d.size - 1) (cfg .stateParameterOrAnnotation [.stateExpectKeyword] []
          [(b1, b1 + (quoteParam v1).length), (b2, b2 + (quoteParam v2).length)] (b2 + (quoteParam v2).length)) []).2) := by
  have hH1 : Holds d ([71, 69, 84] ++ (sp1 :: (ws1 ++ quoteParam v1)) ++ ((sp2 :: (ws2 ++ quoteParam v2)) ++ rest)) := by
    simpa using hH
  rw [get_quoted_lexAll d o sp1 ws1 hsp1 hws1 v1 _ hv1 hH1, ← hb1]
  have hat := at_of_holds (sp2 :: (ws2 ++ quoteParam v2)) ([71, 69, 84] ++ (sp1 :: (ws1 ++ quoteParam v1))) rest hH
  have e : ([71, 69, 84] ++ (sp1 :: (ws1 ++ quoteParam v1))).length = b1 + (quoteParam v1).length := by
    simp only [List.length_append, List.length_cons, List.length_nil]; omega
  rw [e] at hat
  have hsz : d.size = b1 + (quoteParam v1).length + (1 + (ws2.length + (quoteParam v2).length)) + rest.length := by
    rw [hH.1, ← e]; simp only [List.length_append, List.length_cons, List.length_nil]; omega
  obtain ⟨f, hf⟩ := fuel_split (F := 4 * (d.size + 2)) (k := 1 + ws2.length + (quoteParam v2).length) (by omega)
  obtain ⟨n, hn⟩ : ∃ n, d.size = n + 1 := ⟨d.size - 1, by omega⟩
  have h3 := param_byteLoop d o [.stateExpectKeyword] [] [(b1, b1 + (quoteParam v1).length)] v2 sp2 ws2 _ f
    hv2 hsp2 hws2 hat
  have hF : f + 1 + ws2.length + (quoteParam v2).length = 4 * (d.size + 2) := by omega
  rw [← hb2, hF] at h3
  have e2 : d.size - 1 = n := by omega
  rw [e2]
  conv => lhs; rw [hn]
  rw [lexAll_some_cfg n h3]
  rfl

/-- `GET`, a quoted parameter, an annotation, a line end, end of file: the whole run -/
theorem get_quoted_annot (v : Bytes) (sp1 sp2 : UInt8) (ws1 ws2 : Bytes) (x : UInt8) (t : Bytes) (e : UInt8)
    (hv : ∀ c ∈ v, c ≠ 10 ∧ c ≠ 13 ∧ c ≠ 0)
    (hsp1 : sp1 = 32 ∨ sp1 = 9) (hws1 : ∀ w ∈ ws1, w = 32 ∨ w = 9)
    (hsp2 : sp2 = 32 ∨ sp2 = 9) (hws2 : ∀ w ∈ ws2, w = 32 ∨ w = 9)
    (ht : ∀ c ∈ x :: t, c ≠ 0 ∧ c ≠ 10 ∧ c ≠ 13 ∧ c ≠ 35) (he : e = 10 ∨ e = 13) (b1 b2 : Nat)
    (hb1 : b1 = 4 + ws1.length) (hb2 : b2 = b1 + (quoteParam v).length + 1 + ws2.length + 2)
    (hH : Holds d (([71, 69, 84] ++ (sp1 :: (ws1 ++ quoteParam v))) ++ (sp2 :: (ws2 ++ 47 :: 47 :: x :: (t ++ [e]))) ++ [])) :
    lexAll d o (d.size + 2) Sc.init [] =
      ([⟨.keyword, 0, 3⟩, ⟨.parameter, b1, b1 + (quoteParam v).length⟩, ⟨.annotation, b2, b2 + 1 + t.length⟩], none,
        cfg .stateExpectKeyword [] [] [(b1, b1 + (quoteParam v).length)] (d.size + 1)) := by
  have hH1 : Holds d ([71, 69, 84] ++ (sp1 :: (ws1 ++ quoteParam v)) ++ (sp2 :: (ws2 ++ 47 :: 47 :: x :: (t ++ [e])))) := by
    simpa using hH
  rw [get_quoted_lexAll d o sp1 ws1 hsp1 hws1 v _ hv hH1, ← hb1]
  have hat := at_of_holds (sp2 :: (ws2 ++ 47 :: 47 :: x :: (t ++ [e]))) ([71, 69, 84] ++ (sp1 :: (ws1 ++ quoteParam v))) [] hH
  have e1 : ([71, 69, 84] ++ (sp1 :: (ws1 ++ quoteParam v))).length = b1 + (quoteParam v).length := by
    simp only [List.length_append, List.length_cons, List.length_nil]; omega
  rw [e1] at hat
  have hsz : d.size = b1 + (quoteParam v).length + (1 + (ws2.length + (3 + (t.length + 1)))) := by
    rw [hH.1, ← e1]; simp only [List.length_append, List.length_cons, List.length_nil]; omega
  obtain ⟨f, hf⟩ := fuel_split (F := 4 * (d.size + 2)) (k := 1 + t.length + 1 + 1 + 1 + ws2.length + 1) (by omega)
  obtain ⟨f2, hf2⟩ := fuel_split (F := 4 * (d.size + 2)) (k := 2) (by omega)
  obtain ⟨n, hn⟩ : ∃ n, d.size = n + 2 := ⟨d.size - 2, by omega⟩
  have h3 := annot_byteLoop d o [] [] [(b1, b1 + (quoteParam v).length)] sp2 ws2 x t e _ f hsp2 hws2 ht he hat
  have hF : f + 1 + t.length + 1 + 1 + 1 + ws2.length + 1 = 4 * (d.size + 2) := by omega
  have e3 : b2 + 1 + t.length + 1 = d.size := by omega
  rw [← hb2, hF, e3] at h3
  have h4 : byteLoop d o (4 * (d.size + 2)) (cfg .stateExpectKeyword [] [] [(b1, b1 + (quoteParam v).length)] d.size) =
      .ok (none, cfg .stateExpectKeyword [] [] [(b1, b1 + (quoteParam v).length)] (d.size + 1)) := by
    rw [hf2, byteLoop_ok _ (Nat.le_refl _) (stepEK_eof d o [] [] _ _ rfl) rfl, byteLoop_exit]
    show d.size + 1 > d.size
    omega
  conv => lhs; rw [hn]
  rw [lexAll_some_cfg (n + 1) h3, lexAll_none_cfg n h4]


/-- `GET`, two quoted parameters, one line end, end of file: the whole run -/
theorem get_two_quoted_eol (v1 v2 : Bytes) (sp1 sp2 : UInt8) (ws1 ws2 : Bytes) (e : UInt8)
    (hv1 : ∀ c ∈ v1, c ≠ 10 ∧ c ≠ 13 ∧ c ≠ 0) (hv2 : ∀ c ∈ v2, c ≠ 10 ∧ c ≠ 13 ∧ c ≠ 0)
    (hsp1 : sp1 = 32 ∨ sp1 = 9) (hws1 : ∀ w ∈ ws1, w = 32 ∨ w = 9)
    (hsp2 : sp2 = 32 ∨ sp2 = 9) (hws2 : ∀ w ∈ ws2, w = 32 ∨ w = 9) (he : e = 10 ∨ e = 13) (b1 b2 : Nat)
    (hb1 : b1 = 4 + ws1.length) (hb2 : b2 = b1 + (quoteParam v1).length + 1 + ws2.length)
    (hH : Holds d (([71, 69, 84] ++ (sp1 :: (ws1 ++ quoteParam v1))) ++ (sp2 :: (ws2 ++ quoteParam v2)) ++ [e])) :
    lexAll d o (d.size + 2) Sc.init [] =
      ([⟨.keyword, 0, 3⟩, ⟨.parameter, b1, b1 + (quoteParam v1).length⟩, ⟨.parameter, b2, b2 + (quoteParam v2).length⟩],
        none,
        cfg .stateExpectKeyword [] [] [(b1, b1 + (quoteParam v1).length), (b2, b2 + (quoteParam v2).length)]
          (d.size + 1)) := by
  rw [get_two_quoted_lexAll d o v1 v2 [e] sp1 sp2 ws1 ws2 hv1 hv2 hsp1 hws1 hsp2 hws2 b1 b2 hb1 hb2 hH]
  have hat := at_of_holds [e] (([71, 69, 84] ++ (sp1 :: (ws1 ++ quoteParam v1))) ++ (sp2 :: (ws2 ++ quoteParam v2))) []
    (by simpa using hH)
  have e1 : (([71, 69, 84] ++ (sp1 :: (ws1 ++ quoteParam v1))) ++ (sp2 :: (ws2 ++ quoteParam v2))).length =
      b2 + (quoteParam v2).length := by
    simp only [List.length_append, List.length_cons, List.length_nil]; omega
  rw [e1] at hat
  have hsz : d.size = b2 + (quoteParam v2).length + 1 := by
    rw [hH.1, ← e1]; simp only [List.length_append, List.length_cons, List.length_nil]
  obtain ⟨f, hf⟩ := fuel_split (F := 4 * (d.size + 2)) (k := 3) (by omega)
  obtain ⟨n, hn⟩ : ∃ n, d.size - 1 = n + 1 := ⟨d.size - 2, by rw [quoteParam_length] at hsz; omega⟩
  have h4 := tail_eol d o [] [] [(b1, b1 + (quoteParam v1).length), (b2, b2 + (quoteParam v2).length)] e _ f he hat hsz
  have e3 : b2 + (quoteParam v2).length + 2 = d.size + 1 := by omega
  rw [← hf, e3] at h4
  rw [hn, lexAll_none_cfg n h4]

end get2
end JSight.ScanParam
