import JSight.Model.Json
/-!
Helper lemmas about the JSON tree model (`Model/Json.lean`): `noDupKeys` of objects, arrays and records, lookup in a
record whose field names are pairwise distinct, and the shape of every rendered record.
-/
namespace JSight.Json
open JSight JSight.Build

theorem nodupB_iff (l : List Bytes) : nodupB l = true ↔ l.Nodup := by
  induction l with
  | nil => simp [nodupB]
  | cons a r ih => simp [nodupB, ih, List.nodup_cons]

theorem noDupKeysL_iff (l : List Json) : noDupKeysL l = true ↔ ∀ x ∈ l, x.noDupKeys = true := by
  induction l with
  | nil => simp [noDupKeysL]
  | cons a r ih => simp [noDupKeysL, ih]

theorem noDupKeysKV_iff (kv : List (Bytes × Json)) : noDupKeysKV kv = true ↔ ∀ p ∈ kv, p.2.noDupKeys = true := by
  induction kv with
  | nil => simp [noDupKeysKV]
  | cons p r ih => obtain ⟨k, v⟩ := p; simp [noDupKeysKV, ih]

theorem obj_ok_iff (kv : List (Bytes × Json)) :
    (obj kv).noDupKeys = true ↔ (kv.map (·.1)).Nodup ∧ ∀ p ∈ kv, p.2.noDupKeys = true := by
  rw [noDupKeys, Bool.and_eq_true, nodupB_iff, noDupKeysKV_iff]

theorem arr_ok_iff (l : List Json) : (arr l).noDupKeys = true ↔ ∀ x ∈ l, x.noDupKeys = true := by
  rw [noDupKeys, noDupKeysL_iff]

@[simp] theorem str_ok (s : Bytes) : (str s).noDupKeys = true := by simp [noDupKeys]
@[simp] theorem null_ok : (null).noDupKeys = true := by simp [noDupKeys]
@[simp] theorem opaque_ok (n : Nat) : (Json.opaque n).noDupKeys = true := by simp [noDupKeys]

@[simp] theorem strs_ok (l : List Bytes) : (strs l).noDupKeys = true := by
  rw [strs, arr_ok_iff]
  intro x hx
  obtain ⟨s, _, rfl⟩ := List.mem_map.1 hx
  exact str_ok s

/-- an ordered map: keys pairwise distinct, every value fine -/
theorem omap_ok {α} (l : List α) (key : α → Bytes) (val : α → Json) (hk : (l.map key).Nodup)
    (hv : ∀ a, (val a).noDupKeys = true) : (obj (l.map fun a => (key a, val a))).noDupKeys = true := by
  rw [obj_ok_iff]
  refine ⟨by simpa [List.map_map, Function.comp_def] using hk, ?_⟩
  intro p hp
  obtain ⟨a, _, rfl⟩ := List.mem_map.1 hp
  exact hv a

/-! ### records -/

/-- the value of an optional field, when present, is fine -/
def OptOk (o : Option Json) : Prop := ∀ v, o = some v → v.noDupKeys = true

@[simp] theorem optOk_none : OptOk none := by intro v h; cases h
@[simp] theorem optOk_some (x : Json) : OptOk (some x) ↔ x.noDupKeys = true :=
  ⟨fun h => h x rfl, fun h v e => by cases e; exact h⟩
@[simp] theorem optOk_nonEmpty (s : Bytes) : OptOk (nonEmpty s) := by
  intro v h; unfold nonEmpty at h; split at h
  · cases h
  · cases h; exact str_ok s
@[simp] theorem optOk_mapStr (o : Option Bytes) : OptOk (o.map .str) := by
  intro v h; cases o with
  | none => cases h
  | some s => cases h; exact str_ok s
theorem optOk_map {α} (o : Option α) (f : α → Json) (h : ∀ a, (f a).noDupKeys = true) : OptOk (o.map f) := by
  intro v e; cases o with
  | none => cases e
  | some s => cases e; exact h s
theorem optOk_flag (b : Bool) (x : Json) (h : x.noDupKeys = true) : OptOk (flag b x) := by
  intro v e; unfold flag at e; split at e
  · cases e; exact h
  · cases e

theorem record_keys_sublist (fs : List (Bytes × Option Json)) :
    ((fs.filterMap fun p => p.2.map fun v => (p.1, v)).map (·.1)).Sublist (fs.map (·.1)) := by
  induction fs with
  | nil => simp
  | cons p r ih =>
    obtain ⟨k, o⟩ := p
    cases o with
    | none => simpa [List.filterMap_cons] using ih.trans (List.sublist_cons_self k _)
    | some v => simpa [List.filterMap_cons] using ih

/-- a record whose declared field names are pairwise distinct and whose present values are fine -/
theorem record_ok (fs : List (Bytes × Option Json)) (h1 : nodupB (fs.map (·.1)) = true)
    (h2 : ∀ p ∈ fs, OptOk p.2) : (record fs).noDupKeys = true := by
  rw [record, obj_ok_iff]
  refine ⟨(record_keys_sublist fs).nodup ((nodupB_iff _).1 h1), ?_⟩
  intro p hp
  obtain ⟨q, hq, e⟩ := List.mem_filterMap.1 hp
  obtain ⟨k, o⟩ := q
  cases o with
  | none => cases e
  | some v => cases e; exact h2 _ hq v rfl

/-- lookup of a present field of a record whose declared field names are pairwise distinct -/
theorem record_get' (fs : List (Bytes × Option Json)) (h1 : (fs.map (·.1)).Nodup) (k : Bytes) (v : Json)
    (h : (k, some v) ∈ fs) : (record fs).get k = v := by
  induction fs with
  | nil => cases h
  | cons p r ih =>
    obtain ⟨k', o⟩ := p
    simp only [List.map_cons, List.nodup_cons] at h1
    rcases List.mem_cons.1 h with e | hr
    · cases e
      simp [record, get, field, entries]
    · have hk : k ∈ r.map (·.1) := List.mem_map.2 ⟨_, hr, rfl⟩
      have ne : k' ≠ k := fun e => h1.1 (e ▸ hk)
      have := ih h1.2 hr
      cases o with
      | none => simpa [record, get, field, entries, List.filterMap_cons] using this
      | some w =>
        simp only [record, get, field, entries, List.filterMap_cons, Option.map_some, List.find?_cons] at this ⊢
        have : (k' == k) = false := by simpa using ne
        simp only [this]
        assumption

theorem record_get (fs : List (Bytes × Option Json)) (h1 : nodupB (fs.map (·.1)) = true) (k : Bytes) (v : Json)
    (h : (k, some v) ∈ fs) : (record fs).get k = v :=
  record_get' fs ((nodupB_iff _).1 h1) k v h

/-! ### every rendered record is fine -/

theorem schemaBox_ok : schemaBox.noDupKeys = true :=
  record_ok _ rfl (by simp [schemaOpaque])

theorem rInfo_ok (i : InfoM) : (rInfo i).noDupKeys = true :=
  record_ok _ rfl (by simp)

theorem rServer_ok (s : ServerM) : (rServer s).noDupKeys = true :=
  record_ok _ rfl (by simp)

theorem rType_ok (t : TypeM) : (rType t).noDupKeys = true :=
  record_ok _ rfl (by simp [schemaOpaque])

theorem rGroup_ok (p : Bytes) (ids : List Bytes) : ∀ g ∈ rGroup p ids, g.noDupKeys = true := by
  intro g hg
  unfold rGroup at hg
  split at hg
  · cases hg
  · rw [List.mem_singleton] at hg
    subst hg
    exact record_ok _ rfl (by simp)

theorem rTag_ok (t : TagM) : (rTag t).noDupKeys = true := by
  refine record_ok _ rfl ?_
  simp only [List.forall_mem_cons, optOk_some, str_ok, optOk_mapStr, true_and, arr_ok_iff, List.mem_append]
  refine ⟨?_, by simp⟩
  rintro g (hg | hg)
  · exact rGroup_ok _ _ g hg
  · exact rGroup_ok _ _ g hg

theorem rBody_ok (b : BodyM) : (rBody b).noDupKeys = true :=
  record_ok _ rfl (by simp [schemaOpaque])

theorem rQuery_ok (q : QueryM) : (rQuery q).noDupKeys = true :=
  record_ok _ rfl (by simp [schemaOpaque])

theorem rReq_ok (q : ReqM) : (rReq q).noDupKeys = true := by
  refine record_ok _ rfl ?_
  simp only [List.forall_mem_cons]
  exact ⟨optOk_flag _ _ schemaBox_ok, optOk_map _ _ rBody_ok, by simp⟩

theorem rResp_ok (r : RespM) : (rResp r).noDupKeys = true := by
  refine record_ok _ rfl ?_
  simp only [List.forall_mem_cons]
  refine ⟨by simp, by simp, optOk_flag _ _ schemaBox_ok, ?_, by simp⟩
  rw [optOk_some]
  cases r.body with
  | none => exact null_ok
  | some b => exact rBody_ok b

theorem rInter_ok (e : Extra) (x : InterM) : (rInter e x).noDupKeys = true := by
  unfold rInter
  split
  · refine record_ok _ rfl ?_
    simp only [List.forall_mem_cons]
    refine ⟨by simp, by simp, by simp, by simp, optOk_flag _ _ (opaque_ok 1), by simp, by simp, by simp,
      optOk_map _ _ rQuery_ok, optOk_map _ _ rReq_ok, optOk_flag _ _ ?_, by simp⟩
    rw [arr_ok_iff]
    intro j hj
    obtain ⟨r, _, rfl⟩ := List.mem_map.1 hj
    exact rResp_ok r
  · refine record_ok _ rfl ?_
    simp only [List.forall_mem_cons]
    exact ⟨by simp, by simp, by simp, by simp, by simp, by simp, by simp, optOk_flag _ _ schemaBox_ok,
      optOk_flag _ _ schemaBox_ok, by simp⟩

/-- the whole tree, given the uniqueness of the four families of names -/
theorem render_ok (e : Extra) (c : Cat) (ht : (c.tags.map (·.name)).Nodup) (hs : (c.servers.map (·.name)).Nodup)
    (hu : (c.types.map (·.name)).Nodup) (hk : (c.inters.map (·.iid.text)).Nodup) :
    (render e c).noDupKeys = true := by
  refine record_ok _ rfl ?_
  simp only [List.forall_mem_cons]
  refine ⟨?_, optOk_map _ _ rInfo_ok, optOk_flag _ _ ?_, optOk_flag _ _ ?_, optOk_flag _ _ (opaque_ok 2), ?_,
    by simp, by simp, by simp⟩
  · rw [optOk_some]; exact omap_ok _ _ _ ht rTag_ok
  · exact omap_ok _ _ _ hs rServer_ok
  · exact omap_ok _ _ _ hu rType_ok
  · rw [optOk_some]; exact omap_ok _ _ _ hk (rInter_ok e)

/-! ### the fields the theorems of `Props/C09_Json.lean` read -/

theorem render_interactions (e : Extra) (c : Cat) :
    (render e c).get K.interactions = .obj (c.inters.map fun x => (x.iid.text, rInter e x)) :=
  record_get _ rfl _ _ (by simp)

theorem render_tags (e : Extra) (c : Cat) :
    (render e c).get K.tags = .obj (c.tags.map fun t => (t.name, rTag t)) :=
  record_get _ rfl _ _ (by simp)

theorem rInter_id (e : Extra) (x : InterM) : (rInter e x).get K.id = .str x.iid.text := by
  unfold rInter
  split
  · exact record_get _ rfl _ _ (by simp)
  · exact record_get _ rfl _ _ (by simp)

theorem rInter_tags (e : Extra) (x : InterM) : (rInter e x).get K.tags = strs x.tags := by
  unfold rInter
  split
  · exact record_get _ rfl _ _ (by simp)
  · exact record_get _ rfl _ _ (by simp)

theorem rInter_protocol (e : Extra) (x : InterM) :
    (rInter e x).get K.protocol = .str (match x.iid.proto with | .http => K.http | .rpc => jsonRpc20) := by
  unfold rInter
  split
  · next h => simp only [h]; exact record_get _ rfl _ _ (by simp)
  · next h => simp only [h]; exact record_get _ rfl _ _ (by simp)

theorem rGroup_ids (p : Bytes) (ids : List Bytes) :
    ((rGroup p ids).flatMap fun g => (g.get K.interactions).items) = ids.map .str := by
  unfold rGroup
  split
  · rename_i h
    have : ids = [] := by simpa using h
    simp [this]
  · have : (record [(K.protocol, some (.str p)), (K.interactions, some (strs ids))]).get K.interactions = strs ids :=
      record_get _ rfl _ _ (by simp)
    simp only [List.flatMap_cons, List.flatMap_nil, List.append_nil, this]
    rfl

theorem listedIds_rTag (t : TagM) : listedIds (rTag t) = (t.http ++ t.rpc).map .str := by
  have : (rTag t).get K.interactionGroups = .arr (rGroup K.http t.http ++ rGroup jsonRpc20 t.rpc) :=
    record_get _ rfl _ _ (by simp)
  rw [listedIds, this, items, List.flatMap_append, rGroup_ids, rGroup_ids, List.map_append]

theorem str_mem_map (a : Bytes) (l : List Bytes) : Json.str a ∈ l.map Json.str ↔ a ∈ l := by
  constructor
  · intro h
    obtain ⟨b, hb, e⟩ := List.mem_map.1 h
    cases e; exact hb
  · intro h; exact List.mem_map.2 ⟨a, h, rfl⟩

/-- a key of a list whose keys are pairwise distinct belongs to one element -/
theorem eq_of_key_eq {α} (l : List α) (key : α → Bytes) (h : (l.map key).Nodup) (a b : α) (ha : a ∈ l) (hb : b ∈ l)
    (e : key a = key b) : a = b := by
  induction l with
  | nil => cases ha
  | cons x r ih =>
    simp only [List.map_cons, List.nodup_cons] at h
    rcases List.mem_cons.1 ha with rfl | ha' <;> rcases List.mem_cons.1 hb with rfl | hb'
    · rfl
    · exact absurd (List.mem_map.2 ⟨b, hb', e.symm⟩) h.1
    · exact absurd (List.mem_map.2 ⟨a, ha', e⟩) h.1
    · exact ih h.2 ha' hb'

end JSight.Json
