import JSight.Model.Location
/-!
Helper lemmas for C02 (error locations): invariants of the `lineBeginningLoop`, `lineNumberLoop`
and `lineEndScan` loops.  Core Lean only.
-/
namespace JSight.C02
open JSight

/-- the loop guard: a line-end byte at index `k`, not at the error position -/
theorem guard_iff (content : Bytes) (pos : Nat) (nl : UInt8) (k : Nat) :
    ((byteAt content k == nl && k != pos) = true) ↔ (byteAt content k = nl ∧ k ≠ pos) := by
  simp

/-! ### lineBeginningLoop -/

theorem lbLoop_zero (content : Bytes) (pos : Nat) (nl : UInt8) :
    lineBeginningLoop content pos nl 0 =
      if (byteAt content 0 == nl && 0 != pos) = true then 1 else 0 := rfl

theorem lbLoop_succ (content : Bytes) (pos : Nat) (nl : UInt8) (i : Nat) :
    lineBeginningLoop content pos nl (i + 1) =
      if (byteAt content (i + 1) == nl && (i + 1 != pos)) = true then i + 2
      else lineBeginningLoop content pos nl i := rfl

theorem lbLoop_le (content : Bytes) (pos : Nat) (nl : UInt8) (i : Nat) :
    lineBeginningLoop content pos nl i ≤ i + 1 := by
  induction i with
  | zero => rw [lbLoop_zero]; split <;> omega
  | succ i ih => rw [lbLoop_succ]; split <;> omega

/-- starting exactly at the position, the byte at the position is skipped -/
theorem lbLoop_at_pos (content : Bytes) (pos : Nat) (nl : UInt8) :
    lineBeginningLoop content pos nl pos ≤ pos := by
  cases pos with
  | zero =>
    rw [lbLoop_zero, if_neg]
    · exact Nat.le_refl 0
    · rw [guard_iff]; intro h; exact h.2 rfl
  | succ p =>
    rw [lbLoop_succ, if_neg]
    · exact lbLoop_le content (p + 1) nl p
    · rw [guard_iff]; intro h; exact h.2 rfl

theorem lbLoop_prev (content : Bytes) (pos : Nat) (nl : UInt8) (i : Nat) :
    lineBeginningLoop content pos nl i = 0 ∨
      (byteAt content (lineBeginningLoop content pos nl i - 1) = nl ∧
        lineBeginningLoop content pos nl i - 1 ≠ pos) := by
  induction i with
  | zero =>
    rw [lbLoop_zero]
    split
    next h => exact Or.inr ((guard_iff content pos nl 0).1 h)
    next => exact Or.inl rfl
  | succ i ih =>
    rw [lbLoop_succ]
    split
    next h => exact Or.inr ((guard_iff content pos nl (i + 1)).1 h)
    next => exact ih

theorem lbLoop_no_nl (content : Bytes) (pos : Nat) (nl : UInt8) (i : Nat) :
    ∀ k, lineBeginningLoop content pos nl i ≤ k → k ≤ i → k ≠ pos → byteAt content k ≠ nl := by
  induction i with
  | zero =>
    intro k h1 h2 h3 hb
    have hk : k = 0 := by omega
    subst hk
    rw [lbLoop_zero, if_pos ((guard_iff content pos nl 0).2 ⟨hb, h3⟩)] at h1
    omega
  | succ i ih =>
    intro k h1 h2 h3 hb
    rw [lbLoop_succ] at h1
    split at h1
    next => omega
    next hg =>
      by_cases hk : k = i + 1
      · subst hk
        exact hg ((guard_iff content pos nl (i + 1)).2 ⟨hb, h3⟩)
      · exact ih k h1 (by omega) h3 hb

/-! ### lineNumberLoop -/

theorem lnLoop_zero (content : Bytes) (pos : Nat) (nl : UInt8) :
    lineNumberLoop content pos nl 0 =
      if (byteAt content 0 == nl && 0 != pos) = true then 1 else 0 := rfl

theorem lnLoop_succ (content : Bytes) (pos : Nat) (nl : UInt8) (i : Nat) :
    lineNumberLoop content pos nl (i + 1) =
      (if (byteAt content (i + 1) == nl && (i + 1 != pos)) = true then 1 else 0) +
        lineNumberLoop content pos nl i := rfl

theorem filter_single_length (f : Nat → Bool) (k : Nat) :
    ([k].filter f).length = if f k = true then 1 else 0 := by
  rw [List.filter_cons, List.filter_nil]
  split <;> rfl

theorem lnLoop_eq (content : Bytes) (pos : Nat) (nl : UInt8) (i : Nat) :
    lineNumberLoop content pos nl i =
      ((List.range (i + 1)).filter (fun k => byteAt content k == nl && k != pos)).length := by
  induction i with
  | zero =>
    rw [lnLoop_zero]
    show _ = ([0].filter _).length
    rw [filter_single_length]
  | succ i ih =>
    rw [lnLoop_succ, List.range_succ, List.filter_append, List.length_append, filter_single_length,
      ← ih]
    omega

theorem lnLoop_eq_lb (content : Bytes) (pos : Nat) (nl : UInt8) (i : Nat) :
    lineNumberLoop content pos nl i =
      ((List.range (lineBeginningLoop content pos nl i)).filter
        (fun k => byteAt content k == nl && k != pos)).length := by
  induction i with
  | zero =>
    rw [lnLoop_zero, lbLoop_zero]
    split
    next h =>
      show _ = ([0].filter _).length
      rw [filter_single_length, if_pos h]
    next => rfl
  | succ i ih =>
    rw [lbLoop_succ]
    split
    next h => exact lnLoop_eq content pos nl (i + 1)
    next h => rw [lnLoop_succ, if_neg h, Nat.zero_add]; exact ih

/-! ### lineEndScan -/

theorem scan_zero (content : Bytes) (nl : UInt8) (i : Nat) : lineEndScan content nl i 0 = i := rfl

theorem scan_succ (content : Bytes) (nl : UInt8) (i fuel : Nat) :
    lineEndScan content nl i (fuel + 1) =
      if i < content.length then
        (if (byteAt content i == nl) = true then i else lineEndScan content nl (i + 1) fuel)
      else i := rfl

theorem scan_ge (content : Bytes) (nl : UInt8) (fuel : Nat) :
    ∀ i, i ≤ lineEndScan content nl i fuel := by
  induction fuel with
  | zero => intro i; rw [scan_zero]; exact Nat.le_refl i
  | succ fuel ih =>
    intro i
    rw [scan_succ]
    split
    · split
      · exact Nat.le_refl i
      · have := ih (i + 1); omega
    · exact Nat.le_refl i

theorem scan_le (content : Bytes) (nl : UInt8) (fuel : Nat) :
    ∀ i, i ≤ content.length → lineEndScan content nl i fuel ≤ content.length := by
  induction fuel with
  | zero => intro i h; rw [scan_zero]; exact h
  | succ fuel ih =>
    intro i h
    rw [scan_succ]
    split
    · split
      · exact h
      · exact ih (i + 1) (by omega)
    · exact h

theorem scan_no_nl (content : Bytes) (nl : UInt8) (fuel : Nat) :
    ∀ i k, i ≤ k → k < lineEndScan content nl i fuel → byteAt content k ≠ nl := by
  induction fuel with
  | zero => intro i k h1 h2; rw [scan_zero] at h2; omega
  | succ fuel ih =>
    intro i k h1 h2
    rw [scan_succ] at h2
    split at h2
    · split at h2
      · omega
      next hb =>
        by_cases hk : k = i
        · subst hk
          intro hb'
          exact hb (by rw [hb']; exact beq_self_eq_true nl)
        · exact ih (i + 1) k (by omega) h2
    · omega

/-- with enough fuel the scan stops at the content end or on a line-end byte -/
theorem scan_stop (content : Bytes) (nl : UInt8) (fuel : Nat) :
    ∀ i, content.length - i + 1 ≤ fuel →
      content.length ≤ lineEndScan content nl i fuel ∨
        byteAt content (lineEndScan content nl i fuel) = nl := by
  induction fuel with
  | zero => intro i h; omega
  | succ fuel ih =>
    intro i h
    rw [scan_succ]
    split
    · split
      next hb => exact Or.inr (by simpa using hb)
      next => exact ih (i + 1) (by omega)
    · exact Or.inl (by omega)

/-! ### lineEnd -/

/-- the "preceded by the other line-end byte" test of `LineEnd` -/
def other (nl c : UInt8) : Bool := (nl == B.lf && c == B.cr) || (nl == B.cr && c == B.lf)

theorem other_ne (nl c : UInt8) (h : other nl c = true) : c ≠ nl := by
  intro e
  subst e
  unfold other at h
  simp only [Bool.or_eq_true, Bool.and_eq_true, beq_iff_eq] at h
  rcases h with ⟨h1, h2⟩ | ⟨h1, h2⟩
  · rw [h1] at h2; exact absurd h2 (by decide)
  · rw [h1] at h2; exact absurd h2 (by decide)

/-- the raw scan result used by `lineEnd` -/
def scanOf (content : Bytes) (pos : Nat) (nl : UInt8) : Nat :=
  lineEndScan content nl (min pos content.length) (content.length - min pos content.length + 1)

theorem lineEnd_eq (content : Bytes) (pos : Nat) (nl : UInt8) :
    lineEnd content pos nl =
      if 0 < scanOf content pos nl then
        (if other nl (byteAt content (scanOf content pos nl - 1)) = true
          then scanOf content pos nl - 1 else scanOf content pos nl)
      else scanOf content pos nl := rfl

theorem scanOf_ge (content : Bytes) (pos : Nat) (nl : UInt8) :
    min pos content.length ≤ scanOf content pos nl := scan_ge content nl _ _

theorem scanOf_le (content : Bytes) (pos : Nat) (nl : UInt8) :
    scanOf content pos nl ≤ content.length := scan_le content nl _ _ (Nat.min_le_right _ _)

theorem lineEnd_le_scanOf (content : Bytes) (pos : Nat) (nl : UInt8) :
    lineEnd content pos nl ≤ scanOf content pos nl := by
  rw [lineEnd_eq]
  split
  · split <;> omega
  · omega

/-- `lineEnd` is the scan result, or one less when the byte before the scan result is not `nl` -/
theorem lineEnd_cases (content : Bytes) (pos : Nat) (nl : UInt8) :
    lineEnd content pos nl = scanOf content pos nl ∨
      (0 < scanOf content pos nl ∧ lineEnd content pos nl = scanOf content pos nl - 1 ∧
        byteAt content (scanOf content pos nl - 1) ≠ nl) := by
  rw [lineEnd_eq]
  split
  next hpos =>
    split
    next ho => exact Or.inr ⟨hpos, rfl, other_ne _ _ ho⟩
    next => exact Or.inl rfl
  next => exact Or.inl rfl

/-! ### lineBeginning -/

theorem lineBeginning_nil (pos : Nat) (nl : UInt8) : lineBeginning [] pos nl = 0 := rfl

theorem lineBeginning_eq (content : Bytes) (pos : Nat) (nl : UInt8) (h : content ≠ []) :
    lineBeginning content pos nl =
      lineBeginningLoop content pos nl (min pos (content.length - 1)) := by
  unfold lineBeginning
  rw [if_neg]
  intro h0
  exact h (List.eq_nil_of_length_eq_zero h0)

theorem lineNumber_eq (content : Bytes) (pos : Nat) (nl : UInt8) (h : content ≠ []) :
    lineNumber content pos nl =
      lineNumberLoop content pos nl (min pos (content.length - 1)) + 1 := by
  unfold lineNumber
  rw [if_neg]
  intro h0
  exact h (List.eq_nil_of_length_eq_zero h0)

theorem length_pos_of_ne_nil (content : Bytes) (h : content ≠ []) : 0 < content.length := by
  cases content with
  | nil => exact absurd rfl h
  | cons _ _ => exact Nat.succ_pos _

/-- the line beginning never exceeds the clamped position -/
theorem lineBeginning_le_clamp (content : Bytes) (pos : Nat) (nl : UInt8) :
    lineBeginning content pos nl ≤ min pos content.length := by
  by_cases h : content = []
  · subst h; rw [lineBeginning_nil]; exact Nat.zero_le _
  · have hl := length_pos_of_ne_nil content h
    rw [lineBeginning_eq content pos nl h]
    by_cases hp : pos < content.length
    · have e1 : min pos (content.length - 1) = pos := by omega
      have e2 : min pos content.length = pos := by omega
      rw [e1, e2]
      exact lbLoop_at_pos content pos nl
    · have e1 : min pos (content.length - 1) = content.length - 1 := by omega
      have e2 : min pos content.length = content.length := by omega
      rw [e1, e2]
      have := lbLoop_le content pos nl (content.length - 1)
      omega

theorem lineBeginning_prev (content : Bytes) (pos : Nat) (nl : UInt8) :
    lineBeginning content pos nl = 0 ∨
      (byteAt content (lineBeginning content pos nl - 1) = nl ∧
        lineBeginning content pos nl - 1 ≠ pos) := by
  by_cases h : content = []
  · subst h; exact Or.inl rfl
  · rw [lineBeginning_eq content pos nl h]
    exact lbLoop_prev content pos nl _

end JSight.C02
