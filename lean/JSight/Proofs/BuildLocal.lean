import JSight.Model.Build
import JSight.Proofs.BuildFaith
import JSight.Proofs.BuildPermInters2
/-!
Helpers of `Props/C20_Build.lean` (C20, locality of an appended HTTP-method block, catalog-construction model).

* part A: `compile` as a conjunction of its stages (`compile_iff`) and the stages of a forest with one more tree
  at the end (`compile_snoc_iff`);
* part B: what `attachAll` does to the tags for an HTTP interaction (`attachAll_http`);
* part C: what an accepted method block does to a catalog (`method_block_step`): the directive creates the
  interaction and its tag stage runs; everything below it is an update of that interaction
  (`BuildPermI.forest_local`).
-/
set_option linter.unusedSimpArgs false
set_option linter.unusedVariables false

namespace JSight.BuildLocal
open JSight JSight.Build JSight.Gen JSight.BuildInv JSight.BuildPerm JSight.BuildPermI

/-! ### part A: the stages of `compile` -/

theorem compile_iff (banned : List Kind) (f : List BTree) (c : Cat) : compile banned f = .ok c ↔
    ∃ c₀ x, collectTags f {} = .ok c₀ ∧ checkTypeNames f = .ok () ∧ pathsForest [] f [] = .ok x ∧
      headCheck f = .ok () ∧ addForest banned [] f c₀ = .ok c ∧ chk c = .ok () := by
  rw [compile_eq]
  constructor
  · intro h
    obtain ⟨c₀, h0, h⟩ := bind_ok h
    obtain ⟨⟨⟩, h1, h⟩ := bind_ok h
    obtain ⟨x, h2, h⟩ := bind_ok h
    obtain ⟨⟨⟩, h3, h⟩ := bind_ok h
    obtain ⟨c₁, h4, h⟩ := bind_ok h
    rw [finish_eq] at h
    obtain ⟨⟨⟩, h5, h⟩ := bind_ok h
    cases h
    exact ⟨c₀, x, h0, h1, h2, h3, h4, h5⟩
  · rintro ⟨c₀, x, h0, h1, h2, h3, h4, h5⟩
    simp only [h0, h1, h2, h3, h4, ok_bind, finish_eq, h5]

theorem headCheck_append {f : List BTree} (hf : f ≠ []) (g : List BTree) : headCheck (f ++ g) = headCheck f := by
  cases f with
  | nil => exact absurd rfl hf
  | cons a r => rfl

theorem headCheck_single {t : BTree} (ht : t.dir.kind ≠ .Jsight) : headCheck [t] ≠ .ok () := by
  unfold headCheck
  have : (t.dir.kind != Kind.Jsight) = true := by simpa using ht
  simp only [this, if_true]
  exact fail_ne_ok

theorem collectTags_single_notTag {t : BTree} (h : t.dir.kind ≠ .TAG) (c : Cat) : collectTags [t] c = .ok c := by
  rw [collectTags_cons, ctStep_notTag h, ok_bind, collectTags_nil]

theorem pathsForest_single (anc : List BDir) (t : BTree) (last : List Nat) :
    pathsForest anc [t] last = pathsTree anc t last := by
  rw [pathsForest_cons]
  cases pathsTree anc t last with
  | error e => rfl
  | ok l => rw [ok_bind, pathsForest_nil]

theorem checkTypeNames_snoc {f : List BTree} {t : BTree} (ht : t.dir.kind ≠ .Type) :
    checkTypeNames (f ++ [t]) = .ok () ↔ checkTypeNames f = .ok () := by
  rw [checkTypeNames_ok, checkTypeNames_ok]
  constructor
  · intro h a ha; exact h a (List.mem_append_left _ ha)
  · intro h a ha
    rcases List.mem_append.1 ha with ha | ha
    · exact h a ha
    · simp only [List.mem_singleton] at ha
      subst ha
      have : (a.dir.kind == Kind.Type) = false := by simpa using ht
      simp [this]

/-- the stages of a forest with one more tree at the end (the tree is not a TAG, TYPE or JSIGHT directive) -/
theorem compile_snoc_iff (banned : List Kind) (f : List BTree) (t : BTree) (c' : Cat) (hk : t.dir.kind ≠ .TAG)
    (hty : t.dir.kind ≠ .Type) (hj : t.dir.kind ≠ .Jsight) :
    compile banned (f ++ [t]) = .ok c' ↔
      ∃ c₀ x y c, f ≠ [] ∧ collectTags f {} = .ok c₀ ∧ checkTypeNames f = .ok () ∧
        pathsForest [] f [] = .ok x ∧ pathsTree [] t x = .ok y ∧ headCheck f = .ok () ∧
        addForest banned [] f c₀ = .ok c ∧ addBranch banned [] t c = .ok c' ∧ chk c' = .ok () := by
  rw [compile_iff]
  constructor
  · rintro ⟨c₀', y, h0, h1, h2, h3, h4, h5⟩
    have hf : f ≠ [] := by
      intro e; subst e
      exact headCheck_single hj h3
    rw [BuildPerm.collectTags_append] at h0
    obtain ⟨c₀, h0a, h0b⟩ := bind_ok h0
    rw [collectTags_single_notTag hk] at h0b
    have e0 : c₀ = c₀' := Except.ok.inj h0b
    subst e0
    rw [BuildPerm.pathsForest_append] at h2
    obtain ⟨x, h2a, h2b⟩ := bind_ok h2
    rw [pathsForest_single] at h2b
    rw [BuildPerm.addForest_append] at h4
    obtain ⟨c, h4a, h4b⟩ := bind_ok h4
    rw [addForest_single] at h4b
    rw [headCheck_append hf] at h3
    exact ⟨c₀, x, y, c, hf, h0a, (checkTypeNames_snoc hty).1 h1, h2a, h2b, h3, h4a, h4b, h5⟩
  · rintro ⟨c₀, x, y, c, hf, h0, h1, h2a, h2b, h3, h4a, h4b, h5⟩
    refine ⟨c₀, y, ?_, (checkTypeNames_snoc hty).2 h1, ?_, ?_, ?_, h5⟩
    · rw [BuildPerm.collectTags_append, h0, ok_bind, collectTags_single_notTag hk]
    · rw [BuildPerm.pathsForest_append, h2a, ok_bind, pathsForest_single, h2b]
    · rw [headCheck_append hf, h3]
    · rw [BuildPerm.addForest_append, h4a, ok_bind, addForest_single, h4b]

/-! ### part B: the tags that receive an HTTP interaction id -/

/-- the tag after the id text `txt` of an HTTP interaction with tag names `ns` is attached: once for every
occurrence of the tag's name in `ns` (a Tags directive may name a tag twice) -/
def bumpT (txt : Bytes) (ns : List Bytes) (t : TagM) : TagM :=
  { t with http := t.http ++ List.replicate (ns.count t.name) txt }

theorem attachList_http (i : IId) (hp : i.proto = .http) : ∀ (ns : List Bytes) (t : TagM),
    attachList i ns t = bumpT i.text ns t
  | [], t => by simp [attachList, bumpT]
  | n :: r, t => by
    rw [attachList_cons]
    by_cases hn : t.name = n
    · subst hn
      simp only [beq_self_eq_true, if_true]
      rw [attachList_http i hp r]
      unfold bumpT attach
      simp only [hp, List.count_cons_self, List.replicate_succ, List.append_assoc, List.singleton_append]
    · have hb : (t.name == n) = false := by simpa using hn
      have hn' : ¬ n = t.name := fun e => hn e.symm
      simp only [hb, Bool.false_eq_true, if_false]
      rw [attachList_http i hp r]
      unfold bumpT
      rw [List.count_cons_of_ne hn']

theorem attachAll_http (i : IId) (hp : i.proto = .http) (ns : List Bytes) (c : Cat) :
    attachAll c i ns = { c with tags := c.tags.map (bumpT i.text ns) } := by
  rw [attachAll_eq]
  congr 1
  apply List.map_congr_left
  intro t _
  exact attachList_http i hp ns t

theorem bumpT_not_mem {txt : Bytes} {ns : List Bytes} {t : TagM} (h : t.name ∉ ns) : bumpT txt ns t = t := by
  unfold bumpT
  rw [List.count_eq_zero_of_not_mem h]
  simp

theorem map_bumpT_fresh {txt : Bytes} {ns : List Bytes} {l : List TagM} (h : ∀ t ∈ l, t.name ∉ ns) :
    l.map (bumpT txt ns) = l := by
  conv => rhs; rw [← List.map_id l]
  apply List.map_congr_left
  intro t ht
  exact bumpT_not_mem (h t ht)

/-! ### part C: an accepted method block -/

/-- the id of a top-level method directive -/
def topId (d : BDir) : IId := ⟨.http, verbOf d.kind, d.param "Path"⟩

theorem isHTTP_not_url {k : Kind} (h : isHTTP k = true) : (k == Kind.URL) = false := by
  cases k <;> first | rfl | exact absurd h (by decide)

theorem httpIdOf_top {d : BDir} {i : IId} (hk : isHTTP d.kind = true) (h : httpIdOf [d] = .ok i) : i = topId d := by
  unfold httpIdOf at h
  obtain ⟨p, hp, h⟩ := BuildInv.bind_ok h
  obtain ⟨k, hm, h⟩ := BuildInv.bind_ok h
  cases h
  simp only [methodChain, hk, if_true] at hm
  cases hm
  simp only [pathChain, isHTTP_not_url hk, hk, Bool.true_and, Bool.false_eq_true, if_false] at hp
  split at hp
  · unfold chkPath at hp
    split at hp
    · cases hp; rfl
    · cases hp
  · cases hp

theorem updInter_absent {c : Cat} {i : IId} (h : c.hasInter i = false) (f : InterM → InterM) :
    c.inters.map (fun x => if x.iid == i then f x else x) = c.inters := by
  conv => rhs; rw [← List.map_id c.inters]
  apply List.map_congr_left
  intro x hx
  unfold Cat.hasInter at h
  rw [List.any_eq_false] at h
  have := h x hx
  simp only [Bool.not_eq_true] at this
  simp [this]

/-- the automatic tag of an interaction id -/
def autoTag (i : IId) : TagM := { name := autoName i, title := pathTagTitle i.path, declared := false }

/-- the tag names of a top-level method directive with children `kids` -/
def nsOfTop (kids : List BDir) (i : IId) : List Bytes :=
  match tagsChild kids with
  | some td => td.unnamed
  | none => [autoName i]

/-- the tag stage of a top-level method directive, for an HTTP id -/
theorem tagStage_top {d : BDir} {kids : List BDir} {i : IId} {c c₂ : Cat} (hp : i.proto = .http)
    (h : tagStage d kids [] i c = .ok c₂) :
    ∃ extra, c₂ = { c with tags := (c.tags ++ extra).map (bumpT i.text (nsOfTop kids i)),
                           inters := c.inters ++ [{ iid := i, annot := d.annot, tags := nsOfTop kids i }] } ∧
      ((extra = [] ∧ ∀ n ∈ nsOfTop kids i, ∃ t ∈ c.tags, t.name = n) ∨
       (extra = [autoTag i] ∧ nsOfTop kids i = [autoName i] ∧ ∀ t ∈ c.tags, t.name ≠ autoName i)) := by
  unfold tagStage tagsSource at h
  unfold nsOfTop
  cases hc : tagsChild kids with
  | some td =>
    rw [hc] at h
    simp only [] at h
    cases ht : tagsFromDirective c td with
    | error e => rw [ht] at h; cases h
    | ok ns =>
      rw [ht] at h
      simp only [] at h
      cases h
      obtain ⟨rfl, hall⟩ := C04B.tagsFromDirective_ok ht
      refine ⟨[], ?_, Or.inl ⟨rfl, ?_⟩⟩
      · rw [attachAll_http i hp]; simp [fin]
      · intro n hn
        obtain ⟨t, hg, _⟩ := hall n hn
        unfold Cat.getTag at hg
        exact ⟨t, List.mem_of_find?_eq_some hg, by simpa using List.find?_some hg⟩
  | none =>
    rw [hc] at h
    simp only [] at h
    cases h
    unfold autoCat
    cases hg : c.getTag (autoName i) with
    | some t =>
      refine ⟨[], ?_, Or.inl ⟨rfl, ?_⟩⟩
      · simp only []
        rw [attachAll_http i hp]; simp [fin]
      · intro n hn
        simp only [List.mem_singleton] at hn
        subst hn
        unfold Cat.getTag at hg
        exact ⟨t, List.mem_of_find?_eq_some hg, by simpa using List.find?_some hg⟩
    | none =>
      refine ⟨[autoTag i], ?_, Or.inr ⟨rfl, rfl, ?_⟩⟩
      · simp only []
        rw [attachAll_http i hp]; simp [fin, autoTag]
      · intro t ht
        unfold Cat.getTag at hg
        rw [List.find?_eq_none] at hg
        simpa using hg t ht

/-- an HTTP-method directive at the top level: the handler -/
theorem addDirective_http (banned : List Kind) (d : BDir) (kids : List BDir) (anc : List Up) (c : Cat)
    (hk : isHTTP d.kind = true) :
    addDirective banned d kids anc c =
      if banned.contains d.kind then fail d .notAllowed else addHTTPMethod d kids anc c := by
  rcases isHTTP_cases hk with h | h | h | h | h <;> (unfold addDirective; rw [h])

/-- what the faithfulness theorems read of an interaction: id, annotation, tag names -/
def core (x : InterM) : IId × Bytes × List Bytes := (x.iid, x.annot, x.tags)

theorem stepR_neutral_core {e : C04B.Ent} {c c' : Cat} (h : C04B.StepR e c c')
    (hn : C04B.neutral e.d.kind = true) : c'.inters.map core = c.inters.map core := by
  have hf := C04B.neutral_facts hn
  cases h
  case same => rfl
  case jsight hk _ => exact absurd hk hf.2.2.2
  case info hk _ => exact absurd hn (by rw [hk]; decide)
  case title hk _ _ _ => exact absurd hn (by rw [hk]; decide)
  case version hk _ _ _ => exact absurd hn (by rw [hk]; decide)
  case descrInfo => rfl
  case inters g _ hg =>
    simp only [List.map_map]
    apply List.map_congr_left
    intro x _
    simp only [Function.comp, core, (hg x).1, (hg x).2.1, (hg x).2.2]
  case tagsMap => rfl
  case server hk _ _ => exact absurd hn (by rw [hk]; decide)
  case baseUrl hk _ => exact absurd hn (by rw [hk]; decide)
  case type hk _ _ => exact absurd hn (by rw [hk]; decide)
  case url hk _ => exact absurd hn (by rw [hk]; decide)
  case method hm _ _ _ _ => exact absurd hm (by rw [hf.2.2.1]; decide)
  case proto => rfl

theorem localKindT_neutral {d : BDir} (h : localKindT d = true) : C04B.neutral d.kind = true := by
  rcases localKindT_cases h with h | h
  · rcases localKind_cases h with h | h | h | h | h | h | h | h <;> rw [h] <;> rfl
  · rw [h]; rfl

mutual
  theorem allT_flatA {P : BDir → Bool} (anc : List Up) : ∀ t : BTree, allT P t = true →
      ∀ e ∈ C04B.flatA anc t, P e.d = true
    | .node d kids, h, e, he => by
      rw [allT, Bool.and_eq_true] at h
      rw [C04B.flatA, List.mem_cons] at he
      rcases he with rfl | he
      · exact h.1
      · exact allF_flatAF _ kids h.2 e he
  theorem allF_flatAF {P : BDir → Bool} (anc : List Up) : ∀ ts : List BTree, allF P ts = true →
      ∀ e ∈ C04B.flatAF anc ts, P e.d = true
    | [], _, e, he => by rw [C04B.flatAF] at he; cases he
    | t :: r, h, e, he => by
      rw [allF, Bool.and_eq_true] at h
      rw [C04B.flatAF, List.mem_append] at he
      rcases he with he | he
      · exact allT_flatA anc t h.1 e he
      · exact allF_flatAF anc r h.2 e he
end

/-- the directives below a method directive keep id, annotation and tag names of every interaction -/
theorem forest_core {banned : List Kind} {anc : List Up} {kids : List BTree} {c c' : Cat}
    (hl : allF localKindT kids = true) (h : addForest banned anc kids c = .ok c') :
    c'.inters.map core = c.inters.map core := by
  rw [C04B.addForest_eq_run] at h
  refine C04B.run_inv (banned := banned) (fun x => x.inters.map core = c.inters.map core) _ ?_ c c' rfl h
  intro e he x x' hp hs
  rw [← hp]
  exact stepR_neutral_core (C04B.step_ok hs).2 (localKindT_neutral (allF_flatAF anc kids hl e he))

/-- what an accepted HTTP-method block (`GET /path` with Description, Query, Request, responses, Headers, Body,
Path, Paste, Tags below it, at any depth) does to a catalog -/
theorem method_block_step {banned : List Kind} {d : BDir} {kids : List BTree} {c c' : Cat}
    (hk : isHTTP d.kind = true) (hl : allF localKindT kids = true)
    (h : addBranch banned [] (.node d kids) c = .ok c') :
    ∃ (sim : List (Bytes × Bytes)) (extra : List TagM) (new : InterM),
      new.iid = topId d ∧ new.annot = d.annot ∧ new.tags = nsOfTop (kids.map BTree.dir) (topId d) ∧
      httpIdOf [d] = .ok (topId d) ∧ c.hasInter (topId d) = false ∧ d.kind ∉ banned ∧
      c' = { c with similar := sim,
                    tags := (c.tags ++ extra).map (bumpT (topId d).text (nsOfTop (kids.map BTree.dir) (topId d))),
                    inters := c.inters ++ [new] } ∧
      ((extra = [] ∧ ∀ n ∈ nsOfTop (kids.map BTree.dir) (topId d), ∃ t ∈ c.tags, t.name = n) ∨
       (extra = [autoTag (topId d)] ∧ nsOfTop (kids.map BTree.dir) (topId d) = [autoName (topId d)] ∧
          ∀ t ∈ c.tags, t.name ≠ autoName (topId d))) := by
  rw [addBranch_eq] at h
  obtain ⟨c₂, hd, hkids⟩ := BuildInv.bind_ok h
  rw [addDirective_http banned d _ [] c hk] at hd
  split at hd
  · cases hd
  rename_i hban
  rw [addHTTPMethod_eq] at hd
  obtain ⟨path, _, hd⟩ := BuildInv.bind_ok hd
  obtain ⟨pp, _, hd⟩ := BuildInv.bind_ok hd
  split at hd
  · cases hd
  rename_i sim _
  obtain ⟨i, hi, hd⟩ := BuildInv.bind_ok hd
  have hi : httpIdOf [d] = .ok i := BuildInv.liftAt_ok hi
  have hid := httpIdOf_top hk hi
  subst hid
  split at hd
  · cases hd
  rename_i hhas
  have hhas : c.hasInter (topId d) = false := by simpa using hhas
  obtain ⟨extra, hc₂, hex⟩ := tagStage_top (i := topId d) rfl hd
  have hcore := forest_core hl hkids
  have hloc := forest_local banned (topId d) kids [⟨d, kids.map BTree.dir⟩] hl hi
    (fun p r e => by cases e; exact Or.inr hk)
  rcases hloc c₂ c₂ rfl (DeclEq.refl _) with ⟨e, _, he, _⟩ | ⟨g, hg, hok, _⟩
  · rw [he] at hkids; cases hkids
  · rw [hok] at hkids
    cases hkids
    have hin : (c₂.updInter (topId d) g).inters = c.inters ++
        [g { iid := topId d, annot := d.annot, tags := nsOfTop (kids.map BTree.dir) (topId d) }] := by
      rw [hc₂]
      unfold Cat.updInter
      simp only [List.map_append, List.map_cons, List.map_nil, updInter_absent hhas, beq_self_eq_true, if_true]
    have hin2 : c₂.inters = c.inters ++
        [{ iid := topId d, annot := d.annot, tags := nsOfTop (kids.map BTree.dir) (topId d) }] := by
      rw [hc₂]
    rw [hin, hin2] at hcore
    simp only [List.map_append, List.map_cons, List.map_nil, List.append_cancel_left_eq, List.cons.injEq, and_true,
      core, Prod.mk.injEq] at hcore
    refine ⟨sim, extra, _, hcore.1, hcore.2.1, hcore.2.2, hi, hhas, by simpa using hban, ?_, hex⟩
    have e : c₂.updInter (topId d) g = { c₂ with inters := (c₂.updInter (topId d) g).inters } := rfl
    rw [e, hin, hc₂]

/-! ### part C': the verdict of a method block on another catalog -/

theorem tagStage_ok_decl {c c' : Cat} (h : DeclEq c c') {d : BDir} {kids : List BDir} {anc : List Up} {i : IId}
    {c₂ : Cat} (hs : tagStage d kids anc i c = .ok c₂) : ∃ c₂', tagStage d kids anc i c' = .ok c₂' := by
  unfold tagStage at hs ⊢
  cases hsrc : tagsSource kids anc with
  | none => exact ⟨_, rfl⟩
  | some td =>
    rw [hsrc] at hs
    simp only [] at hs ⊢
    rw [tagsFromDirective_decl h td]
    cases ht : tagsFromDirective c td with
    | error e => rw [ht] at hs; cases hs
    | ok ns => exact ⟨_, rfl⟩

/-- the tag stage of a method directive keeps the declared names -/
theorem declEq_tagStep (c : Cat) (sim : List (Bytes × Bytes)) (txt : Bytes) (ns : List Bytes) (extra : List TagM)
    (ints : List InterM)
    (hex : extra = [] ∨ ∃ a, extra = [a] ∧ a.declared = false) :
    DeclEq c { c with similar := sim, tags := (c.tags ++ extra).map (bumpT txt ns), inters := ints } := by
  intro n
  unfold declOf Cat.getTag
  simp only []
  rw [List.find?_map]
  have e : ((fun x : TagM => x.name == n) ∘ bumpT txt ns) = (fun x => x.name == n) := rfl
  rw [e, List.find?_append]
  cases hf : c.tags.find? (fun x => x.name == n) with
  | some t => rfl
  | none =>
    rcases hex with rfl | ⟨a, rfl, ha⟩
    · rfl
    · simp only [Option.none_or, List.find?_cons, List.find?_nil]
      cases hn : (a.name == n) with
      | true => simp only [Option.map_some]; exact ha
      | false => rfl

theorem getInter_last {c₂ c : Cat} {i : IId} {new0 : InterM} (hi : new0.iid = i) (hhas : c.hasInter i = false)
    (h2 : c₂.inters = c.inters ++ [new0]) : c₂.getInter i = some new0 := by
  rw [hasInter_iff_getInter] at hhas
  unfold Cat.getInter at hhas ⊢
  rw [h2, List.find?_append]
  cases hf : c.inters.find? (fun x => x.iid == i) with
  | some x => rw [hf] at hhas; cases hhas
  | none => simp [hi]

theorem updInter_last {c₂ c : Cat} {i : IId} {g : InterM → InterM} {new0 : InterM} (hi : new0.iid = i)
    (hhas : c.hasInter i = false) (h2 : c₂.inters = c.inters ++ [new0]) :
    (c₂.updInter i g).inters = c.inters ++ [g new0] := by
  unfold Cat.updInter
  simp only [h2, List.map_append, List.map_cons, List.map_nil, updInter_absent hhas, hi, beq_self_eq_true, if_true]

/-- ACCEPTANCE IS LOCAL: if the block is accepted on the catalog `c₀`, it is accepted on every catalog `c` that
declares the same tag names, whose similar-paths table admits the path and that has no interaction of that id;
the interaction it creates is the same -/
theorem method_block_transfer {banned : List Kind} {d : BDir} {kids : List BTree} {c₀ c₀' c : Cat}
    (hk : isHTTP d.kind = true) (hl : allF localKindT kids = true)
    (h₀ : addBranch banned [] (.node d kids) c₀ = .ok c₀') (hdecl : DeclEq c₀ c)
    (hsim : ∀ path pp, pathChain [d] = .ok path → checkedParams d path = .ok pp →
      (checkSimilar c.similar pp).isSome = true)
    (hfresh : c.hasInter (topId d) = false) :
    ∃ c', addBranch banned [] (.node d kids) c = .ok c' ∧ c'.inters.getLast? = c₀'.inters.getLast? := by
  rw [addBranch_eq] at h₀
  obtain ⟨c₀₂, hd, hkids⟩ := BuildInv.bind_ok h₀
  rw [addDirective_http banned d _ [] c₀ hk] at hd
  split at hd
  · cases hd
  rename_i hban
  rw [addHTTPMethod_eq] at hd
  obtain ⟨path, hpath, hd⟩ := BuildInv.bind_ok hd
  obtain ⟨pp, hpp, hd⟩ := BuildInv.bind_ok hd
  split at hd
  · cases hd
  rename_i sim₀ _
  obtain ⟨i, hi, hd⟩ := BuildInv.bind_ok hd
  have hi' : httpIdOf [d] = .ok i := BuildInv.liftAt_ok hi
  have hid := httpIdOf_top hk hi'
  subst hid
  split at hd
  · cases hd
  rename_i hhas₀
  have hhas₀ : c₀.hasInter (topId d) = false := by simpa using hhas₀
  have hs := hsim path pp (BuildInv.liftAt_ok hpath) hpp
  cases hcs : checkSimilar c.similar pp with
  | none => rw [hcs] at hs; cases hs
  | some sim =>
    have hdir : addDirective banned d (kids.map BTree.dir) [] c =
        tagStage d (kids.map BTree.dir) [] (topId d) { c with similar := sim } := by
      rw [addDirective_http banned d _ [] c hk, if_neg hban, addHTTPMethod_eq, hpath, ok_bind, hpp, ok_bind]
      simp only [hcs, hi, ok_bind, hfresh, Bool.false_eq_true, if_false]
    have hd0 : DeclEq ({ c₀ with similar := sim₀ } : Cat) ({ c with similar := sim } : Cat) := fun n => hdecl n
    obtain ⟨c₂, hts⟩ := tagStage_ok_decl hd0 hd
    obtain ⟨ex₀, hc₀₂, hex₀⟩ := tagStage_top (i := topId d) rfl hd
    obtain ⟨ex, hc₂, hex⟩ := tagStage_top (i := topId d) rfl hts
    have hA : DeclEq ({ c₀ with similar := sim₀ } : Cat) c₀₂ := by
      rw [hc₀₂]
      refine declEq_tagStep _ _ _ _ _ _ ?_
      rcases hex₀ with ⟨h, _⟩ | ⟨h, _⟩
      · exact Or.inl h
      · exact Or.inr ⟨_, h, rfl⟩
    have hB : DeclEq ({ c with similar := sim } : Cat) c₂ := by
      rw [hc₂]
      refine declEq_tagStep _ _ _ _ _ _ ?_
      rcases hex with ⟨h, _⟩ | ⟨h, _⟩
      · exact Or.inl h
      · exact Or.inr ⟨_, h, rfl⟩
    have hdecl₂ : DeclEq c₀₂ c₂ := fun n => ((hB n).trans (hd0 n)).trans (hA n).symm
    have hin₀ : c₀₂.inters = c₀.inters ++
        [{ iid := topId d, annot := d.annot, tags := nsOfTop (kids.map BTree.dir) (topId d) }] := by rw [hc₀₂]
    have hin : c₂.inters = c.inters ++
        [{ iid := topId d, annot := d.annot, tags := nsOfTop (kids.map BTree.dir) (topId d) }] := by rw [hc₂]
    have hget : c₂.getInter (topId d) = c₀₂.getInter (topId d) := by
      rw [getInter_last rfl hfresh hin, getInter_last rfl hhas₀ hin₀]
    have hloc := forest_local banned (topId d) kids [⟨d, kids.map BTree.dir⟩] hl hi'
      (fun p r e => by cases e; exact Or.inr hk)
    rcases hloc c₀₂ c₂ hget hdecl₂ with ⟨e, _, he, _⟩ | ⟨g, hg, hok0, hok⟩
    · rw [he] at hkids; cases hkids
    · rw [hok0] at hkids
      refine ⟨c₂.updInter (topId d) g, ?_, ?_⟩
      · rw [addBranch_eq, hdir, hts, ok_bind, hok]
      · rw [← Except.ok.inj hkids, updInter_last rfl hfresh hin, updInter_last rfl hhas₀ hin₀]
        simp

theorem pathChain_top {d : BDir} {path : Bytes} (hk : isHTTP d.kind = true) (h : pathChain [d] = .ok path) :
    path = d.param "Path" := by
  simp only [pathChain, isHTTP_not_url hk, hk, Bool.true_and, Bool.false_eq_true, if_false] at h
  split at h
  · unfold chkPath at h
    split at h
    · cases h; rfl
    · cases h
  · cases h

theorem checkedParams_ok {d : BDir} {path : Bytes} {pp : List (Bytes × Bytes)} (h : checkedParams d path = .ok pp) :
    checkedPathParameters path = .ok pp := by
  unfold checkedParams at h
  split at h
  · rename_i e; cases h; exact e
  · cases h
  · cases h

/-- with unique names a tag is found under its name -/
theorem find_of_nodup : ∀ {l : List TagM}, (l.map (·.name)).Nodup → ∀ {t : TagM}, t ∈ l →
    l.find? (fun x => x.name == t.name) = some t
  | [], _, t, ht => by cases ht
  | a :: r, hnd, t, ht => by
    rw [List.map_cons, List.nodup_cons] at hnd
    rcases List.mem_cons.1 ht with rfl | ht
    · simp
    · have hne : a.name ≠ t.name := by
        intro e
        exact hnd.1 (e ▸ List.mem_map_of_mem (f := fun x : TagM => x.name) ht)
      have hb : (a.name == t.name) = false := by simpa using hne
      rw [List.find?_cons, hb]
      exact find_of_nodup hnd.2 ht

/-! ### part D: the checks after the fold -/

theorem chk_iff (c : Cat) : chk c = .ok () ↔
    validateInfo c = .ok () ∧ validateRequestBody c.inters = .ok () ∧ validateResponseBody c.inters = .ok () := by
  unfold chk
  cases h1 : validateInfo c with
  | error e => simp [bind_eq]
  | ok u =>
    cases h2 : validateRequestBody c.inters with
    | error e => simp [bind_eq]
    | ok v =>
      cases h3 : validateResponseBody c.inters with
      | error e => simp [bind_eq, h3]
      | ok w => simp [bind_eq, h3]

/-- the checks of a catalog with one more interaction -/
theorem chk_snoc {c c' : Cat} {new : InterM} (hi : c'.info = c.info) (hn : c'.inters = c.inters ++ [new]) :
    chk c' = .ok () ↔ chk c = .ok () ∧ (∀ q, new.request = some q → q.body.isSome = true) ∧
      (∀ r ∈ new.responses, r.body.isSome = true) := by
  rw [chk_iff, chk_iff, validateRequestBody_ok_iff, validateResponseBody_ok_iff, validateRequestBody_ok_iff,
    validateResponseBody_ok_iff, hn]
  have e : validateInfo c' = validateInfo c := by unfold validateInfo; rw [hi]
  rw [e]
  constructor
  · rintro ⟨a, b, d⟩
    refine ⟨⟨a, fun x hx => b x (List.mem_append_left _ hx), fun x hx => d x (List.mem_append_left _ hx)⟩, ?_, ?_⟩
    · exact b new (List.mem_append_right _ (List.mem_singleton.2 rfl))
    · exact d new (List.mem_append_right _ (List.mem_singleton.2 rfl))
  · rintro ⟨⟨a, b, d⟩, b', d'⟩
    refine ⟨a, ?_, ?_⟩
    · intro x hx
      rcases List.mem_append.1 hx with hx | hx
      · exact b x hx
      · rw [List.mem_singleton.1 hx]; exact b'
    · intro x hx
      rcases List.mem_append.1 hx with hx | hx
      · exact d x hx
      · rw [List.mem_singleton.1 hx]; exact d'

end JSight.BuildLocal
