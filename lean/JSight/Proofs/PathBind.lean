import JSight.Model.PathBind
import JSight.Proofs.C13
/-!
C13 (binding part) — helper lemmas about `JSight.PathBind` (core Lean only).

* the prefix of a path parameter determines its name (`mem_pathParameters_name`);
* relational induction principles for `bindParams` / `bindAll` (successful runs);
* the table invariants, for an arbitrary start table.
-/
namespace JSight.PathBind
open JSight

/-! ### `joinSlash` and the last segment of a prefix -/

/-- the bytes after the last '/' -/
def lastSeg (b : Bytes) : Bytes := (b.reverse.takeWhile (· != B.slash)).reverse

theorem joinSlash_snoc (l : List Bytes) (s : Bytes) :
    joinSlash (l ++ [s]) = if l = [] then s else joinSlash l ++ B.slash :: s := by
  induction l with
  | nil => simp [joinSlash]
  | cons a r ih =>
    cases r with
    | nil => simp [joinSlash]
    | cons b r' =>
      have : joinSlash (a :: (b :: r' ++ [s])) = a ++ B.slash :: joinSlash (b :: r' ++ [s]) := rfl
      simp only [List.cons_append] at this ih ⊢
      rw [this, ih]
      simp [joinSlash]

theorem takeWhile_ne_all (s : Bytes) (rest : Bytes) (h : B.slash ∉ s) :
    (s ++ rest).takeWhile (· != B.slash) = s ++ rest.takeWhile (· != B.slash) := by
  induction s with
  | nil => rfl
  | cons c r ih =>
    have hc : c ≠ B.slash := fun e => h (by rw [e]; exact List.mem_cons_self)
    have hr : B.slash ∉ r := fun e => h (List.mem_cons_of_mem _ e)
    simp [hc, ih hr]

theorem lastSeg_joinSlash_snoc (l : List Bytes) (s : Bytes) (h : B.slash ∉ s) :
    lastSeg (joinSlash (l ++ [s])) = s := by
  have hr : B.slash ∉ s.reverse := fun e => h (List.mem_reverse.mp e)
  rw [joinSlash_snoc]
  unfold lastSeg
  by_cases hl : l = []
  · rw [if_pos hl]
    have := takeWhile_ne_all s.reverse [] hr
    simp only [List.append_nil] at this
    rw [this]; simp
  · rw [if_neg hl, List.reverse_append, List.reverse_cons, List.append_assoc, takeWhile_ne_all _ _ hr]
    simp

theorem loop_mem_name (done rest : List Bytes) (hs : ∀ s ∈ rest, B.slash ∉ s) (pre n : Bytes)
    (h : (pre, n) ∈ pathParamsLoop done rest) : n = paramInner (lastSeg pre) := by
  induction rest generalizing done with
  | nil => simp [pathParamsLoop] at h
  | cons seg rest ih =>
    have hseg : B.slash ∉ seg := hs seg List.mem_cons_self
    have hrest : ∀ s ∈ rest, B.slash ∉ s := fun s m => hs s (List.mem_cons_of_mem _ m)
    rw [C13.loop_cons] at h
    by_cases hp : isParamSeg seg = true
    · rw [if_pos hp] at h
      rcases List.mem_cons.mp h with h | h
      · cases h
        rw [lastSeg_joinSlash_snoc _ _ hseg]
      · exact ih _ hrest h
    · rw [if_neg hp] at h
      exact ih _ hrest h

/-- the name of a path parameter is the inside of the last segment of its prefix -/
theorem mem_pathParameters_name (p pre n : Bytes) (h : (pre, n) ∈ pathParameters p) :
    n = paramInner (lastSeg pre) := by
  refine loop_mem_name [] (splitPath p) ?_ pre n h
  intro s hs
  unfold splitPath at hs
  exact C13.splitSlash_noslash p s (List.mem_filter.mp hs).1

/-! ### table lookup -/

/-- the bound prefixes -/
abbrev keys (m : PMap) : List Bytes := m.map (·.1)

theorem get_cons (k : Bytes) (x : Nat × Bytes) (m : PMap) (pre : Bytes) :
    PMap.get ((k, x) :: m) pre = if k = pre then some x else PMap.get m pre := by
  unfold PMap.get
  by_cases h : k = pre
  · simp [h]
  · simp [h]

theorem get_isSome_iff (m : PMap) (pre : Bytes) : (PMap.get m pre).isSome = true ↔ pre ∈ keys m := by
  induction m with
  | nil => simp [PMap.get]
  | cons a r ih =>
    obtain ⟨k, x⟩ := a
    rw [get_cons]
    by_cases h : k = pre
    · simp [h]
    · rw [if_neg h, ih]
      simp only [keys, List.map_cons, List.mem_cons]
      constructor
      · intro hm; exact Or.inr hm
      · rintro (e | hm)
        · exact absurd e.symm h
        · exact hm

theorem get_eq_none_iff (m : PMap) (pre : Bytes) : PMap.get m pre = none ↔ pre ∉ keys m := by
  rw [← get_isSome_iff]
  cases PMap.get m pre <;> simp

theorem mem_of_get_eq_some (m : PMap) (pre : Bytes) (x : Nat × Bytes) (h : PMap.get m pre = some x) :
    (pre, x) ∈ m := by
  induction m with
  | nil => simp [PMap.get] at h
  | cons a r ih =>
    obtain ⟨k, y⟩ := a
    rw [get_cons] at h
    by_cases hk : k = pre
    · rw [if_pos hk] at h
      cases h; subst hk
      exact List.mem_cons_self
    · rw [if_neg hk] at h
      exact List.mem_cons_of_mem _ (ih h)

theorem get_eq_some_of_mem (m : PMap) (hnd : (keys m).Nodup) (pre : Bytes) (x : Nat × Bytes)
    (h : (pre, x) ∈ m) : PMap.get m pre = some x := by
  induction m with
  | nil => cases h
  | cons a r ih =>
    obtain ⟨k, y⟩ := a
    simp only [keys, List.map_cons, List.nodup_cons] at hnd
    rw [get_cons]
    rcases List.mem_cons.mp h with e | hm
    · cases e; simp
    · have hk : k ≠ pre := by
        intro e; subst e
        exact hnd.1 (List.mem_map.mpr ⟨(k, x), hm, rfl⟩)
      rw [if_neg hk]
      exact ih hnd.2 hm

/-! ### `bindParams` -/

theorem bindParams_cons (id : Nat) (pre name : Bytes) (r : List (Bytes × Bytes)) (pp : List Bytes)
    (m : PMap) :
    bindParams id ((pre, name) :: r) pp m =
      if pp.contains name then
        if (m.get pre).isSome then .error (.alreadyDefined id name)
        else bindParams id r (pp.filter (· != name)) ((pre, (id, name)) :: m)
      else bindParams id r pp m := rfl

/-- induction over the successful runs of `bindParams` -/
theorem bindParams_induct (id : Nat)
    {motive : List (Bytes × Bytes) → List Bytes → PMap → PMap → List Bytes → Prop}
    (nil : ∀ pp m, motive [] pp m m pp)
    (bind : ∀ pre name r pp m m' rest, name ∈ pp → pre ∉ keys m →
      bindParams id r (pp.filter (· != name)) ((pre, (id, name)) :: m) = .ok (m', rest) →
      motive r (pp.filter (· != name)) ((pre, (id, name)) :: m) m' rest →
      motive ((pre, name) :: r) pp m m' rest)
    (skip : ∀ pre name r pp m m' rest, name ∉ pp → motive r pp m m' rest →
      motive ((pre, name) :: r) pp m m' rest) :
    ∀ ps pp m m' rest, bindParams id ps pp m = .ok (m', rest) → motive ps pp m m' rest := by
  intro ps
  induction ps with
  | nil =>
    intro pp m m' rest h
    simp only [bindParams, Except.ok.injEq, Prod.mk.injEq] at h
    obtain ⟨rfl, rfl⟩ := h
    exact nil _ _
  | cons a r ih =>
    obtain ⟨pre, name⟩ := a
    intro pp m m' rest h
    rw [bindParams_cons] at h
    by_cases hc : pp.contains name = true
    · rw [if_pos hc] at h
      by_cases hg : (PMap.get m pre).isSome = true
      · rw [if_pos hg] at h; cases h
      · rw [if_neg hg] at h
        exact bind _ _ _ _ _ _ _ (List.contains_iff_mem.mp hc)
          (fun hk => hg ((get_isSome_iff m pre).mpr hk)) h (ih _ _ _ _ h)
    · rw [if_neg hc] at h
      exact skip _ _ _ _ _ _ _ (fun hm => hc (List.contains_iff_mem.mpr hm)) (ih _ _ _ _ h)

theorem mem_filter_ne {pp : List Bytes} {name n : Bytes} :
    n ∈ pp.filter (· != name) ↔ n ∈ pp ∧ n ≠ name := by
  simp [List.mem_filter]

/-- the table keeps distinct prefixes -/
theorem bindParams_keys_nodup (id : Nat) (ps pp m m' rest)
    (h : bindParams id ps pp m = .ok (m', rest)) : (keys m).Nodup → (keys m').Nodup := by
  refine bindParams_induct id (motive := fun _ _ m m' _ => (keys m).Nodup → (keys m').Nodup)
    ?_ ?_ ?_ ps pp m m' rest h
  · intro _ _ h; exact h
  · intro pre name r pp m m' rest _ hk _ ih hnd
    exact ih (List.nodup_cons.mpr ⟨hk, hnd⟩)
  · intro _ _ _ _ _ _ _ _ ih; exact ih

/-- the table only grows -/
theorem bindParams_mono (id : Nat) (ps pp m m' rest)
    (h : bindParams id ps pp m = .ok (m', rest)) : ∀ x ∈ m, x ∈ m' := by
  refine bindParams_induct id (motive := fun _ _ m m' _ => ∀ x ∈ m, x ∈ m') ?_ ?_ ?_ ps pp m m' rest h
  · intro _ _ x hx; exact hx
  · intro pre name r pp m m' rest _ _ _ ih x hx
    exact ih x (List.mem_cons_of_mem _ hx)
  · intro _ _ _ _ _ _ _ _ ih; exact ih

/-- every new entry is a parameter of the directive whose name is one of the (remaining) properties -/
theorem bindParams_sound (id : Nat) (ps pp m m' rest)
    (h : bindParams id ps pp m = .ok (m', rest)) :
    ∀ x ∈ m', x ∈ m ∨ ∃ pre name, x = (pre, (id, name)) ∧ (pre, name) ∈ ps ∧ name ∈ pp := by
  refine bindParams_induct id
    (motive := fun ps pp m m' _ =>
      ∀ x ∈ m', x ∈ m ∨ ∃ pre name, x = (pre, (id, name)) ∧ (pre, name) ∈ ps ∧ name ∈ pp)
    ?_ ?_ ?_ ps pp m m' rest h
  · intro _ _ x hx; exact Or.inl hx
  · intro pre name r pp m m' rest hn _ _ ih x hx
    rcases ih x hx with hm | ⟨pre', name', rfl, hps, hpp⟩
    · rcases List.mem_cons.mp hm with rfl | hm
      · exact Or.inr ⟨pre, name, rfl, List.mem_cons_self, hn⟩
      · exact Or.inl hm
    · exact Or.inr ⟨pre', name', rfl, List.mem_cons_of_mem _ hps, (mem_filter_ne.mp hpp).1⟩
  · intro pre name r pp m m' rest _ ih x hx
    rcases ih x hx with hm | ⟨pre', name', rfl, hps, hpp⟩
    · exact Or.inl hm
    · exact Or.inr ⟨pre', name', rfl, List.mem_cons_of_mem _ hps, hpp⟩

/-- with distinct parameter names, every parameter named by a property is entered -/
theorem bindParams_complete (id : Nat) (ps pp m m' rest)
    (h : bindParams id ps pp m = .ok (m', rest)) :
    (ps.map (·.2)).Nodup → ∀ pre name, (pre, name) ∈ ps → name ∈ pp → (pre, (id, name)) ∈ m' := by
  refine bindParams_induct id
    (motive := fun ps pp _ m' _ =>
      (ps.map (·.2)).Nodup → ∀ pre name, (pre, name) ∈ ps → name ∈ pp → (pre, (id, name)) ∈ m')
    ?_ ?_ ?_ ps pp m m' rest h
  · intro _ _ _ _ _ hx; cases hx
  · intro pre name r pp m m' rest _ _ hrec ih hnd pre' name' hps hpp
    rw [List.map_cons, List.nodup_cons] at hnd
    rcases List.mem_cons.mp hps with e | hps'
    · cases e
      exact bindParams_mono id r _ _ m' rest hrec _ List.mem_cons_self
    · refine ih hnd.2 pre' name' hps' (mem_filter_ne.mpr ⟨hpp, ?_⟩)
      intro e
      exact hnd.1 (List.mem_map.mpr ⟨(pre', name'), hps', e⟩)
  · intro pre name r pp m m' rest hn ih hnd pre' name' hps hpp
    rw [List.map_cons, List.nodup_cons] at hnd
    rcases List.mem_cons.mp hps with e | hps
    · cases e; exact absurd hpp hn
    · exact ih hnd.2 pre' name' hps hpp

/-- a property naming no parameter is left over -/
theorem bindParams_rest (id : Nat) (ps pp m m' rest)
    (h : bindParams id ps pp m = .ok (m', rest)) :
    ∀ n ∈ pp, n ∉ ps.map (·.2) → n ∈ rest := by
  refine bindParams_induct id (motive := fun ps pp _ _ rest => ∀ n ∈ pp, n ∉ ps.map (·.2) → n ∈ rest)
    ?_ ?_ ?_ ps pp m m' rest h
  · intro _ _ n hn _; exact hn
  · intro pre name r pp m m' rest _ _ _ ih n hn hno
    rw [List.map_cons, List.mem_cons, not_or] at hno
    exact ih n (mem_filter_ne.mpr ⟨hn, hno.1⟩) hno.2
  · intro pre name r pp m m' rest _ ih n hn hno
    rw [List.map_cons, List.mem_cons, not_or] at hno
    exact ih n hn hno.2

/-- a parameter named by a property whose prefix is already bound stops the run
    (distinct parameter names: the property is still unmatched when its parameter is reached) -/
theorem bindParams_clash (id : Nat) (ps : List (Bytes × Bytes)) (pp : List Bytes) (m : PMap)
    (hnd : (ps.map (·.2)).Nodup) (pre n : Bytes) (hps : (pre, n) ∈ ps) (hpp : n ∈ pp)
    (hk : pre ∈ keys m) : ∀ r, bindParams id ps pp m ≠ .ok r := by
  induction ps generalizing pp m with
  | nil => cases hps
  | cons a r ih =>
    obtain ⟨pre', name'⟩ := a
    rw [List.map_cons, List.nodup_cons] at hnd
    intro res
    rw [bindParams_cons]
    rcases List.mem_cons.mp hps with e | hps'
    · cases e
      rw [if_pos (List.contains_iff_mem.mpr hpp), if_pos ((get_isSome_iff m pre).mpr hk)]
      intro h; cases h
    · have hne : n ≠ name' := by
        intro e
        exact hnd.1 (List.mem_map.mpr ⟨(pre, n), hps', e⟩)
      by_cases hc : pp.contains name' = true
      · rw [if_pos hc]
        by_cases hg : (PMap.get m pre').isSome = true
        · rw [if_pos hg]; intro h; cases h
        · rw [if_neg hg]
          exact ih _ ((pre', (id, name')) :: m) hnd.2 hps' (mem_filter_ne.mpr ⟨hpp, hne⟩)
            (List.mem_cons_of_mem _ hk) res
      · rw [if_neg hc]
        exact ih _ _ hnd.2 hps' hpp hk res

/-! ### `bindOne`, `bindAll` -/

theorem bindOne_ok_iff (m : PMap) (v : RawPV) (m' : PMap) :
    bindOne m v = .ok m' ↔ bindParams v.id v.params v.props m = .ok (m', []) := by
  unfold bindOne
  cases h : bindParams v.id v.params v.props m with
  | error e => simp
  | ok r =>
    obtain ⟨m1, rest⟩ := r
    cases rest with
    | nil => simp
    | cons a t => simp

theorem bindAll_cons (v : RawPV) (r : List RawPV) (m : PMap) :
    bindAll (v :: r) m = match bindOne m v with
      | .error e => .error e
      | .ok m' => bindAll r m' := rfl

theorem bindAll_cons_ok_iff (v : RawPV) (r : List RawPV) (m m' : PMap) :
    bindAll (v :: r) m = .ok m' ↔
      ∃ m1, bindParams v.id v.params v.props m = .ok (m1, []) ∧ bindAll r m1 = .ok m' := by
  rw [bindAll_cons]
  cases h : bindOne m v with
  | error e =>
    constructor
    · intro h'; cases h'
    · rintro ⟨m1, h1, _⟩
      rw [(bindOne_ok_iff m v m1).mpr h1] at h; cases h
  | ok m1 =>
    constructor
    · intro h'; exact ⟨m1, (bindOne_ok_iff m v m1).mp h, h'⟩
    · rintro ⟨m2, h1, h2⟩
      rw [(bindOne_ok_iff m v m2).mpr h1] at h
      cases h; exact h2

theorem bindAll_append_ok_iff (a b : List RawPV) (m m' : PMap) :
    bindAll (a ++ b) m = .ok m' ↔ ∃ m1, bindAll a m = .ok m1 ∧ bindAll b m1 = .ok m' := by
  induction a generalizing m with
  | nil =>
    simp only [List.nil_append, bindAll]
    constructor
    · intro h; exact ⟨m, rfl, h⟩
    · rintro ⟨m1, h1, h2⟩; cases h1; exact h2
  | cons v r ih =>
    rw [List.cons_append, bindAll_cons_ok_iff]
    constructor
    · rintro ⟨m1, h1, h2⟩
      rcases (ih m1).mp h2 with ⟨m2, h3, h4⟩
      exact ⟨m2, (bindAll_cons_ok_iff v r m m2).mpr ⟨m1, h1, h3⟩, h4⟩
    · rintro ⟨m2, h1, h2⟩
      rcases (bindAll_cons_ok_iff v r m m2).mp h1 with ⟨m1, h3, h4⟩
      exact ⟨m1, h3, (ih m1).mpr ⟨m2, h4, h2⟩⟩

/-- induction over the successful runs of `bindAll` -/
theorem bindAll_induct {motive : List RawPV → PMap → PMap → Prop}
    (nil : ∀ m, motive [] m m)
    (cons : ∀ v r m m1 m', bindParams v.id v.params v.props m = .ok (m1, []) →
      bindAll r m1 = .ok m' → motive r m1 m' → motive (v :: r) m m') :
    ∀ rs m m', bindAll rs m = .ok m' → motive rs m m' := by
  intro rs
  induction rs with
  | nil =>
    intro m m' h
    simp only [bindAll, Except.ok.injEq] at h
    subst h; exact nil _
  | cons v r ih =>
    intro m m' h
    rcases (bindAll_cons_ok_iff v r m m').mp h with ⟨m1, h1, h2⟩
    exact cons v r m m1 m' h1 h2 (ih m1 m' h2)

/-- accepted ⇒ the prefixes stay distinct -/
theorem bindAll_keys_nodup (rs : List RawPV) (m0 m : PMap) (h : bindAll rs m0 = .ok m) :
    (keys m0).Nodup → (keys m).Nodup := by
  refine bindAll_induct (motive := fun _ m0 m => (keys m0).Nodup → (keys m).Nodup) ?_ ?_ rs m0 m h
  · intro _ h; exact h
  · intro v r m m1 m' h1 _ ih hnd
    exact ih (bindParams_keys_nodup _ _ _ _ _ _ h1 hnd)

theorem bindAll_mono (rs : List RawPV) (m0 m : PMap) (h : bindAll rs m0 = .ok m) :
    ∀ x ∈ m0, x ∈ m := by
  refine bindAll_induct (motive := fun _ m0 m => ∀ x ∈ m0, x ∈ m) ?_ ?_ rs m0 m h
  · intro _ x hx; exact hx
  · intro v r m m1 m' h1 _ ih x hx
    exact ih x (bindParams_mono _ _ _ _ _ _ h1 x hx)

/-- every entry of the final table was there at the start or comes from a directive -/
theorem bindAll_sound (rs : List RawPV) (m0 m : PMap) (h : bindAll rs m0 = .ok m) :
    ∀ pre id name, (pre, (id, name)) ∈ m →
      (pre, (id, name)) ∈ m0 ∨ ∃ v ∈ rs, v.id = id ∧ (pre, name) ∈ v.params ∧ name ∈ v.props := by
  refine bindAll_induct
    (motive := fun rs m0 m => ∀ pre id name, (pre, (id, name)) ∈ m →
      (pre, (id, name)) ∈ m0 ∨ ∃ v ∈ rs, v.id = id ∧ (pre, name) ∈ v.params ∧ name ∈ v.props)
    ?_ ?_ rs m0 m h
  · intro _ _ _ _ hx; exact Or.inl hx
  · intro v r m m1 m' h1 _ ih pre id name hx
    rcases ih pre id name hx with hm | ⟨w, hw, h2⟩
    · rcases bindParams_sound _ _ _ _ _ _ h1 _ hm with hm0 | ⟨pre', name', e, hps, hpp⟩
      · exact Or.inl hm0
      · cases e
        exact Or.inr ⟨v, List.mem_cons_self, rfl, hps, hpp⟩
    · exact Or.inr ⟨w, List.mem_cons_of_mem _ hw, h2⟩

/-- every parameter of a directive (with distinct parameter names) named by one of its properties
    is in the final table -/
theorem bindAll_complete (rs : List RawPV) (m0 m : PMap) (h : bindAll rs m0 = .ok m) :
    ∀ v ∈ rs, (v.params.map (·.2)).Nodup → ∀ pre name, (pre, name) ∈ v.params → name ∈ v.props →
      (pre, (v.id, name)) ∈ m := by
  refine bindAll_induct
    (motive := fun rs _ m => ∀ v ∈ rs, (v.params.map (·.2)).Nodup → ∀ pre name,
      (pre, name) ∈ v.params → name ∈ v.props → (pre, (v.id, name)) ∈ m)
    ?_ ?_ rs m0 m h
  · intro _ v hv; cases hv
  · intro v r m m1 m' h1 h2 ih w hw hnd pre name hps hpp
    rcases List.mem_cons.mp hw with rfl | hw
    · exact bindAll_mono _ _ _ h2 _ (bindParams_complete _ _ _ _ _ _ h1 hnd pre name hps hpp)
    · exact ih w hw hnd pre name hps hpp

/-- accepted ⇒ every property of every directive names one of its parameters -/
theorem bindAll_all_used (rs : List RawPV) (m0 m : PMap) (h : bindAll rs m0 = .ok m) :
    ∀ v ∈ rs, ∀ n ∈ v.props, n ∈ v.params.map (·.2) := by
  refine bindAll_induct (motive := fun rs _ _ => ∀ v ∈ rs, ∀ n ∈ v.props, n ∈ v.params.map (·.2))
    ?_ ?_ rs m0 m h
  · intro _ v hv; cases hv
  · intro v r m m1 m' h1 _ ih w hw n hn
    rcases List.mem_cons.mp hw with rfl | hw
    · apply Classical.byContradiction
      intro hno
      have := bindParams_rest _ _ _ _ _ _ h1 n hn hno
      cases this
    · exact ih w hw n hn

/-! ### `variablesOf` -/

theorem mem_variablesOf (m : PMap) (path n : Bytes) (id : Nat) :
    (n, id) ∈ variablesOf m path ↔
      ∃ pre name, (pre, n) ∈ pathParameters path ∧ PMap.get m pre = some (id, name) := by
  unfold variablesOf
  rw [List.mem_filterMap]
  constructor
  · rintro ⟨⟨pre, n'⟩, hmem, hx⟩
    cases hg : PMap.get m pre with
    | none => simp [hg] at hx
    | some y =>
      obtain ⟨id', name⟩ := y
      simp only [hg, Option.map_some, Option.some.injEq, Prod.mk.injEq] at hx
      obtain ⟨rfl, rfl⟩ := hx
      exact ⟨pre, name, hmem, hg⟩
  · rintro ⟨pre, name, hmem, hg⟩
    exact ⟨(pre, n), hmem, by simp [hg]⟩

theorem filterMap_names_sublist (f : Bytes → Option (Nat × Bytes)) (l : List (Bytes × Bytes)) :
    ((l.filterMap fun (x : Bytes × Bytes) => (f x.1).map fun (y : Nat × Bytes) => (x.2, y.1)).map
      (·.1)).Sublist (l.map (·.2)) := by
  induction l with
  | nil => simp
  | cons a r ih =>
    rw [List.filterMap_cons, List.map_cons]
    cases hf : f a.1 with
    | none => simp only [Option.map_none]; exact List.Sublist.cons _ ih
    | some y => simp only [Option.map_some, List.map_cons]; exact List.Sublist.cons_cons _ ih

/-- an accepted path has distinct parameter names (cf. `C13.checked_ok_iff`) -/
theorem checked_ok_nodup (p : Bytes) (pp : List (Bytes × Bytes))
    (h : checkedPathParameters p = .ok pp) : ((pathParameters p).map (·.2)).Nodup := by
  unfold checkedPathParameters at h
  cases hd : dupParam [] (pathParameters p) with
  | none => exact (C13.dupParam_nil_none_iff _).mp hd
  | some n =>
    by_cases he : hasEmptyParam (pathParameters p) = true
    · simp [he] at h
    · simp [he, hd] at h

/-! ### acceptance, characterised (for the independence of the directive order) -/

/-- the prefixes bound by the parameters `ps` under the properties `pp` -/
def boundOf (ps : List (Bytes × Bytes)) (pp : List Bytes) : List Bytes :=
  (ps.filter fun x => pp.contains x.2).map (·.1)

/-- the prefixes a directive binds -/
def bound (v : RawPV) : List Bytes := boundOf v.params v.props

theorem mem_boundOf {ps : List (Bytes × Bytes)} {pp : List Bytes} {k : Bytes} :
    k ∈ boundOf ps pp ↔ ∃ name, (k, name) ∈ ps ∧ name ∈ pp := by
  unfold boundOf
  rw [List.mem_map]
  constructor
  · rintro ⟨⟨k', name⟩, hx, rfl⟩
    rcases List.mem_filter.mp hx with ⟨h1, h2⟩
    exact ⟨name, h1, List.contains_iff_mem.mp h2⟩
  · rintro ⟨name, h1, h2⟩
    exact ⟨(k, name), List.mem_filter.mpr ⟨h1, List.contains_iff_mem.mpr h2⟩, rfl⟩

theorem boundOf_cons_pos (pre name : Bytes) (r : List (Bytes × Bytes)) (pp : List Bytes)
    (h : name ∈ pp) : boundOf ((pre, name) :: r) pp = pre :: boundOf r pp := by
  unfold boundOf
  rw [List.filter_cons_of_pos (by simpa using h), List.map_cons]

theorem boundOf_cons_neg (pre name : Bytes) (r : List (Bytes × Bytes)) (pp : List Bytes)
    (h : name ∉ pp) : boundOf ((pre, name) :: r) pp = boundOf r pp := by
  unfold boundOf
  rw [List.filter_cons_of_neg (by simpa using h)]

theorem boundOf_filter_ne (name : Bytes) (r : List (Bytes × Bytes)) (pp : List Bytes)
    (h : name ∉ r.map (·.2)) : boundOf r (pp.filter (· != name)) = boundOf r pp := by
  unfold boundOf
  congr 1
  apply List.filter_congr
  intro x hx
  have hne : x.2 ≠ name := fun e => h (List.mem_map.mpr ⟨x, hx, e⟩)
  rw [Bool.eq_iff_iff, List.contains_iff_mem, List.contains_iff_mem, mem_filter_ne]
  exact ⟨fun h => h.1, fun h => ⟨h, hne⟩⟩

/-- the loop over the parameters succeeds iff the prefixes it binds are distinct and not yet bound -/
theorem bindParams_ok_iff (id : Nat) (ps : List (Bytes × Bytes)) (pp : List Bytes) (m : PMap)
    (hnd : (ps.map (·.2)).Nodup) :
    (∃ r, bindParams id ps pp m = .ok r) ↔
      (boundOf ps pp).Nodup ∧ ∀ k ∈ boundOf ps pp, k ∉ keys m := by
  induction ps generalizing pp m with
  | nil => simp [bindParams, boundOf]
  | cons a r ih =>
    obtain ⟨pre, name⟩ := a
    rw [List.map_cons, List.nodup_cons] at hnd
    rw [bindParams_cons]
    by_cases hc : name ∈ pp
    · rw [if_pos (List.contains_iff_mem.mpr hc), boundOf_cons_pos _ _ _ _ hc]
      by_cases hk : pre ∈ keys m
      · rw [if_pos ((get_isSome_iff m pre).mpr hk)]
        constructor
        · rintro ⟨_, h⟩; cases h
        · rintro ⟨_, h⟩; exact absurd hk (h pre List.mem_cons_self)
      · rw [if_neg (fun hg => hk ((get_isSome_iff m pre).mp hg)), ih _ _ hnd.2,
          boundOf_filter_ne _ _ _ hnd.1, List.nodup_cons]
        constructor
        · rintro ⟨h1, h2⟩
          refine ⟨⟨fun hin => h2 pre hin List.mem_cons_self, h1⟩, ?_⟩
          intro k hkm
          rcases List.mem_cons.mp hkm with rfl | hkm
          · exact hk
          · exact fun hin => h2 k hkm (List.mem_cons_of_mem _ hin)
        · rintro ⟨⟨h0, h1⟩, h2⟩
          refine ⟨h1, ?_⟩
          intro k hkm hin
          rcases List.mem_cons.mp hin with rfl | hin
          · exact h0 hkm
          · exact h2 k (List.mem_cons_of_mem _ hkm) hin
    · rw [if_neg (fun h => hc (List.contains_iff_mem.mp h)), boundOf_cons_neg _ _ _ _ hc]
      exact ih _ _ hnd.2

/-- the left-over properties are properties naming no parameter -/
theorem bindParams_rest_sub (id : Nat) (ps pp m m' rest)
    (h : bindParams id ps pp m = .ok (m', rest)) :
    ∀ n ∈ rest, n ∈ pp ∧ n ∉ ps.map (·.2) := by
  refine bindParams_induct id (motive := fun ps pp _ _ rest => ∀ n ∈ rest, n ∈ pp ∧ n ∉ ps.map (·.2))
    ?_ ?_ ?_ ps pp m m' rest h
  · intro _ _ n hn; exact ⟨hn, by simp⟩
  · intro pre name r pp m m' rest _ _ _ ih n hn
    rcases ih n hn with ⟨h1, h2⟩
    rcases mem_filter_ne.mp h1 with ⟨h3, h4⟩
    refine ⟨h3, ?_⟩
    rw [List.map_cons, List.mem_cons, not_or]
    exact ⟨h4, h2⟩
  · intro pre name r pp m m' rest hno ih n hn
    rcases ih n hn with ⟨h1, h2⟩
    refine ⟨h1, ?_⟩
    rw [List.map_cons, List.mem_cons, not_or]
    exact ⟨fun e => hno (by have e' : n = name := e; rw [← e']; exact h1), h2⟩

theorem bindParams_rest_nil_iff (id : Nat) (ps pp m m' rest)
    (h : bindParams id ps pp m = .ok (m', rest)) :
    rest = [] ↔ ∀ n ∈ pp, n ∈ ps.map (·.2) := by
  constructor
  · rintro rfl n hn
    apply Classical.byContradiction
    intro hno
    cases bindParams_rest id ps pp m m' [] h n hn hno
  · intro hall
    apply List.eq_nil_iff_forall_not_mem.mpr
    intro n hn
    rcases bindParams_rest_sub id ps pp m m' rest h n hn with ⟨h1, h2⟩
    exact h2 (hall n h1)

/-- the prefixes after the loop: those bound by it and those bound before -/
theorem bindParams_keys (id : Nat) (ps pp m m' rest) (h : bindParams id ps pp m = .ok (m', rest))
    (hnd : (ps.map (·.2)).Nodup) (k : Bytes) : k ∈ keys m' ↔ k ∈ boundOf ps pp ∨ k ∈ keys m := by
  constructor
  · intro hk
    rcases List.mem_map.mp hk with ⟨⟨k', x⟩, hx, rfl⟩
    rcases bindParams_sound id ps pp m m' rest h _ hx with hm | ⟨pre, name, e, h1, h2⟩
    · exact Or.inr (List.mem_map.mpr ⟨_, hm, rfl⟩)
    · cases e
      exact Or.inl (mem_boundOf.mpr ⟨name, h1, h2⟩)
  · rintro (hb | hm)
    · rcases mem_boundOf.mp hb with ⟨name, h1, h2⟩
      exact List.mem_map.mpr ⟨_, bindParams_complete id ps pp m m' rest h hnd k name h1 h2, rfl⟩
    · rcases List.mem_map.mp hm with ⟨x, hx, rfl⟩
      exact List.mem_map.mpr ⟨x, bindParams_mono id ps pp m m' rest h x hx, rfl⟩

/-- **acceptance**: a project (directives with distinct parameter names) is accepted iff every property
    names a parameter of its directive and the bound prefixes are pairwise distinct (and not yet bound) -/
theorem bindAll_ok_iff (rs : List RawPV) (m0 : PMap) (hnd : ∀ v ∈ rs, (v.params.map (·.2)).Nodup) :
    (∃ m, bindAll rs m0 = .ok m) ↔
      (∀ v ∈ rs, ∀ n ∈ v.props, n ∈ v.params.map (·.2)) ∧ (rs.flatMap bound).Nodup ∧
        ∀ k ∈ rs.flatMap bound, k ∉ keys m0 := by
  induction rs generalizing m0 with
  | nil => simp [bindAll]
  | cons v r ih =>
    have hv := hnd v List.mem_cons_self
    have hr : ∀ w ∈ r, (w.params.map (·.2)).Nodup := fun w hw => hnd w (List.mem_cons_of_mem _ hw)
    rw [List.flatMap_cons, List.nodup_append]
    constructor
    · rintro ⟨m, h⟩
      rcases (bindAll_cons_ok_iff v r m0 m).mp h with ⟨m1, h1, h2⟩
      have hA := (bindParams_ok_iff v.id v.params v.props m0 hv).mp ⟨_, h1⟩
      have hC := (bindParams_rest_nil_iff _ _ _ _ _ _ h1).mp rfl
      have hI := (ih m1 hr).mp ⟨m, h2⟩
      have hK := bindParams_keys _ _ _ _ _ _ h1 hv
      refine ⟨?_, ⟨hA.1, hI.2.1, ?_⟩, ?_⟩
      · intro w hw
        rcases List.mem_cons.mp hw with rfl | hw
        · exact hC
        · exact hI.1 w hw
      · intro a ha b hb e
        subst e
        exact hI.2.2 a hb ((hK a).mpr (Or.inl ha))
      · intro k hk
        rcases List.mem_append.mp hk with hk | hk
        · exact hA.2 k hk
        · exact fun hin => hI.2.2 k hk ((hK k).mpr (Or.inr hin))
    · rintro ⟨hU, ⟨hN1, hN2, hD⟩, hK0⟩
      have hA : ∃ res, bindParams v.id v.params v.props m0 = .ok res :=
        (bindParams_ok_iff v.id v.params v.props m0 hv).mpr
          ⟨hN1, fun k hk => hK0 k (List.mem_append.mpr (Or.inl hk))⟩
      obtain ⟨⟨m1, rest⟩, h1⟩ := hA
      have hrest : rest = [] :=
        (bindParams_rest_nil_iff _ _ _ _ _ _ h1).mpr (hU v List.mem_cons_self)
      subst hrest
      have hK := bindParams_keys _ _ _ _ _ _ h1 hv
      have hI : ∃ m, bindAll r m1 = .ok m := by
        refine (ih m1 hr).mpr ⟨fun w hw => hU w (List.mem_cons_of_mem _ hw), hN2, ?_⟩
        intro k hk hin
        rcases (hK k).mp hin with hb | hm
        · exact hD k hb k hk rfl
        · exact hK0 k (List.mem_append.mpr (Or.inr hk)) hm
      obtain ⟨m, h2⟩ := hI
      exact ⟨m, (bindAll_cons_ok_iff v r m0 m).mpr ⟨m1, h1, h2⟩⟩

end JSight.PathBind
