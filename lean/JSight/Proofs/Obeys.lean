import JSight.Model.Context
import JSight.Model.Paste
import JSight.Proofs.C06
import JSight.Props.C06
import JSight.Props.C07
/-!
C06, global consequence: the forest built by the context resolution obeys the admissibility tables.
Definitions (`obeysTree`, `obeysForest`, `rootsOK`, `noKindTree`, `noKindForest`) and helper lemmas; the
property theorems are in `JSight/Props/C06_Obeys.lean`.

Method: an invariant `Inv` on the open frames and the finished roots, preserved by the one "leave the innermost
frame" step `C06.pop` and hence by `place`, `closeExplicit`, `closeAll` (induction `C06.frames_ind`).
Parametric in the admissibility tables (`rootAdmits/admits/isHTTPMethod` are never unfolded).  Core Lean only.
-/
namespace JSight.C06O
open JSight Gen

/-! ## definitions -/

mutual
  /-- every child is admitted by its parent, recursively -/
  def obeysTree : Tree → Bool
    | .node d kids => kids.all (fun k => admitsDir d k.dir) && obeysForest kids
  def obeysForest : List Tree → Bool
    | [] => true
    | t :: r => obeysTree t && obeysForest r
end

/-- every root may stand at the top level -/
def rootsOK (f : List Tree) : Bool := f.all (fun t => rootAdmits t.dir.kind)

mutual
  /-- no directive of kind `k` anywhere in the tree -/
  def noKindTree (k : Kind) : Tree → Bool
    | .node d kids => d.kind != k && noKindForest k kids
  def noKindForest (k : Kind) : List Tree → Bool
    | [] => true
    | t :: r => noKindTree k t && noKindForest k r
end

/-! ## unfolding equations -/

@[simp] theorem obeysForest_nil : obeysForest [] = true := by rw [obeysForest]
@[simp] theorem obeysForest_cons (t : Tree) (r : List Tree) :
    obeysForest (t :: r) = (obeysTree t && obeysForest r) := by rw [obeysForest]
@[simp] theorem obeysTree_node (d : Dir) (kids : List Tree) :
    obeysTree (.node d kids) = (kids.all (fun k => admitsDir d k.dir) && obeysForest kids) := by rw [obeysTree]

@[simp] theorem obeysForest_append (a b : List Tree) :
    obeysForest (a ++ b) = (obeysForest a && obeysForest b) := by
  induction a with
  | nil => simp
  | cons t r ih => simp [ih, Bool.and_assoc]

theorem obeysForest_iff (f : List Tree) : obeysForest f = true ↔ ∀ t ∈ f, obeysTree t = true := by
  induction f with
  | nil => simp
  | cons t r ih => simp [ih]

@[simp] theorem rootsOK_nil : rootsOK [] = true := rfl
@[simp] theorem rootsOK_append (a b : List Tree) : rootsOK (a ++ b) = (rootsOK a && rootsOK b) := by
  simp [rootsOK]
@[simp] theorem rootsOK_single (t : Tree) : rootsOK [t] = rootAdmits t.dir.kind := by
  simp [rootsOK]

@[simp] theorem noKindForest_nil (k : Kind) : noKindForest k [] = true := by rw [noKindForest]
@[simp] theorem noKindForest_cons (k : Kind) (t : Tree) (r : List Tree) :
    noKindForest k (t :: r) = (noKindTree k t && noKindForest k r) := by rw [noKindForest]
@[simp] theorem noKindTree_node (k : Kind) (d : Dir) (kids : List Tree) :
    noKindTree k (.node d kids) = (d.kind != k && noKindForest k kids) := by rw [noKindTree]

theorem noKindForest_iff (k : Kind) (f : List Tree) :
    noKindForest k f = true ↔ ∀ t ∈ f, noKindTree k t = true := by
  induction f with
  | nil => simp
  | cons t r ih => simp [ih]

/-! ## the invariant of the context -/

/-- the chain of open directives (innermost first) is admitted pairwise and starts at the top level -/
def chainD : List Dir → Bool
  | [] => true
  | [d] => rootAdmits d.kind
  | d :: p :: rest => admitsDir p d && chainD (p :: rest)

/-- every finished tree obeys, every frame's finished children are admitted by the frame, the chain of open
    frames is admitted pairwise and its bottom may stand at the top level, every finished root too -/
structure Inv (fs : List Frame) (roots : List Tree) : Prop where
  chain : chainD (fs.map (·.d)) = true
  frames : ∀ f ∈ fs, obeysTree f.tree = true
  top : rootsOK roots = true
  obeys : obeysForest roots = true

theorem Inv.empty : Inv [] [] := ⟨rfl, fun _ h => (by cases h), rfl, by simp⟩

/-- leaving the innermost frame keeps the invariant -/
theorem pop_inv (f : Frame) (below : List Frame) (roots : List Tree) (h : Inv (f :: below) roots) :
    Inv (C06.pop f below roots).1 (C06.pop f below roots).2 := by
  have hf : obeysTree f.tree = true := h.frames f (List.mem_cons_self ..)
  cases below with
  | nil =>
    have hc : rootAdmits f.d.kind = true := by simpa [chainD] using h.chain
    refine ⟨rfl, fun _ hm => (by cases hm), ?_, ?_⟩
    · simp only [C06.pop, rootsOK_append, h.top, rootsOK_single, Bool.true_and]
      exact hc
    · simp only [C06.pop, obeysForest_append, h.obeys, obeysForest_cons, hf, obeysForest_nil, Bool.and_self]
  | cons p rest =>
    have hc := h.chain
    simp only [List.map_cons, chainD, Bool.and_eq_true] at hc
    have hp : obeysTree p.tree = true := h.frames p (List.mem_cons_of_mem _ (List.mem_cons_self ..))
    refine ⟨?_, ?_, h.top, h.obeys⟩
    · rw [C06.pop_map_d]
      simpa using hc.2
    · intro g hg
      simp only [C06.pop] at hg
      rcases List.mem_cons.mp hg with rfl | hg
      · simp only [C06.tree_eq, obeysTree_node, Bool.and_eq_true] at hp hf ⊢
        simp only [C06.attach_d, C06.attach_kids, List.all_append, obeysForest_append, Bool.and_eq_true,
          List.all_cons, List.all_nil, Bool.and_true, obeysForest_cons, obeysTree_node,
          obeysForest_nil, Tree.dir]
        exact ⟨⟨hp.1, hc.1⟩, hp.2, hf⟩
      · exact h.frames g (List.mem_cons_of_mem _ (List.mem_cons_of_mem _ hg))

/-- opening a new innermost frame under a frame that admits it -/
theorem push_inv (f : Frame) (below : List Frame) (roots : List Tree) (d : Dir)
    (h : Inv (f :: below) roots) (ha : admitsDir f.d d = true) :
    Inv ({ d := d } :: f :: below) roots := by
  refine ⟨?_, ?_, h.top, h.obeys⟩
  · have hc := h.chain
    simp only [List.map_cons] at hc
    simp only [List.map_cons, chainD, ha, Bool.true_and]
    exact hc
  · intro g hg
    rcases List.mem_cons.mp hg with rfl | hg
    · simp
    · exact h.frames g hg

theorem place_inv (fs : List Frame) (roots : List Tree) (d : Dir) (c : Ctx)
    (hi : Inv fs roots) (h : place fs roots d = .ok c) : Inv c.frames c.roots := by
  induction fs, roots using C06.frames_ind with
  | nil roots =>
    rw [C06.place_nil] at h
    split at h
    · rename_i hr
      cases h
      refine ⟨by simpa [chainD] using hr, ?_, hi.top, hi.obeys⟩
      intro g hg
      rcases List.mem_cons.mp hg with rfl | hg
      · simp
      · cases hg
    · cases h
  | cons f below roots ih =>
    rw [C06.place_cons] at h
    split at h
    · rename_i ha
      cases h
      exact push_inv f below roots d hi ha
    · split at h
      · split at h <;> cases h
      · exact ih (pop_inv f below roots hi) h

theorem closeExplicit_inv (fs : List Frame) (roots : List Tree) (c : Ctx)
    (hi : Inv fs roots) (h : closeExplicit fs roots = .ok c) : Inv c.frames c.roots := by
  induction fs, roots using C06.frames_ind with
  | nil roots => rw [C06.closeExplicit_nil] at h; cases h
  | cons f below roots ih =>
    rw [C06.closeExplicit_cons] at h
    split at h
    · cases h
      exact pop_inv f below roots hi
    · exact ih (pop_inv f below roots hi) h

theorem closeAll_inv (fs : List Frame) (roots : List Tree) (hi : Inv fs roots) :
    rootsOK (closeAll fs roots) = true ∧ obeysForest (closeAll fs roots) = true := by
  induction fs, roots using C06.frames_ind with
  | nil roots => rw [C06.closeAll_nil]; exact ⟨hi.top, hi.obeys⟩
  | cons f below roots ih =>
    rw [C06.closeAll_cons]
    exact ih (pop_inv f below roots hi)

theorem consumeAll_inv (toks : List Tok) (c c' : Ctx) (hi : Inv c.frames c.roots)
    (h : consumeAll c toks = .ok c') : Inv c'.frames c'.roots := by
  induction toks generalizing c with
  | nil => simp [consumeAll] at h; cases h; exact hi
  | cons t r ih =>
    rw [consumeAll] at h
    split at h
    · rename_i c1 h1
      apply ih c1 _ h
      cases t with
      | dir d => exact place_inv _ _ _ _ hi h1
      | close => exact closeExplicit_inv _ _ _ hi h1
    · cases h

/-! ## the invariant through the PASTE expansion, step by step -/

theorem truncateTo_nil (n : Nat) (roots : List Tree) : truncateTo n [] roots = ([], roots) := by
  rw [truncateTo]

theorem truncateTo_cons (n : Nat) (f : Frame) (below : List Frame) (roots : List Tree) :
    truncateTo n (f :: below) roots =
      if (f :: below).length ≤ n then (f :: below, roots)
      else truncateTo n (C06.pop f below roots).1 (C06.pop f below roots).2 := by
  cases below with
  | nil =>
    rw [truncateTo]
    simp only [C06.pop, truncateTo_nil, List.length_cons, List.length_nil, Nat.zero_add]
  | cons p rest => rw [truncateTo]; rfl

theorem truncateTo_inv (n : Nat) (fs : List Frame) (roots : List Tree) (hi : Inv fs roots) :
    Inv (truncateTo n fs roots).1 (truncateTo n fs roots).2 := by
  induction fs, roots using C06.frames_ind with
  | nil roots => rw [truncateTo_nil]; exact hi
  | cons f below roots ih =>
    rw [truncateTo_cons]
    split
    · exact hi
    · exact ih (pop_inv f below roots hi)

/-- every step of the expansion keeps the invariant -/
theorem expand_inv (ms : Macros) : ∀ fuel : Nat,
    (∀ outer st t st', Inv st.ctx.frames st.ctx.roots → expandTree ms fuel outer st t = .ok st' →
      Inv st'.ctx.frames st'.ctx.roots) ∧
    (∀ outer st l st', Inv st.ctx.frames st.ctx.roots → expandList ms fuel outer st l = .ok st' →
      Inv st'.ctx.frames st'.ctx.roots) := by
  intro fuel
  induction fuel with
  | zero =>
    constructor
    · intro outer st t st' _ h; simp [expandTree] at h
    · intro outer st l st' _ h; simp [expandList] at h
  | succ fuel ih =>
    rcases ih with ⟨ihT, ihL⟩
    constructor
    · intro outer st t st' hi h
      rcases t with ⟨d, kids⟩
      rw [expandTree] at h
      split at h
      · split at h
        · cases h
        · split at h
          · cases h
          · split at h
            · cases h
            · split at h
              · cases h
              · cases h
              · rename_i st'' hl
                cases h
                exact ihL _ _ _ _ hi hl
      · split at h
        · cases h
        · rename_i c1 hp
          split at h
          · cases h
          · rename_i st2 hl
            have h2 : Inv st2.ctx.frames st2.ctx.roots :=
              ihL _ { st with ctx := c1 } _ _ (place_inv _ _ _ _ hi hp) hl
            split at h
            · cases h
              exact truncateTo_inv _ _ _ h2
            · cases h
              exact h2
    · intro outer st l st' hi h
      cases l with
      | nil =>
        rw [expandList] at h
        cases h
        exact hi
      | cons t r =>
        rw [expandList] at h
        split at h
        · cases h
        · rename_i st1 ht
          exact ihL _ _ _ _ (ihT _ _ _ _ hi ht) h

/-! ## kinds that occur in a forest, in its token stream, in the inlined token stream -/

mutual
  /-- a tree is free of kind `k` when its token stream is -/
  theorem noKindTree_of_flat (k : Kind) : ∀ t : Tree,
      (∀ d, Tok.dir d ∈ flattenTree t → d.kind ≠ k) → noKindTree k t = true
    | .node d kids => by
      intro h
      rw [C06.flattenTree_node] at h
      rw [noKindTree_node, Bool.and_eq_true]
      refine ⟨?_, noKindForest_of_flat k kids ?_⟩
      · simpa using h d (List.mem_cons_self ..)
      · intro e he
        exact h e (List.mem_cons_of_mem _ (List.mem_append_left _ he))
  theorem noKindForest_of_flat (k : Kind) : ∀ l : List Tree,
      (∀ d, Tok.dir d ∈ flattenForest l → d.kind ≠ k) → noKindForest k l = true
    | [] => fun _ => noKindForest_nil k
    | t :: r => by
      intro h
      rw [C06.flattenForest_cons] at h
      rw [noKindForest_cons, Bool.and_eq_true]
      exact ⟨noKindTree_of_flat k t (fun e he => h e (List.mem_append_left _ he)),
        noKindForest_of_flat k r (fun e he => h e (List.mem_append_right _ he))⟩
end

mutual
  /-- in a tree that obeys the tables, a kind that no kind admits as a child occurs at most at the root -/
  theorem obeysTree_noKind (k : Kind) (hk : ∀ p, admits p k = false) : ∀ t : Tree,
      obeysTree t = true → noKindForest k t.kids = true
    | .node d kids => by
      intro h
      rw [obeysTree_node, Bool.and_eq_true] at h
      exact obeysForest_noKind k hk d kids h.1 h.2
  theorem obeysForest_noKind (k : Kind) (hk : ∀ p, admits p k = false) (d : Dir) : ∀ l : List Tree,
      l.all (fun c => admitsDir d c.dir) = true → obeysForest l = true → noKindForest k l = true
    | [] => fun _ _ => noKindForest_nil k
    | t :: r => by
      intro ha ho
      rw [List.all_cons, Bool.and_eq_true] at ha
      rw [obeysForest_cons, Bool.and_eq_true] at ho
      rw [noKindForest_cons, Bool.and_eq_true]
      refine ⟨?_, obeysForest_noKind k hk d r ha.2 ho.2⟩
      have h1 := obeysTree_noKind k hk t ho.1
      rcases t with ⟨e, kids⟩
      rw [noKindTree_node, Bool.and_eq_true]
      refine ⟨?_, h1⟩
      have h2 : admits d.kind e.kind = true := by
        have := ha.1
        simp only [Tree.dir, admitsDir, Bool.and_eq_true] at this
        exact this.1
      simp only [bne_iff_ne, ne_eq]
      intro hek
      rw [hek, hk] at h2
      cases h2
end

/-- the inlined token stream contains no PASTE directive -/
theorem inline_no_paste (ms : Macros) : ∀ fuel : Nat,
    (∀ t toks, C07.inlineTree ms fuel t = some toks → ∀ d, Tok.dir d ∈ toks → d.kind ≠ Kind.Paste) ∧
    (∀ l toks, C07.inlineForest ms fuel l = some toks → ∀ d, Tok.dir d ∈ toks → d.kind ≠ Kind.Paste) := by
  intro fuel
  induction fuel with
  | zero =>
    constructor
    · intro t toks h; simp [C07.inlineTree] at h
    · intro l toks h; simp [C07.inlineForest] at h
  | succ fuel ih =>
    rcases ih with ⟨ihT, ihL⟩
    constructor
    · intro t toks h
      rcases t with ⟨d, kids⟩
      rw [C07.inlineTree] at h
      split at h
      · split at h
        · exact ihL _ _ h
        · cases h
      · rename_i hk
        split at h
        · rename_i ks hks
          cases h
          intro e he
          rcases List.mem_cons.mp he with he | he
          · cases he
            simpa using hk
          · rcases List.mem_append.mp he with he | he
            · exact ihL _ _ hks e he
            · split at he
              · simp at he
              · cases he
        · cases h
    · intro l toks h
      cases l with
      | nil =>
        rw [C07.inlineForest] at h
        cases h
        intro e he
        cases he
      | cons t r =>
        rw [C07.inlineForest] at h
        split at h
        · rename_i a b ha hb
          cases h
          intro e he
          rcases List.mem_append.mp he with he | he
          · exact ihT _ _ ha e he
          · exact ihL _ _ hb e he
        · cases h

/-- if neither the trees nor the macro bodies contain kind `k`, the inlined token stream does not either -/
theorem inline_no_kind (ms : Macros) (k : Kind)
    (hms : ∀ n m, ms.get? n = some m → noKindForest k m.kids = true) : ∀ fuel : Nat,
    (∀ t toks, C07.inlineTree ms fuel t = some toks → noKindTree k t = true →
      ∀ d, Tok.dir d ∈ toks → d.kind ≠ k) ∧
    (∀ l toks, C07.inlineForest ms fuel l = some toks → noKindForest k l = true →
      ∀ d, Tok.dir d ∈ toks → d.kind ≠ k) := by
  intro fuel
  induction fuel with
  | zero =>
    constructor
    · intro t toks h; simp [C07.inlineTree] at h
    · intro l toks h; simp [C07.inlineForest] at h
  | succ fuel ih =>
    rcases ih with ⟨ihT, ihL⟩
    constructor
    · intro t toks h hn
      rcases t with ⟨d, kids⟩
      rw [noKindTree_node, Bool.and_eq_true] at hn
      rw [C07.inlineTree] at h
      split at h
      · split at h
        · rename_i m hm
          exact ihL _ _ h (hms _ _ hm)
        · cases h
      · split at h
        · rename_i ks hks
          cases h
          intro e he
          rcases List.mem_cons.mp he with he | he
          · cases he
            simpa using hn.1
          · rcases List.mem_append.mp he with he | he
            · exact ihL _ _ hks hn.2 e he
            · split at he
              · simp at he
              · cases he
        · cases h
    · intro l toks h hn
      cases l with
      | nil =>
        rw [C07.inlineForest] at h
        cases h
        intro e he
        cases he
      | cons t r =>
        rw [noKindForest_cons, Bool.and_eq_true] at hn
        rw [C07.inlineForest] at h
        split at h
        · rename_i a b ha hb
          cases h
          intro e he
          rcases List.mem_append.mp he with he | he
          · exact ihT _ _ ha hn.1 e he
          · exact ihL _ _ hb hn.2 e he
        · cases h

/-- the trees that `collectMacro` keeps are not MACROs -/
theorem collect_rest_kind (l : List Tree) (ms : Macros) (acc : List Tree) (ms' : Macros) (rest : List Tree)
    (h : collectMacro l ms acc = .ok (ms', rest)) :
    ∀ t ∈ rest, t ∈ acc ∨ (t ∈ l ∧ t.dir.kind ≠ Kind.Macro) := by
  induction l generalizing ms acc with
  | nil =>
    rw [collectMacro] at h
    cases h
    exact fun t ht => .inl ht
  | cons t r ih =>
    rw [collectMacro] at h
    split at h
    · split at h
      · cases h
      · split at h
        · cases h
        · split at h
          · cases h
          · split at h
            · cases h
            · intro u hu
              rcases ih _ _ h u hu with h1 | h1
              · exact .inl h1
              · exact .inr ⟨List.mem_cons_of_mem _ h1.1, h1.2⟩
    · rename_i hkt
      intro u hu
      rcases ih _ _ h u hu with h1 | h1
      · rcases List.mem_append.mp h1 with h1 | h1
        · exact .inl h1
        · rw [List.mem_singleton] at h1
          subst h1
          exact .inr ⟨List.mem_cons_self .., by simpa using hkt⟩
      · exact .inr ⟨List.mem_cons_of_mem _ h1.1, h1.2⟩

/-- the directives of the expanded forest: no PASTE; and no `k` if `k` occurs in the input at most as the kind of
    a removed top-level MACRO (`k = Macro`: no MACRO below the top level of the input) -/
theorem expand_kinds (roots F : List Tree) (h : expand roots = .ok F) :
    noKindForest Kind.Paste F = true ∧
      ((∀ t ∈ roots, noKindForest Kind.Macro t.kids = true) → noKindForest Kind.Macro F = true) := by
  rcases C07.expand_eq_inline roots F h with ⟨ms, rest, fuel, toks, hc, hin, hres⟩
  have hflat := C06.resolve_flatten toks F hres
  constructor
  · apply noKindForest_of_flat
    rw [hflat]
    exact (inline_no_paste ms fuel).2 _ _ hin
  · intro hn
    apply noKindForest_of_flat
    rw [hflat]
    apply (inline_no_kind ms Kind.Macro ?_ fuel).2 _ _ hin
    · rw [noKindForest_iff]
      intro t ht
      rcases collect_rest_kind _ _ _ _ _ hc t ht with h1 | ⟨h1, h2⟩
      · cases h1
      · have := hn t h1
        rcases t with ⟨d, kids⟩
        rw [noKindTree_node, Bool.and_eq_true]
        exact ⟨by simpa [Tree.dir] using h2, this⟩
    · intro n m hm
      rcases C07.collect_entries _ _ _ _ _ hc _ (C07.get?_mem hm) with h1 | ⟨h1, _, _⟩
      · cases h1
      · exact hn m h1

/-! ## "somewhere in the forest" -/

/-- `t` occurs in the forest `f`: as a root or as a descendant of one -/
inductive InForest : Tree → List Tree → Prop where
  | root {t : Tree} {f : List Tree} : t ∈ f → InForest t f
  | child {t c : Tree} {f : List Tree} : InForest t f → c ∈ t.kids → InForest c f

theorem obeysTree_kids {t : Tree} (h : obeysTree t = true) :
    (∀ c ∈ t.kids, admitsDir t.dir c.dir = true) ∧ ∀ c ∈ t.kids, obeysTree c = true := by
  rcases t with ⟨d, kids⟩
  rw [obeysTree_node, Bool.and_eq_true, List.all_eq_true, obeysForest_iff] at h
  exact h

theorem noKindTree_kids {k : Kind} {t : Tree} (h : noKindTree k t = true) :
    t.dir.kind ≠ k ∧ ∀ c ∈ t.kids, noKindTree k c = true := by
  rcases t with ⟨d, kids⟩
  rw [noKindTree_node, Bool.and_eq_true, noKindForest_iff] at h
  exact ⟨by simpa [Tree.dir] using h.1, h.2⟩

theorem InForest.obeys {t : Tree} {f : List Tree} (h : InForest t f) (ho : obeysForest f = true) :
    obeysTree t = true := by
  induction h with
  | root hm => exact (obeysForest_iff _).mp ho _ hm
  | child _ hc ih => exact (obeysTree_kids (ih ho)).2 _ hc

theorem InForest.noKind {k : Kind} {t : Tree} {f : List Tree} (h : InForest t f)
    (hn : noKindForest k f = true) : noKindTree k t = true := by
  induction h with
  | root hm => exact (noKindForest_iff _ _).mp hn _ hm
  | child _ hc ih => exact (noKindTree_kids (ih hn)).2 _ hc

end JSight.C06O
