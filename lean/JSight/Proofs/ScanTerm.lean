import JSight.Model.Scanner
import JSight.Proofs.ScanSafe
import JSight.Proofs.ScanSafeRun
/-!
C01 (termination part) — definitions and generic proofs.

The scanner model can end in `.fault .fuel` in three places (`interp`, `byteLoop`, `lexAll`).  This file
defines a certificate `TCert` for the scanner table, a Bool check of one leaf of the table against a
certificate (`chkLeaf` / `chkCode`), COMPUTES the certificate of the current table (`tcert`), and proves —
for ANY certificate that passes the check — that none of the three budgets is exhausted.

Certificate, per state `s` of the table (sets of states are bit sets in one `Nat`, bit = `St.ctorIdx`):
* `regs s`  — the values of the step register while the code of `s` runs (`s`, or the caller's state;
              a list, computed by `ScanSafe.regsL`);
* `top s`   — the states that can be on top of the step stack while the code of `s` runs;
* `below x` — the states that can be directly below `x` on the step stack;
* `rank s`  — strictly decreases along every same-byte dispatch (`return stateX(s, c)`, `return s.step(s, c)`),
              so a dispatch chain that starts in `s` has at most `rank s + 1` members;
* `w s`     — potential of the byte loop: `4 * cur - w step` strictly increases with every byte step
              (the two rewinds included);
* `u s`     — potential of the lexeme count: `#lexemes delivered + #completing events queued + u step ≤ cur`.

Nothing here names a state of the current table, except the three the interpreter itself names.
-/
namespace JSight.ScanTerm
open JSight JSight.Gen JSight.ScanSafe

/-! ### bit sets of states -/

def mem (row : Nat) (s : St) : Bool := row.testBit s.ctorIdx
def subset (a b : Nat) : Bool := (a ||| b) == b
def bit (s : St) : Nat := 1 <<< s.ctorIdx

/-- an event that completes a lexeme when `processLexemeEvent` shifts it (an End or a context event) -/
def cnt : List (Ev × Nat) → Nat
  | [] => 0
  | e :: r => (if e.1.isBeginning then 0 else 1) + cnt r

/-- weight of one byte in the potential of the byte loop -/
def K : Nat := 4

structure TCert where
  regs : St → List St
  top : St → Nat
  below : St → Nat
  rank : St → Nat
  w : St → Nat
  u : St → Nat

/-! ### the check of one leaf -/

/-- every possible top of the part of the original stack that is left is in `target` -/
def baseSub (C : TCert) (st : St) (popped : Bool) (target : Nat) : Bool :=
  if popped then St.all.all fun t => !mem (C.top st) t || subset (C.below t) target
  else subset (C.top st) target

/-- every possible top of the resulting stack is in `target` -/
def stkOK (C : TCert) (st : St) (a : Abs) (target : Nat) : Bool :=
  match a.pre with
  | q :: _ => mem target q
  | [] => baseSub C st a.popped target

/-- the pushed states sit on what `below` allows -/
def confPre (C : TCert) (st : St) (popped : Bool) : List St → Bool
  | [] => true
  | [p] => baseSub C st popped (C.below p)
  | p :: q :: r => mem (C.below p) q && confPre C st popped (q :: r)

/-- `p x` for every possible value `x` of the step register, and the stack is what `top x` allows -/
def tgtOK (C : TCert) (st : St) (a : Abs) (p : St → Bool) : Bool :=
  match a.reg with
  | .known x => p x && stkOK C st a (C.top x)
  | .top0 => St.all.all fun t => !mem (C.top st) t ||
      (p t && match a.pre with
        | q :: _ => mem (C.top t) q
        | [] => subset (C.below t) (C.top t))

/-- same-byte dispatch from the code of `st` to the code of `x`, after `e` completing events -/
def hopOK (C : TCert) (st : St) (e : Nat) (x : St) : Bool :=
  decide (C.rank x < C.rank st) && decide (C.w x ≤ C.w st) && decide (C.u x + e ≤ C.u st)

/-- the byte is consumed in the code of `st`; the next byte starts in `x` -/
def finOK (C : TCert) (st : St) (e rew : Nat) (x : St) : Bool :=
  decide (C.w x + 1 + K * rew ≤ C.w st + K) && decide (C.u x + e + rew ≤ C.u st + 1)

def chkLeaf (C : TCert) (st r : St) (leaf : List (Op St) × Cont St) : Bool :=
  match absOps true (a0 r) leaf.1 with
  | none => false
  | some a =>
    confPre C st a.popped a.pre &&
    match leaf.2 with
    | .err => true
    | .done => tgtOK C st a (finOK C st (cnt a.evs) a.rew)
    | .call s' =>
      a.rew == 0 && hopOK C st (cnt a.evs) s' && stkOK C st a (C.top s') &&
      (match a.reg with
       | .known x => (C.regs s').contains x
       | .top0 => false)
    | .redispatch => a.rew == 0 && tgtOK C st a (hopOK C st (cnt a.evs))
    | .jschema =>
      a.rew == 0 && finOK C st (cnt a.evs) 0 .stateSchemaClosed && stkOK C st a (C.top .stateSchemaClosed)
    | .enumBody =>
      a.rew == 0 && finOK C st (cnt a.evs) 0 .stateEnumBodyClose && stkOK C st a (C.top .stateEnumBodyClose)

def chkCode (C : TCert) (st : St) : Bool :=
  (C.regs st).contains st &&
  (C.regs st).all fun r => (code st).leaves.all (chkLeaf C st r)

/-- budget facts: dispatch chains fit into `stepFuel`; `w ≤ wMax`; the initial state owes nothing -/
def chkBounds (C : TCert) (wMax : Nat) : Bool :=
  (St.all.all fun s => decide (C.rank s < stepFuel) && decide (C.w s ≤ wMax)) && C.u .stateRoot == 0

/-! ### computing the certificate from the table (not trusted: `chkCode` is evaluated on the result)

Kernel evaluation is lazy and `St.ctorIdx` costs one step per constructor, so the iterated data are single
`Nat`s, the folds over the states force their accumulator (`forceNat`, `foldS`) and run over `allI` (a state
with its position in `St.all`, which the generator makes its constructor index — only this untrusted
computation relies on that); `top` and `below` are two bit matrices in one `Nat`. -/

/-- evaluate `n` before continuing -/
def forceNat {α : Type} (n : Nat) (k : Nat → α) : α :=
  match n with
  | 0 => k 0
  | m + 1 => k (m + 1)

def foldS {β : Type} (f : Nat → β → Nat) : Nat → List β → Nat
  | a, [] => a
  | a, x :: xs => forceNat (f a x) fun a' => foldS f a' xs

/-- iterate `f` until nothing changes, at most `fuel` times -/
def iterS (f : Nat → Nat) : Nat → Nat → Nat
  | 0, x => x
  | n + 1, x => forceNat (f x) fun y => if x == y then x else iterS f n y

def withIdx : List St → Nat → List (St × Nat)
  | [], _ => []
  | s :: r, i => (s, i) :: withIdx r (i + 1)

def allI : List (St × Nat) := withIdx St.all 0

/-- row `i` of matrix `k` (0 = top, 1 = below) -/
def rowAtI (X : Nat) (k : Nat) (i : Nat) : Nat := (X >>> (65536 * k + 256 * i)) % 2 ^ 256
def rowAt (X : Nat) (k : Nat) (s : St) : Nat := rowAtI X k s.ctorIdx
def orAt (X : Nat) (k : Nat) (s : St) (row : Nat) : Nat := X ||| (row <<< (65536 * k + 256 * s.ctorIdx))

/-- the members of a bit set -/
def members (row : Nat) : List St := allI.filterMap fun p => if row.testBit p.2 then some p.1 else none

/-- the union of `below t` over the possible tops `t` -/
def unionBelow (X : Nat) (topRow : Nat) : Nat :=
  allI.foldl (fun acc p => if topRow.testBit p.2 then acc ||| rowAtI X 1 p.2 else acc) 0

/-- the facts one leaf adds; `topRow` = row of `st` in `top` -/
def flowLeaf (topRow : Nat) (r : St) (X : Nat) (leaf : List (Op St) × Cont St) : Nat :=
  match absOps true (a0 r) leaf.1 with
  | none => X
  | some a =>
    let bt := if a.popped then unionBelow X topRow else topRow
    -- the pushed states
    let X1 := (a.pre.zip (a.pre.drop 1)).foldl (fun X pq => orAt X 1 pq.1 (bit pq.2)) X
    let X2 := match a.pre.getLast? with
      | some p => orAt X1 1 p bt
      | none => X1
    let tf := match a.pre with
      | q :: _ => bit q
      | [] => bt
    let viaReg : Nat := match a.reg with
      | .known x => orAt X2 0 x tf
      | .top0 => allI.foldl (fun X' p =>
          if topRow.testBit p.2 then
            X' ||| ((match a.pre with
              | q :: _ => bit q
              | [] => rowAtI X 1 p.2) <<< (256 * p.2))
          else X') X2
    match leaf.2 with
    | .err => X2
    | .done | .redispatch => viaReg
    | .call s' => orAt X2 0 s' tf
    | .jschema => orAt X2 0 .stateSchemaClosed tf
    | .enumBody => orAt X2 0 .stateEnumBodyClose tf

def flowStep (X : Nat) : Nat :=
  foldS (fun X p =>
    forceNat (rowAtI X 0 p.2) fun topRow =>
      (regsL p.1).foldl (fun X r => (code p.1).leaves.foldl (flowLeaf topRow r) X) X)
    X allI

def flowX : Nat := iterS flowStep 40 0

/-- the dispatch / byte edges of a state: (target, same byte?, completing events, rewind) -/
def edgesOf (X : Nat) (p : St × Nat) : List (St × Bool × Nat × Nat) :=
  (regsL p.1).flatMap fun r =>
    (code p.1).leaves.flatMap fun leaf =>
      match absOps true (a0 r) leaf.1 with
      | none => []
      | some a =>
        let tg : List St := match a.reg with
          | .known x => [x]
          | .top0 => members (rowAtI X 0 p.2)
        match leaf.2 with
        | .err => []
        | .done => tg.map fun x => (x, false, cnt a.evs, a.rew)
        | .redispatch => tg.map fun x => (x, true, cnt a.evs, a.rew)
        | .call s' => [(s', true, cnt a.evs, a.rew)]
        | .jschema => [(.stateSchemaClosed, false, cnt a.evs, a.rew)]
        | .enumBody => [(.stateEnumBodyClose, false, cnt a.evs, a.rew)]

def byteAt (m i : Nat) : Nat := (m >>> (8 * i)) % 256

/-- rank: one more than the largest rank of a same-byte successor (capped, so that a cycle is refused by
the check instead of diverging) -/
def rankStep (X : Nat) (m : Nat) : Nat :=
  foldS (fun m p =>
    let need := (edgesOf X p).foldl (fun n e => if e.2.1 then max n (byteOf m e.1 + 1) else n) 0
    let need := min need 40
    if byteAt m p.2 < need then m + ((need - byteAt m p.2) <<< (8 * p.2)) else m) m allI

def rankM : Nat := iterS (rankStep flowX) 48 0

/-- `w`: the least potential: a state is raised to what its successors need (capped) -/
def wStep (X : Nat) (m : Nat) : Nat :=
  foldS (fun m p =>
    let need := (edgesOf X p).foldl (fun n e =>
      max n (if e.2.1 then byteOf m e.1 else byteOf m e.1 + 1 + K * e.2.2.2 - K)) 0
    let need := min need 40
    if byteAt m p.2 < need then m + ((need - byteAt m p.2) <<< (8 * p.2)) else m) m allI

def wM : Nat := iterS (wStep flowX) 64 0

def uCap : Nat := 15

/-- `u`: the greatest potential below `uCap` with `u stateRoot = 0`: a successor is lowered to what its
predecessor can afford -/
def uStep (X : Nat) (m : Nat) : Nat :=
  foldS (fun m p =>
    (edgesOf X p).foldl (fun m e =>
      let bound := byteAt m p.2 + (if e.2.1 then 0 else 1) - (e.2.2.1 + e.2.2.2)
      if byteOf m e.1 > bound then m - ((byteOf m e.1 - bound) <<< (8 * e.1.ctorIdx)) else m) m) m allI

def u0 : Nat := St.all.foldl (fun m s => if stEq s .stateRoot then m else m + (uCap <<< (8 * s.ctorIdx))) 0

def uM : Nat := iterS (uStep flowX) 64 u0

/-- the certificate of the current table -/
def tcert : TCert :=
  { regs := regsL, top := rowAt flowX 0, below := rowAt flowX 1,
    rank := byteOf rankM, w := byteOf wM, u := byteOf uM }

/-- the largest `w` -/
def wMaxC : Nat := allI.foldl (fun n p => max n (byteAt wM p.2)) 0

/-- diagnostics for the harness: the states whose code fails the check (empty when `term_table_facts` holds) -/
def termFailing : List String := (St.all.filter fun s => !chkCode tcert s).map St.name

/-! ## generic proofs: any certificate that passes the check bounds the three budgets -/

theorem St.mem_all' (st : St) : st ∈ St.all := by
  cases st <;> simp [St.all]

/-! ### bit sets -/

theorem subset_mem {a b : Nat} {t : St} (h : subset a b = true) (hm : mem a t = true) : mem b t = true := by
  simp only [subset, beq_iff_eq] at h
  simp only [mem] at hm ⊢
  rw [← h, Nat.testBit_or, hm]
  rfl

/-! ### the table -/

theorem select_mem_leaves {S : Type} (c : UInt8) (ev : Cond → Bool) : ∀ t : Code S, t.select c ev ∈ t.leaves
  | .leaf _ _ => by simp [Code.select, Code.leaves]
  | .ifB bs t e => by
    simp only [Code.select, Code.leaves, List.mem_append]
    cases bs.contains c
    · exact Or.inr (by simpa using select_mem_leaves c ev e)
    · exact Or.inl (by simpa using select_mem_leaves c ev t)
  | .ifC cd t e => by
    simp only [Code.select, Code.leaves, List.mem_append]
    cases ev cd
    · exact Or.inr (by simpa using select_mem_leaves c ev e)
    · exact Or.inl (by simpa using select_mem_leaves c ev t)

theorem cnt_append : ∀ (l1 l2 : List (Ev × Nat)), cnt (l1 ++ l2) = cnt l1 + cnt l2
  | [], l2 => by simp [cnt]
  | e :: r, l2 => by simp only [List.cons_append, cnt, cnt_append r l2]; omega

theorem cnt_map (f : Ev × Nat → Nat) : ∀ (l : List (Ev × Nat)), cnt (l.map fun p => (p.1, f p)) = cnt l
  | [] => rfl
  | e :: r => by simp only [List.map_cons, cnt, cnt_map f r]

/-! ### the effects never fail with `fuel`; when they succeed the abstract execution describes the result -/

theorem execOp_err {sc : Sc} {op : Op St} {f : Fault} (h : execOp sc op = .error f) : f ≠ .fuel := by
  cases op with
  | setStep s => cases h
  | push s => cases h
  | pushCur => cases h
  | popToStep =>
    simp only [execOp] at h
    cases hs : sc.stack with
    | nil => rw [hs] at h; cases h; intro h'; cases h'
    | cons t r => rw [hs] at h; cases h
  | found e b =>
    simp only [execOp] at h
    by_cases hb : b ≤ sc.cur
    · rw [if_pos hb] at h; cases h
    · rw [if_neg hb] at h; cases h; intro h'; cases h'
  | rewind n => cases h

theorem execOps_err : ∀ (ops : List (Op St)) {sc : Sc} {f : Fault}, execOps sc ops = .error f → f ≠ .fuel
  | [], _, _, h => by cases h
  | op :: r, sc, f, h => by
    simp only [execOps] at h
    cases h1 : execOp sc op with
    | error f1 => rw [h1] at h; cases h; exact execOp_err h1
    | ok sc1 => rw [h1] at h; exact execOps_err r h

theorem absOp_ok {sc0 sc' : Sc} {a a' : Abs} {op : Op St}
    (h : absOp true a op = some a') (he : execOp (concSc sc0 a) op = .ok sc')
    (hp : a.popped = true → sc0.stack ≠ []) (ht : a.reg = .top0 → a.popped = true) :
    sc' = concSc sc0 a' ∧ (a'.popped = true → sc0.stack ≠ []) ∧ (a'.reg = .top0 → a'.popped = true) := by
  cases op with
  | setStep s =>
    simp only [absOp, Option.some.injEq] at h; subst h
    simp only [execOp, Except.ok.injEq] at he; subst he
    exact ⟨rfl, hp, fun h' => by cases h'⟩
  | push s =>
    simp only [absOp, Option.some.injEq] at h; subst h
    simp only [execOp, Except.ok.injEq] at he; subst he
    exact ⟨rfl, hp, ht⟩
  | pushCur =>
    simp only [absOp] at h
    cases hr : a.reg with
    | known s =>
      rw [hr] at h; simp only [Option.some.injEq] at h; subst h
      simp only [execOp, Except.ok.injEq] at he; subst he
      refine ⟨?_, hp, ?_⟩
      · simp [concSc, conc, hr]
      · intro h'; simp at h'
    | top0 => rw [hr] at h; cases h
  | popToStep =>
    simp only [absOp] at h
    cases hpre : a.pre with
    | cons p pre' =>
      rw [hpre] at h; simp only [Option.some.injEq] at h; subst h
      simp only [execOp, concSc, hpre, List.cons_append, Except.ok.injEq] at he; subst he
      exact ⟨by simp [concSc, conc], hp, fun h' => by cases h'⟩
    | nil =>
      rw [hpre] at h
      by_cases hc : (true && !a.popped) = true
      · rw [if_pos hc] at h; simp only [Option.some.injEq] at h; subst h
        simp only [Bool.true_and, Bool.not_eq_true'] at hc
        cases hs : sc0.stack with
        | nil => simp [execOp, concSc, hpre, base, hc, hs] at he
        | cons t rest =>
          simp only [execOp, concSc, hpre, base, hc, hs, List.nil_append, Bool.false_eq_true, if_false,
            Except.ok.injEq] at he
          subst he
          refine ⟨by simp [concSc, conc, base, hs], fun _ => by simp, fun _ => rfl⟩
      · rw [if_neg hc] at h; cases h
  | found e b =>
    simp only [absOp, Option.some.injEq] at h; subst h
    simp only [execOp] at he
    by_cases hb : b ≤ (concSc sc0 a).cur
    · rw [if_pos hb] at he
      simp only [Except.ok.injEq] at he; subst he
      exact ⟨by simp [concSc], hp, ht⟩
    · rw [if_neg hb] at he; cases he
  | rewind n =>
    simp only [absOp, Option.some.injEq] at h; subst h
    simp only [execOp, Except.ok.injEq] at he; subst he
    exact ⟨by simp [concSc, Nat.add_assoc], hp, ht⟩

theorem absOps_ok {sc0 : Sc} : ∀ (ops : List (Op St)) {a a' : Abs} {sc' : Sc},
    absOps true a ops = some a' → execOps (concSc sc0 a) ops = .ok sc' →
    (a.popped = true → sc0.stack ≠ []) → (a.reg = .top0 → a.popped = true) →
    sc' = concSc sc0 a' ∧ (a'.popped = true → sc0.stack ≠ []) ∧ (a'.reg = .top0 → a'.popped = true)
  | [], a, a', sc', h, he, hp, ht => by
    simp only [absOps, Option.some.injEq] at h; subst h
    simp only [execOps, Except.ok.injEq] at he; subst he
    exact ⟨rfl, hp, ht⟩
  | op :: r, a, a', sc', h, he, hp, ht => by
    simp only [absOps] at h
    simp only [execOps] at he
    cases h1 : absOp true a op with
    | none => rw [h1] at h; cases h
    | some a1 =>
      rw [h1] at h
      cases h2 : execOp (concSc sc0 a) op with
      | error f => rw [h2] at he; cases he
      | ok sc1 =>
        rw [h2] at he
        obtain ⟨e1, hp1, ht1⟩ := absOp_ok h1 h2 hp ht
        subst e1
        exact absOps_ok r h he hp1 ht1

/-! ### the shape of the step stack -/

/-- each state on the stack sits on a state that `below` allows -/
def Conf (B : St → Nat) : List St → Prop
  | [] => True
  | [_] => True
  | x :: y :: r => mem (B x) y = true ∧ Conf B (y :: r)

/-- the top of the stack (if any) is one that `top s` allows -/
def TopOK (T : St → Nat) (s : St) (stk : List St) : Prop := ∀ t rest, stk = t :: rest → mem (T s) t = true

theorem Conf.tail {B : St → Nat} : ∀ {stk : List St}, Conf B stk → Conf B stk.tail
  | [], _ => trivial
  | [_], _ => trivial
  | _ :: _ :: _, h => h.2

theorem conf_cons {B : St → Nat} {p : St} : ∀ {stk : List St}, Conf B stk →
    (∀ y rest, stk = y :: rest → mem (B p) y = true) → Conf B (p :: stk)
  | [], _, _ => trivial
  | y :: rest, h, hb => ⟨hb y rest rfl, h⟩

/-- the certificate passes the check -/
structure TValid (C : TCert) (wMax : Nat) : Prop where
  code : ∀ st, chkCode C st = true
  bounds : chkBounds C wMax = true

/-- while the code of `st` runs on the current byte -/
structure TI (C : TCert) (st : St) (sc : Sc) : Prop where
  regs : sc.step ∈ C.regs st
  top : TopOK C.top st sc.stack
  conf : Conf C.below sc.stack

/-- between two byte steps -/
structure TInv (C : TCert) (sc : Sc) : Prop where
  top : TopOK C.top sc.step sc.stack
  conf : Conf C.below sc.stack
  rew : sc.rew = 0

theorem self_regs {C : TCert} {wMax : Nat} (hV : TValid C wMax) (st : St) : st ∈ C.regs st := by
  have := hV.code st
  simp only [chkCode, Bool.and_eq_true] at this
  simpa using this.1

theorem baseSub_sound {C : TCert} {st : St} {popped : Bool} {target : Nat} {stk : List St}
    (h : baseSub C st popped target = true) (ht : TopOK C.top st stk) (hc : Conf C.below stk) :
    ∀ y rest, base stk popped = y :: rest → mem target y = true := by
  intro y rest hb
  cases popped with
  | false =>
    simp only [baseSub, Bool.false_eq_true, if_false] at h
    simp only [base, Bool.false_eq_true, if_false] at hb
    exact subset_mem h (ht y rest hb)
  | true =>
    simp only [baseSub, if_true, List.all_eq_true, Bool.or_eq_true, Bool.not_eq_true'] at h
    simp only [base, if_true] at hb
    cases stk with
    | nil => cases hb
    | cons t tl =>
      simp only [List.tail_cons] at hb
      subst hb
      have h1 := ht t _ rfl
      rcases h t (St.mem_all' t) with h2 | h2
      · rw [h1] at h2; cases h2
      · exact subset_mem h2 hc.1

theorem confPre_sound {C : TCert} {st : St} {popped : Bool} {stk : List St}
    (ht : TopOK C.top st stk) (hc : Conf C.below stk) :
    ∀ (pre : List St), confPre C st popped pre = true → Conf C.below (pre ++ base stk popped)
  | [], _ => by
    simp only [List.nil_append]
    cases popped with
    | false => simpa [base] using hc
    | true => simpa [base] using hc.tail
  | [p], h => by
    simp only [confPre] at h
    have hb : Conf C.below (base stk popped) := by
      cases popped with
      | false => simpa [base] using hc
      | true => simpa [base] using hc.tail
    exact conf_cons hb (baseSub_sound h ht hc)
  | p :: q :: r, h => by
    simp only [confPre, Bool.and_eq_true] at h
    exact ⟨h.1, confPre_sound ht hc (q :: r) h.2⟩

theorem stkOK_sound {C : TCert} {st : St} {a : Abs} {target : Nat} {stk : List St}
    (h : stkOK C st a target = true) (ht : TopOK C.top st stk) (hc : Conf C.below stk) :
    ∀ y rest, a.pre ++ base stk a.popped = y :: rest → mem target y = true := by
  intro y rest he
  unfold stkOK at h
  cases hp : a.pre with
  | nil =>
    rw [hp] at h he
    exact baseSub_sound h ht hc y rest (by simpa using he)
  | cons q pre' =>
    rw [hp] at h he
    simp only [List.cons_append, List.cons.injEq] at he
    rw [← he.1]; exact h

/-- the register after the leaf: the property checked for every possible value holds for the actual one, and
the resulting stack is one that its `top` allows -/
theorem tgtOK_sound {C : TCert} {st : St} {a : Abs} {p : St → Bool} {stk : List St}
    (h : tgtOK C st a p = true) (ht : TopOK C.top st stk) (hc : Conf C.below stk)
    (hpop : a.popped = true → stk ≠ []) (htop : a.reg = .top0 → a.popped = true) :
    p (conc stk a.reg) = true ∧ TopOK C.top (conc stk a.reg) (a.pre ++ base stk a.popped) := by
  unfold tgtOK at h
  cases hr : a.reg with
  | known x =>
    rw [hr] at h
    simp only [Bool.and_eq_true] at h
    exact ⟨h.1, stkOK_sound h.2 ht hc⟩
  | top0 =>
    rw [hr] at h
    have hpp := htop hr
    cases stk with
    | nil => exact absurd rfl (hpop hpp)
    | cons t tl =>
      simp only [List.all_eq_true, Bool.or_eq_true, Bool.not_eq_true', Bool.and_eq_true] at h
      have h1 := ht t tl rfl
      rcases h t (St.mem_all' t) with h2 | h2
      · rw [h1] at h2; cases h2
      · refine ⟨h2.1, ?_⟩
        intro y rest he
        simp only [conc, List.headD_cons]
        cases hp : a.pre with
        | cons q pre' =>
          rw [hp] at h2 he
          simp only [List.cons_append, List.cons.injEq] at he
          rw [← he.1]; exact h2.2
        | nil =>
          rw [hp] at h2 he
          simp only [base, hpp, if_true, List.tail_cons, List.nil_append] at he
          subst he
          exact subset_mem h2.2 hc.1

/-- the library-delimited body never fails with `fuel` -/
theorem libBody_cases' (sc : Sc) (b : Ev) (ans : LenAns) (closing : St) (z : Bool) :
    (∃ s, libBody sc b ans closing z = .error s ∧ s ≠ .fault .fuel) ∨
    (∃ n, libBody sc b ans closing z =
      .ok { sc with finds := sc.finds ++ [(b, sc.cur)], cur := sc.cur + (n - 1), step := closing }) := by
  cases ans with
  | miss => exact Or.inl ⟨_, rfl, fun h => by cases h⟩
  | err pos => exact Or.inl ⟨_, rfl, fun h => by cases h⟩
  | len n =>
    simp only [libBody]
    by_cases h : (n == 0 && z) = true
    · rw [if_pos h]; exact Or.inl ⟨_, rfl, fun h => by cases h⟩
    · rw [if_neg h]; exact Or.inr ⟨n, rfl⟩

/-! ### one byte through the step function(s) -/

/-- what the step function(s) of one byte guarantee, started in the code of `st` on `sc` -/
structure TPost (C : TCert) (st : St) (sc sc' : Sc) : Prop where
  top : TopOK C.top sc'.step sc'.stack
  conf : Conf C.below sc'.stack
  w : C.w sc'.step + 1 + K * sc'.rew ≤ C.w st + K + K * sc.rew
  u : cnt sc'.finds + C.u sc'.step + sc'.rew ≤ cnt sc.finds + C.u st + 1 + sc.rew
  cur : sc.cur ≤ sc'.cur

theorem tpost_lib {C : TCert} {st closing : St} {sc : Sc} {a : Abs} {b : Ev} {n e : Nat}
    (hI : TI C st sc) (hconf' : Conf C.below (concSc sc a).stack)
    (hfinds : cnt (concSc sc a).finds = cnt sc.finds + e) (hb : b.isBeginning = true)
    (hrew : a.rew = 0) (hfin : finOK C st e 0 closing = true) (hstk : stkOK C st a (C.top closing) = true) :
    TPost C st sc { concSc sc a with finds := (concSc sc a).finds ++ [(b, (concSc sc a).cur)],
                                     cur := (concSc sc a).cur + (n - 1), step := closing } := by
  simp only [finOK, Bool.and_eq_true, decide_eq_true_eq] at hfin
  refine ⟨stkOK_sound hstk hI.top hI.conf, hconf', ?_, ?_, ?_⟩
  · show C.w closing + 1 + K * (sc.rew + a.rew) ≤ C.w st + K + K * sc.rew
    have := hfin.1
    simp only [K] at this ⊢
    omega
  · show cnt ((concSc sc a).finds ++ [(b, (concSc sc a).cur)]) + C.u closing + (sc.rew + a.rew) ≤ _
    rw [cnt_append, hfinds]
    simp only [cnt, hb, if_true]
    have := hfin.2
    omega
  · show sc.cur ≤ sc.cur + (n - 1)
    omega

/-- **one byte**: the same-byte dispatch chain that starts in the code of `st` has at most `rank st + 1`
members, so `interp` does not run out of a budget above `rank st`; and the configuration it returns
satisfies the potential inequalities of the certificate -/
theorem interp_term {C : TCert} {wMax : Nat} (hV : TValid C wMax) (d : Src) (o : Oracle) (c : UInt8) :
    ∀ (fuel : Nat) (st : St) (sc : Sc), C.rank st < fuel → TI C st sc →
      match interp d o c fuel st sc with
      | .ok sc' => TPost C st sc sc'
      | .error s => s ≠ .fault .fuel := by
  intro fuel
  induction fuel with
  | zero => intro st sc h _; exact absurd h (Nat.not_lt_zero _)
  | succ fuel ih =>
    intro st sc hrk hI
    have hmem := select_mem_leaves c (evalCond d sc) (code st)
    have hcode := hV.code st
    simp only [chkCode, Bool.and_eq_true, List.all_eq_true] at hcode
    have hleaf := hcode.2 sc.step hI.regs _ hmem
    rw [interp_succ]
    generalize (code st).select c (evalCond d sc) = leaf at hleaf ⊢
    obtain ⟨ops, k⟩ := leaf
    simp only [chkLeaf] at hleaf
    cases ha : absOps true (a0 sc.step) ops with
    | none => rw [ha] at hleaf; cases hleaf
    | some a =>
      rw [ha] at hleaf
      simp only [Bool.and_eq_true] at hleaf
      obtain ⟨hconf, hk⟩ := hleaf
      cases hex : execOps sc ops with
      | error f =>
        simp only
        intro h; cases h
        exact execOps_err ops hex rfl
      | ok sc1 =>
        have hex' : execOps (concSc sc (a0 sc.step)) ops = .ok sc1 := by rw [concSc_a0]; exact hex
        obtain ⟨e1, hpop, htop⟩ :=
          absOps_ok ops ha hex' (by intro h; simp [a0] at h) (by intro h; simp [a0] at h)
        subst e1
        have hconf' : Conf C.below (concSc sc a).stack := confPre_sound hI.top hI.conf a.pre hconf
        have hfinds : cnt (concSc sc a).finds = cnt sc.finds + cnt a.evs := by
          show cnt (sc.finds ++ a.evs.map (fun p => (p.1, sc.cur - p.2))) = _
          rw [cnt_append, cnt_map]
        have hrw : (concSc sc a).rew = sc.rew + a.rew := rfl
        simp only
        cases k with
        | done =>
          simp only at hk ⊢
          obtain ⟨hp, ht'⟩ := tgtOK_sound hk hI.top hI.conf hpop htop
          simp only [finOK, Bool.and_eq_true, decide_eq_true_eq] at hp
          refine ⟨ht', hconf', ?_, ?_, Nat.le_refl _⟩
          · show C.w (conc sc.stack a.reg) + 1 + K * (sc.rew + a.rew) ≤ C.w st + K + K * sc.rew
            have := hp.1
            simp only [K] at this ⊢
            omega
          · show cnt (concSc sc a).finds + C.u (conc sc.stack a.reg) + (sc.rew + a.rew) ≤ _
            rw [hfinds]
            have := hp.2
            omega
        | err =>
          simp only
          intro h; cases h
        | call s' =>
          simp only [Bool.and_eq_true, beq_iff_eq] at hk
          obtain ⟨⟨⟨hrew, hhop⟩, hstk⟩, hreg⟩ := hk
          simp only [hopOK, Bool.and_eq_true, decide_eq_true_eq] at hhop
          obtain ⟨⟨hrank, hw⟩, hu⟩ := hhop
          cases hr : a.reg with
          | top0 => rw [hr] at hreg; cases hreg
          | known x =>
            rw [hr] at hreg
            have hI' : TI C s' (concSc sc a) := by
              refine ⟨?_, stkOK_sound hstk hI.top hI.conf, hconf'⟩
              show conc sc.stack a.reg ∈ C.regs s'
              rw [hr]; simpa [conc] using hreg
            have h2 := ih s' (concSc sc a) (by omega) hI'
            simp only
            cases hi : interp d o c fuel s' (concSc sc a) with
            | error s => rw [hi] at h2; exact h2
            | ok sc2 =>
              rw [hi] at h2
              obtain ⟨t2, c2, w2, u2, cur2⟩ := h2
              refine ⟨t2, c2, ?_, ?_, cur2⟩
              · rw [hrw, hrew] at w2
                simp only [K] at w2 ⊢
                omega
              · rw [hrw, hrew, hfinds] at u2
                omega
        | redispatch =>
          simp only [Bool.and_eq_true, beq_iff_eq] at hk
          obtain ⟨hrew, htg⟩ := hk
          obtain ⟨hp, ht'⟩ := tgtOK_sound htg hI.top hI.conf hpop htop
          simp only [hopOK, Bool.and_eq_true, decide_eq_true_eq] at hp
          obtain ⟨⟨hrank, hw⟩, hu⟩ := hp
          have hI' : TI C (concSc sc a).step (concSc sc a) := ⟨self_regs hV _, ht', hconf'⟩
          have h2 := ih (concSc sc a).step (concSc sc a)
            (by show C.rank (conc sc.stack a.reg) < fuel; omega) hI'
          simp only
          cases hi : interp d o c fuel (concSc sc a).step (concSc sc a) with
          | error s => rw [hi] at h2; exact h2
          | ok sc2 =>
            rw [hi] at h2
            obtain ⟨t2, c2, w2, u2, cur2⟩ := h2
            refine ⟨t2, c2, ?_, ?_, cur2⟩
            · rw [hrw, hrew] at w2
              have hw' : C.w (concSc sc a).step ≤ C.w st := hw
              simp only [K] at w2 ⊢
              omega
            · rw [hrw, hrew, hfinds] at u2
              have hu' : C.u (concSc sc a).step + cnt a.evs ≤ C.u st := hu
              omega
        | jschema =>
          simp only [Bool.and_eq_true, beq_iff_eq] at hk
          obtain ⟨⟨hrew, hfin⟩, hstk⟩ := hk
          simp only
          rcases libBody_cases' (concSc sc a) .schemaBegin (o.schemaLen (concSc sc a).cur) .stateSchemaClosed (c != 0)
            with ⟨s, hs, hne⟩ | ⟨n, hn⟩
          · rw [hs]; exact hne
          · rw [hn]; exact tpost_lib hI hconf' hfinds rfl hrew hfin hstk
        | enumBody =>
          simp only [Bool.and_eq_true, beq_iff_eq] at hk
          obtain ⟨⟨hrew, hfin⟩, hstk⟩ := hk
          simp only
          rcases libBody_cases' (concSc sc a) .enumBegin (o.enumLen (concSc sc a).cur) .stateEnumBodyClose false
            with ⟨s, hs, hne⟩ | ⟨n, hn⟩
          · rw [hs]; exact hne
          · rw [hn]; exact tpost_lib hI hconf' hfinds rfl hrew hfin hstk

/-! ### the byte step -/

theorem bounds_rank {C : TCert} {wMax : Nat} (hV : TValid C wMax) (s : St) : C.rank s < stepFuel ∧ C.w s ≤ wMax := by
  have := hV.bounds
  simp only [chkBounds, Bool.and_eq_true, List.all_eq_true, decide_eq_true_eq] at this
  exact this.1 s (St.mem_all' s)

theorem bounds_root {C : TCert} {wMax : Nat} (hV : TValid C wMax) : C.u .stateRoot = 0 := by
  have := hV.bounds
  simp only [chkBounds, Bool.and_eq_true, beq_iff_eq] at this
  exact this.2

/-- the lexeme potential: `D` lexemes delivered so far -/
def Q (C : TCert) (d : Src) (D : Nat) (sc : Sc) : Prop :=
  D + cnt sc.finds + C.u sc.step ≤ min sc.cur (d.size + 1)

/-- what a byte step guarantees: the invariant, the byte potential strictly increases, the lexeme potential is kept -/
structure StepPost (C : TCert) (d : Src) (sc sc' : Sc) : Prop where
  inv : TInv C sc'
  w : K * sc.cur + C.w sc'.step + 1 ≤ K * sc'.cur + C.w sc.step
  q : ∀ D, Q C d D sc → Q C d D sc'

theorem byteStep_term {C : TCert} {wMax : Nat} (hV : TValid C wMax) (d : Src) (o : Oracle) (sc : Sc)
    (hI : TInv C sc) (hle : sc.cur ≤ d.size) :
    match byteStep d o sc with
    | .ok sc' => StepPost C d sc sc'
    | .error s => s ≠ .fault .fuel := by
  unfold byteStep
  simp only
  by_cases h0 : (sc.cur != d.size && curByte d sc == 0) = true
  · rw [if_pos h0]; intro h; cases h
  · rw [if_neg h0]
    have hs := interp_term hV d o (curByte d sc) stepFuel sc.step sc (bounds_rank hV _).1
      ⟨self_regs hV _, hI.top, hI.conf⟩
    cases hi : interp d o (curByte d sc) stepFuel sc.step sc with
    | error s => rw [hi] at hs; exact hs
    | ok sc1 =>
      rw [hi] at hs
      obtain ⟨t1, c1, w1, u1, cur1⟩ := hs
      rw [hI.rew] at w1 u1
      simp only
      by_cases hu : sc1.rew > sc1.cur + 1
      · rw [if_pos hu]; intro h; cases h
      · rw [if_neg hu]
        refine ⟨⟨t1, c1, rfl⟩, ?_, ?_⟩
        · show K * sc.cur + C.w sc1.step + 1 ≤ K * (sc1.cur + 1 - sc1.rew) + C.w sc.step
          simp only [K] at w1 ⊢
          omega
        · intro D hq
          unfold Q at hq ⊢
          show D + cnt sc1.finds + C.u sc1.step ≤ min (sc1.cur + 1 - sc1.rew) (d.size + 1)
          omega

/-! ### the lexeme events -/

theorem processEvent_term {sc sc' : Sc} {ev : Ev × Nat} {lex : Option Lexeme}
    (h : processEvent sc ev = .ok (lex, sc')) :
    sc'.step = sc.step ∧ sc'.stack = sc.stack ∧ sc'.cur = sc.cur ∧ sc'.rew = sc.rew ∧ sc'.finds = sc.finds ∧
    (lex.isSome = true → ev.1.isBeginning = false) := by
  unfold processEvent at h
  by_cases hb : ev.1.isBeginning = true
  · rw [if_pos hb] at h
    simp only [Except.ok.injEq, Prod.mk.injEq] at h
    obtain ⟨h1, h2⟩ := h
    subst h1 h2
    exact ⟨rfl, rfl, rfl, rfl, rfl, fun h => by cases h⟩
  · rw [if_neg hb] at h
    have hb' : ev.1.isBeginning = false := by simpa using hb
    by_cases he : ev.1.isEnding = true
    · rw [if_pos he] at h
      cases hs : sc.evStack with
      | nil => rw [hs] at h; cases h
      | cons start rest =>
        rw [hs] at h
        simp only at h
        by_cases hm : start.1.matches ev.1 = true
        · rw [if_pos hm] at h
          simp only [Except.ok.injEq, Prod.mk.injEq] at h
          obtain ⟨h1, h2⟩ := h
          subst h1 h2
          exact ⟨rfl, rfl, rfl, rfl, rfl, fun _ => hb'⟩
        · rw [if_neg hm] at h; cases h
    · rw [if_neg he] at h
      simp only [Except.ok.injEq, Prod.mk.injEq] at h
      obtain ⟨h1, h2⟩ := h
      subst h1 h2
      exact ⟨rfl, rfl, rfl, rfl, rfl, fun _ => hb'⟩

theorem processEvent_err {sc : Sc} {ev : Ev × Nat} {s : Stop} (h : processEvent sc ev = .error s) :
    s ≠ .fault .fuel := by
  unfold processEvent at h
  by_cases hb : ev.1.isBeginning = true
  · rw [if_pos hb] at h; cases h
  · rw [if_neg hb] at h
    by_cases he : ev.1.isEnding = true
    · rw [if_pos he] at h
      cases hs : sc.evStack with
      | nil => rw [hs] at h; cases h; intro h'; cases h'
      | cons start rest =>
        rw [hs] at h
        simp only at h
        by_cases hm : start.1.matches ev.1 = true
        · rw [if_pos hm] at h; cases h
        · rw [if_neg hm] at h; cases h; intro h'; cases h'
    · rw [if_neg he] at h; cases h

/-- same control state, and the number of completing events in the queue accounts for the lexeme -/
def Same (sc sc' : Sc) (lex : Option Lexeme) : Prop :=
  sc'.step = sc.step ∧ sc'.stack = sc.stack ∧ sc'.cur = sc.cur ∧ sc'.rew = sc.rew ∧
  cnt sc'.finds + (if lex.isSome then 1 else 0) ≤ cnt sc.finds

theorem Same.inv {C : TCert} {sc sc' : Sc} {lex : Option Lexeme} (h : Same sc sc' lex) (hI : TInv C sc) :
    TInv C sc' := by
  obtain ⟨h1, h2, _, h4, _⟩ := h
  exact ⟨by rw [h1, h2]; exact hI.top, by rw [h2]; exact hI.conf, by rw [h4]; exact hI.rew⟩

theorem Same.q {C : TCert} {d : Src} {D : Nat} {sc sc' : Sc} {lex : Option Lexeme} (h : Same sc sc' lex)
    (hq : Q C d D sc) : Q C d (D + (if lex.isSome then 1 else 0)) sc' := by
  obtain ⟨h1, _, h3, _, h5⟩ := h
  unfold Q at hq ⊢
  rw [h1, h3]
  omega

/-- shifting the first queued event -/
theorem shift_term {sc sc' : Sc} {ev : Ev × Nat} {rest : List (Ev × Nat)} {lex : Option Lexeme}
    (hf : sc.finds = ev :: rest) (h : processEvent { sc with finds := rest } ev = .ok (lex, sc')) :
    sc'.finds = rest ∧ Same sc sc' lex := by
  obtain ⟨h1, h2, h3, h4, h5, h6⟩ := processEvent_term h
  refine ⟨h5, h1, h2, h3, h4, ?_⟩
  rw [h5, hf]
  show cnt rest + _ ≤ cnt (ev :: rest)
  simp only [cnt]
  cases hl : lex.isSome with
  | false => simp
  | true => rw [h6 hl]; simp; omega

theorem drainFinds_term : ∀ (n : Nat) (sc : Sc),
    match drainFinds n sc with
    | .ok (lex, sc') => Same sc sc' lex
    | .error s => s ≠ .fault .fuel
  | 0, sc => by
    simp only [drainFinds]
    exact ⟨rfl, rfl, rfl, rfl, by simp⟩
  | n + 1, sc => by
    simp only [drainFinds]
    cases hf : sc.finds with
    | nil => simp only; intro h; cases h
    | cons ev rest =>
      simp only
      cases hp : processEvent { sc with finds := rest } ev with
      | error s => simp only; exact processEvent_err hp
      | ok p =>
        obtain ⟨l1, sc1⟩ := p
        obtain ⟨hfr, hS⟩ := shift_term hf hp
        cases l1 with
        | some l =>
          simp only
          obtain ⟨h1, h2, h3, h4, h5⟩ := hS
          cases l.ty <;> exact ⟨h1, h2, h3, h4, h5⟩
        | none =>
          simp only
          have ih := drainFinds_term n sc1
          cases hd : drainFinds n sc1 with
          | error s => rw [hd] at ih; exact ih
          | ok q =>
            obtain ⟨l2, sc2⟩ := q
            rw [hd] at ih
            obtain ⟨h1, h2, h3, h4, h5⟩ := hS
            obtain ⟨g1, g2, g3, g4, g5⟩ := ih
            refine ⟨g1.trans h1, g2.trans h2, g3.trans h3, g4.trans h4, ?_⟩
            simp only [Option.isSome_none, Bool.false_eq_true, if_false] at h5
            omega

/-! ### the byte loop, `Next`, the whole file -/

/-- what `byteLoop` / `next` guarantee when they return: the invariant, and the lexeme potential with the
delivered lexeme counted -/
def LoopPost (C : TCert) (d : Src) (D : Nat) (r : Option Lexeme × Sc) : Prop :=
  TInv C r.2 ∧ Q C d (D + (if r.1.isSome then 1 else 0)) r.2

/-- **the byte loop**: `K * cur - w step` strictly increases with every byte step and is at most
`K * size` while the loop runs, so `K * size + wMax + 2` byte steps are never used up -/
theorem byteLoop_term {C : TCert} {wMax : Nat} (hV : TValid C wMax) (d : Src) (o : Oracle) (D : Nat) :
    ∀ (fuel : Nat) (sc : Sc), TInv C sc → Q C d D sc → 1 ≤ fuel →
      K * d.size + wMax + 2 ≤ fuel + (K * sc.cur + (wMax - C.w sc.step)) →
      match byteLoop d o fuel sc with
      | .ok r => LoopPost C d D r
      | .error s => s ≠ .fault .fuel
  | 0, _, _, _, h1, _ => absurd h1 (by omega)
  | fuel + 1, sc, hI, hq, _, hfuel => by
    simp only [byteLoop]
    by_cases hgt : sc.cur > d.size
    · rw [if_pos hgt]
      exact ⟨hI, by simpa using hq⟩
    · rw [if_neg hgt]
      have hle : sc.cur ≤ d.size := Nat.not_lt.mp hgt
      have hs := byteStep_term hV d o sc hI hle
      cases hb : byteStep d o sc with
      | error s => rw [hb] at hs; exact hs
      | ok sc2 =>
        rw [hb] at hs
        obtain ⟨hI2, hw2, hq2⟩ := hs
        have hd := drainFinds_term sc2.finds.length sc2
        simp only
        cases hdr : drainFinds sc2.finds.length sc2 with
        | error s => rw [hdr] at hd; exact hd
        | ok p =>
          obtain ⟨l3, sc3⟩ := p
          rw [hdr] at hd
          have hS : Same sc2 sc3 l3 := hd
          have hI3 := hS.inv hI2
          have hq3 := hS.q (hq2 D hq)
          cases l3 with
          | some l => exact ⟨hI3, hq3⟩
          | none =>
            simp only
            have hw := (bounds_rank hV sc.step).2
            have hw3 := (bounds_rank hV sc3.step).2
            obtain ⟨g1, _, g3, _, _⟩ := hS
            rw [← g1, ← g3] at hw2
            refine byteLoop_term hV d o D fuel sc3 hI3 (by simpa using hq3) ?_ ?_
            · simp only [K] at hfuel hw2 ⊢
              omega
            · simp only [K] at hfuel hw2 ⊢
              omega

theorem next_term {C : TCert} {wMax : Nat} (hV : TValid C wMax) (d : Src) (o : Oracle) (D : Nat)
    (fuel : Nat) (sc : Sc) (hI : TInv C sc) (hq : Q C d D sc) (hfuel : K * d.size + wMax + 2 ≤ fuel) :
    match next d o fuel sc with
    | .ok r => LoopPost C d D r
    | .error s => s ≠ .fault .fuel := by
  unfold next
  cases hf : sc.finds with
  | nil =>
    simp only
    exact byteLoop_term hV d o D fuel sc hI hq (by omega) (by omega)
  | cons ev rest =>
    simp only
    cases hp : processEvent { sc with finds := rest } ev with
    | error s => simp only; exact processEvent_err hp
    | ok p =>
      obtain ⟨l1, sc1⟩ := p
      obtain ⟨_, hS⟩ := shift_term hf hp
      have hI1 := hS.inv hI
      have hq1 := hS.q hq
      cases l1 with
      | some l => exact ⟨hI1, hq1⟩
      | none =>
        simp only
        exact byteLoop_term hV d o D fuel sc1 hI1 (by simpa using hq1) (by omega) (by omega)

theorem tinv_init (C : TCert) : TInv C Sc.init :=
  ⟨fun _ _ h => (nomatch h), trivial, rfl⟩

theorem q_init {C : TCert} {wMax : Nat} (hV : TValid C wMax) (d : Src) : Q C d 0 Sc.init := by
  unfold Q
  show 0 + cnt [] + C.u .stateRoot ≤ min 0 (d.size + 1)
  rw [bounds_root hV]
  simp [cnt]

/-- **the whole file**: every lexeme is paid for by a byte, so `size + 2` calls of `Next` are never used up
(`nb` = the byte budget of one call) -/
theorem lexAll_term {C : TCert} {wMax : Nat} (hV : TValid C wMax) (d : Src) (o : Oracle)
    (hb : K * d.size + wMax + 2 ≤ 4 * (d.size + 2)) :
    ∀ (n : Nat) (sc : Sc) (acc : List Lexeme), TInv C sc → Q C d acc.length sc → d.size + 2 ≤ acc.length + n →
      (lexAll d o n sc acc).2.1 ≠ some (.fault .fuel)
  | 0, sc, acc, _, hq, hn => by
    unfold Q at hq
    omega
  | n + 1, sc, acc, hI, hq, hn => by
    simp only [lexAll]
    have hs := next_term hV d o acc.length (4 * (d.size + 2)) sc hI hq hb
    cases hnx : next d o (4 * (d.size + 2)) sc with
    | error s =>
      rw [hnx] at hs
      simp only
      intro h
      exact hs (Option.some.inj h)
    | ok p =>
      obtain ⟨lex, sc'⟩ := p
      rw [hnx] at hs
      cases lex with
      | none => simp
      | some l =>
        simp only
        obtain ⟨hI', hq'⟩ := hs
        exact lexAll_term hV d o hb n sc' (l :: acc) hI' (by simpa using hq') (by simp only [List.length_cons]; omega)

/-- every configuration a run passes through satisfies the invariant -/
theorem reach_tinv {C : TCert} {wMax : Nat} (hV : TValid C wMax) {d : Src} {o : Oracle} {sc : Sc}
    (h : Reach d o sc) : TInv C sc := by
  induction h with
  | init => exact tinv_init C
  | @step sc sc' _ hle hs ih =>
    have := byteStep_term hV d o sc ih hle
    rw [hs] at this
    exact this.inv
  | @event sc sc' ev rest lex _ hf hp ih =>
    exact (shift_term hf hp).2.inv ih
  | @params sc p _ ih => exact ⟨ih.top, ih.conf, ih.rew⟩

theorem Q.mono {C : TCert} {d : Src} {D D' : Nat} {sc : Sc} (h : Q C d D sc) (hle : D' ≤ D) : Q C d D' sc := by
  unfold Q at h ⊢
  omega

/-- … and the lexeme potential (with no lexeme counted as delivered) -/
theorem reach_q {C : TCert} {wMax : Nat} (hV : TValid C wMax) {d : Src} {o : Oracle} {sc : Sc}
    (h : Reach d o sc) : Q C d 0 sc := by
  induction h with
  | init => exact q_init hV d
  | @step sc sc' hR hle hs ih =>
    have := byteStep_term hV d o sc (reach_tinv hV hR) hle
    rw [hs] at this
    exact this.q 0 ih
  | @event sc sc' ev rest lex _ hf hp ih =>
    exact ((shift_term hf hp).2.q ih).mono (Nat.zero_le _)
  | @params sc p _ ih => exact ih

/-- the number of lexemes of a file is at most `size + 1` -/
theorem lexAll_count {C : TCert} {wMax : Nat} (hV : TValid C wMax) (d : Src) (o : Oracle)
    (hb : K * d.size + wMax + 2 ≤ 4 * (d.size + 2)) :
    ∀ (n : Nat) (sc : Sc) (acc : List Lexeme), TInv C sc → Q C d acc.length sc →
      (lexAll d o n sc acc).1.length ≤ d.size + 1
  | 0, sc, acc, _, hq => by
    unfold Q at hq
    simp only [lexAll, List.length_reverse]
    omega
  | n + 1, sc, acc, hI, hq => by
    have hacc : acc.length ≤ d.size + 1 := by unfold Q at hq; omega
    simp only [lexAll]
    have hs := next_term hV d o acc.length (4 * (d.size + 2)) sc hI hq hb
    cases hnx : next d o (4 * (d.size + 2)) sc with
    | error s => simpa using hacc
    | ok p =>
      obtain ⟨lex, sc'⟩ := p
      rw [hnx] at hs
      cases lex with
      | none => simpa using hacc
      | some l =>
        simp only
        obtain ⟨hI', hq'⟩ := hs
        exact lexAll_count hV d o hb n sc' (l :: acc) hI' (by simpa using hq')

end JSight.ScanTerm
