import JSight.Model.PathPar
/-!
C13 — helper lemmas for the path-parameter properties (core Lean only).
-/
namespace JSight.C13
open JSight

/-! ### splitSlash / splitPath -/

theorem splitSlash_ne_nil (p : Bytes) : splitSlash p ≠ [] := by
  cases p with
  | nil => simp [splitSlash]
  | cons c r =>
    unfold splitSlash
    split
    · simp
    · split <;> simp

theorem splitSlash_noslash (p : Bytes) : ∀ s ∈ splitSlash p, B.slash ∉ s := by
  induction p with
  | nil => simp [splitSlash]
  | cons c r ih =>
    unfold splitSlash
    split
    · intro s hs
      rcases List.mem_cons.mp hs with rfl | hs
      · simp
      · exact ih s hs
    · rename_i hc
      have hne : B.slash ≠ c := by
        intro h; apply hc; rw [h]; exact beq_self_eq_true c
      split
      · intro s hs
        rcases List.mem_cons.mp hs with rfl | hs
        · intro hm
          rcases List.mem_cons.mp hm with h | h
          · exact hne h
          · cases h
        · cases hs
      · rename_i h t heq
        rw [heq] at ih
        intro s hs
        rcases List.mem_cons.mp hs with rfl | hs
        · intro hm
          rcases List.mem_cons.mp hm with h' | h'
          · exact hne h'
          · exact ih h (List.mem_cons_self) h'
        · exact ih s (List.mem_cons_of_mem _ hs)

/-! ### the loop -/

/-- contribution of the `i`-th remaining segment, given the segments `done` already passed -/
def specF (done rest : List Bytes) (i : Nat) : Option (Bytes × Bytes) :=
  match rest[i]? with
  | some seg =>
    if isParamSeg seg then some (joinSlash (done ++ rest.take (i + 1)), paramInner seg) else none
  | none => none

theorem specF_zero (done : List Bytes) (seg : Bytes) (rest : List Bytes) :
    specF done (seg :: rest) 0 =
      if isParamSeg seg then some (joinSlash (done ++ [seg]), paramInner seg) else none := by
  simp [specF]

theorem specF_succ (done : List Bytes) (seg : Bytes) (rest : List Bytes) :
    specF done (seg :: rest) ∘ Nat.succ = specF (done ++ [seg]) rest := by
  funext i
  simp [specF, Function.comp, List.append_assoc]

theorem loop_cons (done : List Bytes) (seg : Bytes) (rest : List Bytes) :
    pathParamsLoop done (seg :: rest) =
      if isParamSeg seg then
        (joinSlash (done ++ [seg]), paramInner seg) :: pathParamsLoop (done ++ [seg]) rest
      else pathParamsLoop (done ++ [seg]) rest := rfl

theorem loop_spec (done rest : List Bytes) :
    pathParamsLoop done rest = (List.range rest.length).filterMap (specF done rest) := by
  induction rest generalizing done with
  | nil => simp [pathParamsLoop]
  | cons seg rest ih =>
    rw [List.length_cons, List.range_succ_eq_map, List.filterMap_cons, specF_zero,
      List.filterMap_map, specF_succ, ← ih, loop_cons]
    by_cases h : isParamSeg seg = true
    · simp [h]
    · simp [h]

theorem loop_names (done rest : List Bytes) :
    (pathParamsLoop done rest).map (·.2) = (rest.filter isParamSeg).map paramInner := by
  induction rest generalizing done with
  | nil => simp [pathParamsLoop]
  | cons seg rest ih =>
    rw [loop_cons]
    by_cases h : isParamSeg seg = true
    · simp [h, ih]
    · simp [h, ih]

/-! ### the checks -/

theorem hasEmptyParam_false_iff (pp : List (Bytes × Bytes)) :
    hasEmptyParam pp = false ↔ ∀ x ∈ pp, x.2 ≠ [] := by
  simp [hasEmptyParam, List.isEmpty_iff]

theorem dupParam_none_iff (seen : List Bytes) (pp : List (Bytes × Bytes)) :
    dupParam seen pp = none ↔ (pp.map (·.2)).Nodup ∧ ∀ x ∈ pp, x.2 ∉ seen := by
  induction pp generalizing seen with
  | nil => simp [dupParam]
  | cons a r ih =>
    obtain ⟨k, n⟩ := a
    unfold dupParam
    by_cases hc : seen.contains n = true
    · rw [if_pos hc]
      have hm : n ∈ seen := List.contains_iff_mem.mp hc
      constructor
      · intro h; cases h
      · intro h; exact absurd hm (h.2 (k, n) List.mem_cons_self)
    · rw [if_neg hc, ih]
      have hm : n ∉ seen := fun h => hc (List.contains_iff_mem.mpr h)
      rw [List.map_cons, List.nodup_cons]
      constructor
      · rintro ⟨hnd, hall⟩
        refine ⟨⟨?_, hnd⟩, ?_⟩
        · intro hin
          rcases List.mem_map.mp hin with ⟨x, hx, hxe⟩
          have := hall x hx
          apply this
          rw [hxe]; exact List.mem_cons_self
        · intro x hx
          rcases List.mem_cons.mp hx with rfl | hx
          · exact hm
          · intro hxs; exact hall x hx (List.mem_cons_of_mem _ hxs)
      · rintro ⟨⟨hnin, hnd⟩, hall⟩
        refine ⟨hnd, ?_⟩
        intro x hx hxs
        rcases List.mem_cons.mp hxs with h | h
        · apply hnin
          exact List.mem_map.mpr ⟨x, hx, h⟩
        · exact hall x (List.mem_cons_of_mem _ hx) h

theorem dupParam_nil_none_iff (pp : List (Bytes × Bytes)) :
    dupParam [] pp = none ↔ (pp.map (·.2)).Nodup := by
  rw [dupParam_none_iff]; simp

end JSight.C13
