import JSight.Model.Build
import JSight.Proofs.BuildFaith
/-!
Helpers of `Props/C02_Located.lean`: where the diagnostics of the catalog construction (`Model/Build.lean`) are
located.

* `Loc P x`: every error of the computation `x` satisfies `P`; one lemma per `add…` function.
* `IdsIn S c`: every directive id stored in the catalog `c` (`InfoM.id`, `ReqM.id`, `RespM.id`) satisfies `S`;
  preserved by every step whose directive satisfies `S`.
* the entries of `flatAF [] f` only mention directives of `flatF f`.
-/
namespace JSight.C02L
open JSight JSight.Build JSight.Gen JSight.C04B

/-! ### `Loc`: a predicate on the errors of a computation -/

def Loc {α : Type} (P : BErr → Prop) (x : R α) : Prop := ∀ e, x = .error e → P e

theorem Loc.ok {α : Type} {P : BErr → Prop} (a : α) : Loc P (.ok a : R α) := fun _ h => by cases h
theorem Loc.pure {α : Type} {P : BErr → Prop} (a : α) : Loc P (pure a : R α) := fun _ h => by cases h
theorem Loc.err {α : Type} {P : BErr → Prop} {e : BErr} (h : P e) : Loc P (.error e : R α) :=
  fun _ he => by cases he; exact h
theorem Loc.bind {α β : Type} {P : BErr → Prop} {x : R α} {f : α → R β} (hx : Loc P x) (hf : ∀ a, Loc P (f a)) :
    Loc P (x >>= f) := by
  intro e h
  cases x with
  | error e' => cases h; exact hx _ rfl
  | ok a => exact hf a e h
theorem Loc.mono {α : Type} {P Q : BErr → Prop} {x : R α} (h : Loc P x) (hpq : ∀ e, P e → Q e) : Loc Q x :=
  fun e he => hpq e (h e he)
theorem Loc.inr {α : Type} {A Q : BErr → Prop} {x : R α} (h : Loc Q x) : Loc (fun e => A e ∨ Q e) x :=
  h.mono fun _ => Or.inr
theorem Loc.liftAt {α : Type} {P : BErr → Prop} {d : BDir} {x : Except Msg α} (h : ∀ m, P ⟨d.id, m⟩) :
    Loc P (liftAt d x) := by
  intro e he
  cases x with
  | ok a => cases he
  | error m => cases he; exact h m
theorem Loc.checkedParams {P : BErr → Prop} {d : BDir} {p : Bytes} (h : ∀ m, P ⟨d.id, m⟩) :
    Loc P (checkedParams d p) := by
  intro e he
  unfold Build.checkedParams at he
  simp only [fail] at he
  split at he
  · cases he
  · cases he; exact h _
  · cases he; exact h _

/-- close the goal `Loc P x` by walking through `x`: every `fail d m` must satisfy `P` by `rfl` or `Or.inl rfl` -/
macro "loc_step" : tactic => `(tactic| first
  | exact Loc.ok _
  | exact Loc.pure _
  | exact Loc.err rfl
  | exact Loc.err (Or.inl rfl)
  | exact Loc.liftAt (fun _ => rfl)
  | exact Loc.liftAt (fun _ => Or.inl rfl)
  | exact Loc.checkedParams (fun _ => rfl)
  | exact Loc.checkedParams (fun _ => Or.inl rfl)
  | assumption
  | exact (by assumption : ∀ c i, Loc _ (tagsFor c _ _ i)) _ _
  | refine Loc.bind ?_ (fun _ => ?_)
  | split)
macro "loc" : tactic => `(tactic| repeat' loc_step)

/-- located at the directive `n` -/
abbrev At (n : Nat) : BErr → Prop := fun e => e.id = n

theorem addJSight_loc (d : BDir) (c : Cat) : Loc (At d.id) (addJSight d c) := by
  unfold addJSight; simp only [fail]; loc
theorem addInfo_loc (d : BDir) (c : Cat) : Loc (At d.id) (addInfo d c) := by
  unfold addInfo; simp only [fail]; loc
theorem addTitle_loc (d : BDir) (c : Cat) : Loc (At d.id) (addTitle d c) := by
  unfold addTitle; simp only [fail]; loc
theorem addVersion_loc (d : BDir) (c : Cat) : Loc (At d.id) (addVersion d c) := by
  unfold addVersion; simp only [fail]; loc
theorem addDescription_loc (d : BDir) (anc : List Up) (c : Cat) : Loc (At d.id) (addDescription d anc c) := by
  unfold addDescription; simp only [fail]; loc
theorem addServer_loc (d : BDir) (c : Cat) : Loc (At d.id) (addServer d c) := by
  unfold addServer; simp only [fail]; loc
theorem addBaseUrl_loc (d : BDir) (anc : List Up) (c : Cat) : Loc (At d.id) (addBaseUrl d anc c) := by
  unfold addBaseUrl; simp only [fail]; loc
theorem addType_loc (d : BDir) (c : Cat) : Loc (At d.id) (addType d c) := by
  unfold addType; simp only [fail]; loc
theorem addQuery_loc (d : BDir) (anc : List Up) (c : Cat) : Loc (At d.id) (addQuery d anc c) := by
  unfold addQuery; simp only [fail]; loc
theorem addRequestBody_loc (d : BDir) (anc : List Up) (b : BodyM) (c : Cat) :
    Loc (At d.id) (addRequestBody d anc b c) := by
  unfold addRequestBody; simp only [fail]; loc
theorem addRequest_loc (d : BDir) (anc : List Up) (c : Cat) : Loc (At d.id) (addRequest d anc c) := by
  unfold addRequest; simp only [fail]
  have := addRequestBody_loc d anc
  loc
theorem addResponseBody_loc (d : BDir) (anc : List Up) (b : BodyM) (c : Cat) :
    Loc (At d.id) (addResponseBody d anc b c) := by
  unfold addResponseBody; simp only [fail]; loc
theorem addResponse_loc (d : BDir) (anc : List Up) (c : Cat) : Loc (At d.id) (addResponse d anc c) := by
  unfold addResponse; simp only [fail]
  have := addResponseBody_loc d anc
  loc
theorem addHeaders_loc (d : BDir) (anc : List Up) (c : Cat) : Loc (At d.id) (addHeaders d anc c) := by
  unfold addHeaders; simp only [fail]; loc
theorem addProtocol_loc (d : BDir) (anc : List Up) (c : Cat) : Loc (At d.id) (addProtocol d anc c) := by
  unfold addProtocol; simp only [fail]; loc
theorem addRpcSchema_loc (p : Bool) (d : BDir) (anc : List Up) (c : Cat) :
    Loc (At d.id) (addRpcSchema p d anc c) := by
  unfold addRpcSchema; simp only [fail]; loc
theorem tagsFromDirective_loc (c : Cat) (td : BDir) :
    Loc (fun e => e.id = td.id ∧ (e.msg = .tagNotFound ∨ e.msg = .annotationForbidden ∨ e.msg = .required ""))
      (tagsFromDirective c td) := by
  unfold tagsFromDirective; simp only [fail]
  repeat' split
  · exact Loc.err ⟨rfl, .inr (.inl rfl)⟩
  · exact Loc.err ⟨rfl, .inr (.inr rfl)⟩
  · exact Loc.ok _
  · exact Loc.err ⟨rfl, .inl rfl⟩
theorem addTags_loc (d : BDir) (anc : List Up) (c : Cat) : Loc (At d.id) (addTags d anc c) := by
  unfold addTags
  split; · exact Loc.err rfl
  exact Loc.bind ((tagsFromDirective_loc c d).mono fun _ h => h.1) (fun _ => Loc.pure _)

/-! ### the three exceptions -/

/-- `Body` under a parent that carries parameters: the diagnostic is located at the PARENT -/
def ParentLoc (anc : List Up) (e : BErr) : Prop :=
  ∃ p r, anc = p :: r ∧ p.d.named ≠ [] ∧ p.d.kind ≠ .Macro ∧ e.id = p.d.id ∧ e.msg = .parentParameters

/-- a URL whose children mix HTTP and JSON-RPC: the diagnostic is located at the first CHILD of the other family -/
def MixedLoc (kids : List BDir) (e : BErr) : Prop :=
  ∃ k ∈ kids, k.kind ≠ .Tags ∧ e.id = k.id ∧ e.msg = .mixedUrlChildren

/-- a method directive whose tags come from a faulty `Tags` directive — its own child, or a child of the parent
URL —: the diagnostic is located at that `Tags` directive -/
def TagsLoc (kids : List BDir) (anc : List Up) (e : BErr) : Prop :=
  ∃ td, td.kind = .Tags ∧ (td ∈ kids ∨ ∃ p r, anc = p :: r ∧ p.d.kind = .URL ∧ td ∈ p.kids) ∧ e.id = td.id ∧
    (e.msg = .tagNotFound ∨ e.msg = .annotationForbidden ∨ e.msg = .required "")

theorem tagsChild_some {kids : List BDir} {td : BDir} (h : tagsChild kids = some td) : td.kind = .Tags ∧ td ∈ kids := by
  unfold tagsChild at h
  exact ⟨by simpa using List.find?_some h, List.mem_of_find?_eq_some h⟩

theorem tagsFor_loc (c : Cat) (kids : List BDir) (anc : List Up) (i : IId) :
    Loc (TagsLoc kids anc) (tagsFor c kids anc i) := by
  unfold tagsFor
  dsimp only
  split
  · rename_i td htd
    obtain ⟨hk, hm⟩ := tagsChild_some htd
    refine Loc.bind ?_ (fun _ => Loc.pure _)
    exact (tagsFromDirective_loc c td).mono fun e he => ⟨td, hk, .inl hm, he.1, he.2⟩
  · split
    · rename_i td htd
      refine Loc.bind ?_ (fun _ => Loc.pure _)
      refine (tagsFromDirective_loc c td).mono fun e he => ?_
      split at htd
      · rename_i u r
        split at htd
        · rename_i hu
          obtain ⟨hk, hm⟩ := tagsChild_some htd
          exact ⟨td, hk, .inr ⟨u, r, rfl, by simpa using hu, hm⟩, he.1, he.2⟩
        · cases htd
      · cases htd
    · split <;> exact Loc.ok _

theorem mixedChild_some {kids : List BDir} {x : BDir} (h : mixedChild kids = some x) : x ∈ kids ∧ x.kind ≠ .Tags := by
  unfold mixedChild at h
  split at h
  · cases h
  · rename_i b r hf
    have hm : x ∈ kids.filter (·.kind != .Tags) := by
      rw [hf]; exact List.mem_cons_of_mem _ (List.mem_of_find?_eq_some h)
    rw [List.mem_filter] at hm
    exact ⟨hm.1, by simpa using hm.2⟩

theorem addURL_loc (d : BDir) (kids : List BDir) (anc : List Up) (c : Cat) :
    Loc (fun e => e.id = d.id ∨ MixedLoc kids e) (addURL d kids anc c) := by
  unfold addURL; simp only [fail]
  loc
  rename_i x hx
  obtain ⟨hm, hk⟩ := mixedChild_some hx
  exact Loc.err (.inr ⟨x, hm, hk, rfl, rfl⟩)

theorem addHTTPMethod_loc (d : BDir) (kids : List BDir) (anc : List Up) (c : Cat) :
    Loc (fun e => e.id = d.id ∨ TagsLoc kids anc e) (addHTTPMethod d kids anc c) := by
  unfold addHTTPMethod; simp only [fail]
  have := fun c i => (tagsFor_loc c kids anc i).inr (A := fun e => e.id = d.id)
  loc

theorem addJsonRpcMethod_loc (d : BDir) (kids : List BDir) (anc : List Up) (c : Cat) :
    Loc (fun e => e.id = d.id ∨ TagsLoc kids anc e) (addJsonRpcMethod d kids anc c) := by
  unfold addJsonRpcMethod; simp only [fail]
  have := fun c i => (tagsFor_loc c kids anc i).inr (A := fun e => e.id = d.id)
  loc

theorem addBody_loc (d : BDir) (anc : List Up) (c : Cat) :
    Loc (fun e => e.id = d.id ∨ ParentLoc anc e) (addBody d anc c) := by
  unfold addBody; simp only [fail]
  split
  · exact Loc.err (.inl rfl)
  · rename_i p r
    split
    · rename_i h
      simp only [Bool.and_eq_true, Bool.not_eq_true', bne_iff_ne, ne_eq] at h
      exact Loc.err (.inr ⟨p, r, rfl, isEmpty_false_ne h.1, h.2, rfl, rfl⟩)
    · split
      · exact (addRequest_loc d _ c).mono fun _ => Or.inl
      · split
        · exact (addResponse_loc d _ c).mono fun _ => Or.inl
        · exact Loc.ok _

/-- where the diagnostic of one step is located -/
def StepLoc (d : BDir) (kids : List BDir) (anc : List Up) (e : BErr) : Prop :=
  e.id = d.id
  ∨ (d.kind = .Body ∧ ParentLoc anc e)
  ∨ (d.kind = .URL ∧ MixedLoc kids e)
  ∨ ((isHTTP d.kind = true ∨ d.kind = .Method) ∧ TagsLoc kids anc e)

theorem addDirective_loc (banned : List Kind) (d : BDir) (kids : List BDir) (anc : List Up) (c : Cat) :
    Loc (StepLoc d kids anc) (addDirective banned d kids anc c) := by
  unfold addDirective; simp only [fail]
  have at_ : ∀ {x : R Cat}, Loc (At d.id) x → Loc (StepLoc d kids anc) x := fun h => h.mono fun _ => Or.inl
  have http : isHTTP d.kind = true → Loc (StepLoc d kids anc) (addHTTPMethod d kids anc c) := fun hk =>
    (addHTTPMethod_loc d kids anc c).mono fun e he => he.elim .inl fun h => .inr (.inr (.inr ⟨.inl hk, h⟩))
  split
  · exact Loc.err (.inl rfl)
  split
  · exact at_ (addJSight_loc d c)
  · exact at_ (addInfo_loc d c)
  · exact at_ (addTitle_loc d c)
  · exact at_ (addVersion_loc d c)
  · exact at_ (addDescription_loc d anc c)
  · exact at_ (addServer_loc d c)
  · exact at_ (addBaseUrl_loc d anc c)
  · exact at_ (addType_loc d c)
  · rename_i hk
    exact (addURL_loc d kids anc c).mono fun e he => he.elim .inl fun h => .inr (.inr (.inl ⟨hk, h⟩))
  · exact http (by simp [*, isHTTP_iff])
  · exact http (by simp [*, isHTTP_iff])
  · exact http (by simp [*, isHTTP_iff])
  · exact http (by simp [*, isHTTP_iff])
  · exact http (by simp [*, isHTTP_iff])
  · exact at_ (addQuery_loc d anc c)
  · exact at_ (addRequest_loc d anc c)
  · exact at_ (addResponse_loc d anc c)
  · exact at_ (addHeaders_loc d anc c)
  · rename_i hk
    exact (addBody_loc d anc c).mono fun e he => he.elim .inl fun h => .inr (.inl ⟨hk, h⟩)
  · exact at_ (addProtocol_loc d anc c)
  · rename_i hk
    exact (addJsonRpcMethod_loc d kids anc c).mono fun e he =>
      he.elim .inl fun h => .inr (.inr (.inr ⟨.inr hk, h⟩))
  · exact at_ (addRpcSchema_loc true d anc c)
  · exact at_ (addRpcSchema_loc false d anc c)
  · exact at_ (addTags_loc d anc c)
  · exact Loc.ok _

/-! ### the directives an entry of `flatAF [] f` mentions are directives of `flatF f` -/

theorem dir_mem_flat (t : BTree) : t.dir ∈ flat t := by
  cases t with
  | node d kids => simp [BTree.dir, flat]

theorem dir_mem_flatF {f : List BTree} {t : BTree} (h : t ∈ f) : t.dir ∈ flatF f := by
  induction f with
  | nil => cases h
  | cons a r ih =>
    rw [flatF, List.mem_append]
    cases h with
    | head => exact .inl (dir_mem_flat _)
    | tail _ hm => exact .inr (ih hm)

/-- `e` reads only directives of `L`, apart from the ancestors `anc` given from outside -/
def Within (L : List BDir) (anc : List Up) (e : Ent) : Prop :=
  e.d ∈ L ∧ (∀ k ∈ e.kids, k ∈ L) ∧ ∀ p ∈ e.anc, p ∈ anc ∨ (p.d ∈ L ∧ ∀ k ∈ p.kids, k ∈ L)

theorem Within.mono {L L' : List BDir} {anc : List Up} {e : Ent} (h : Within L anc e) (hl : ∀ d ∈ L, d ∈ L') :
    Within L' anc e :=
  ⟨hl _ h.1, fun k hk => hl _ (h.2.1 k hk), fun p hp => (h.2.2 p hp).imp id fun ⟨a, b⟩ => ⟨hl _ a, fun k hk => hl _ (b k hk)⟩⟩

mutual
  theorem flatA_within (anc : List Up) : ∀ (t : BTree), ∀ e ∈ flatA anc t, Within (flat t) anc e
    | .node d kids => by
      intro e he
      rw [flatA, List.mem_cons] at he
      have hkids : ∀ k ∈ kids.map BTree.dir, k ∈ flat (.node d kids) := by
        intro k hk
        rw [List.mem_map] at hk
        obtain ⟨t, ht, rfl⟩ := hk
        rw [flat]; exact List.mem_cons_of_mem _ (dir_mem_flatF ht)
      rcases he with rfl | he
      · exact ⟨by simp [flat], hkids, fun p hp => .inl hp⟩
      · have ih := flatAF_within (⟨d, kids.map BTree.dir⟩ :: anc) kids e he
        refine ⟨?_, ?_, ?_⟩
        · rw [flat]; exact List.mem_cons_of_mem _ ih.1
        · intro k hk; rw [flat]; exact List.mem_cons_of_mem _ (ih.2.1 k hk)
        · intro p hp
          rcases ih.2.2 p hp with hin | ⟨a, b⟩
          · rw [List.mem_cons] at hin
            rcases hin with rfl | hin
            · exact .inr ⟨by simp [flat], hkids⟩
            · exact .inl hin
          · refine .inr ⟨?_, ?_⟩
            · rw [flat]; exact List.mem_cons_of_mem _ a
            · intro k hk; rw [flat]; exact List.mem_cons_of_mem _ (b k hk)
  theorem flatAF_within (anc : List Up) : ∀ (f : List BTree), ∀ e ∈ flatAF anc f, Within (flatF f) anc e
    | [] => by intro e he; simp [flatAF] at he
    | t :: r => by
      intro e he
      rw [flatAF, List.mem_append] at he
      rcases he with he | he
      · exact (flatA_within anc t e he).mono fun d hd => by rw [flatF]; exact List.mem_append_left _ hd
      · exact (flatAF_within anc r e he).mono fun d hd => by rw [flatF]; exact List.mem_append_right _ hd
end

/-- the diagnostic of a step on an entry that reads only directives of `L` is located at a directive of `L` -/
theorem step_error_within {banned : List Kind} {L : List BDir} {en : Ent} {c : Cat} {e : BErr}
    (hw : Within L [] en) (h : step banned en c = .error e) : ∃ d ∈ L, d.id = e.id := by
  obtain ⟨hd, hk, ha⟩ := hw
  rcases addDirective_loc banned en.d en.kids en.anc c e h with h | ⟨_, p, r, hanc, _, _, hid, _⟩ |
    ⟨_, k, hkm, _, hid, _⟩ | ⟨_, td, _, hin | ⟨p, r, hanc, _, hin⟩, hid, _⟩
  · exact ⟨_, hd, h.symm⟩
  · rcases ha p (by rw [hanc]; exact List.mem_cons_self ..) with h | h
    · cases h
    · exact ⟨_, h.1, hid.symm⟩
  · exact ⟨_, hk k hkm, hid.symm⟩
  · exact ⟨_, hk td hin, hid.symm⟩
  · rcases ha p (by rw [hanc]; exact List.mem_cons_self ..) with h | h
    · cases h
    · exact ⟨_, h.2 td hin, hid.symm⟩

theorem run_error {banned : List Kind} : ∀ (l : List Ent) (c : Cat) (e : BErr), run banned l c = .error e →
    ∃ en ∈ l, ∃ c', step banned en c' = .error e
  | [], c, e, h => by simp [run] at h
  | a :: r, c, e, h => by
    simp only [run] at h
    cases hs : step banned a c with
    | error x =>
      simp only [hs] at h
      cases h
      exact ⟨a, List.mem_cons_self .., c, hs⟩
    | ok c₁ =>
      simp only [hs] at h
      obtain ⟨en, hen, c', h'⟩ := run_error r c₁ e h
      exact ⟨en, List.mem_cons_of_mem _ hen, c', h'⟩

/-! ### the stages before `addForest` -/

theorem collectTags_loc : ∀ (f : List BTree) (c : Cat) (e : BErr), collectTags f c = .error e →
    ∃ t ∈ f, t.dir.id = e.id
  | [], c, e, h => by simp [collectTags] at h
  | t :: r, c, e, h => by
    unfold collectTags at h
    simp only [fail] at h
    have tl : ∀ {c'}, collectTags r c' = .error e → ∃ t' ∈ t :: r, t'.dir.id = e.id := fun h' =>
      let ⟨t', ht', hid⟩ := collectTags_loc r _ e h'
      ⟨t', List.mem_cons_of_mem _ ht', hid⟩
    split at h
    · split at h
      · cases h; exact ⟨t, List.mem_cons_self .., rfl⟩
      · split at h
        · cases h; exact ⟨t, List.mem_cons_self .., rfl⟩
        · exact tl h
    · exact tl h

theorem checkTypeNames_loc : ∀ (f : List BTree) (e : BErr), checkTypeNames f = .error e →
    ∃ t ∈ f, t.dir.id = e.id
  | [], e, h => by simp [checkTypeNames] at h
  | t :: r, e, h => by
    unfold checkTypeNames at h
    simp only [fail] at h
    split at h
    · cases h; exact ⟨t, List.mem_cons_self .., rfl⟩
    · obtain ⟨t', ht', hid⟩ := checkTypeNames_loc r e h
      exact ⟨t', List.mem_cons_of_mem _ ht', hid⟩

mutual
  theorem pathsTree_loc (anc : List BDir) : ∀ (t : BTree) (last : List Nat) (e : BErr),
      pathsTree anc t last = .error e → ∃ d ∈ flat t, d.id = e.id
    | .node d kids, last, e, h => by
      have self : ∀ m, (⟨d.id, m⟩ : BErr) = e → ∃ d' ∈ flat (.node d kids), d'.id = e.id := by
        intro m hm; subst hm; exact ⟨d, by simp [flat], rfl⟩
      have sub : ∀ {a l}, pathsForest a kids l = .error e → ∃ d' ∈ flat (.node d kids), d'.id = e.id := by
        intro a l h'
        obtain ⟨d', hd', hid⟩ := pathsForest_loc a kids l e h'
        exact ⟨d', by rw [flat]; exact List.mem_cons_of_mem _ hd', hid⟩
      unfold pathsTree at h
      simp only [fail] at h
      split at h
      · cases h
      split at h
      · split at h
        · exact self _ (by injection h)
        split at h
        · exact self _ (by injection h)
        split at h
        · exact self _ (by injection h)
        split at h
        · rename_i e' he'
          cases h
          have := Loc.checkedParams (P := At d.id) (fun _ => rfl) _ he'
          exact ⟨d, by simp [flat], this.symm⟩
        split at h
        · exact self _ (by injection h)
        split at h
        · exact self _ (by injection h)
        · exact sub h
      · exact sub h
  theorem pathsForest_loc (anc : List BDir) : ∀ (f : List BTree) (last : List Nat) (e : BErr),
      pathsForest anc f last = .error e → ∃ d ∈ flatF f, d.id = e.id
    | [], last, e, h => by simp [pathsForest] at h
    | t :: r, last, e, h => by
      unfold pathsForest at h
      split at h
      · rename_i e' he'
        cases h
        obtain ⟨d', hd', hid⟩ := pathsTree_loc anc t last _ he'
        exact ⟨d', by rw [flatF]; exact List.mem_append_left _ hd', hid⟩
      · obtain ⟨d', hd', hid⟩ := pathsForest_loc anc r _ e h
        exact ⟨d', by rw [flatF]; exact List.mem_append_right _ hd', hid⟩
end

/-! ### the ids stored in the catalog -/

def InterIds (S : Nat → Prop) (x : InterM) : Prop :=
  (∀ q, x.request = some q → S q.id) ∧ ∀ r ∈ x.responses, S r.id

/-- every directive id the catalog stores (`InfoM.id`, `ReqM.id`, `RespM.id`) satisfies `S` -/
structure IdsIn (S : Nat → Prop) (c : Cat) : Prop where
  info : ∀ i, c.info = some i → S i.id
  inters : ∀ x ∈ c.inters, InterIds S x

theorem IdsIn.of_eq {S : Nat → Prop} {c c' : Cat} (h : IdsIn S c) (hi : c'.info = c.info)
    (hx : c'.inters = c.inters) : IdsIn S c' :=
  ⟨fun i h' => h.info i (hi ▸ h'), fun x hm => h.inters x (hx ▸ hm)⟩

theorem IdsIn.updInter {S : Nat → Prop} {c : Cat} (h : IdsIn S c) (i : IId) (g : InterM → InterM)
    (hg : ∀ x ∈ c.inters, InterIds S x → InterIds S (g x)) : IdsIn S (c.updInter i g) := by
  refine ⟨h.info, ?_⟩
  intro y hy
  simp only [Cat.updInter, List.mem_map] at hy
  obtain ⟨x, hx, rfl⟩ := hy
  split
  · exact hg x hx (h.inters x hx)
  · exact h.inters x hx

theorem IdsIn.setInfo {S : Nat → Prop} {c : Cat} (h : IdsIn S c) (i : InfoM) (hi : S i.id) :
    IdsIn S { c with info := some i } :=
  ⟨fun i' h' => by cases h'; exact hi, h.inters⟩

theorem getInter_mem {c : Cat} {i : IId} {x : InterM} (h : c.getInter i = some x) : x ∈ c.inters :=
  List.mem_of_find?_eq_some h

theorem IdsIn.empty {S : Nat → Prop} (ts : List TagM) : IdsIn S { tags := ts } :=
  ⟨fun i h => (by cases h), fun x h => (by cases h)⟩

variable {S : Nat → Prop}

theorem addJSight_ids {d c c'} (hc : IdsIn S c) (h : addJSight d c = .ok c') : IdsIn S c' := by
  unfold addJSight at h
  peel h
  cases h; exact hc.of_eq rfl rfl

theorem addInfo_ids {d c c'} (hd : S d.id) (hc : IdsIn S c) (h : addInfo d c = .ok c') : IdsIn S c' := by
  unfold addInfo at h
  peel h
  cases h; exact hc.setInfo _ hd

theorem addTitle_ids {d c c'} (hc : IdsIn S c) (h : addTitle d c = .ok c') : IdsIn S c' := by
  unfold addTitle at h
  peel h
  rename_i i hi _
  cases h; exact hc.setInfo _ (hc.info i hi)

theorem addVersion_ids {d c c'} (hc : IdsIn S c) (h : addVersion d c = .ok c') : IdsIn S c' := by
  unfold addVersion at h
  peel h
  rename_i i hi _
  cases h; exact hc.setInfo _ (hc.info i hi)

theorem addDescription_ids {d anc c c'} (hc : IdsIn S c) (h : addDescription d anc c = .ok c') : IdsIn S c' := by
  unfold addDescription at h
  simp only [fail] at h
  split at h; · cases h
  split at h; · cases h
  split at h; · cases h
  split at h; · cases h
  split at h; · cases h
  split at h
  · split at h; · cases h
    split at h; · cases h
    rename_i i hi _
    cases h
    exact hc.setInfo _ (hc.info i hi)
  split at h
  · obtain ⟨i, hi, h⟩ := bind_ok h
    split at h; · cases h
    split at h; · cases h
    cases h
    exact hc.updInter _ _ (fun _ _ hx => hx)
  split at h
  · obtain ⟨i, hi, h⟩ := bind_ok h
    split at h; · cases h
    split at h; · cases h
    cases h
    exact hc.updInter _ _ (fun _ _ hx => hx)
  split at h
  · split at h; · cases h
    split at h; · cases h
    cases h
    exact hc.of_eq rfl rfl
  · cases h

theorem addServer_ids {d c c'} (hc : IdsIn S c) (h : addServer d c = .ok c') : IdsIn S c' := by
  unfold addServer at h
  peel h
  cases h; exact hc.of_eq rfl rfl

theorem addBaseUrl_ids {d anc c c'} (hc : IdsIn S c) (h : addBaseUrl d anc c = .ok c') : IdsIn S c' := by
  unfold addBaseUrl at h
  peel h
  cases h; exact hc.of_eq rfl rfl

theorem addType_ids {d c c'} (hc : IdsIn S c) (h : addType d c = .ok c') : IdsIn S c' := by
  unfold addType at h
  simp only [fail] at h
  split at h; · cases h
  split at h; · cases h
  obtain ⟨nt, _, h⟩ := bind_ok h
  split at h; · cases h
  cases h; exact hc.of_eq rfl rfl

theorem addURL_ids {d kids anc c c'} (hc : IdsIn S c) (h : addURL d kids anc c = .ok c') : IdsIn S c' := by
  unfold addURL at h
  simp only [fail] at h
  split at h; · cases h
  obtain ⟨path, hp, h⟩ := bind_ok h
  obtain ⟨pp, _, h⟩ := bind_ok h
  split at h; · cases h
  split at h; · cases h
  split at h; · cases h
  cases h; exact hc.of_eq rfl rfl

theorem IdsIn.addInter {c c₁ : Cat} (hc : IdsIn S c) (hi : c₁.info = c.info) (hx : c₁.inters = c.inters)
    (i : IId) (a : Bytes) (ns : List Bytes) :
    IdsIn S { c₁ with inters := c₁.inters ++ [{ iid := i, annot := a, tags := ns }] } := by
  refine ⟨fun j hj => hc.info j (hi ▸ hj), ?_⟩
  intro x hm
  simp only [List.mem_append, List.mem_singleton] at hm
  rcases hm with hm | rfl
  · exact hc.inters x (hx ▸ hm)
  · exact ⟨fun q hq => (by cases hq), fun r hr => (by cases hr)⟩

theorem addHTTPMethod_ids {d kids anc c c'} (hc : IdsIn S c) (h : addHTTPMethod d kids anc c = .ok c') :
    IdsIn S c' := by
  unfold addHTTPMethod at h
  simp only [fail] at h
  obtain ⟨path, _, h⟩ := bind_ok h
  obtain ⟨pp, _, h⟩ := bind_ok h
  split at h; · cases h
  rename_i sim _
  obtain ⟨i, hi, h⟩ := bind_ok h
  split at h; · cases h
  obtain ⟨⟨ns, c₂⟩, ht, h⟩ := bind_ok h
  obtain ⟨extra, rfl, hex, _⟩ := tagsFor_ok ht
  obtain ⟨g, hg, ha⟩ := attachAll_keep i ns { c with similar := sim, tags := c.tags ++ extra }
  cases h
  simp only [] at ha
  rw [ha]
  refine IdsIn.addInter hc ?_ ?_ _ _ _ <;> rfl

theorem addJsonRpcMethod_ids {d kids anc c c'} (hc : IdsIn S c) (h : addJsonRpcMethod d kids anc c = .ok c') :
    IdsIn S c' := by
  unfold addJsonRpcMethod at h
  simp only [fail] at h
  split at h; · cases h
  split at h; · cases h
  split at h; · cases h
  obtain ⟨i, hi, h⟩ := bind_ok h
  split at h; · cases h
  obtain ⟨⟨ns, c₂⟩, ht, h⟩ := bind_ok h
  obtain ⟨extra, rfl, hex, _⟩ := tagsFor_ok ht
  obtain ⟨g, hg, ha⟩ := attachAll_keep i ns { c with tags := c.tags ++ extra }
  cases h
  simp only [] at ha
  rw [ha]
  refine IdsIn.addInter hc ?_ ?_ _ _ _ <;> rfl

theorem addQuery_ids {d anc c c'} (hc : IdsIn S c) (h : addQuery d anc c = .ok c') : IdsIn S c' := by
  unfold addQuery at h
  simp only [fail] at h
  split at h; · cases h
  split at h; · cases h
  obtain ⟨i, _, h⟩ := bind_ok h
  split at h; · cases h
  split at h; · cases h
  cases h
  exact hc.updInter _ _ (fun _ _ hx => hx)

theorem interIds_request_map {x : InterM} (g : ReqM → ReqM) (hg : ∀ r, (g r).id = r.id) (hx : InterIds S x) :
    InterIds S { x with request := x.request.map g } := by
  refine ⟨?_, hx.2⟩
  intro q hq
  simp only [Option.map_eq_some_iff] at hq
  obtain ⟨r, hr, rfl⟩ := hq
  rw [hg]; exact hx.1 r hr

theorem addRequestBody_ids {d anc b c c'} (hc : IdsIn S c) (h : addRequestBody d anc b c = .ok c') :
    IdsIn S c' := by
  unfold addRequestBody at h
  simp only [fail] at h
  obtain ⟨i, _, h⟩ := bind_ok h
  split at h; · cases h
  split at h; · cases h
  split at h; · cases h
  cases h
  exact hc.updInter _ _ (fun _ _ hx => interIds_request_map _ (fun _ => rfl) hx)

theorem addRequest_tail_ids {d : BDir} {anc : List Up} {b : BodyM} {c₁ c' : Cat} {b1 b2 b3 b4 b5 : Bool} {m : Msg}
    (hc₁ : IdsIn S c₁)
    (h : (if b1 = true then addRequestBody d anc b c₁
          else if b2 = true then addRequestBody d anc b c₁
          else if b3 = true then addRequestBody d anc b c₁
          else if b4 = true then addRequestBody d anc b c₁
          else if b5 = true then (.error ⟨d.id, m⟩ : R Cat) else pure c₁) = .ok c') : IdsIn S c' := by
  repeat' split at h
  any_goals (exact addRequestBody_ids hc₁ h)
  · cases h
  · cases h; exact hc₁

theorem addRequest_ids {d anc c c'} (hd : S d.id) (hc : IdsIn S c) (h : addRequest d anc c = .ok c') :
    IdsIn S c' := by
  unfold addRequest at h
  simp only [fail] at h
  split at h; · cases h
  split at h; · cases h
  obtain ⟨nt, _, h⟩ := bind_ok h
  split at h
  · obtain ⟨i, _, h⟩ := bind_ok h
    split at h
    · split at h
      · obtain ⟨c₁, h₁, _⟩ := bind_ok h
        cases h₁
      · obtain ⟨c₁, h₁, h⟩ := bind_ok h
        cases h₁
        refine addRequest_tail_ids ?_ h
        exact hc.updInter _ _ (fun x _ hx => ⟨fun q hq => by cases hq; exact hd, hx.2⟩)
    · obtain ⟨c₁, h₁, h⟩ := bind_ok h
      cases h₁
      exact addRequest_tail_ids hc h
  · obtain ⟨c₁, h₁, h⟩ := bind_ok h
    cases h₁
    exact addRequest_tail_ids hc h

theorem mem_dropLast {α : Type} {a : α} : ∀ {l : List α}, a ∈ l.dropLast → a ∈ l
  | [], h => by simp at h
  | [_], h => by simp at h
  | x :: y :: r, h => by
    rw [List.dropLast_cons_cons, List.mem_cons] at h
    rcases h with rfl | h
    · exact List.mem_cons_self ..
    · exact List.mem_cons_of_mem _ (mem_dropLast h)

theorem interIds_last {x : InterM} {r : RespM} (g : RespM → RespM) (hg : (g r).id = r.id) (hr : S r.id)
    (hx : InterIds S x) : InterIds S { x with responses := x.responses.dropLast ++ [g r] } := by
  refine ⟨hx.1, ?_⟩
  intro q hq
  simp only [List.mem_append, List.mem_singleton] at hq
  rcases hq with hq | rfl
  · exact hx.2 q (mem_dropLast hq)
  · rw [hg]; exact hr

theorem addResponseBody_ids {d anc b c c'} (hc : IdsIn S c) (h : addResponseBody d anc b c = .ok c') :
    IdsIn S c' := by
  unfold addResponseBody at h
  simp only [fail] at h
  obtain ⟨i, _, h⟩ := bind_ok h
  split at h; · cases h
  rename_i x hx
  split at h; · cases h
  rename_i r hr
  split at h; · cases h
  cases h
  have hr' : S r.id := (hc.inters x (getInter_mem hx)).2 r (List.mem_of_getLast? hr)
  exact hc.updInter _ _ (fun _ _ hy => interIds_last (fun r => { r with body := some b }) rfl hr' hy)

theorem addResponse_ids {d anc c c'} (hd : S d.id) (hc : IdsIn S c) (h : addResponse d anc c = .ok c') :
    IdsIn S c' := by
  unfold addResponse at h
  simp only [fail] at h
  split at h; · cases h
  split at h; · cases h
  obtain ⟨nt, _, h⟩ := bind_ok h
  generalize (d.kind == Kind.Body && _) = clash at h
  split at h; · cases h
  split at h
  · obtain ⟨i, _, h⟩ := bind_ok h
    obtain ⟨c₁, h₁, h⟩ := bind_ok h
    cases h₁
    have hc₁ : IdsIn S (c.updInter i fun x =>
        { x with responses := x.responses ++ [{ id := d.id, code := d.keyword, annot := d.annot }] }) := by
      refine hc.updInter _ _ (fun x _ hx => ⟨hx.1, ?_⟩)
      intro q hq
      simp only [List.mem_append, List.mem_singleton] at hq
      rcases hq with hq | rfl
      · exact hx.2 q hq
      · exact hd
    repeat' split at h
    any_goals (exact addResponseBody_ids hc₁ h)
    · cases h
    · cases h; exact hc₁
  · obtain ⟨c₁, h₁, h⟩ := bind_ok h
    cases h₁
    repeat' split at h
    any_goals (exact addResponseBody_ids hc h)
    · cases h
    · cases h; exact hc

theorem addHeaders_ids {d anc c c'} (hc : IdsIn S c) (h : addHeaders d anc c = .ok c') : IdsIn S c' := by
  unfold addHeaders at h
  simp only [fail] at h
  split at h; · cases h
  split at h; · cases h
  split at h; · cases h
  split at h
  · obtain ⟨i, _, h⟩ := bind_ok h
    split at h; · cases h
    split at h; · cases h
    split at h; · cases h
    cases h
    exact hc.updInter _ _ (fun _ _ hx => interIds_request_map _ (fun _ => rfl) hx)
  split at h
  · obtain ⟨i, _, h⟩ := bind_ok h
    split at h; · cases h
    rename_i x hx
    split at h; · cases h
    rename_i r hr
    split at h; · cases h
    cases h
    have hr' : S r.id := (hc.inters x (getInter_mem hx)).2 r (List.mem_of_getLast? hr)
    exact hc.updInter _ _ (fun _ _ hy => interIds_last (fun r => { r with headers := true }) rfl hr' hy)
  · cases h

theorem addBody_ids {d anc c c'} (hd : S d.id) (hc : IdsIn S c) (h : addBody d anc c = .ok c') : IdsIn S c' := by
  unfold addBody at h
  simp only [fail] at h
  split at h; · cases h
  split at h; · cases h
  split at h; · exact addRequest_ids hd hc h
  split at h; · exact addResponse_ids hd hc h
  cases h; exact hc

theorem addRpcSchema_ids {p d anc c c'} (hc : IdsIn S c) (h : addRpcSchema p d anc c = .ok c') : IdsIn S c' := by
  unfold addRpcSchema at h
  simp only [fail] at h
  split at h; · cases h
  split at h; · cases h
  obtain ⟨i, _, h⟩ := bind_ok h
  split at h; · cases h
  split at h
  · split at h; · cases h
    cases h
    exact hc.updInter _ _ (fun _ _ hx => hx)
  · split at h; · cases h
    cases h
    exact hc.updInter _ _ (fun _ _ hx => hx)

theorem addProtocol_ids {d anc c c'} (hc : IdsIn S c) (h : addProtocol d anc c = .ok c') : IdsIn S c' := by
  unfold addProtocol at h
  peel h
  cases h; exact hc.of_eq rfl rfl

/-- a step on a directive whose id satisfies `S` keeps the ids of the catalog in `S` -/
theorem step_ids {banned : List Kind} {en : Ent} {c c' : Cat} (hd : S en.d.id) (hc : IdsIn S c)
    (h : step banned en c = .ok c') : IdsIn S c' := by
  obtain ⟨d, kids, anc⟩ := en
  unfold step addDirective at h
  simp only [fail] at h
  split at h; · cases h
  split at h
  · exact addJSight_ids hc h
  · exact addInfo_ids hd hc h
  · exact addTitle_ids hc h
  · exact addVersion_ids hc h
  · exact addDescription_ids hc h
  · exact addServer_ids hc h
  · exact addBaseUrl_ids hc h
  · exact addType_ids hc h
  · exact addURL_ids hc h
  · exact addHTTPMethod_ids hc h
  · exact addHTTPMethod_ids hc h
  · exact addHTTPMethod_ids hc h
  · exact addHTTPMethod_ids hc h
  · exact addHTTPMethod_ids hc h
  · exact addQuery_ids hc h
  · exact addRequest_ids hd hc h
  · exact addResponse_ids hd hc h
  · exact addHeaders_ids hc h
  · exact addBody_ids hd hc h
  · exact addProtocol_ids hc h
  · exact addJsonRpcMethod_ids hc h
  · exact addRpcSchema_ids hc h
  · exact addRpcSchema_ids hc h
  · rw [addTags_ok h]; exact hc
  · cases h; exact hc

theorem run_ids {banned : List Kind} (l : List Ent) (hl : ∀ en ∈ l, S en.d.id) {c c' : Cat} (hc : IdsIn S c)
    (h : run banned l c = .ok c') : IdsIn S c' :=
  run_inv (IdsIn S) l (fun en hen _ _ hc hs => step_ids (hl en hen) hc hs) c c' hc h

/-! ### the stages after `addForest` -/

theorem validateInfo_loc {c : Cat} {e : BErr} (h : validateInfo c = .error e) : ∃ i, c.info = some i ∧ i.id = e.id := by
  unfold validateInfo at h
  split at h
  · rename_i i hi
    split at h
    · cases h; exact ⟨i, hi, rfl⟩
    · cases h
  · cases h

theorem validateRequestBody_loc : ∀ (l : List InterM) (e : BErr), validateRequestBody l = .error e →
    ∃ x ∈ l, ∃ q, x.request = some q ∧ q.id = e.id
  | [], e, h => by simp [validateRequestBody] at h
  | x :: r, e, h => by
    have tl : validateRequestBody r = .error e → ∃ y ∈ x :: r, ∃ q, y.request = some q ∧ q.id = e.id := fun h' =>
      let ⟨y, hy, hq⟩ := validateRequestBody_loc r e h'
      ⟨y, List.mem_cons_of_mem _ hy, hq⟩
    unfold validateRequestBody at h
    split at h
    · rename_i q hq
      split at h
      · cases h; exact ⟨x, List.mem_cons_self .., q, hq, rfl⟩
      · exact tl h
    · exact tl h

theorem firstBodyless_mem : ∀ (l : List RespM) (q : RespM), firstBodyless l = some q → q ∈ l
  | [], q, h => by simp [firstBodyless] at h
  | r :: rest, q, h => by
    unfold firstBodyless at h
    split at h
    · cases h; exact List.mem_cons_self ..
    · exact List.mem_cons_of_mem _ (firstBodyless_mem rest q h)

theorem validateResponseBody_loc : ∀ (l : List InterM) (e : BErr), validateResponseBody l = .error e →
    ∃ x ∈ l, ∃ q ∈ x.responses, q.id = e.id
  | [], e, h => by simp [validateResponseBody] at h
  | x :: r, e, h => by
    unfold validateResponseBody at h
    split at h
    · rename_i q hq
      cases h
      exact ⟨x, List.mem_cons_self .., q, firstBodyless_mem _ _ hq, rfl⟩
    · obtain ⟨y, hy, hq⟩ := validateResponseBody_loc r e h
      exact ⟨y, List.mem_cons_of_mem _ hy, hq⟩

/-! ### `compile` -/

theorem bind_err {α β : Type} {x : R α} {f : α → R β} {e : BErr} (h : x >>= f = .error e) :
    x = .error e ∨ ∃ a, x = .ok a ∧ f a = .error e := by
  cases x with
  | error e' => cases h; exact .inl rfl
  | ok a => exact .inr ⟨a, rfl, h⟩

theorem compile_located {banned : List Kind} {f : List BTree} {e : BErr} (h : compile banned f = .error e) :
    ∃ d ∈ flatF f, d.id = e.id := by
  have top : ∀ {t}, t ∈ f → ∀ {n}, t.dir.id = n → ∃ d ∈ flatF f, d.id = n :=
    fun ht _ hn => ⟨_, dir_mem_flatF ht, hn⟩
  unfold compile at h
  rcases bind_err h with h | ⟨c₀, h0, h⟩
  · obtain ⟨t, ht, hid⟩ := collectTags_loc f _ e h
    exact top ht hid
  rcases bind_err h with h | ⟨⟨⟩, _, h⟩
  · obtain ⟨t, ht, hid⟩ := checkTypeNames_loc f e h
    exact top ht hid
  rcases bind_err h with h | ⟨x, _, h⟩
  · exact pathsForest_loc [] f [] e h
  have key : (∃ t r, f = t :: r ∧ t.dir.id = e.id) ∨
      (do let c ← addForest banned [] f c₀
          validateInfo c
          validateRequestBody c.inters
          validateResponseBody c.inters
          pure c) = Except.error e := by
    dsimp only at h
    split at h
    · split at h
      · rcases bind_err h with h' | ⟨_, h', _⟩
        · simp only [fail] at h'
          cases h'
          exact .inl ⟨_, _, rfl, rfl⟩
        · cases h'
      · exact .inr h
    · exact .inr h
  rcases key with ⟨t, r, rfl, hid⟩ | h
  · exact top (List.mem_cons_self ..) hid
  have hwithin := flatAF_within [] f
  have hS : ∀ en ∈ flatAF [] f, (fun n => ∃ d ∈ flatF f, d.id = n) en.d.id :=
    fun en hen => ⟨en.d, (hwithin en hen).1, rfl⟩
  have h00 : IdsIn (fun n => ∃ d ∈ flatF f, d.id = n) c₀ := by
    rw [collectTags_empty h0]; exact IdsIn.empty _
  rcases bind_err h with h | ⟨c, hr, h⟩
  · rw [addForest_eq_run] at h
    obtain ⟨en, hen, c', hs⟩ := run_error _ _ _ h
    exact step_error_within (hwithin en hen) hs
  rw [addForest_eq_run] at hr
  have hc := run_ids _ hS h00 hr
  rcases bind_err h with h | ⟨⟨⟩, _, h⟩
  · obtain ⟨i, hi, hid⟩ := validateInfo_loc h
    rw [← hid]; exact hc.info i hi
  rcases bind_err h with h | ⟨⟨⟩, _, h⟩
  · obtain ⟨x, hx, q, hq, hid⟩ := validateRequestBody_loc _ _ h
    rw [← hid]; exact (hc.inters x hx).1 q hq
  rcases bind_err h with h | ⟨⟨⟩, _, h⟩
  · obtain ⟨x, hx, q, hq, hid⟩ := validateResponseBody_loc _ _ h
    rw [← hid]; exact (hc.inters x hx).2 q hq
  cases h

/-! ### duplicates are reported at the second occurrence -/

/-- the entry at position `j` fails in the state reached by the entries before it: so does the whole run -/
theorem run_take_fail {banned : List Kind} : ∀ (l : List Ent) (j : Nat) (e₂ : Ent) (c₀ c : Cat) (err : BErr),
    l[j]? = some e₂ → run banned (l.take j) c₀ = .ok c → step banned e₂ c = .error err →
    run banned l c₀ = .error err
  | [], j, _, _, _, _, hj, _, _ => by simp at hj
  | a :: r, 0, e₂, c₀, c, err, hj, hpre, hs => by
    simp only [List.getElem?_cons_zero, Option.some.injEq] at hj
    subst hj
    simp only [List.take_zero, run, Except.ok.injEq] at hpre
    subst hpre
    simp only [run, hs]
  | a :: r, j + 1, e₂, c₀, c, err, hj, hpre, hs => by
    simp only [List.getElem?_cons_succ] at hj
    simp only [List.take_succ_cons, run] at hpre ⊢
    cases hsa : step banned a c₀ with
    | error x => simp [hsa] at hpre
    | ok c₁ =>
      simp only [hsa] at hpre ⊢
      exact run_take_fail r j e₂ c₁ c err hj hpre hs

/-- a member of class `E` sets a mark that persists -/
theorem run_sets {banned : List Kind} (E : Ent → Prop) (Mark : Cat → Prop)
    (hset : ∀ e c c', E e → step banned e c = .ok c' → Mark c')
    (hkeep : ∀ e c c', Mark c → step banned e c = .ok c' → Mark c') :
    ∀ (l : List Ent) (c₀ c : Cat) (e₁ : Ent), e₁ ∈ l → E e₁ → run banned l c₀ = .ok c → Mark c
  | [], _, _, _, hm, _, _ => by cases hm
  | a :: r, c₀, c, e₁, hm, hE, h => by
    simp only [run] at h
    cases hs : step banned a c₀ with
    | error x => simp [hs] at h
    | ok c₁ =>
      simp only [hs] at h
      cases hm with
      | head => exact run_inv Mark r (fun e _ c c' => hkeep e c c') c₁ c (hset _ _ _ hE hs) h
      | tail _ hm => exact run_sets E Mark hset hkeep r c₁ c e₁ hm hE h

theorem mem_take_of_lt {α : Type} {l : List α} {i j : Nat} {a : α} (hij : i < j) (h : l[i]? = some a) :
    a ∈ l.take j := by
  apply List.mem_of_getElem? (i := i)
  rw [List.getElem?_take]
  simp [hij, h]

/-- what a successful step tells about its directive -/
theorem step_facts {banned : List Kind} {e : Ent} {c c' : Cat} (h : step banned e c = .ok c') :
    banned.contains e.d.kind = false ∧ ∀ p, requiredParam e.d.kind = some p → e.d.param p ≠ [] := by
  refine ⟨?_, fun p hp hm => step_missing hp hm c c' h⟩
  have := (step_ok h).1
  simpa using this

theorem step_type_dup {banned : List Kind} {e : Ent} {c : Cat} (hk : e.d.kind = .Type)
    (hb : banned.contains Kind.Type = false) (hn : e.d.param "Name" ≠ [])
    (hm : ∃ t ∈ c.types, t.name = e.d.param "Name") : step banned e c = .error ⟨e.d.id, .duplicateNames⟩ := by
  obtain ⟨d, kids, anc⟩ := e
  obtain ⟨t, ht, htn⟩ := hm
  have hany : (c.types.any fun x => x.name == d.param "Name") = true :=
    List.any_eq_true.mpr ⟨t, ht, by simpa using htn⟩
  have hne : (d.param "Name").isEmpty = false := by
    cases hp : d.param "Name" with
    | nil => exact absurd hp hn
    | cons _ _ => rfl
  have hk' : d.kind = .Type := hk
  unfold step addDirective
  dsimp only
  rw [hk', hb]
  simp only [Bool.false_eq_true, if_false]
  unfold addType
  simp [fail, hne, hany]

theorem step_server_dup {banned : List Kind} {e : Ent} {c : Cat} (hk : e.d.kind = .Server)
    (hb : banned.contains Kind.Server = false) (hn : e.d.param "Name" ≠ [])
    (hm : ∃ t ∈ c.servers, t.name = e.d.param "Name") : step banned e c = .error ⟨e.d.id, .duplicateNames⟩ := by
  obtain ⟨d, kids, anc⟩ := e
  obtain ⟨t, ht, htn⟩ := hm
  have hany : (c.servers.any fun x => x.name == d.param "Name") = true :=
    List.any_eq_true.mpr ⟨t, ht, by simpa using htn⟩
  have hne : (d.param "Name").isEmpty = false := by
    cases hp : d.param "Name" with
    | nil => exact absurd hp hn
    | cons _ _ => rfl
  have hk' : d.kind = .Server := hk
  unfold step addDirective
  dsimp only
  rw [hk', hb]
  simp only [Bool.false_eq_true, if_false]
  unfold addServer
  simp [fail, hne, hany]

/-- a failing fold makes `compile` fail with the same diagnostic, when the stages before the fold pass -/
theorem compile_run_error {banned : List Kind} {f : List BTree} {c₀ : Cat} {x : List Nat} {err : BErr}
    (h0 : collectTags f {} = .ok c₀) (h1 : checkTypeNames f = .ok ()) (h2 : pathsForest [] f [] = .ok x)
    (h3 : ∀ t r, f = t :: r → t.dir.kind = .Jsight) (hr : run banned (flatAF [] f) c₀ = .error err) :
    compile banned f = .error err := by
  unfold compile
  rw [← addForest_eq_run] at hr
  simp only [h0, h1, h2, hr, bind, Except.bind]
  cases f with
  | nil => rfl
  | cons t r => simp [h3 t r rfl]

theorem dup_type_run {banned : List Kind} {l : List Ent} {c₀ c : Cat} {i j : Nat} {e₁ e₂ : Ent} (hij : i < j)
    (he₁ : l[i]? = some e₁) (he₂ : l[j]? = some e₂) (k₁ : e₁.d.kind = .Type) (k₂ : e₂.d.kind = .Type)
    (hn : e₁.d.param "Name" = e₂.d.param "Name") (hpre : run banned (l.take j) c₀ = .ok c) :
    run banned l c₀ = .error ⟨e₂.d.id, .duplicateNames⟩ := by
  have hmem := mem_take_of_lt hij he₁
  have hf := run_all (fun e => banned.contains e.d.kind = false ∧ ∀ p, requiredParam e.d.kind = some p → e.d.param p ≠ [])
    (fun e c c' hs => step_facts hs) _ _ _ hpre e₁ hmem
  have hmark := run_sets (fun e => e.d.kind = .Type ∧ e.d.param "Name" = e₁.d.param "Name")
    (fun c => ∃ t ∈ c.types, t.name = e₁.d.param "Name")
    (fun e c c' ⟨hk, hp⟩ hs => by rw [← hp]; exact (stepR_type (step_ok hs).2 hk).2)
    (fun e c c' hm hs => (stepR_mono (step_ok hs).2).1 _ hm)
    _ _ _ e₁ hmem ⟨k₁, rfl⟩ hpre
  refine run_take_fail l j e₂ c₀ c _ he₂ hpre (step_type_dup k₂ ?_ ?_ ?_)
  · rw [← k₁]; exact hf.1
  · rw [← hn]; exact hf.2 "Name" (by rw [k₁]; rfl)
  · rw [← hn]; exact hmark

theorem dup_server_run {banned : List Kind} {l : List Ent} {c₀ c : Cat} {i j : Nat} {e₁ e₂ : Ent} (hij : i < j)
    (he₁ : l[i]? = some e₁) (he₂ : l[j]? = some e₂) (k₁ : e₁.d.kind = .Server) (k₂ : e₂.d.kind = .Server)
    (hn : e₁.d.param "Name" = e₂.d.param "Name") (hpre : run banned (l.take j) c₀ = .ok c) :
    run banned l c₀ = .error ⟨e₂.d.id, .duplicateNames⟩ := by
  have hmem := mem_take_of_lt hij he₁
  have hf := run_all (fun e => banned.contains e.d.kind = false ∧ ∀ p, requiredParam e.d.kind = some p → e.d.param p ≠ [])
    (fun e c c' hs => step_facts hs) _ _ _ hpre e₁ hmem
  have hmark := run_sets (fun e => e.d.kind = .Server ∧ e.d.param "Name" = e₁.d.param "Name")
    (fun c => ∃ t ∈ c.servers, t.name = e₁.d.param "Name")
    (fun e c c' ⟨hk, hp⟩ hs => by rw [← hp]; exact (stepR_server (step_ok hs).2 hk).2)
    (fun e c c' hm hs => (stepR_mono (step_ok hs).2).2.1 _ hm)
    _ _ _ e₁ hmem ⟨k₁, rfl⟩ hpre
  refine run_take_fail l j e₂ c₀ c _ he₂ hpre (step_server_dup k₂ ?_ ?_ ?_)
  · rw [← k₁]; exact hf.1
  · rw [← hn]; exact hf.2 "Name" (by rw [k₁]; rfl)
  · rw [← hn]; exact hmark

end JSight.C02L
