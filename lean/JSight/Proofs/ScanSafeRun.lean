import JSight.Proofs.ScanSafe
/-!
C01 (scanner part) — run-level proofs, generic in the table and in the certificate: whatever `Cert`
passes `checkInit` and `checkCode` for every state, no run of the scanner model from `Sc.init` ends in a
fault other than an exhausted step budget.
-/
namespace JSight.ScanSafe
open JSight JSight.Gen

/-! ### the selected leaf is among the leaves of its byte class -/
section leaves
variable {S : Type}

theorem select_mem_eof (ev : Cond → Bool) : ∀ t : Code S, t.select 0 ev ∈ leavesEof t
  | .leaf _ _ => by simp [Code.select, leavesEof]
  | .ifB bs t e => by
    simp only [Code.select, leavesEof]
    cases bs.contains 0
    · simpa using select_mem_eof ev e
    · simpa using select_mem_eof ev t
  | .ifC cd t e => by
    simp only [Code.select, leavesEof, List.mem_append]
    cases ev cd
    · exact Or.inr (by simpa using select_mem_eof ev e)
    · exact Or.inl (by simpa using select_mem_eof ev t)

theorem select_mem_nz {c : UInt8} (hc : c ≠ 0) (ev : Cond → Bool) : ∀ t : Code S, t.select c ev ∈ leavesNZ t
  | .leaf _ _ => by simp [Code.select, leavesNZ]
  | .ifB bs t e => by
    simp only [Code.select, leavesNZ, List.mem_append]
    cases hb : bs.contains c
    · exact Or.inr (by simpa using select_mem_nz hc ev e)
    · have hall : bs.all (· == 0) = false := by
        cases h : bs.all (· == 0)
        · rfl
        · exfalso
          rw [List.all_eq_true] at h
          have hm : c ∈ bs := by simpa using hb
          have := h c hm
          exact hc (by simpa using this)
      refine Or.inl ?_
      simp only [hall]
      simpa using select_mem_nz hc ev t
  | .ifC cd t e => by
    simp only [Code.select, leavesNZ, List.mem_append]
    cases ev cd
    · exact Or.inr (by simpa using select_mem_nz hc ev e)
    · exact Or.inl (by simpa using select_mem_nz hc ev t)

theorem select_mem_leavesBy (c : UInt8) (ev : Cond → Bool) (t : Code S) :
    ((c == 0), t.select c ev) ∈ leavesBy t := by
  unfold leavesBy
  rw [List.mem_append]
  by_cases hc : c = 0
  · subst hc
    exact Or.inl (List.mem_map.mpr ⟨_, select_mem_eof ev t, rfl⟩)
  · have : (c == 0) = false := by simpa using hc
    rw [this]
    exact Or.inr (List.mem_map.mpr ⟨_, select_mem_nz hc ev t, rfl⟩)

end leaves

/-! ### the stack requirement -/

/-- `Good nt s stack`: if `s` may pop before pushing, the stack is `t :: rest`, and so on for `t` over `rest` -/
def Good (nt : St → Bool) : St → List St → Prop
  | s, [] => nt s = false
  | s, t :: rest => nt s = true → Good nt t rest

def TopGood (nt : St → Bool) (stk : List St) : Prop := ∃ t rest, stk = t :: rest ∧ Good nt t rest

theorem good_of_nt_false {nt : St → Bool} {s : St} (h : nt s = false) : ∀ stk, Good nt s stk
  | [] => h
  | _ :: _ => fun h' => by rw [h] at h'; cases h'

theorem good_cons {nt : St → Bool} {t : St} {rest : List St} (s : St) (h : Good nt t rest) :
    Good nt s (t :: rest) := fun _ => h

theorem topGood_of_good {nt : St → Bool} {s : St} : ∀ {stk : List St}, Good nt s stk → nt s = true → TopGood nt stk
  | [], h, hn => by rw [show nt s = false from h] at hn; cases hn
  | t :: rest, h, hn => ⟨t, rest, rfl, h hn⟩

theorem good_of_topGood {nt : St → Bool} {stk : List St} (s : St) : TopGood nt stk → Good nt s stk
  | ⟨_, _, e, h⟩ => by subst e; exact good_cons s h

/-! ### concretisation of the abstract execution -/

def conc (orig : List St) : Val → St
  | .known s => s
  | .top0 => orig.headD default

def base (orig : List St) (popped : Bool) : List St := if popped then orig.tail else orig

/-- the configuration that the abstract configuration `a` describes, relative to the configuration `sc0`
at the start of the leaf -/
def concSc (sc0 : Sc) (a : Abs) : Sc :=
  { sc0 with
    step := conc sc0.stack a.reg
    stack := a.pre ++ base sc0.stack a.popped
    finds := sc0.finds ++ a.evs.map (fun p => (p.1, sc0.cur - p.2))
    rew := sc0.rew + a.rew }

theorem concSc_a0 (sc0 : Sc) : concSc sc0 (a0 sc0.step) = sc0 := by
  cases sc0; simp [concSc, a0, conc, base]

theorem absOp_sound {cp : Bool} {sc0 : Sc} {a a' : Abs} {op : Op St}
    (hcp : cp = true → sc0.stack ≠ []) (h : absOp cp a op = some a')
    (hb : ∀ e b, op = .found e b → b ≤ sc0.cur) :
    execOp (concSc sc0 a) op = .ok (concSc sc0 a') := by
  cases op with
  | setStep s => simp only [absOp, Option.some.injEq] at h; subst h; rfl
  | push s => simp only [absOp, Option.some.injEq] at h; subst h; rfl
  | pushCur =>
    simp only [absOp] at h
    cases hr : a.reg with
    | known s => rw [hr] at h; simp only [Option.some.injEq] at h; subst h; simp [execOp, concSc, conc, hr]
    | top0 => rw [hr] at h; cases h
  | popToStep =>
    simp only [absOp] at h
    cases hp : a.pre with
    | cons p pre' =>
      rw [hp] at h; simp only [Option.some.injEq] at h; subst h
      simp [execOp, concSc, conc, hp]
    | nil =>
      rw [hp] at h
      by_cases hc : (cp && !a.popped) = true
      · rw [if_pos hc] at h; simp only [Option.some.injEq] at h; subst h
        simp only [Bool.and_eq_true, Bool.not_eq_true'] at hc
        have hne := hcp hc.1
        cases hs : sc0.stack with
        | nil => exact absurd hs hne
        | cons t rest => simp [execOp, concSc, conc, base, hp, hc.2, hs]
      · rw [if_neg hc] at h; cases h
  | found e b =>
    simp only [absOp, Option.some.injEq] at h; subst h
    have := hb e b rfl
    simp [execOp, concSc, this]
  | rewind n =>
    simp only [absOp, Option.some.injEq] at h; subst h
    simp [execOp, concSc, Nat.add_assoc]

theorem absOps_sound {cp : Bool} {sc0 : Sc} (hcp : cp = true → sc0.stack ≠ []) :
    ∀ (ops : List (Op St)) (a a' : Abs), absOps cp a ops = some a' →
      (∀ e b, Op.found e b ∈ ops → b ≤ sc0.cur) →
      execOps (concSc sc0 a) ops = .ok (concSc sc0 a')
  | [], a, a', h, _ => by simp only [absOps, Option.some.injEq] at h; subst h; rfl
  | op :: r, a, a', h, hb => by
    simp only [absOps] at h
    cases h1 : absOp cp a op with
    | none => rw [h1] at h; cases h
    | some a1 =>
      rw [h1] at h
      have := absOp_sound hcp h1 (fun e b he => hb e b (by rw [he]; exact List.mem_cons_self))
      simp only [execOps, this]
      exact absOps_sound hcp r a1 a' h (fun e b he => hb e b (List.mem_cons_of_mem _ he))

theorem backsOK_sound {bound : Nat} : ∀ {ops : List (Op St)}, backsOK bound ops = true →
    ∀ e b, Op.found e b ∈ ops → b ≤ bound
  | [], _, _, _, hm => by cases hm
  | op :: r, h, e, b, hm => by
    cases op with
    | found e' b' =>
      simp only [backsOK, Bool.and_eq_true, decide_eq_true_eq] at h
      rcases List.mem_cons.mp hm with he | hm'
      · cases he; exact h.1
      · exact backsOK_sound h.2 e b hm'
    | setStep _ | push _ | pushCur | popToStep | rewind _ =>
      simp only [backsOK] at h
      rcases List.mem_cons.mp hm with he | hm'
      · cases he
      · exact backsOK_sound h e b hm'

/-- a register value `top0` only arises when the certificate guarantees a non-empty stack -/
theorem absOps_top0 {cp : Bool} : ∀ (ops : List (Op St)) (a a' : Abs), absOps cp a ops = some a' →
    (a.reg = .top0 → cp = true) → (a'.reg = .top0 → cp = true)
  | [], a, a', h, h0 => by simp only [absOps, Option.some.injEq] at h; subst h; exact h0
  | op :: r, a, a', h, h0 => by
    simp only [absOps] at h
    cases h1 : absOp cp a op with
    | none => rw [h1] at h; cases h
    | some a1 =>
      rw [h1] at h
      refine absOps_top0 r a1 a' h ?_
      cases op with
      | setStep s => simp only [absOp, Option.some.injEq] at h1; subst h1; intro hh; cases hh
      | push s => simp only [absOp, Option.some.injEq] at h1; subst h1; exact h0
      | pushCur =>
        simp only [absOp] at h1
        cases hr : a.reg with
        | known s => rw [hr] at h1; simp only [Option.some.injEq] at h1; subst h1; intro hh; simp at hh
        | top0 => rw [hr] at h1; cases h1
      | popToStep =>
        simp only [absOp] at h1
        cases hp : a.pre with
        | cons p pre' => rw [hp] at h1; simp only [Option.some.injEq] at h1; subst h1; intro hh; cases hh
        | nil =>
          rw [hp] at h1
          by_cases hc : (cp && !a.popped) = true
          · simp only [Bool.and_eq_true] at hc; exact fun _ => hc.1
          · rw [if_neg hc] at h1; cases h1
      | found e b => simp only [absOp, Option.some.injEq] at h1; subst h1; exact h0
      | rewind n => simp only [absOp, Option.some.injEq] at h1; subst h1; exact h0

/-! ### A: the abstract stack check -/

theorem goodK_sound {nt : St → Bool} {cp popped : Bool} {orig : List St} (hcp : cp = true → TopGood nt orig) :
    ∀ (pre : List St) (s : St), goodK nt cp popped s pre = true → Good nt s (pre ++ base orig popped)
  | [], s, h => by
    simp only [goodK, Bool.or_eq_true, Bool.not_eq_true', Bool.and_eq_true] at h
    rcases h with h | ⟨hp, hc⟩
    · exact good_of_nt_false h _
    · simp only [List.nil_append, base, hp]
      exact good_of_topGood s (hcp hc)
  | p :: pre, s, h => by
    simp only [goodK, Bool.or_eq_true, Bool.not_eq_true'] at h
    rcases h with h | h
    · exact good_of_nt_false h _
    · exact good_cons s (goodK_sound hcp pre p h)

theorem goodAbs_sound {nt : St → Bool} {cp popped : Bool} {orig : List St} (hcp : cp = true → TopGood nt orig)
    (v : Val) (pre : List St) (h : goodAbs nt cp popped v pre = true) :
    Good nt (conc orig v) (pre ++ base orig popped) := by
  cases v with
  | known s => exact goodK_sound hcp pre s h
  | top0 =>
    cases pre with
    | nil =>
      simp only [goodAbs, Bool.and_eq_true] at h
      obtain ⟨t, rest, e, hg⟩ := hcp h.2
      subst e
      simpa [conc, base, h.1] using hg
    | cons p pre => exact good_cons _ (goodK_sound hcp pre p h)

/-! ### B: the events -/

/-- `processEvent` over the event types only: the stack of open Begin events after the queue is processed
(`none`: an End meets an empty stack or the wrong Begin) -/
def evSim : List Ev → List Ev → Option (List Ev)
  | stk, [] => some stk
  | stk, e :: q =>
    if e.isBeginning then evSim (e :: stk) q
    else if e.isEnding then
      match stk with
      | [] => none
      | b :: stk' => if b.matches e then evSim stk' q else none
    else evSim stk q

theorem evSim_append : ∀ (q1 : List Ev) (stk : List Ev) (q2 : List Ev),
    evSim stk (q1 ++ q2) = (evSim stk q1).bind (fun s => evSim s q2)
  | [], stk, q2 => by simp [evSim]
  | e :: q1, stk, q2 => by
    simp only [List.cons_append, evSim]
    by_cases hb : e.isBeginning = true
    · simp only [hb, if_true]; exact evSim_append q1 _ q2
    · simp only [hb]
      by_cases he : e.isEnding = true
      · simp only [he, if_true]
        cases stk with
        | nil => rfl
        | cons b stk' =>
          simp only
          by_cases hm : b.matches e = true
          · simp only [hm, if_true]; exact evSim_append q1 _ q2
          · simp only [hm]; rfl
      · simp only [he]; exact evSim_append q1 _ q2

theorem absEv_sound : ∀ (es : List Ev) (o o' : Option Ev), absEv o es = some o' →
    evSim o.toList es = some o'.toList
  | [], o, o', h => by simp only [absEv, Option.some.injEq] at h; subst h; rfl
  | e :: es, o, o', h => by
    simp only [absEv] at h
    simp only [evSim]
    by_cases hb : e.isBeginning = true
    · simp only [hb, if_true] at h ⊢
      cases o with
      | none => exact absEv_sound es _ _ h
      | some b => cases h
    · simp only [hb] at h ⊢
      by_cases he : e.isEnding = true
      · simp only [he, if_true] at h ⊢
        cases o with
        | none => cases h
        | some b =>
          simp only [Option.toList] at h ⊢
          by_cases hm : b.matches e = true
          · simp only [hm, if_true] at h ⊢; exact absEv_sound es _ _ h
          · simp only [hm] at h; cases h
      · simp only [he] at h ⊢
        exact absEv_sound es _ _ h

/-- the stack of open events after the queued events are processed -/
def EvS (sc : Sc) : Option (List Ev) := evSim (sc.evStack.map (·.1)) (sc.finds.map (·.1))

theorem EvS_append {sc1 sc2 : Sc} {l : List (Ev × Nat)} (h1 : sc2.evStack = sc1.evStack)
    (h2 : sc2.finds = sc1.finds ++ l) : EvS sc2 = (EvS sc1).bind (fun s => evSim s (l.map (·.1))) := by
  simp only [EvS, h1, h2, List.map_append, evSim_append]

/-! ### the invariants -/

/-- a fault other than an exhausted step budget is excluded -/
def Benign (s : Stop) : Prop := ∀ f, s = .fault f → f = .fuel

theorem benign_diag (i : Nat) : Benign (.diag i) := fun _ h => by cases h
theorem benign_miss (b : Bool) (i : Nat) : Benign (.oracleMiss b i) := fun _ h => by cases h
theorem benign_fuel : Benign (.fault .fuel) := fun _ h => by cases h; rfl

/-- every state on the step stack has no outstanding event and requires at most `srq` -/
def StackOK (C : Cert) (stk : List St) : Prop := ∀ x ∈ stk, C.oe x = none ∧ C.rq x ≤ C.srq

/-- the certificate is valid for the table -/
structure Valid (C : Cert) : Prop where
  init : checkInit C = true
  code : ∀ st, checkCode C st (code st) = true

/-- while the code of `st` runs on the current byte -/
structure InvI (C : Cert) (st : St) (sc : Sc) : Prop where
  regs : sc.step ∈ C.regs st
  goodSt : Good C.nt st sc.stack
  goodReg : Good C.nt sc.step sc.stack
  stk : StackOK C sc.stack
  ev : EvS sc = some (C.oe st).toList
  oeReg : C.oe sc.step = C.oe st
  rqSt : C.rq st ≤ sc.cur
  rqReg : C.rq sc.step ≤ sc.cur
  rew : sc.rew = 0

/-- between two byte steps -/
structure Live (C : Cert) (sc : Sc) : Prop where
  good : Good C.nt sc.step sc.stack
  stk : StackOK C sc.stack
  ev : EvS sc = some (C.oe sc.step).toList
  rq : C.rq sc.step ≤ sc.cur
  rew : sc.rew = 0

/-- after the end-of-file byte is consumed no byte step follows; the queued events are still consistent -/
def Dead (d : Src) (sc : Sc) : Prop := d.size < sc.cur ∧ (EvS sc).isSome = true

def Inv (C : Cert) (d : Src) (sc : Sc) : Prop := Live C sc ∨ Dead d sc

/-- after the step function(s) of one byte, before `curIndex++` and the pending rewind -/
structure Post (C : Cert) (d : Src) (sc : Sc) : Prop where
  good : Good C.nt sc.step sc.stack
  stk : StackOK C sc.stack
  rq : C.rq sc.step + sc.rew ≤ sc.cur + 1
  ev : EvS sc = some (C.oe sc.step).toList ∨ (d.size ≤ sc.cur ∧ sc.rew = 0 ∧ (EvS sc).isSome = true)

theorem val_facts (C : Cert) {orig : List St} (hstk : StackOK C orig) {v : Val}
    (htop : v = .top0 → TopGood C.nt orig) :
    C.oe (conc orig v) = oeVal C.oe v ∧ C.rq (conc orig v) ≤ rqVal C.rq C.srq v := by
  cases v with
  | known s => exact ⟨rfl, Nat.le_refl _⟩
  | top0 =>
    obtain ⟨t, rest, e, _⟩ := htop rfl
    subst e
    have := hstk t List.mem_cons_self
    exact ⟨this.1, this.2⟩

theorem interp_succ (d : Src) (o : Oracle) (c : UInt8) (fuel : Nat) (st : St) (sc : Sc) :
    interp d o c (fuel + 1) st sc =
      match execOps sc ((code st).select c (evalCond d sc)).1 with
      | .error f => .error (.fault f)
      | .ok sc' =>
        match ((code st).select c (evalCond d sc)).2 with
        | .done => .ok sc'
        | .err => .error (.diag sc'.cur)
        | .call s' => interp d o c fuel s' sc'
        | .redispatch => interp d o c fuel sc'.step sc'
        | .jschema => libBody sc' .schemaBegin (o.schemaLen sc'.cur) .stateSchemaClosed (c != 0)
        | .enumBody => libBody sc' .enumBegin (o.enumLen sc'.cur) .stateEnumBodyClose false := by
  rw [interp]
  generalize Code.select c (evalCond d sc) (code st) = p
  obtain ⟨ops, k⟩ := p
  rfl

theorem libBody_cases (sc : Sc) (b : Ev) (ans : LenAns) (closing : St) (z : Bool) :
    (∃ s, libBody sc b ans closing z = .error s ∧ Benign s) ∨
    (∃ n, libBody sc b ans closing z =
      .ok { sc with finds := sc.finds ++ [(b, sc.cur)], cur := sc.cur + (n - 1), step := closing }) := by
  cases ans with
  | miss => exact Or.inl ⟨_, rfl, benign_miss _ _⟩
  | err pos => exact Or.inl ⟨_, rfl, benign_diag _⟩
  | len n =>
    simp only [libBody]
    by_cases h : (n == 0 && z) = true
    · rw [if_pos h]; exact Or.inl ⟨_, rfl, benign_diag _⟩
    · rw [if_neg h]; exact Or.inr ⟨n, rfl⟩

theorem mem_base {orig : List St} {p : Bool} {x : St} (h : x ∈ base orig p) : x ∈ orig := by
  cases p with
  | false => simpa [base] using h
  | true => exact List.mem_of_mem_tail (by simpa [base] using h)

theorem self_mem_regs {C : Cert} (hV : Valid C) (st : St) : st ∈ C.regs st := by
  have := hV.code st
  simp only [checkCode, Bool.and_eq_true] at this
  simpa using this.1

/-- the library-delimited body leaves the configuration in a state that `Post` describes -/
theorem post_libBody {C : Cert} {d : Src} {sc' : Sc} {b : Ev} {closing : St} {n : Nat}
    (hgood : Good C.nt closing sc'.stack) (hstk : StackOK C sc'.stack)
    (hrq : C.rq closing + sc'.rew ≤ sc'.cur + 1)
    (hev : EvS sc' = some []) (hb : b.isBeginning = true) (hoe : C.oe closing = some b) :
    Post C d { sc' with finds := sc'.finds ++ [(b, sc'.cur)], cur := sc'.cur + (n - 1), step := closing } := by
  refine ⟨hgood, hstk, ?_, Or.inl ?_⟩
  · show C.rq closing + sc'.rew ≤ sc'.cur + (n - 1) + 1
    omega
  · rw [EvS_append (sc1 := sc') (sc2 := { sc' with finds := sc'.finds ++ [(b, sc'.cur)], cur := sc'.cur + (n - 1), step := closing })
      (l := [(b, sc'.cur)]) rfl rfl, hev]
    simp [evSim, hb, hoe]

/-- **one byte**: from the invariant of the running state function, the step function(s) of the byte never
pop an empty stack nor compute a negative position, and re-establish the invariant -/
theorem interp_safe {C : Cert} (hV : Valid C) (d : Src) (o : Oracle) (c : UInt8) :
    ∀ (fuel : Nat) (st : St) (sc : Sc), InvI C st sc → (c = 0 → d.size ≤ sc.cur) →
      match interp d o c fuel st sc with
      | .ok sc' => Post C d sc'
      | .error s => Benign s := by
  intro fuel
  induction fuel with
  | zero => intro st sc _ _; simp only [interp]; exact benign_fuel
  | succ fuel ih =>
    intro st sc hI hc
    have hmem := select_mem_leavesBy c (evalCond d sc) (code st)
    have hcode := hV.code st
    simp only [checkCode, Bool.and_eq_true, List.all_eq_true] at hcode
    have hleaf := hcode.2 sc.step hI.regs _ hmem
    rw [interp_succ]
    generalize (code st).select c (evalCond d sc) = leaf at hleaf ⊢
    obtain ⟨ops, k⟩ := leaf
    simp only [checkLeaf] at hleaf
    cases ha : absOps (C.nt st || C.nt sc.step) (a0 sc.step) ops with
    | none => rw [ha] at hleaf; cases hleaf
    | some a =>
      rw [ha] at hleaf
      simp only [Bool.and_eq_true] at hleaf
      obtain ⟨⟨⟨hA, hB⟩, hC⟩, hR⟩ := hleaf
      have hcpT : (C.nt st || C.nt sc.step) = true → TopGood C.nt sc.stack := by
        intro h
        simp only [Bool.or_eq_true] at h
        rcases h with h | h
        · exact topGood_of_good hI.goodSt h
        · exact topGood_of_good hI.goodReg h
      have hcp : (C.nt st || C.nt sc.step) = true → sc.stack ≠ [] := fun h => by
        obtain ⟨t, r, e, _⟩ := hcpT h; rw [e]; exact List.cons_ne_nil _ _
      simp only [finC, lowC, Bool.and_eq_true] at hC
      obtain ⟨⟨hbk, hlow⟩, hpush⟩ := hC
      have hbacks : ∀ e b, Op.found e b ∈ ops → b ≤ sc.cur :=
        fun e b hm => Nat.le_trans (backsOK_sound hbk e b hm) hI.rqSt
      have hexec : execOps sc ops = .ok (concSc sc a) := by
        have := absOps_sound hcp ops _ _ ha hbacks
        rwa [concSc_a0] at this
      have htop : a.reg = .top0 → TopGood C.nt sc.stack :=
        fun h => hcpT (absOps_top0 ops _ _ ha (by intro h'; simp [a0] at h') h)
      obtain ⟨hoe, hrq⟩ := val_facts C hI.stk htop
      simp only [finB] at hB
      cases hev : absEv (C.oe st) (a.evs.map (·.1)) with
      | none => rw [hev] at hB; cases hB
      | some o' =>
        rw [hev] at hB
        simp only [Bool.and_eq_true, List.all_eq_true] at hB
        obtain ⟨hpreB, hkB⟩ := hB
        simp only [pushC, List.all_eq_true, decide_eq_true_eq] at hpush
        have hstk' : StackOK C (concSc sc a).stack := by
          intro x hx
          have hx' : x ∈ a.pre ++ base sc.stack a.popped := hx
          rcases List.mem_append.mp hx' with hx' | hx'
          · exact ⟨by simpa using hpreB x hx', hpush x hx'⟩
          · exact hI.stk x (mem_base hx')
        have hEv' : EvS (concSc sc a) = some o'.toList := by
          rw [EvS_append (sc1 := sc) (sc2 := concSc sc a) (l := a.evs.map (fun p => (p.1, sc.cur - p.2))) rfl rfl, hI.ev]
          simp only [Option.bind_some, List.map_map]
          exact absEv_sound _ _ _ hev
        have hrew := hI.rew
        have hrqSt := hI.rqSt
        rw [hexec]
        simp only
        cases k with
        | done =>
          simp only [finA] at hA
          simp only [Bool.or_eq_true, Bool.and_eq_true, beq_iff_eq, decide_eq_true_eq] at hkB hlow
          refine ⟨goodAbs_sound hcpT a.reg a.pre hA, hstk', ?_, ?_⟩
          · show C.rq (conc sc.stack a.reg) + (sc.rew + a.rew) ≤ sc.cur + 1
            omega
          · rcases hkB with ⟨hc0, hr0⟩ | hk
            · refine Or.inr ⟨hc hc0, ?_, by rw [hEv']; rfl⟩
              show sc.rew + a.rew = 0
              omega
            · refine Or.inl ?_
              rw [hEv']
              show some o'.toList = some (C.oe (conc sc.stack a.reg)).toList
              rw [hoe, hk]
        | err => exact benign_diag _
        | call s' =>
          simp only [finA, Bool.and_eq_true] at hA
          simp only [Bool.and_eq_true, beq_iff_eq, decide_eq_true_eq] at hkB hlow
          simp only [finR] at hR
          cases hreg : a.reg with
          | top0 => rw [hreg] at hR; cases hR
          | known x =>
            rw [hreg] at hR
            refine ih s' (concSc sc a) ?_ hc
            refine ⟨?_, goodK_sound hcpT a.pre s' hA.2, goodAbs_sound hcpT a.reg a.pre hA.1, hstk', ?_, ?_, ?_, ?_, ?_⟩
            · show conc sc.stack a.reg ∈ C.regs s'
              rw [hreg]; simpa [conc] using hR
            · rw [hEv', hkB.1]
            · show C.oe (conc sc.stack a.reg) = C.oe s'
              rw [hoe, hkB.2, hkB.1]
            · show C.rq s' ≤ sc.cur
              omega
            · show C.rq (conc sc.stack a.reg) ≤ sc.cur
              omega
            · show sc.rew + a.rew = 0
              omega
        | redispatch =>
          simp only [finA] at hA
          simp only [Bool.and_eq_true, beq_iff_eq, decide_eq_true_eq] at hkB hlow
          have hg := goodAbs_sound hcpT a.reg a.pre hA
          refine ih (concSc sc a).step (concSc sc a) ?_ hc
          refine ⟨self_mem_regs hV _, hg, hg, hstk', ?_, rfl, ?_, ?_, ?_⟩
          · rw [hEv']
            show some o'.toList = some (C.oe (conc sc.stack a.reg)).toList
            rw [hoe, hkB]
          · show C.rq (conc sc.stack a.reg) ≤ sc.cur
            omega
          · show C.rq (conc sc.stack a.reg) ≤ sc.cur
            omega
          · show sc.rew + a.rew = 0
            omega
        | jschema =>
          simp only [finA] at hA
          simp only [Bool.and_eq_true, beq_iff_eq, decide_eq_true_eq] at hkB hlow
          rcases libBody_cases (concSc sc a) .schemaBegin (o.schemaLen (concSc sc a).cur) .stateSchemaClosed (c != 0)
            with ⟨s, hs, hb⟩ | ⟨n, hn⟩
          · rw [hs]; exact hb
          · rw [hn]
            refine post_libBody (goodK_sound hcpT a.pre _ hA) hstk' ?_ (by rw [hEv', hkB.1]; rfl) rfl hkB.2
            show C.rq .stateSchemaClosed + (sc.rew + a.rew) ≤ sc.cur + 1
            omega
        | enumBody =>
          simp only [finA] at hA
          simp only [Bool.and_eq_true, beq_iff_eq, decide_eq_true_eq] at hkB hlow
          rcases libBody_cases (concSc sc a) .enumBegin (o.enumLen (concSc sc a).cur) .stateEnumBodyClose false
            with ⟨s, hs, hb⟩ | ⟨n, hn⟩
          · rw [hs]; exact hb
          · rw [hn]
            refine post_libBody (goodK_sound hcpT a.pre _ hA) hstk' ?_ (by rw [hEv', hkB.1]; rfl) rfl hkB.2
            show C.rq .stateEnumBodyClose + (sc.rew + a.rew) ≤ sc.cur + 1
            omega

/-! ### the byte step -/

theorem live_invI {C : Cert} (hV : Valid C) {sc : Sc} (h : Live C sc) : InvI C sc.step sc :=
  ⟨self_mem_regs hV _, h.good, h.good, h.stk, h.ev, rfl, h.rq, h.rq, h.rew⟩

/-- what a scanner operation may return: a configuration that satisfies the invariant, or a stop that is not
a fault (other than the step budget) -/
def SafeSc (C : Cert) (d : Src) : Except Stop Sc → Prop
  | .ok sc => Inv C d sc
  | .error s => Benign s

def Safe (C : Cert) (d : Src) : Except Stop (Option Lexeme × Sc) → Prop
  | .ok p => Inv C d p.2
  | .error s => Benign s

theorem byteStep_safe {C : Cert} (hV : Valid C) (d : Src) (o : Oracle) (sc : Sc) (hL : Live C sc) :
    SafeSc C d (byteStep d o sc) := by
  unfold byteStep
  simp only
  by_cases h0 : (sc.cur != d.size && curByte d sc == 0) = true
  · rw [if_pos h0]; exact benign_diag _
  · rw [if_neg h0]
    have hc : curByte d sc = 0 → d.size ≤ sc.cur := by
      intro hz
      simp only [hz, beq_self_eq_true, Bool.and_true, bne_iff_ne, ne_eq, Decidable.not_not] at h0
      omega
    have hs := interp_safe hV d o (curByte d sc) stepFuel sc.step sc (live_invI hV hL) hc
    cases hi : interp d o (curByte d sc) stepFuel sc.step sc with
    | error s => rw [hi] at hs; exact hs
    | ok sc1 =>
      rw [hi] at hs
      have hP : Post C d sc1 := hs
      have hrq := hP.rq
      simp only
      by_cases hu : sc1.rew > sc1.cur + 1
      · exfalso; omega
      · rw [if_neg hu]
        rcases hP.ev with he | ⟨hsz, hr, hsome⟩
        · refine Or.inl ⟨hP.good, hP.stk, he, ?_, rfl⟩
          show C.rq sc1.step ≤ sc1.cur + 1 - sc1.rew
          omega
        · refine Or.inr ⟨?_, hsome⟩
          show d.size < sc1.cur + 1 - sc1.rew
          omega

/-! ### the lexeme events -/

theorem processEvent_safe (sc : Sc) (ev : Ev × Nat) (q L : List Ev)
    (h : evSim (sc.evStack.map (·.1)) (ev.1 :: q) = some L) :
    ∃ lex es, processEvent sc ev = .ok (lex, { sc with evStack := es }) ∧ evSim (es.map (·.1)) q = some L := by
  unfold processEvent
  simp only [evSim] at h
  by_cases hb : ev.1.isBeginning = true
  · simp only [hb, if_true] at h ⊢
    exact ⟨none, ev :: sc.evStack, rfl, by simpa using h⟩
  · simp only [hb] at h ⊢
    by_cases he : ev.1.isEnding = true
    · simp only [he, if_true] at h ⊢
      cases hs : sc.evStack with
      | nil => rw [hs] at h; simp at h
      | cons start rest =>
        rw [hs] at h
        simp only [List.map_cons] at h
        by_cases hm : start.1.matches ev.1 = true
        · simp only [hm, if_true] at h ⊢
          exact ⟨some _, rest, rfl, h⟩
        · simp only [hm] at h; cases h
    · simp only [he] at h ⊢
      exact ⟨some _, sc.evStack, rfl, h⟩

theorem inv_congr {C : Cert} {d : Src} {sc sc' : Sc} (h1 : sc'.step = sc.step) (h2 : sc'.stack = sc.stack)
    (h3 : EvS sc' = EvS sc) (h4 : sc'.cur = sc.cur) (h5 : sc'.rew = sc.rew) (h : Inv C d sc) : Inv C d sc' := by
  rcases h with h | h
  · exact Or.inl ⟨by rw [h1, h2]; exact h.good, by rw [h2]; exact h.stk, by rw [h3, h1]; exact h.ev,
      by rw [h1, h4]; exact h.rq, by rw [h5]; exact h.rew⟩
  · exact Or.inr ⟨by rw [h4]; exact h.1, by rw [h3]; exact h.2⟩

theorem inv_evs {C : Cert} {d : Src} {sc : Sc} (h : Inv C d sc) : ∃ L, EvS sc = some L := by
  rcases h with h | h
  · exact ⟨_, h.ev⟩
  · exact Option.isSome_iff_exists.mp h.2

/-- one queued event: `processLexemeEvent` neither pops an empty stack nor meets the wrong Begin -/
theorem shift_safe {C : Cert} {d : Src} {sc : Sc} {ev : Ev × Nat} {rest : List (Ev × Nat)}
    (hI : Inv C d sc) (hf : sc.finds = ev :: rest) :
    ∃ lex sc', processEvent { sc with finds := rest } ev = .ok (lex, sc') ∧ sc'.finds = rest ∧ Inv C d sc' := by
  obtain ⟨L, hL⟩ := inv_evs hI
  have hL' : evSim (sc.evStack.map (·.1)) (ev.1 :: rest.map (·.1)) = some L := by
    simpa [EvS, hf] using hL
  obtain ⟨lex, es, hp, hes⟩ := processEvent_safe { sc with finds := rest } ev (rest.map (·.1)) L hL'
  refine ⟨lex, _, hp, rfl, inv_congr (sc := sc) rfl rfl ?_ rfl rfl hI⟩
  rw [hL]; exact hes

theorem drainFinds_safe {C : Cert} {d : Src} : ∀ (n : Nat) (sc : Sc), n ≤ sc.finds.length → Inv C d sc →
    ∃ lex sc', drainFinds n sc = .ok (lex, sc') ∧ Inv C d sc'
  | 0, sc, _, hI => ⟨none, sc, rfl, hI⟩
  | n + 1, sc, hn, hI => by
    cases hf : sc.finds with
    | nil => rw [hf] at hn; simp at hn
    | cons ev rest =>
      obtain ⟨lex, sc', hp, hfr, hI'⟩ := shift_safe hI hf
      simp only [drainFinds, hf, hp]
      cases lex with
      | none =>
        simp only
        refine drainFinds_safe n sc' ?_ hI'
        rw [hfr]; rw [hf] at hn; simpa using hn
      | some lex =>
        simp only
        refine ⟨_, _, rfl, ?_⟩
        cases lex.ty <;> exact inv_congr (sc := sc') rfl rfl rfl rfl rfl hI'

/-! ### `Next` and the whole file -/

theorem byteLoop_safe {C : Cert} (hV : Valid C) (d : Src) (o : Oracle) :
    ∀ (fuel : Nat) (sc : Sc), Inv C d sc → Safe C d (byteLoop d o fuel sc)
  | 0, _, _ => benign_fuel
  | fuel + 1, sc, hI => by
    simp only [byteLoop]
    by_cases hgt : sc.cur > d.size
    · rw [if_pos hgt]; exact hI
    · rw [if_neg hgt]
      have hL : Live C sc := by
        rcases hI with h | h
        · exact h
        · exact absurd h.1 hgt
      have hs := byteStep_safe hV d o sc hL
      cases hb : byteStep d o sc with
      | error s => rw [hb] at hs; exact hs
      | ok sc2 =>
        rw [hb] at hs
        obtain ⟨lex, sc3, hd, hI3⟩ := drainFinds_safe sc2.finds.length sc2 (Nat.le_refl _) hs
        simp only [hd]
        cases lex with
        | none => exact byteLoop_safe hV d o fuel sc3 hI3
        | some lex => exact hI3

theorem next_safe {C : Cert} (hV : Valid C) (d : Src) (o : Oracle) (fuel : Nat) (sc : Sc) (hI : Inv C d sc) :
    Safe C d (next d o fuel sc) := by
  unfold next
  cases hf : sc.finds with
  | nil => exact byteLoop_safe hV d o fuel sc hI
  | cons ev rest =>
    obtain ⟨lex, sc', hp, _, hI'⟩ := shift_safe hI hf
    simp only [hp]
    cases lex with
    | none => exact byteLoop_safe hV d o fuel sc' hI'
    | some lex => exact hI'

theorem inv_init {C : Cert} (hV : Valid C) (d : Src) : Inv C d Sc.init := by
  have h := hV.init
  simp only [checkInit, Bool.and_eq_true, Bool.not_eq_true', beq_iff_eq] at h
  refine Or.inl ⟨h.1.1, (fun x hx => nomatch hx), ?_, ?_, rfl⟩
  · show evSim [] [] = some (C.oe .stateRoot).toList
    rw [h.1.2]; rfl
  · show C.rq .stateRoot ≤ 0
    rw [h.2]; exact Nat.le_refl _

theorem lexAll_safe {C : Cert} (hV : Valid C) (d : Src) (o : Oracle) :
    ∀ (n : Nat) (sc : Sc) (acc : List Lexeme), Inv C d sc →
      ∀ f, (lexAll d o n sc acc).2.1 = some (.fault f) → f = .fuel
  | 0, sc, acc, _, f, h => by
    simp only [lexAll, Option.some.injEq, Stop.fault.injEq] at h
    exact h.symm
  | n + 1, sc, acc, hI, f, h => by
    simp only [lexAll] at h
    have hs := next_safe hV d o (4 * (d.size + 2)) sc hI
    cases hn : next d o (4 * (d.size + 2)) sc with
    | error s =>
      rw [hn] at hs h
      simp only [Option.some.injEq] at h
      exact hs f h
    | ok p =>
      obtain ⟨lex, sc'⟩ := p
      rw [hn] at hs h
      cases lex with
      | none => simp at h
      | some lex => exact lexAll_safe hV d o n sc' (lex :: acc) hs f h

/-! ### every configuration a run passes through -/

/-- the configurations that runs of `Next` from `Sc.init` pass through: byte steps (only taken inside the
file, as in `byteLoop`), shifts of one queued event, and the parameter bookkeeping of `Next` -/
inductive Reach (d : Src) (o : Oracle) : Sc → Prop
  | init : Reach d o Sc.init
  | step {sc sc' : Sc} : Reach d o sc → sc.cur ≤ d.size → byteStep d o sc = .ok sc' → Reach d o sc'
  | event {sc sc' : Sc} {ev : Ev × Nat} {rest : List (Ev × Nat)} {lex : Option Lexeme} : Reach d o sc →
      sc.finds = ev :: rest → processEvent { sc with finds := rest } ev = .ok (lex, sc') → Reach d o sc'
  | params {sc : Sc} (p : List (Nat × Nat)) : Reach d o sc → Reach d o { sc with lastParams := p }

theorem reach_inv {C : Cert} (hV : Valid C) {d : Src} {o : Oracle} {sc : Sc} (h : Reach d o sc) : Inv C d sc := by
  induction h with
  | init => exact inv_init hV d
  | @step sc sc' _ hle hs ih =>
    have hL : Live C sc := by
      rcases ih with h | h
      · exact h
      · exact absurd h.1 (Nat.not_lt.mpr hle)
    have := byteStep_safe hV d o sc hL
    rw [hs] at this
    exact this
  | @event sc sc' ev rest lex _ hf hp ih =>
    obtain ⟨lex', sc'', hp', _, hI⟩ := shift_safe ih hf
    rw [hp'] at hp
    cases hp
    exact hI
  | @params sc p _ ih => exact inv_congr (sc := sc) rfl rfl rfl rfl rfl ih

theorem reach_drain {d : Src} {o : Oracle} : ∀ (n : Nat) (sc : Sc) (lex : Option Lexeme) (sc' : Sc),
    Reach d o sc → drainFinds n sc = .ok (lex, sc') → Reach d o sc'
  | 0, sc, lex, sc', hR, h => by
    simp only [drainFinds, Except.ok.injEq, Prod.mk.injEq] at h
    rw [← h.2]; exact hR
  | n + 1, sc, lex, sc', hR, h => by
    cases hf : sc.finds with
    | nil => simp only [drainFinds, hf] at h; cases h
    | cons ev rest =>
      simp only [drainFinds, hf] at h
      cases hp : processEvent { sc with finds := rest } ev with
      | error s => rw [hp] at h; cases h
      | ok p =>
        obtain ⟨l1, sc1⟩ := p
        have hR1 : Reach d o sc1 := Reach.event hR hf hp
        rw [hp] at h
        cases l1 with
        | none => exact reach_drain n sc1 lex sc' hR1 h
        | some l =>
          simp only [Except.ok.injEq, Prod.mk.injEq] at h
          rw [← h.2]
          cases l.ty
          case parameter => exact Reach.params _ hR1
          case keyword => exact Reach.params _ hR1
          all_goals exact hR1

theorem reach_byteLoop {d : Src} {o : Oracle} : ∀ (fuel : Nat) (sc : Sc) (lex : Option Lexeme) (sc' : Sc),
    Reach d o sc → byteLoop d o fuel sc = .ok (lex, sc') → Reach d o sc'
  | 0, _, _, _, _, h => by simp only [byteLoop] at h; cases h
  | fuel + 1, sc, lex, sc', hR, h => by
    simp only [byteLoop] at h
    by_cases hgt : sc.cur > d.size
    · rw [if_pos hgt] at h
      simp only [Except.ok.injEq, Prod.mk.injEq] at h
      rw [← h.2]; exact hR
    · rw [if_neg hgt] at h
      cases hb : byteStep d o sc with
      | error s => rw [hb] at h; cases h
      | ok sc2 =>
        rw [hb] at h
        simp only at h
        have hR2 : Reach d o sc2 := Reach.step hR (Nat.not_lt.mp hgt) hb
        cases hd : drainFinds sc2.finds.length sc2 with
        | error s => rw [hd] at h; cases h
        | ok p =>
          obtain ⟨l3, sc3⟩ := p
          have hR3 := reach_drain _ _ _ _ hR2 hd
          rw [hd] at h
          cases l3 with
          | none => exact reach_byteLoop fuel sc3 lex sc' hR3 h
          | some l =>
            simp only [Except.ok.injEq, Prod.mk.injEq] at h
            rw [← h.2]; exact hR3

/-- `Next` leads from a reachable configuration to a reachable configuration -/
theorem reach_next {d : Src} {o : Oracle} {fuel : Nat} {sc sc' : Sc} {lex : Option Lexeme}
    (hR : Reach d o sc) (h : next d o fuel sc = .ok (lex, sc')) : Reach d o sc' := by
  unfold next at h
  cases hf : sc.finds with
  | nil => rw [hf] at h; exact reach_byteLoop fuel sc lex sc' hR h
  | cons ev rest =>
    rw [hf] at h
    simp only at h
    cases hp : processEvent { sc with finds := rest } ev with
    | error s => rw [hp] at h; cases h
    | ok p =>
      obtain ⟨l1, sc1⟩ := p
      have hR1 : Reach d o sc1 := Reach.event hR hf hp
      rw [hp] at h
      cases l1 with
      | none => exact reach_byteLoop fuel sc1 lex sc' hR1 h
      | some l =>
        simp only [Except.ok.injEq, Prod.mk.injEq] at h
        rw [← h.2]; exact hR1

/-- the configuration `lexAll` ends in is reachable -/
theorem reach_lexAll {d : Src} {o : Oracle} : ∀ (n : Nat) (sc : Sc) (acc : List Lexeme),
    Reach d o sc → Reach d o (lexAll d o n sc acc).2.2
  | 0, _, _, hR => hR
  | n + 1, sc, acc, hR => by
    simp only [lexAll]
    cases hn : next d o (4 * (d.size + 2)) sc with
    | error s => exact hR
    | ok p =>
      obtain ⟨lex, sc'⟩ := p
      have hR' := reach_next hR hn
      cases lex with
      | none => exact hR'
      | some l => exact reach_lexAll n sc' (l :: acc) hR'

end JSight.ScanSafe
