import JSight.Proofs.ScanSafe
/-!
C01 (scanner part) — run-level proofs, generic in the table and in the certificate: whatever `Cert`
passes `checkInit` and `checkCode` for every state, no run of the scanner model from `Sc.init` ends in a
fault other than an exhausted step budget.
-/
namespace JSight.ScanSafe
open JSight JSight.Gen

/-! ### the selected leaf is among the leaves of its byte class -/
section leaves
variable {S : Type}

theorem select_mem_eof (ev : Cond → Bool) : ∀ t : Code S, t.select 0 ev ∈ leavesEof t
  | .leaf _ _ => by simp [Code.select, leavesEof]
  | .ifB bs t e => by
    simp only [Code.select, leavesEof]
    cases bs.contains 0
    · simpa using select_mem_eof ev e
    · simpa using select_mem_eof ev t
  | .ifC cd t e => by
    simp only [Code.select, leavesEof, List.mem_append]
    cases ev cd
    · exact Or.inr (by simpa using select_mem_eof ev e)
    · exact Or.inl (by simpa using select_mem_eof ev t)

theorem select_mem_nz {c : UInt8} (hc : c ≠ 0) (ev : Cond → Bool) : ∀ t : Code S, t.select c ev ∈ leavesNZ t
  | .leaf _ _ => by simp [Code.select, leavesNZ]
  | .ifB bs t e => by
    simp only [Code.select, leavesNZ, List.mem_append]
    cases hb : bs.contains c
    · exact Or.inr (by simpa using select_mem_nz hc ev e)
    · have hall : bs.all (· == 0) = false := by
        cases h : bs.all (· == 0)
        · rfl
        · exfalso
          rw [List.all_eq_true] at h
          have hm : c ∈ bs := by simpa using hb
          have := h c hm
          exact hc (by simpa using this)
      refine Or.inl ?_
      simp only [hall]
      simpa using select_mem_nz hc ev t
  | .ifC cd t e => by
    simp only [Code.select, leavesNZ, List.mem_append]
    cases ev cd
    · exact Or.inr (by simpa using select_mem_nz hc ev e)
    · exact Or.inl (by simpa using select_mem_nz hc ev t)

theorem select_mem_leavesBy (c : UInt8) (ev : Cond → Bool) (t : Code S) :
    ((c == 0), t.select c ev) ∈ leavesBy t := by
  unfold leavesBy
  rw [List.mem_append]
  by_cases hc : c = 0
  · subst hc
    exact Or.inl (List.mem_map.mpr ⟨_, select_mem_eof ev t, rfl⟩)
  · have : (c == 0) = false := by simpa using hc
    rw [this]
    exact Or.inr (List.mem_map.mpr ⟨_, select_mem_nz hc ev t, rfl⟩)

end leaves

/-! ### the stack requirement -/

/-- `Good nt s stack`: if `s` may pop before pushing, the stack is `t :: rest`, and so on for `t` over `rest` -/
def Good (nt : St → Bool) : St → List St → Prop
  | s, [] => nt s = false
  | s, t :: rest => nt s = true → Good nt t rest

def TopGood (nt : St → Bool) (stk : List St) : Prop := ∃ t rest, stk = t :: rest ∧ Good nt t rest

theorem good_of_nt_false {nt : St → Bool} {s : St} (h : nt s = false) : ∀ stk, Good nt s stk
  | [] => h
  | _ :: _ => fun h' => by rw [h] at h'; cases h'

theorem good_cons {nt : St → Bool} {t : St} {rest : List St} (s : St) (h : Good nt t rest) :
    Good nt s (t :: rest) := fun _ => h

theorem topGood_of_good {nt : St → Bool} {s : St} : ∀ {stk : List St}, Good nt s stk → nt s = true → TopGood nt stk
  | [], h, hn => by rw [show nt s = false from h] at hn; cases hn
  | t :: rest, h, hn => ⟨t, rest, rfl, h hn⟩

theorem good_of_topGood {nt : St → Bool} {stk : List St} (s : St) : TopGood nt stk → Good nt s stk
  | ⟨_, _, e, h⟩ => by subst e; exact good_cons s h

/-! ### concretisation of the abstract execution -/

def conc (orig : List St) : Val → St
  | .known s => s
  | .top0 => orig.headD default

def base (orig : List St) (popped : Bool) : List St := if popped then orig.tail else orig

/-- the configuration that the abstract configuration `a` describes, relative to the configuration `sc0`
at the start of the leaf -/
def concSc (sc0 : Sc) (a : Abs) : Sc :=
  { sc0 with
    step := conc sc0.stack a.reg
    stack := a.pre ++ base sc0.stack a.popped
    finds := sc0.finds ++ a.evs.map (fun p => (p.1, sc0.cur - p.2))
    rew := sc0.rew + a.rew }

theorem concSc_a0 (sc0 : Sc) : concSc sc0 (a0 sc0.step) = sc0 := by
  cases sc0; simp [concSc, a0, conc, base]

theorem absOp_sound {cp : Bool} {sc0 : Sc} {a a' : Abs} {op : Op St}
    (hcp : cp = true → sc0.stack ≠ []) (h : absOp cp a op = some a')
    (hb : ∀ e b, op = .found e b → b ≤ sc0.cur) :
    execOp (concSc sc0 a) op = .ok (concSc sc0 a') := by
  cases op with
  | setStep s => simp only [absOp, Option.some.injEq] at h; subst h; rfl
  | push s => simp only [absOp, Option.some.injEq] at h; subst h; rfl
  | pushCur =>
    simp only [absOp] at h
    cases hr : a.reg with
    | known s => rw [hr] at h; simp only [Option.some.injEq] at h; subst h; simp [execOp, concSc, conc, hr]
    | top0 => rw [hr] at h; cases h
  | popToStep =>
    simp only [absOp] at h
    cases hp : a.pre with
    | cons p pre' =>
      rw [hp] at h; simp only [Option.some.injEq] at h; subst h
      simp [execOp, concSc, conc, hp]
    | nil =>
      rw [hp] at h
      by_cases hc : (cp && !a.popped) = true
      · rw [if_pos hc] at h; simp only [Option.some.injEq] at h; subst h
        simp only [Bool.and_eq_true, Bool.not_eq_true'] at hc
        have hne := hcp hc.1
        cases hs : sc0.stack with
        | nil => exact absurd hs hne
        | cons t rest => simp [execOp, concSc, conc, base, hp, hc.2, hs]
      · rw [if_neg hc] at h; cases h
  | found e b =>
    simp only [absOp, Option.some.injEq] at h; subst h
    have := hb e b rfl
    simp [execOp, concSc, this]
  | rewind n =>
    simp only [absOp, Option.some.injEq] at h; subst h
    simp [execOp, concSc, Nat.add_assoc]

theorem absOps_sound {cp : Bool} {sc0 : Sc} (hcp : cp = true → sc0.stack ≠ []) :
    ∀ (ops : List (Op St)) (a a' : Abs), absOps cp a ops = some a' →
      (∀ e b, Op.found e b ∈ ops → b ≤ sc0.cur) →
      execOps (concSc sc0 a) ops = .ok (concSc sc0 a')
  | [], a, a', h, _ => by simp only [absOps, Option.some.injEq] at h; subst h; rfl
  | op :: r, a, a', h, hb => by
    simp only [absOps] at h
    cases h1 : absOp cp a op with
    | none => rw [h1] at h; cases h
    | some a1 =>
      rw [h1] at h
      have := absOp_sound hcp h1 (fun e b he => hb e b (by rw [he]; exact List.mem_cons_self))
      simp only [execOps, this]
      exact absOps_sound hcp r a1 a' h (fun e b he => hb e b (List.mem_cons_of_mem _ he))

theorem backsOK_sound {bound : Nat} : ∀ {ops : List (Op St)}, backsOK bound ops = true →
    ∀ e b, Op.found e b ∈ ops → b ≤ bound
  | [], _, _, _, hm => by cases hm
  | op :: r, h, e, b, hm => by
    cases op with
    | found e' b' =>
      simp only [backsOK, Bool.and_eq_true, decide_eq_true_eq] at h
      rcases List.mem_cons.mp hm with he | hm'
      · cases he; exact h.1
      · exact backsOK_sound h.2 e b hm'
    | setStep _ | push _ | pushCur | popToStep | rewind _ =>
      simp only [backsOK] at h
      rcases List.mem_cons.mp hm with he | hm'
      · cases he
      · exact backsOK_sound h e b hm'

/-- a register value `top0` only arises when the certificate guarantees a non-empty stack -/
theorem absOps_top0 {cp : Bool} : ∀ (ops : List (Op St)) (a a' : Abs), absOps cp a ops = some a' →
    (a.reg = .top0 → cp = true) → (a'.reg = .top0 → cp = true)
  | [], a, a', h, h0 => by simp only [absOps, Option.some.injEq] at h; subst h; exact h0
  | op :: r, a, a', h, h0 => by
    simp only [absOps] at h
    cases h1 : absOp cp a op with
    | none => rw [h1] at h; cases h
    | some a1 =>
      rw [h1] at h
      refine absOps_top0 r a1 a' h ?_
      cases op with
      | setStep s => simp only [absOp, Option.some.injEq] at h1; subst h1; intro hh; cases hh
      | push s => simp only [absOp, Option.some.injEq] at h1; subst h1; exact h0
      | pushCur =>
        simp only [absOp] at h1
        cases hr : a.reg with
        | known s => rw [hr] at h1; simp only [Option.some.injEq] at h1; subst h1; intro hh; rw [hr] at hh; cases hh
        | top0 => rw [hr] at h1; cases h1
      | popToStep =>
        simp only [absOp] at h1
        cases hp : a.pre with
        | cons p pre' => rw [hp] at h1; simp only [Option.some.injEq] at h1; subst h1; intro hh; cases hh
        | nil =>
          rw [hp] at h1
          by_cases hc : (cp && !a.popped) = true
          · simp only [Bool.and_eq_true] at hc; exact fun _ => hc.1
          · rw [if_neg hc] at h1; cases h1
      | found e b => simp only [absOp, Option.some.injEq] at h1; subst h1; exact h0
      | rewind n => simp only [absOp, Option.some.injEq] at h1; subst h1; exact h0

end JSight.ScanSafe
