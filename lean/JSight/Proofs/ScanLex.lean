import JSight.Proofs.ScanLexAbs
/-!
C14: soundness of the abstract interpreter of `ScanLexAbs` with respect to the scanner model, and the
run-level invariants of `lexAll` derived from it.
-/
namespace JSight.ScanLex
open JSight Gen

abbrev Evp := Ev × Nat

def evEnd (x : Evp) : Nat := if x.1.isBeginning then x.2 else x.2 + 1

def bndL : Nat → List Evp → Nat
  | h, [] => h
  | _, x :: r => bndL (evEnd x) r

def lastOpenA : Option Evp → List Evp → Option Evp
  | acc, [] => acc
  | _, x :: r => lastOpenA (if x.1.isBeginning then some x else none) r

def lastOpen (L : List Evp) : Option Evp := lastOpenA none L

def GoodPair (d : Src) (o : Oracle) (b e : Evp) : Prop :=
  b.1.matches e.1 = true ∧ b.2 ≤ e.2 + 1 ∧ e.2 + 1 ≤ d.size ∧
  (b.1 = .schemaBegin → ∃ k, o.schemaLen b.2 = .len k ∧ e.2 + 1 = b.2 + k) ∧
  (b.1 = .enumBegin → ∃ k, o.enumLen b.2 = .len k ∧ e.2 + 1 = b.2 + max k 1) ∧
  (b.1 = .keywordBegin → isKw (d.slice b.2 (e.2 + 1)) = true)

inductive WfL (d : Src) (o : Oracle) : Nat → List Evp → Prop
  | nil (h) : WfL d o h []
  | opn (h b) : b.1.isBeginning = true → h ≤ b.2 → WfL d o h [b]
  | pair (h b e rest) : b.1.isBeginning = true → h ≤ b.2 → GoodPair d o b e → WfL d o (e.2 + 1) rest →
      WfL d o h (b :: e :: rest)
  | ctx (h x rest) : x.1.isBeginning = false → x.1.isEnding = false → h ≤ x.2 → x.2 + 1 ≤ d.size →
      WfL d o (x.2 + 1) rest → WfL d o h (x :: rest)

theorem matches_begin_end {b e : Ev} (h : b.matches e = true) :
    b.isBeginning = true ∧ e.isEnding = true ∧ e.isBeginning = false ∧ b.isEnding = false := by
  cases b <;> cases e <;> simp_all [Ev.matches, Ev.isBeginning, Ev.isEnding]

theorem begin_not_end {b : Ev} (h : b.isBeginning = true) : b.isEnding = false := by
  cases b <;> simp_all [Ev.isBeginning, Ev.isEnding]

theorem bndL_append (h : Nat) (L : List Evp) (x : Evp) : bndL h (L ++ [x]) = evEnd x := by
  induction L generalizing h with
  | nil => simp [bndL]
  | cons y r ih => simp [bndL, ih]

theorem lastOpenA_append (acc : Option Evp) (L : List Evp) (x : Evp) :
    lastOpenA acc (L ++ [x]) = if x.1.isBeginning then some x else none := by
  induction L generalizing acc with
  | nil => simp [lastOpenA]
  | cons y r ih => simp [lastOpenA, ih]

theorem lastOpen_append (L : List Evp) (x : Evp) :
    lastOpen (L ++ [x]) = if x.1.isBeginning then some x else none := lastOpenA_append _ _ _

theorem lastOpenA_some {acc : Option Evp} {L : List Evp} {h : Nat} {b : Evp}
    (hl : lastOpenA acc L = some b)
    (hacc : ∀ b', acc = some b' → b'.1.isBeginning = true ∧ b'.2 = h) :
    b.1.isBeginning = true ∧ bndL h L = b.2 := by
  induction L generalizing acc h with
  | nil => simp [lastOpenA] at hl; have := hacc b hl; simp [bndL, this.1, this.2]
  | cons y r ih =>
    simp only [lastOpenA] at hl
    simp only [bndL]
    apply ih hl
    intro b' hb'
    by_cases hy : y.1.isBeginning = true
    · simp [hy] at hb'; subst hb'; simp [evEnd, hy]
    · simp [hy] at hb'

theorem lastOpen_some {L : List Evp} {h : Nat} {b : Evp} (hl : lastOpen L = some b) :
    b.1.isBeginning = true ∧ bndL h L = b.2 :=
  lastOpenA_some (h := h) hl (by simp)

/-- appending a Begin or a context event after a closed list -/
theorem WfL.append_new {d o h L} (w : WfL d o h L) (x : Evp) (hlo : lastOpen L = none)
    (hb : bndL h L ≤ x.2) (hx : x.1.isBeginning = true ∨ (x.1.isEnding = false ∧ x.2 + 1 ≤ d.size)) :
    WfL d o h (L ++ [x]) := by
  induction w with
  | nil h =>
    simp only [List.nil_append]
    simp [bndL] at hb
    by_cases hxb : x.1.isBeginning = true
    · exact .opn _ _ hxb hb
    · rcases hx with hx | ⟨hx1, hx2⟩
      · exact absurd hx hxb
      · exact .ctx _ _ _ (by simpa using hxb) hx1 hb hx2 (.nil _)
  | opn h b hbb _ => simp [lastOpen, lastOpenA, hbb] at hlo
  | pair h b e rest hbb hh hg _ ih =>
    have he := (matches_begin_end hg.1).2.2.1
    have : WfL d o (e.2 + 1) (rest ++ [x]) := by
      apply ih
      · simpa [lastOpen, lastOpenA, he] using hlo
      · simpa [bndL, evEnd, he] using hb
    exact .pair _ _ _ _ hbb hh hg this
  | ctx h y rest hy1 hy2 hh hs _ ih =>
    have : WfL d o (y.2 + 1) (rest ++ [x]) := by
      apply ih
      · simpa [lastOpen, lastOpenA, hy1] using hlo
      · simpa [bndL, evEnd, hy1] using hb
    exact .ctx _ _ _ hy1 hy2 hh hs this

/-- appending the End of the open Begin -/
theorem WfL.append_end {d o h L} (w : WfL d o h L) (b e : Evp) (hlo : lastOpen L = some b)
    (hg : GoodPair d o b e) : WfL d o h (L ++ [e]) := by
  induction w with
  | nil h => simp [lastOpen, lastOpenA] at hlo
  | opn h b0 hbb hh =>
    simp [lastOpen, lastOpenA, hbb] at hlo
    subst hlo
    exact .pair _ _ _ _ hbb hh hg (.nil _)
  | pair h b1 e1 rest hbb hh hg1 _ ih =>
    have he := (matches_begin_end hg1.1).2.2.1
    exact .pair _ _ _ _ hbb hh hg1 (ih (by simpa [lastOpen, lastOpenA, he] using hlo))
  | ctx h y rest hy1 hy2 hh hs _ ih =>
    exact .ctx _ _ _ hy1 hy2 hh hs (ih (by simpa [lastOpen, lastOpenA, hy1] using hlo))

/-! ### lexemes and the event invariant of a scanner state -/

def LexGood (d : Src) (o : Oracle) (l : Lexeme) : Prop :=
  l.b ≤ l.e1 ∧ l.e1 ≤ d.size ∧
  (l.ty = .schema → ∃ k, o.schemaLen l.b = .len k ∧ l.e1 = l.b + k) ∧
  (l.ty = .enum → ∃ k, o.enumLen l.b = .len k ∧ l.e1 = l.b + max k 1) ∧
  (l.ty = .keyword → isKw (d.slice l.b l.e1) = true)

/-- the found events that are not yet matched: the event stack (oldest first) followed by the queue -/
def Lof (sc : Sc) : List Evp := sc.evStack.reverse ++ sc.finds

def EvInv (d : Src) (o : Oracle) (h : Nat) (sc : Sc) : Prop :=
  WfL d o h (Lof sc) ∧ (sc.evStack = [] ∨ ∃ b, sc.evStack = [b] ∧ b.1.isBeginning = true)

theorem lexGood_of_pair {d o} {b e : Evp} (hg : GoodPair d o b e) :
    LexGood d o { ty := e.1.lexTy, b := b.2, e1 := e.2 + 1 } := by
  obtain ⟨hm, h1, h2, h3, h4, h5⟩ := hg
  refine ⟨h1, h2, ?_, ?_, ?_⟩
  · intro ht; apply h3
    revert hm ht; cases b.1 <;> cases e.1 <;> simp [Ev.matches, Ev.lexTy]
  · intro ht; apply h4
    revert hm ht; cases b.1 <;> cases e.1 <;> simp [Ev.matches, Ev.lexTy]
  · intro ht; apply h5
    revert hm ht; cases b.1 <;> cases e.1 <;> simp [Ev.matches, Ev.lexTy]

theorem lexGood_of_ctx {d o} {x : Evp} (h1 : x.1.isBeginning = false) (h2 : x.1.isEnding = false)
    (hs : x.2 + 1 ≤ d.size) : LexGood d o { ty := x.1.lexTy, b := x.2, e1 := x.2 + 1 } := by
  refine ⟨Nat.le_succ _, hs, ?_, ?_, ?_⟩ <;>
  · intro ht; revert h1 h2 ht; cases x.1 <;> simp [Ev.isBeginning, Ev.isEnding, Ev.lexTy]

/-- what one `processEvent` does to the invariant: `h` is the end of the last lexeme delivered -/
theorem processEvent_inv {d o h} {sc sc' : Sc} {ev : Evp} {rest : List Evp} {ol : Option Lexeme}
    (hf : sc.finds = ev :: rest) (hI : EvInv d o h sc)
    (hp : processEvent { sc with finds := rest } ev = .ok (ol, sc')) :
    sc'.step = sc.step ∧ sc'.stack = sc.stack ∧ sc'.cur = sc.cur ∧ sc'.rew = sc.rew ∧
    sc'.lastParams = sc.lastParams ∧
    ∃ h', EvInv d o h' sc' ∧ bndL h' (Lof sc') = bndL h (Lof sc) ∧ lastOpen (Lof sc') = lastOpen (Lof sc) ∧
      (match ol with
       | none => h' = h
       | some l => h ≤ l.b ∧ LexGood d o l ∧ h' = l.e1) := by
  obtain ⟨hw, hst⟩ := hI
  unfold processEvent at hp
  rcases hst with hst | ⟨b, hst, hbb⟩
  · -- empty event stack
    simp only [Lof, hst, hf, List.reverse_nil, List.nil_append] at hw
    by_cases hb : ev.1.isBeginning = true
    · simp [hb] at hp
      obtain ⟨rfl, rfl⟩ := hp
      refine ⟨rfl, rfl, rfl, rfl, rfl, h, ⟨?_, .inr ⟨ev, by simp [hst], hb⟩⟩, ?_, ?_, rfl⟩ <;>
        simp [Lof, hst, hf, hw]
    · by_cases he : ev.1.isEnding = true
      · simp [hb, he, hst] at hp
      · simp [hb, he] at hp
        obtain ⟨rfl, rfl⟩ := hp
        cases hw with
        | opn _ _ hbb => exact absurd hbb hb
        | pair _ _ _ _ hbb => exact absurd hbb hb
        | ctx _ _ _ h1 h2 hh hs hw' =>
          refine ⟨rfl, rfl, rfl, rfl, rfl, ev.2 + 1, ⟨?_, .inl hst⟩, ?_, ?_, hh, lexGood_of_ctx h1 h2 hs, rfl⟩
          · simpa [Lof, hst] using hw'
          · simp [Lof, hst, hf, bndL, evEnd, h1]
          · simp [Lof, hst, hf, lastOpen, lastOpenA, h1]
  · -- one open Begin on the event stack
    simp only [Lof, hst, hf, List.reverse_cons, List.reverse_nil, List.nil_append, List.singleton_append] at hw
    cases hw with
    | pair _ _ _ _ _ hh hg hw' =>
      obtain ⟨_, he, heb, _⟩ := matches_begin_end hg.1
      simp [heb, he, hst, hg.1] at hp
      obtain ⟨rfl, rfl⟩ := hp
      refine ⟨rfl, rfl, rfl, rfl, rfl, ev.2 + 1, ⟨?_, .inl rfl⟩, ?_, ?_, hh, lexGood_of_pair hg, rfl⟩
      · simpa [Lof] using hw'
      · simp [Lof, hst, hf, bndL, evEnd, heb]
      · simp [Lof, hst, hf, lastOpen, lastOpenA, heb]
    | ctx _ _ _ h1 => simp [hbb] at h1

/-! ### the state relation between byte steps -/

/-- the bytes from `p` on belong to the byte classes `pat` -/
def MatchAt (d : Src) : Nat → List (List UInt8) → Prop
  | _, [] => True
  | p, cls :: r => cls.contains (d.get p) = true ∧ MatchAt d (p + 1) r

/-- what the certificate of the state about to run says about the open Begin `lo`, the end boundary `B` of
the last found event and the index `cur` of the next byte -/
def EntRel (C : Certs) (d : Src) (o : Oracle) (st : St) (cur B : Nat) (lo : Option Evp) : Prop :=
  ∃ ce, C.cert st = some ce ∧ lo.map (·.1) = ce.opn ∧ B + ce.gap ≤ cur ∧
    (∀ p, lo = some (.keywordBegin, p) → p + ce.spell.length = cur ∧ MatchAt d p ce.spell) ∧
    (∀ p, lo = some (.schemaBegin, p) → ∃ k, o.schemaLen p = .len k ∧ cur = p + k) ∧
    (∀ p, lo = some (.enumBegin, p) → ∃ k, o.enumLen p = .len k ∧ cur = p + max k 1)

structure StRel (C : Certs) (d : Src) (o : Oracle) (h : Nat) (sc : Sc) : Prop where
  ev : EvInv d o h sc
  rew : sc.rew = 0
  stk : ∀ s ∈ sc.stack, C.stackable.contains s = true
  ent : sc.cur ≤ d.size → EntRel C d o sc.step sc.cur (bndL h (Lof sc)) (lastOpen (Lof sc))

/-- the relation only depends on these components -/
theorem StRel.transfer {C d o h h'} {sc sc' : Sc} (r : StRel C d o h sc)
    (h1 : sc'.step = sc.step) (h2 : sc'.stack = sc.stack) (h3 : sc'.cur = sc.cur) (h4 : sc'.rew = sc.rew)
    (hev : EvInv d o h' sc') (hb : bndL h' (Lof sc') = bndL h (Lof sc))
    (hl : lastOpen (Lof sc') = lastOpen (Lof sc)) : StRel C d o h' sc' :=
  ⟨hev, by rw [h4]; exact r.rew, by rw [h2]; exact r.stk, by rw [h1, h3, hb, hl]; exact r.ent⟩

/-- result of a loop that may deliver one lexeme -/
def Deliver (C : Certs) (d : Src) (o : Oracle) (h : Nat) (ol : Option Lexeme) (sc' : Sc) : Prop :=
  ∃ h', StRel C d o h' sc' ∧
    (match ol with
     | none => h' = h
     | some l => h ≤ l.b ∧ LexGood d o l ∧ h' = l.e1)

theorem drainFinds_inv {C d o} : ∀ (n : Nat) (h : Nat) (sc sc' : Sc) (ol : Option Lexeme),
    StRel C d o h sc → drainFinds n sc = .ok (ol, sc') → Deliver C d o h ol sc' := by
  intro n
  induction n with
  | zero =>
    intro h sc sc' ol r hd
    simp [drainFinds] at hd
    obtain ⟨rfl, rfl⟩ := hd
    exact ⟨h, r, rfl⟩
  | succ n ih =>
    intro h sc sc' ol r hd
    unfold drainFinds at hd
    cases hf : sc.finds with
    | nil => simp [hf] at hd
    | cons ev rest =>
      simp only [hf] at hd
      cases hp : processEvent { sc with finds := rest } ev with
      | error s => simp [hp] at hd
      | ok res =>
        obtain ⟨ol1, sc1⟩ := res
        obtain ⟨h1, h2, h3, h4, _, h', hev, hb, hl, hm⟩ := processEvent_inv hf r.ev hp
        have r1 : StRel C d o h' sc1 := r.transfer h1 h2 h3 h4 hev hb hl
        cases ol1 with
        | none =>
          simp only [hp] at hd
          simp only at hm
          subst hm
          exact ih _ _ _ _ r1 hd
        | some lex =>
          simp only [hp] at hd
          simp only [Except.ok.injEq, Prod.mk.injEq] at hd
          obtain ⟨rfl, rfl⟩ := hd
          refine ⟨h', ?_, hm⟩
          cases lex.ty <;> exact r1.transfer rfl rfl rfl rfl (by simpa [EvInv, Lof] using r1.ev) rfl rfl

end JSight.ScanLex
