import JSight.Proofs.ScanLexAbs
/-!
C14: soundness of the abstract interpreter of `ScanLexAbs` with respect to the scanner model, and the
run-level invariants of `lexAll` derived from it.
-/
namespace JSight.ScanLex
open JSight Gen

abbrev Evp := Ev × Nat

def evEnd (x : Evp) : Nat := if x.1.isBeginning then x.2 else x.2 + 1

def bndL : Nat → List Evp → Nat
  | h, [] => h
  | _, x :: r => bndL (evEnd x) r

def lastOpenA : Option Evp → List Evp → Option Evp
  | acc, [] => acc
  | _, x :: r => lastOpenA (if x.1.isBeginning then some x else none) r

def lastOpen (L : List Evp) : Option Evp := lastOpenA none L

def GoodPair (d : Src) (o : Oracle) (b e : Evp) : Prop :=
  b.1.matches e.1 = true ∧ b.2 ≤ e.2 + 1 ∧ e.2 + 1 ≤ d.size ∧
  (b.1 = .schemaBegin → ∃ k, o.schemaLen b.2 = .len k ∧ e.2 + 1 = b.2 + k) ∧
  (b.1 = .enumBegin → ∃ k, o.enumLen b.2 = .len k ∧ e.2 + 1 = b.2 + max k 1) ∧
  (b.1 = .keywordBegin → isKw (d.slice b.2 (e.2 + 1)) = true)

inductive WfL (d : Src) (o : Oracle) : Nat → List Evp → Prop
  | nil (h) : WfL d o h []
  | opn (h b) : b.1.isBeginning = true → h ≤ b.2 → WfL d o h [b]
  | pair (h b e rest) : b.1.isBeginning = true → h ≤ b.2 → GoodPair d o b e → WfL d o (e.2 + 1) rest →
      WfL d o h (b :: e :: rest)
  | ctx (h x rest) : x.1.isBeginning = false → x.1.isEnding = false → h ≤ x.2 → x.2 + 1 ≤ d.size →
      WfL d o (x.2 + 1) rest → WfL d o h (x :: rest)

theorem matches_begin_end {b e : Ev} (h : b.matches e = true) :
    b.isBeginning = true ∧ e.isEnding = true ∧ e.isBeginning = false ∧ b.isEnding = false := by
  cases b <;> cases e <;> simp_all [Ev.matches, Ev.isBeginning, Ev.isEnding]

theorem begin_not_end {b : Ev} (h : b.isBeginning = true) : b.isEnding = false := by
  cases b <;> simp_all [Ev.isBeginning, Ev.isEnding]

theorem bndL_append (h : Nat) (L : List Evp) (x : Evp) : bndL h (L ++ [x]) = evEnd x := by
  induction L generalizing h with
  | nil => simp [bndL]
  | cons y r ih => simp [bndL, ih]

theorem lastOpenA_append (acc : Option Evp) (L : List Evp) (x : Evp) :
    lastOpenA acc (L ++ [x]) = if x.1.isBeginning then some x else none := by
  induction L generalizing acc with
  | nil => simp [lastOpenA]
  | cons y r ih => simp [lastOpenA, ih]

theorem lastOpen_append (L : List Evp) (x : Evp) :
    lastOpen (L ++ [x]) = if x.1.isBeginning then some x else none := lastOpenA_append _ _ _

theorem lastOpenA_some {acc : Option Evp} {L : List Evp} {h : Nat} {b : Evp}
    (hl : lastOpenA acc L = some b)
    (hacc : ∀ b', acc = some b' → b'.1.isBeginning = true ∧ b'.2 = h) :
    b.1.isBeginning = true ∧ bndL h L = b.2 := by
  induction L generalizing acc h with
  | nil => simp [lastOpenA] at hl; have := hacc b hl; simp [bndL, this.1, this.2]
  | cons y r ih =>
    simp only [lastOpenA] at hl
    simp only [bndL]
    apply ih hl
    intro b' hb'
    by_cases hy : y.1.isBeginning = true
    · simp [hy] at hb'; subst hb'; simp [evEnd, hy]
    · simp [hy] at hb'

theorem lastOpen_some {L : List Evp} {h : Nat} {b : Evp} (hl : lastOpen L = some b) :
    b.1.isBeginning = true ∧ bndL h L = b.2 :=
  lastOpenA_some (h := h) hl (by simp)

/-- appending a Begin or a context event after a closed list -/
theorem WfL.append_new {d o h L} (w : WfL d o h L) (x : Evp) (hlo : lastOpen L = none)
    (hb : bndL h L ≤ x.2) (hx : x.1.isBeginning = true ∨ (x.1.isEnding = false ∧ x.2 + 1 ≤ d.size)) :
    WfL d o h (L ++ [x]) := by
  induction w with
  | nil h =>
    simp only [List.nil_append]
    simp [bndL] at hb
    by_cases hxb : x.1.isBeginning = true
    · exact .opn _ _ hxb hb
    · rcases hx with hx | ⟨hx1, hx2⟩
      · exact absurd hx hxb
      · exact .ctx _ _ _ (by simpa using hxb) hx1 hb hx2 (.nil _)
  | opn h b hbb _ => simp [lastOpen, lastOpenA, hbb] at hlo
  | pair h b e rest hbb hh hg _ ih =>
    have he := (matches_begin_end hg.1).2.2.1
    have : WfL d o (e.2 + 1) (rest ++ [x]) := by
      apply ih
      · simpa [lastOpen, lastOpenA, he] using hlo
      · simpa [bndL, evEnd, he] using hb
    exact .pair _ _ _ _ hbb hh hg this
  | ctx h y rest hy1 hy2 hh hs _ ih =>
    have : WfL d o (y.2 + 1) (rest ++ [x]) := by
      apply ih
      · simpa [lastOpen, lastOpenA, hy1] using hlo
      · simpa [bndL, evEnd, hy1] using hb
    exact .ctx _ _ _ hy1 hy2 hh hs this

/-- appending the End of the open Begin -/
theorem WfL.append_end {d o h L} (w : WfL d o h L) (b e : Evp) (hlo : lastOpen L = some b)
    (hg : GoodPair d o b e) : WfL d o h (L ++ [e]) := by
  induction w with
  | nil h => simp [lastOpen, lastOpenA] at hlo
  | opn h b0 hbb hh =>
    simp [lastOpen, lastOpenA, hbb] at hlo
    subst hlo
    exact .pair _ _ _ _ hbb hh hg (.nil _)
  | pair h b1 e1 rest hbb hh hg1 _ ih =>
    have he := (matches_begin_end hg1.1).2.2.1
    exact .pair _ _ _ _ hbb hh hg1 (ih (by simpa [lastOpen, lastOpenA, he] using hlo))
  | ctx h y rest hy1 hy2 hh hs _ ih =>
    exact .ctx _ _ _ hy1 hy2 hh hs (ih (by simpa [lastOpen, lastOpenA, hy1] using hlo))

/-! ### lexemes and the event invariant of a scanner state -/

def LexGood (d : Src) (o : Oracle) (l : Lexeme) : Prop :=
  l.b ≤ l.e1 ∧ l.e1 ≤ d.size ∧
  (l.ty = .schema → ∃ k, o.schemaLen l.b = .len k ∧ l.e1 = l.b + k) ∧
  (l.ty = .enum → ∃ k, o.enumLen l.b = .len k ∧ l.e1 = l.b + max k 1) ∧
  (l.ty = .keyword → isKw (d.slice l.b l.e1) = true)

/-- the found events that are not yet matched: the event stack (oldest first) followed by the queue -/
def Lof (sc : Sc) : List Evp := sc.evStack.reverse ++ sc.finds

def EvInv (d : Src) (o : Oracle) (h : Nat) (sc : Sc) : Prop :=
  WfL d o h (Lof sc) ∧ (sc.evStack = [] ∨ ∃ b, sc.evStack = [b] ∧ b.1.isBeginning = true)

theorem lexGood_of_pair {d o} {b e : Evp} (hg : GoodPair d o b e) :
    LexGood d o { ty := e.1.lexTy, b := b.2, e1 := e.2 + 1 } := by
  obtain ⟨hm, h1, h2, h3, h4, h5⟩ := hg
  refine ⟨h1, h2, ?_, ?_, ?_⟩
  · intro ht; apply h3
    revert hm ht; cases b.1 <;> cases e.1 <;> simp [Ev.matches, Ev.lexTy]
  · intro ht; apply h4
    revert hm ht; cases b.1 <;> cases e.1 <;> simp [Ev.matches, Ev.lexTy]
  · intro ht; apply h5
    revert hm ht; cases b.1 <;> cases e.1 <;> simp [Ev.matches, Ev.lexTy]

theorem lexGood_of_ctx {d o} {x : Evp} (h1 : x.1.isBeginning = false) (h2 : x.1.isEnding = false)
    (hs : x.2 + 1 ≤ d.size) : LexGood d o { ty := x.1.lexTy, b := x.2, e1 := x.2 + 1 } := by
  refine ⟨Nat.le_succ _, hs, ?_, ?_, ?_⟩ <;>
  · intro ht; revert h1 h2 ht; cases x.1 <;> simp [Ev.isBeginning, Ev.isEnding, Ev.lexTy]

/-- what one `processEvent` does to the invariant: `h` is the end of the last lexeme delivered -/
theorem processEvent_inv {d o h} {sc sc' : Sc} {ev : Evp} {rest : List Evp} {ol : Option Lexeme}
    (hf : sc.finds = ev :: rest) (hI : EvInv d o h sc)
    (hp : processEvent { sc with finds := rest } ev = .ok (ol, sc')) :
    sc'.step = sc.step ∧ sc'.stack = sc.stack ∧ sc'.cur = sc.cur ∧ sc'.rew = sc.rew ∧
    sc'.lastParams = sc.lastParams ∧
    ∃ h', EvInv d o h' sc' ∧ bndL h' (Lof sc') = bndL h (Lof sc) ∧ lastOpen (Lof sc') = lastOpen (Lof sc) ∧
      (match ol with
       | none => h' = h
       | some l => h ≤ l.b ∧ LexGood d o l ∧ h' = l.e1) := by
  obtain ⟨hw, hst⟩ := hI
  unfold processEvent at hp
  rcases hst with hst | ⟨b, hst, hbb⟩
  · -- empty event stack
    simp only [Lof, hst, hf, List.reverse_nil, List.nil_append] at hw
    by_cases hb : ev.1.isBeginning = true
    · simp [hb] at hp
      obtain ⟨rfl, rfl⟩ := hp
      refine ⟨rfl, rfl, rfl, rfl, rfl, h, ⟨?_, .inr ⟨ev, by simp [hst], hb⟩⟩, ?_, ?_, rfl⟩ <;>
        simp [Lof, hst, hf, hw]
    · by_cases he : ev.1.isEnding = true
      · simp [hb, he, hst] at hp
      · simp [hb, he] at hp
        obtain ⟨rfl, rfl⟩ := hp
        cases hw with
        | opn _ _ hbb => exact absurd hbb hb
        | pair _ _ _ _ hbb => exact absurd hbb hb
        | ctx _ _ _ h1 h2 hh hs hw' =>
          refine ⟨rfl, rfl, rfl, rfl, rfl, ev.2 + 1, ⟨?_, .inl hst⟩, ?_, ?_, hh, lexGood_of_ctx h1 h2 hs, rfl⟩
          · simpa [Lof, hst] using hw'
          · simp [Lof, hst, hf, bndL, evEnd, h1]
          · simp [Lof, hst, hf, lastOpen, lastOpenA, h1]
  · -- one open Begin on the event stack
    simp only [Lof, hst, hf, List.reverse_cons, List.reverse_nil, List.nil_append, List.singleton_append] at hw
    cases hw with
    | pair _ _ _ _ _ hh hg hw' =>
      obtain ⟨_, he, heb, _⟩ := matches_begin_end hg.1
      simp [heb, he, hst, hg.1] at hp
      obtain ⟨rfl, rfl⟩ := hp
      refine ⟨rfl, rfl, rfl, rfl, rfl, ev.2 + 1, ⟨?_, .inl rfl⟩, ?_, ?_, hh, lexGood_of_pair hg, rfl⟩
      · simpa [Lof] using hw'
      · simp [Lof, hst, hf, bndL, evEnd, heb]
      · simp [Lof, hst, hf, lastOpen, lastOpenA, heb]
    | ctx _ _ _ h1 => simp [hbb] at h1

/-! ### the state relation between byte steps -/

/-- the bytes from `p` on belong to the byte classes `pat` -/
def MatchAt (d : Src) : Nat → List (List UInt8) → Prop
  | _, [] => True
  | p, cls :: r => cls.contains (d.get p) = true ∧ MatchAt d (p + 1) r

/-- what the certificate of the state about to run says about the open Begin `lo`, the end boundary `B` of
the last found event and the index `cur` of the next byte -/
def EntRel (C : Certs) (d : Src) (o : Oracle) (st : St) (cur B : Nat) (lo : Option Evp) : Prop :=
  ∃ ce, C.cert st = some ce ∧ lo.map (·.1) = ce.opn ∧ B + ce.gap ≤ cur ∧
    (∀ p, lo = some (.keywordBegin, p) → p + ce.spell.length = cur ∧ MatchAt d p ce.spell) ∧
    (∀ p, lo = some (.schemaBegin, p) → ∃ k, o.schemaLen p = .len k ∧ cur = p + k) ∧
    (∀ p, lo = some (.enumBegin, p) → ∃ k, o.enumLen p = .len k ∧ cur = p + max k 1)

structure StRel (C : Certs) (d : Src) (o : Oracle) (h : Nat) (sc : Sc) : Prop where
  ev : EvInv d o h sc
  rew : sc.rew = 0
  stk : ∀ s ∈ sc.stack, C.stackable.contains s = true
  ent : sc.cur ≤ d.size → EntRel C d o sc.step sc.cur (bndL h (Lof sc)) (lastOpen (Lof sc))

/-- the relation only depends on these components -/
theorem StRel.transfer {C d o h h'} {sc sc' : Sc} (r : StRel C d o h sc)
    (h1 : sc'.step = sc.step) (h2 : sc'.stack = sc.stack) (h3 : sc'.cur = sc.cur) (h4 : sc'.rew = sc.rew)
    (hev : EvInv d o h' sc') (hb : bndL h' (Lof sc') = bndL h (Lof sc))
    (hl : lastOpen (Lof sc') = lastOpen (Lof sc)) : StRel C d o h' sc' :=
  ⟨hev, by rw [h4]; exact r.rew, by rw [h2]; exact r.stk, by rw [h1, h3, hb, hl]; exact r.ent⟩

/-- result of a loop that may deliver one lexeme -/
def Deliver (C : Certs) (d : Src) (o : Oracle) (h : Nat) (ol : Option Lexeme) (sc' : Sc) : Prop :=
  ∃ h', StRel C d o h' sc' ∧
    (match ol with
     | none => h' = h
     | some l => h ≤ l.b ∧ LexGood d o l ∧ h' = l.e1)

theorem drainFinds_inv {C d o} : ∀ (n : Nat) (h : Nat) (sc sc' : Sc) (ol : Option Lexeme),
    StRel C d o h sc → drainFinds n sc = .ok (ol, sc') → Deliver C d o h ol sc' := by
  intro n
  induction n with
  | zero =>
    intro h sc sc' ol r hd
    simp [drainFinds] at hd
    obtain ⟨rfl, rfl⟩ := hd
    exact ⟨h, r, rfl⟩
  | succ n ih =>
    intro h sc sc' ol r hd
    unfold drainFinds at hd
    cases hf : sc.finds with
    | nil => simp [hf] at hd
    | cons ev rest =>
      simp only [hf] at hd
      cases hp : processEvent { sc with finds := rest } ev with
      | error s => simp [hp] at hd
      | ok res =>
        obtain ⟨ol1, sc1⟩ := res
        obtain ⟨h1, h2, h3, h4, _, h', hev, hb, hl, hm⟩ := processEvent_inv hf r.ev hp
        have r1 : StRel C d o h' sc1 := r.transfer h1 h2 h3 h4 hev hb hl
        cases ol1 with
        | none =>
          simp only [hp] at hd
          simp only at hm
          subst hm
          exact ih _ _ _ _ r1 hd
        | some lex =>
          simp only [hp] at hd
          simp only [Except.ok.injEq, Prod.mk.injEq] at hd
          obtain ⟨rfl, rfl⟩ := hd
          refine ⟨h', ?_, hm⟩
          cases lex.ty <;> exact r1.transfer rfl rfl rfl rfl (by simpa [EvInv, Lof] using r1.ev) rfl rfl

/-! ### path conditions and patterns -/

theorem Sat.top (c : UInt8) : PathCond.top.Sat c := by simp [PathCond.Sat, PathCond.top]

theorem Sat.thenP {c : UInt8} {P : PathCond} {bs : List UInt8} (h : P.Sat c) (hc : bs.contains c = true) :
    (P.thenP bs).Sat c := by
  obtain ⟨h1, h2⟩ := h
  refine ⟨?_, h2⟩
  intro p hp
  simp only [PathCond.thenP] at hp
  cases hpos : P.pos with
  | none =>
    simp [hpos] at hp; subst hp
    simp only [List.contains_eq_mem, decide_eq_true_eq, List.mem_filter] at *
    exact ⟨hc, by simpa using h2⟩
  | some q =>
    simp [hpos] at hp; subst hp
    have := h1 q hpos
    simp only [List.contains_eq_mem, decide_eq_true_eq, List.mem_filter] at *
    exact ⟨this, by simpa using hc⟩

theorem Sat.elseP {c : UInt8} {P : PathCond} {bs : List UInt8} (h : P.Sat c) (hc : bs.contains c = false) :
    (P.elseP bs).Sat c := by
  obtain ⟨h1, h2⟩ := h
  constructor
  · intro p hp
    simp only [PathCond.elseP] at hp
    cases hpos : P.pos with
    | none => simp [hpos] at hp
    | some q =>
      simp [hpos] at hp; subst hp
      have := h1 q hpos
      simp only [List.contains_eq_mem, decide_eq_true_eq, decide_eq_false_iff_not, List.mem_filter] at *
      exact ⟨this, by simpa using hc⟩
  · simp only [PathCond.elseP, List.contains_eq_mem, decide_eq_false_iff_not, List.mem_append, not_or] at *
    exact ⟨hc, h2⟩

theorem Sat.not_isEmpty {c : UInt8} {P : PathCond} (h : P.Sat c) : P.isEmpty = false := by
  unfold PathCond.isEmpty
  split
  · next hp => have := h.1 _ hp; simp at this
  · rfl

theorem Sat.nonzero {c : UInt8} {P : PathCond} (h : P.Sat c) (hn : P.nonzero = true) : c ≠ 0 := by
  intro hc; subst hc
  simp only [PathCond.nonzero, Bool.or_eq_true] at hn
  rcases hn with hn | hn
  · rw [h.2] at hn; cases hn
  · split at hn
    · next p hp => rw [h.1 p hp] at hn; cases hn
    · cases hn

theorem Sat.eofOnly {c : UInt8} {P : PathCond} (h : P.Sat c) (hn : P.eofOnly = true) : c = 0 := by
  unfold PathCond.eofOnly at hn
  split at hn
  · next p hp =>
    have := h.1 p hp
    simp only [List.contains_eq_mem, decide_eq_true_eq] at this
    simpa using (List.all_eq_true.mp hn) c this
  · cases hn

theorem MatchAt.append {d : Src} : ∀ {p : Nat} {sp : List (List UInt8)} {cls : List UInt8},
    MatchAt d p sp → cls.contains (d.get (p + sp.length)) = true → MatchAt d p (sp ++ [cls]) := by
  intro p sp
  induction sp generalizing p with
  | nil => intro cls _ h; simpa [MatchAt] using h
  | cons x r ih =>
    intro cls hm h
    obtain ⟨h1, h2⟩ := hm
    refine ⟨h1, ih h2 ?_⟩
    simpa [Nat.add_assoc, Nat.add_comm 1] using h

theorem slice_succ (d : Src) (p n : Nat) : d.slice p (p + (n + 1)) = d.get p :: d.slice (p + 1) (p + 1 + n) := by
  simp only [Src.slice]
  have e1 : p + (n + 1) - p = n + 1 := by omega
  have e2 : p + 1 + n - (p + 1) = n := by omega
  rw [e1, e2, List.range_succ_eq_map]
  simp [Function.comp_def, Nat.add_assoc, Nat.add_comm 1]

theorem MatchAt.mem_expand {d : Src} : ∀ {p : Nat} {pat : List (List UInt8)},
    MatchAt d p pat → d.slice p (p + pat.length) ∈ expand pat := by
  intro p pat
  induction pat generalizing p with
  | nil => intro _; simp [Src.slice, expand]
  | cons cls r ih =>
    intro hm
    obtain ⟨h1, h2⟩ := hm
    simp only [List.length_cons, slice_succ, expand, List.mem_flatMap, List.mem_map]
    exact ⟨d.get p, by simpa using h1, _, ih h2, rfl⟩

theorem isKw_of_match {d : Src} {p : Nat} {pat : List (List UInt8)} (hm : MatchAt d p pat)
    (hg : goodPattern pat = true) : isKw (d.slice p (p + pat.length)) = true :=
  (List.all_eq_true.mp hg) _ hm.mem_expand

/-! ### the relation inside a byte step, and soundness of the abstract ops -/

structure MidRel (C : Certs) (d : Src) (o : Oracle) (c : UInt8) (h : Nat) (a : AbsVal) (sc : Sc) : Prop where
  ev : EvInv d o h sc
  opn : (lastOpen (Lof sc)).map (·.1) = a.opn
  gap : bndL h (Lof sc) + a.G + sc.rew ≤ sc.cur + 1
  rw : a.rw = false → sc.rew = 0
  stk : ∀ s ∈ sc.stack, C.stackable.contains s = true
  reg : match a.reg with
    | some r => sc.step = r
    | none => C.stackable.contains sc.step = true
  kw : ∀ p, lastOpen (Lof sc) = some (.keywordBegin, p) → p + a.sp.length = sc.cur ∧ MatchAt d p a.sp
  exS : ∀ p, lastOpen (Lof sc) = some (.schemaBegin, p) → ∃ k, o.schemaLen p = .len k ∧ sc.cur = p + k
  exE : ∀ p, lastOpen (Lof sc) = some (.enumBegin, p) → ∃ k, o.enumLen p = .len k ∧ sc.cur = p + max k 1
  sat : a.P.Sat c
  cur : sc.cur ≤ d.size
  byte : c = curByte d sc
  nz : sc.cur ≠ d.size → c ≠ 0

theorem MidRel.byte_get {C d o c h a} {sc : Sc} (m : MidRel C d o c h a sc) (hc : c ≠ 0) :
    sc.cur < d.size ∧ c = d.get sc.cur := by
  have hb := m.byte
  unfold curByte at hb
  by_cases he : sc.cur = d.size
  · simp [he] at hb; exact absurd hb hc
  · simp [he] at hb
    exact ⟨Nat.lt_of_le_of_ne m.cur he, hb⟩

theorem lastOpen_none_of_map {L : List Evp} (h : (lastOpen L).map (·.1) = none) : lastOpen L = none := by
  cases hl : lastOpen L <;> simp [hl] at h ⊢

theorem found_sound {C d o c h a a'} {sc : Sc} {e : Ev} {back : Nat}
    (m : MidRel C d o c h a sc) (ha : aOp C a (.found e back) = some a') (hb : back ≤ sc.cur) :
    MidRel C d o c h a' { sc with finds := sc.finds ++ [(e, sc.cur - back)] } := by
  have hL : Lof { sc with finds := sc.finds ++ [(e, sc.cur - back)] } = Lof sc ++ [(e, sc.cur - back)] := by
    simp [Lof]
  have hrw : a.rw = false := by
    cases hr : a.rw
    · rfl
    · simp [aOp, hr] at ha
  have hrew := m.rw hrw
  have hgap := m.gap
  rw [hrew] at hgap
  have hcur := m.cur
  by_cases hB : e.isBeginning = true
  · -- a Begin
    simp [aOp, hrw, hB] at ha
    obtain ⟨⟨⟨⟨hopn, hG⟩, hlib⟩, hkw⟩, rfl⟩ := ha
    have hlo : lastOpen (Lof sc) = none := lastOpen_none_of_map (by rw [m.opn, hopn])
    refine ⟨⟨?_, m.ev.2⟩, ?_, ?_, ?_, m.stk, m.reg, ?_, ?_, ?_, m.sat, hcur, m.byte, m.nz⟩
    · rw [hL]; exact m.ev.1.append_new _ hlo (by simp; omega) (.inl hB)
    · rw [hL, lastOpen_append]; simp [hB]
    · rw [hL, bndL_append]; simp [evEnd, hB, hrew]; omega
    · intro _; exact hrew
    · intro p hp
      rw [hL, lastOpen_append] at hp
      simp [hB] at hp
      obtain ⟨he, hp⟩ := hp
      subst he
      simp at hkw
      subst hkw
      simp at hp
      subst hp
      simp [MatchAt]
    · intro p hp
      rw [hL, lastOpen_append] at hp
      simp [hB] at hp
      obtain ⟨he, _⟩ := hp
      subst he
      simp [isLib] at hlib
    · intro p hp
      rw [hL, lastOpen_append] at hp
      simp [hB] at hp
      obtain ⟨he, _⟩ := hp
      subst he
      simp [isLib] at hlib
  · by_cases hE : e.isEnding = true
    · -- an End
      cases hopn : a.opn with
      | none => simp [aOp, hrw, hB, hE, hopn] at ha
      | some b =>
        simp [aOp, hrw, hB, hE, hopn] at ha
        obtain ⟨⟨⟨⟨⟨hmt, hG⟩, hnz⟩, hlib⟩, hkw⟩, rfl⟩ := ha
        have hmo := m.opn
        rw [hopn] at hmo
        cases hlo : lastOpen (Lof sc) with
        | none => simp [hlo] at hmo
        | some bp =>
          obtain ⟨b', p⟩ := bp
          simp [hlo] at hmo
          subst hmo
          have hbp := lastOpen_some (h := h) hlo
          simp at hbp
          have hend : sc.cur - back + 1 ≤ d.size := by
            rcases hnz with hnz | hnz
            · omega
            · have := (m.byte_get (Sat.nonzero m.sat hnz)).1; omega
          have hg : GoodPair d o (b', p) (e, sc.cur - back) := by
            refine ⟨hmt, by simp; omega, hend, ?_, ?_, ?_⟩
            · intro hb'
              simp at hb'
              subst hb'
              simp [isLib] at hlib
              subst hlib
              obtain ⟨k, hk1, hk2⟩ := m.exS p hlo
              exact ⟨k, hk1, by simp; omega⟩
            · intro hb'
              simp at hb'
              subst hb'
              simp [isLib] at hlib
              subst hlib
              obtain ⟨k, hk1, hk2⟩ := m.exE p hlo
              exact ⟨k, hk1, by simp; omega⟩
            · intro hb'
              simp at hb'
              subst hb'
              simp at hkw
              obtain ⟨hb0, hkw⟩ := hkw
              subst hb0
              cases hpos : a.P.pos with
              | none => simp [hpos] at hkw
              | some cls =>
                simp [hpos] at hkw
                obtain ⟨hz, hgp⟩ := hkw
                have hcc := m.sat.1 cls hpos
                have hc0 : c ≠ 0 := by
                  intro h0; subst h0
                  simp at hcc
                  exact hz hcc
                obtain ⟨_, hget⟩ := m.byte_get hc0
                obtain ⟨hk1, hk2⟩ := m.kw p hlo
                have hm2 : MatchAt d p (a.sp ++ [cls]) := hk2.append (by rw [hk1, ← hget]; exact hcc)
                have := isKw_of_match hm2 hgp
                simp at this ⊢
                rw [← hk1]
                simpa [Nat.add_assoc] using this
          refine ⟨⟨?_, m.ev.2⟩, ?_, ?_, ?_, m.stk, m.reg, ?_, ?_, ?_, m.sat, hcur, m.byte, m.nz⟩
          · rw [hL]; exact m.ev.1.append_end _ _ hlo hg
          · rw [hL, lastOpen_append]; simp [hB]
          · rw [hL, bndL_append]; simp [evEnd, hB, hrew]; omega
          · intro _; exact hrew
          · intro p hp; rw [hL, lastOpen_append] at hp; simp [hB] at hp
          · intro p hp; rw [hL, lastOpen_append] at hp; simp [hB] at hp
          · intro p hp; rw [hL, lastOpen_append] at hp; simp [hB] at hp
    · -- a context event
      simp [aOp, hrw, hB, hE] at ha
      obtain ⟨⟨⟨hopn, hG⟩, hnz⟩, rfl⟩ := ha
      have hlo : lastOpen (Lof sc) = none := lastOpen_none_of_map (by rw [m.opn, hopn])
      have hend : sc.cur - back + 1 ≤ d.size := by
        rcases hnz with hnz | hnz
        · omega
        · have := (m.byte_get (Sat.nonzero m.sat hnz)).1; omega
      refine ⟨⟨?_, m.ev.2⟩, ?_, ?_, ?_, m.stk, m.reg, ?_, ?_, ?_, m.sat, hcur, m.byte, m.nz⟩
      · rw [hL]; exact m.ev.1.append_new _ hlo (by simp; omega) (.inr ⟨by simpa using hE, hend⟩)
      · rw [hL, lastOpen_append]; simp [hB, hopn]
      · rw [hL, bndL_append]; simp [evEnd, hB, hrew]; omega
      · intro _; exact hrew
      · intro p hp; rw [hL, lastOpen_append] at hp; simp [hB] at hp
      · intro p hp; rw [hL, lastOpen_append] at hp; simp [hB] at hp
      · intro p hp; rw [hL, lastOpen_append] at hp; simp [hB] at hp

theorem curByte_congr {d : Src} {sc sc' : Sc} (h : sc'.cur = sc.cur) : curByte d sc' = curByte d sc := by
  simp [curByte, h]

theorem aOp_sound {C d o c h a a'} {sc sc' : Sc} {op : Op St}
    (m : MidRel C d o c h a sc) (ha : aOp C a op = some a') (he : execOp sc op = .ok sc') :
    MidRel C d o c h a' sc' := by
  cases op with
  | setStep s =>
    simp [aOp] at ha; subst ha
    simp [execOp] at he; subst he
    exact ⟨m.ev, m.opn, m.gap, m.rw, m.stk, rfl, m.kw, m.exS, m.exE, m.sat, m.cur, m.byte, m.nz⟩
  | push s =>
    simp [aOp] at ha
    obtain ⟨hs, rfl⟩ := ha
    simp [execOp] at he; subst he
    refine ⟨m.ev, m.opn, m.gap, m.rw, ?_, m.reg, m.kw, m.exS, m.exE, m.sat, m.cur, m.byte, m.nz⟩
    intro t ht
    rcases List.mem_cons.mp ht with rfl | ht
    · simpa using hs
    · exact m.stk t ht
  | pushCur =>
    simp [execOp] at he; subst he
    have hreg := m.reg
    have hs : C.stackable.contains sc.step = true ∧ a' = a := by
      cases hr : a.reg with
      | none => simp [aOp, hr] at ha; rw [hr] at hreg; exact ⟨hreg, ha.symm⟩
      | some r =>
        simp [aOp, hr] at ha
        rw [hr] at hreg
        simp at hreg
        exact ⟨by rw [hreg]; simpa using ha.1, ha.2.symm⟩
    obtain ⟨hs, rfl⟩ := hs
    refine ⟨m.ev, m.opn, m.gap, m.rw, ?_, m.reg, m.kw, m.exS, m.exE, m.sat, m.cur, m.byte, m.nz⟩
    intro t ht
    rcases List.mem_cons.mp ht with rfl | ht
    · exact hs
    · exact m.stk t ht
  | popToStep =>
    simp [aOp] at ha; subst ha
    unfold execOp at he
    cases hst : sc.stack with
    | nil => simp [hst] at he
    | cons t r =>
      simp [hst] at he; subst he
      refine ⟨m.ev, m.opn, m.gap, m.rw, ?_, ?_, m.kw, m.exS, m.exE, m.sat, m.cur, m.byte, m.nz⟩
      · intro s hs; exact m.stk s (by rw [hst]; exact List.mem_cons_of_mem _ hs)
      · exact m.stk t (by rw [hst]; exact List.mem_cons_self)
  | rewind n =>
    simp [aOp] at ha
    obtain ⟨hn, rfl⟩ := ha
    simp [execOp] at he; subst he
    refine ⟨m.ev, m.opn, ?_, ?_, m.stk, m.reg, m.kw, m.exS, m.exE, m.sat, m.cur, m.byte, m.nz⟩
    · have := m.gap; simp [Lof] at this ⊢; omega
    · intro hf; simp at hf
  | found e back =>
    unfold execOp at he
    by_cases hb : back ≤ sc.cur
    · simp [hb] at he; subst he
      exact found_sound m ha hb
    · simp [hb] at he

theorem aOps_sound {C d o c h} : ∀ (ops : List (Op St)) {a a'} {sc sc' : Sc},
    MidRel C d o c h a sc → aOps C a ops = some a' → execOps sc ops = .ok sc' → MidRel C d o c h a' sc' := by
  intro ops
  induction ops with
  | nil =>
    intro a a' sc sc' m ha he
    simp [aOps] at ha; simp [execOps] at he
    subst ha; subst he; exact m
  | cons op r ih =>
    intro a a' sc sc' m ha he
    unfold aOps at ha
    unfold execOps at he
    cases h1 : aOp C a op with
    | none => simp [h1] at ha
    | some a1 =>
      cases h2 : execOp sc op with
      | error f => simp [h2] at he
      | ok sc1 =>
        simp only [h1] at ha
        simp only [h2] at he
        exact ih (aOp_sound m h1 h2) ha he

/-! ### the end of a byte step -/

/-- what holds after the step function(s) returned, once `curIndex++` (and the pending rewind) is applied -/
def PostRel (C : Certs) (d : Src) (o : Oracle) (h : Nat) (sc1 : Sc) : Prop :=
  sc1.rew ≤ sc1.cur + 1 → StRel C d o h { sc1 with cur := sc1.cur + 1 - sc1.rew, rew := 0 }

theorem MidRel.withP {C d o c h a} {sc : Sc} (m : MidRel C d o c h a sc) {P : PathCond} (hP : P.Sat c) :
    MidRel C d o c h { a with P := P } sc :=
  ⟨m.ev, m.opn, m.gap, m.rw, m.stk, m.reg, m.kw, m.exS, m.exE, hP, m.cur, m.byte, m.nz⟩

theorem mem_of_contains {l : List St} {s : St} (h : l.contains s = true) : s ∈ l := by simpa using h

theorem entryDone_sound {C d o c h a} {sc : Sc} (m : MidRel C d o c h a sc)
    (he : entryDone C a sc.step = true) : PostRel C d o h sc := by
  intro hrw
  refine ⟨by simpa [EvInv, Lof] using m.ev, rfl, m.stk, ?_⟩
  intro _
  unfold entryDone at he
  cases hce : C.cert sc.step with
  | none => simp [hce] at he
  | some ce =>
    simp only [hce, Bool.and_eq_true, beq_iff_eq, decide_eq_true_eq] at he
    obtain ⟨⟨ho, hg⟩, hm⟩ := he
    have hgap := m.gap
    refine ⟨ce, hce, ?_, ?_, ?_, ?_, ?_⟩
    · simp only [Lof]; rw [ho]; exact m.opn
    · simp only [Lof] at hgap ⊢; omega
    · intro p hp
      have hlo : lastOpen (Lof sc) = some (.keywordBegin, p) := hp
      have hopn := m.opn
      rw [hlo] at hopn
      simp at hopn
      rw [← hopn] at hm
      simp at hm
      obtain ⟨_, hrw', hm⟩ := hm
      cases hpos : a.P.pos with
      | none => simp [hpos] at hm
      | some cls =>
        simp [hpos] at hm
        obtain ⟨hz, hsp⟩ := hm
        have hcc := m.sat.1 cls hpos
        have hc0 : c ≠ 0 := by
          intro h0; subst h0
          simp at hcc
          exact hz hcc
        obtain ⟨_, hget⟩ := m.byte_get hc0
        obtain ⟨hk1, hk2⟩ := m.kw p hlo
        have hr0 := m.rw hrw'
        rw [hsp]
        refine ⟨?_, hk2.append (by rw [hk1, ← hget]; exact hcc)⟩
        simp [hr0]; omega
    · intro p hp
      have hlo : lastOpen (Lof sc) = some (.schemaBegin, p) := hp
      have hopn := m.opn
      rw [hlo] at hopn
      simp at hopn
      rw [← hopn] at hm
      simp [isLib] at hm
    · intro p hp
      have hlo : lastOpen (Lof sc) = some (.enumBegin, p) := hp
      have hopn := m.opn
      rw [hlo] at hopn
      simp at hopn
      rw [← hopn] at hm
      simp [isLib] at hm

theorem done_sound {C d o c h a} {run : St → AbsVal → Bool} {sc : Sc} (m : MidRel C d o c h a sc)
    (hc : aCont C run a .done = true) : PostRel C d o h sc := by
  simp only [aCont, Bool.or_eq_true, Bool.and_eq_true] at hc
  rcases hc with ⟨he, hrw⟩ | hc
  · -- the EOF step: no step follows
    intro _
    have hc0 := Sat.eofOnly m.sat he
    have hcur : sc.cur = d.size := by
      apply Classical.byContradiction
      intro hne
      exact m.nz hne hc0
    have hr0 := m.rw (by simpa using hrw)
    refine ⟨by simpa [EvInv, Lof] using m.ev, rfl, m.stk, ?_⟩
    intro hle
    simp [hr0, hcur] at hle; omega
  · apply entryDone_sound m
    have hreg := m.reg
    cases hr : a.reg with
    | some r => simp [hr] at hc hreg; rw [hreg]; exact hc
    | none =>
      simp only [hr] at hc hreg
      exact (List.all_eq_true.mp hc) _ (mem_of_contains hreg)

theorem lib_sound {C d o c h a} {sc sc1 : Sc} {begin : Ev} {closing : St} {ans : LenAns} {z : Bool}
    (m : MidRel C d o c h a sc) (hl : libOK C a begin closing = true)
    (hb : begin.isBeginning = true) (hK : begin ≠ .keywordBegin)
    (hS : begin = .schemaBegin → ans = o.schemaLen sc.cur ∧ z = (c != 0))
    (hE : begin = .enumBegin → ans = o.enumLen sc.cur)
    (hlb : libBody sc begin ans closing z = .ok sc1) : PostRel C d o h sc1 := by
  unfold libBody at hlb
  cases ans with
  | miss => simp at hlb
  | err pos => simp at hlb
  | len n =>
    simp only at hlb
    by_cases hz : (n == 0 && z) = true
    · simp [hz] at hlb
    · simp only [hz, if_false, Except.ok.injEq, Bool.false_eq_true] at hlb
      subst hlb
      unfold libOK at hl
      cases hce : C.cert closing with
      | none => simp [hce] at hl
      | some ce =>
        simp only [hce, Bool.and_eq_true, beq_iff_eq, decide_eq_true_eq, Option.isNone_iff_eq_none,
          Bool.not_eq_true'] at hl
        obtain ⟨⟨⟨hopn, hG⟩, hrw⟩, hco, hcg⟩ := hl
        have hr0 := m.rw hrw
        have hgap := m.gap
        rw [hr0] at hgap
        have hlo : lastOpen (Lof sc) = none := lastOpen_none_of_map (by rw [m.opn, hopn])
        intro _
        have hL : ∀ (cur' rew' : Nat), Lof { sc with finds := sc.finds ++ [(begin, sc.cur)], cur := cur', step := closing, rew := rew' } = Lof sc ++ [(begin, sc.cur)] := by
          intros; simp [Lof]
        refine ⟨⟨?_, m.ev.2⟩, rfl, m.stk, ?_⟩
        · show WfL d o h (Lof _)
          rw [hL]; exact m.ev.1.append_new _ hlo (by simp; omega) (.inl hb)
        · intro hle
          show EntRel C d o closing _ (bndL h (Lof _)) (lastOpen (Lof _))
          rw [hL, bndL_append, lastOpen_append]
          simp only [hb, if_true, evEnd]
          simp only [hr0] at hle ⊢
          refine ⟨ce, hce, by simp [hco], by simp; omega, ?_, ?_, ?_⟩
          · intro p hp; simp at hp; exact absurd hp.1 hK
          · intro p hp
            simp at hp
            obtain ⟨hbs, rfl⟩ := hp
            obtain ⟨h1, h2⟩ := hS hbs
            refine ⟨n, h1.symm, ?_⟩
            cases n with
            | zero =>
              simp [h2] at hz
              have : sc.cur = d.size := by
                apply Classical.byContradiction
                intro hne
                exact m.nz hne hz
              simp at hle; omega
            | succ k => simp; omega
          · intro p hp
            simp at hp
            obtain ⟨hbs, rfl⟩ := hp
            refine ⟨n, (hE hbs).symm, ?_⟩
            simp; omega

/-! ### the interpreter -/

/-- the checked tree accepts the selected leaf, with a path condition the byte satisfies -/
theorem aCode_select {C : Certs} {run : St → AbsVal → Bool} {c : UInt8} (ev : Cond → Bool) :
    ∀ (code : Code St) (a : AbsVal), aCode C run a code = true → a.P.Sat c →
    ∃ P a', P.Sat c ∧ aOps C { a with P := P } (code.select c ev).1 = some a' ∧
      aCont C run a' (code.select c ev).2 = true := by
  intro code
  induction code with
  | leaf ops k =>
    intro a hc hs
    simp only [aCode] at hc
    cases ho : aOps C a ops with
    | none => simp [ho] at hc
    | some a' =>
      simp only [ho] at hc
      exact ⟨a.P, a', hs, by simpa [Code.select] using ho, by simpa [Code.select] using hc⟩
  | ifB bs t e iht ihe =>
    intro a hc hs
    simp only [aCode, Bool.and_eq_true, Bool.or_eq_true] at hc
    by_cases hb : bs.contains c = true
    · have hs' := Sat.thenP hs hb
      have hb2 : c ∈ bs := by simpa using hb
      rcases hc.1 with hemp | hc1
      · rw [Sat.not_isEmpty hs'] at hemp; cases hemp
      · obtain ⟨P, a', h1, h2, h3⟩ := iht _ hc1 hs'
        exact ⟨P, a', h1, by simpa [Code.select, hb2] using h2, by simpa [Code.select, hb2] using h3⟩
    · have hb' : bs.contains c = false := by simpa using hb
      have hs' := Sat.elseP hs hb'
      have hb2 : c ∉ bs := by simpa using hb
      rcases hc.2 with hemp | hc2
      · rw [Sat.not_isEmpty hs'] at hemp; cases hemp
      · obtain ⟨P, a', h1, h2, h3⟩ := ihe _ hc2 hs'
        exact ⟨P, a', h1, by simpa [Code.select, hb2] using h2, by simpa [Code.select, hb2] using h3⟩
  | ifC cd t e iht ihe =>
    intro a hc hs
    simp only [aCode, Bool.and_eq_true] at hc
    by_cases hb : ev cd = true
    · obtain ⟨P, a', h1, h2, h3⟩ := iht _ hc.1 hs
      exact ⟨P, a', h1, by simpa [Code.select, hb] using h2, by simpa [Code.select, hb] using h3⟩
    · obtain ⟨P, a', h1, h2, h3⟩ := ihe _ hc.2 hs
      exact ⟨P, a', h1, by simpa [Code.select, hb] using h2, by simpa [Code.select, hb] using h3⟩

theorem interp_sound {C : Certs} {d : Src} {o : Oracle} {c : UInt8} {h : Nat}
    (hT : ∀ st, stateOK C st = true) :
    ∀ (cf af : Nat) (st : St) (a : AbsVal) (sc sc1 : Sc), aRun C af st a = true → MidRel C d o c h a sc →
      interp d o c cf st sc = .ok sc1 → PostRel C d o h sc1 := by
  intro cf
  induction cf with
  | zero => intro af st a sc sc1 _ _ hi; simp [interp] at hi
  | succ cf ih =>
    intro af st a sc sc1 hr m hi
    cases af with
    | zero => simp [aRun] at hr
    | succ af =>
      simp only [aRun] at hr
      obtain ⟨P, a', hP, hops, hcont⟩ := aCode_select (c := c) (evalCond d sc) (code st) a hr m.sat
      unfold interp at hi
      generalize hsel : (code st).select c (evalCond d sc) = sel at hi hops hcont
      obtain ⟨ops, k⟩ := sel
      simp only at hi hops hcont
      cases he : execOps sc ops with
      | error f => simp [he] at hi
      | ok sc' =>
        simp only [he] at hi
        have m' := aOps_sound ops (m.withP hP) hops he
        cases k with
        | done =>
          simp only [Except.ok.injEq] at hi
          subst hi
          exact done_sound m' hcont
        | err => simp at hi
        | call s' => exact ih af s' a' sc' sc1 hcont m' hi
        | redispatch =>
          simp only at hi
          simp only [aCont] at hcont
          have hreg := m'.reg
          cases hr' : a'.reg with
          | some r =>
            simp only [hr'] at hcont hreg
            rw [hreg] at hi
            exact ih af r a' sc' sc1 hcont m' hi
          | none =>
            simp only [hr'] at hcont hreg
            have hen := (List.all_eq_true.mp hcont) _ (mem_of_contains hreg)
            unfold entryRedisp at hen
            cases hce : C.cert sc'.step with
            | none => simp [hce] at hen
            | some ce =>
              simp only [hce, Bool.and_eq_true, decide_eq_true_eq, Option.isNone_iff_eq_none,
                Bool.not_eq_true'] at hen
              obtain ⟨⟨⟨hco, hao⟩, hg⟩, hrw⟩ := hen
              have hst := hT sc'.step
              simp only [stateOK, hce] at hst
              have hlo : lastOpen (Lof sc') = none := lastOpen_none_of_map (by rw [m'.opn, hao])
              have hgap := m'.gap
              have m2 : MidRel C d o c h (entryAbs ce sc'.step) sc' := by
                refine ⟨m'.ev, ?_, ?_, fun _ => m'.rw hrw, m'.stk, rfl, ?_, ?_, ?_, Sat.top c, m'.cur, m'.byte, m'.nz⟩
                · simp [entryAbs, hlo, hco]
                · simp only [entryAbs]; omega
                · intro p hp; rw [hlo] at hp; cases hp
                · intro p hp; rw [hlo] at hp; cases hp
                · intro p hp; rw [hlo] at hp; cases hp
              exact ih absFuel sc'.step _ sc' sc1 hst m2 hi
        | jschema =>
          simp only at hi
          simp only [aCont] at hcont
          exact lib_sound m' hcont rfl (by decide) (fun _ => ⟨rfl, rfl⟩) (fun hh => by cases hh) hi
        | enumBody =>
          simp only at hi
          simp only [aCont] at hcont
          exact lib_sound m' hcont rfl (by decide) (fun hh => by cases hh) (fun _ => rfl) hi

/-- a byte step preserves the state relation -/
theorem byteStep_inv {C : Certs} {d : Src} {o : Oracle} (hT : ∀ st, stateOK C st = true) {h : Nat}
    {sc sc2 : Sc} (r : StRel C d o h sc) (hc : sc.cur ≤ d.size) (hs : byteStep d o sc = .ok sc2) :
    StRel C d o h sc2 := by
  unfold byteStep at hs
  simp only at hs
  by_cases hnul : (sc.cur != d.size && curByte d sc == 0) = true
  · simp [hnul] at hs
  · simp only [hnul, if_false, Bool.false_eq_true] at hs
    cases hi : interp d o (curByte d sc) stepFuel sc.step sc with
    | error s => simp [hi] at hs
    | ok sc1 =>
      simp only [hi] at hs
      by_cases hrew : sc1.rew > sc1.cur + 1
      · simp [hrew] at hs
      · simp only [hrew, if_false, Except.ok.injEq] at hs
        subst hs
        obtain ⟨ce, hce, ho, hg, hkw, hS, hE⟩ := r.ent hc
        have hst := hT sc.step
        simp only [stateOK, hce] at hst
        have m : MidRel C d o (curByte d sc) h (entryAbs ce sc.step) sc := by
          refine ⟨r.ev, ho, ?_, fun _ => r.rew, r.stk, rfl, hkw, hS, hE, Sat.top _, hc, rfl, ?_⟩
          · simp only [entryAbs, r.rew]; omega
          · intro hne h0
            apply hnul
            simp [hne, h0]
        exact interp_sound hT _ _ _ _ _ _ hst m hi (Nat.le_of_not_gt hrew)

theorem stRel_init {C : Certs} {d : Src} {o : Oracle} (hI : initOK C = true) : StRel C d o 0 Sc.init := by
  unfold initOK at hI
  cases hce : C.cert .stateRoot with
  | none => simp [hce] at hI
  | some ce =>
    simp only [hce, Bool.and_eq_true, beq_iff_eq, Option.isNone_iff_eq_none] at hI
    refine ⟨⟨by simpa [Lof, Sc.init] using WfL.nil 0, .inl rfl⟩, rfl, by simp [Sc.init], ?_⟩
    intro _
    refine ⟨ce, hce, ?_, ?_, ?_, ?_, ?_⟩ <;> simp [Lof, Sc.init, lastOpen, lastOpenA, bndL, hI.1, hI.2]

/-! ### the loops of `Next` and `lexAll`, given that a byte step preserves the relation -/

def StepOK (C : Certs) (d : Src) (o : Oracle) : Prop :=
  ∀ (h : Nat) (sc sc2 : Sc), StRel C d o h sc → sc.cur ≤ d.size → byteStep d o sc = .ok sc2 → StRel C d o h sc2

theorem byteLoop_inv {C d o} (HS : StepOK C d o) : ∀ (fuel : Nat) (h : Nat) (sc sc' : Sc) (ol : Option Lexeme),
    StRel C d o h sc → byteLoop d o fuel sc = .ok (ol, sc') → Deliver C d o h ol sc' := by
  intro fuel
  induction fuel with
  | zero => intro h sc sc' ol r hb; simp [byteLoop] at hb
  | succ fuel ih =>
    intro h sc sc' ol r hb
    unfold byteLoop at hb
    by_cases hc : sc.cur > d.size
    · simp [hc] at hb
      obtain ⟨rfl, rfl⟩ := hb
      exact ⟨h, r, rfl⟩
    · simp only [hc, if_false] at hb
      cases hs : byteStep d o sc with
      | error s => simp [hs] at hb
      | ok sc2 =>
        simp only [hs] at hb
        have r2 := HS h sc sc2 r (Nat.le_of_not_gt hc) hs
        cases hd : drainFinds sc2.finds.length sc2 with
        | error s => simp [hd] at hb
        | ok res =>
          obtain ⟨ol3, sc3⟩ := res
          have dl := drainFinds_inv _ _ _ _ _ r2 hd
          cases ol3 with
          | some lex =>
            simp [hd] at hb
            obtain ⟨rfl, rfl⟩ := hb
            exact dl
          | none =>
            simp only [hd] at hb
            obtain ⟨h', r3, hm⟩ := dl
            simp only at hm
            subst hm
            exact ih _ _ _ _ r3 hb

theorem next_inv {C d o} (HS : StepOK C d o) {fuel h} {sc sc' : Sc} {ol : Option Lexeme}
    (r : StRel C d o h sc) (hn : next d o fuel sc = .ok (ol, sc')) : Deliver C d o h ol sc' := by
  unfold next at hn
  cases hf : sc.finds with
  | nil => simp only [hf] at hn; exact byteLoop_inv HS _ _ _ _ _ r hn
  | cons ev rest =>
    simp only [hf] at hn
    cases hp : processEvent { sc with finds := rest } ev with
    | error s => simp [hp] at hn
    | ok res =>
      obtain ⟨ol1, sc1⟩ := res
      obtain ⟨h1, h2, h3, h4, _, h', hev, hb, hl, hm⟩ := processEvent_inv hf r.ev hp
      have r1 : StRel C d o h' sc1 := r.transfer h1 h2 h3 h4 hev hb hl
      cases ol1 with
      | none =>
        simp only [hp] at hn
        simp only at hm
        subst hm
        exact byteLoop_inv HS _ _ _ _ _ r1 hn
      | some lex =>
        simp [hp] at hn
        obtain ⟨rfl, rfl⟩ := hn
        exact ⟨h', r1, hm⟩

theorem lexAll_inv {C d o} (HS : StepOK C d o) : ∀ (n : Nat) (h : Nat) (sc : Sc) (acc : List Lexeme),
    StRel C d o h sc → List.Pairwise (fun l₂ l₁ : Lexeme => l₁.e1 ≤ l₂.b) acc →
    (∀ l ∈ acc, l.e1 ≤ h) → (∀ l ∈ acc, LexGood d o l) →
    List.Pairwise (fun l₁ l₂ : Lexeme => l₁.e1 ≤ l₂.b) (lexAll d o n sc acc).1 ∧
    ∀ l ∈ (lexAll d o n sc acc).1, LexGood d o l := by
  intro n
  induction n with
  | zero =>
    intro h sc acc r hp hh hg
    simp only [lexAll]
    exact ⟨List.pairwise_reverse.mpr hp, fun l hl => hg l (List.mem_reverse.mp hl)⟩
  | succ n ih =>
    intro h sc acc r hp hh hg
    unfold lexAll
    cases hn : next d o (4 * (d.size + 2)) sc with
    | error s => exact ⟨List.pairwise_reverse.mpr hp, fun l hl => hg l (List.mem_reverse.mp hl)⟩
    | ok res =>
      obtain ⟨ol, sc'⟩ := res
      cases ol with
      | none => exact ⟨List.pairwise_reverse.mpr hp, fun l hl => hg l (List.mem_reverse.mp hl)⟩
      | some lex =>
        obtain ⟨h', r', hb, hlg, rfl⟩ := next_inv HS r hn
        apply ih lex.e1 sc' (lex :: acc) r'
        · exact List.pairwise_cons.mpr ⟨fun l0 hl0 => Nat.le_trans (hh l0 hl0) hb, hp⟩
        · intro l hl
          rcases List.mem_cons.mp hl with rfl | hl
          · exact Nat.le_refl _
          · exact Nat.le_trans (hh l hl) (Nat.le_trans hb hlg.1)
        · intro l hl
          rcases List.mem_cons.mp hl with rfl | hl
          · exact hlg
          · exact hg l hl

/-! ### the table theorem and the run-level result -/

theorem St.mem_all : ∀ st : St, st ∈ St.all := by intro st; cases st <;> decide

/-- the abstract interpretation of every state function of the CURRENT generated table succeeds with the
certificates computed from that table -/
theorem table_ok : ∀ st ∈ St.all, stateOK certs st = true := by decide +kernel

theorem init_ok : initOK certs = true := by decide +kernel

theorem stepOK (d : Src) (o : Oracle) : StepOK certs d o :=
  fun _ _ _ r hc hs => byteStep_inv (fun st => table_ok st (St.mem_all st)) r hc hs

/-- every lexeme of a run is good, and the lexemes are ordered -/
theorem lexAll_good (d : Src) (o : Oracle) (n : Nat) :
    List.Pairwise (fun l₁ l₂ : Lexeme => l₁.e1 ≤ l₂.b) (lexAll d o n Sc.init []).1 ∧
    ∀ l ∈ (lexAll d o n Sc.init []).1, LexGood d o l :=
  lexAll_inv (stepOK d o) n 0 Sc.init [] (stRel_init init_ok) List.Pairwise.nil (by simp) (by simp)

end JSight.ScanLex
