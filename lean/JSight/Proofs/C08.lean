import JSight.Model.IncName
/-!
Helper lemmas for C08 (include file names): `splitSlash` over concatenation, `cleanComps` as a fold.
Core Lean only.
-/
namespace JSight.C08
open JSight

theorem splitSlash_ne_nil (s : Bytes) : splitSlash s ≠ [] := by
  cases s with
  | nil => simp [splitSlash]
  | cons c r =>
    unfold splitSlash
    split
    · simp
    · split <;> simp

theorem splitSlash_slash (r : Bytes) : splitSlash (B.slash :: r) = [] :: splitSlash r := by
  rw [splitSlash]; simp

theorem splitSlash_cons_of_ne (c : UInt8) (r h : Bytes) (t : List Bytes) (hc : (c == B.slash) = false)
    (hr : splitSlash r = h :: t) : splitSlash (c :: r) = (c :: h) :: t := by
  rw [splitSlash, hc, hr]; simp

theorem splitSlash_append (a b : Bytes) :
    splitSlash (a ++ B.slash :: b) = splitSlash a ++ splitSlash b := by
  induction a with
  | nil => rw [List.nil_append, splitSlash_slash]; rfl
  | cons c r ih =>
    cases hc : c == B.slash
    · cases hr : splitSlash r with
      | nil => exact absurd hr (splitSlash_ne_nil r)
      | cons h t =>
        rw [splitSlash_cons_of_ne c r h t hc hr, List.cons_append,
          splitSlash_cons_of_ne c (r ++ B.slash :: b) h (t ++ splitSlash b) hc (by rw [ih, hr]; rfl)]
        rfl
    · have : c = B.slash := by simpa using hc
      subst this
      rw [List.cons_append, splitSlash_slash, splitSlash_slash, ih]; rfl

theorem cleanComps_cons_ex (r : Bool) (acc : List Bytes) (c : Bytes) :
    ∃ acc', ∀ zs, cleanComps r acc (c :: zs) = cleanComps r acc' zs := by
  by_cases h1 : c = [] ∨ c = [B.dot]
  · exact ⟨acc, fun zs => by rw [cleanComps, if_pos h1]⟩
  · by_cases h2 : c = [B.dot, B.dot]
    · cases hl : acc.getLast? with
      | none =>
        cases r with
        | true => exact ⟨acc, fun zs => by rw [cleanComps, if_neg h1, if_pos h2]; simp only [hl]; rfl⟩
        | false =>
          exact ⟨acc ++ [c], fun zs => by rw [cleanComps, if_neg h1, if_pos h2]; simp only [hl]; rfl⟩
      | some l =>
        by_cases h3 : l = [B.dot, B.dot]
        · exact ⟨acc ++ [c], fun zs => by
            rw [cleanComps, if_neg h1, if_pos h2]; simp only [hl, if_pos h3]⟩
        · exact ⟨acc.dropLast, fun zs => by
            rw [cleanComps, if_neg h1, if_pos h2]; simp only [hl, if_neg h3]⟩
    · exact ⟨acc ++ [c], fun zs => by rw [cleanComps, if_neg h1, if_neg h2]⟩

theorem cleanComps_append (r : Bool) (acc xs ys : List Bytes) :
    cleanComps r acc (xs ++ ys) = cleanComps r (cleanComps r acc xs) ys := by
  induction xs generalizing acc with
  | nil => rfl
  | cons c t ih =>
    obtain ⟨acc', h⟩ := cleanComps_cons_ex r acc c
    rw [List.cons_append, h, h, ih]

theorem cleanComps_plain (r : Bool) (acc ys : List Bytes)
    (h : ∀ c ∈ ys, c ≠ [B.dot] ∧ c ≠ [B.dot, B.dot]) :
    cleanComps r acc ys = acc ++ ys.filter (fun c => !c.isEmpty) := by
  induction ys generalizing acc with
  | nil => simp [cleanComps]
  | cons c t ih =>
    have hc := h c (List.mem_cons_self)
    have ht : ∀ c ∈ t, c ≠ [B.dot] ∧ c ≠ [B.dot, B.dot] := fun x hx => h x (List.mem_cons_of_mem _ hx)
    unfold cleanComps
    by_cases he : c = []
    · subst he
      rw [if_pos (Or.inl rfl), ih acc ht]
      simp
    · rw [if_neg (by intro h'; cases h' with | inl h' => exact he h' | inr h' => exact hc.1 h'),
        if_neg hc.2, ih _ ht]
      have : (!c.isEmpty) = true := by
        cases c with
        | nil => exact absurd rfl he
        | cons _ _ => rfl
      rw [List.filter_cons, if_pos this]
      simp

theorem isRooted_append (dir s : Bytes) (hd : dir ≠ []) : isRooted (dir ++ s) = isRooted dir := by
  cases dir with
  | nil => exact absurd rfl hd
  | cons c t => rfl

/-- what acceptance by `validName` means, one conjunct per `if` -/
theorem validName_ok (s : Bytes) (h : validName s = .ok ()) :
    ∃ c t, s = c :: t ∧ (c == B.slash) = false ∧
      (splitSlash s).any (fun p => decide (p = [B.dot] ∨ p = [B.dot, B.dot])) = false ∧
      s.contains B.bsl = false := by
  cases s with
  | nil => exact absurd h (by simp [validName])
  | cons c t =>
    refine ⟨c, t, rfl, ?_⟩
    simp only [validName] at h
    split at h
    · exact absurd h (by simp)
    · rename_i h1
      split at h
      · exact absurd h (by simp)
      · split at h
        · exact absurd h (by simp)
        · rename_i h3
          split at h
          · exact absurd h (by simp)
          · rename_i h4
            exact ⟨by simpa using h1, by simpa using h3, by simpa using h4⟩

end JSight.C08
