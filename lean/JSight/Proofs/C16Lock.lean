import JSight.Model.RWLock
/-!
C16 — helper lemmas for the lock-level model (`Model/RWLock.lean`): mutual exclusion and
linearisability of the `sync.RWMutex` discipline (core Lean only).
-/
namespace JSight.C16
open JSight JSight.RW

section Lock
variable {σ : Type}

/-! ### reading `holders`, `writerHolds`, `step` -/

theorem mem_holders (s : Sys σ) (i : Nat) : i ∈ holders s ↔ ∃ n, s.pcs[i]? = some (.holding n) := by
  unfold holders
  rw [List.mem_filter, List.mem_range]
  constructor
  · rintro ⟨_, h⟩
    split at h
    · next n e => exact ⟨n, e⟩
    · cases h
  · rintro ⟨n, e⟩
    refine ⟨?_, by rw [e]⟩
    exact (List.getElem?_eq_some_iff.mp e).1

theorem holders_nodup (s : Sys σ) : (holders s).Nodup :=
  List.Nodup.sublist List.filter_sublist List.nodup_range

theorem writerHolds_iff (s : Sys σ) :
    writerHolds s = true ↔
      ∃ (i n : Nat) (c : Call σ), s.pcs[i]? = some (.holding n) ∧ s.calls[i]? = some c ∧ c.mode = .w := by
  unfold writerHolds
  rw [List.any_eq_true]
  constructor
  · rintro ⟨i, hi, h⟩
    obtain ⟨n, hn⟩ := (mem_holders s i).mp hi
    split at h
    · next c e => exact ⟨i, n, c, hn, e, by simpa using h⟩
    · cases h
  · rintro ⟨i, n, c, hn, hc, hm⟩
    refine ⟨i, (mem_holders s i).mpr ⟨n, hn⟩, ?_⟩
    rw [hc]; simp [hm]

theorem getElem?_set_of_some {α} (l : List α) (i j : Nat) (a b : α) (h : l[i]? = some a) :
    (l.set i b)[j]? = if j = i then some b else l[j]? := by
  have hi : i < l.length := (List.getElem?_eq_some_iff.mp h).1
  by_cases hji : j = i
  · subst hji; simp [hi]
  · rw [if_neg hji]
    exact List.getElem?_set_ne (fun e => hji e.symm)

/-- the three kinds of scheduler step -/
theorem step_cases (s s' : Sys σ) (i : Nat) (h : step s i = some s') :
    (∃ c, s.calls[i]? = some c ∧ s.pcs[i]? = some .idle ∧
        ((c.mode = .r ∧ writerHolds s = false) ∨ (c.mode = .w ∧ holders s = [])) ∧
        s' = { s with pcs := s.pcs.set i (.holding 0), acquired := s.acquired ++ [i] }) ∨
    (∃ c n f, s.calls[i]? = some c ∧ s.pcs[i]? = some (.holding n) ∧ c.body[n]? = some f ∧
        s' = { s with pcs := s.pcs.set i (.holding (n + 1)), shared := f s.shared }) ∨
    (∃ c n, s.calls[i]? = some c ∧ s.pcs[i]? = some (.holding n) ∧ c.body[n]? = none ∧
        s' = { s with pcs := s.pcs.set i .finished }) := by
  unfold step at h
  split at h
  · next c hc hp =>
    left
    refine ⟨c, hc, hp, ?_⟩
    cases hm : c.mode with
    | r =>
      simp only [hm] at h
      by_cases hw : writerHolds s = true
      · simp [hw] at h
      · have hw' : writerHolds s = false := by simpa using hw
        simp [hw'] at h
        exact ⟨Or.inl ⟨rfl, hw'⟩, h.symm⟩
    | w =>
      simp only [hm] at h
      by_cases he : holders s = []
      · simp [he] at h
        exact ⟨Or.inr ⟨rfl, he⟩, h.symm⟩
      · simp [he] at h
  · next c n hc hp =>
    right
    split at h
    · next f hf => injection h with h; exact Or.inl ⟨c, n, f, hc, hp, hf, h.symm⟩
    · next hf => injection h with h; exact Or.inr ⟨c, n, hc, hp, hf, h.symm⟩
  · cases h

/-! ### the invariants -/

/-- the sequential result of the calls of the threads `acq`, whole bodies one after the other -/
def seqRes (calls : List (Call σ)) (x : σ) (acq : List Nat) : σ :=
  (acq.filterMap (fun i => calls[i]?)).foldl (fun acc c => c.apply acc) x

theorem seqRes_snoc (calls : List (Call σ)) (x : σ) (acq : List Nat) (i : Nat) (c : Call σ)
    (h : calls[i]? = some c) : seqRes calls x (acq ++ [i]) = c.apply (seqRes calls x acq) := by
  unfold seqRes
  rw [List.filterMap_append, List.foldl_append]
  simp [h]

/-- mutual exclusion invariant -/
structure Excl (calls : List (Call σ)) (s : Sys σ) : Prop where
  hcalls : s.calls = calls
  hlen : s.pcs.length = calls.length
  excl : ∀ (i n : Nat) (c : Call σ), s.pcs[i]? = some (.holding n) → calls[i]? = some c → c.mode = .w →
    ∀ j m, s.pcs[j]? = some (.holding m) → j = i

/-- state invariant: a holding writer has executed a prefix of its body on top of the sequential
result of the earlier acquirers; with no writer inside, `shared` is the sequential result -/
structure Lin (calls : List (Call σ)) (x : σ) (s : Sys σ) : Prop where
  wr : ∀ (i n : Nat) (c : Call σ), s.pcs[i]? = some (.holding n) → calls[i]? = some c → c.mode = .w →
    ∃ pre, s.acquired = pre ++ [i] ∧
      s.shared = (c.body.take n).foldl (fun a f => f a) (seqRes calls x pre)
  nowr : (∀ (i n : Nat) (c : Call σ), s.pcs[i]? = some (.holding n) → calls[i]? = some c → c.mode = .r) →
    s.shared = seqRes calls x s.acquired

theorem excl_init (calls : List (Call σ)) (x : σ) : Excl calls (init calls x) := by
  refine ⟨rfl, by simp [init], ?_⟩
  intro i n c hp
  simp only [init, List.getElem?_map] at hp
  cases h : calls[i]? <;> simp [h] at hp

theorem lin_init (calls : List (Call σ)) (x : σ) : Lin calls x (init calls x) := by
  refine ⟨?_, fun _ => rfl⟩
  intro i n c hp
  simp only [init, List.getElem?_map] at hp
  cases h : calls[i]? <;> simp [h] at hp

theorem mode_r_of_ne_w {m : Mode} (h : m ≠ .w) : m = .r := by
  cases m
  · rfl
  · exact absurd rfl h

theorem no_writer_of_writerHolds_false (s : Sys σ) (h : writerHolds s = false) :
    ∀ (i n : Nat) (c : Call σ), s.pcs[i]? = some (.holding n) → s.calls[i]? = some c → c.mode = .r := by
  intro i n c hp hc
  apply mode_r_of_ne_w
  intro hw
  have := (writerHolds_iff s).mpr ⟨i, n, c, hp, hc, hw⟩
  rw [h] at this; cases this

theorem no_holder_of_holders_nil (s : Sys σ) (h : holders s = []) :
    ∀ (i n : Nat), s.pcs[i]? ≠ some (.holding n) := by
  intro i n hp
  have := (mem_holders s i).mpr ⟨n, hp⟩
  rw [h] at this; cases this

theorem excl_step (calls : List (Call σ)) (s s' : Sys σ) (i : Nat)
    (hI : Excl calls s) (h : step s i = some s') : Excl calls s' := by
  obtain ⟨hcalls, hlen, hexcl⟩ := hI
  rcases step_cases s s' i h with ⟨c, hc, hp, hok, rfl⟩ | ⟨c, n, f, hc, hp, hf, rfl⟩ | ⟨c, n, hc, hp, hf, rfl⟩
  · -- acquire
    refine ⟨hcalls, by simpa using hlen, ?_⟩
    intro j n cj hpj hcj hwj k m hpk
    simp only [getElem?_set_of_some _ i _ _ _ hp] at hpj hpk
    rw [hcalls] at hc
    rcases hok with ⟨hr, hnw⟩ | ⟨hw, hnil⟩
    · -- a reader enters: no writer was inside
      have hno := no_writer_of_writerHolds_false s hnw
      by_cases hji : j = i
      · subst hji; rw [hc] at hcj; injection hcj with e; subst e; rw [hr] at hwj; cases hwj
      · rw [if_neg hji] at hpj
        have := hno j n cj hpj (hcalls ▸ hcj)
        rw [this] at hwj; cases hwj
    · -- a writer enters: nobody was inside
      have hno := no_holder_of_holders_nil s hnil
      by_cases hji : j = i
      · subst hji
        by_cases hki : k = j
        · exact hki
        · rw [if_neg hki] at hpk; exact absurd hpk (hno k m)
      · rw [if_neg hji] at hpj; exact absurd hpj (hno j n)
  · -- a micro-step of a holder: the set of holders is unchanged
    refine ⟨hcalls, by simpa using hlen, ?_⟩
    intro j n' cj hpj hcj hwj k m hpk
    simp only [getElem?_set_of_some _ i _ _ _ hp] at hpj hpk
    have hj : ∃ n'', s.pcs[j]? = some (.holding n'') := by
      by_cases hji : j = i
      · subst hji; exact ⟨n, hp⟩
      · rw [if_neg hji] at hpj; exact ⟨n', hpj⟩
    have hk : ∃ m', s.pcs[k]? = some (.holding m') := by
      by_cases hki : k = i
      · subst hki; exact ⟨n, hp⟩
      · rw [if_neg hki] at hpk; exact ⟨m, hpk⟩
    obtain ⟨n'', hj⟩ := hj
    obtain ⟨m', hk⟩ := hk
    exact hexcl j n'' cj hj hcj hwj k m' hk
  · -- release
    refine ⟨hcalls, by simpa using hlen, ?_⟩
    intro j n' cj hpj hcj hwj k m hpk
    simp only [getElem?_set_of_some _ i _ _ _ hp] at hpj hpk
    by_cases hji : j = i
    · subst hji; simp at hpj
    · by_cases hki : k = i
      · subst hki; simp at hpk
      · rw [if_neg hji] at hpj; rw [if_neg hki] at hpk
        exact hexcl j n' cj hpj hcj hwj k m hpk

theorem foldl_take_succ {α β} (g : β → α → β) (l : List α) (n : Nat) (a : α) (b : β)
    (h : l[n]? = some a) : (l.take (n + 1)).foldl g b = g ((l.take n).foldl g b) a := by
  rw [List.take_add_one, h, List.foldl_append]
  rfl

theorem take_of_getElem?_none {α} (l : List α) (n : Nat) (h : l[n]? = none) : l.take n = l :=
  List.take_of_length_le (List.getElem?_eq_none_iff.mp h)

theorem apply_id_of_ro (c : Call σ) (h : ∀ f ∈ c.body, ∀ y, f y = y) (y : σ) : c.apply y = y := by
  unfold Call.apply
  generalize c.body = b at h
  induction b generalizing y with
  | nil => rfl
  | cons f b ih =>
    rw [List.foldl_cons, h f (List.mem_cons_self ..)]
    exact ih y (fun g hg => h g (List.mem_cons_of_mem _ hg))

theorem lin_step (calls : List (Call σ)) (x : σ) (s s' : Sys σ) (i : Nat)
    (hro : ∀ c ∈ calls, c.mode = .r → ∀ f ∈ c.body, ∀ y, f y = y)
    (hE : Excl calls s) (hL : Lin calls x s) (h : step s i = some s') : Lin calls x s' := by
  obtain ⟨hcalls, hlen, hexcl⟩ := hE
  obtain ⟨hwr, hnowr⟩ := hL
  rcases step_cases s s' i h with ⟨c, hc, hp, hok, rfl⟩ | ⟨c, n, f, hc, hp, hf, rfl⟩ | ⟨c, n, hc, hp, hf, rfl⟩
  · -- acquire
    rw [hcalls] at hc
    have hcm : c ∈ calls := List.mem_of_getElem? hc
    rcases hok with ⟨hr, hnw⟩ | ⟨hw, hnil⟩
    · have hno := no_writer_of_writerHolds_false s hnw
      rw [hcalls] at hno
      have hsh : s.shared = seqRes calls x s.acquired := hnowr hno
      constructor
      · intro j n cj hpj hcj hwj
        simp only [getElem?_set_of_some _ i _ _ _ hp] at hpj
        by_cases hji : j = i
        · subst hji; rw [hc] at hcj; injection hcj with e; subst e; rw [hr] at hwj; cases hwj
        · rw [if_neg hji] at hpj
          have := hno j n cj hpj hcj
          rw [this] at hwj; cases hwj
      · intro _
        show s.shared = seqRes calls x (s.acquired ++ [i])
        rw [seqRes_snoc calls x _ i c hc, apply_id_of_ro c (hro c hcm hr), hsh]
    · have hno := no_holder_of_holders_nil s hnil
      have hsh : s.shared = seqRes calls x s.acquired :=
        hnowr (fun j n cj hpj _ => absurd hpj (hno j n))
      constructor
      · intro j n cj hpj hcj hwj
        simp only [getElem?_set_of_some _ i _ _ _ hp] at hpj
        by_cases hji : j = i
        · subst hji
          simp only [if_true] at hpj
          injection hpj with e; injection e with e; subst e
          exact ⟨s.acquired, rfl, by simpa using hsh⟩
        · rw [if_neg hji] at hpj; exact absurd hpj (hno j n)
      · intro hall
        have := hall i 0 c (by simp [getElem?_set_of_some _ i _ _ _ hp]) hc
        rw [this] at hw; cases hw
  · -- micro-step
    rw [hcalls] at hc
    have hcm : c ∈ calls := List.mem_of_getElem? hc
    cases hm : c.mode with
    | w =>
      obtain ⟨pre, hacq, hsh⟩ := hwr i n c hp hc hm
      constructor
      · intro j n' cj hpj hcj hwj
        simp only [getElem?_set_of_some _ i _ _ _ hp] at hpj
        by_cases hji : j = i
        · subst hji
          simp only [if_true] at hpj
          injection hpj with e; injection e with e; subst e
          rw [hc] at hcj; injection hcj with e; subst e
          refine ⟨pre, hacq, ?_⟩
          show f s.shared = _
          rw [foldl_take_succ _ _ _ _ _ hf, hsh]
        · rw [if_neg hji] at hpj
          exact absurd (hexcl i n c hp hc hm j n' hpj) hji
      · intro hall
        have := hall i (n + 1) c (by simp [getElem?_set_of_some _ i _ _ _ hp]) hc
        rw [this] at hm; cases hm
    | r =>
      have hfid : ∀ y, f y = y := hro c hcm hm f (List.mem_of_getElem? hf)
      constructor
      · intro j n' cj hpj hcj hwj
        simp only [getElem?_set_of_some _ i _ _ _ hp] at hpj
        by_cases hji : j = i
        · subst hji; rw [hc] at hcj; injection hcj with e; subst e; rw [hm] at hwj; cases hwj
        · rw [if_neg hji] at hpj
          have := hexcl j n' cj hpj hcj hwj i n hp
          exact absurd this.symm hji
      · intro hall
        show f s.shared = seqRes calls x s.acquired
        rw [hfid]
        apply hnowr
        intro j n' cj hpj hcj
        by_cases hji : j = i
        · subst hji; rw [hc] at hcj; injection hcj with e; subst e; exact hm
        · exact hall j n' cj (by rw [getElem?_set_of_some _ i _ _ _ hp, if_neg hji]; exact hpj) hcj
  · -- release
    rw [hcalls] at hc
    cases hm : c.mode with
    | w =>
      obtain ⟨pre, hacq, hsh⟩ := hwr i n c hp hc hm
      constructor
      · intro j n' cj hpj hcj hwj
        simp only [getElem?_set_of_some _ i _ _ _ hp] at hpj
        by_cases hji : j = i
        · subst hji; simp at hpj
        · rw [if_neg hji] at hpj
          exact absurd (hexcl i n c hp hc hm j n' hpj) hji
      · intro _
        show s.shared = seqRes calls x s.acquired
        rw [hsh, hacq, seqRes_snoc calls x pre i c hc, take_of_getElem?_none _ _ hf]
        rfl
    | r =>
      constructor
      · intro j n' cj hpj hcj hwj
        simp only [getElem?_set_of_some _ i _ _ _ hp] at hpj
        by_cases hji : j = i
        · subst hji; simp at hpj
        · rw [if_neg hji] at hpj
          have := hexcl j n' cj hpj hcj hwj i n hp
          exact absurd this.symm hji
      · intro hall
        show s.shared = seqRes calls x s.acquired
        apply hnowr
        intro j n' cj hpj hcj
        by_cases hji : j = i
        · subst hji; rw [hc] at hcj; injection hcj with e; subst e; exact hm
        · exact hall j n' cj (by rw [getElem?_set_of_some _ i _ _ _ hp, if_neg hji]; exact hpj) hcj

theorem excl_runSched (calls : List (Call σ)) (s : Sys σ) (sched : List Nat) (h : Excl calls s) :
    Excl calls (runSched s sched) := by
  induction sched generalizing s with
  | nil => exact h
  | cons i r ih =>
    unfold runSched
    cases hs : step s i with
    | none => exact ih s h
    | some s' => exact ih s' (excl_step calls s s' i h hs)

theorem lin_runSched (calls : List (Call σ)) (x : σ) (s : Sys σ) (sched : List Nat)
    (hro : ∀ c ∈ calls, c.mode = .r → ∀ f ∈ c.body, ∀ y, f y = y)
    (hE : Excl calls s) (hL : Lin calls x s) : Lin calls x (runSched s sched) := by
  induction sched generalizing s with
  | nil => exact hL
  | cons i r ih =>
    unfold runSched
    cases hs : step s i with
    | none => exact ih s hE hL
    | some s' => exact ih s' (excl_step calls s s' i hE hs) (lin_step calls x s s' i hro hE hL hs)

theorem length_one_of_all_eq {α} (l : List α) (a : α) (hn : l.Nodup) (ha : a ∈ l)
    (hall : ∀ b ∈ l, b = a) : l.length = 1 := by
  match l, hn, ha, hall with
  | [b], _, _, _ => rfl
  | b :: b' :: t, hn, _, hall =>
    have h1 : b = a := hall b (List.mem_cons_self ..)
    have h2 : b' = a := hall b' (List.mem_cons_of_mem _ (List.mem_cons_self ..))
    have := (List.nodup_cons.mp hn).1
    exact absurd (h1 ▸ h2 ▸ List.mem_cons_self ..) this

theorem mutex_of_excl (calls : List (Call σ)) (s : Sys σ) (h : Excl calls s)
    (hw : writerHolds s = true) : (holders s).length = 1 := by
  obtain ⟨i, n, c, hp, hc, hm⟩ := (writerHolds_iff s).mp hw
  apply length_one_of_all_eq _ i (holders_nodup s) ((mem_holders s i).mpr ⟨n, hp⟩)
  intro j hj
  obtain ⟨m, hpj⟩ := (mem_holders s j).mp hj
  exact h.excl i n c hp (h.hcalls ▸ hc) hm j m hpj

theorem no_holder_of_allFinished (s : Sys σ) (h : allFinished s = true) :
    ∀ (i n : Nat), s.pcs[i]? ≠ some (.holding n) := by
  intro i n hp
  unfold allFinished at h
  rw [List.all_eq_true] at h
  have := h _ (List.mem_of_getElem? hp)
  simp at this

end Lock
end JSight.C16
