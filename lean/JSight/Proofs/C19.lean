import JSight.Model.TagName
/-!
Helper lemmas for C19 (automatic tag names).  Core Lean only.
-/
namespace JSight.C19
open JSight

/-- per-byte encoding performed by `tagName` on everything after the leading "/" -/
def enc (c : UInt8) : Bytes :=
  if c = 95 then [95, 95]
  else if shouldEscape c then [95, upperHex (c.toNat / 16), upperHex (c.toNat % 16)]
  else [c]

def unhex (h : UInt8) : Nat := if h < 58 then h.toNat - 48 else h.toNat - 55

/-- decoder for `flatMap enc` -/
def dec : Bytes → Bytes
  | [] => []
  | c :: r =>
    if c = 95 then
      match r with
      | [] => [c]
      | h :: r' =>
        if h = 95 then 95 :: dec r'
        else match r' with
          | [] => [c, h]
          | l :: r'' => UInt8.ofNat (unhex h * 16 + unhex l) :: dec r''
    else c :: dec r

theorem dec_us_us (r : Bytes) : dec (95 :: 95 :: r) = 95 :: dec r := by
  rw [dec.eq_def]; simp

theorem dec_esc (h l : UInt8) (r : Bytes) (hh : h ≠ 95) :
    dec (95 :: h :: l :: r) = UInt8.ofNat (unhex h * 16 + unhex l) :: dec r := by
  rw [dec.eq_def]; simp [hh]

theorem dec_plain (c : UInt8) (r : Bytes) (hc : c ≠ 95) : dec (c :: r) = c :: dec r := by
  rw [dec.eq_def]; simp [hc]

/-! ### single-byte facts, by exhaustive evaluation -/

theorem byte_facts_nat : ∀ n, n < 256 →
    (pctToUs (pathEscape (doubleUs [UInt8.ofNat n])) = enc (UInt8.ofNat n)) ∧
    (shouldEscape (UInt8.ofNat n) = true →
      upperHex ((UInt8.ofNat n).toNat / 16) ≠ 95 ∧
      UInt8.ofNat (unhex (upperHex ((UInt8.ofNat n).toNat / 16)) * 16
        + unhex (upperHex ((UInt8.ofNat n).toNat % 16))) = UInt8.ofNat n) := by
  decide +kernel

theorem byte_facts (c : UInt8) :
    (pctToUs (pathEscape (doubleUs [c])) = enc c) ∧
    (shouldEscape c = true →
      upperHex (c.toNat / 16) ≠ 95 ∧
      UInt8.ofNat (unhex (upperHex (c.toNat / 16)) * 16 + unhex (upperHex (c.toNat % 16))) = c) := by
  have h := byte_facts_nat c.toNat c.toNat_lt
  rw [UInt8.ofNat_toNat] at h
  exact h

theorem enc_single (c : UInt8) : pctToUs (pathEscape (doubleUs [c])) = enc c := (byte_facts c).1

/-! ### `tagName` as a per-byte encoding -/

theorem doubleUs_cons (c : UInt8) (s : Bytes) : doubleUs (c :: s) = doubleUs [c] ++ doubleUs s := by
  simp [doubleUs]

theorem pathEscape_append (a b : Bytes) : pathEscape (a ++ b) = pathEscape a ++ pathEscape b := by
  simp [pathEscape]

theorem pctToUs_append (a b : Bytes) : pctToUs (a ++ b) = pctToUs a ++ pctToUs b := by
  simp [pctToUs]

theorem pipeline_eq (s : Bytes) : pctToUs (pathEscape (doubleUs s)) = s.flatMap enc := by
  induction s with
  | nil => rfl
  | cons c r ih =>
    rw [doubleUs_cons, pathEscape_append, pctToUs_append, ih, enc_single, List.flatMap_cons]

theorem pipeline_at : pctToUs (pathEscape (doubleUs [B.at_])) = [B.at_] := by decide

theorem tagName_slash_cons (s : Bytes) :
    tagName (B.slash :: s) = if s = [] then [B.at_, B.us] else B.at_ :: s.flatMap enc := by
  unfold tagName
  by_cases hs : s = []
  · subst hs; simp
  · have h1 : ¬ (B.slash :: s = [B.slash]) := by simpa using hs
    rw [if_neg h1, if_neg hs]
    have h2 : replaceFirstSlash (B.slash :: s) = B.at_ :: s := by simp [replaceFirstSlash]
    rw [h2, doubleUs_cons, pathEscape_append, pctToUs_append, pipeline_at, pipeline_eq]
    rfl

/-! ### decoding -/

theorem dec_enc_append (c : UInt8) (r : Bytes) : dec (enc c ++ r) = c :: dec r := by
  unfold enc
  by_cases h95 : c = 95
  · subst h95; simp [dec_us_us]
  · rw [if_neg h95]
    by_cases hesc : shouldEscape c = true
    · rw [if_pos hesc]
      have hf := (byte_facts c).2 hesc
      show dec (95 :: upperHex (c.toNat / 16) :: upperHex (c.toNat % 16) :: r) = _
      rw [dec_esc _ _ _ hf.1, hf.2]
    · rw [if_neg hesc]
      show dec (c :: r) = _
      rw [dec_plain _ _ h95]

theorem dec_flatMap_enc (s : Bytes) : dec (s.flatMap enc) = s := by
  induction s with
  | nil => rfl
  | cons c r ih => rw [List.flatMap_cons, dec_enc_append, ih]

theorem flatMap_enc_injective {s₁ s₂ : Bytes} (h : s₁.flatMap enc = s₂.flatMap enc) : s₁ = s₂ := by
  rw [← dec_flatMap_enc s₁, ← dec_flatMap_enc s₂, h]

theorem flatMap_enc_ne_us (s : Bytes) : s.flatMap enc ≠ [B.us] := by
  intro h
  have h2 : s = [95] := by
    have := dec_flatMap_enc s
    rw [h] at this
    rw [← this]; decide
  subst h2
  revert h; decide

/-! ### `splitSlash` / `dropEmptyDot` -/

theorem splitSlash_noSlash (p : Bytes) : ∀ c ∈ splitSlash p, B.slash ∉ c := by
  induction p with
  | nil => intro c hc; simp [splitSlash] at hc; subst hc; simp
  | cons a r ih =>
    intro c hc
    unfold splitSlash at hc
    by_cases ha : (a == B.slash) = true
    · rw [if_pos ha] at hc
      cases hc with
      | head => simp
      | tail _ h => exact ih c h
    · rw [if_neg ha] at hc
      have hne : B.slash ≠ a := by
        intro e; apply ha; rw [← e]; decide
      cases hsp : splitSlash r with
      | nil =>
        rw [hsp] at hc
        simp at hc; subst hc
        simp [hne]
      | cons h t =>
        rw [hsp] at hc ih
        cases hc with
        | head =>
          have := ih h (List.mem_cons_self)
          simp [hne, this]
        | tail _ h' => exact ih c (List.mem_cons_of_mem _ h')

theorem dropEmptyDot_subset (l : List Bytes) : ∀ c ∈ dropEmptyDot l, c ∈ l := by
  induction l with
  | nil => intro c hc; simp [dropEmptyDot] at hc
  | cons p r ih =>
    intro c hc
    unfold dropEmptyDot at hc
    by_cases hp : p = [] ∨ p = [B.dot]
    · rw [if_pos hp] at hc; exact List.mem_cons_of_mem _ (ih c hc)
    · rw [if_neg hp] at hc; exact hc

theorem dropEmptyDot_head? (l : List Bytes) :
    (dropEmptyDot l).head? =
      l.find? (fun c => !(decide (c = []) || decide (c = [B.dot]))) := by
  induction l with
  | nil => rfl
  | cons p r ih =>
    unfold dropEmptyDot
    by_cases hp : p = [] ∨ p = [B.dot]
    · rw [if_pos hp, ih, List.find?_cons]
      have : (!(decide (p = []) || decide (p = [B.dot]))) = false := by
        rcases hp with h | h <;> simp [h]
      rw [this]
    · rw [if_neg hp, List.find?_cons]
      have : (!(decide (p = []) || decide (p = [B.dot]))) = true := by
        simpa using hp
      rw [this]; rfl

theorem pathTagTitle_head? (p : Bytes) :
    pathTagTitle p =
      match (dropEmptyDot (splitSlash p)).head? with
      | some seg => B.slash :: seg
      | none => [B.slash] := by
  unfold pathTagTitle
  cases dropEmptyDot (splitSlash p) <;> rfl

end JSight.C19
