import JSight.Model.OMap
import JSight.Model.RWLock
/-!
C16 — helper lemmas for the ordered collections (`OMap`, `OSet`) and the RWMutex model (core Lean only).
-/
namespace JSight.C16
open JSight

/-! ### Part 1: the association list behind `data` -/
section Assoc
variable {κ ν : Type} [DecidableEq κ]

/-- `lookup` on the bare association list -/
def lk (d : List (κ × ν)) (x : κ) : Option ν := (d.find? (·.1 == x)).map (·.2)

theorem lookup_eq_lk (m : OMap κ ν) (x : κ) : m.lookup x = lk m.data x := rfl

theorem any_iff_mem_keys (d : List (κ × ν)) (k : κ) :
    d.any (·.1 == k) = true ↔ k ∈ d.map (·.1) := by
  induction d with
  | nil => simp
  | cons p d ih =>
    simp only [List.any_cons, Bool.or_eq_true, beq_iff_eq, ih, List.map_cons, List.mem_cons]
    constructor <;> rintro (e | e) <;> first | exact Or.inl e.symm | exact Or.inr e

theorem has_iff (m : OMap κ ν) (k : κ) : m.has k = true ↔ k ∈ m.data.map (·.1) :=
  any_iff_mem_keys m.data k

theorem lk_isSome_iff (d : List (κ × ν)) (k : κ) : (lk d k).isSome = true ↔ k ∈ d.map (·.1) := by
  induction d with
  | nil => simp [lk]
  | cons p d ih =>
    unfold lk at ih ⊢
    by_cases h : p.1 = k
    · simp [h]
    · have h' : (p.1 == k) = false := by simpa using h
      simp only [List.find?_cons, h', List.map_cons, List.mem_cons]
      rw [ih]
      constructor
      · exact Or.inr
      · rintro (e | e)
        · exact absurd e.symm h
        · exact e

theorem lk_none_of_not_mem (d : List (κ × ν)) (k : κ) (h : k ∉ d.map (·.1)) : lk d k = none := by
  have := mt (lk_isSome_iff d k).mp h
  cases hx : lk d k with
  | none => rfl
  | some v => simp [hx] at this

theorem keys_map_store (d : List (κ × ν)) (k : κ) (v : ν) :
    (d.map (fun p => if p.1 == k then (k, v) else p)).map (·.1) = d.map (·.1) := by
  induction d with
  | nil => rfl
  | cons p d ih =>
    simp only [List.map_cons, ih]
    congr 1
    by_cases h : p.1 = k
    · simp [h]
    · have h' : (p.1 == k) = false := by simpa using h
      simp [h']

theorem keys_store (d : List (κ × ν)) (k : κ) (v : ν) :
    (OMap.store d k v).map (·.1) = if k ∈ d.map (·.1) then d.map (·.1) else d.map (·.1) ++ [k] := by
  unfold OMap.store
  by_cases h : k ∈ d.map (·.1)
  · rw [if_pos ((any_iff_mem_keys d k).mpr h), if_pos h, keys_map_store]
  · have : ¬ (d.any (·.1 == k) = true) := fun e => h ((any_iff_mem_keys d k).mp e)
    rw [if_neg this, if_neg h]
    simp

theorem lk_map_store (d : List (κ × ν)) (k : κ) (v : ν) (x : κ) :
    lk (d.map (fun p => if p.1 == k then (k, v) else p)) x =
      if x = k then (if d.any (·.1 == k) then some v else none) else lk d x := by
  induction d with
  | nil => simp [lk]
  | cons p d ih =>
    unfold lk at ih ⊢
    by_cases hp : p.1 = k
    · by_cases hx : x = k
      · subst hx
        simp [hp]
      · have hx' : (k == x) = false := by simpa using fun e => hx e.symm
        have hx'' : (p.1 == x) = false := by rw [hp]; exact hx'
        simp only [List.map_cons, List.find?_cons, hp, beq_self_eq_true, if_true, hx']
        rw [ih]; simp [hx]
    · have hp' : (p.1 == k) = false := by simpa using hp
      simp only [List.map_cons, hp', List.find?_cons]
      by_cases hpx : p.1 = x
      · have : x ≠ k := fun e => hp (hpx.trans e)
        simp [hpx, this]
      · have hpx' : (p.1 == x) = false := by simpa using hpx
        simp only [hpx', Bool.false_eq_true, if_false]
        rw [ih]
        by_cases hx : x = k
        · subst hx
          rw [if_pos rfl, if_pos rfl, List.any_cons, hp', Bool.false_or]
        · simp [hx]

theorem lk_append_single (d : List (κ × ν)) (k : κ) (v : ν) (x : κ) :
    lk (d ++ [(k, v)]) x = (lk d x).or (if x = k then some v else none) := by
  induction d with
  | nil =>
    by_cases hx : x = k
    · simp [lk, hx]
    · have : (k == x) = false := by simpa using fun e => hx e.symm
      simp [lk, hx, this]
  | cons p d ih =>
    unfold lk at ih ⊢
    by_cases hpx : p.1 = x
    · simp [hpx]
    · have hpx' : (p.1 == x) = false := by simpa using hpx
      simp only [List.cons_append, List.find?_cons, hpx']
      exact ih

/-- the Go map assignment `data[k] = v` -/
theorem lk_store (d : List (κ × ν)) (k : κ) (v : ν) (x : κ) :
    lk (OMap.store d k v) x = if x = k then some v else lk d x := by
  unfold OMap.store
  by_cases h : k ∈ d.map (·.1)
  · rw [if_pos ((any_iff_mem_keys d k).mpr h), lk_map_store]
    simp [(any_iff_mem_keys d k).mpr h]
  · have : ¬ (d.any (·.1 == k) = true) := fun e => h ((any_iff_mem_keys d k).mp e)
    rw [if_neg this, lk_append_single]
    by_cases hx : x = k
    · subst hx; simp [lk_none_of_not_mem d x h]
    · simp [hx]

end Assoc

/-! ### Part 1: the operations -/
section Ops
variable {κ ν : Type} [DecidableEq κ]
open OMap

theorem nodup_append_single {α} (l : List α) (a : α) (h : l.Nodup) (ha : a ∉ l) : (l ++ [a]).Nodup := by
  rw [List.nodup_append]
  refine ⟨h, by simp, ?_⟩
  intro x hx y hy
  simp at hy
  subst hy
  exact fun e => ha (e ▸ hx)

theorem lookup_set (m : OMap κ ν) (k : κ) (v : ν) (x : κ) :
    (m.set k v).lookup x = if x = k then some v else m.lookup x := lk_store m.data k v x

theorem lookup_setToTop (m : OMap κ ν) (k : κ) (v : ν) (x : κ) :
    (m.setToTop k v).lookup x = if x = k then some v else m.lookup x := lk_store m.data k v x

theorem lookup_update (m : OMap κ ν) (k : κ) (f : ν → ν) (x : κ) :
    (m.update k f).lookup x = if x = k then (m.lookup k).map f else m.lookup x := by
  unfold OMap.update
  cases h : m.lookup k with
  | none =>
    by_cases hx : x = k
    · subst hx; simp [h]
    · simp [hx]
  | some v =>
    show lk (store m.data k (f v)) x = _
    rw [lk_store]; rfl

theorem order_update (m : OMap κ ν) (k : κ) (f : ν → ν) : (m.update k f).order = m.order := by
  unfold OMap.update
  cases m.lookup k <;> rfl

theorem keys_update (m : OMap κ ν) (k : κ) (f : ν → ν) :
    (m.update k f).data.map (·.1) = m.data.map (·.1) := by
  unfold OMap.update
  cases h : m.lookup k with
  | none => rfl
  | some v =>
    show (store m.data k (f v)).map (·.1) = _
    rw [keys_store]
    have : k ∈ m.data.map (·.1) := (lk_isSome_iff m.data k).mp (by rw [← lookup_eq_lk, h]; rfl)
    rw [if_pos this]

theorem inv_set (m : OMap κ ν) (k : κ) (v : ν) (h : m.Inv) : (m.set k v).Inv := by
  obtain ⟨ho, hd, hk⟩ := h
  unfold OMap.Inv OMap.set
  simp only [keys_store]
  by_cases hm : k ∈ m.data.map (·.1)
  · have : m.has k = true := (has_iff m k).mpr hm
    simp only [this, if_true, if_pos hm]
    exact ⟨ho, hd, hk⟩
  · have : m.has k = false := by
      cases hh : m.has k with
      | false => rfl
      | true => exact absurd ((has_iff m k).mp hh) hm
    simp only [this, Bool.false_eq_true, if_false, if_neg hm]
    refine ⟨nodup_append_single _ _ ho (fun e => hm ((hk k).mp e)), nodup_append_single _ _ hd hm, ?_⟩
    intro x
    simp only [List.mem_append, hk x]

theorem inv_setToTop (m : OMap κ ν) (k : κ) (v : ν) (h : m.Inv) : (m.setToTop k v).Inv := by
  obtain ⟨ho, hd, hk⟩ := h
  unfold OMap.Inv OMap.setToTop
  simp only [keys_store]
  by_cases hm : k ∈ m.data.map (·.1)
  · have : m.has k = true := (has_iff m k).mpr hm
    simp only [this, if_true, if_pos hm]
    exact ⟨ho, hd, hk⟩
  · have : m.has k = false := by
      cases hh : m.has k with
      | false => rfl
      | true => exact absurd ((has_iff m k).mp hh) hm
    simp only [this, Bool.false_eq_true, if_false, if_neg hm]
    refine ⟨List.nodup_cons.mpr ⟨fun e => hm ((hk k).mp e), ho⟩, nodup_append_single _ _ hd hm, ?_⟩
    intro x
    simp only [List.mem_append, List.mem_cons, List.not_mem_nil, or_false, hk x]
    exact Or.comm

theorem inv_update (m : OMap κ ν) (k : κ) (f : ν → ν) (h : m.Inv) : (m.update k f).Inv := by
  unfold OMap.Inv
  rw [order_update, keys_update]
  exact h

/-- the fold behind `Map` -/
def updAll (f : κ → ν → ν) (l : List κ) (m : OMap κ ν) : OMap κ ν :=
  l.foldl (fun acc k => acc.update k (f k)) m

theorem mapVals_eq (m : OMap κ ν) (f : κ → ν → ν) : m.mapVals f = updAll f m.order m := rfl

theorem updAll_order (f : κ → ν → ν) (l : List κ) (m : OMap κ ν) : (updAll f l m).order = m.order := by
  induction l generalizing m with
  | nil => rfl
  | cons a l ih => show (updAll f l (m.update a (f a))).order = _; rw [ih, order_update]

theorem updAll_keys (f : κ → ν → ν) (l : List κ) (m : OMap κ ν) :
    (updAll f l m).data.map (·.1) = m.data.map (·.1) := by
  induction l generalizing m with
  | nil => rfl
  | cons a l ih => show (updAll f l (m.update a (f a))).data.map (·.1) = _; rw [ih, keys_update]

theorem updAll_lookup (f : κ → ν → ν) (l : List κ) (hl : l.Nodup) (m : OMap κ ν) (x : κ) :
    (updAll f l m).lookup x = if x ∈ l then (m.lookup x).map (f x) else m.lookup x := by
  induction l generalizing m with
  | nil => simp [updAll]
  | cons a l ih =>
    obtain ⟨ha, hl'⟩ := List.nodup_cons.mp hl
    show (updAll f l (m.update a (f a))).lookup x = _
    rw [ih hl', lookup_update]
    by_cases hx : x = a
    · subst hx; simp [ha]
    · by_cases hxl : x ∈ l <;> simp [hx, hxl]

theorem inv_mapVals (m : OMap κ ν) (f : κ → ν → ν) (h : m.Inv) : (m.mapVals f).Inv := by
  unfold OMap.Inv
  rw [mapVals_eq, updAll_order, updAll_keys]
  exact h

theorem lookup_mapVals (m : OMap κ ν) (f : κ → ν → ν) (h : m.Inv) (x : κ) :
    (m.mapVals f).lookup x = (m.lookup x).map (f x) := by
  rw [mapVals_eq, updAll_lookup f _ h.1]
  by_cases hx : x ∈ m.order
  · simp [hx]
  · have : m.lookup x = none := lk_none_of_not_mem m.data x (fun e => hx ((h.2.2 x).mpr e))
    simp [hx, this]

omit [DecidableEq κ] in
theorem inv_empty' : (({} : OMap κ ν)).Inv := by
  refine ⟨List.nodup_nil, List.nodup_nil, fun k => ?_⟩
  simp

theorem inv_apply' (m : OMap κ ν) (op : Op κ ν) (h : m.Inv) : (m.apply op).Inv := by
  cases op with
  | set k v => exact inv_set m k v h
  | setToTop k v => exact inv_setToTop m k v h
  | update k f => exact inv_update m k f h
  | mapVals f => exact inv_mapVals m f h

theorem inv_run_from (m : OMap κ ν) (ops : List (Op κ ν)) (h : m.Inv) : (OMap.run m ops).Inv := by
  induction ops generalizing m with
  | nil => exact h
  | cons op ops ih => exact ih _ (inv_apply' m op h)

theorem lookup_run_from (m : OMap κ ν) (ops : List (Op κ ν)) (h : m.Inv) (k : κ) :
    (OMap.run m ops).lookup k = OMap.specFun ops m.lookup k := by
  induction ops generalizing m with
  | nil => rfl
  | cons op ops ih =>
    show (OMap.run (m.apply op) ops).lookup k = _
    rw [ih _ (inv_apply' m op h)]
    cases op with
    | set k' v => simp only [OMap.specFun]; congr 1; funext x; exact lookup_set m k' v x
    | setToTop k' v => simp only [OMap.specFun]; congr 1; funext x; exact lookup_setToTop m k' v x
    | update k' f => simp only [OMap.specFun]; congr 1; funext x; exact lookup_update m k' f x
    | mapVals f => simp only [OMap.specFun]; congr 1; funext x; exact lookup_mapVals m f h x

/-- the operation puts key `k` into the collection -/
def Op.Sets (op : Op κ ν) (k : κ) : Prop := (∃ v, op = .set k v) ∨ (∃ v, op = .setToTop k v)

theorem mem_order_apply (m : OMap κ ν) (op : Op κ ν) (h : m.Inv) (k : κ) :
    k ∈ (m.apply op).order ↔ k ∈ m.order ∨ Op.Sets op k := by
  cases op with
  | set k' v =>
    show k ∈ (if m.has k' then m.order else m.order ++ [k']) ↔ _
    unfold Op.Sets
    by_cases hh : m.has k' = true
    · have hk' : k' ∈ m.order := (h.2.2 k').mpr ((has_iff m k').mp hh)
      simp only [hh, if_true]
      constructor
      · exact Or.inl
      · rintro (e | ⟨v', e⟩ | ⟨v', e⟩)
        · exact e
        · injection e with e1 e2; exact e1 ▸ hk'
        · cases e
    · have hf : m.has k' = false := by simpa using hh
      simp only [hf, Bool.false_eq_true, if_false, List.mem_append, List.mem_singleton]
      constructor
      · rintro (e | e)
        · exact Or.inl e
        · exact Or.inr (Or.inl ⟨v, by rw [e]⟩)
      · rintro (e | ⟨v', e⟩ | ⟨v', e⟩)
        · exact Or.inl e
        · injection e with e1 e2; exact Or.inr e1.symm
        · cases e
  | setToTop k' v =>
    show k ∈ (if m.has k' then m.order else k' :: m.order) ↔ _
    unfold Op.Sets
    by_cases hh : m.has k' = true
    · have hk' : k' ∈ m.order := (h.2.2 k').mpr ((has_iff m k').mp hh)
      simp only [hh, if_true]
      constructor
      · exact Or.inl
      · rintro (e | ⟨v', e⟩ | ⟨v', e⟩)
        · exact e
        · cases e
        · injection e with e1 e2; exact e1 ▸ hk'
    · have hf : m.has k' = false := by simpa using hh
      simp only [hf, Bool.false_eq_true, if_false, List.mem_cons]
      constructor
      · rintro (e | e)
        · exact Or.inr (Or.inr ⟨v, by rw [e]⟩)
        · exact Or.inl e
      · rintro (e | ⟨v', e⟩ | ⟨v', e⟩)
        · exact Or.inr e
        · cases e
        · injection e with e1 e2; exact Or.inl e1.symm
  | update k' f =>
    show k ∈ (m.update k' f).order ↔ _
    rw [order_update]
    unfold Op.Sets
    constructor
    · exact Or.inl
    · rintro (e | ⟨v', e⟩ | ⟨v', e⟩)
      · exact e
      · cases e
      · cases e
  | mapVals f =>
    show k ∈ (m.mapVals f).order ↔ _
    rw [mapVals_eq, updAll_order]
    unfold Op.Sets
    constructor
    · exact Or.inl
    · rintro (e | ⟨v', e⟩ | ⟨v', e⟩)
      · exact e
      · cases e
      · cases e

theorem mem_order_run_from (m : OMap κ ν) (ops : List (Op κ ν)) (h : m.Inv) (k : κ) :
    k ∈ (OMap.run m ops).order ↔ k ∈ m.order ∨ ∃ op ∈ ops, Op.Sets op k := by
  induction ops generalizing m with
  | nil => simp [OMap.run]
  | cons op ops ih =>
    show k ∈ (OMap.run (m.apply op) ops).order ↔ _
    rw [ih _ (inv_apply' m op h), mem_order_apply m op h]
    simp only [List.mem_cons, exists_eq_or_imp, or_assoc]

theorem oset_add_nodup (s : OSet κ) (k : κ) (h : s.order.Nodup) : (s.add k).order.Nodup := by
  unfold OSet.add
  by_cases hc : s.order.contains k = true
  · simp only [hc, if_true]; exact h
  · simp only [hc]
    exact nodup_append_single _ _ h (fun e => hc (List.contains_iff_mem.mpr e))

theorem oset_fold_nodup (ks : List κ) (s : OSet κ) (h : s.order.Nodup) :
    (ks.foldl OSet.add s).order.Nodup := by
  induction ks generalizing s with
  | nil => exact h
  | cons k ks ih => exact ih _ (oset_add_nodup s k h)

end Ops

end JSight.C16
