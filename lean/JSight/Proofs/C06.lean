import JSight.Model.Context
/-!
Helper lemmas for C06 (directive context resolution): uniform unfolding equations of the three
well-founded loops `place`, `closeAll`, `closeExplicit` through one "leave the innermost frame" step
`pop`, an induction principle along that step, and the token-stream invariant used for
`resolve_flatten`.  Parametric in the admissibility tables (`rootAdmits/admits/isHTTPMethod` are never
unfolded).  Core Lean only.
-/
namespace JSight.C06
open JSight Gen

@[simp] theorem attach_d (t : Tree) (p : Frame) : (attach t p).d = p.d := rfl
@[simp] theorem attach_kids (t : Tree) (p : Frame) : (attach t p).kids = p.kids ++ [t] := rfl
@[simp] theorem tree_eq (f : Frame) : f.tree = .node f.d f.kids := rfl

/-- leave the innermost open frame `f`: its finished subtree goes to the frame below, or to the roots -/
def pop (f : Frame) (below : List Frame) (roots : List Tree) : List Frame × List Tree :=
  match below with
  | [] => ([], roots ++ [f.tree])
  | p :: rest => (attach f.tree p :: rest, roots)

@[simp] theorem pop_map_d (f : Frame) (below : List Frame) (roots : List Tree) :
    (pop f below roots).1.map (·.d) = below.map (·.d) := by
  cases below <;> simp [pop]

@[simp] theorem pop_length (f : Frame) (below : List Frame) (roots : List Tree) :
    (pop f below roots).1.length = below.length := by
  cases below <;> simp [pop]

theorem anyExplicit_eq (frames : List Frame) :
    anyExplicit frames = (frames.map (·.d)).any (·.explicit) := by
  simp [anyExplicit, List.any_map, Function.comp_def]

@[simp] theorem anyExplicit_nil : anyExplicit [] = false := rfl

@[simp] theorem anyExplicit_cons (f : Frame) (below : List Frame) :
    anyExplicit (f :: below) = (f.d.explicit || anyExplicit below) := by
  simp [anyExplicit]

@[simp] theorem pop_anyExplicit (f : Frame) (below : List Frame) (roots : List Tree) :
    anyExplicit (pop f below roots).1 = anyExplicit below := by
  rw [anyExplicit_eq, anyExplicit_eq, pop_map_d]

/-- induction along the `pop` step -/
theorem frames_ind {motive : List Frame → List Tree → Prop}
    (nil : ∀ roots, motive [] roots)
    (cons : ∀ f below roots, motive (pop f below roots).1 (pop f below roots).2 → motive (f :: below) roots) :
    ∀ frames roots, motive frames roots := by
  intro frames
  generalize hn : frames.length = n
  induction n generalizing frames with
  | zero =>
    intro roots
    cases frames with
    | nil => exact nil roots
    | cons f below => simp at hn
  | succ n ih =>
    intro roots
    cases frames with
    | nil => simp at hn
    | cons f below =>
      exact cons f below roots (ih _ (by simp at hn; simp [hn]) _)

/-! ### unfolding equations -/

theorem place_nil (roots : List Tree) (d : Dir) :
    place [] roots d =
      if rootAdmits d.kind then .ok { frames := [{ d := d }], roots := roots }
      else .error (.incorrectContext d.id) := by
  rw [place]

theorem place_cons (f : Frame) (below : List Frame) (roots : List Tree) (d : Dir) :
    place (f :: below) roots d =
      if admitsDir f.d d then .ok { frames := { d := d } :: f :: below, roots := roots }
      else if f.d.explicit then
        (if admits f.d.kind d.kind then .error (.pathMethodInExplicit d.id) else .error (.incorrectContext d.id))
      else place (pop f below roots).1 (pop f below roots).2 d := by
  cases below with
  | nil => rw [place]; rfl
  | cons p rest => rw [place]; rfl

theorem closeAll_nil (roots : List Tree) : closeAll [] roots = roots := by
  rw [closeAll]

theorem closeAll_cons (f : Frame) (below : List Frame) (roots : List Tree) :
    closeAll (f :: below) roots = closeAll (pop f below roots).1 (pop f below roots).2 := by
  cases below with
  | nil => rw [closeAll]; simp [pop, closeAll_nil]
  | cons p rest => rw [closeAll]; rfl

theorem closeExplicit_nil (roots : List Tree) :
    closeExplicit [] roots = .error .noExplicitToClose := by
  rw [closeExplicit]

theorem closeExplicit_cons (f : Frame) (below : List Frame) (roots : List Tree) :
    closeExplicit (f :: below) roots =
      if f.d.explicit then .ok { frames := (pop f below roots).1, roots := (pop f below roots).2 }
      else closeExplicit (pop f below roots).1 (pop f below roots).2 := by
  cases below with
  | nil => rw [closeExplicit]; simp [pop, closeExplicit_nil]
  | cons p rest => rw [closeExplicit]; rfl

/-! ### the token-stream invariant -/

@[simp] theorem flattenForest_nil : flattenForest [] = [] := by
  rw [flattenForest]

@[simp] theorem flattenForest_cons (t : Tree) (r : List Tree) :
    flattenForest (t :: r) = flattenTree t ++ flattenForest r := by
  rw [flattenForest]

@[simp] theorem flattenTree_node (d : Dir) (kids : List Tree) :
    flattenTree (.node d kids) =
      Tok.dir d :: (flattenForest kids ++ (if d.explicit then [Tok.close] else [])) := by
  rw [flattenTree]

@[simp] theorem flattenForest_append (a b : List Tree) :
    flattenForest (a ++ b) = flattenForest a ++ flattenForest b := by
  induction a with
  | nil => simp
  | cons t r ih => simp [ih]

/-- the tokens of the open frames, outermost first: the directive and its finished children -/
def openFlatten : List Frame → List Tok
  | [] => []
  | f :: rest => openFlatten rest ++ (Tok.dir f.d :: flattenForest f.kids)

/-- the tokens accounted for by a context -/
def flat (frames : List Frame) (roots : List Tree) : List Tok :=
  flattenForest roots ++ openFlatten frames

/-- leaving a frame keeps the stream, and emits the pending ")" of a parenthesised one -/
theorem flat_pop (f : Frame) (below : List Frame) (roots : List Tree) :
    flat (pop f below roots).1 (pop f below roots).2 =
      flat (f :: below) roots ++ (if f.d.explicit then [Tok.close] else []) := by
  cases below with
  | nil => simp [pop, flat, openFlatten]
  | cons p rest => simp [pop, flat, openFlatten]

theorem closeAll_flat (frames : List Frame) (roots : List Tree) :
    anyExplicit frames = false → flattenForest (closeAll frames roots) = flat frames roots := by
  induction frames, roots using frames_ind with
  | nil roots => intro _; simp [closeAll_nil, flat, openFlatten]
  | cons f below roots ih =>
    intro h
    simp at h
    rw [closeAll_cons, ih (by simp [h]), flat_pop]
    simp [h]

theorem place_flat (frames : List Frame) (roots : List Tree) (d : Dir) (c : Ctx) :
    place frames roots d = .ok c → flat c.frames c.roots = flat frames roots ++ [Tok.dir d] := by
  induction frames, roots using frames_ind with
  | nil roots =>
    rw [place_nil]
    split
    · intro h; cases h; simp [flat, openFlatten]
    · intro h; cases h
  | cons f below roots ih =>
    rw [place_cons]
    split
    · intro h; cases h
      simp [flat, openFlatten]
    · split
      · split <;> (intro h; cases h)
      · rename_i hx
        intro h
        rw [ih h, flat_pop]
        simp [hx]

theorem closeExplicit_flat (frames : List Frame) (roots : List Tree) (c : Ctx) :
    closeExplicit frames roots = .ok c → flat c.frames c.roots = flat frames roots ++ [Tok.close] := by
  induction frames, roots using frames_ind with
  | nil roots => rw [closeExplicit_nil]; intro h; cases h
  | cons f below roots ih =>
    rw [closeExplicit_cons]
    split
    · rename_i hx
      intro h; cases h
      simp only []
      rw [flat_pop]; simp [hx]
    · rename_i hx
      intro h
      rw [ih h, flat_pop]; simp [hx]

theorem consume_flat (c : Ctx) (t : Tok) (c' : Ctx) :
    consume c t = .ok c' → flat c'.frames c'.roots = flat c.frames c.roots ++ [t] := by
  cases t with
  | dir d => exact place_flat _ _ _ _
  | close => exact closeExplicit_flat _ _ _

theorem consumeAll_flat (toks : List Tok) (c c' : Ctx) :
    consumeAll c toks = .ok c' → flat c'.frames c'.roots = flat c.frames c.roots ++ toks := by
  induction toks generalizing c with
  | nil => intro h; simp [consumeAll] at h; cases h; simp
  | cons t r ih =>
    intro h
    rw [consumeAll] at h
    split at h
    · rename_i c1 h1
      rw [ih _ h, consume_flat _ _ _ h1]; simp
    · cases h

/-! ### decidable equality of forests and results (only for the closing `example`s of the Props file) -/

mutual
  def decTree : (a b : Tree) → Decidable (a = b)
    | .node d k, .node d' k' =>
      if hd : d = d' then
        match decForest k k' with
        | isTrue hk => isTrue (by rw [hd, hk])
        | isFalse hk => isFalse (by intro h; cases h; exact hk rfl)
      else isFalse (by intro h; cases h; exact hd rfl)
  def decForest : (a b : List Tree) → Decidable (a = b)
    | [], [] => isTrue rfl
    | [], _ :: _ => isFalse (by intro h; cases h)
    | _ :: _, [] => isFalse (by intro h; cases h)
    | a :: as, b :: bs =>
      match decTree a b, decForest as bs with
      | isTrue h1, isTrue h2 => isTrue (by rw [h1, h2])
      | isFalse h1, _ => isFalse (by intro h; cases h; exact h1 rfl)
      | _, isFalse h2 => isFalse (by intro h; cases h; exact h2 rfl)
end

instance treeDecEq : DecidableEq Tree := decTree

instance exceptDecEq {ε α : Type} [DecidableEq ε] [DecidableEq α] : DecidableEq (Except ε α)
  | .ok a, .ok b => if h : a = b then isTrue (by rw [h]) else isFalse (by intro h'; cases h'; exact h rfl)
  | .error a, .error b => if h : a = b then isTrue (by rw [h]) else isFalse (by intro h'; cases h'; exact h rfl)
  | .ok _, .error _ => isFalse (by intro h; cases h)
  | .error _, .ok _ => isFalse (by intro h; cases h)

end JSight.C06
