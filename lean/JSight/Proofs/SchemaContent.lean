import JSight.Model.SchemaContent
/-!
Helpers for `Props/C04_Schema.lean`: accessors, the vocabulary (`mentions`, `sameShape`, `wellFormed`), equational
forms of the mutual functions of `Model/SchemaContent.lean`, and the list / used-type lemmas.
-/
namespace JSight.SC
open JSight

/-! ## accessors -/

def RuleAst.tokenType : RuleAst → Bytes | .node t _ _ _ _ _ => t
def RuleAst.comment : RuleAst → Bytes | .node _ _ c _ _ _ => c

def Ast.tokenType : Ast → Bytes | .node t _ _ _ _ _ _ _ => t
def Ast.schemaType : Ast → Bytes | .node _ t _ _ _ _ _ _ => t
def Ast.key : Ast → Bytes | .node _ _ k _ _ _ _ _ => k
def Ast.value : Ast → Bytes | .node _ _ _ v _ _ _ _ => v
def Ast.comment : Ast → Bytes | .node _ _ _ _ c _ _ _ => c
def Ast.rules : Ast → List (Bytes × RuleAst) | .node _ _ _ _ _ r _ _ => r
def Ast.children : Ast → List Ast | .node _ _ _ _ _ _ c _ => c
def Ast.isKeyShortcut : Ast → Bool | .node _ _ _ _ _ _ _ s => s

def RuleC.tokenType : RuleC → Bytes | .node _ t _ _ _ => t
def RuleC.note : RuleC → Bytes | .node _ _ _ n _ => n
def RuleC.children : RuleC → List RuleC | .node _ _ _ _ c => c

def Content.key : Content → Option Bytes | .node k _ _ _ _ _ _ _ _ => k
def Content.tokenType : Content → Bytes | .node _ t _ _ _ _ _ _ _ => t
def Content.type : Content → Bytes | .node _ _ t _ _ _ _ _ _ => t
def Content.scalar : Content → Bytes | .node _ _ _ s _ _ _ _ _ => s
def Content.note : Content → Bytes | .node _ _ _ _ n _ _ _ _ => n
def Content.rules : Content → List RuleC | .node _ _ _ _ _ r _ _ _ => r
def Content.kids : Content → List Content | .node _ _ _ _ _ _ c _ _ => c
def Content.isKeyRef : Content → Bool | .node _ _ _ _ _ _ _ r _ => r
def Content.optional : Content → Bool | .node _ _ _ _ _ _ _ _ o => o

/-! ## `ruleOf` -/

@[simp] theorem RuleC.withKey_key (k : Bytes) (r : RuleC) : (r.withKey k).key = k := by cases r; rfl
@[simp] theorem RuleC.withKey_scalar (k : Bytes) (r : RuleC) : (r.withKey k).scalar = r.scalar := by cases r; rfl
@[simp] theorem RuleC.withKey_tokenType (k : Bytes) (r : RuleC) : (r.withKey k).tokenType = r.tokenType := by
  cases r; rfl
@[simp] theorem RuleC.withKey_note (k : Bytes) (r : RuleC) : (r.withKey k).note = r.note := by cases r; rfl
@[simp] theorem RuleC.withKey_children (k : Bytes) (r : RuleC) : (r.withKey k).children = r.children := by
  cases r; rfl

theorem ruleOf_eq (r : RuleAst) :
    ruleOf r = .node [] r.tokenType r.value r.comment (propsOf r.props ++ itemsOf r.items) := by
  cases r; simp [ruleOf, RuleAst.tokenType, RuleAst.value, RuleAst.comment, RuleAst.props, RuleAst.items]

@[simp] theorem ruleOf_scalar (r : RuleAst) : (ruleOf r).scalar = r.value := by rw [ruleOf_eq]; rfl
@[simp] theorem ruleOf_key (r : RuleAst) : (ruleOf r).key = [] := by rw [ruleOf_eq]; rfl
@[simp] theorem ruleOf_tokenType (r : RuleAst) : (ruleOf r).tokenType = r.tokenType := by rw [ruleOf_eq]; rfl
@[simp] theorem ruleOf_note (r : RuleAst) : (ruleOf r).note = r.comment := by rw [ruleOf_eq]; rfl
theorem ruleOf_children_eq (r : RuleAst) : (ruleOf r).children = propsOf r.props ++ itemsOf r.items := by
  rw [ruleOf_eq]; rfl

theorem propsOf_eq_map (ps : List (Bytes × RuleAst)) : propsOf ps = ps.map (fun kv => (ruleOf kv.2).withKey kv.1) := by
  induction ps with
  | nil => simp [propsOf]
  | cons p rest ih => obtain ⟨k, r⟩ := p; simp [propsOf, ih]

theorem itemsOf_eq_map (is : List RuleAst) : itemsOf is = is.map ruleOf := by
  induction is with
  | nil => simp [itemsOf]
  | cons r rest ih => simp [itemsOf, ih]

/-! ## the rules that are listed -/

/-- a rule is listed unless it is a generated "type" / "or" rule -/
def listed (kv : Bytes × RuleAst) : Bool := !((kv.1 == bType || kv.1 == bOr) && kv.2.generated)

/-- the used types one "or" rule adds -/
def orMentions (nodeType : Bytes) (items : List RuleAst) : List Bytes :=
  (items.map (orItemType nodeType)).filter (fun n => n.head? == some 64)

/-- the @-name of a value (`v.Value[0] == '@'`) -/
def atName (v : Bytes) : List Bytes := if v.head? == some 64 then [v] else []

/-- the used types one rule adds: "type", "additionalProperties": the value when it starts with '@'; "allOf": the value
when it is not empty, then the value of EVERY item (the code does not look at the first byte here); "or": the resolved
name of each item when it starts with '@' -/
def ruleMentions (nodeType : Bytes) (kv : Bytes × RuleAst) : List Bytes :=
  if kv.1 == bType then atName kv.2.value
  else if kv.1 == bAllOf then (if kv.2.value.isEmpty then [] else [kv.2.value]) ++ kv.2.items.map (·.value)
  else if kv.1 == bAdditional then atName kv.2.value
  else if kv.1 == bOr then orMentions nodeType kv.2.items
  else []

def rulesMentions (nodeType : Bytes) (rs : List (Bytes × RuleAst)) : List Bytes :=
  rs.flatMap (ruleMentions nodeType)

/-! ## `addUsed` / `addAll` -/

theorem mem_addUsed {u : List Bytes} {v x : Bytes} : x ∈ addUsed u v ↔ x ∈ u ∨ x = v := by
  unfold addUsed
  split
  · rename_i h
    have hv : v ∈ u := by simpa using h
    constructor
    · exact Or.inl
    · rintro (h | rfl)
      · exact h
      · exact hv
  · simp

theorem nodup_addUsed {u : List Bytes} {v : Bytes} (h : u.Nodup) : (addUsed u v).Nodup := by
  unfold addUsed
  split
  · exact h
  · rename_i hc
    have hv : v ∉ u := by simpa using hc
    rw [List.nodup_append]
    refine ⟨h, by simp, ?_⟩
    intro a ha b hb
    simp at hb
    subst hb
    intro e
    exact hv (e ▸ ha)

theorem addAll_append (u l₁ l₂ : List Bytes) : addAll u (l₁ ++ l₂) = addAll (addAll u l₁) l₂ := by
  induction l₁ generalizing u with
  | nil => rfl
  | cons v r ih => simp [addAll, ih]

@[simp] theorem addAll_nil (u : List Bytes) : addAll u [] = u := rfl
@[simp] theorem addAll_singleton (u : List Bytes) (v : Bytes) : addAll u [v] = addUsed u v := rfl

theorem mem_addAll {u l : List Bytes} {x : Bytes} : x ∈ addAll u l ↔ x ∈ u ∨ x ∈ l := by
  induction l generalizing u with
  | nil => simp
  | cons v r ih =>
    simp only [addAll, ih, mem_addUsed, List.mem_cons]
    constructor
    · rintro ((h | h) | h)
      · exact Or.inl h
      · exact Or.inr (Or.inl h)
      · exact Or.inr (Or.inr h)
    · rintro (h | h | h)
      · exact Or.inl (Or.inl h)
      · exact Or.inl (Or.inr h)
      · exact Or.inr h

theorem nodup_addAll {u l : List Bytes} (h : u.Nodup) : (addAll u l).Nodup := by
  induction l generalizing u with
  | nil => exact h
  | cons v r ih => exact ih (nodup_addUsed h)

/-- `u` is a prefix of `addAll u l`: the set only grows, at the end -/
theorem addAll_prefix (u l : List Bytes) : ∃ t, addAll u l = u ++ t := by
  induction l generalizing u with
  | nil => exact ⟨[], by simp⟩
  | cons v r ih =>
    obtain ⟨t, ht⟩ := ih (addUsed u v)
    by_cases hc : u.contains v = true
    · have e : addUsed u v = u := by simp only [addUsed, hc]; rfl
      rw [e] at ht
      exact ⟨t, by simp only [addAll, e, ht]⟩
    · have e : addUsed u v = u ++ [v] := by simp only [addUsed, hc]; rfl
      rw [e] at ht
      exact ⟨[v] ++ t, by simp only [addAll, e, ht, List.append_assoc]⟩

/-! ## `orItems` / `collectRules` -/

theorem head?_eq_some_iff_cons (c : UInt8) (t : Bytes) : ((c :: t).head? == some 64) = (c == 64) := by
  by_cases h : c = 64 <;> simp [h]

theorem atName_cons (c : UInt8) (t : Bytes) (u : List Bytes) :
    (if c == 64 then addUsed u (c :: t) else u) = addAll u (atName (c :: t)) := by
  unfold atName
  rw [head?_eq_some_iff_cons]
  split <;> rfl

theorem orItems_ok {st : Bytes} {items : List RuleAst} {u u' : List Bytes} (h : orItems st u items = .ok u') :
    u' = addAll u (orMentions st items) := by
  induction items generalizing u with
  | nil => simp only [orItems, Except.ok.injEq] at h; simp [orMentions, h]
  | cons i r ih =>
    unfold orItems at h
    split at h
    · cases h
    · rename_i c t hc
      have := ih h
      rw [this, atName_cons]
      have e : orMentions st (i :: r) = atName (c :: t) ++ orMentions st r := by
        simp only [orMentions, List.map_cons, hc, List.filter_cons, atName]
        split <;> simp
      rw [e, addAll_append]

/-- the effect of one rule on the used types -/
def ruleStep (st : Bytes) (kv : Bytes × RuleAst) (u : List Bytes) : Except Fault (List Bytes) :=
  if kv.1 == bType then
    match kv.2.value with
    | [] => .error (.emptyValue bType)
    | c :: t => .ok (if c == 64 then addUsed u (c :: t) else u)
  else if kv.1 == bAllOf then
    .ok (addAll (if kv.2.value.isEmpty then u else addUsed u kv.2.value) (kv.2.items.map (·.value)))
  else if kv.1 == bAdditional then
    match kv.2.value with
    | [] => .error (.emptyValue bAdditional)
    | c :: t => .ok (if c == 64 then addUsed u (c :: t) else u)
  else if kv.1 == bOr then orItems st u kv.2.items
  else .ok u

theorem collectRules_cons (st : Bytes) (kv : Bytes × RuleAst) (rest : List (Bytes × RuleAst)) (u : List Bytes) :
    collectRules st (kv :: rest) u =
      match ruleStep st kv u with
      | .error e => .error e
      | .ok u1 =>
        match collectRules st rest u1 with
        | .error e => .error e
        | .ok (rs, u2) => .ok (if listed kv then (ruleOf kv.2).withKey kv.1 :: rs else rs, u2) := by
  obtain ⟨k, v⟩ := kv
  conv => lhs; rw [collectRules]
  unfold ruleStep listed
  dsimp only
  by_cases h1 : (k == bType) = true
  · simp only [h1, if_true, Bool.true_or, Bool.true_and]
    cases hv : v.value <;> simp <;> (split <;> simp_all)
  · simp only [h1, Bool.false_eq_true, if_false, Bool.false_or]
    by_cases h2 : (k == bAllOf) = true
    · have : (k == bOr) = false := by
        have : k = bAllOf := by simpa using h2
        subst this; decide
      simp [h2, this]
      split <;> simp_all
    · simp only [h2, Bool.false_eq_true, if_false]
      by_cases h3 : (k == bAdditional) = true
      · have : (k == bOr) = false := by
          have : k = bAdditional := by simpa using h3
          subst this; decide
        simp only [h3, if_true, this, Bool.false_and, Bool.not_false]
        cases hv : v.value <;> simp <;> (split <;> simp_all)
      · simp only [h3, Bool.false_eq_true, if_false]
        by_cases h4 : (k == bOr) = true
        · simp only [h4, if_true, Bool.true_and]
          cases orItems st u v.items <;> simp <;> (split <;> simp_all)
        · simp [h4]
          split <;> simp_all

theorem ruleStep_ok {st : Bytes} {kv : Bytes × RuleAst} {u u' : List Bytes} (h : ruleStep st kv u = .ok u') :
    u' = addAll u (ruleMentions st kv) := by
  unfold ruleStep at h
  unfold ruleMentions
  by_cases h1 : (kv.1 == bType) = true
  · simp only [h1, if_true] at h ⊢
    split at h
    · cases h
    · rename_i c t hv
      simp only [Except.ok.injEq] at h
      rw [hv, ← atName_cons, h]
  · simp only [h1, Bool.false_eq_true, if_false] at h ⊢
    by_cases h2 : (kv.1 == bAllOf) = true
    · simp only [h2, if_true, Except.ok.injEq] at h ⊢
      rw [addAll_append, ← h]
      congr 1
      split <;> rfl
    · simp only [h2, Bool.false_eq_true, if_false] at h ⊢
      by_cases h3 : (kv.1 == bAdditional) = true
      · simp only [h3, if_true] at h ⊢
        split at h
        · cases h
        · rename_i c t hv
          simp only [Except.ok.injEq] at h
          rw [hv, ← atName_cons, h]
      · simp only [h3, Bool.false_eq_true, if_false] at h ⊢
        by_cases h4 : (kv.1 == bOr) = true
        · simp only [h4, if_true] at h ⊢
          exact orItems_ok h
        · simp only [h4, Bool.false_eq_true, if_false, Except.ok.injEq] at h ⊢
          simp [h]

/-- what `collectRules` returns when it succeeds -/
theorem collectRules_ok {st : Bytes} {rs : List (Bytes × RuleAst)} {u u' : List Bytes} {out : List RuleC}
    (h : collectRules st rs u = .ok (out, u')) :
    out = (rs.filter listed).map (fun kv => (ruleOf kv.2).withKey kv.1) ∧ u' = addAll u (rulesMentions st rs) := by
  induction rs generalizing u u' out with
  | nil =>
    simp only [collectRules, Except.ok.injEq, Prod.mk.injEq] at h
    simp [rulesMentions, h.1, h.2]
  | cons kv rest ih =>
    rw [collectRules_cons] at h
    split at h
    · cases h
    · rename_i u1 h1
      split at h
      · cases h
      · rename_i rs' u2 h2
        simp only [Except.ok.injEq, Prod.mk.injEq] at h
        obtain ⟨ho, hu⟩ := ih h2
        have := ruleStep_ok h1
        refine ⟨?_, ?_⟩
        · rw [← h.1, List.filter_cons]
          split <;> simp [ho]
        · rw [← h.2, hu, this]
          simp [rulesMentions, addAll_append]

/-! ## equational forms of `contentOf` / `propsContent` / `itemsContent` -/

/-- the "optional" flag: the value of the first listed "optional" rule -/
def optOf (rs : List RuleC) : Except Fault Bool :=
  match rs.find? (·.key == bOptional) with
  | none => .ok false
  | some r =>
    match parseBool r.scalar with
    | some b => .ok b
    | none => .error .optionalNotBool

/-- the children of a node: properties of an object, items of an array, none otherwise -/
def kidsContent (tt : Bytes) (children : List Ast) (u : List Bytes) : Except Fault (List Content × List Bytes) :=
  if tt == bObject then propsContent children u
  else if tt == bArray then itemsContent children u
  else .ok ([], u)

theorem contentOf_node (tt st k v cm : Bytes) (rules : List (Bytes × RuleAst)) (children : List Ast) (kr : Bool)
    (u : List Bytes) :
    contentOf (.node tt st k v cm rules children kr) u =
      match collectRules st rules u with
      | .error e => .error e
      | .ok (rs, u1) =>
        match optOf rs with
        | .error e => .error e
        | .ok o =>
          match kidsContent tt children u1 with
          | .error e => .error e
          | .ok (cs, u2) => .ok (.node none tt st v (annotation cm) rs cs kr o, u2) := by
  rw [contentOf]
  unfold optOf kidsContent
  rcases collectRules st rules u with e | ⟨rs, u1⟩
  · rfl
  · dsimp only
    have fin : ∀ o : Bool, (if (tt == bObject) = true then
          match propsContent children u1 with
          | Except.error e => Except.error e
          | Except.ok (cs, u2) => Except.ok (Content.node none tt st v (annotation cm) rs cs kr o, u2)
        else if (tt == bArray) = true then
          match itemsContent children u1 with
          | Except.error e => Except.error e
          | Except.ok (cs, u2) => Except.ok (Content.node none tt st v (annotation cm) rs cs kr o, u2)
        else Except.ok (Content.node none tt st v (annotation cm) rs [] kr o, u1)) =
        (match (if (tt == bObject) = true then propsContent children u1
          else if (tt == bArray) = true then itemsContent children u1 else Except.ok ([], u1)) with
        | Except.error e => (Except.error e : Except Fault (Content × List Bytes))
        | Except.ok (cs, u2) => Except.ok (Content.node none tt st v (annotation cm) rs cs kr o, u2)) := by
      intro o
      by_cases h1 : (tt == bObject) = true
      · simp only [h1, if_true]
      · simp only [h1, Bool.false_eq_true, if_false]
        by_cases h2 : (tt == bArray) = true
        · simp only [h2, if_true]
        · simp only [h2, Bool.false_eq_true, if_false]
    cases hf : rs.find? (·.key == bOptional) with
    | none => dsimp only; exact fin false
    | some r =>
      dsimp only
      cases hp : parseBool r.scalar with
      | none => rfl
      | some b => dsimp only; exact fin b

theorem propsContent_cons (a : Ast) (rest : List Ast) (u : List Bytes) :
    propsContent (a :: rest) u =
      match contentOf a u with
      | .error e => .error e
      | .ok (c, u1) =>
        match propsContent rest (if a.isKeyShortcut then addUsed u1 a.key else u1) with
        | .error e => .error e
        | .ok (cs, u3) => .ok (c.withKey a.key :: cs, u3) := by
  rw [propsContent.eq_def]
  dsimp only
  rcases contentOf a u with e | ⟨c, u1⟩
  · rfl
  · cases a; rfl

theorem itemsContent_cons (a : Ast) (rest : List Ast) (u : List Bytes) :
    itemsContent (a :: rest) u =
      match contentOf a u with
      | .error e => .error e
      | .ok (c, u1) =>
        match itemsContent rest u1 with
        | .error e => .error e
        | .ok (cs, u2) => .ok (c.setOptional :: cs, u2) := by
  rw [itemsContent.eq_def]
  dsimp only
  rcases contentOf a u with e | ⟨c, u1⟩
  · rfl
  · dsimp only
    rcases itemsContent rest u1 with e | ⟨cs, u2⟩ <;> rfl

/-- mutual induction over an AST and its lists of children -/
theorem Ast.induct {P : Ast → Prop} {Q : List Ast → Prop}
    (node : ∀ tt st k v cm rules children kr, Q children → P (.node tt st k v cm rules children kr))
    (nil : Q []) (cons : ∀ a rest, P a → Q rest → Q (a :: rest)) : ∀ a, P a :=
  fun a => Ast.rec (motive_1 := P) (motive_2 := Q) node nil cons a

theorem Ast.induct_list {P : Ast → Prop} {Q : List Ast → Prop}
    (node : ∀ tt st k v cm rules children kr, Q children → P (.node tt st k v cm rules children kr))
    (nil : Q []) (cons : ∀ a rest, P a → Q rest → Q (a :: rest)) : ∀ l, Q l :=
  fun l => Ast.rec_1 (motive_1 := P) (motive_2 := Q) node nil cons l

/-! ## inversion -/

theorem contentOf_inv {tt st k v cm : Bytes} {rules : List (Bytes × RuleAst)} {children : List Ast} {kr : Bool}
    {u u' : List Bytes} {c : Content} (h : contentOf (.node tt st k v cm rules children kr) u = .ok (c, u')) :
    ∃ rs u1 o cs, collectRules st rules u = .ok (rs, u1) ∧ optOf rs = .ok o ∧
      kidsContent tt children u1 = .ok (cs, u') ∧ c = .node none tt st v (annotation cm) rs cs kr o := by
  rw [contentOf_node] at h
  split at h
  · cases h
  · rename_i rs u1 h1
    split at h
    · cases h
    · rename_i o h2
      split at h
      · cases h
      · rename_i cs u2 h3
        simp only [Except.ok.injEq, Prod.mk.injEq] at h
        exact ⟨rs, u1, o, cs, h1, h2, h.2 ▸ h3, h.1.symm⟩

theorem propsContent_inv {a : Ast} {rest : List Ast} {u u' : List Bytes} {cs' : List Content}
    (h : propsContent (a :: rest) u = .ok (cs', u')) :
    ∃ c u1 cs, contentOf a u = .ok (c, u1) ∧
      propsContent rest (if a.isKeyShortcut then addUsed u1 a.key else u1) = .ok (cs, u') ∧
      cs' = c.withKey a.key :: cs := by
  rw [propsContent_cons] at h
  split at h
  · cases h
  · rename_i c u1 h1
    split at h
    · cases h
    · rename_i cs u3 h2
      simp only [Except.ok.injEq, Prod.mk.injEq] at h
      exact ⟨c, u1, cs, h1, h.2 ▸ h2, h.1.symm⟩

theorem itemsContent_inv {a : Ast} {rest : List Ast} {u u' : List Bytes} {cs' : List Content}
    (h : itemsContent (a :: rest) u = .ok (cs', u')) :
    ∃ c u1 cs, contentOf a u = .ok (c, u1) ∧ itemsContent rest u1 = .ok (cs, u') ∧ cs' = c.setOptional :: cs := by
  rw [itemsContent_cons] at h
  split at h
  · cases h
  · rename_i c u1 h1
    split at h
    · cases h
    · rename_i cs u3 h2
      simp only [Except.ok.injEq, Prod.mk.injEq] at h
      exact ⟨c, u1, cs, h1, h.2 ▸ h2, h.1.symm⟩

theorem propsContent_nil_inv {u u' : List Bytes} {cs : List Content} (h : propsContent [] u = .ok (cs, u')) :
    cs = [] ∧ u' = u := by
  rw [propsContent] at h
  simp only [Except.ok.injEq, Prod.mk.injEq] at h
  exact ⟨h.1.symm, h.2.symm⟩

theorem itemsContent_nil_inv {u u' : List Bytes} {cs : List Content} (h : itemsContent [] u = .ok (cs, u')) :
    cs = [] ∧ u' = u := by
  rw [itemsContent] at h
  simp only [Except.ok.injEq, Prod.mk.injEq] at h
  exact ⟨h.1.symm, h.2.symm⟩

/-! ## the vocabulary of the properties -/

mutual
  /-- the user-type names an AST mentions, in the order the conversion meets them (pre-order): the names of the rules of
  the node (`rulesMentions`), then — for an object — every property's mentions followed by its key when the key is a
  type shortcut, — for an array — every item's mentions; the children of any other node are not visited -/
  def mentions : Ast → List Bytes
    | .node tt st _ _ _ rules children _ =>
      rulesMentions st rules ++
        (if tt == bObject then propsMentions children else if tt == bArray then itemsMentions children else [])
  def propsMentions : List Ast → List Bytes
    | [] => []
    | a :: rest => (mentions a ++ (if a.isKeyShortcut then [a.key] else [])) ++ propsMentions rest
  def itemsMentions : List Ast → List Bytes
    | [] => []
    | a :: rest => mentions a ++ itemsMentions rest
end

mutual
  /-- the content tree has the shape of the AST (recursively): same token type, type, value, note and key-shortcut flag;
  an object's properties in order with their keys, an array's items in order and optional, no children otherwise -/
  def sameShape : Ast → Content → Bool
    | .node tt st _ v cm _ children kr, c =>
      c.tokenType == tt && c.type == st && c.scalar == v && c.note == annotation cm && c.isKeyRef == kr &&
        (if tt == bObject then samePropsShape children c.kids
         else if tt == bArray then sameItemsShape children c.kids
         else c.kids.isEmpty)
  def samePropsShape : List Ast → List Content → Bool
    | [], cs => cs.isEmpty
    | a :: rest, cs =>
      match cs with
      | [] => false
      | c :: cs => c.key == some a.key && sameShape a c && samePropsShape rest cs
  def sameItemsShape : List Ast → List Content → Bool
    | [], cs => cs.isEmpty
    | a :: rest, cs =>
      match cs with
      | [] => false
      | c :: cs => c.optional && sameShape a c && sameItemsShape rest cs
end

/-- one rule cannot fault -/
def ruleWF (st : Bytes) (kv : Bytes × RuleAst) : Bool :=
  (!(kv.1 == bType) || !kv.2.value.isEmpty) &&
  (!(kv.1 == bAdditional) || !kv.2.value.isEmpty) &&
  (!(kv.1 == bOr) || kv.2.items.all (fun i => !(orItemType st i).isEmpty)) &&
  (!(kv.1 == bOptional) || (parseBool kv.2.value).isSome)

mutual
  /-- every "type" and "additionalProperties" rule has a non-empty value, every "or" item resolves to a non-empty type
  name, every "optional" rule holds a boolean word — at every node the conversion visits -/
  def wellFormed : Ast → Bool
    | .node tt st _ _ _ rules children _ =>
      rules.all (ruleWF st) && (if tt == bObject || tt == bArray then allWF children else true)
  def allWF : List Ast → Bool
    | [] => true
    | a :: rest => wellFormed a && allWF rest
end

def kidsMentions (tt : Bytes) (children : List Ast) : List Bytes :=
  if tt == bObject then propsMentions children else if tt == bArray then itemsMentions children else []

def sameKidsShape (tt : Bytes) (children : List Ast) (kids : List Content) : Bool :=
  if tt == bObject then samePropsShape children kids
  else if tt == bArray then sameItemsShape children kids
  else kids.isEmpty

theorem mentions_node (tt st k v cm : Bytes) (rules : List (Bytes × RuleAst)) (children : List Ast) (kr : Bool) :
    mentions (.node tt st k v cm rules children kr) = rulesMentions st rules ++ kidsMentions tt children := by
  rw [mentions]; rfl

theorem sameShape_node (tt st k v cm : Bytes) (rules : List (Bytes × RuleAst)) (children : List Ast) (kr : Bool)
    (c : Content) :
    sameShape (.node tt st k v cm rules children kr) c =
      (c.tokenType == tt && c.type == st && c.scalar == v && c.note == annotation cm && c.isKeyRef == kr &&
        sameKidsShape tt children c.kids) := by
  rw [sameShape]; rfl

@[simp] theorem sameShape_withKey (a : Ast) (c : Content) (k : Bytes) : sameShape a (c.withKey k) = sameShape a c := by
  cases a; cases c; simp only [sameShape_node]; rfl

@[simp] theorem sameShape_setOptional (a : Ast) (c : Content) : sameShape a c.setOptional = sameShape a c := by
  cases a; cases c; simp only [sameShape_node]; rfl

@[simp] theorem Content.withKey_key (c : Content) (k : Bytes) : (c.withKey k).key = some k := by cases c; rfl
@[simp] theorem Content.setOptional_optional (c : Content) : c.setOptional.optional = true := by cases c; rfl

/-! ## the specification of a successful conversion -/

/-- used types and shape, by mutual induction -/
theorem contentOf_spec (a : Ast) : ∀ u c u', contentOf a u = .ok (c, u') →
    u' = addAll u (mentions a) ∧ sameShape a c = true ∧ c.key = none := by
  refine Ast.induct (P := fun a => ∀ u c u', contentOf a u = .ok (c, u') →
      u' = addAll u (mentions a) ∧ sameShape a c = true ∧ c.key = none)
    (Q := fun l => (∀ u cs u', propsContent l u = .ok (cs, u') →
        u' = addAll u (propsMentions l) ∧ samePropsShape l cs = true) ∧
      (∀ u cs u', itemsContent l u = .ok (cs, u') →
        u' = addAll u (itemsMentions l) ∧ sameItemsShape l cs = true)) ?_ ?_ ?_ a
  · intro tt st k v cm rules children kr ih u c u' h
    obtain ⟨rs, u1, o, cs, h1, _, h3, rfl⟩ := contentOf_inv h
    obtain ⟨_, hu1⟩ := collectRules_ok h1
    have key : u' = addAll u1 (kidsMentions tt children) ∧ sameKidsShape tt children cs = true := by
      unfold kidsContent at h3
      unfold kidsMentions sameKidsShape
      by_cases e1 : (tt == bObject) = true
      · simp only [e1, if_true] at h3 ⊢
        exact ih.1 _ _ _ h3
      · simp only [e1, Bool.false_eq_true, if_false] at h3 ⊢
        by_cases e2 : (tt == bArray) = true
        · simp only [e2, if_true] at h3 ⊢
          exact ih.2 _ _ _ h3
        · simp only [e2, Bool.false_eq_true, if_false, Except.ok.injEq, Prod.mk.injEq] at h3 ⊢
          simp [← h3.1, ← h3.2]
    refine ⟨?_, ?_, rfl⟩
    · rw [mentions_node, addAll_append, ← hu1, key.1]
    · rw [sameShape_node]
      simp [Content.tokenType, Content.type, Content.scalar, Content.note, Content.isKeyRef, Content.kids, key.2]
  · constructor
    · intro u cs u' h
      obtain ⟨rfl, rfl⟩ := propsContent_nil_inv h
      simp [propsMentions, samePropsShape]
    · intro u cs u' h
      obtain ⟨rfl, rfl⟩ := itemsContent_nil_inv h
      simp [itemsMentions, sameItemsShape]
  · intro a rest iha ihr
    constructor
    · intro u cs' u' h
      obtain ⟨c, u1, cs, h1, h2, rfl⟩ := propsContent_inv h
      obtain ⟨e1, s1, _⟩ := iha _ _ _ h1
      obtain ⟨e2, s2⟩ := ihr.1 _ _ _ h2
      constructor
      · rw [propsMentions, addAll_append, addAll_append, ← e1, e2]
        congr 1
        split <;> rfl
      · simp [samePropsShape, s1, s2]
    · intro u cs' u' h
      obtain ⟨c, u1, cs, h1, h2, rfl⟩ := itemsContent_inv h
      obtain ⟨e1, s1, _⟩ := iha _ _ _ h1
      obtain ⟨e2, s2⟩ := ihr.2 _ _ _ h2
      constructor
      · rw [itemsMentions, addAll_append, ← e1, e2]
      · simp [sameItemsShape, s1, s2]

/-! ## the shape of the children, list-wise -/

theorem samePropsShape_iff (l : List Ast) (cs : List Content) :
    samePropsShape l cs = true ↔
      cs.length = l.length ∧ ∀ p ∈ l.zip cs, p.2.key = some p.1.key ∧ sameShape p.1 p.2 = true := by
  induction l generalizing cs with
  | nil => cases cs <;> simp [samePropsShape]
  | cons a rest ih =>
    cases cs with
    | nil => simp [samePropsShape]
    | cons c cs =>
      rw [samePropsShape]
      simp only [Bool.and_eq_true, beq_iff_eq, ih, List.length_cons, Nat.add_right_cancel_iff, List.zip_cons_cons,
        List.mem_cons, forall_eq_or_imp]
      constructor
      · rintro ⟨⟨h1, h2⟩, h3, h4⟩
        exact ⟨h3, ⟨h1, h2⟩, h4⟩
      · rintro ⟨h3, ⟨h1, h2⟩, h4⟩
        exact ⟨⟨h1, h2⟩, h3, h4⟩

theorem sameItemsShape_iff (l : List Ast) (cs : List Content) :
    sameItemsShape l cs = true ↔
      cs.length = l.length ∧ ∀ p ∈ l.zip cs, p.2.optional = true ∧ sameShape p.1 p.2 = true := by
  induction l generalizing cs with
  | nil => cases cs <;> simp [sameItemsShape]
  | cons a rest ih =>
    cases cs with
    | nil => simp [sameItemsShape]
    | cons c cs =>
      rw [sameItemsShape]
      simp only [Bool.and_eq_true, ih, List.length_cons, Nat.add_right_cancel_iff, List.zip_cons_cons,
        List.mem_cons, forall_eq_or_imp]
      constructor
      · rintro ⟨⟨h1, h2⟩, h3, h4⟩
        exact ⟨h3, ⟨h1, h2⟩, h4⟩
      · rintro ⟨h3, ⟨h1, h2⟩, h4⟩
        exact ⟨⟨h1, h2⟩, h3, h4⟩

theorem samePropsShape_keys {l : List Ast} {cs : List Content} (h : samePropsShape l cs = true) :
    cs.map Content.key = l.map (fun k => some k.key) := by
  induction l generalizing cs with
  | nil => cases cs <;> simp_all [samePropsShape]
  | cons a rest ih =>
    cases cs with
    | nil => simp [samePropsShape] at h
    | cons c cs =>
      rw [samePropsShape] at h
      simp only [Bool.and_eq_true, beq_iff_eq] at h
      simp [h.1.1, ih h.2]

theorem sameItemsShape_optional {l : List Ast} {cs : List Content} (h : sameItemsShape l cs = true) :
    cs.length = l.length ∧ ∀ k ∈ cs, k.optional = true := by
  induction l generalizing cs with
  | nil => cases cs <;> simp_all [sameItemsShape]
  | cons a rest ih =>
    cases cs with
    | nil => simp [sameItemsShape] at h
    | cons c cs =>
      rw [sameItemsShape] at h
      simp only [Bool.and_eq_true] at h
      obtain ⟨hl, ho⟩ := ih h.2
      simp only [List.length_cons, hl, List.mem_cons, forall_eq_or_imp, h.1.1, true_and]
      exact ho

/-! ## no fault on well-formed ASTs -/

theorem orItems_total {st : Bytes} {items : List RuleAst} (h : items.all (fun i => !(orItemType st i).isEmpty) = true)
    (u : List Bytes) : ∃ u', orItems st u items = .ok u' := by
  induction items generalizing u with
  | nil => exact ⟨u, rfl⟩
  | cons i r ih =>
    simp only [List.all_cons, Bool.and_eq_true] at h
    unfold orItems
    split
    · rename_i he
      simp [he] at h
    · exact ih h.2 _

theorem ruleStep_total {st : Bytes} {kv : Bytes × RuleAst} (h : ruleWF st kv = true) (u : List Bytes) :
    ∃ u', ruleStep st kv u = .ok u' := by
  unfold ruleWF at h
  simp only [Bool.and_eq_true, Bool.or_eq_true, Bool.not_eq_true'] at h
  obtain ⟨⟨⟨w1, w2⟩, w3⟩, _⟩ := h
  unfold ruleStep
  by_cases h1 : (kv.1 == bType) = true
  · simp only [h1, if_true]
    rcases w1 with w1 | w1
    · simp [h1] at w1
    · split
      · rename_i hv; simp [hv] at w1
      · exact ⟨_, rfl⟩
  · simp only [h1, Bool.false_eq_true, if_false]
    by_cases h2 : (kv.1 == bAllOf) = true
    · simp only [h2, if_true]; exact ⟨_, rfl⟩
    · simp only [h2, Bool.false_eq_true, if_false]
      by_cases h3 : (kv.1 == bAdditional) = true
      · simp only [h3, if_true]
        rcases w2 with w2 | w2
        · simp [h3] at w2
        · split
          · rename_i hv; simp [hv] at w2
          · exact ⟨_, rfl⟩
      · simp only [h3, Bool.false_eq_true, if_false]
        by_cases h4 : (kv.1 == bOr) = true
        · simp only [h4, if_true]
          rcases w3 with w3 | w3
          · simp [h4] at w3
          · exact orItems_total w3 u
        · simp only [h4, Bool.false_eq_true, if_false]; exact ⟨_, rfl⟩

theorem collectRules_total {st : Bytes} {rs : List (Bytes × RuleAst)} (h : rs.all (ruleWF st) = true)
    (u : List Bytes) : ∃ out u', collectRules st rs u = .ok (out, u') := by
  induction rs generalizing u with
  | nil => exact ⟨[], u, rfl⟩
  | cons kv rest ih =>
    simp only [List.all_cons, Bool.and_eq_true] at h
    obtain ⟨u1, h1⟩ := ruleStep_total h.1 u
    obtain ⟨out, u2, h2⟩ := ih h.2 u1
    rw [collectRules_cons, h1]
    dsimp only
    rw [h2]
    exact ⟨_, _, rfl⟩

theorem optOf_total {st : Bytes} {rs : List (Bytes × RuleAst)} (h : rs.all (ruleWF st) = true) :
    ∃ o, optOf ((rs.filter listed).map (fun kv => (ruleOf kv.2).withKey kv.1)) = .ok o := by
  unfold optOf
  split
  · exact ⟨_, rfl⟩
  · rename_i r hf
    have hm := List.mem_of_find?_eq_some hf
    have hk := List.find?_some hf
    simp only [List.mem_map, List.mem_filter] at hm
    obtain ⟨kv, ⟨hmem, _⟩, rfl⟩ := hm
    simp only [RuleC.withKey_key] at hk
    have hw := List.all_eq_true.mp h kv hmem
    unfold ruleWF at hw
    simp only [Bool.and_eq_true, Bool.or_eq_true, Bool.not_eq_true'] at hw
    rcases hw.2 with w | w
    · simp [hk] at w
    · simp only [RuleC.withKey_scalar, ruleOf_scalar]
      split
      · exact ⟨_, rfl⟩
      · rename_i hn; simp [hn] at w

theorem wellFormed_node (tt st k v cm : Bytes) (rules : List (Bytes × RuleAst)) (children : List Ast) (kr : Bool) :
    wellFormed (.node tt st k v cm rules children kr) =
      (rules.all (ruleWF st) && (if tt == bObject || tt == bArray then allWF children else true)) := by
  rw [wellFormed]

theorem contentOf_total_aux (a : Ast) : wellFormed a = true → ∀ u, ∃ c u', contentOf a u = .ok (c, u') := by
  refine Ast.induct (P := fun a => wellFormed a = true → ∀ u, ∃ c u', contentOf a u = .ok (c, u'))
    (Q := fun l => allWF l = true → (∀ u, ∃ cs u', propsContent l u = .ok (cs, u')) ∧
      (∀ u, ∃ cs u', itemsContent l u = .ok (cs, u'))) ?_ ?_ ?_ a
  · intro tt st k v cm rules children kr ih hw u
    rw [wellFormed_node] at hw
    simp only [Bool.and_eq_true] at hw
    obtain ⟨out, u1, h1⟩ := collectRules_total hw.1 u
    obtain ⟨o, h2⟩ := optOf_total hw.1
    rw [← (collectRules_ok h1).1] at h2
    have h3 : ∃ cs u2, kidsContent tt children u1 = .ok (cs, u2) := by
      unfold kidsContent
      by_cases e1 : (tt == bObject) = true
      · simp only [e1, if_true, Bool.true_or] at hw ⊢
        exact (ih hw.2).1 u1
      · simp only [e1, Bool.false_eq_true, if_false, Bool.false_or] at hw ⊢
        by_cases e2 : (tt == bArray) = true
        · simp only [e2, if_true] at hw ⊢
          exact (ih hw.2).2 u1
        · simp only [e2, Bool.false_eq_true, if_false]
          exact ⟨_, _, rfl⟩
    obtain ⟨cs, u2, h3⟩ := h3
    rw [contentOf_node, h1]
    dsimp only
    rw [h2]
    dsimp only
    rw [h3]
    exact ⟨_, _, rfl⟩
  · intro _
    exact ⟨fun u => ⟨[], u, by rw [propsContent]⟩, fun u => ⟨[], u, by rw [itemsContent]⟩⟩
  · intro a rest iha ihr hw
    rw [allWF] at hw
    simp only [Bool.and_eq_true] at hw
    constructor
    · intro u
      obtain ⟨c, u1, h1⟩ := iha hw.1 u
      obtain ⟨cs, u2, h2⟩ := (ihr hw.2).1 (if a.isKeyShortcut then addUsed u1 a.key else u1)
      rw [propsContent_cons, h1]
      dsimp only
      rw [h2]
      exact ⟨_, _, rfl⟩
    · intro u
      obtain ⟨c, u1, h1⟩ := iha hw.1 u
      obtain ⟨cs, u2, h2⟩ := (ihr hw.2).2 u1
      rw [itemsContent_cons, h1]
      dsimp only
      rw [h2]
      exact ⟨_, _, rfl⟩

/-! ## each fault has its cause -/

mutual
  /-- the nodes the conversion visits (pre-order): the node, the properties of an object, the items of an array -/
  def nodes : Ast → List Ast
    | .node tt st k v cm rules children kr =>
      .node tt st k v cm rules children kr :: (if tt == bObject || tt == bArray then nodesL children else [])
  def nodesL : List Ast → List Ast
    | [] => []
    | a :: rest => nodes a ++ nodesL rest
end

/-- the rule `kv` of a node of type `st` is a cause of the fault -/
def RuleFaults (st : Bytes) (kv : Bytes × RuleAst) : Fault → Prop
  | .emptyValue r => kv.1 = r ∧
      ((r = bType ∨ r = bAdditional) ∧ kv.2.value = [] ∨ r = bOr ∧ ∃ i ∈ kv.2.items, orItemType st i = [])
  | .optionalNotBool => kv.1 = bOptional ∧ parseBool kv.2.value = none

theorem orItems_error {st : Bytes} {items : List RuleAst} {u : List Bytes} {f : Fault}
    (h : orItems st u items = .error f) : f = .emptyValue bOr ∧ ∃ i ∈ items, orItemType st i = [] := by
  induction items generalizing u with
  | nil => cases h
  | cons i r ih =>
    unfold orItems at h
    split at h
    · rename_i he
      cases h
      exact ⟨rfl, i, List.mem_cons_self, he⟩
    · obtain ⟨e, j, hj, hje⟩ := ih h
      exact ⟨e, j, List.mem_cons_of_mem _ hj, hje⟩

theorem ruleStep_error {st : Bytes} {kv : Bytes × RuleAst} {u : List Bytes} {f : Fault}
    (h : ruleStep st kv u = .error f) : RuleFaults st kv f := by
  unfold ruleStep at h
  by_cases h1 : (kv.1 == bType) = true
  · simp only [h1, if_true] at h
    split at h
    · rename_i hv
      cases h
      exact ⟨by simpa using h1, Or.inl ⟨Or.inl rfl, hv⟩⟩
    · cases h
  · simp only [h1, Bool.false_eq_true, if_false] at h
    by_cases h2 : (kv.1 == bAllOf) = true
    · simp only [h2, if_true] at h; cases h
    · simp only [h2, Bool.false_eq_true, if_false] at h
      by_cases h3 : (kv.1 == bAdditional) = true
      · simp only [h3, if_true] at h
        split at h
        · rename_i hv
          cases h
          exact ⟨by simpa using h3, Or.inl ⟨Or.inr rfl, hv⟩⟩
        · cases h
      · simp only [h3, Bool.false_eq_true, if_false] at h
        by_cases h4 : (kv.1 == bOr) = true
        · simp only [h4, if_true] at h
          obtain ⟨rfl, hi⟩ := orItems_error h
          exact ⟨by simpa using h4, Or.inr ⟨rfl, hi⟩⟩
        · simp only [h4, Bool.false_eq_true, if_false] at h; cases h

theorem collectRules_error {st : Bytes} {rs : List (Bytes × RuleAst)} {u : List Bytes} {f : Fault}
    (h : collectRules st rs u = .error f) : ∃ kv ∈ rs, RuleFaults st kv f := by
  induction rs generalizing u with
  | nil => cases h
  | cons kv rest ih =>
    rw [collectRules_cons] at h
    split at h
    · rename_i e he
      cases h
      exact ⟨kv, List.mem_cons_self, ruleStep_error he⟩
    · split at h
      · rename_i e he
        cases h
        obtain ⟨kv', hm, hf⟩ := ih he
        exact ⟨kv', List.mem_cons_of_mem _ hm, hf⟩
      · cases h

theorem optOf_error {st : Bytes} {rs : List (Bytes × RuleAst)} {f : Fault}
    (h : optOf ((rs.filter listed).map (fun kv => (ruleOf kv.2).withKey kv.1)) = .error f) :
    ∃ kv ∈ rs, RuleFaults st kv f := by
  unfold optOf at h
  split at h
  · cases h
  · rename_i r hf
    have hm := List.mem_of_find?_eq_some hf
    have hk := List.find?_some hf
    simp only [List.mem_map, List.mem_filter] at hm
    obtain ⟨kv, ⟨hmem, _⟩, rfl⟩ := hm
    simp only [RuleC.withKey_key] at hk
    simp only [RuleC.withKey_scalar, ruleOf_scalar] at h
    split at h
    · cases h
    · rename_i hn
      cases h
      exact ⟨kv, hmem, by simpa using hk, hn⟩

theorem nodes_node (tt st k v cm : Bytes) (rules : List (Bytes × RuleAst)) (children : List Ast) (kr : Bool) :
    nodes (.node tt st k v cm rules children kr) =
      .node tt st k v cm rules children kr :: (if tt == bObject || tt == bArray then nodesL children else []) := by
  rw [nodes]

theorem contentOf_error_aux (a : Ast) : ∀ u f, contentOf a u = .error f →
    ∃ n ∈ nodes a, ∃ kv ∈ n.rules, RuleFaults n.schemaType kv f := by
  refine Ast.induct (P := fun a => ∀ u f, contentOf a u = .error f →
      ∃ n ∈ nodes a, ∃ kv ∈ n.rules, RuleFaults n.schemaType kv f)
    (Q := fun l => (∀ u f, propsContent l u = .error f →
        ∃ n ∈ nodesL l, ∃ kv ∈ n.rules, RuleFaults n.schemaType kv f) ∧
      (∀ u f, itemsContent l u = .error f →
        ∃ n ∈ nodesL l, ∃ kv ∈ n.rules, RuleFaults n.schemaType kv f)) ?_ ?_ ?_ a
  · intro tt st k v cm rules children kr ih u f h
    rw [contentOf_node] at h
    rw [nodes_node]
    split at h
    · rename_i e he
      cases h
      obtain ⟨kv, hm, hf⟩ := collectRules_error he
      exact ⟨_, List.mem_cons_self, kv, hm, hf⟩
    · rename_i rs u1 h1
      split at h
      · rename_i e he
        cases h
        rw [(collectRules_ok h1).1] at he
        obtain ⟨kv, hm, hf⟩ := optOf_error (st := st) he
        exact ⟨_, List.mem_cons_self, kv, hm, hf⟩
      · split at h
        · rename_i e he
          cases h
          unfold kidsContent at he
          by_cases e1 : (tt == bObject) = true
          · simp only [e1, if_true, Bool.true_or] at he ⊢
            obtain ⟨n, hn, r⟩ := ih.1 _ _ he
            exact ⟨n, List.mem_cons_of_mem _ hn, r⟩
          · simp only [e1, Bool.false_eq_true, if_false, Bool.false_or] at he ⊢
            by_cases e2 : (tt == bArray) = true
            · simp only [e2, if_true] at he ⊢
              obtain ⟨n, hn, r⟩ := ih.2 _ _ he
              exact ⟨n, List.mem_cons_of_mem _ hn, r⟩
            · simp only [e2, Bool.false_eq_true, if_false] at he
              cases he
        · cases h
  · constructor
    · intro u f h; rw [propsContent] at h; cases h
    · intro u f h; rw [itemsContent] at h; cases h
  · intro a rest iha ihr
    constructor
    · intro u f h
      rw [propsContent_cons] at h
      rw [nodesL]
      split at h
      · rename_i e he
        cases h
        obtain ⟨n, hn, r⟩ := iha _ _ he
        exact ⟨n, List.mem_append_left _ hn, r⟩
      · split at h
        · rename_i e he
          cases h
          obtain ⟨n, hn, r⟩ := ihr.1 _ _ he
          exact ⟨n, List.mem_append_right _ hn, r⟩
        · cases h
    · intro u f h
      rw [itemsContent_cons] at h
      rw [nodesL]
      split at h
      · rename_i e he
        cases h
        obtain ⟨n, hn, r⟩ := iha _ _ he
        exact ⟨n, List.mem_append_left _ hn, r⟩
      · split at h
        · rename_i e he
          cases h
          obtain ⟨n, hn, r⟩ := ihr.2 _ _ he
          exact ⟨n, List.mem_append_right _ hn, r⟩
        · cases h

/-! ## the plain reading of "mentions" on regular ASTs -/

mutual
  /-- the plain reading: the names of the rules of the node, then for EVERY child its mentions followed by its key when it
  is a key shortcut — whatever the token type of the node -/
  def mentionsAll : Ast → List Bytes
    | .node _ st _ _ _ rules children _ => rulesMentions st rules ++ childrenMentionsAll children
  def childrenMentionsAll : List Ast → List Bytes
    | [] => []
    | a :: rest => (mentionsAll a ++ (if a.isKeyShortcut then [a.key] else [])) ++ childrenMentionsAll rest
end

mutual
  /-- only objects and arrays have children, and the items of an array are not key shortcuts -/
  def regular : Ast → Bool
    | .node tt _ _ _ _ _ children _ =>
      if tt == bObject then regularL children true
      else if tt == bArray then regularL children false
      else children.isEmpty
  def regularL : List Ast → Bool → Bool
    | [], _ => true
    | a :: rest, sc => (sc || !a.isKeyShortcut) && regular a && regularL rest sc
end

theorem mentions_eq_mentionsAll_aux (a : Ast) : regular a = true → mentions a = mentionsAll a := by
  refine Ast.induct (P := fun a => regular a = true → mentions a = mentionsAll a)
    (Q := fun l => (regularL l true = true → propsMentions l = childrenMentionsAll l) ∧
      (regularL l false = true → itemsMentions l = childrenMentionsAll l)) ?_ ?_ ?_ a
  · intro tt st k v cm rules children kr ih h
    rw [regular] at h
    rw [mentions, mentionsAll]
    congr 1
    by_cases e1 : (tt == bObject) = true
    · simp only [e1, if_true] at h ⊢
      exact ih.1 h
    · simp only [e1, Bool.false_eq_true, if_false] at h ⊢
      by_cases e2 : (tt == bArray) = true
      · simp only [e2, if_true] at h ⊢
        exact ih.2 h
      · simp only [e2, Bool.false_eq_true, if_false] at h ⊢
        have : children = [] := by simpa using h
        subst this
        rw [childrenMentionsAll]
  · constructor <;> intro _
    · rw [propsMentions, childrenMentionsAll]
    · rw [itemsMentions, childrenMentionsAll]
  · intro a rest iha ihr
    constructor
    · intro h
      rw [regularL] at h
      simp only [Bool.and_eq_true] at h
      rw [propsMentions, childrenMentionsAll, iha h.1.2, ihr.1 h.2]
    · intro h
      rw [regularL] at h
      simp only [Bool.and_eq_true, Bool.false_or, Bool.not_eq_true'] at h
      rw [itemsMentions, childrenMentionsAll, iha h.1.2, ihr.2 h.2, h.1.1]
      simp

/-! ## decidable equality of the catalog trees (for the closed examples) -/

mutual
  def RuleC.decEq : (a b : RuleC) → Decidable (a = b)
    | .node k t s n c, .node k' t' s' n' c' =>
      if h1 : k = k' then if h2 : t = t' then if h3 : s = s' then if h4 : n = n' then
        match RuleC.decEqList c c' with
        | isTrue h5 => isTrue (by subst h1 h2 h3 h4 h5; rfl)
        | isFalse h5 => isFalse (by intro e; cases e; exact h5 rfl)
      else isFalse (by intro e; cases e; exact h4 rfl)
      else isFalse (by intro e; cases e; exact h3 rfl)
      else isFalse (by intro e; cases e; exact h2 rfl)
      else isFalse (by intro e; cases e; exact h1 rfl)
  def RuleC.decEqList : (a b : List RuleC) → Decidable (a = b)
    | [], [] => isTrue rfl
    | [], _ :: _ => isFalse (by intro e; cases e)
    | _ :: _, [] => isFalse (by intro e; cases e)
    | a :: as, b :: bs =>
      match RuleC.decEq a b with
      | isTrue h1 =>
        match RuleC.decEqList as bs with
        | isTrue h2 => isTrue (by subst h1 h2; rfl)
        | isFalse h2 => isFalse (by intro e; cases e; exact h2 rfl)
      | isFalse h1 => isFalse (by intro e; cases e; exact h1 rfl)
end

instance : DecidableEq RuleC := RuleC.decEq

mutual
  def Content.decEq : (a b : Content) → Decidable (a = b)
    | .node k t ty s n r c kr o, .node k' t' ty' s' n' r' c' kr' o' =>
      if h : k = k' ∧ t = t' ∧ ty = ty' ∧ s = s' ∧ n = n' ∧ r = r' ∧ kr = kr' ∧ o = o' then
        match Content.decEqList c c' with
        | isTrue h5 => isTrue (by obtain ⟨rfl, rfl, rfl, rfl, rfl, rfl, rfl, rfl⟩ := h; subst h5; rfl)
        | isFalse h5 => isFalse (by intro e; cases e; exact h5 rfl)
      else isFalse (by intro e; cases e; exact h ⟨rfl, rfl, rfl, rfl, rfl, rfl, rfl, rfl⟩)
  def Content.decEqList : (a b : List Content) → Decidable (a = b)
    | [], [] => isTrue rfl
    | [], _ :: _ => isFalse (by intro e; cases e)
    | _ :: _, [] => isFalse (by intro e; cases e)
    | a :: as, b :: bs =>
      match Content.decEq a b with
      | isTrue h1 =>
        match Content.decEqList as bs with
        | isTrue h2 => isTrue (by subst h1 h2; rfl)
        | isFalse h2 => isFalse (by intro e; cases e; exact h2 rfl)
      | isFalse h1 => isFalse (by intro e; cases e; exact h1 rfl)
end

instance : DecidableEq Content := Content.decEq

instance {ε α : Type} [DecidableEq ε] [DecidableEq α] : DecidableEq (Except ε α)
  | .ok a, .ok b => if h : a = b then isTrue (by rw [h]) else isFalse (by intro e; cases e; exact h rfl)
  | .error a, .error b => if h : a = b then isTrue (by rw [h]) else isFalse (by intro e; cases e; exact h rfl)
  | .ok _, .error _ => isFalse (by intro e; cases e)
  | .error _, .ok _ => isFalse (by intro e; cases e)

/-! ## the Prop-level vocabulary and its unfoldings -/

/-- the content tree has the shape of the AST, recursively (`sameShape`) -/
def SameShape (a : Ast) (c : Content) : Prop := sameShape a c = true
instance (a : Ast) (c : Content) : Decidable (SameShape a c) := inferInstanceAs (Decidable (_ = true))

/-- what `SameShape` says at a node -/
theorem SameShape_iff (a : Ast) (c : Content) :
    SameShape a c ↔
      c.tokenType = a.tokenType ∧ c.type = a.schemaType ∧ c.scalar = a.value ∧ c.note = annotation a.comment ∧
      c.isKeyRef = a.isKeyShortcut ∧
      (a.tokenType = bObject → c.kids.length = a.children.length ∧
        ∀ p ∈ a.children.zip c.kids, p.2.key = some p.1.key ∧ SameShape p.1 p.2) ∧
      (a.tokenType = bArray → c.kids.length = a.children.length ∧
        ∀ p ∈ a.children.zip c.kids, p.2.optional = true ∧ SameShape p.1 p.2) ∧
      (a.tokenType ≠ bObject → a.tokenType ≠ bArray → c.kids = []) := by
  obtain ⟨tt, st, k, v, cm, rules, children, kr⟩ := a
  unfold SameShape
  rw [sameShape_node]
  simp only [Bool.and_eq_true, beq_iff_eq, Ast.tokenType, Ast.schemaType, Ast.value, Ast.comment, Ast.isKeyShortcut,
    Ast.children, and_assoc]
  refine and_congr_right fun _ => and_congr_right fun _ => and_congr_right fun _ => and_congr_right fun _ =>
    and_congr_right fun _ => ?_
  unfold sameKidsShape
  by_cases e1 : tt = bObject
  · subst e1
    have : bObject ≠ bArray := by decide
    simp [samePropsShape_iff, this]
  · by_cases e2 : tt = bArray
    · subst e2
      simp [sameItemsShape_iff, e1]
    · simp [e1, e2]

/-- one rule cannot fault -/
def RuleWF (st : Bytes) (kv : Bytes × RuleAst) : Prop :=
  (kv.1 = bType → kv.2.value ≠ []) ∧ (kv.1 = bAdditional → kv.2.value ≠ []) ∧
  (kv.1 = bOr → ∀ i ∈ kv.2.items, orItemType st i ≠ []) ∧
  (kv.1 = bOptional → ∃ b, parseBool kv.2.value = some b)

theorem ruleWF_iff (st : Bytes) (kv : Bytes × RuleAst) : ruleWF st kv = true ↔ RuleWF st kv := by
  unfold ruleWF RuleWF
  simp only [Bool.and_eq_true, Bool.or_eq_true, Bool.not_eq_true', beq_eq_false_iff_ne, ne_eq, List.isEmpty_eq_false_iff,
    List.all_eq_true, Option.isSome_iff_exists, and_assoc]
  have imp : ∀ (x : Bytes) (B : Prop), (¬kv.1 = x ∨ B) ↔ (kv.1 = x → B) := fun x B =>
    (Decidable.imp_iff_not_or).symm
  simp only [imp]

/-- every "type" and "additionalProperties" rule has a non-empty value, every "or" item resolves to a non-empty type
name, every "optional" rule holds a boolean word — at every node the conversion visits -/
def WellFormed (a : Ast) : Prop := wellFormed a = true
instance (a : Ast) : Decidable (WellFormed a) := inferInstanceAs (Decidable (_ = true))

theorem allWF_iff (l : List Ast) : allWF l = true ↔ ∀ k ∈ l, wellFormed k = true := by
  induction l with
  | nil => simp [allWF]
  | cons a rest ih => rw [allWF]; simp [ih]

theorem WellFormed_iff (a : Ast) :
    WellFormed a ↔ (∀ kv ∈ a.rules, RuleWF a.schemaType kv) ∧
      (a.tokenType = bObject ∨ a.tokenType = bArray → ∀ k ∈ a.children, WellFormed k) := by
  obtain ⟨tt, st, k, v, cm, rules, children, kr⟩ := a
  unfold WellFormed
  rw [wellFormed_node]
  simp only [Bool.and_eq_true, List.all_eq_true, ruleWF_iff, Ast.rules, Ast.schemaType, Ast.tokenType, Ast.children]
  refine and_congr_right fun _ => ?_
  by_cases e : tt = bObject ∨ tt = bArray
  · have : (tt == bObject || tt == bArray) = true := by simpa using e
    simp [this, e, allWF_iff]
  · have : (tt == bObject || tt == bArray) = false := by
      simpa [Bool.or_eq_false_iff, not_or] using e
    simp [this, e]

end JSight.SC
