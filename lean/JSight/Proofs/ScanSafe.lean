import JSight.Model.Scanner
/-!
C01 (scanner part) — definitions: abstract execution of a leaf of the scanner table, the certificate
(`Cert`), the Bool checks of one leaf against a certificate, and the COMPUTATION of the certificate from
the generated table (`Gen.code`) by ordinary fixpoint / closure functions.

Nothing here is specific to the current table: no state is named except the three the interpreter itself
names (`stateRoot`, `stateSchemaClosed`, `stateEnumBodyClose`).

Certificate, per state `s` of the table:
* `nt s`   (NeedTop)  — the code of `s` may pop the step stack before pushing: the stack must be `t :: rest`
                        with the same requirement met by `t` over `rest`;
* `oe s`   (openEv)   — the Begin event that is outstanding while the scanner is in `s`;
* `rq s`   (required) — a lower bound on `curIndex` that the code of `s` relies on (`found(curIndex - back)`);
* `srq`                — a bound that every state on the step stack requires at most, and every pop provides;
* `regs s`            — the values the step register can have while the code of `s` runs (`s` itself, or
                        the caller's state when `s` is entered by `return stateX(s, c)`).

`nt`, `rq`/`srq` are least solutions of requirement ("backward") constraints: a state whose check fails is
added / raised and the round is repeated until nothing changes.  `oe` is a forward pass from `stateRoot`.
`regs` is a forward closure.  None of these computations is trusted: `checkCode` is evaluated on the result,
and `Proofs/ScanSafeRun.lean` proves the run-level theorems from `checkCode` for an ARBITRARY certificate.

The end-of-file byte (0) is only ever seen at `curIndex = len(data)` (`byteStep` refuses a real NUL), so a
leaf that it selects and that consumes it without a rewind ends the scan: such a leaf need not lead to a
state whose `oe` agrees (`stateDescriptionText` stays where it is after `found(TextEnd)` at the end of the
file).  Hence the leaves are checked per byte class (`leavesEof` / `leavesNZ`).
-/
namespace JSight.ScanSafe
open JSight JSight.Gen

/-! ### the leaves of a decision tree that the end-of-file byte (0) / any other byte can select -/

def leavesEof {S : Type} : Code S → List (List (Op S) × Cont S)
  | .leaf ops k => [(ops, k)]
  | .ifB bs t e => if bs.contains 0 then leavesEof t else leavesEof e
  | .ifC _ t e => leavesEof t ++ leavesEof e

def leavesNZ {S : Type} : Code S → List (List (Op S) × Cont S)
  | .leaf ops k => [(ops, k)]
  | .ifB bs t e => (if bs.all (· == 0) then [] else leavesNZ t) ++ leavesNZ e
  | .ifC _ t e => leavesNZ t ++ leavesNZ e

/-- the leaves for one byte class, each with the class -/
def leavesBy {S : Type} (c : Code S) : List (Bool × List (Op S) × Cont S) :=
  (leavesEof c).map (fun l => (true, l)) ++ (leavesNZ c).map (fun l => (false, l))

/-! ### abstract execution of the effects of a leaf -/

/-- abstract value of the step register: a known state, or the unknown state popped from the stack the
leaf started with -/
inductive Val where
  | known (s : St)
  | top0
  deriving DecidableEq, Repr

/-- abstract configuration while a leaf is executed on `sc0`: the stack is `pre ++ sc0.stack` or, after the one
permitted pop of an original element, `pre ++ sc0.stack.tail` -/
structure Abs where
  reg : Val
  pre : List St
  popped : Bool
  evs : List (Ev × Nat)      -- the `found e back` so far, in order
  rew : Nat
  deriving Repr

def a0 (r : St) : Abs := { reg := .known r, pre := [], popped := false, evs := [], rew := 0 }

/-- `canPop`: the certificate guarantees that the original stack is not empty -/
def absOp (canPop : Bool) (a : Abs) : Op St → Option Abs
  | .setStep s => some { a with reg := .known s }
  | .push s => some { a with pre := s :: a.pre }
  | .pushCur =>
    match a.reg with
    | .known s => some { a with pre := s :: a.pre }
    | .top0 => none
  | .popToStep =>
    match a.pre with
    | p :: pre' => some { a with reg := .known p, pre := pre' }
    | [] => if canPop && !a.popped then some { a with reg := .top0, popped := true } else none
  | .found e back => some { a with evs := a.evs ++ [(e, back)] }
  | .rewind n => some { a with rew := a.rew + n }

def absOps (canPop : Bool) (a : Abs) : List (Op St) → Option Abs
  | [] => some a
  | op :: r => match absOp canPop a op with
    | some a' => absOps canPop a' r
    | none => none

/-- every `found e back` of the leaf has `back ≤ bound` -/
def backsOK (bound : Nat) : List (Op St) → Bool
  | [] => true
  | .found _ b :: r => decide (b ≤ bound) && backsOK bound r
  | _ :: r => backsOK bound r

/-! ### the certificate and the check of one leaf -/

structure Cert where
  nt : St → Bool
  oe : St → Option Ev
  rq : St → Nat
  srq : Nat
  regs : St → List St

/-- abstract version of `Good s (pre ++ base)` for a known `s` -/
def goodK (nt : St → Bool) (canPop popped : Bool) : St → List St → Bool
  | s, [] => !nt s || (!popped && canPop)
  | s, p :: pre => !nt s || goodK nt canPop popped p pre

def goodAbs (nt : St → Bool) (canPop popped : Bool) : Val → List St → Bool
  | .known s, pre => goodK nt canPop popped s pre
  | .top0, [] => popped && canPop
  | .top0, p :: pre => goodK nt canPop popped p pre

/-- A (step stack): the resulting register (and call target) meets its stack requirement -/
def finA (nt : St → Bool) (canPop : Bool) (a : Abs) : Cont St → Bool
  | .done | .redispatch => goodAbs nt canPop a.popped a.reg a.pre
  | .err => true
  | .call s' => goodAbs nt canPop a.popped a.reg a.pre && goodK nt canPop a.popped s' a.pre
  | .jschema => goodK nt canPop a.popped .stateSchemaClosed a.pre
  | .enumBody => goodK nt canPop a.popped .stateEnumBodyClose a.pre

/-- abstract `processEvent` over the event types: at most one Begin is outstanding, an End must match it -/
def absEv : Option Ev → List Ev → Option (Option Ev)
  | o, [] => some o
  | o, e :: es =>
    if e.isBeginning then
      match o with
      | none => absEv (some e) es
      | some _ => none
    else if e.isEnding then
      match o with
      | some b => if b.matches e then absEv none es else none
      | none => none
    else absEv o es

def oeVal (oe : St → Option Ev) : Val → Option Ev
  | .known s => oe s
  | .top0 => none

/-- B (events): the events of the leaf are consistent with `oe st`, and lead to the `oe` of the target(s);
everything pushed has no outstanding event.  `eof`: the leaf is selected by the end-of-file byte. -/
def finB (oe : St → Option Ev) (eof : Bool) (st : St) (a : Abs) (k : Cont St) : Bool :=
  match absEv (oe st) (a.evs.map (·.1)) with
  | none => false
  | some o' =>
    a.pre.all (fun s => oe s == none) &&
    match k with
    | .done => (eof && a.rew == 0) || oeVal oe a.reg == o'   -- end of file consumed: the scanner is finished
    | .redispatch => oeVal oe a.reg == o'
    | .err => true
    | .call s' => oe s' == o' && oeVal oe a.reg == o'
    | .jschema => o' == none && oe .stateSchemaClosed == some .schemaBegin
    | .enumBody => o' == none && oe .stateEnumBodyClose == some .enumBegin

def rqVal (rq : St → Nat) (srq : Nat) : Val → Nat
  | .known s => rq s
  | .top0 => srq

/-- C, lower bounds on `rq st`: `back ≤ rq st` for every `found`, and the requirement of the target(s) is met
(after the pending rewinds and the `curIndex++`, when the byte is consumed; a leaf that continues on the
same byte must not rewind); a popped state requires at most `srq` -/
def lowC (rq : St → Nat) (srq : Nat) (st : St) (ops : List (Op St)) (a : Abs) (k : Cont St) : Bool :=
  backsOK (rq st) ops &&
  match k with
  | .done => decide (rqVal rq srq a.reg + a.rew ≤ rq st + 1)
  | .redispatch => a.rew == 0 && decide (rqVal rq srq a.reg ≤ rq st)
  | .err => true
  | .call s' => a.rew == 0 && decide (rq s' ≤ rq st) && decide (rqVal rq srq a.reg ≤ rq st)
  | .jschema => decide (rq .stateSchemaClosed + a.rew ≤ rq st + 1)
  | .enumBody => decide (rq .stateEnumBodyClose + a.rew ≤ rq st + 1)

/-- C, pushes: everything pushed requires at most `srq` -/
def pushC (rq : St → Nat) (srq : Nat) (a : Abs) : Bool := a.pre.all (fun s => decide (rq s ≤ srq))

def finC (rq : St → Nat) (srq : Nat) (st : St) (ops : List (Op St)) (a : Abs) (k : Cont St) : Bool :=
  lowC rq srq st ops a k && pushC rq srq a

/-- R (register): `return stateX(s, c)` runs the code of `stateX` with a register value listed for it -/
def finR (regs : St → List St) (a : Abs) : Cont St → Bool
  | .call s' => match a.reg with
    | .known x => (regs s').contains x
    | .top0 => false
  | _ => true

def checkLeaf (C : Cert) (st r : St) (eof : Bool) (leaf : List (Op St) × Cont St) : Bool :=
  let cp := C.nt st || C.nt r
  match absOps cp (a0 r) leaf.1 with
  | none => false
  | some a =>
    finA C.nt cp a leaf.2 && finB C.oe eof st a leaf.2 && finC C.rq C.srq st leaf.1 a leaf.2 && finR C.regs a leaf.2

/-- the table fact: every leaf of the code of `st`, for every register value listed for `st` -/
def checkCode (C : Cert) (st : St) (code : Code St) : Bool :=
  (C.regs st).contains st &&
  (C.regs st).all fun r => (leavesBy code).all fun l => checkLeaf C st r l.1 l.2

def checkInit (C : Cert) : Bool :=
  !C.nt .stateRoot && C.oe .stateRoot == none && C.rq .stateRoot == 0

/-! ### computing the certificate from the table -/

/-- iterate `f` until nothing changes (as seen by `same`), at most `fuel` times -/
def iter {α : Type} (same : α → α → Bool) (f : α → α) : Nat → α → α
  | 0, x => x
  | n + 1, x => let y := f x; if same x y then x else iter same f n y

def stEq (a b : St) : Bool := a.ctorIdx == b.ctorIdx

def regsOfL (P : List (St × St)) (st : St) : List St := (P.filter (fun p => stEq p.1 st)).map (·.2)

/-- one round of the closure of the (code state, register) pairs under `return stateX(s, c)`; only the pairs
with a register other than the code state itself are listed -/
def pairsStep (E : List (St × St)) : List (St × St) :=
  (St.all.map (fun s => (s, s)) ++ E).foldl (fun acc p =>
    (code p.1).leaves.foldl (fun acc leaf =>
      match leaf.2 with
      | .call s' =>
        match absOps true (a0 p.2) leaf.1 with
        | some a =>
          match a.reg with
          | .known x =>
            if stEq x s' || acc.any (fun q => stEq q.1 s' && stEq q.2 x) then acc else acc ++ [(s', x)]
          | .top0 => acc
        | none => acc
      | _ => acc) acc) E

def pairsL : List (St × St) :=
  iter (fun x y => x.length == y.length) pairsStep St.all.length []

/-- the register while the code of `st` runs: `st` itself, or a caller's state -/
def regsL (st : St) : List St := st :: regsOfL pairsL st

/-! The sets / maps that are iterated are encoded in one `Nat` each (a bit, a nibble, resp. a byte per
constructor index), so that the kernel computes every round to a literal (GMP arithmetic) instead of a lazy
list.  (A requirement above 255 would spill into the next byte; the check would then fail, not be unsound.) -/

def bitOf (m : Nat) (s : St) : Bool := Nat.testBit m s.ctorIdx
def byteOf (m : Nat) (s : St) : Nat := (m >>> (8 * s.ctorIdx)) % 256

/-- A alone, for the NeedTop closure -/
def checkA (nt : St → Bool) (st r : St) (leaf : List (Op St) × Cont St) : Bool :=
  let cp := nt st || nt r
  match absOps cp (a0 r) leaf.1 with
  | none => false
  | some a => finA nt cp a leaf.2

/-- NeedTop: the least set such that A holds — a state whose A-check fails is added -/
def ntStep (N : Nat) : Nat :=
  St.all.foldl (fun m st =>
    if !bitOf N st && !((regsL st).all fun r => (code st).leaves.all (checkA (bitOf N) st r))
    then m ||| (1 <<< st.ctorIdx) else m) N

def ntM : Nat := iter (fun x y => x == y) ntStep St.all.length 0

/-- every abstractly executable leaf of a state satisfies `p` -/
def allLeaves (p : St → List (Op St) → Abs → Cont St → Bool) (st : St) : Bool :=
  (regsL st).all fun r => (code st).leaves.all fun leaf =>
    match absOps true (a0 r) leaf.1 with
    | none => true
    | some a => p st leaf.1 a leaf.2

/-- C: the requirement of a state whose lower-bound check fails is raised by one; the common bound of the
stack elements is raised by one when something pushed requires more -/
def rqStep (X : Nat × Nat) : Nat × Nat :=
  (St.all.foldl (fun m st =>
      if allLeaves (lowC (byteOf X.1) X.2) st then m else m + (1 <<< (8 * st.ctorIdx))) X.1,
   if St.all.all (allLeaves fun _ _ a _ => pushC (byteOf X.1) X.2 a) then X.2 else X.2 + 1)

def rqX : Nat × Nat :=
  iter (fun x y => x.1 == y.1 && x.2 == y.2) rqStep 16 (0, 0)

def nibOf (m : Nat) (s : St) : Nat := (m >>> (4 * s.ctorIdx)) % 16
def evCode : Option Ev → Nat
  | none => 0
  | some e => e.ctorIdx + 1
def evOfCode (n : Nat) : Option Ev := if n == 0 then none else some (Ev.ofNat (n - 1))
def oeOfM (m : Nat) (s : St) : Option Ev := evOfCode (nibOf m s)

/-- the (state, outstanding event) facts that one state with its outstanding event implies -/
def oeSuccs (st : St) (o : Option Ev) : List (St × Option Ev) :=
  (regsL st).flatMap fun r =>
    (leavesBy (code st)).flatMap fun (eof, leaf) =>
      match absOps true (a0 r) leaf.1 with
      | none => []
      | some a =>
        match absEv o (a.evs.map (·.1)) with
        | none => []
        | some o' =>
          let viaReg : List (St × Option Ev) := match a.reg with
            | .known x => [(x, o')]
            | .top0 => []
          a.pre.map (fun s => (s, none)) ++
          match leaf.2 with
          | .done => if eof && a.rew == 0 then [] else viaReg
          | .redispatch => viaReg
          | .err => []
          | .call s' => (s', o') :: viaReg
          | .jschema => [(.stateSchemaClosed, some .schemaBegin)]
          | .enumBody => [(.stateEnumBodyClose, some .enumBegin)]

/-- forward pass from `stateRoot` (depth first; the first fact found for a state is kept, `checkCode`
then verifies that it is consistent with every other way of reaching the state).  The accumulator is the
set of visited states and the map found so far (a nibble per state). -/
def oeDfs : Nat → List (St × Option Ev) → Nat × Nat → Nat × Nat
  | 0, _, acc => acc
  | _, [], acc => acc
  | n + 1, p :: w, (vis, m) =>
    if bitOf vis p.1 then oeDfs n w (vis, m)
    else oeDfs n (oeSuccs p.1 p.2 ++ w) (vis ||| (1 <<< p.1.ctorIdx), m + (evCode p.2 <<< (4 * p.1.ctorIdx)))

def oeM : Nat := (oeDfs (64 * St.all.length) [(.stateRoot, none)] (0, 0)).2

/-- the certificate of the current table -/
def cert : Cert := { nt := bitOf ntM, oe := oeOfM oeM, rq := byteOf rqX.1, srq := rqX.2, regs := regsL }

def checkAll : Bool := checkInit cert && St.all.all fun st => checkCode cert st (code st)

end JSight.ScanSafe
