import JSight.Proofs.ScanLex
import JSight.Proofs.ScanSafeRun
/-!
C14, last clause ("every byte that belongs to no lexeme is whitespace, a line end, comment text or an
annotation delimiter"): definitions and the Bool checks over the generated scanner table.

`tRun` is a second abstract interpreter of the table (next to `ScanLex.aRun`).  For one byte step that
starts in state `st0` at byte index `cur` it tracks

* `opn`   – the type of the open `…Begin` event (as `ScanLex`), `fresh`: it was found in this very step;
* `cov`   – the byte `cur` lies in a lexeme that was completed in this step;
* `star`  – an `AnnotationEnd` two bytes back was found: the bytes `cur-1`, `cur` are the closing `*/`;
* `pstar` – the condition `prevIsStar` holds on this path;
* `sld`  – an End / context event was found already in this step (used for the shape of the event queue);
* `rew`   – the pending rewind; `reg` – the step register; `P` – the path condition on the byte.

When the step ends (`return nil`) without a rewind, the byte `cur` has to be accounted for: it lies in a
lexeme (`cov` / an open lexeme), or it is trivia — see `doneOK`.
-/
namespace JSight.ScanTrivia
open JSight Gen ScanLex

/-! ### sets of states as bit masks -/

def bitOf (m : Nat) (s : St) : Bool := Nat.testBit m s.ctorIdx
def maskOf (l : List St) : Nat := l.foldl (fun m s => m ||| (1 <<< s.ctorIdx)) 0
def stEq (a b : St) : Bool := a.ctorIdx == b.ctorIdx

/-- states a state function can move to on the same or the next byte without popping the step stack -/
def succStates (st : St) : List St :=
  (code st).leaves.flatMap fun l =>
    (l.1.filterMap fun
      | .setStep s => some s
      | _ => none) ++
    (match l.2 with
     | .call s => [s]
     | _ => [])

/-- the states entered by the leaves that save the current state (`stepStack.Push(s.step)`): in the current
table these are exactly the `'#'` leaves, all moving to `stateCommentStarted` -/
def commentSeeds : List St :=
  St.all.flatMap fun st => (code st).leaves.flatMap fun l =>
    if l.1.contains .pushCur then l.1.filterMap fun
      | .setStep s => some s
      | _ => none
    else []

def closeStep (m : Nat) : Nat :=
  St.all.foldl (fun acc st =>
    if bitOf m st then (succStates st).foldl (fun a s => a ||| (1 <<< s.ctorIdx)) acc else acc) m

/-- the comment sub-machine, COMPUTED: closure of `commentSeeds` under `succStates` (current table:
`stateCommentStarted`, `stateCommentDouble`, `stateSingleComment`, `stateCommentBlock`,
`stateCommentOnceClosed`, `stateCommentTwiceClosed`).  The table check (`doneOK`) verifies that the
sub-machine is entered from outside only on the byte `'#'`. -/
def commentM : Nat := ScanSafe.iter (fun x y => x == y) closeStep 16 (maskOf commentSeeds)

def inComment (st : St) : Bool := bitOf commentM st

def commentStates : List St := St.all.filter inComment

/-- the annotation-sign state: a `'/'` has been read, `'/'` or `'*'` makes it an annotation opener -/
def isSign (st : St) : Bool := stEq st .stateAnnotationSign2

/-- states in which the end of input may be swallowed while a lexeme is open, without a diagnostic: NONE.
(The list exists so that a known defect can be carried explicitly through all statements as the disjunct
`EofInException`.  It held `stateRegexBodyAfterSlash` while the Go scanner had the defect
"`TYPE @a regex⏎/ab\` ends cleanly, the regular expression is dropped" — fixed in /repo by
"report the end of input after a backslash inside a regex body"; with the unfixed table
`silent_steps_are_trivia` and `eof_closes_or_rejects` fail for exactly that state.) -/
def eofExceptions : List St := []

def eofExc (st : St) : Bool := eofExceptions.any (stEq st)

def stackM : Nat := maskOf stackableC
def isStackable (s : St) : Bool := bitOf stackM s

/-! ### the abstract value -/

structure TV where
  opn : Option Ev
  fresh : Bool
  cov : Bool
  star : Bool
  pstar : Bool
  sld : Bool
  rew : Nat
  reg : Option St
  P : PathCond

/-- the byte is certainly one of `bs` -/
def within (P : PathCond) (bs : List UInt8) : Bool :=
  match P.pos with
  | some p => p.all fun x => bs.contains x
  | none => false

def blanks : List UInt8 := [32, 9, 10, 13]

/-- what is fixed during one byte step: facts about the state `st0` it starts in -/
structure Ctx where
  com0 : Bool    -- `st0` is a comment state
  sign0 : Bool   -- `st0` is the annotation-sign state
  exc0 : Bool    -- `st0` is a listed end-of-input exception

def ctxOf (st0 : St) : Ctx := { com0 := inComment st0, sign0 := isSign st0, exc0 := eofExc st0 }

def tOp (K : Ctx) (a : TV) : Op St → Option TV
  | .setStep s => some { a with reg := some s }
  | .push s => if isStackable s then some a else none
  | .pushCur =>
    match a.reg with
    | some r => if isStackable r then some a else none
    | none => some a
  | .popToStep => some { a with reg := none }
  | .rewind n => some { a with rew := a.rew + n }
  | .found e back =>
    if e.isBeginning then
      if a.opn.isNone && back == 0 then some { a with opn := some e, fresh := true } else none
    else if e.isEnding then
      if a.opn.isNone || (a.sld && !a.P.eofOnly) then none
      else if back == 0 then some { a with opn := none, fresh := false, cov := true, sld := true }
      else if back == 1 then some { a with opn := none, fresh := false, sld := true }
      else if back == 2 && a.pstar && within a.P [47] && e == .annotationEnd && !K.sign0 then
        some { a with opn := none, fresh := false, star := true, sld := true }
      else none
    else
      if a.opn.isNone && back == 0 && a.P.nonzero then some { a with cov := true, sld := true } else none

def tOps (K : Ctx) (a : TV) : List (Op St) → Option TV
  | [] => some a
  | op :: r => match tOp K a op with
    | some a' => tOps K a' r
    | none => none

/-- the step ends with `return nil` -/
def doneOK (K : Ctx) (a : TV) : Bool :=
  -- the next state: the comment machine is entered only on '#', the sign state only on '/'
  (match a.reg with
   | some r => (!inComment r || K.com0 || within a.P [35]) && (!isSign r || (within a.P [47] && a.rew == 0))
   | none => true) &&
  -- end of input: no lexeme that was open before this step stays open
  (a.P.nonzero || a.opn.isNone || a.fresh || K.exc0) &&
  -- a step that reads the end of input and rewinds has found no event
  (a.rew == 0 || a.P.nonzero || (!a.sld && a.opn.isNone)) &&
  -- the byte before, when the step started in the sign state: it is '/', and now followed by '/' or '*'
  (!K.sign0 || decide (2 ≤ a.rew) || within a.P [47, 42]) &&
  -- the byte of this step
  (a.rew != 0 || a.P.eofOnly || a.cov || a.opn.isSome || a.star
    || within a.P (0 :: blanks)                                     -- blank, line end (0: end of input)
    || K.com0                                                       -- comment text
    || (match a.reg with
        | some r => (within a.P [35] && inComment r)                -- '#': comment start
                    || (within a.P [47] && isSign r)                -- '/': candidate annotation opener
        | none => false)
    || (K.sign0 && within a.P [47, 42]))                            -- second byte of "//", "/*"

def libOK (K : Ctx) (a : TV) (closing : St) : Bool :=
  a.opn.isNone && a.rew == 0 && !K.sign0 && !inComment closing && !isSign closing

/-- a state popped from the step stack is continued in after an End / context event only on these bytes
(line end, end of input) -/
def sealBytes : List UInt8 := [10, 13, 0]

def tCont (K : Ctx) (run : St → TV → Bool) (a : TV) : Cont St → Bool
  | .done => doneOK K a
  | .err => true
  | .call s => run s a
  | .redispatch =>
    (match a.reg with
     | some r => run r a
     | none => a.rew == 0 && !a.star && !K.sign0 && a.opn.isNone && (!a.sld || within a.P sealBytes))
  | .jschema => libOK K a .stateSchemaClosed
  | .enumBody => libOK K a .stateEnumBodyClose

def tCode (K : Ctx) (run : St → TV → Bool) (a : TV) : Code St → Bool
  | .leaf ops k =>
    (match tOps K a ops with
     | some a' => tCont K run a' k
     | none => false)
  | .ifB bs t e =>
    ((a.P.thenP bs).isEmpty || tCode K run { a with P := a.P.thenP bs } t) &&
    ((a.P.elseP bs).isEmpty || tCode K run { a with P := a.P.elseP bs } e)
  | .ifC cd t e =>
    tCode K run (if cd == .prevIsStar then { a with pstar := true } else a) t && tCode K run a e

def tRun (K : Ctx) : Nat → St → TV → Bool
  | 0, _, _ => false
  | f + 1, st, a => tCode K (tRun K f) a (code st)

def entryTV (opn : Option Ev) (st : St) (sld : Bool) : TV :=
  { opn := opn, fresh := false, cov := false, star := false, pstar := false, sld := sld, rew := 0,
    reg := some st, P := if sld then ⟨some sealBytes, []⟩ else .top }

/-- **the table check of one state function** (`c` is its decision tree): with the certificate of
`ScanLex` ("which Begin event is open in this state"), every path through the tree — and through the
state functions it continues in on the same byte — either ends in a diagnostic, or accounts for the byte:
it is part of a lexeme, or trivia (`doneOK`).  A state that can be on the step stack is checked a second
time for being continued in after an End / context event of the same step (`sld`). -/
def silentOK (c : Code St) (st : St) : Bool :=
  match certs.cert st with
  | none => true
  | some ce =>
    tCode (ctxOf st) (tRun (ctxOf st) absFuel) (entryTV ce.opn st false) c &&
    (!isStackable st || tCode (ctxOf st) (tRun (ctxOf st) absFuel) (entryTV ce.opn st true) c)

/-- facts about the states that can be on the step stack / that the scanner starts in -/
def globalOK : Bool :=
  St.all.all (fun s => isStackable s == stackableC.contains s) &&
  stackableC.all (fun s => !inComment s && !isSign s && !eofExc s &&
    match certs.cert s with
    | some ce => ce.opn.isNone
    | none => false) &&
  !isSign .stateRoot && !inComment .stateRoot

/-! ### (3) end of input, as a plain table fact -/

/-- the first event found by the ops of a leaf -/
def firstFound : List (Op St) → Option Ev
  | [] => none
  | .found e _ :: _ => some e
  | _ :: r => firstFound r

def lastSetStep (cur : Option St) : List (Op St) → Option St
  | [] => cur
  | .setStep s :: r => lastSetStep (some s) r
  | .popToStep :: r => lastSetStep none r
  | _ :: r => lastSetStep cur r

/-- the leaves the end-of-input byte selects in the tree `c` (for every valuation of the conditions), run
with step register `reg`: the first thing such a leaf does about events is finding the End that matches the
open Begin `b`, or it is a diagnostic; a leaf that finds nothing may continue in another state function on
the same byte (`run`) -/
def eofCodeOK (b : Ev) (run : St → Option St → Bool) (reg : Option St) (c : Code St) : Bool :=
  (ScanSafe.leavesEof c).all fun l =>
    match firstFound l.1 with
    | some e => b.matches e
    | none =>
      match l.2 with
      | .err => true
      | .call s => run s (lastSetStep reg l.1)
      | .redispatch =>
        (match lastSetStep reg l.1 with
         | some r => run r (some r)
         | none => false)
      | _ => false

def eofRun (b : Ev) : Nat → St → Option St → Bool
  | 0, _, _ => false
  | f + 1, st, reg => eofCodeOK b (eofRun b f) reg (code st)

/-- **(3)** for a state in which a lexeme is open (certificate `ScanSafe.cert.oe` of C01; `c` is the
decision tree of the state): at the end of input the lexeme is closed or the scan is rejected — unless the
state is a listed exception -/
def eofOK (c : Code St) (st : St) : Bool :=
  match ScanSafe.cert.oe st with
  | none => true
  | some b => eofExc st || eofCodeOK b (eofRun b absFuel) (some st) c

end JSight.ScanTrivia
