import JSight.Props.C10_Inters
import JSight.Props.C01_Project
/-!
C10 (catalog construction), third part — the hypothesis `hpaths` of `Props/C10_Inters.lean` (the Path stage gives the
same verdict in both orders) holds for every forest whose directives have pairwise distinct identities (`BDir.id`),
and the forests of the composed model are such forests.

* `paths_swap_distinct`: under `(idsF (pre ++ a :: b :: post)).Nodup` the Path stage (`pathsForest [] · none`)
  accepts `pre ++ a :: b :: post` iff it accepts `pre ++ b :: a :: post` — for ARBITRARY trees `a`, `b`.
  Why: the only failure that depends on the state `last` is `.notUnique`, raised when `last` is the identity of the
  parent of a Path directive.  A Path directive of the top level fails with `.parentNotFound` whatever the state; the
  parent of any other Path directive is a node of the same top-level block.  So a block walked from two states
  neither of which is an identity of the block behaves alike (`pathsTree_agree`: both runs fail, or both succeed —
  with the states unchanged, or with one and the same new state), and the state a block leaves is the one it got or
  an identity of the block (`pathsTree_from`).  With disjoint identities two neighbouring blocks therefore commute
  as far as the verdict goes (`two_blocks`; the STATES left may differ — the last block with a Path directive wins —
  but both are fresh for what follows).
* `swap_inter_verdict_distinct`, `swap_inter_distinct`: `C10I.swap_inter_verdict_partial'` / `swap_inter_partial'`
  with `Nodup` in place of `hpaths`.
* `decoForest_ids` (`decoForestF_ids`): the decoration of the composed model numbers the directives in pre-order,
  `idsF (decoForest d done f n).1 = List.range' n (sizeF f)`; hence `decoForest_nodup`, and
  `swap_inter_verdict_deco` / `swap_inter_deco` (`…decoF`): for the forests `Project.process` / `processFS` hand to
  `compile` the exchange of two interaction blocks needs no hypothesis on the Path stage.
* examples: a forest with distinct identities and a Path directive in each exchanged block; the counterexample
  `C10I.path_stage_order_matters` has two directives of one identity, `Nodup` fails there.
-/
namespace JSight.C10P
open JSight JSight.Build JSight.Gen JSight.BuildPerm

mutual
  /-- the identities of the directives of a tree, in pre-order -/
  def idsT : BTree → List Nat
    | .node d kids => d.id :: idsF kids
  def idsF : List BTree → List Nat
    | [] => []
    | t :: r => idsT t ++ idsF r
end

theorem idsF_append (l r : List BTree) : idsF (l ++ r) = idsF l ++ idsF r := by
  induction l with
  | nil => simp [idsF]
  | cons t l ih => simp only [List.cons_append, idsF, ih, List.append_assoc]

/-- the identity of the nearest ancestor -/
def hid : List BDir → List Nat
  | [] => []
  | p :: _ => [p.id]

/-- the state `l` of the Path stage is not an identity of `S` -/
def Fresh (S : List Nat) (l : Option Nat) : Prop := ∀ j, l = some j → j ∉ S

/-- the state `r` is `l` or an identity of `S` -/
def From (S : List Nat) (l r : Option Nat) : Prop := r = l ∨ ∃ j, r = some j ∧ j ∈ S

/-- two runs from the states `l`, `l'`: both fail, or both succeed — with the states unchanged or with the same state -/
def Agree (l l' : Option Nat) (x y : R (Option Nat)) : Prop :=
  (∃ e e', x = .error e ∧ y = .error e') ∨
  (∃ r r', x = .ok r ∧ y = .ok r' ∧ ((r = l ∧ r' = l') ∨ r = r'))

theorem pathsTree_macro (anc : List BDir) (d : BDir) (kids : List BTree) (l : Option Nat) (hk : d.kind = .Macro) :
    pathsTree anc (.node d kids) l = .ok l := by
  unfold pathsTree
  simp [hk]

theorem pathsTree_other (anc : List BDir) (d : BDir) (kids : List BTree) (l : Option Nat)
    (hm : d.kind ≠ .Macro) (hp : d.kind ≠ .Path) :
    pathsTree anc (.node d kids) l = pathsForest (d :: anc) kids l := by
  unfold pathsTree
  simp [hm, hp]

/-- a Path directive: a failure that does not depend on the state, or the comparison with the parent's identity -/
theorem pathsTree_path (anc : List BDir) (d : BDir) (kids : List BTree) (hk : d.kind = .Path) :
    (∃ e, ∀ l, pathsTree anc (.node d kids) l = .error e) ∨
    (∃ p rest, anc = p :: rest ∧ ∀ l, pathsTree anc (.node d kids) l =
      if l = some p.id then fail d .notUnique else pathsForest (d :: anc) kids (some p.id)) := by
  have hm : (d.kind == Kind.Macro) = false := by rw [hk]; rfl
  have hp : (d.kind == Kind.Path) = true := by rw [hk]; rfl
  unfold pathsTree
  simp only [hm, hp, Bool.false_eq_true, if_false, if_true]
  by_cases h1 : (!d.annot.isEmpty) = true
  · exact Or.inl ⟨_, fun l => by simp only [h1, if_true]; rfl⟩
  by_cases h2 : d.body.isNone = true
  · exact Or.inl ⟨_, fun l => by simp only [h1, h2, if_true]; rfl⟩
  simp only [h1, h2]
  cases h3 : pathChain (d :: anc) with
  | error m => exact Or.inl ⟨_, fun l => rfl⟩
  | ok path =>
    simp only []
    cases h4 : checkedParams d path with
    | error e => exact Or.inl ⟨_, fun l => rfl⟩
    | ok v =>
      simp only []
      cases anc with
      | nil => exact Or.inl ⟨_, fun l => rfl⟩
      | cons p rest =>
        refine Or.inr ⟨p, rest, rfl, fun l => ?_⟩
        simp only [beq_iff_eq, Bool.false_eq_true, if_false]

/-! ### one run: where the state can come from -/

theorem From.refl (S : List Nat) (l : Option Nat) : From S l l := Or.inl rfl

theorem From.mono {S S' : List Nat} {l r : Option Nat} (h : From S l r) (hs : ∀ j ∈ S, j ∈ S') : From S' l r := by
  rcases h with h | ⟨j, h, hj⟩
  · exact Or.inl h
  · exact Or.inr ⟨j, h, hs j hj⟩

theorem From.trans {S : List Nat} {l m r : Option Nat} (h1 : From S l m) (h2 : From S m r) : From S l r := by
  rcases h2 with h2 | h2
  · rw [h2]; exact h1
  · exact Or.inr h2

theorem Fresh.mono {S S' : List Nat} {l : Option Nat} (h : Fresh S' l) (hs : ∀ j ∈ S, j ∈ S') : Fresh S l :=
  fun j hj hm => h j hj (hs j hm)

theorem Fresh.none (S : List Nat) : Fresh S none := fun _ h => by cases h

/-- a state that comes from `S` or is fresh for `T`, with `S`, `T` disjoint, is fresh for `T` -/
theorem Fresh.of_from {S T : List Nat} {l r : Option Nat} (h : From S l r) (hl : Fresh T l)
    (hd : ∀ j ∈ S, j ∉ T) : Fresh T r := by
  rcases h with h | ⟨j, h, hj⟩
  · rw [h]; exact hl
  · intro i hi
    rw [h] at hi
    cases hi
    exact hd j hj

mutual
  theorem pathsTree_from : ∀ (t : BTree) (anc : List BDir) (l r : Option Nat),
      pathsTree anc t l = .ok r → From (hid anc ++ idsT t) l r
    | .node d kids, anc, l, r, h => by
      by_cases hm : d.kind = .Macro
      · rw [pathsTree_macro anc d kids l hm] at h
        cases h; exact From.refl _ _
      by_cases hp : d.kind = .Path
      · rcases pathsTree_path anc d kids hp with ⟨e, he⟩ | ⟨p, rest, rfl, hq⟩
        · rw [he] at h; cases h
        · rw [hq] at h
          split at h
          · cases h
          · have := pathsForest_from kids (d :: p :: rest) (some p.id) r h
            refine Or.inr ?_
            rcases this with h' | ⟨j, h', hj⟩
            · exact ⟨p.id, h', by simp [hid]⟩
            · refine ⟨j, h', ?_⟩
              simp only [hid, idsT, List.mem_append, List.mem_cons] at hj ⊢
              rcases hj with hj | hj
              · exact Or.inr (Or.inl (by simpa using hj))
              · exact Or.inr (Or.inr hj)
      · rw [pathsTree_other anc d kids l hm hp] at h
        refine (pathsForest_from kids (d :: anc) l r h).mono ?_
        intro j hj
        simp only [hid, idsT, List.mem_append, List.mem_cons] at hj ⊢
        exact Or.inr (by simpa using hj)
  theorem pathsForest_from : ∀ (f : List BTree) (anc : List BDir) (l r : Option Nat),
      pathsForest anc f l = .ok r → From (hid anc ++ idsF f) l r
    | [], anc, l, r, h => by
      rw [pathsForest_nil] at h
      cases h; exact From.refl _ _
    | t :: f, anc, l, r, h => by
      rw [pathsForest_cons] at h
      cases ht : pathsTree anc t l with
      | error e => rw [ht] at h; cases h
      | ok m =>
        rw [ht, ok_bind] at h
        have h1 := pathsTree_from t anc l m ht
        have h2 := pathsForest_from f anc m r h
        refine From.trans (h1.mono ?_) (h2.mono ?_) <;>
        · intro j hj
          simp only [idsF, List.mem_append] at hj ⊢
          rcases hj with hj | hj
          · exact Or.inl hj
          · first | exact Or.inr (Or.inl hj) | exact Or.inr (Or.inr hj)
end

/-! ### two runs from states that are no identity of the tree -/

theorem Agree.same (l l' : Option Nat) (x : R (Option Nat)) : Agree l l' x x := by
  cases x with
  | error e => exact Or.inl ⟨e, e, rfl, rfl⟩
  | ok r => exact Or.inr ⟨r, r, rfl, rfl, Or.inr rfl⟩

theorem Agree.isOk {l l' : Option Nat} {x y : R (Option Nat)} (h : Agree l l' x y) : x.isOk = y.isOk := by
  rcases h with ⟨e, e', rfl, rfl⟩ | ⟨r, r', rfl, rfl, _⟩ <;> rfl

mutual
  theorem pathsTree_agree : ∀ (t : BTree) (anc : List BDir) (l l' : Option Nat),
      Fresh (hid anc ++ idsT t) l → Fresh (hid anc ++ idsT t) l' →
      Agree l l' (pathsTree anc t l) (pathsTree anc t l')
    | .node d kids, anc, l, l', hl, hl' => by
      by_cases hm : d.kind = .Macro
      · rw [pathsTree_macro anc d kids l hm, pathsTree_macro anc d kids l' hm]
        exact Or.inr ⟨l, l', rfl, rfl, Or.inl ⟨rfl, rfl⟩⟩
      by_cases hp : d.kind = .Path
      · rcases pathsTree_path anc d kids hp with ⟨e, he⟩ | ⟨p, rest, rfl, hq⟩
        · rw [he, he]; exact Or.inl ⟨e, e, rfl, rfl⟩
        · have n1 : l ≠ some p.id := fun h => hl p.id h (by simp [hid])
          have n2 : l' ≠ some p.id := fun h => hl' p.id h (by simp [hid])
          rw [hq, hq, if_neg n1, if_neg n2]
          exact Agree.same _ _ _
      · rw [pathsTree_other anc d kids l hm hp, pathsTree_other anc d kids l' hm hp]
        have sub : ∀ j ∈ hid (d :: anc) ++ idsF kids, j ∈ hid anc ++ idsT (.node d kids) := by
          intro j hj
          simp only [hid, idsT, List.mem_append, List.mem_cons] at hj ⊢
          exact Or.inr (by simpa using hj)
        exact pathsForest_agree kids (d :: anc) l l' (hl.mono sub) (hl'.mono sub)
  theorem pathsForest_agree : ∀ (f : List BTree) (anc : List BDir) (l l' : Option Nat),
      Fresh (hid anc ++ idsF f) l → Fresh (hid anc ++ idsF f) l' →
      Agree l l' (pathsForest anc f l) (pathsForest anc f l')
    | [], anc, l, l', _, _ => by
      rw [pathsForest_nil, pathsForest_nil]
      exact Or.inr ⟨l, l', rfl, rfl, Or.inl ⟨rfl, rfl⟩⟩
    | t :: f, anc, l, l', hl, hl' => by
      have sub1 : ∀ j ∈ hid anc ++ idsT t, j ∈ hid anc ++ idsF (t :: f) := by
        intro j hj
        simp only [idsF, List.mem_append] at hj ⊢
        rcases hj with hj | hj
        · exact Or.inl hj
        · exact Or.inr (Or.inl hj)
      have sub2 : ∀ j ∈ hid anc ++ idsF f, j ∈ hid anc ++ idsF (t :: f) := by
        intro j hj
        simp only [idsF, List.mem_append] at hj ⊢
        rcases hj with hj | hj
        · exact Or.inl hj
        · exact Or.inr (Or.inr hj)
      rw [pathsForest_cons, pathsForest_cons]
      rcases pathsTree_agree t anc l l' (hl.mono sub1) (hl'.mono sub1) with ⟨e, e', h1, h2⟩ | ⟨r, r', h1, h2, h3⟩
      · rw [h1, h2]; exact Or.inl ⟨e, e', rfl, rfl⟩
      · rw [h1, h2, ok_bind, ok_bind]
        rcases h3 with ⟨rfl, rfl⟩ | rfl
        · exact pathsForest_agree f anc r r' (hl.mono sub2) (hl'.mono sub2)
        · rcases Agree.same l l' (pathsForest anc f r) with h | ⟨q, q', h, h', _⟩
          · exact Or.inl h
          · rw [h] at h'
            cases h'
            exact Or.inr ⟨q, q, h, h, Or.inr rfl⟩
end

/-! ### the top level -/

theorem pathsTree_from0 {t : BTree} {l r : Option Nat} (h : pathsTree [] t l = .ok r) : From (idsT t) l r := by
  simpa [hid] using pathsTree_from t [] l r h

theorem pathsForest_from0 {f : List BTree} {l r : Option Nat} (h : pathsForest [] f l = .ok r) :
    From (idsF f) l r := by
  simpa [hid] using pathsForest_from f [] l r h

theorem pathsTree_agree0 (t : BTree) (l l' : Option Nat) (hl : Fresh (idsT t) l) (hl' : Fresh (idsT t) l') :
    Agree l l' (pathsTree [] t l) (pathsTree [] t l') :=
  pathsTree_agree t [] l l' (by simpa [hid] using hl) (by simpa [hid] using hl')

theorem pathsForest_agree0 (f : List BTree) (l l' : Option Nat) (hl : Fresh (idsF f) l) (hl' : Fresh (idsF f) l') :
    Agree l l' (pathsForest [] f l) (pathsForest [] f l') :=
  pathsForest_agree f [] l l' (by simpa [hid] using hl) (by simpa [hid] using hl')

/-- two neighbouring top-level blocks with disjoint identities, walked from a state that is no identity of the two
blocks nor of what follows them -/
theorem two_blocks (a b : BTree) (post : List BTree) (l : Option Nat)
    (hla : Fresh (idsT a) l) (hlb : Fresh (idsT b) l) (hlp : Fresh (idsF post) l)
    (dab : ∀ j ∈ idsT a, j ∉ idsT b) (dap : ∀ j ∈ idsT a, j ∉ idsF post) (dbp : ∀ j ∈ idsT b, j ∉ idsF post) :
    (pathsForest [] (a :: b :: post) l).isOk = (pathsForest [] (b :: a :: post) l).isOk := by
  have dba : ∀ j ∈ idsT b, j ∉ idsT a := fun j hb ha => dab j ha hb
  rw [pathsForest_cons [] a (b :: post) l, pathsForest_cons [] b (a :: post) l]
  cases ha : pathsTree [] a l with
  | error ea =>
    rw [error_bind]
    cases hb : pathsTree [] b l with
    | error eb => rfl
    | ok rb =>
      rw [ok_bind, pathsForest_cons]
      have frb : Fresh (idsT a) rb := Fresh.of_from (pathsTree_from0 hb) hla dba
      rcases pathsTree_agree0 a l rb hla frb with ⟨e, e', _, h2⟩ | ⟨r, r', h1, _⟩
      · rw [h2]; rfl
      · rw [ha] at h1; cases h1
  | ok ra =>
    have fra_b : Fresh (idsT b) ra := Fresh.of_from (pathsTree_from0 ha) hlb dab
    have fra_p : Fresh (idsF post) ra := Fresh.of_from (pathsTree_from0 ha) hlp dap
    rw [ok_bind, pathsForest_cons [] b post ra]
    rcases pathsTree_agree0 b l ra hlb fra_b with ⟨e, e', h1, h2⟩ | ⟨rb, rb', h1, h2, _⟩
    · rw [h1, h2]; rfl
    · rw [h1, h2, ok_bind, ok_bind, pathsForest_cons [] a post rb]
      have frb_a : Fresh (idsT a) rb := Fresh.of_from (pathsTree_from0 h1) hla dba
      have frb_p : Fresh (idsF post) rb := Fresh.of_from (pathsTree_from0 h1) hlp dbp
      rcases pathsTree_agree0 a l rb hla frb_a with ⟨e, e', h3, _⟩ | ⟨x, ra2, h3, h4, _⟩
      · rw [ha] at h3; cases h3
      · rw [h4, ok_bind]
        have f1 : Fresh (idsF post) rb' := Fresh.of_from (pathsTree_from0 h2) fra_p dbp
        have f2 : Fresh (idsF post) ra2 := Fresh.of_from (pathsTree_from0 h4) frb_p dap
        exact (pathsForest_agree0 post rb' ra2 f1 f2).isOk

/-- (1) with pairwise distinct identities the Path stage accepts `pre ++ a :: b :: post` iff it accepts
`pre ++ b :: a :: post` -/
theorem paths_swap_distinct (pre post : List BTree) (a b : BTree)
    (hd : (idsF (pre ++ a :: b :: post)).Nodup) :
    (pathsForest [] (pre ++ a :: b :: post) none).isOk = (pathsForest [] (pre ++ b :: a :: post) none).isOk := by
  have hids : idsF (pre ++ a :: b :: post) = idsF pre ++ (idsT a ++ (idsT b ++ idsF post)) := by
    rw [idsF_append]; simp only [idsF]
  rw [hids, List.nodup_append, List.nodup_append, List.nodup_append] at hd
  obtain ⟨_, ⟨_, ⟨_, _, dbp⟩, dabp⟩, dpre⟩ := hd
  rw [pathsForest_append, pathsForest_append]
  cases h0 : pathsForest [] pre none with
  | error e => rfl
  | ok l0 =>
    rw [ok_bind, ok_bind]
    have fr : ∀ S : List Nat, (∀ j ∈ idsF pre, j ∉ S) → Fresh S l0 :=
      fun S hS => Fresh.of_from (pathsForest_from0 h0) (Fresh.none S) hS
    refine two_blocks a b post l0 (fr _ ?_) (fr _ ?_) (fr _ ?_) ?_ ?_ ?_
    · intro j hj hja; exact dpre j hj j (by simp [hja]) rfl
    · intro j hj hjb; exact dpre j hj j (by simp [hjb]) rfl
    · intro j hj hjp; exact dpre j hj j (by simp [hjp]) rfl
    · intro j hj hjb; exact dabp j hj j (by simp [hjb]) rfl
    · intro j hj hjp; exact dabp j hj j (by simp [hjp]) rfl
    · intro j hj hjp; exact dbp j hj j hjp rfl

/-! ### (2) the exchange of two interaction blocks without the hypothesis on the Path stage -/

/-- the verdict: two neighbouring interaction blocks of a forest with pairwise distinct identities, in either order -/
theorem swap_inter_verdict_distinct (banned : List Kind) (pre post : List BTree) (a b : BTree)
    (ha : C10I.isInterBlock' a = true) (hb : C10I.isInterBlock' b = true) (hpre : pre ≠ [])
    (hd : (idsF (pre ++ a :: b :: post)).Nodup) :
    (compile banned (pre ++ a :: b :: post)).isOk = (compile banned (pre ++ b :: a :: post)).isOk :=
  C10I.swap_inter_verdict_partial' banned pre post a b ha hb hpre (paths_swap_distinct pre post a b hd)

/-- the catalog -/
theorem swap_inter_distinct (banned : List Kind) (pre post : List BTree) (a b : BTree)
    (ha : C10I.isInterBlock' a = true) (hb : C10I.isInterBlock' b = true) (hpre : pre ≠ [])
    (hd : (idsF (pre ++ a :: b :: post)).Nodup)
    (c : Cat) (hc : compile banned (pre ++ a :: b :: post) = .ok c) :
    ∃ c', compile banned (pre ++ b :: a :: post) = .ok c' ∧ C10I.SameUpToOrder' c c' :=
  C10I.swap_inter_partial' banned pre post a b ha hb hpre (paths_swap_distinct pre post a b hd) c hc

/-! ### (3) the forests of the composed model have pairwise distinct identities -/

open JSight.Project in
/-- the number of directives of a forest -/
abbrev sizeF (f : List Tree) : Nat := (preorderF f).length
open JSight.Project in
abbrev sizeT (t : Tree) : Nat := (preorderT t).length

section deco
open JSight.Project

theorem toBDirF_id (fs : PFS) (done : List RDir) (id : Nat) (x : Dir) : (toBDirF fs done id x).id = id := by
  unfold toBDirF; split <;> rfl

mutual
  /-- the decoration numbers the directives in pre-order from `n` on -/
  theorem decoTree_ids' (d : Src) (done : List RDir) : ∀ (t : Tree) (n : Nat),
      idsT (decoTree d done t n).1 = List.range' n (sizeT t) ∧ (decoTree d done t n).2 = n + sizeT t
    | .node x kids, n => by
      have ih := decoForest_ids' d done kids (n + 1)
      simp only [decoTree, idsT, sizeT, preorderT, List.length_cons, List.range'_succ, C01P.toBDir_id]
      simp only [sizeF] at ih
      exact ⟨(by rw [ih.1]), (by rw [ih.2]; omega)⟩
  theorem decoForest_ids' (d : Src) (done : List RDir) : ∀ (f : List Tree) (n : Nat),
      idsF (decoForest d done f n).1 = List.range' n (sizeF f) ∧ (decoForest d done f n).2 = n + sizeF f
    | [], n => by simp [decoForest, idsF, sizeF, preorderF]
    | t :: r, n => by
      have h1 := decoTree_ids' d done t n
      have h2 := decoForest_ids' d done r (decoTree d done t n).2
      simp only [decoForest, idsF, sizeF, preorderF, List.length_append]
      simp only [sizeT, sizeF] at h1 h2
      refine ⟨?_, (by rw [h2.2, h1.2]; omega)⟩
      rw [h1.1, h2.1, h1.2, List.range'_append_1]
end

/-- the identities of a decorated forest: `n, n + 1, …` -/
theorem decoForest_ids (d : Src) (done : List RDir) (f : List Tree) (n : Nat) :
    idsF (decoForest d done f n).1 = List.range' n (sizeF f) := (decoForest_ids' d done f n).1

theorem decoForest_nodup (d : Src) (done : List RDir) (f : List Tree) (n : Nat) :
    (idsF (decoForest d done f n).1).Nodup := by
  rw [decoForest_ids]; exact List.nodup_range'

theorem decoForest_ids_mem (d : Src) (done : List RDir) (f : List Tree) (n i : Nat) :
    i ∈ idsF (decoForest d done f n).1 ↔ n ≤ i ∧ i < n + sizeF f := by
  rw [decoForest_ids, List.mem_range'_1]

mutual
  /-- the same for the decoration of a project of several files -/
  theorem decoTreeF_ids' (fs : PFS) (done : List RDir) : ∀ (t : Tree) (n : Nat),
      idsT (decoTreeF fs done t n).1 = List.range' n (sizeT t) ∧ (decoTreeF fs done t n).2 = n + sizeT t
    | .node x kids, n => by
      have ih := decoForestF_ids' fs done kids (n + 1)
      simp only [decoTreeF, idsT, sizeT, preorderT, List.length_cons, List.range'_succ, toBDirF_id]
      simp only [sizeF] at ih
      exact ⟨(by rw [ih.1]), (by rw [ih.2]; omega)⟩
  theorem decoForestF_ids' (fs : PFS) (done : List RDir) : ∀ (f : List Tree) (n : Nat),
      idsF (decoForestF fs done f n).1 = List.range' n (sizeF f) ∧ (decoForestF fs done f n).2 = n + sizeF f
    | [], n => by simp [decoForestF, idsF, sizeF, preorderF]
    | t :: r, n => by
      have h1 := decoTreeF_ids' fs done t n
      have h2 := decoForestF_ids' fs done r (decoTreeF fs done t n).2
      simp only [decoForestF, idsF, sizeF, preorderF, List.length_append]
      simp only [sizeT, sizeF] at h1 h2
      refine ⟨?_, (by rw [h2.2, h1.2]; omega)⟩
      rw [h1.1, h2.1, h1.2, List.range'_append_1]
end

theorem decoForestF_ids (fs : PFS) (done : List RDir) (f : List Tree) (n : Nat) :
    idsF (decoForestF fs done f n).1 = List.range' n (sizeF f) := (decoForestF_ids' fs done f n).1

theorem decoForestF_nodup (fs : PFS) (done : List RDir) (f : List Tree) (n : Nat) :
    (idsF (decoForestF fs done f n).1).Nodup := by
  rw [decoForestF_ids]; exact List.nodup_range'

/-- (2) for the forests the composed model hands to `compile`: whenever the decorated forest reads
`pre ++ a :: b :: post` with two interaction blocks `a`, `b`, the other order has the same verdict … -/
theorem swap_inter_verdict_deco (banned : List Kind) (d : Src) (done : List RDir) (f : List Tree) (n : Nat)
    (pre post : List BTree) (a b : BTree) (hf : (decoForest d done f n).1 = pre ++ a :: b :: post)
    (ha : C10I.isInterBlock' a = true) (hb : C10I.isInterBlock' b = true) (hpre : pre ≠ []) :
    (compile banned (pre ++ a :: b :: post)).isOk = (compile banned (pre ++ b :: a :: post)).isOk :=
  swap_inter_verdict_distinct banned pre post a b ha hb hpre (by rw [← hf]; exact decoForest_nodup d done f n)

/-- … and the same catalog up to order -/
theorem swap_inter_deco (banned : List Kind) (d : Src) (done : List RDir) (f : List Tree) (n : Nat)
    (pre post : List BTree) (a b : BTree) (hf : (decoForest d done f n).1 = pre ++ a :: b :: post)
    (ha : C10I.isInterBlock' a = true) (hb : C10I.isInterBlock' b = true) (hpre : pre ≠ [])
    (c : Cat) (hc : compile banned (pre ++ a :: b :: post) = .ok c) :
    ∃ c', compile banned (pre ++ b :: a :: post) = .ok c' ∧ C10I.SameUpToOrder' c c' :=
  swap_inter_distinct banned pre post a b ha hb hpre (by rw [← hf]; exact decoForest_nodup d done f n) c hc

theorem swap_inter_verdict_decoF (banned : List Kind) (fs : PFS) (done : List RDir) (f : List Tree) (n : Nat)
    (pre post : List BTree) (a b : BTree) (hf : (decoForestF fs done f n).1 = pre ++ a :: b :: post)
    (ha : C10I.isInterBlock' a = true) (hb : C10I.isInterBlock' b = true) (hpre : pre ≠ []) :
    (compile banned (pre ++ a :: b :: post)).isOk = (compile banned (pre ++ b :: a :: post)).isOk :=
  swap_inter_verdict_distinct banned pre post a b ha hb hpre (by rw [← hf]; exact decoForestF_nodup fs done f n)

theorem swap_inter_decoF (banned : List Kind) (fs : PFS) (done : List RDir) (f : List Tree) (n : Nat)
    (pre post : List BTree) (a b : BTree) (hf : (decoForestF fs done f n).1 = pre ++ a :: b :: post)
    (ha : C10I.isInterBlock' a = true) (hb : C10I.isInterBlock' b = true) (hpre : pre ≠ [])
    (c : Cat) (hc : compile banned (pre ++ a :: b :: post) = .ok c) :
    ∃ c', compile banned (pre ++ b :: a :: post) = .ok c' ∧ C10I.SameUpToOrder' c c' :=
  swap_inter_distinct banned pre post a b ha hb hpre (by rw [← hf]; exact decoForestF_nodup fs done f n) c hc

end deco

/-! ### (4) the statements are not vacuous -/

private def s (x : String) : Bytes := x.toUTF8.toList
private def J : BTree := .node { kind := .Jsight, id := 1, src := 1, named := [("Version", s "0.3")] } []
private def pathDir (id : Nat) : BTree := .node { kind := .Path, id := id, src := id, body := some (s "{}") } []
/-- two method blocks with a Path directive each, every directive with its own identity -/
private def M5 : BTree := .node { kind := .Get, id := 70, src := 5, named := [("Path", s "/p/{a}")] } [pathDir 71]
private def M6 : BTree := .node { kind := .Get, id := 72, src := 6, named := [("Path", s "/q/{a}")] } [pathDir 73]
/-- a third method block with the IDENTITY of the first (the counterexample `C10I.path_stage_order_matters`) -/
private def M5' : BTree := .node { kind := .Get, id := 70, src := 5, named := [("Path", s "/r/{a}")] } [pathDir 75]
private def M7 : BTree := .node { kind := .Get, id := 74, src := 7, named := [("Path", s "/r/{a}")] } [pathDir 75]

/-- distinct identities, two interaction blocks with Path directives, accepted in both orders — and the Path
directives are really walked (each block sets the state: the walk ends in the identity of the last block) -/
example : (idsF ([J] ++ M5 :: M6 :: [M7])).Nodup ∧ idsF [J, M5, M6, M7] = [1, 70, 71, 72, 73, 74, 75] ∧
    C10I.isInterBlock' M5 = true ∧ C10I.isInterBlock' M6 = true ∧
    C10I.noPathTree M5 = false ∧ C10I.noPathTree M6 = false ∧
    pathsForest [] [J, M5, M6] none = .ok (some 72) ∧ pathsForest [] [J, M6, M5] none = .ok (some 70) ∧
    (compile [] [J, M5, M6, M7]).isOk = true ∧ (compile [] [J, M6, M5, M7]).isOk = true := by decide +kernel

/-- the same by the theorem -/
example : ∃ c c', compile [] [J, M5, M6, M7] = .ok c ∧ compile [] [J, M6, M5, M7] = .ok c' ∧
    C10I.SameUpToOrder' c c' := by
  have h : (compile [] [J, M5, M6, M7]).isOk = true := by decide +kernel
  cases hc : compile [] [J, M5, M6, M7] with
  | error e => rw [hc] at h; cases h
  | ok c =>
    obtain ⟨c', h', hs⟩ := swap_inter_distinct [] [J] [M7] M5 M6 (by decide +kernel) (by decide +kernel)
      (by simp) (by decide +kernel) c hc
    exact ⟨c, c', rfl, h', hs⟩

/-- the shape of the counterexample (two directives with one identity) does not meet `Nodup`, and there the two
orders do differ -/
example : ¬ (idsF ([J, M5] ++ M6 :: M5' :: [])).Nodup ∧ ¬ (idsF ([J, M5] ++ M5' :: M6 :: [])).Nodup ∧
    (pathsForest [] ([J, M5] ++ M6 :: M5' :: []) none).isOk = true ∧
    (pathsForest [] ([J, M5] ++ M5' :: M6 :: []) none).isOk = false := by decide +kernel

end JSight.C10P
