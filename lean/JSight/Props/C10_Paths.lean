import JSight.Props.C10_Inters
import JSight.Props.C01_Project
/-!
C10 (catalog construction), third part — the Path stage (`pathsForest`, the model of `collectPaths`), and with it the
hypothesis `hpaths` of `Props/C10_Inters.lean` (the stage gives the same verdict in both orders).

Since F76 the stage threads `seen : List Nat`, the identities (`BDir.id`) of ALL contexts that already have a Path
directive (before: `Option Nat`, the parent of the last Path directive met).  That makes the stage a set computation:

* `pathsTree_spec` / `pathsForest_spec` / `pathsForest_isOk`: from the state `l` a forest is accepted iff every Path
  directive outside the MACRO subtrees passes the checks that do not read the state (`okF`: no annotation, a body, a
  path, well-formed path parameters, a parent) and the identities of the parents of these Path directives (`parF`)
  are pairwise different and not in `l` (`Fresh`); the state it leaves is `parF anc f ++ l`.
* `paths_swap` (`paths_swap_from`): the verdict of the stage is the same for `pre ++ a :: b :: post` and
  `pre ++ b :: a :: post` — for ARBITRARY trees, whatever their identities (`okF` is a conjunction and `Fresh` is
  invariant under permutation).  `paths_swap_distinct` — the former main result, under
  `(idsF (pre ++ a :: b :: post)).Nodup`, proved through `Fresh`/`From`/`Agree` on the one-element state — is kept as
  a corollary.
* `swap_inter_verdict'`, `swap_inter'`: `C10I.swap_inter_verdict_partial'` / `swap_inter_partial'` WITHOUT `hpaths`;
  `swap_inter_verdict_distinct`, `swap_inter_distinct`: the same with `Nodup` (kept).
* `decoForest_ids` (`decoForestF_ids`): the decoration of the composed model numbers the directives in pre-order,
  `idsF (decoForest d done f n).1 = List.range' n (sizeF f)`; hence `decoForest_nodup`, and
  `swap_inter_verdict_deco` / `swap_inter_deco` (`…decoF`): for the forests `Project.process` / `processFS` hand to
  `compile` the exchange of two interaction blocks needs no hypothesis on the Path stage.
* `two_paths_refused`, `two_paths_not_compiled` (F76, the repaired behaviour): a directive outside the MACRO subtrees
  with two Path children is never accepted, whatever stands between the two; `accepted_parents_nodup` is the general
  form.
* examples: a forest with distinct identities and a Path directive in each exchanged block; the shape of the former
  counterexample `C10I.path_stage_order_matters` (two directives of one identity) is rejected in both orders;
  `URL /a/{x}/{y}/{z}` with `Path`, `GET [Path, 200]`, `Path` is refused at the second URL-level Path directive.
-/
namespace JSight.C10P
open JSight JSight.Build JSight.Gen JSight.BuildPerm

mutual
  /-- the identities of the directives of a tree, in pre-order -/
  def idsT : BTree → List Nat
    | .node d kids => d.id :: idsF kids
  def idsF : List BTree → List Nat
    | [] => []
    | t :: r => idsT t ++ idsF r
end

theorem idsF_append (l r : List BTree) : idsF (l ++ r) = idsF l ++ idsF r := by
  induction l with
  | nil => simp [idsF]
  | cons t l ih => simp only [List.cons_append, idsF, ih, List.append_assoc]

/-- the identity of the nearest ancestor -/
def hid : List BDir → List Nat
  | [] => []
  | p :: _ => [p.id]

/-! ### what the Path stage computes -/

/-- the checks of a Path directive that do not read the state `seen` -/
def pathOwn (anc : List BDir) (d : BDir) : Bool :=
  d.annot.isEmpty && d.body.isSome &&
    (match pathChain (d :: anc) with
     | .error _ => false
     | .ok path => (checkedParams d path).isOk) && !anc.isEmpty

mutual
  /-- every Path directive outside the MACRO subtrees passes its own checks -/
  def okT (anc : List BDir) : BTree → Bool
    | .node d kids =>
      if d.kind == .Macro then true
      else if d.kind == .Path then pathOwn anc d && okF (d :: anc) kids
      else okF (d :: anc) kids
  def okF (anc : List BDir) : List BTree → Bool
    | [] => true
    | t :: r => okT anc t && okF anc r
end

mutual
  /-- the identities of the parents of the Path directives outside the MACRO subtrees, the one met last first (the
  order in which the stage conses them onto `seen`) -/
  def parT (anc : List BDir) : BTree → List Nat
    | .node d kids =>
      if d.kind == .Macro then []
      else if d.kind == .Path then parF (d :: anc) kids ++ hid anc
      else parF (d :: anc) kids
  def parF (anc : List BDir) : List BTree → List Nat
    | [] => []
    | t :: r => parF anc r ++ parT anc t
end

/-- `new` has no repetition and nothing of `new` is in `seen` -/
def Fresh (new seen : List Nat) : Prop := new.Nodup ∧ ∀ j ∈ new, j ∉ seen

theorem Fresh.nil (seen : List Nat) : Fresh [] seen := ⟨List.nodup_nil, fun _ h => by cases h⟩

theorem fresh_single {j : Nat} {seen : List Nat} : Fresh [j] seen ↔ j ∉ seen := by
  constructor
  · intro h; exact h.2 j (by simp)
  · intro h; refine ⟨by simp, fun i hi => ?_⟩
    rw [List.mem_singleton] at hi; rw [hi]; exact h

theorem fresh_append {A B seen : List Nat} : Fresh (A ++ B) seen ↔ Fresh B seen ∧ Fresh A (B ++ seen) := by
  unfold Fresh
  rw [List.nodup_append]
  constructor
  · rintro ⟨⟨hA, hB, hAB⟩, hs⟩
    refine ⟨⟨hB, fun j hj => hs j (List.mem_append_right _ hj)⟩, hA, fun j hj hm => ?_⟩
    rcases List.mem_append.1 hm with hm | hm
    · exact hAB j hj j hm rfl
    · exact hs j (List.mem_append_left _ hj) hm
  · rintro ⟨⟨hB, hBs⟩, hA, hAs⟩
    refine ⟨⟨hA, hB, fun a ha b hb hab => hAs a ha (List.mem_append_left _ (hab ▸ hb))⟩, fun j hj => ?_⟩
    rcases List.mem_append.1 hj with hj | hj
    · exact fun hm => hAs j hj (List.mem_append_right _ hm)
    · exact hBs j hj

theorem Fresh.perm {A B seen : List Nat} (h : A.Perm B) : Fresh A seen ↔ Fresh B seen := by
  unfold Fresh
  rw [h.nodup_iff]
  constructor
  · exact fun ⟨h1, h2⟩ => ⟨h1, fun j hj => h2 j (h.mem_iff.2 hj)⟩
  · exact fun ⟨h1, h2⟩ => ⟨h1, fun j hj => h2 j (h.mem_iff.1 hj)⟩

theorem pathsTree_macro (anc : List BDir) (d : BDir) (kids : List BTree) (l : List Nat) (hk : d.kind = .Macro) :
    pathsTree anc (.node d kids) l = .ok l := by
  unfold pathsTree
  simp [hk]

theorem pathsTree_other (anc : List BDir) (d : BDir) (kids : List BTree) (l : List Nat)
    (hm : d.kind ≠ .Macro) (hp : d.kind ≠ .Path) :
    pathsTree anc (.node d kids) l = pathsForest (d :: anc) kids l := by
  unfold pathsTree
  simp [hm, hp]

/-- a Path directive: a failure that does not depend on the state, or the test whether the parent's identity is
among the contexts seen -/
theorem pathsTree_path (anc : List BDir) (d : BDir) (kids : List BTree) (hk : d.kind = .Path) :
    (pathOwn anc d = false ∧ ∃ e, ∀ l, pathsTree anc (.node d kids) l = .error e) ∨
    (pathOwn anc d = true ∧ ∃ p rest, anc = p :: rest ∧ ∀ l, pathsTree anc (.node d kids) l =
      if p.id ∈ l then fail d .notUnique else pathsForest (d :: anc) kids (p.id :: l)) := by
  have hm : (d.kind == Kind.Macro) = false := by rw [hk]; rfl
  have hp : (d.kind == Kind.Path) = true := by rw [hk]; rfl
  unfold pathsTree pathOwn
  simp only [hm, hp, Bool.false_eq_true, if_false, if_true]
  by_cases h1 : (!d.annot.isEmpty) = true
  · refine Or.inl ⟨?_, _, fun l => by simp only [h1, if_true]; rfl⟩
    simp only [Bool.not_eq_true'] at h1
    simp [h1]
  by_cases h2 : d.body.isNone = true
  · refine Or.inl ⟨?_, _, fun l => by simp only [h1, h2, if_true]; rfl⟩
    have : d.body.isSome = false := by cases hb : d.body <;> simp_all
    simp [this]
  have h1' : d.annot.isEmpty = true := by simpa using h1
  have h2' : d.body.isSome = true := by cases hb : d.body <;> simp_all
  simp only [h2, h1', h2', Bool.and_self, Bool.true_and]
  cases h3 : pathChain (d :: anc) with
  | error m => exact Or.inl ⟨rfl, _, fun l => rfl⟩
  | ok path =>
    simp only []
    cases h4 : checkedParams d path with
    | error e => exact Or.inl ⟨rfl, _, fun l => rfl⟩
    | ok v =>
      simp only []
      cases anc with
      | nil => exact Or.inl ⟨rfl, _, fun l => rfl⟩
      | cons p rest =>
        refine Or.inr ⟨rfl, p, rest, rfl, fun l => ?_⟩
        simp only [List.contains_eq_mem, decide_eq_true_eq, Bool.not_true, Bool.false_eq_true, if_false]

mutual
  /-- the Path stage accepts a tree from the state `l` iff every Path directive passes its own checks and the
  parents of the Path directives are pairwise different and not in `l`; it then leaves these parents in front of `l` -/
  theorem pathsTree_spec : ∀ (t : BTree) (anc : List BDir) (l r : List Nat),
      pathsTree anc t l = .ok r ↔ (okT anc t = true ∧ Fresh (parT anc t) l ∧ r = parT anc t ++ l)
    | .node d kids, anc, l, r => by
      by_cases hm : d.kind = .Macro
      · rw [pathsTree_macro anc d kids l hm]
        simp only [okT, parT, hm, beq_self_eq_true, if_true, List.nil_append, true_and]
        exact ⟨fun h => (by cases h; exact ⟨Fresh.nil _, rfl⟩), fun h => (by rw [h.2])⟩
      have hm' : (d.kind == Kind.Macro) = false := by simpa using hm
      by_cases hp : d.kind = .Path
      · have hp' : (d.kind == Kind.Path) = true := by simpa using hp
        simp only [okT, parT, hm', hp', Bool.false_eq_true, if_false, if_true]
        rcases pathsTree_path anc d kids hp with ⟨ho, e, he⟩ | ⟨ho, p, rest, rfl, hq⟩
        · rw [he, ho]
          exact ⟨fun h => (by cases h), fun h => (by simp at h)⟩
        · rw [hq, ho, Bool.true_and]
          by_cases hin : p.id ∈ l
          · rw [if_pos hin]
            refine ⟨fun h => (by cases h), fun h => ?_⟩
            exact absurd hin ((fresh_append.1 h.2.1).1.2 p.id (by simp [hid]))
          · rw [if_neg hin, pathsForest_spec kids (d :: p :: rest) (p.id :: l) r]
            simp only [hid, fresh_append, fresh_single, List.singleton_append, List.append_assoc]
            exact ⟨fun ⟨a, b, c⟩ => ⟨a, ⟨hin, b⟩, c⟩, fun ⟨a, ⟨_, b⟩, c⟩ => ⟨a, b, c⟩⟩
      · have hp' : (d.kind == Kind.Path) = false := by simpa using hp
        rw [pathsTree_other anc d kids l hm hp, pathsForest_spec kids (d :: anc) l r]
        simp only [okT, parT, hm', hp', Bool.false_eq_true, if_false]
  theorem pathsForest_spec : ∀ (f : List BTree) (anc : List BDir) (l r : List Nat),
      pathsForest anc f l = .ok r ↔ (okF anc f = true ∧ Fresh (parF anc f) l ∧ r = parF anc f ++ l)
    | [], anc, l, r => by
      rw [pathsForest_nil]
      simp only [okF, parF, List.nil_append, true_and]
      exact ⟨fun h => (by cases h; exact ⟨Fresh.nil _, rfl⟩), fun h => (by rw [h.2])⟩
    | t :: f, anc, l, r => by
      rw [pathsForest_cons]
      simp only [okF, parF, Bool.and_eq_true, fresh_append, List.append_assoc]
      cases ht : pathsTree anc t l with
      | error e =>
        refine ⟨fun h => (by cases h), fun h => ?_⟩
        rw [(pathsTree_spec t anc l _).2 ⟨h.1.1, h.2.1.1, rfl⟩] at ht
        cases ht
      | ok m =>
        obtain ⟨h1, h2, rfl⟩ := (pathsTree_spec t anc l m).1 ht
        rw [ok_bind, pathsForest_spec f anc (parT anc t ++ l) r]
        exact ⟨fun ⟨a, b, c⟩ => ⟨⟨h1, a⟩, ⟨h2, b⟩, c⟩, fun ⟨⟨_, a⟩, ⟨_, b⟩, c⟩ => ⟨a, b, c⟩⟩
end

/-- the verdict of the Path stage -/
theorem pathsForest_isOk (f : List BTree) (anc : List BDir) (l : List Nat) :
    (pathsForest anc f l).isOk = true ↔ (okF anc f = true ∧ Fresh (parF anc f) l) := by
  cases h : pathsForest anc f l with
  | error e =>
    refine ⟨fun h' => (by cases h'), fun h' => ?_⟩
    rw [(pathsForest_spec f anc l _).2 ⟨h'.1, h'.2, rfl⟩] at h
    cases h
  | ok r =>
    have := (pathsForest_spec f anc l r).1 h
    exact ⟨fun _ => ⟨this.1, this.2.1⟩, fun _ => rfl⟩

theorem okF_append (anc : List BDir) (l r : List BTree) : okF anc (l ++ r) = (okF anc l && okF anc r) := by
  induction l with
  | nil => simp [okF]
  | cons t l ih => simp only [List.cons_append, okF, ih, Bool.and_assoc]

theorem parF_append (anc : List BDir) (l r : List BTree) : parF anc (l ++ r) = parF anc r ++ parF anc l := by
  induction l with
  | nil => simp [parF]
  | cons t l ih => simp only [List.cons_append, parF, ih, List.append_assoc]

/-- the Path stage is order-free: from any state, at any depth, two neighbouring trees may be exchanged -/
theorem paths_swap_from (anc : List BDir) (pre post : List BTree) (a b : BTree) (l : List Nat) :
    (pathsForest anc (pre ++ a :: b :: post) l).isOk = (pathsForest anc (pre ++ b :: a :: post) l).isOk := by
  rw [Bool.eq_iff_iff, pathsForest_isOk, pathsForest_isOk]
  have hok : okF anc (pre ++ a :: b :: post) = okF anc (pre ++ b :: a :: post) := by
    simp only [okF_append, okF]
    cases okF anc pre <;> cases okT anc a <;> cases okT anc b <;> rfl
  have hperm : (parF anc (pre ++ a :: b :: post)).Perm (parF anc (pre ++ b :: a :: post)) := by
    simp only [parF_append, parF, List.append_assoc]
    refine List.Perm.append_left _ ?_
    rw [← List.append_assoc, ← List.append_assoc (parT anc a)]
    exact List.Perm.append_right _ List.perm_append_comm
  rw [hok, Fresh.perm hperm]

/-- (1) the Path stage gives the same verdict in both orders — for ARBITRARY trees `a`, `b`, whatever their
identities (F76: the stage refuses a forest iff a Path directive fails its own checks or two Path directives outside
the MACRO subtrees have parents of one identity; neither depends on the order) -/
theorem paths_swap (pre post : List BTree) (a b : BTree) :
    (pathsForest [] (pre ++ a :: b :: post) []).isOk = (pathsForest [] (pre ++ b :: a :: post) []).isOk :=
  paths_swap_from [] pre post a b []

/-- (1, as first stated: with pairwise distinct identities) the Path stage accepts `pre ++ a :: b :: post` iff it
accepts `pre ++ b :: a :: post`.  Restated for F76 (the initial state is `[]`, it was `none`); the hypothesis `hd` is
no longer needed (`paths_swap`) and is kept for the users of this name -/
theorem paths_swap_distinct (pre post : List BTree) (a b : BTree)
    (_hd : (idsF (pre ++ a :: b :: post)).Nodup) :
    (pathsForest [] (pre ++ a :: b :: post) []).isOk = (pathsForest [] (pre ++ b :: a :: post) []).isOk :=
  paths_swap pre post a b

/-! ### (2) the exchange of two interaction blocks without the hypothesis on the Path stage -/

/-- the verdict: two neighbouring interaction blocks in either order — `C10I.swap_inter_verdict_partial'` without
`hpaths` (F76: `paths_swap` holds for every forest) -/
theorem swap_inter_verdict' (banned : List Kind) (pre post : List BTree) (a b : BTree)
    (ha : C10I.isInterBlock' a = true) (hb : C10I.isInterBlock' b = true) (hpre : pre ≠ []) :
    (compile banned (pre ++ a :: b :: post)).isOk = (compile banned (pre ++ b :: a :: post)).isOk :=
  C10I.swap_inter_verdict_partial' banned pre post a b ha hb hpre (paths_swap pre post a b)

/-- the catalog: `C10I.swap_inter_partial'` without `hpaths` -/
theorem swap_inter' (banned : List Kind) (pre post : List BTree) (a b : BTree)
    (ha : C10I.isInterBlock' a = true) (hb : C10I.isInterBlock' b = true) (hpre : pre ≠ [])
    (c : Cat) (hc : compile banned (pre ++ a :: b :: post) = .ok c) :
    ∃ c', compile banned (pre ++ b :: a :: post) = .ok c' ∧ C10I.SameUpToOrder' c c' :=
  C10I.swap_inter_partial' banned pre post a b ha hb hpre (paths_swap pre post a b) c hc

/-- the verdict: two neighbouring interaction blocks of a forest with pairwise distinct identities, in either order -/
theorem swap_inter_verdict_distinct (banned : List Kind) (pre post : List BTree) (a b : BTree)
    (ha : C10I.isInterBlock' a = true) (hb : C10I.isInterBlock' b = true) (hpre : pre ≠ [])
    (hd : (idsF (pre ++ a :: b :: post)).Nodup) :
    (compile banned (pre ++ a :: b :: post)).isOk = (compile banned (pre ++ b :: a :: post)).isOk :=
  C10I.swap_inter_verdict_partial' banned pre post a b ha hb hpre (paths_swap_distinct pre post a b hd)

/-- the catalog -/
theorem swap_inter_distinct (banned : List Kind) (pre post : List BTree) (a b : BTree)
    (ha : C10I.isInterBlock' a = true) (hb : C10I.isInterBlock' b = true) (hpre : pre ≠ [])
    (hd : (idsF (pre ++ a :: b :: post)).Nodup)
    (c : Cat) (hc : compile banned (pre ++ a :: b :: post) = .ok c) :
    ∃ c', compile banned (pre ++ b :: a :: post) = .ok c' ∧ C10I.SameUpToOrder' c c' :=
  C10I.swap_inter_partial' banned pre post a b ha hb hpre (paths_swap_distinct pre post a b hd) c hc

/-! ### (3) the forests of the composed model have pairwise distinct identities -/

open JSight.Project in
/-- the number of directives of a forest -/
abbrev sizeF (f : List Tree) : Nat := (preorderF f).length
open JSight.Project in
abbrev sizeT (t : Tree) : Nat := (preorderT t).length

section deco
open JSight.Project

theorem toBDirF_id (fs : PFS) (done : List RDir) (id : Nat) (x : Dir) : (toBDirF fs done id x).id = id := by
  unfold toBDirF; split <;> rfl

mutual
  /-- the decoration numbers the directives in pre-order from `n` on -/
  theorem decoTree_ids' (d : Src) (done : List RDir) : ∀ (t : Tree) (n : Nat),
      idsT (decoTree d done t n).1 = List.range' n (sizeT t) ∧ (decoTree d done t n).2 = n + sizeT t
    | .node x kids, n => by
      have ih := decoForest_ids' d done kids (n + 1)
      simp only [decoTree, idsT, sizeT, preorderT, List.length_cons, List.range'_succ, C01P.toBDir_id]
      simp only [sizeF] at ih
      exact ⟨(by rw [ih.1]), (by rw [ih.2]; omega)⟩
  theorem decoForest_ids' (d : Src) (done : List RDir) : ∀ (f : List Tree) (n : Nat),
      idsF (decoForest d done f n).1 = List.range' n (sizeF f) ∧ (decoForest d done f n).2 = n + sizeF f
    | [], n => by simp [decoForest, idsF, sizeF, preorderF]
    | t :: r, n => by
      have h1 := decoTree_ids' d done t n
      have h2 := decoForest_ids' d done r (decoTree d done t n).2
      simp only [decoForest, idsF, sizeF, preorderF, List.length_append]
      simp only [sizeT, sizeF] at h1 h2
      refine ⟨?_, (by rw [h2.2, h1.2]; omega)⟩
      rw [h1.1, h2.1, h1.2, List.range'_append_1]
end

/-- the identities of a decorated forest: `n, n + 1, …` -/
theorem decoForest_ids (d : Src) (done : List RDir) (f : List Tree) (n : Nat) :
    idsF (decoForest d done f n).1 = List.range' n (sizeF f) := (decoForest_ids' d done f n).1

theorem decoForest_nodup (d : Src) (done : List RDir) (f : List Tree) (n : Nat) :
    (idsF (decoForest d done f n).1).Nodup := by
  rw [decoForest_ids]; exact List.nodup_range'

theorem decoForest_ids_mem (d : Src) (done : List RDir) (f : List Tree) (n i : Nat) :
    i ∈ idsF (decoForest d done f n).1 ↔ n ≤ i ∧ i < n + sizeF f := by
  rw [decoForest_ids, List.mem_range'_1]

mutual
  /-- the same for the decoration of a project of several files -/
  theorem decoTreeF_ids' (fs : PFS) (done : List RDir) : ∀ (t : Tree) (n : Nat),
      idsT (decoTreeF fs done t n).1 = List.range' n (sizeT t) ∧ (decoTreeF fs done t n).2 = n + sizeT t
    | .node x kids, n => by
      have ih := decoForestF_ids' fs done kids (n + 1)
      simp only [decoTreeF, idsT, sizeT, preorderT, List.length_cons, List.range'_succ, toBDirF_id]
      simp only [sizeF] at ih
      exact ⟨(by rw [ih.1]), (by rw [ih.2]; omega)⟩
  theorem decoForestF_ids' (fs : PFS) (done : List RDir) : ∀ (f : List Tree) (n : Nat),
      idsF (decoForestF fs done f n).1 = List.range' n (sizeF f) ∧ (decoForestF fs done f n).2 = n + sizeF f
    | [], n => by simp [decoForestF, idsF, sizeF, preorderF]
    | t :: r, n => by
      have h1 := decoTreeF_ids' fs done t n
      have h2 := decoForestF_ids' fs done r (decoTreeF fs done t n).2
      simp only [decoForestF, idsF, sizeF, preorderF, List.length_append]
      simp only [sizeT, sizeF] at h1 h2
      refine ⟨?_, (by rw [h2.2, h1.2]; omega)⟩
      rw [h1.1, h2.1, h1.2, List.range'_append_1]
end

theorem decoForestF_ids (fs : PFS) (done : List RDir) (f : List Tree) (n : Nat) :
    idsF (decoForestF fs done f n).1 = List.range' n (sizeF f) := (decoForestF_ids' fs done f n).1

theorem decoForestF_nodup (fs : PFS) (done : List RDir) (f : List Tree) (n : Nat) :
    (idsF (decoForestF fs done f n).1).Nodup := by
  rw [decoForestF_ids]; exact List.nodup_range'

/-- (2) for the forests the composed model hands to `compile`: whenever the decorated forest reads
`pre ++ a :: b :: post` with two interaction blocks `a`, `b`, the other order has the same verdict … -/
theorem swap_inter_verdict_deco (banned : List Kind) (d : Src) (done : List RDir) (f : List Tree) (n : Nat)
    (pre post : List BTree) (a b : BTree) (hf : (decoForest d done f n).1 = pre ++ a :: b :: post)
    (ha : C10I.isInterBlock' a = true) (hb : C10I.isInterBlock' b = true) (hpre : pre ≠ []) :
    (compile banned (pre ++ a :: b :: post)).isOk = (compile banned (pre ++ b :: a :: post)).isOk :=
  swap_inter_verdict_distinct banned pre post a b ha hb hpre (by rw [← hf]; exact decoForest_nodup d done f n)

/-- … and the same catalog up to order -/
theorem swap_inter_deco (banned : List Kind) (d : Src) (done : List RDir) (f : List Tree) (n : Nat)
    (pre post : List BTree) (a b : BTree) (hf : (decoForest d done f n).1 = pre ++ a :: b :: post)
    (ha : C10I.isInterBlock' a = true) (hb : C10I.isInterBlock' b = true) (hpre : pre ≠ [])
    (c : Cat) (hc : compile banned (pre ++ a :: b :: post) = .ok c) :
    ∃ c', compile banned (pre ++ b :: a :: post) = .ok c' ∧ C10I.SameUpToOrder' c c' :=
  swap_inter_distinct banned pre post a b ha hb hpre (by rw [← hf]; exact decoForest_nodup d done f n) c hc

theorem swap_inter_verdict_decoF (banned : List Kind) (fs : PFS) (done : List RDir) (f : List Tree) (n : Nat)
    (pre post : List BTree) (a b : BTree) (hf : (decoForestF fs done f n).1 = pre ++ a :: b :: post)
    (ha : C10I.isInterBlock' a = true) (hb : C10I.isInterBlock' b = true) (hpre : pre ≠ []) :
    (compile banned (pre ++ a :: b :: post)).isOk = (compile banned (pre ++ b :: a :: post)).isOk :=
  swap_inter_verdict_distinct banned pre post a b ha hb hpre (by rw [← hf]; exact decoForestF_nodup fs done f n)

theorem swap_inter_decoF (banned : List Kind) (fs : PFS) (done : List RDir) (f : List Tree) (n : Nat)
    (pre post : List BTree) (a b : BTree) (hf : (decoForestF fs done f n).1 = pre ++ a :: b :: post)
    (ha : C10I.isInterBlock' a = true) (hb : C10I.isInterBlock' b = true) (hpre : pre ≠ [])
    (c : Cat) (hc : compile banned (pre ++ a :: b :: post) = .ok c) :
    ∃ c', compile banned (pre ++ b :: a :: post) = .ok c' ∧ C10I.SameUpToOrder' c c' :=
  swap_inter_distinct banned pre post a b ha hb hpre (by rw [← hf]; exact decoForestF_nodup fs done f n) c hc

end deco

/-! ### (4) one context, one Path directive (F76) -/

mutual
  /-- the subtrees of a tree that the Path stage walks: all but the MACRO subtrees -/
  def nodesT : BTree → List BTree
    | .node d kids => if d.kind == .Macro then [] else .node d kids :: nodesF kids
  def nodesF : List BTree → List BTree
    | [] => []
    | t :: r => nodesT t ++ nodesF r
end

mutual
  theorem parT_sub : ∀ (t : BTree) (anc : List BDir) (p : BDir) (kids : List BTree),
      .node p kids ∈ nodesT t → ∃ anc', (parF (p :: anc') kids).Sublist (parT anc t)
    | .node d ks, anc, p, kids, h => by
      by_cases hm : (d.kind == Kind.Macro) = true
      · simp [nodesT, hm] at h
      have hm' : (d.kind == Kind.Macro) = false := by simpa using hm
      simp only [nodesT, hm', Bool.false_eq_true, if_false, List.mem_cons] at h
      have top : (parF (d :: anc) ks).Sublist (parT anc (.node d ks)) := by
        simp only [parT, hm', Bool.false_eq_true, if_false]
        split
        · exact List.sublist_append_left _ _
        · exact List.Sublist.refl _
      rcases h with h | h
      · cases h
        exact ⟨anc, top⟩
      · obtain ⟨anc', h'⟩ := parF_sub ks (d :: anc) p kids h
        exact ⟨anc', h'.trans top⟩
  theorem parF_sub : ∀ (f : List BTree) (anc : List BDir) (p : BDir) (kids : List BTree),
      .node p kids ∈ nodesF f → ∃ anc', (parF (p :: anc') kids).Sublist (parF anc f)
    | [], anc, p, kids, h => by simp [nodesF] at h
    | t :: f, anc, p, kids, h => by
      simp only [nodesF, List.mem_append] at h
      simp only [parF]
      rcases h with h | h
      · obtain ⟨anc', h'⟩ := parT_sub t anc p kids h
        exact ⟨anc', h'.trans (List.sublist_append_right _ _)⟩
      · obtain ⟨anc', h'⟩ := parF_sub f anc p kids h
        exact ⟨anc', h'.trans (List.sublist_append_left _ _)⟩
end

/-- a Path child puts the identity of its parent into the list of parents -/
theorem parT_path (p : BDir) (anc : List BDir) (t : BTree) (ht : t.dir.kind = .Path) : p.id ∈ parT (p :: anc) t := by
  cases t with
  | node d ks =>
    simp only [BTree.dir] at ht
    simp [parT, ht, hid]

theorem parF_path (p : BDir) (anc : List BDir) (f : List BTree) (t : BTree) (hm : t ∈ f) (ht : t.dir.kind = .Path) :
    p.id ∈ parF (p :: anc) f := by
  induction f with
  | nil => cases hm
  | cons x f ih =>
    simp only [parF, List.mem_append]
    rcases List.mem_cons.1 hm with rfl | hm
    · exact Or.inr (parT_path p anc t ht)
    · exact Or.inl (ih hm)

/-- (4) F76, one context has one Path directive: a directive `p` outside the MACRO subtrees with two Path children
`t₁`, `t₂` — whatever stands before, between and after them, and wherever `p` is in the forest — is refused by the
Path stage (it used to be accepted when a Path directive of another context, e.g. of a nested method, stood between
the two) -/
theorem two_paths_refused (f : List BTree) (p : BDir) (l₁ l₂ l₃ : List BTree) (t₁ t₂ : BTree)
    (hp : .node p (l₁ ++ t₁ :: (l₂ ++ t₂ :: l₃)) ∈ nodesF f)
    (h₁ : t₁.dir.kind = .Path) (h₂ : t₂.dir.kind = .Path) :
    (pathsForest [] f []).isOk = false := by
  cases hok : (pathsForest [] f []).isOk with
  | false => rfl
  | true =>
    exfalso
    have hn : (parF [] f).Nodup := ((pathsForest_isOk f [] []).1 hok).2.1
    obtain ⟨anc', hs⟩ := parF_sub f [] p _ hp
    have hn' := hs.nodup hn
    rw [parF_append, parF, List.nodup_append] at hn'
    have hn'' := hn'.1
    rw [List.nodup_append] at hn''
    exact hn''.2.2 p.id (parF_path p anc' _ t₂ (by simp) h₂) p.id (parT_path p anc' t₁ h₁) rfl

theorem compile_paths_ok {banned : List Kind} {f : List BTree} {c : Cat} (h : compile banned f = .ok c) :
    (pathsForest [] f []).isOk = true := by
  rw [compile_eq] at h
  cases h0 : collectTags f {} with
  | error e => rw [h0] at h; cases h
  | ok c0 =>
    rw [h0, ok_bind] at h
    cases h1 : checkTypeNames f with
    | error e => rw [h1] at h; cases h
    | ok u =>
      rw [h1, ok_bind] at h
      cases h2 : pathsForest [] f [] with
      | error e => rw [h2] at h; cases h
      | ok x => rfl

/-- … hence no catalog is built -/
theorem two_paths_not_compiled (banned : List Kind) (f : List BTree) (p : BDir) (l₁ l₂ l₃ : List BTree)
    (t₁ t₂ : BTree) (hp : .node p (l₁ ++ t₁ :: (l₂ ++ t₂ :: l₃)) ∈ nodesF f)
    (h₁ : t₁.dir.kind = .Path) (h₂ : t₂.dir.kind = .Path) (c : Cat) :
    compile banned f ≠ .ok c := by
  intro h
  have := compile_paths_ok h
  rw [two_paths_refused f p l₁ l₂ l₃ t₁ t₂ hp h₁ h₂] at this
  cases this

/-- the general form: the Path stage accepts a forest only if the parents of its Path directives (outside the MACRO
subtrees) have pairwise different identities -/
theorem accepted_parents_nodup (f : List BTree) (h : (pathsForest [] f []).isOk = true) : (parF [] f).Nodup :=
  ((pathsForest_isOk f [] []).1 h).2.1

/-! ### (5) the statements are not vacuous -/

private def s (x : String) : Bytes := x.toUTF8.toList
private def J : BTree := .node { kind := .Jsight, id := 1, src := 1, named := [("Version", s "0.3")] } []
private def pathDir (id : Nat) : BTree := .node { kind := .Path, id := id, src := id, body := some (s "{}") } []
/-- two method blocks with a Path directive each, every directive with its own identity -/
private def M5 : BTree := .node { kind := .Get, id := 70, src := 5, named := [("Path", s "/p/{a}")] } [pathDir 71]
private def M6 : BTree := .node { kind := .Get, id := 72, src := 6, named := [("Path", s "/q/{a}")] } [pathDir 73]
/-- a third method block with the IDENTITY of the first -/
private def M5' : BTree := .node { kind := .Get, id := 70, src := 5, named := [("Path", s "/r/{a}")] } [pathDir 75]
private def M7 : BTree := .node { kind := .Get, id := 74, src := 7, named := [("Path", s "/r/{a}")] } [pathDir 75]

private def okIs (r : R (List Nat)) (l : List Nat) : Bool := match r with | .ok x => x == l | .error _ => false
private def errIs (r : R (List Nat)) (e : BErr) : Bool := match r with | .error x => x == e | .ok _ => false

/-- distinct identities, two interaction blocks with Path directives, accepted in both orders — and the Path
directives are really walked (each block adds its identity to the state) -/
example : (idsF ([J] ++ M5 :: M6 :: [M7])).Nodup ∧ idsF [J, M5, M6, M7] = [1, 70, 71, 72, 73, 74, 75] ∧
    C10I.isInterBlock' M5 = true ∧ C10I.isInterBlock' M6 = true ∧
    C10I.noPathTree M5 = false ∧ C10I.noPathTree M6 = false ∧
    okIs (pathsForest [] [J, M5, M6] []) [72, 70] = true ∧ okIs (pathsForest [] [J, M6, M5] []) [70, 72] = true ∧
    parF [] [J, M5, M6] = [72, 70] ∧ okF [] [J, M5, M6] = true ∧
    (compile [] [J, M5, M6, M7]).isOk = true ∧ (compile [] [J, M6, M5, M7]).isOk = true := by decide +kernel

/-- the same by the theorem -/
example : ∃ c c', compile [] [J, M5, M6, M7] = .ok c ∧ compile [] [J, M6, M5, M7] = .ok c' ∧
    C10I.SameUpToOrder' c c' := by
  have h : (compile [] [J, M5, M6, M7]).isOk = true := by decide +kernel
  cases hc : compile [] [J, M5, M6, M7] with
  | error e => rw [hc] at h; cases h
  | ok c =>
    obtain ⟨c', h', hs⟩ := swap_inter' [] [J] [M7] M5 M6 (by decide +kernel) (by decide +kernel) (by simp) c hc
    exact ⟨c, c', rfl, h', hs⟩

/-- two directives with one identity (the shape of the former counterexample `C10I.path_stage_order_matters`): `Nodup`
fails, and since F76 both orders are rejected — at the same directive -/
example : ¬ (idsF ([J, M5] ++ M6 :: M5' :: [])).Nodup ∧ ¬ (idsF ([J, M5] ++ M5' :: M6 :: [])).Nodup ∧
    errIs (pathsForest [] ([J, M5] ++ M6 :: M5' :: []) []) ⟨75, .notUnique⟩ = true ∧
    errIs (pathsForest [] ([J, M5] ++ M5' :: M6 :: []) []) ⟨75, .notUnique⟩ = true := by decide +kernel

private def resp (id : Nat) : BTree :=
  .node { kind := .HTTPResponseCode, id := id, src := id, keyword := s "200", body := some (s "any") } []
/-- `URL /a/{x}/{y}/{z}` with `Path {x}`, `GET` (with `Path {y}` and `200 any`), and — when `second` — `Path {z}` -/
private def U (second : Bool) : BTree :=
  .node { kind := .URL, id := 10, src := 10, named := [("Path", s "/a/{x}/{y}/{z}")] }
    ([pathDir 11, .node { kind := .Get, id := 12, src := 12 } [pathDir 13, resp 14]] ++
      if second then [pathDir 15] else [])

/-- F76: the second Path directive of the URL is refused although the Path directive of the nested GET stands
between the two (before the repair the stage remembered the parent 12 of the Path directive 13 only, and accepted);
without the second directive the document is accepted -/
example : errIs (pathsForest [] [J, U true] []) ⟨15, .notUnique⟩ = true ∧
    C10B.errIs (compile [] [J, U true]) ⟨15, .notUnique⟩ = true ∧
    okIs (pathsForest [] [J, U false] []) [12, 10] = true ∧ (compile [] [J, U false]).isOk = true := by decide +kernel

/-- the same refusal by the theorem -/
example : (pathsForest [] [J, U true] []).isOk = false :=
  two_paths_refused [J, U true] { kind := .URL, id := 10, src := 10, named := [("Path", s "/a/{x}/{y}/{z}")] } []
    [.node { kind := .Get, id := 12, src := 12 } [pathDir 13, resp 14]] []
    (pathDir 11) (pathDir 15) (by simp [nodesF, nodesT, U, J]) rfl rfl

end JSight.C10P
