import JSight.Props.C15
import JSight.Proofs.ScanAnnot
/-!
C15 (scanner part) — an annotation is the same text in the `// …` and the `/* … */` spelling.

`Props/C15.lean` is about the pure normalisation `Descr.annotation`.  Here the run of the scanner model
(`byteStep` … `lexAll` / `scanFile` over the regenerated table `Gen.code`) is connected to it: after the keyword
or a parameter of a directive (the scanner is in `stateParameterOrAnnotation`, the state to return to is on the
step stack), for EVERY text `t`, EVERY oracle, EVERY step stack / open events / earlier parameters:

* **block** (`block_annotation_anywhere`, `…_adjacent`, `…_file`, `…_after_param`): if `t` has no NUL byte and does
  not contain `*/` (`NoClose t`), then `/*` ++ t ++ `*/` yields ONE Annotation lexeme `[b, b + |t|)` where `b` is the
  position of the first byte of `t`, and `d.slice b (b + |t|) = t`; the scanner continues in the state popped from
  the step stack, right after the closing `/`.
  Nothing else is needed: `t` may be EMPTY (`/**/`: the empty lexeme `[b, b)` IS emitted, `AnnotationBegin` at the
  closing `*` and `AnnotationEnd` one byte before it), may BEGIN with `/` (`/*/ x*/`: the table's
  `stateMultilineAnnotationTextStart` consumes the first byte of the text without the `prevIsStar` test, so the
  `*` of `/*` does not pair with it — `block_first_byte`), and may END with `*` (`/* a **/` has the text ` a *`:
  `stateMultilineAnnotation` tests the byte BEFORE the `/` (`block_close`), not a one-`*`-seen state).
* **line** (`line_annotation_anywhere`, `…_adjacent`, `…_file`, `…_after_param`): if `t` has no NUL, no line end
  (10, 13) and no `#` (35: `#` ends the annotation and starts a comment — `line_hash_ends`), then `//` ++ t ++ [line
  end] yields ONE Annotation lexeme `[b, b + |t|)` with `d.slice b (b + |t|) = t`.  Leading blanks BELONG to the
  lexeme (`stateAnnotationTextStart` marks the first byte after `//` unconditionally); an EMPTY `//` annotation
  emits the empty lexeme `[b, b)` as well.  The line end is handed to the popped state `s`; the theorems need that
  `s` skips a line end (`hs`; `line_states`: true for `stateExpectKeyword` and six other pushed states), and then the
  scanner continues in `s` right after the line end.
* `annotation_spellings_agree…`: both lexemes are the bytes `t`, so `Descr.annotation` of both is the same; in the
  usual spellings `/* s */` and `// s` the texts differ by the blank before `*/`, and `annotation` removes it.

Conventions: a lexeme is `[b, e1)` (`e1` = Go's `end + 1`); `At d p l`: the file holds `l` at `p`; `Holds d c`: the
file is `c`.  Method: `Proofs/ScanAnnot.lean` (one-byte-step facts by `simp [code, …]` on the states involved, i.e.
re-checked against the regenerated table on every run, then inductions along the text).
-/
namespace JSight.C15S
open JSight JSight.Gen JSight.ScanParam JSight.ScanAnnot

/-- the text does not contain the two bytes `*/` -/
def NoClose (t : Bytes) : Prop := ∀ a b, t ≠ a ++ 42 :: 47 :: b

theorem noClose_iff (t : Bytes) : NoClose t ↔ hasClose t = false := (hasClose_false_iff t).symm

instance (t : Bytes) : Decidable (NoClose t) := decidable_of_iff _ (noClose_iff t).symm

/-- a text that ends with `*` (and has no `*/` before) is fine -/
theorem noClose_append_star (t : Bytes) (h : NoClose t) : NoClose (t ++ [42]) := by
  rw [noClose_iff, hasClose_append_star, ← noClose_iff]; exact h

/-! ## what ONE byte does inside a block annotation (facts about the table) -/

section one_byte
variable (d : Src) (o : Oracle) (stk : List St) (es : List (Ev × Nat)) (lp : List (Nat × Nat)) (p : Nat)

/-- the first byte after `/*` — ANY byte but NUL, `/` included: `AnnotationBegin` is found at it and it is consumed
(no `prevIsStar` test here: `/*/` does not close) -/
theorem block_first_byte (hp : p < d.size) (h0 : d.get p ≠ 0) :
    byteStep d o (cfg .stateMultilineAnnotationTextStart stk es lp p) =
      .ok ⟨.stateMultilineAnnotation, stk, [(.annotationBegin, p)], es, lp, p + 1, 0⟩ :=
  stepMTS d o stk es lp p hp h0

/-- a byte other than `/` (a `*` for instance) is consumed -/
theorem block_plain (hp : p < d.size) (h : d.get p ≠ 0 ∧ d.get p ≠ 47) :
    byteStep d o (cfg .stateMultilineAnnotation stk es lp p) = .ok (cfg .stateMultilineAnnotation stk es lp (p + 1)) :=
  stepM_plain d o stk es lp p hp h.1 h.2

/-- a `/` whose previous byte is not `*` is consumed -/
theorem block_slash_not_after_star (hp : p + 1 < d.size) (h : d.get (p + 1) = 47) (hprev : d.get p ≠ 42) :
    byteStep d o (cfg .stateMultilineAnnotation stk es lp (p + 1)) =
      .ok (cfg .stateMultilineAnnotation stk es lp (p + 2)) :=
  stepM_slash_no d o stk es lp p hp h hprev

/-- a `/` whose previous byte is `*` closes: `AnnotationEnd` is found two bytes back (the byte before the `*`,
whatever it is — also a `*`), the state is popped from the step stack, the `/` is consumed -/
theorem block_close (s : St) (hp : p + 2 < d.size) (h : d.get (p + 2) = 47) (hprev : d.get (p + 1) = 42) :
    byteStep d o (cfg .stateMultilineAnnotation (s :: stk) es lp (p + 2)) =
      .ok ⟨s, stk, [(.annotationEnd, p)], es, lp, p + 3, 0⟩ :=
  stepM_close d o stk es lp p s hp h hprev

/-- an unterminated block annotation: error at the end of the file -/
theorem block_end_of_file (hp : p = d.size) :
    byteStep d o (cfg .stateMultilineAnnotation stk es lp p) = .error (.diag p) :=
  stepM_eof d o stk es lp p hp

/-- **the invariant of the block**: a text without NUL in which no `/` follows a `*` — the byte `prev` just before
the text counts — is consumed entirely; state, step stack, open events, parameters, queue (empty) are unchanged -/
theorem block_accepts (t : Bytes) (prev : UInt8) (fuel : Nat) (ht : ∀ c ∈ t, c ≠ 0) (hcl : NoClose (prev :: t))
    (hprev : d.get p = prev) (hat : At d (p + 1) t) :
    byteLoop d o (fuel + t.length) (cfg .stateMultilineAnnotation stk es lp (p + 1)) =
      byteLoop d o fuel (cfg .stateMultilineAnnotation stk es lp (p + 1 + t.length)) :=
  loopM d o stk es lp t prev p fuel ht ((noClose_iff _).mp hcl) hprev hat

/-- in a line annotation `#` ends the text (`AnnotationEnd` one byte back) and starts a comment -/
theorem line_hash_ends (hp : p + 1 < d.size) (h : d.get (p + 1) = 35) :
    byteStep d o (cfg .stateAnnotation stk es lp (p + 1)) =
      .ok ⟨.stateSingleComment, stk, [(.annotationEnd, p)], es, lp, p + 2, 0⟩ :=
  stepA_hash d o stk es lp p hp h

end one_byte

/-- the states pushed by a keyword that skip a line end: for these the line spelling continues in the popped
state right after the line end (the other pushed states — `stateBodyBodyOrKeyword`, `stateJSchema`, … — act on it) -/
theorem line_states (s : St)
    (h : s ∈ [St.stateExpectKeyword, .stateEnumBody, .stateHeaderBody, .stateParamsBody, .statePathBody,
      .stateQueryBodyOrKeyword, .stateResultBody]) (e : UInt8) (he : e = 10 ∨ e = 13) :
    ∀ ev, (code s).select e ev = ([], .done) :=
  skips_eol s h e he

/-- where the text is -/
theorem at_text {d : Src} {p : Nat} {sp x y : UInt8} {ws t rest : Bytes}
    (hat : At d p (sp :: (ws ++ x :: y :: (t ++ rest)))) : At d (p + 1 + ws.length + 2) t := by
  have e : sp :: (ws ++ x :: y :: (t ++ rest)) = (sp :: (ws ++ [x, y])) ++ (t ++ rest) := by simp
  rw [e] at hat
  have h := (At.append (At.append hat).2).1
  have e2 : p + (sp :: (ws ++ [x, y])).length = p + 1 + ws.length + 2 := by
    simp only [List.length_append, List.length_cons, List.length_nil]; omega
  rwa [e2] at h

/-! ## (1) the block spelling -/

/-- **C15S.block_annotation_anywhere** — after ANY keyword or parameter (the scanner is in
`stateParameterOrAnnotation` with an empty queue; the state `s` to return to is on top of the step stack; the rest of
the stack, the open events and the earlier parameters are arbitrary): a blank, further blanks, `/*`, a text `t`
without NUL and without `*/`, then `*/` yield, in one `Next`, the Annotation lexeme `[b, b + |t|)`, `b` the position
of the first byte of `t`; its bytes are `t`; the scanner is in `s`, right after the closing `/`. -/
theorem block_annotation_anywhere (d : Src) (o : Oracle) (s : St) (stk : List St) (es : List (Ev × Nat))
    (lp : List (Nat × Nat)) (sp : UInt8) (ws t : Bytes) (p fuel b : Nat)
    (ht : ∀ c ∈ t, c ≠ 0) (hcl : NoClose t) (hsp : sp = 32 ∨ sp = 9) (hws : ∀ w ∈ ws, w = 32 ∨ w = 9)
    (hat : At d p (sp :: (ws ++ 47 :: 42 :: (t ++ [42, 47])))) (hb : b = p + 1 + ws.length + 2)
    (hfuel : ws.length + t.length + 6 ≤ fuel) :
    next d o fuel (cfg .stateParameterOrAnnotation (s :: stk) es lp p) =
      .ok (some ⟨.annotation, b, b + t.length⟩, cfg s stk es lp (b + t.length + 2)) ∧
    d.slice b (b + t.length) = t := by
  subst hb
  refine ⟨?_, At.slice (at_text hat)⟩
  obtain ⟨f, hf⟩ := fuel_split (F := fuel) (k := 1 + t.length + 2 + 1 + ws.length + 1) (by omega)
  rw [hf, next_cfg]
  simp only [← Nat.add_assoc]
  exact block_byteLoop d o s stk es lp sp ws t p f hsp hws ht ((noClose_iff t).mp hcl) hat

/-- the same with no blank in front (`GET "x"/* … */`) -/
theorem block_annotation_adjacent (d : Src) (o : Oracle) (s : St) (stk : List St) (es : List (Ev × Nat))
    (lp : List (Nat × Nat)) (t : Bytes) (p fuel : Nat) (ht : ∀ c ∈ t, c ≠ 0) (hcl : NoClose t)
    (hat : At d p (47 :: 42 :: (t ++ [42, 47]))) (hfuel : t.length + 4 ≤ fuel) :
    next d o fuel (cfg .stateParameterOrAnnotation (s :: stk) es lp p) =
      .ok (some ⟨.annotation, p + 2, p + 2 + t.length⟩, cfg s stk es lp (p + 2 + t.length + 2)) ∧
    d.slice (p + 2) (p + 2 + t.length) = t := by
  refine ⟨?_, At.slice (At.append (a := t) hat.2.2.2.2).1⟩
  obtain ⟨f, hf⟩ := fuel_split (F := fuel) (k := 1 + t.length + 2 + 1) (by omega)
  rw [hf, next_cfg]
  simp only [← Nat.add_assoc]
  exact block_byteLoop0 d o s stk es lp t p f ht ((noClose_iff t).mp hcl) hat

/-- the EMPTY block annotation `/**/`: the empty Annotation lexeme `[b, b)` at the closing `*` is emitted -/
theorem block_annotation_empty (d : Src) (o : Oracle) (s : St) (stk : List St) (es : List (Ev × Nat))
    (lp : List (Nat × Nat)) (p fuel : Nat) (hat : At d p [32, 47, 42, 42, 47]) (hfuel : 6 ≤ fuel) :
    next d o fuel (cfg .stateParameterOrAnnotation (s :: stk) es lp p) =
      .ok (some ⟨.annotation, p + 3, p + 3⟩, cfg s stk es lp (p + 5)) :=
  (block_annotation_anywhere d o s stk es lp 32 [] [] p fuel (p + 3) (by simp) (by decide) (Or.inl rfl) (by simp)
    hat rfl (by simpa using hfuel)).1

/-- **C15S.block_annotation_file** — the file `GET`, a blank, blanks, `/*` ++ t ++ `*/`, a line end: for every
oracle the run ends cleanly with exactly the Keyword lexeme and the Annotation lexeme whose bytes are `t` -/
theorem block_annotation_file (t : Bytes) (ht : ∀ c ∈ t, c ≠ 0) (hcl : NoClose t) (o : Oracle) (d : Src)
    (sp : UInt8) (ws : Bytes) (e : UInt8) (hsp : sp = 32 ∨ sp = 9) (hws : ∀ w ∈ ws, w = 32 ∨ w = 9)
    (he : e = 10 ∨ e = 13) (b : Nat) (hb : b = 4 + ws.length + 2)
    (hH : Holds d ([71, 69, 84] ++ (sp :: (ws ++ 47 :: 42 :: (t ++ [42, 47, e]))))) :
    lexAll d o (d.size + 2) Sc.init [] =
      ([⟨.keyword, 0, 3⟩, ⟨.annotation, b, b + t.length⟩], none, cfg .stateExpectKeyword [] [] [] (d.size + 1)) ∧
    d.slice b (b + t.length) = t := by
  subst hb
  refine ⟨get_block d o sp ws t e hsp hws he ht ((noClose_iff t).mp hcl) hH, ?_⟩
  have hat : At d 3 (sp :: (ws ++ 47 :: 42 :: (t ++ [42, 47, e]))) := at_of_holds _ [71, 69, 84] [] (by simpa using hH)
  have h := At.slice (at_text hat)
  have e4 : 3 + 1 + ws.length = 4 + ws.length := by omega
  rwa [e4] at h

/-- **C15S.block_annotation_after_param** — `GET "<v>" /*` ++ t ++ `*/⏎`: Keyword, the Parameter, and the
Annotation lexeme whose bytes are `t` -/
theorem block_annotation_after_param (v t : Bytes) (hv : ∀ c ∈ v, c ≠ 10 ∧ c ≠ 13 ∧ c ≠ 0) (ht : ∀ c ∈ t, c ≠ 0)
    (hcl : NoClose t) (o : Oracle) (d : Src) (b : Nat) (hb : b = 4 + (quoteParam v).length + 3)
    (hH : Holds d ([71, 69, 84, 32] ++ quoteParam v ++ [32, 47, 42] ++ t ++ [42, 47, 10])) :
    lexAll d o (d.size + 2) Sc.init [] =
      ([⟨.keyword, 0, 3⟩, ⟨.parameter, 4, 4 + (quoteParam v).length⟩, ⟨.annotation, b, b + t.length⟩], none,
        cfg .stateExpectKeyword [] [] [(4, 4 + (quoteParam v).length)] (d.size + 1)) ∧
    d.slice b (b + t.length) = t := by
  have hH' : Holds d (([71, 69, 84] ++ (32 :: ([] ++ quoteParam v))) ++
      (32 :: ([] ++ 47 :: 42 :: (t ++ [42, 47, 10]))) ++ []) := by simpa using hH
  refine ⟨get_quoted_block d o 32 [] t 10 (Or.inl rfl) (by simp) (Or.inl rfl) v 32 [] hv (Or.inl rfl) (by simp)
    ht ((noClose_iff t).mp hcl) 4 b rfl (by simpa using hb) hH', ?_⟩
  have h := at_of_holds t ([71, 69, 84, 32] ++ quoteParam v ++ [32, 47, 42]) [42, 47, 10] hH
  have e : ([71, 69, 84, 32] ++ quoteParam v ++ [32, 47, 42]).length = b := by
    rw [hb]; simp only [List.length_append, List.length_cons, List.length_nil]
  rw [e] at h
  exact At.slice h

/-! ## (2) the line spelling -/

/-- **C15S.line_annotation_anywhere** — after ANY keyword or parameter, the state `s` to return to on top of the
step stack, `s` skipping a line end (`hs`, see `line_states`): a blank, further blanks, `//`, a text `t` without NUL,
line ends and `#`, then a line end yield, in one `Next`, the Annotation lexeme `[b, b + |t|)`, `b` the position right
after `//` (leading blanks of the text belong to the lexeme; for the empty text the lexeme is `[b, b)`); its bytes
are `t`; the scanner is in `s`, right after the line end. -/
theorem line_annotation_anywhere (d : Src) (o : Oracle) (s : St) (stk : List St) (es : List (Ev × Nat))
    (lp : List (Nat × Nat)) (sp : UInt8) (ws t : Bytes) (e : UInt8) (p fuel b : Nat)
    (ht : ∀ c ∈ t, c ≠ 0 ∧ c ≠ 10 ∧ c ≠ 13 ∧ c ≠ 35) (hsp : sp = 32 ∨ sp = 9) (hws : ∀ w ∈ ws, w = 32 ∨ w = 9)
    (he : e = 10 ∨ e = 13) (hs : ∀ ev, (code s).select e ev = ([], .done))
    (hat : At d p (sp :: (ws ++ 47 :: 47 :: (t ++ [e])))) (hb : b = p + 1 + ws.length + 2)
    (hfuel : ws.length + t.length + 5 ≤ fuel) :
    next d o fuel (cfg .stateParameterOrAnnotation (s :: stk) es lp p) =
      .ok (some ⟨.annotation, b, b + t.length⟩, cfg s stk es lp (b + t.length + 1)) ∧
    d.slice b (b + t.length) = t := by
  subst hb
  refine ⟨?_, At.slice (at_text hat)⟩
  obtain ⟨f, hf⟩ := fuel_split (F := fuel) (k := 1 + t.length + 1 + 1 + ws.length + 1) (by omega)
  rw [hf, next_cfg]
  simp only [← Nat.add_assoc]
  exact line_byteLoop d o s stk es lp sp ws t e p f hsp hws ht he hs hat

/-- the same with no blank in front (`GET "x"// …`) -/
theorem line_annotation_adjacent (d : Src) (o : Oracle) (s : St) (stk : List St) (es : List (Ev × Nat))
    (lp : List (Nat × Nat)) (t : Bytes) (e : UInt8) (p fuel : Nat)
    (ht : ∀ c ∈ t, c ≠ 0 ∧ c ≠ 10 ∧ c ≠ 13 ∧ c ≠ 35) (he : e = 10 ∨ e = 13)
    (hs : ∀ ev, (code s).select e ev = ([], .done))
    (hat : At d p (47 :: 47 :: (t ++ [e]))) (hfuel : t.length + 3 ≤ fuel) :
    next d o fuel (cfg .stateParameterOrAnnotation (s :: stk) es lp p) =
      .ok (some ⟨.annotation, p + 2, p + 2 + t.length⟩, cfg s stk es lp (p + 2 + t.length + 1)) ∧
    d.slice (p + 2) (p + 2 + t.length) = t := by
  refine ⟨?_, At.slice (At.append (a := t) hat.2.2.2.2).1⟩
  obtain ⟨f, hf⟩ := fuel_split (F := fuel) (k := 1 + t.length + 1 + 1) (by omega)
  rw [hf, next_cfg]
  simp only [← Nat.add_assoc]
  exact line_byteLoop0 d o s stk es lp t e p f ht he hs hat

/-- the EMPTY line annotation `//⏎`: the empty Annotation lexeme `[b, b)` at the line end is emitted -/
theorem line_annotation_empty (d : Src) (o : Oracle) (stk : List St) (es : List (Ev × Nat))
    (lp : List (Nat × Nat)) (p fuel : Nat) (hat : At d p [32, 47, 47, 10]) (hfuel : 5 ≤ fuel) :
    next d o fuel (cfg .stateParameterOrAnnotation (.stateExpectKeyword :: stk) es lp p) =
      .ok (some ⟨.annotation, p + 3, p + 3⟩, cfg .stateExpectKeyword stk es lp (p + 4)) :=
  (line_annotation_anywhere d o .stateExpectKeyword stk es lp 32 [] [] 10 p fuel (p + 3) (by simp) (Or.inl rfl)
    (by simp) (Or.inl rfl) (ek_eol 10 (Or.inl rfl)) hat rfl (by simpa using hfuel)).1

/-- **C15S.line_annotation_file** — the file `GET`, a blank, blanks, `//` ++ t, a line end: for every oracle the run
ends cleanly with exactly the Keyword lexeme and the Annotation lexeme whose bytes are `t` -/
theorem line_annotation_file (t : Bytes) (ht : ∀ c ∈ t, c ≠ 0 ∧ c ≠ 10 ∧ c ≠ 13 ∧ c ≠ 35) (o : Oracle) (d : Src)
    (sp : UInt8) (ws : Bytes) (e : UInt8) (hsp : sp = 32 ∨ sp = 9) (hws : ∀ w ∈ ws, w = 32 ∨ w = 9)
    (he : e = 10 ∨ e = 13) (b : Nat) (hb : b = 4 + ws.length + 2)
    (hH : Holds d ([71, 69, 84] ++ (sp :: (ws ++ 47 :: 47 :: (t ++ [e]))))) :
    lexAll d o (d.size + 2) Sc.init [] =
      ([⟨.keyword, 0, 3⟩, ⟨.annotation, b, b + t.length⟩], none, cfg .stateExpectKeyword [] [] [] (d.size + 1)) ∧
    d.slice b (b + t.length) = t := by
  subst hb
  refine ⟨get_line d o sp ws t e hsp hws he ht hH, ?_⟩
  have hat : At d 3 (sp :: (ws ++ 47 :: 47 :: (t ++ [e]))) := at_of_holds _ [71, 69, 84] [] (by simpa using hH)
  have h := At.slice (at_text hat)
  have e4 : 3 + 1 + ws.length = 4 + ws.length := by omega
  rwa [e4] at h

/-- **C15S.line_annotation_after_param** — `GET "<v>" //` ++ t ++ `⏎`: Keyword, the Parameter, and the Annotation
lexeme whose bytes are `t` (this is `C17S.quoted_param_then_annotation` without "non-empty") -/
theorem line_annotation_after_param (v t : Bytes) (hv : ∀ c ∈ v, c ≠ 10 ∧ c ≠ 13 ∧ c ≠ 0)
    (ht : ∀ c ∈ t, c ≠ 0 ∧ c ≠ 10 ∧ c ≠ 13 ∧ c ≠ 35) (o : Oracle) (d : Src) (b : Nat)
    (hb : b = 4 + (quoteParam v).length + 3)
    (hH : Holds d ([71, 69, 84, 32] ++ quoteParam v ++ [32, 47, 47] ++ t ++ [10])) :
    lexAll d o (d.size + 2) Sc.init [] =
      ([⟨.keyword, 0, 3⟩, ⟨.parameter, 4, 4 + (quoteParam v).length⟩, ⟨.annotation, b, b + t.length⟩], none,
        cfg .stateExpectKeyword [] [] [(4, 4 + (quoteParam v).length)] (d.size + 1)) ∧
    d.slice b (b + t.length) = t := by
  have hH' : Holds d (([71, 69, 84] ++ (32 :: ([] ++ quoteParam v))) ++
      (32 :: ([] ++ 47 :: 47 :: (t ++ [10]))) ++ []) := by simpa using hH
  refine ⟨get_quoted_line d o 32 [] t 10 (Or.inl rfl) (by simp) (Or.inl rfl) v 32 [] hv (Or.inl rfl) (by simp)
    ht 4 b rfl (by simpa using hb) hH', ?_⟩
  have h := at_of_holds t ([71, 69, 84, 32] ++ quoteParam v ++ [32, 47, 47]) [10] hH
  have e : ([71, 69, 84, 32] ++ quoteParam v ++ [32, 47, 47]).length = b := by
    rw [hb]; simp only [List.length_append, List.length_cons, List.length_nil]
  rw [e] at h
  exact At.slice h

/-! ## (3) the two spellings agree -/

/-- **C15S.annotation_spellings_agree** — the files `GET /*` ++ t ++ `*/⏎` and `GET //` ++ t ++ `⏎`, `t` without
NUL, line ends, `#` and `*/`: the two runs deliver THE SAME lexemes (same kinds, same offsets), the bytes of the two
Annotation lexemes are the same text `t`, hence the catalog annotations (`Descr.annotation`) are equal -/
theorem annotation_spellings_agree (t : Bytes) (ht : ∀ c ∈ t, c ≠ 0 ∧ c ≠ 10 ∧ c ≠ 13 ∧ c ≠ 35) (hcl : NoClose t)
    (o1 o2 : Oracle) (d1 d2 : Src)
    (hH1 : Holds d1 ([71, 69, 84, 32, 47, 42] ++ t ++ [42, 47, 10]))
    (hH2 : Holds d2 ([71, 69, 84, 32, 47, 47] ++ t ++ [10])) :
    (lexAll d1 o1 (d1.size + 2) Sc.init []).1 = [⟨.keyword, 0, 3⟩, ⟨.annotation, 6, 6 + t.length⟩] ∧
    (lexAll d2 o2 (d2.size + 2) Sc.init []).1 = [⟨.keyword, 0, 3⟩, ⟨.annotation, 6, 6 + t.length⟩] ∧
    (lexAll d1 o1 (d1.size + 2) Sc.init []).2.1 = none ∧ (lexAll d2 o2 (d2.size + 2) Sc.init []).2.1 = none ∧
    d1.slice 6 (6 + t.length) = t ∧ d2.slice 6 (6 + t.length) = t ∧
    annotation (d1.slice 6 (6 + t.length)) = annotation (d2.slice 6 (6 + t.length)) := by
  have h1 := block_annotation_file t (fun c hc => (ht c hc).1) hcl o1 d1 32 [] 10 (Or.inl rfl) (by simp) (Or.inl rfl)
    6 rfl (by simpa using hH1)
  have h2 := line_annotation_file t ht o2 d2 32 [] 10 (Or.inl rfl) (by simp) (Or.inl rfl) 6 rfl (by simpa using hH2)
  refine ⟨by rw [h1.1], by rw [h2.1], by rw [h1.1], by rw [h2.1], h1.2, h2.2, by rw [h1.2, h2.2]⟩

/-- the same anywhere (two files, two configurations after a keyword or a parameter, two oracles): whatever the
positions, the bytes of the two Annotation lexemes are the same text, and so are the catalog annotations -/
theorem annotation_spellings_agree_anywhere (t : Bytes) (ht : ∀ c ∈ t, c ≠ 0 ∧ c ≠ 10 ∧ c ≠ 13 ∧ c ≠ 35)
    (hcl : NoClose t) (d1 d2 : Src) (o1 o2 : Oracle) (s1 s2 : St) (stk1 stk2 : List St) (es1 es2 : List (Ev × Nat))
    (lp1 lp2 : List (Nat × Nat)) (sp1 sp2 : UInt8) (ws1 ws2 : Bytes) (e : UInt8) (p1 p2 : Nat)
    (hsp1 : sp1 = 32 ∨ sp1 = 9) (hws1 : ∀ w ∈ ws1, w = 32 ∨ w = 9)
    (hsp2 : sp2 = 32 ∨ sp2 = 9) (hws2 : ∀ w ∈ ws2, w = 32 ∨ w = 9)
    (he : e = 10 ∨ e = 13) (hs : ∀ ev, (code s2).select e ev = ([], .done))
    (hat1 : At d1 p1 (sp1 :: (ws1 ++ 47 :: 42 :: (t ++ [42, 47]))))
    (hat2 : At d2 p2 (sp2 :: (ws2 ++ 47 :: 47 :: (t ++ [e])))) :
    ∃ l1 l2 : Lexeme,
      next d1 o1 (4 * (d1.size + 2)) (cfg .stateParameterOrAnnotation (s1 :: stk1) es1 lp1 p1) =
        .ok (some l1, cfg s1 stk1 es1 lp1 (l1.e1 + 2)) ∧
      next d2 o2 (4 * (d2.size + 2)) (cfg .stateParameterOrAnnotation (s2 :: stk2) es2 lp2 p2) =
        .ok (some l2, cfg s2 stk2 es2 lp2 (l2.e1 + 1)) ∧
      l1.ty = .annotation ∧ l2.ty = .annotation ∧
      d1.slice l1.b l1.e1 = t ∧ d2.slice l2.b l2.e1 = t ∧
      annotation (d1.slice l1.b l1.e1) = annotation (d2.slice l2.b l2.e1) := by
  have hl1 := At.le hat1 (Nat.le_of_lt hat1.1)
  have hl2 := At.le hat2 (Nat.le_of_lt hat2.1)
  simp only [List.length_append, List.length_cons, List.length_nil] at hl1 hl2
  have h1 := block_annotation_anywhere d1 o1 s1 stk1 es1 lp1 sp1 ws1 t p1 (4 * (d1.size + 2)) _
    (fun c hc => (ht c hc).1) hcl hsp1 hws1 hat1 rfl (by omega)
  have h2 := line_annotation_anywhere d2 o2 s2 stk2 es2 lp2 sp2 ws2 t e p2 (4 * (d2.size + 2)) _
    ht hsp2 hws2 he hs hat2 rfl (by omega)
  exact ⟨_, _, h1.1, h2.1, rfl, rfl, h1.2, h2.2, by rw [h1.2, h2.2]⟩

/-- a white-space sequence in front of the text is immaterial for the catalog annotation -/
theorem annotation_leading_space (p s : Bytes) (hp : p ∈ spaceSeqs) : annotation (p ++ s) = annotation s := by
  unfold annotation trimSpaceU
  rw [C15.trimLeftU_seq p s hp]

/-- **the usual spellings** `GET /* s */⏎` and `GET // s⏎`: the two Annotation lexemes are ` s ` and ` s` — they
differ by the blank before `*/` — and the catalog annotations are equal (both are `annotation s`) -/
theorem annotation_usual_spellings_agree (s : Bytes) (hs : ∀ c ∈ s, c ≠ 0 ∧ c ≠ 10 ∧ c ≠ 13 ∧ c ≠ 35)
    (hcl : NoClose (32 :: (s ++ [32]))) (o1 o2 : Oracle) (d1 d2 : Src)
    (hH1 : Holds d1 ([71, 69, 84, 32, 47, 42, 32] ++ s ++ [32, 42, 47, 10]))
    (hH2 : Holds d2 ([71, 69, 84, 32, 47, 47, 32] ++ s ++ [10])) :
    (lexAll d1 o1 (d1.size + 2) Sc.init []).1 = [⟨.keyword, 0, 3⟩, ⟨.annotation, 6, 6 + (s.length + 2)⟩] ∧
    (lexAll d2 o2 (d2.size + 2) Sc.init []).1 = [⟨.keyword, 0, 3⟩, ⟨.annotation, 6, 6 + (s.length + 1)⟩] ∧
    d1.slice 6 (6 + (s.length + 2)) = 32 :: (s ++ [32]) ∧ d2.slice 6 (6 + (s.length + 1)) = 32 :: s ∧
    annotation (d1.slice 6 (6 + (s.length + 2))) = annotation s ∧
    annotation (d2.slice 6 (6 + (s.length + 1))) = annotation s := by
  have ht1 : ∀ c ∈ 32 :: (s ++ [32]), c ≠ 0 := by
    intro c hc
    simp only [List.mem_cons, List.mem_append, List.mem_nil_iff, or_false] at hc
    rcases hc with hc | hc | hc
    · rw [hc]; decide
    · exact (hs c hc).1
    · rw [hc]; decide
  have ht2 : ∀ c ∈ 32 :: s, c ≠ 0 ∧ c ≠ 10 ∧ c ≠ 13 ∧ c ≠ 35 := by
    intro c hc
    simp only [List.mem_cons] at hc
    rcases hc with hc | hc
    · rw [hc]; decide
    · exact hs c hc
  have h1 := block_annotation_file (32 :: (s ++ [32])) ht1 hcl o1 d1 32 [] 10 (Or.inl rfl) (by simp) (Or.inl rfl)
    6 rfl (by simpa using hH1)
  have h2 := line_annotation_file (32 :: s) ht2 o2 d2 32 [] 10 (Or.inl rfl) (by simp) (Or.inl rfl) 6 rfl
    (by simpa using hH2)
  have l1 : (32 :: (s ++ [32])).length = s.length + 2 := by simp
  have l2 : (32 :: s).length = s.length + 1 := by simp
  rw [l1] at h1
  rw [l2] at h2
  refine ⟨by rw [h1.1], by rw [h2.1], h1.2, h2.2, ?_, ?_⟩
  · rw [h1.2]; exact C15.annotation_surrounding_blanks s
  · rw [h2.2]; exact annotation_leading_space [32] s (by decide)

/-! ## (4) non-vacuity: concrete files through `scanFile` (kernel evaluation of the model over the table) -/

/-- no oracle answer is needed for these files -/
abbrev noOracle : Oracle := ⟨fun _ => .miss, fun _ => .miss⟩

-- `GET /a /* list **/`: the text is ` list *` = `[9, 16)` (the text ends with `*`)
example : (scanFile "GET /a /* list **/".toUTF8.toList noOracle).1 =
      [⟨.keyword, 0, 3⟩, ⟨.parameter, 4, 6⟩, ⟨.annotation, 9, 16⟩] ∧
    (scanFile "GET /a /* list **/".toUTF8.toList noOracle).2.1 = none ∧
    (Src.ofList "GET /a /* list **/".toUTF8.toList).slice 9 16 = " list *".toUTF8.toList := by
  decide +kernel
-- `GET /a // list`: the text is ` list` = `[9, 14)` (the leading blank belongs to the lexeme); end of file ends it
example : (scanFile "GET /a // list".toUTF8.toList noOracle).1 =
      [⟨.keyword, 0, 3⟩, ⟨.parameter, 4, 6⟩, ⟨.annotation, 9, 14⟩] ∧
    (scanFile "GET /a // list".toUTF8.toList noOracle).2.1 = none ∧
    (Src.ofList "GET /a // list".toUTF8.toList).slice 9 14 = " list".toUTF8.toList := by
  decide +kernel
-- … and the catalog annotation of both is `list *` / `list`
example : annotation " list *".toUTF8.toList = "list *".toUTF8.toList ∧
    annotation " list ".toUTF8.toList = annotation " list".toUTF8.toList := by
  decide +kernel
-- a `*` and a `/` in the middle of the text: `GET /a /* a*b / c* /d */⏎`
example : (scanFile "GET /a /* a*b / c* /d */\n".toUTF8.toList noOracle).1 =
      [⟨.keyword, 0, 3⟩, ⟨.parameter, 4, 6⟩, ⟨.annotation, 9, 22⟩] ∧
    (scanFile "GET /a /* a*b / c* /d */\n".toUTF8.toList noOracle).2.1 = none ∧
    NoClose " a*b / c* /d ".toUTF8.toList := by
  decide +kernel
-- the empty texts `/**/` and `//`: the empty lexeme `[9, 9)`; a text that begins with `/`: `/*/ x*/` is `/ x`
example : (scanFile "GET /a /**/\n".toUTF8.toList noOracle).1 =
      [⟨.keyword, 0, 3⟩, ⟨.parameter, 4, 6⟩, ⟨.annotation, 9, 9⟩] ∧
    (scanFile "GET /a //\n".toUTF8.toList noOracle).1 =
      [⟨.keyword, 0, 3⟩, ⟨.parameter, 4, 6⟩, ⟨.annotation, 9, 9⟩] ∧
    (scanFile "GET /a /*/ x*/\n".toUTF8.toList noOracle).1 =
      [⟨.keyword, 0, 3⟩, ⟨.parameter, 4, 6⟩, ⟨.annotation, 9, 12⟩] := by
  decide +kernel
-- NEGATIVE (the hypothesis `NoClose` matters): the text ` a */ b ` contains `*/`; the lexeme ends early, `[9, 12)` is
-- ` a `, and the rest of the "text" is scanned as a directive: error at the `b`
example : ¬ NoClose " a */ b ".toUTF8.toList ∧
    (scanFile "GET /a /* a */ b */\n".toUTF8.toList noOracle).1 =
      [⟨.keyword, 0, 3⟩, ⟨.parameter, 4, 6⟩, ⟨.annotation, 9, 12⟩] ∧
    (scanFile "GET /a /* a */ b */\n".toUTF8.toList noOracle).2.1 = some (.diag 15) := by
  decide +kernel
-- NEGATIVE (the hypothesis "no `#`" of the line spelling matters): `// x # c` is the text ` x ` = `[9, 12)`
example : (scanFile "GET /a // x # c\n".toUTF8.toList noOracle).1 =
      [⟨.keyword, 0, 3⟩, ⟨.parameter, 4, 6⟩, ⟨.annotation, 9, 12⟩] := by
  decide +kernel
-- the theorems apply to concrete files (instances of the hypotheses): `GET /* list **/⏎` and `GET // list *⏎`
example : (lexAll (Src.ofList ([71, 69, 84, 32, 47, 42] ++ " list *".toUTF8.toList ++ [42, 47, 10])) noOracle
      ((Src.ofList ([71, 69, 84, 32, 47, 42] ++ " list *".toUTF8.toList ++ [42, 47, 10])).size + 2) Sc.init []).1 =
      [⟨.keyword, 0, 3⟩, ⟨.annotation, 6, 6 + " list *".toUTF8.toList.length⟩] :=
  (annotation_spellings_agree " list *".toUTF8.toList (by decide +kernel) (by decide +kernel) noOracle noOracle _ _
    (holds_ofList _) (holds_ofList _)).1

end JSight.C15S
