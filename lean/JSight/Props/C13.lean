import JSight.Model.TagName
import JSight.Model.PathPar
import JSight.Model.IncName
namespace JSight.C13
end JSight.C13
