import JSight.Model.PathPar
import JSight.Proofs.C13
/-!
C13 — path parameters (`core/path_parameter.go`).  Property theorems only; helper lemmas are in
`JSight/Proofs/C13.lean`.
-/
namespace JSight.C13
open JSight

/-- components are non-empty and contain no '/' -/
theorem splitPath_components (p : Bytes) : ∀ s ∈ splitPath p, s ≠ [] ∧ B.slash ∉ s := by
  intro s hs
  unfold splitPath at hs
  rcases List.mem_filter.mp hs with ⟨hmem, hne⟩
  refine ⟨?_, splitSlash_noslash p s hmem⟩
  intro h
  subst h
  simp at hne

/-- declarative reading of the loop: the i-th segment contributes iff it is "{…}", with the prefix
    made of segments 0..i -/
theorem pathParameters_spec (p : Bytes) :
    pathParameters p =
      (List.range (splitPath p).length).filterMap fun i =>
        match (splitPath p)[i]? with
        | some seg => if isParamSeg seg then some (joinSlash ((splitPath p).take (i + 1)), paramInner seg) else none
        | none => none := by
  unfold pathParameters
  rw [loop_spec]
  congr 1

/-- the names are exactly the insides of the brace segments, in path order -/
theorem pathParameters_names (p : Bytes) :
    (pathParameters p).map (·.2) = ((splitPath p).filter isParamSeg).map paramInner :=
  loop_names [] (splitPath p)

/-- accepted iff no empty name and no repeated name; then the result is the full list -/
theorem checked_ok_iff (p : Bytes) (pp : List (Bytes × Bytes)) :
    checkedPathParameters p = .ok pp ↔
      (pp = pathParameters p ∧ (∀ x ∈ pp, x.2 ≠ []) ∧ (pp.map (·.2)).Nodup) := by
  unfold checkedPathParameters
  constructor
  · intro h
    by_cases he : hasEmptyParam (pathParameters p) = true
    · simp [he] at h
    · have he' : hasEmptyParam (pathParameters p) = false := by simpa using he
      cases hd : dupParam [] (pathParameters p) with
      | some n => simp [he', hd] at h
      | none =>
        simp [he', hd] at h
        subst h
        exact ⟨rfl, (hasEmptyParam_false_iff _).mp he', (dupParam_nil_none_iff _).mp hd⟩
  · rintro ⟨rfl, hne, hnd⟩
    have he : hasEmptyParam (pathParameters p) = false := (hasEmptyParam_false_iff _).mpr hne
    have hd : dupParam [] (pathParameters p) = none := (dupParam_nil_none_iff _).mpr hnd
    simp [he, hd]

/-- a path with an empty `{}` segment is rejected -/
theorem empty_rejected (p : Bytes) (h : [B.lbrace, B.rbrace] ∈ splitPath p) :
    checkedPathParameters p = .error .empty := by
  have hn : ([] : Bytes) ∈ (pathParameters p).map (·.2) := by
    rw [pathParameters_names]
    refine List.mem_map.mpr ⟨[B.lbrace, B.rbrace], List.mem_filter.mpr ⟨h, by decide⟩, by decide⟩
  rcases List.mem_map.mp hn with ⟨x, hx, hxe⟩
  have he : hasEmptyParam (pathParameters p) = true := by
    unfold hasEmptyParam
    exact List.any_eq_true.mpr ⟨x, hx, by rw [hxe]; rfl⟩
  unfold checkedPathParameters
  simp [he]

/-- the same parameter name twice in one path is rejected -/
theorem repeated_rejected (p : Bytes) (h : ¬ ((pathParameters p).map (·.2)).Nodup) :
    ∃ e, checkedPathParameters p = .error e := by
  cases hc : checkedPathParameters p with
  | error e => exact ⟨e, rfl⟩
  | ok pp =>
    rcases (checked_ok_iff p pp).mp hc with ⟨rfl, _, hnd⟩
    exact absurd hnd h

/-- more precisely: a repeated name in a path without empty names is reported as `dup` -/
theorem repeated_rejected_dup (p : Bytes) (hne : ∀ x ∈ pathParameters p, x.2 ≠ [])
    (h : ¬ ((pathParameters p).map (·.2)).Nodup) :
    ∃ n, checkedPathParameters p = .error (.dup n) := by
  have he : hasEmptyParam (pathParameters p) = false := (hasEmptyParam_false_iff _).mpr hne
  cases hd : dupParam [] (pathParameters p) with
  | none => exact absurd ((dupParam_nil_none_iff _).mp hd) h
  | some n => exact ⟨n, by simp [checkedPathParameters, he, hd]⟩

/-! ### non-vacuity checks on concrete paths -/

/-- `Except` has no `DecidableEq` in core; needed only for the `decide` checks below -/
local instance : DecidableEq (Except PathParErr (List (Bytes × Bytes)))
  | .ok a, .ok b => if h : a = b then isTrue (by rw [h]) else isFalse (fun e => h (Except.ok.inj e))
  | .error a, .error b =>
    if h : a = b then isTrue (by rw [h]) else isFalse (fun e => h (Except.error.inj e))
  | .ok _, .error _ => isFalse (fun e => by cases e)
  | .error _, .ok _ => isFalse (fun e => by cases e)

-- "/a/{id}/b/{x}"  ↦  [("a/{id}", "id"), ("a/{id}/b/{x}", "x")]
example : pathParameters [47, 97, 47, 123, 105, 100, 125, 47, 98, 47, 123, 120, 125] =
    [([97, 47, 123, 105, 100, 125], [105, 100]),
     ([97, 47, 123, 105, 100, 125, 47, 98, 47, 123, 120, 125], [120])] := by decide

-- "/a/{id}/b/{x}" is accepted
example : checkedPathParameters [47, 97, 47, 123, 105, 100, 125, 47, 98, 47, 123, 120, 125] =
    .ok [([97, 47, 123, 105, 100, 125], [105, 100]),
         ([97, 47, 123, 105, 100, 125, 47, 98, 47, 123, 120, 125], [120])] := by decide

-- "//a//b/" has the components "a", "b" and no parameters
example : splitPath [47, 47, 97, 47, 47, 98, 47] = [[97], [98]] := by decide
example : pathParameters [47, 47, 97, 47, 47, 98, 47] = [] := by decide

-- "/a/{}" is rejected: empty name
example : checkedPathParameters [47, 97, 47, 123, 125] = .error .empty := by decide

-- "/{x}/a/{x}" is rejected: "x" twice
example : checkedPathParameters [47, 123, 120, 125, 47, 97, 47, 123, 120, 125] =
    .error (.dup [120]) := by decide

-- "/{}/{}" : the empty-name check comes first
example : checkedPathParameters [47, 123, 125, 47, 123, 125] = .error .empty := by decide

-- "/{" and "/a{b}" are not parameters
example : pathParameters [47, 123] = [] := by decide
example : pathParameters [47, 97, 123, 98, 125] = [] := by decide

end JSight.C13
