import JSight.Basic
namespace JSight.C10
end JSight.C10
