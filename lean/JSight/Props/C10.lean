import JSight.Proofs.Registry
/-!
C10 — declaration order is free at the name level: permuting the declarations of a document changes neither
whether it is accepted nor the set of entries of any collection.
-/
namespace JSight.C10
open JSight.Reg

theorem perm_accepted (l₁ l₂ : List Decl) (h : l₁.Perm l₂) :
    (∃ es, addAll [] l₁ = .ok es) ↔ (∃ es, addAll [] l₂ = .ok es) := by
  have hp : (l₁.map (fun d => (d.coll, d.key))).Perm (l₂.map (fun d => (d.coll, d.key))) := h.map _
  constructor
  · intro ⟨es, he⟩
    exact ⟨_, (addAll_nil_ok_iff l₂ _).mpr ⟨hp.nodup_iff.mp ((addAll_nil_ok_iff l₁ es).mp he).1, rfl⟩⟩
  · intro ⟨es, he⟩
    exact ⟨_, (addAll_nil_ok_iff l₁ _).mpr ⟨hp.nodup_iff.mpr ((addAll_nil_ok_iff l₂ es).mp he).1, rfl⟩⟩

theorem perm_entries (l₁ l₂ : List Decl) (h : l₁.Perm l₂) (e₁ e₂ : Entries)
    (h₁ : addAll [] l₁ = .ok e₁) (h₂ : addAll [] l₂ = .ok e₂) :
    e₁.Perm e₂ ∧ ∀ c, (collection e₁ c).Perm (collection e₂ c) := by
  have hp : e₁.Perm e₂ := by
    rw [((addAll_nil_ok_iff l₁ e₁).mp h₁).2, ((addAll_nil_ok_iff l₂ e₂).mp h₂).2]
    exact h.map _
  exact ⟨hp, collection_perm e₁ e₂ hp⟩

/-! non-vacuity -/
local instance {ε α : Type} [DecidableEq ε] [DecidableEq α] : DecidableEq (Except ε α) := decExcept
example : addAll [] [⟨.types, 1, 10⟩, ⟨.macros, 1, 20⟩, ⟨.types, 2, 30⟩]
    = .ok [(.types, 1), (.macros, 1), (.types, 2)] := by decide
example : addAll [] [⟨.types, 2, 30⟩, ⟨.types, 1, 10⟩, ⟨.macros, 1, 20⟩]
    = .ok [(.types, 2), (.types, 1), (.macros, 1)] := by decide

end JSight.C10
