import JSight.Model.Project
import JSight.Props.C01_Scanner
import JSight.Props.C01_Term
import JSight.Props.C07
import JSight.Props.C04_Bridge
import JSight.Gen.BuildTable
import JSight.Props.C02_Located
import JSight.Props.C14
/-!
# The composed model (`Model/Project.lean`): totality, and the seams between the stages

`Project.process` runs, on the BYTES of a single-file document, the scanner table, the assembly of directives
(`core/scan_project.go`), the context resolution, the PASTE expansion and the catalog construction.  The theorems of the
single stages compose:

* `lexAllC_lexemes`, `lexAllC_stop` — the lexeme stream the assembly consumes IS the stream of `Scanner.lexAll`
  (the composed model only records, in addition, the scanner's index at each delivery);
* `process_no_fault` — for every content, oracle and ban set the composed run never ends in a fault (what Go would
  panic or hang on): the scanner cannot fault (`C01.scanFile_no_fault`), every file scan terminates
  (`C01.scanFile_terminates`), the assembly has no partial operation, the expansion never runs out of fuel
  (`C07.expand_no_fuel`);
* `process_total` — hence the outcome is a catalog skeleton or a located diagnostic (or, in correspondence runs, a
  request for an oracle answer / the INCLUDE marker);
* `process_build_obeys` — the forest handed to the catalog construction satisfies the hypothesis `obeysF` of the content
  theorems of `C04_Content`, whatever the bytes were; `process_ok_inv` exposes the stages of an accepted run so that
  those theorems apply to it;
* `scan_diag_ok` — the seam C14 → assembly: the diagnostic "unknown directive" is unreachable (every keyword lexeme the
  scanner delivers has a directive kind: `C14.keyword_spells`, `respCode_ok`), and every diagnostic located at a lexeme or
  at a directive's keyword lies inside the file (`C14.in_bounds`);
* `process_build_error_at` — a diagnostic of the catalog-construction stage points at the keyword of a directive of the
  expanded forest; `scan_phase_order` — the order of the steps of the scan phase, read off the regenerated `Gen.scanCalls`;
* `processFS_not_bad` — the same totality for projects of SEVERAL files (`processFS`: INCLUDE at the level of bytes):
  whatever the files contain and however they include one another, no scanner fault, no exhausted scan, no exhausted
  include budget (`runFile_budget`: the files on the scanner stack are pairwise distinct entries of the file system, so the
  stack is never deeper than the number of entries), no exhausted expansion budget.
-/
namespace JSight.C01P
open JSight JSight.Gen JSight.Project

/-! ## the lexeme stream of the composed model is the scanner's -/

theorem lexAllC_spec (d : Src) (o : Oracle) : ∀ (n : Nat) (sc : Sc) (acc : List (Lexeme × Nat)),
    ((lexAllC d o n sc acc).1.map Prod.fst, (lexAllC d o n sc acc).2)
      = lexAll d o n sc (acc.map Prod.fst)
  | 0, sc, acc => by simp [lexAllC, lexAll, List.map_reverse]
  | n + 1, sc, acc => by
    unfold lexAllC lexAll
    cases h : next d o (4 * (d.size + 2)) sc with
    | error s => simp [List.map_reverse]
    | ok p =>
      rcases p with ⟨ol, sc'⟩
      cases ol with
      | none => simp [List.map_reverse]
      | some lex =>
        simp only
        have := lexAllC_spec d o n sc' ((lex, sc'.cur) :: acc)
        simpa using this

theorem lexAllC_lexemes (d : Src) (o : Oracle) (n : Nat) :
    (lexAllC d o n Sc.init []).1.map Prod.fst = (lexAll d o n Sc.init []).1 := by
  have := lexAllC_spec d o n Sc.init []
  simpa using congrArg Prod.fst this

theorem lexAllC_stop (d : Src) (o : Oracle) (n : Nat) :
    (lexAllC d o n Sc.init []).2.1 = (lexAll d o n Sc.init []).2.1 := by
  have := lexAllC_spec d o n Sc.init []
  simpa using congrArg (fun p => p.2.1) this

/-! ## no fault -/

/-- the outcomes that stand for a crash or a hang of the Go code -/
def bad : PErr → Bool
  | .fault _ => true
  | .paste .fuel => true
  | _ => false

/-- the diagnostics of the scan of a single file (scanner, assembly, context resolution) -/
def early : PErr → Bool
  | .scan _ | .oracleMiss _ _ | .includeSeen _ | .unknownDirective _ | .notAllowed _ | .noDirective _ | .jsightNotFirst _ | .param _ _ | .ctx _ _ => true
  | _ => false

theorem early_not_bad {e : PErr} (h : early e = true) : bad e = false := by
  cases e <;> first | rfl | cases h

theorem flush_early (st : ASt) (e : PErr) (h : flush st = .error e) : early e = true := by
  unfold flush at h
  cases hc : st.cur with
  | none => simp [hc] at h
  | some r =>
    simp only [hc] at h
    cases hp : place st.ctx.frames st.ctx.roots r.toDir with
    | error x => simp only [hp] at h; injection h with h; subst h; rfl
    | ok c =>
      simp only [hp] at h
      split at h
      · injection h with h; subst h; rfl
      · cases h

theorem step_early (d : Src) (banned : List Kind) (st : ASt) (lex : Lexeme) (cur : Nat) (e : PErr)
    (h : step d banned st lex cur = .error e) : early e = true := by
  unfold step at h
  cases hty : lex.ty
  case keyword =>
    simp only [hty] at h
    split at h
    · injection h with h; subst h; rfl
    · cases hf : flush st with
      | error x => simp only [hf] at h; injection h with h; subst h; exact flush_early st _ hf
      | ok st1 =>
        simp only [hf] at h
        cases hk : kindOfKeyword (d.slice lex.b lex.e1) with
        | none => simp only [hk] at h; injection h with h; subst h; rfl
        | some k =>
          simp only [hk] at h
          split at h
          · injection h with h; subst h; rfl
          · cases h
  case parameter =>
    simp only [hty] at h
    cases hc : st.cur with
    | none => simp only [hc] at h; injection h with h; subst h; rfl
    | some r =>
      simp only [hc] at h
      cases hp : Param.appendParameter r.kind r.params (d.slice lex.b lex.e1) with
      | error x => simp only [hp] at h; injection h with h; subst h; rfl
      | ok q => simp [hp] at h
  case contextClose =>
    simp only [hty] at h
    cases hf : flush st with
    | error x => simp only [hf] at h; injection h with h; subst h; exact flush_early st _ hf
    | ok st1 =>
      simp only [hf] at h
      cases hc : closeExplicit st1.ctx.frames st1.ctx.roots with
      | error x => simp only [hc] at h; injection h with h; subst h; rfl
      | ok q => simp [hc] at h
  all_goals
    simp only [hty] at h
    cases hc : st.cur with
    | none => simp only [hc] at h; injection h with h; subst h; rfl
    | some r =>
      simp only [hc] at h
      first
        | (simp at h; done)
        | (split at h
           · injection h with h; subst h; rfl
           · simp at h)

/-- the assembly of directives has no partial operation: it never produces a fault -/
theorem steps_early (d : Src) (banned : List Kind) : ∀ (l : List (Lexeme × Nat)) (st : ASt) (e : PErr),
    steps d banned st l = .error e → early e = true
  | [], st, e, h => by simp [steps] at h
  | (lex, cur) :: r, st, e, h => by
    unfold steps at h
    cases hs : step d banned st lex cur with
    | ok st' => simp only [hs] at h; exact steps_early d banned r st' e h
    | error x => simp only [hs] at h; injection h with h; subst h; exact step_early d banned st lex cur _ hs

/-- **the scan of the composed model never faults** -/
theorem scan_early (content : Bytes) (o : Oracle) (banned : List Kind) (e : PErr)
    (h : scan content o banned = .error e) : early e = true := by
  unfold scan at h
  cases hu : firstInvalidUTF8 content with
  | some i => simp only [hu] at h; injection h with h; subst h; rfl
  | none =>
    simp only [hu] at h
    have hstop := lexAllC_stop (Src.ofArray content.toArray) o ((Src.ofArray content.toArray).size + 2)
    have hsf : (scanFile content o).2.1 = (lexAll (Src.ofArray content.toArray) o ((Src.ofArray content.toArray).size + 2) Sc.init []).2.1 := by
      unfold scanFile; simp [hu]
    generalize hl : lexAllC (Src.ofArray content.toArray) o ((Src.ofArray content.toArray).size + 2) Sc.init [] = res at hstop h
    rcases res with ⟨lexs, stop, sc⟩
    simp only at hstop h
    cases hs : steps (Src.ofArray content.toArray) banned {} lexs with
    | error x => simp only [hs] at h; injection h with h; subst h; exact steps_early _ _ _ _ _ hs
    | ok st =>
      simp only [hs] at h
      cases stop with
      | some s =>
        cases s with
        | diag i => simp only at h; injection h with h; subst h; rfl
        | oracleMiss a c => simp only at h; injection h with h; subst h; rfl
        | fault g =>
          exfalso
          have h1 : (scanFile content o).2.1 = some (.fault g) := by rw [hsf, ← hstop]
          have := C01.scanFile_no_fault content o g h1
          subst this
          exact C01.scanFile_terminates content o h1
      | none =>
        simp only at h
        cases hf : flush st with
        | error x => simp only [hf] at h; injection h with h; subst h; exact flush_early st _ hf
        | ok st1 =>
          simp only [hf] at h
          split at h
          · injection h with h; subst h; rfl
          · cases h

theorem flush_not_bad (st : ASt) (e : PErr) (h : flush st = .error e) : bad e = false :=
  early_not_bad (flush_early st e h)

theorem step_not_bad (d : Src) (banned : List Kind) (st : ASt) (lex : Lexeme) (cur : Nat) (e : PErr)
    (h : step d banned st lex cur = .error e) : bad e = false :=
  early_not_bad (step_early d banned st lex cur e h)

theorem scan_not_bad (content : Bytes) (o : Oracle) (banned : List Kind) (e : PErr)
    (h : scan content o banned = .error e) : bad e = false :=
  early_not_bad (scan_early content o banned e h)

/-- **C01 for the composed model: no fault, for every content, oracle and ban set.**  The run of
scanner table → assembly → context resolution → PASTE expansion → catalog construction never ends in something Go
would panic or hang on: neither a scanner fault, nor an exhausted step budget, nor an exhausted expansion budget. -/
theorem process_not_bad (content : Bytes) (o : Oracle) (banned : List Kind) (e : PErr)
    (h : process content o banned = .error e) : bad e = false := by
  unfold process at h
  cases hs : scan content o banned with
  | error x => simp only [hs] at h; injection h with h; subst h; exact scan_not_bad content o banned _ hs
  | ok p =>
    rcases p with ⟨forest, done⟩
    simp only [hs] at h
    cases he : expand forest with
    | error x =>
      simp only [he] at h
      injection h with h; subst h
      cases x <;> first | rfl | exact absurd he (C07.expand_no_fuel forest)
    | ok expanded =>
      simp only [he] at h
      generalize decoForest (Src.ofArray content.toArray) done expanded 0 = bf at h
      rcases bf with ⟨bf, n⟩
      simp only at h
      cases hr : Build.checkRules bf [] with
      | error x =>
        simp only [hr] at h
        injection h with h; subst h
        unfold buildErrAt
        split <;> rfl
      | ok u =>
      simp only [hr] at h
      cases hc : Build.compile banned bf with
      | ok c => simp [hc] at h
      | error x =>
        simp only [hc] at h
        injection h with h; subst h
        unfold buildErrAt
        split <;> rfl

theorem process_no_fault (content : Bytes) (o : Oracle) (banned : List Kind) (f : Fault) :
    process content o banned ≠ .error (.fault f) :=
  fun h => by simpa [bad] using process_not_bad content o banned _ h

theorem process_no_fuel (content : Bytes) (o : Oracle) (banned : List Kind) :
    process content o banned ≠ .error (.paste .fuel) :=
  fun h => by simpa [bad] using process_not_bad content o banned _ h

/-- **C01, composed: the outcome of every run is a catalog skeleton or a located diagnostic** (in correspondence runs
also: a request for an oracle answer; an INCLUDE keyword ends the single-file model) -/
theorem process_total (content : Bytes) (o : Oracle) (banned : List Kind) :
    (∃ c, process content o banned = .ok c) ∨ (∃ e, process content o banned = .error e ∧ bad e = false) := by
  cases h : process content o banned with
  | ok c => exact Or.inl ⟨c, rfl⟩
  | error e => exact Or.inr ⟨e, rfl, process_not_bad content o banned e h⟩

/-! ## the seam to the catalog construction -/

theorem toBDir_kind (d : Src) (done : List RDir) (id : Nat) (x : Dir) : (toBDir d done id x).kind = x.kind := by
  unfold toBDir
  split <;> rfl

theorem decoTree_dir (d : Src) (done : List RDir) (x : Dir) (kids : List Tree) (id : Nat) :
    (decoTree d done (.node x kids) id).1.dir = toBDir d done id x := by
  simp [decoTree, Build.BTree.dir]

mutual
  theorem decoTree_obeys (d : Src) (done : List RDir) :
      ∀ (t : Tree) (id : Nat), C06O.obeysTree t = true → C04C.obeysT (decoTree d done t id).1 = true
    | .node x kids, id, h => by
      simp only [C06O.obeysTree, Bool.and_eq_true] at h
      simp only [decoTree, C04C.obeysT, Bool.and_eq_true]
      exact ⟨decoForest_edges d done x (toBDir d done id x) (toBDir_kind d done id x) kids (id + 1) h.1,
        decoForest_obeys d done kids (id + 1) h.2⟩
  theorem decoForest_obeys (d : Src) (done : List RDir) :
      ∀ (f : List Tree) (id : Nat), C06O.obeysForest f = true → C04C.obeysF (decoForest d done f id).1 = true
    | [], _, _ => rfl
    | t :: r, id, h => by
      simp only [C06O.obeysForest, Bool.and_eq_true] at h
      simp only [decoForest, C04C.obeysF, Bool.and_eq_true]
      exact ⟨decoTree_obeys d done t id h.1, decoForest_obeys d done r _ h.2⟩
  theorem decoForest_edges (d : Src) (done : List RDir) (x : Dir) (bx : Build.BDir) (hbx : bx.kind = x.kind) :
      ∀ (kids : List Tree) (id : Nat), kids.all (fun k => admitsDir x k.dir) = true →
        (((decoForest d done kids id).1).map Build.BTree.dir).all (fun k => C04C.admitsK bx.kind k.kind) = true
    | [], _, _ => rfl
    | .node y ys :: r, id, h => by
      simp only [List.all_cons, Bool.and_eq_true] at h
      simp only [decoForest, List.map_cons, List.all_cons, Bool.and_eq_true]
      refine ⟨?_, decoForest_edges d done x bx hbx r _ h.2⟩
      rw [decoTree_dir, toBDir_kind, hbx, C04Br.admitsK_eq]
      exact C04Br.admitsDir_admits h.1
end

/-- the stages of an accepted run -/
theorem process_ok_inv {content : Bytes} {o : Oracle} {banned : List Kind} {c : Build.Cat}
    (h : process content o banned = .ok c) :
    ∃ forest done expanded,
      scan content o banned = .ok (forest, done) ∧ expand forest = .ok expanded ∧
      Build.compile banned (decoForest (Src.ofArray content.toArray) done expanded 0).1 = .ok c := by
  unfold process at h
  cases hs : scan content o banned with
  | error x => simp [hs] at h
  | ok p =>
    rcases p with ⟨forest, done⟩
    simp only [hs] at h
    cases he : expand forest with
    | error x => simp [he] at h
    | ok expanded =>
      simp only [he] at h
      refine ⟨forest, done, expanded, rfl, he, ?_⟩
      generalize decoForest (Src.ofArray content.toArray) done expanded 0 = bf at h ⊢
      rcases bf with ⟨bf, n⟩
      simp only at h ⊢
      cases hr : Build.checkRules bf [] with
      | error x => simp [hr] at h
      | ok u =>
      simp only [hr] at h
      cases hc : Build.compile banned bf with
      | ok c' => simp only [hc] at h; injection h with h; subst h; rfl
      | error x => simp [hc] at h

/-- **the seam closed for the composed model**: whatever the bytes of the document, the forest the catalog construction
receives — the expanded forest decorated with the parameters, annotation and body the assembly collected from the
lexemes — satisfies the hypothesis `obeysF` of the content theorems of `C04_Content`
(`interaction_content`, `responses_exact`, `request_faithful`, …), which therefore hold of every accepted run -/
theorem process_build_obeys {content : Bytes} {o : Oracle} {banned : List Kind} {c : Build.Cat}
    (h : process content o banned = .ok c) :
    ∃ bf, Build.compile banned bf = .ok c ∧ C04C.obeysF bf = true := by
  rcases process_ok_inv h with ⟨forest, done, expanded, _, he, hc⟩
  exact ⟨_, hc, decoForest_obeys _ done expanded 0 (C06O.expand_obeys forest expanded he).2⟩

/-! ## projects of several files (`processFS`) -/

/-- outcomes of a project run that are not a catalog and not a located diagnostic: only an exhausted include budget
or a dangling file index remain possible after this theorem (both are excluded by `runFile_budget` below) -/
def okF (e : FErr) : Prop := bad e.err = false ∨ e.err = .fault .fuel ∨ e.err = .fault .nilDeref

theorem scanBytes_stop (content : Bytes) (o : Oracle) : (scanBytes content o).stop = (scanFile content o).2.1 := by
  unfold scanBytes scanFile
  cases hu : firstInvalidUTF8 content with
  | some i => simp
  | none =>
    simp only
    have hstop := lexAllC_stop (Src.ofArray content.toArray) o ((Src.ofArray content.toArray).size + 2)
    generalize lexAllC (Src.ofArray content.toArray) o ((Src.ofArray content.toArray).size + 2) Sc.init [] = res at hstop
    rcases res with ⟨l, s, sc⟩
    simpa using hstop

theorem scanBytes_no_fault (content : Bytes) (o : Oracle) (f : Fault) : (scanBytes content o).stop ≠ some (.fault f) := by
  rw [scanBytes_stop]
  intro h
  have := C01.scanFile_no_fault content o f h
  subst this
  exact C01.scanFile_terminates content o h

theorem flushF_bad (n : Nat) (st : ASt) (e : FErr) (h : flushF n st = .error e) : bad e.err = false := by
  unfold flushF at h
  cases hc : st.cur with
  | none => simp [hc] at h
  | some r =>
    simp only [hc] at h
    cases hp : place st.ctx.frames st.ctx.roots r.toDir with
    | error x => simp only [hp] at h; injection h with h; subst h; rfl
    | ok c =>
      simp only [hp] at h
      split at h
      · injection h with h; subst h; rfl
      · cases h

theorem flushF_ok (n : Nat) (st : ASt) (e : FErr) (h : flushF n st = .error e) : okF e := by
  unfold flushF at h
  cases hc : st.cur with
  | none => simp [hc] at h
  | some r =>
    simp only [hc] at h
    cases hp : place st.ctx.frames st.ctx.roots r.toDir with
    | error x => simp only [hp] at h; injection h with h; subst h; exact Or.inl rfl
    | ok c =>
      simp only [hp] at h
      split at h
      · injection h with h; subst h; exact Or.inl rfl
      · cases h

theorem find_go_some (path : Bytes) : ∀ (l : PFS) (i g : Nat) (c : Option Bytes),
    PFS.find.go path i l = some (g, c) → ∃ nm, i ≤ g ∧ l[g - i]? = some (nm, c)
  | [], i, g, c, h => by simp [PFS.find.go] at h
  | (p, x) :: r, i, g, c, h => by
    unfold PFS.find.go at h
    split at h
    · injection h with h; injection h with h1 h2; subst h1; subst h2
      exact ⟨p, Nat.le_refl _, by simp⟩
    · rcases find_go_some path r (i + 1) g c h with ⟨nm, hle, hg⟩
      refine ⟨nm, by omega, ?_⟩
      have : g - i = (g - (i + 1)) + 1 := by omega
      rw [this]; simpa using hg

theorem find_some {fs : PFS} {path : Bytes} {g : Nat} {c : Option Bytes} (h : fs.find path = some (g, c)) :
    ∃ nm, fs[g]? = some (nm, c) := by
  rcases find_go_some path fs 0 g c h with ⟨nm, _, hg⟩
  exact ⟨nm, by simpa using hg⟩

/-- the run over the lexemes of one file yields only errors with the property `P`, when `P` holds of every located
diagnostic and of every error of an included file (included through a valid entry, from a file not on the stack) -/
theorem runLexs_P (P : FErr → Prop) (hP : ∀ e : FErr, bad e.err = false → P e)
    (n : Nat) (d : Src) (name : Bytes) (fs : PFS) (banned : List Kind) (stop : Option Stop)
    (incl : List (Nat × Nat) → Nat → ASt → Except FErr ASt) (stack : List (Nat × Nat)) (f : Nat)
    (hstop : ∀ x, stop ≠ some (.fault x))
    (hincl : ∀ pos g st e, (∃ nm c, fs[g]? = some (nm, some c)) → stack.any (·.1 == f) = false →
      incl ((f, pos) :: stack) g st = .error e → P e) :
    ∀ (l : List (Lexeme × Nat)) (st : ASt) (e : FErr),
      runLexs n d name fs banned stop incl stack f l st = .error e → P e
  | [], st, e, h => by simp [runLexs] at h
  | (lex, cur) :: rest, st, e, h => by
    unfold runLexs at h
    simp only at h
    split at h
    · -- INCLUDE
      cases hf : flushF n st with
      | error x => simp only [hf] at h; injection h with h; subst h; exact hP _ (flushF_bad n st _ hf)
      | ok st1 =>
        simp only [hf] at h
        split at h
        · injection h with h; subst h; exact hP _ rfl
        · cases rest with
          | nil =>
            simp only at h
            cases stop with
            | none => simp only at h; injection h with h; subst h; exact hP _ rfl
            | some s =>
              cases s with
              | diag i => simp only at h; injection h with h; subst h; exact hP _ rfl
              | fault x => exact absurd rfl (hstop x)
              | oracleMiss a c => simp only at h; injection h with h; subst h; exact hP _ rfl
          | cons pr rest' =>
            rcases pr with ⟨p, pc⟩
            simp only at h
            split at h
            · injection h with h; subst h; exact hP _ rfl
            · split at h
              · injection h with h; subst h; exact hP _ rfl
              · cases hv : validName (unescape (d.slice p.b p.e1)) with
              | error x => simp only [hv] at h; injection h with h; subst h; exact hP _ rfl
              | ok u =>
                simp only [hv] at h
                cases hfd : fs.find (pathJoin (pathDir name) (unescape (d.slice p.b p.e1))) with
                | none => simp only [hfd] at h; injection h with h; subst h; exact hP _ rfl
                | some gc =>
                  rcases gc with ⟨g, c⟩
                  cases c with
                  | none => simp only [hfd] at h; injection h with h; subst h; exact hP _ rfl
                  | some content =>
                    simp only [hfd] at h
                    split at h
                    · injection h with h; subst h; exact hP _ rfl
                    · rename_i hnot
                      rcases find_some hfd with ⟨nm, hg⟩
                      cases hi : incl ((f, lex.b) :: stack) g st1 with
                      | error x =>
                        simp only [hi] at h; injection h with h; subst h
                        exact hincl _ _ _ _ ⟨nm, content, hg⟩ (by cases hh : stack.any (fun x => x.1 == f) <;> simp_all) hi
                      | ok st2 =>
                        simp only [hi] at h
                        exact runLexs_P P hP n d name fs banned stop incl stack f hstop hincl rest' st2 e h
    · split at h
      · -- JSIGHT in an included file
        cases hf : flushF n st with
        | error x => simp only [hf] at h; injection h with h; subst h; exact hP _ (flushF_bad n st _ hf)
        | ok st1 => simp only [hf] at h; injection h with h; subst h; exact hP _ rfl
      · split at h
        · -- keyword
          cases hf : flushF n st with
          | error x => simp only [hf] at h; injection h with h; subst h; exact hP _ (flushF_bad n st _ hf)
          | ok st1 =>
            simp only [hf] at h
            cases hk : kindOfKeyword (d.slice lex.b lex.e1) with
            | none => simp only [hk] at h; injection h with h; subst h; exact hP _ rfl
            | some k =>
              simp only [hk] at h
              split at h
              · injection h with h; subst h; exact hP _ rfl
              · exact runLexs_P P hP n d name fs banned stop incl stack f hstop hincl rest _ e h
        · -- ")"
          cases hf : flushF n st with
          | error x => simp only [hf] at h; injection h with h; subst h; exact hP _ (flushF_bad n st _ hf)
          | ok st1 =>
            simp only [hf] at h
            cases hc : closeExplicit st1.ctx.frames st1.ctx.roots with
            | error x => simp only [hc] at h; injection h with h; subst h; exact hP _ rfl
            | ok c =>
              simp only [hc] at h
              exact runLexs_P P hP n d name fs banned stop incl stack f hstop hincl rest _ e h
        · -- the other lexemes
          cases hs : step d banned st lex cur with
          | error x => simp only [hs] at h; injection h with h; subst h; exact hP _ (step_not_bad d banned st lex cur _ hs)
          | ok st' =>
            simp only [hs] at h
            exact runLexs_P P hP n d name fs banned stop incl stack f hstop hincl rest st' e h

theorem runFile_ok (fs : PFS) (o : Nat → Oracle) (banned : List Kind) :
    ∀ (fuel : Nat) (stack : List (Nat × Nat)) (f : Nat) (st : ASt) (e : FErr),
      runFile fs o banned fuel stack f st = .error e → okF e
  | 0, stack, f, st, e, h => by
    simp only [runFile] at h; injection h with h; subst h; exact Or.inr (Or.inl rfl)
  | fuel + 1, stack, f, st, e, h => by
    unfold runFile at h
    split at h
    · rename_i name content hfile
      simp only at h
      have hstop := scanBytes_no_fault content (o f)
      cases hr : runLexs fs.length (Src.ofArray content.toArray) name fs banned (scanBytes content (o f)).stop
          (runFile fs o banned fuel) stack f (scanBytes content (o f)).lexs st with
      | error x =>
        simp only [hr] at h; injection h with h; subst h
        exact runLexs_P okF (fun e he => Or.inl he) _ _ _ _ _ _ _ _ _ (fun x => hstop x) (fun pos g st e _ _ he => runFile_ok fs o banned fuel _ g st e he) _ _ _ hr
      | ok st1 =>
        simp only [hr] at h
        cases hs : (scanBytes content (o f)).stop with
        | some s =>
          cases s with
          | diag i => simp only [hs] at h; injection h with h; subst h; exact Or.inl rfl
          | fault x => exact absurd hs (hstop x)
          | oracleMiss a c => simp only [hs] at h; injection h with h; subst h; exact Or.inl rfl
        | none =>
          simp only [hs] at h
          cases hf : flushF fs.length st1 with
          | error x => simp only [hf] at h; injection h with h; subst h; exact flushF_ok _ st1 _ hf
          | ok st2 =>
            simp only [hf] at h
            split at h
            · injection h with h; subst h; exact Or.inl rfl
            · cases h
    · injection h with h; subst h; exact Or.inr (Or.inr rfl)

/-! ### the include budget is never exhausted -/

/-- distinct numbers below `n`: at most `n` of them -/
theorem nodup_bound : ∀ (n : Nat) (l : List Nat), l.Nodup → (∀ x ∈ l, x < n) → l.length ≤ n
  | 0, l, _, hb => by
    cases l with
    | nil => simp
    | cons a r => exact absurd (hb a (List.mem_cons_self)) (Nat.not_lt_zero _)
  | n + 1, l, hn, hb => by
    have h1 : (l.erase n).length ≤ n := by
      apply nodup_bound n (l.erase n) (hn.erase n)
      intro x hx
      have hx' := (hn.mem_erase_iff).mp hx
      have := hb x hx'.2
      omega
    by_cases hm : n ∈ l
    · have := List.length_erase_of_mem hm
      omega
    · rw [List.erase_of_not_mem hm] at h1; omega

/-- the scanner stack: the including files, pairwise distinct, each an entry of the file system that is a file -/
def StackOK (fs : PFS) (stack : List (Nat × Nat)) : Prop :=
  (stack.map Prod.fst).Nodup ∧ ∀ x ∈ stack, ∃ nm c, fs[x.1]? = some (nm, some c)

theorem any_false_not_mem {stack : List (Nat × Nat)} {f : Nat} (h : stack.any (·.1 == f) = false) :
    f ∉ stack.map Prod.fst := by
  intro hm
  rcases List.mem_map.mp hm with ⟨x, hx, rfl⟩
  have : stack.any (·.1 == x.1) = true := List.any_eq_true.mpr ⟨x, hx, by simp⟩
  rw [h] at this; cases this

theorem runFile_budget (fs : PFS) (o : Nat → Oracle) (banned : List Kind) :
    ∀ (fuel : Nat) (stack : List (Nat × Nat)) (f : Nat) (st : ASt) (e : FErr),
      StackOK fs stack → (∃ nm c, fs[f]? = some (nm, some c)) →
      fs.length + 2 ≤ fuel + stack.length →
      runFile fs o banned fuel stack f st = .error e → bad e.err = false
  | 0, stack, f, st, e, hs, hf, hb, _ => by
    -- impossible: the files on the stack are distinct entries of the file system
    exfalso
    have hlen : (stack.map Prod.fst).length ≤ fs.length := by
      apply nodup_bound _ _ hs.1
      intro x hx
      rcases List.mem_map.mp hx with ⟨y, hy, rfl⟩
      rcases hs.2 y hy with ⟨nm, c, hg⟩
      exact (List.getElem?_eq_some_iff.mp hg).1
    simp at hlen
    omega
  | fuel + 1, stack, f, st, e, hs, hf, hb, h => by
    unfold runFile at h
    split at h
    · rename_i name content hfile
      simp only at h
      have hstop := scanBytes_no_fault content (o f)
      cases hr : runLexs fs.length (Src.ofArray content.toArray) name fs banned (scanBytes content (o f)).stop
          (runFile fs o banned fuel) stack f (scanBytes content (o f)).lexs st with
      | error x =>
        simp only [hr] at h; injection h with h; subst h
        refine runLexs_P (fun e => bad e.err = false) (fun e he => he) _ _ _ _ _ _ _ _ _ (fun x => hstop x) ?_ _ _ _ hr
        intro pos g st' e' hg hany he
        refine runFile_budget fs o banned fuel ((f, pos) :: stack) g st' e' ?_ hg ?_ he
        · refine ⟨?_, ?_⟩
          · simpa using List.nodup_cons.mpr ⟨any_false_not_mem hany, hs.1⟩
          · intro x hx
            rcases List.mem_cons.mp hx with rfl | hx
            · exact hf
            · exact hs.2 x hx
        · simp; omega
      | ok st1 =>
        simp only [hr] at h
        cases hs' : (scanBytes content (o f)).stop with
        | some s =>
          cases s with
          | diag i => simp only [hs'] at h; injection h with h; subst h; rfl
          | fault x => exact absurd hs' (hstop x)
          | oracleMiss a c => simp only [hs'] at h; injection h with h; subst h; rfl
        | none =>
          simp only [hs'] at h
          cases hf' : flushF fs.length st1 with
          | error x => simp only [hf'] at h; injection h with h; subst h; exact flushF_bad _ st1 _ hf'
          | ok st2 =>
            simp only [hf'] at h
            split at h
            · injection h with h; subst h; rfl
            · cases h
    · rename_i hno
      rcases hf with ⟨nm, c, hg⟩
      exact absurd hg (by intro hh; exact hno nm c hh)

/-- **C01 for projects of several files: no fault.**  Whatever the files contain and however they include one another
(cycles, self-inclusion, missing files, directories), the run of the composed model over a project whose root is a file
ends in a catalog skeleton or a located diagnostic: the scanners never fault, every scan terminates, the include budget
(`number of entries + 2`: a file may be opened once more than the stack is deep before `Push` refuses it) is never
exhausted, the expansion budget is never exhausted. -/
theorem processFS_not_bad (fs : PFS) (o : Nat → Oracle) (banned : List Kind) (e : FErr)
    (hroot : ∃ nm c, fs[0]? = some (nm, some c))
    (h : processFS fs o banned = .error e) : bad e.err = false := by
  unfold processFS at h
  simp only at h
  cases hr : runFile fs o banned (fs.length + 2) [] 0 {} with
  | error x =>
    simp only [hr] at h; injection h with h; subst h
    exact runFile_budget fs o banned _ [] 0 {} _ ⟨by simp, by simp⟩ hroot (by simp) hr
  | ok st =>
    simp only [hr] at h
    cases he : expand (closeAll st.ctx.frames st.ctx.roots) with
    | error x =>
      simp only [he] at h
      injection h with h; subst h
      cases x <;> first | rfl | exact absurd he (C07.expand_no_fuel _)
    | ok expanded =>
      simp only [he] at h
      generalize decoForestF fs st.done expanded 0 = bf at h
      rcases bf with ⟨bf, k⟩
      simp only at h
      have hb : ∀ x : Build.BErr, ∃ i be, buildErrAt st.done expanded x = .build x i be := by
        intro x; unfold buildErrAt; split <;> exact ⟨_, _, rfl⟩
      cases hru : Build.checkRules bf [] with
      | error x =>
        simp only [hru] at h
        rcases hb x with ⟨i, be, hbx⟩
        rw [hbx] at h
        simp only at h
        injection h with h; subst h; rfl
      | ok u =>
      simp only [hru] at h
      cases hc : Build.compile banned bf with
      | ok c => simp [hc] at h
      | error x =>
        simp only [hc] at h
        rcases hb x with ⟨i, be, hbx⟩
        rw [hbx] at h
        simp only at h
        injection h with h; subst h; rfl

/-! ## what the scanner guarantees to the assembly (the seam C14 → assembly)

`C14.keyword_spells`: every Keyword lexeme spells a directive name of the table or a response code — hence
`directive.NewDirectiveType` never fails on a keyword the scanner delivers: the diagnostic "unknown directive" of
`setCurrentDirective` is unreachable.  `C14.in_bounds`: lexemes lie inside the file — hence every diagnostic of the scan of
a single file is located inside the file (or at its end). -/

theorem all_codes : ∀ i, i < 5 → ∀ j, j < 10 → ∀ k, k < 10 →
    isHTTPResponseCode [UInt8.ofNat (49 + i), UInt8.ofNat (48 + j), UInt8.ofNat (48 + k)] = true := by decide +kernel

theorem u8_eq (a : UInt8) (lo : Nat) (h : lo ≤ a.toNat) : a = UInt8.ofNat (lo + (a.toNat - lo)) := by
  have : lo + (a.toNat - lo) = a.toNat := by omega
  rw [this]; simp

/-- the scanner's notion of a response code (three digits, the first 1–5) is accepted by `IsHTTPResponseCode`
(`strconv.Atoi`, no leading zero, 100 ≤ code ≤ 599) -/
theorem respCode_ok (b : Bytes) (h : ScanLex.isResponseCode b = true) : isHTTPResponseCode b = true := by
  unfold ScanLex.isResponseCode at h
  match b, h with
  | [a, x, y], h =>
    simp only [Bool.and_eq_true, decide_eq_true_eq] at h
    obtain ⟨⟨⟨ha1, ha2⟩, hx1, hx2⟩, hy1, hy2⟩ := h
    have a1 : 49 ≤ a.toNat := by simpa using UInt8.le_iff_toNat_le.mp ha1
    have a2 : a.toNat ≤ 53 := by simpa using UInt8.le_iff_toNat_le.mp ha2
    have x1 : 48 ≤ x.toNat := by simpa using UInt8.le_iff_toNat_le.mp hx1
    have x2 : x.toNat ≤ 57 := by simpa using UInt8.le_iff_toNat_le.mp hx2
    have y1 : 48 ≤ y.toNat := by simpa using UInt8.le_iff_toNat_le.mp hy1
    have y2 : y.toNat ≤ 57 := by simpa using UInt8.le_iff_toNat_le.mp hy2
    rw [u8_eq a 49 a1, u8_eq x 48 x1, u8_eq y 48 y1]
    exact all_codes _ (by omega) _ (by omega) _ (by omega)

/-- a keyword the scanner delivers has a directive kind -/
theorem keyword_has_kind (d : Src) (o : Oracle) (n : Nat) (lex : Lexeme) (hl : lex ∈ (lexAll d o n Sc.init []).1)
    (ht : lex.ty = .keyword) : (kindOfKeyword (d.slice lex.b lex.e1)).isSome = true := by
  unfold kindOfKeyword
  rcases C14.keyword_spells d o n lex hl ht with ⟨k, hk, hne, he⟩ | hr
  · have : (Kind.all.find? (fun k => k != Kind.HTTPResponseCode && k.name.toUTF8.toList == d.slice lex.b lex.e1)).isSome = true := by
      rw [List.find?_isSome]
      exact ⟨k, hk, by simp [hne, he]⟩
    cases hf : Kind.all.find? (fun k => k != Kind.HTTPResponseCode && k.name.toUTF8.toList == d.slice lex.b lex.e1) with
    | some _ => rfl
    | none => rw [hf] at this; cases this
  · cases Kind.all.find? (fun k => k != Kind.HTTPResponseCode && k.name.toUTF8.toList == d.slice lex.b lex.e1) with
    | some _ => rfl
    | none => simp [respCode_ok _ hr]

/-- the byte index of a diagnostic that is located at a lexeme or at the keyword of a directive (the diagnostics of the
scanner itself and the two parenthesis diagnostics, which are located at the scanner's read position, are not of this
kind) -/
def lexLocated : PErr → Option Nat
  | .notAllowed i | .noDirective i | .param _ i | .includeSeen i | .unknownDirective i => some i
  | .ctx (.incorrectContext _) i | .ctx (.pathMethodInExplicit _) i => some i
  | _ => none

/-- a lexeme the assembly consumes: it begins inside the file, and if it is a keyword it has a directive kind -/
def GoodLex (d : Src) (l : Lexeme × Nat) : Prop :=
  l.1.b ≤ d.size ∧ (l.1.ty = .keyword → (kindOfKeyword (d.slice l.1.b l.1.e1)).isSome = true)

/-- the directive being assembled was written inside the file -/
def CurOK (d : Src) (st : ASt) : Prop := ∀ r, st.cur = some r → r.pos ≤ d.size

/-- what the theorems below say of a diagnostic: never "unknown directive", and inside the file when lexeme-located -/
def DiagOK (d : Src) (e : PErr) : Prop := (∀ j, e ≠ .unknownDirective j) ∧ ∀ i, lexLocated e = some i → i ≤ d.size

/-- `processContext` locates its diagnostic at the directive being placed -/
theorem place_error_id {frames : List Frame} {roots : List Tree} {x : Dir} {e : CtxErr}
    (h : place frames roots x = .error e) :
    e = .incorrectContext x.id ∨ e = .pathMethodInExplicit x.id := by
  fun_induction place frames roots x <;> first | (simp at h; done) | (simp at h; subst h; simp) | simp_all

theorem closeExplicit_error {frames : List Frame} {roots : List Tree} {e : CtxErr}
    (h : closeExplicit frames roots = .error e) : e = .noExplicitToClose := by
  fun_induction closeExplicit frames roots <;> first | (simp at h; done) | (simp at h; subst h; rfl) | simp_all

theorem flush_idx (d : Src) (st : ASt) (hc : CurOK d st) :
    (∀ e, flush st = .error e → DiagOK d e) ∧ (∀ st', flush st = .ok st' → CurOK d st') := by
  unfold flush
  cases hcur : st.cur with
  | none => exact ⟨(by simp), (fun st' h => by injection h with h; subst h; exact hc)⟩
  | some r =>
    simp only
    cases hp : place st.ctx.frames st.ctx.roots r.toDir with
    | error x =>
      refine ⟨(fun e h => ?_), (by simp)⟩
      injection h with h; subst h
      have hr := hc r hcur
      rcases place_error_id hp with rfl | rfl <;>
        exact ⟨(by intro j h; cases h), (by intro i hi; simp [lexLocated, ctxErrIdx, RDir.toDir] at hi; omega)⟩
    | ok c =>
      simp only
      split
      · refine ⟨(fun e h => ?_), (by simp)⟩
        injection h with h; subst h
        exact ⟨(by intro j h; cases h), (by intro i hi; simp [lexLocated] at hi)⟩
      · refine ⟨(by simp), (fun st' h => ?_)⟩
        injection h with h; subst h
        intro r' h'; cases h'

theorem step_idx (d : Src) (banned : List Kind) (st : ASt) (lex : Lexeme) (cur : Nat)
    (hg : GoodLex d (lex, cur)) (hc : CurOK d st) :
    (∀ e, step d banned st lex cur = .error e → DiagOK d e) ∧ (∀ st', step d banned st lex cur = .ok st' → CurOK d st') := by
  have hb : lex.b ≤ d.size := hg.1
  have here : ∀ e : PErr, (∀ j, e ≠ .unknownDirective j) → lexLocated e = some lex.b ∨ lexLocated e = none → DiagOK d e := by
    intro e h1 h2
    refine ⟨h1, fun i hi => ?_⟩
    rcases h2 with h2 | h2 <;> rw [h2] at hi
    · injection hi with hi; omega
    · cases hi
  unfold step
  cases hty : lex.ty
  case keyword =>
    simp only
    split
    · exact ⟨(fun e h => by injection h with h; subst h; exact here _ (by intro j h; cases h) (Or.inl rfl)), (by simp)⟩
    · cases hf : flush st with
      | error x =>
        exact ⟨(fun e h => by injection h with h; subst h; exact (flush_idx d st hc).1 _ hf), (by simp)⟩
      | ok st1 =>
        simp only
        have hk := hg.2 hty
        cases hkk : kindOfKeyword (d.slice lex.b lex.e1) with
        | none => simp only at hk; rw [hkk] at hk; cases hk
        | some k =>
          simp only
          split
          · exact ⟨(fun e h => by injection h with h; subst h; exact here _ (by intro j h; cases h) (Or.inl rfl)), (by simp)⟩
          · refine ⟨(by simp), (fun st' h => ?_)⟩
            injection h with h; subst h
            intro r hr; injection hr with hr; subst hr; exact hb
  case parameter =>
    simp only
    cases hcur : st.cur with
    | none => exact ⟨(fun e h => by injection h with h; subst h; exact here _ (by intro j h; cases h) (Or.inl rfl)), (by simp)⟩
    | some r =>
      simp only
      cases hp : Param.appendParameter r.kind r.params (d.slice lex.b lex.e1) with
      | error x => exact ⟨(fun e h => by injection h with h; subst h; exact here _ (by intro j h; cases h) (Or.inl rfl)), (by simp)⟩
      | ok q =>
        refine ⟨(by simp), (fun st' h => ?_)⟩
        injection h with h; subst h
        intro r' hr'; injection hr' with hr'; subst hr'; exact hc r hcur
  case contextClose =>
    simp only
    cases hf : flush st with
    | error x => exact ⟨(fun e h => by injection h with h; subst h; exact (flush_idx d st hc).1 _ hf), (by simp)⟩
    | ok st1 =>
      simp only
      have hc1 := (flush_idx d st hc).2 st1 hf
      cases hce : closeExplicit st1.ctx.frames st1.ctx.roots with
      | error x =>
        refine ⟨(fun e h => ?_), (by simp)⟩
        injection h with h; subst h
        rw [closeExplicit_error hce]
        exact here _ (by intro j h; cases h) (Or.inr rfl)
      | ok c =>
        refine ⟨(by simp), (fun st' h => ?_)⟩
        injection h with h; subst h
        intro r hr; exact hc1 r hr
  all_goals
    simp only
    cases hcur : st.cur with
    | none => exact ⟨(fun e h => by injection h with h; subst h; exact here _ (by intro j h; cases h) (Or.inl rfl)), (by simp)⟩
    | some r =>
      first
        | (refine ⟨(by simp), (fun st' h => ?_)⟩
           injection h with h; subst h
           intro r' hr'; injection hr' with hr'; subst hr'; exact hc r hcur)
        | (by_cases hx : r.explicit = true
           · simp only [hx, if_true]
             exact ⟨(fun e h => by injection h with h; subst h; exact here _ (by intro j h; cases h) (Or.inl rfl)), (by simp)⟩
           · simp only [hx]
             refine ⟨(by simp), (fun st' h => ?_)⟩
             simp only [Bool.false_eq_true, if_false] at h
             injection h with h; subst h
             intro r' hr'; injection hr' with hr'; subst hr'; exact hc r hcur)

theorem steps_idx (d : Src) (banned : List Kind) : ∀ (l : List (Lexeme × Nat)) (st : ASt),
    (∀ x ∈ l, GoodLex d x) → CurOK d st →
    (∀ e, steps d banned st l = .error e → DiagOK d e) ∧ (∀ st', steps d banned st l = .ok st' → CurOK d st')
  | [], st, _, hc => ⟨(by simp [steps]), (fun st' h => by simp [steps] at h; subst h; exact hc)⟩
  | (lex, cur) :: r, st, hg, hc => by
    unfold steps
    have h1 := step_idx d banned st lex cur (hg _ List.mem_cons_self) hc
    cases hs : step d banned st lex cur with
    | error x => exact ⟨(fun e h => by injection h with h; subst h; exact h1.1 _ hs), (by simp)⟩
    | ok st1 =>
      simp only
      exact steps_idx d banned r st1 (fun x hx => hg x (List.mem_cons_of_mem _ hx)) (h1.2 _ hs)

/-- **the seam C14 → assembly, for the whole scan of a file**: whatever the bytes and the oracle,
(1) the diagnostic "unknown directive" never occurs (every keyword the scanner delivers has a directive kind:
`C14.keyword_spells`), and (2) every diagnostic that is located at a lexeme or at a directive's keyword — a banned kind, a
lexeme without a directive, a refused parameter, an incorrect context — lies inside the file (`C14.in_bounds`) -/
theorem scan_diag_ok (content : Bytes) (o : Oracle) (banned : List Kind) (e : PErr)
    (h : scan content o banned = .error e) : DiagOK (Src.ofArray content.toArray) e := by
  unfold scan at h
  cases hu : firstInvalidUTF8 content with
  | some i =>
    simp only [hu] at h; injection h with h; subst h
    exact ⟨(by intro j h; cases h), (by intro i hi; cases hi)⟩
  | none =>
    simp only [hu] at h
    have hlex := lexAllC_lexemes (Src.ofArray content.toArray) o ((Src.ofArray content.toArray).size + 2)
    generalize hl : lexAllC (Src.ofArray content.toArray) o ((Src.ofArray content.toArray).size + 2) Sc.init [] = res at h hlex
    rcases res with ⟨lexs, stop, sc⟩
    simp only at h hlex
    have hgood : ∀ x ∈ lexs, GoodLex (Src.ofArray content.toArray) x := by
      intro x hx
      have hm : x.1 ∈ (lexAll (Src.ofArray content.toArray) o ((Src.ofArray content.toArray).size + 2) Sc.init []).1 := by
        rw [← hlex]; exact List.mem_map.mpr ⟨x, hx, rfl⟩
      have hb := C14.in_bounds _ o _ x.1 hm
      exact ⟨by omega, fun ht => keyword_has_kind _ o _ x.1 hm ht⟩
    have hst := steps_idx (Src.ofArray content.toArray) banned lexs {} hgood (by intro r hr; cases hr)
    cases hs : steps (Src.ofArray content.toArray) banned {} lexs with
    | error x => simp only [hs] at h; injection h with h; subst h; exact hst.1 _ hs
    | ok st =>
      simp only [hs] at h
      cases stop with
      | some s =>
        cases s <;> (simp only at h; injection h with h; subst h; exact ⟨(by intro j h; cases h), (by intro i hi; cases hi)⟩)
      | none =>
        simp only at h
        cases hf : flush st with
        | error x => simp only [hf] at h; injection h with h; subst h; exact (flush_idx _ st (hst.2 _ hs)).1 _ hf
        | ok st1 =>
          simp only [hf] at h
          split at h
          · injection h with h; subst h; exact ⟨(by intro j h; cases h), (by intro i hi; cases hi)⟩
          · cases h

/-! ## where the diagnostics of the catalog construction point (C02 for the composed model) -/

mutual
  /-- the decoration numbers the directives of the forest in pre-order, from `k` on -/
  theorem decoTree_flat (d : Src) (done : List RDir) :
      ∀ (t : Tree) (k : Nat),
        C04B.flat (decoTree d done t k).1 = (preorderT t).mapIdx (fun i x => toBDir d done (k + i) x) ∧
        (decoTree d done t k).2 = k + (preorderT t).length
    | .node x kids, k => by
      have ih := decoForest_flat d done kids (k + 1)
      simp only [decoTree, C04B.flat, preorderT, List.mapIdx_cons, List.length_cons, Nat.add_zero]
      refine ⟨?_, by rw [ih.2]; omega⟩
      rw [ih.1]
      congr 1
      apply List.ext_getElem?
      intro i
      simp only [List.getElem?_mapIdx]
      cases (preorderF kids)[i]? <;> simp [Nat.add_assoc, Nat.add_comm 1 i]
  theorem decoForest_flat (d : Src) (done : List RDir) :
      ∀ (f : List Tree) (k : Nat),
        C04B.flatF (decoForest d done f k).1 = (preorderF f).mapIdx (fun i x => toBDir d done (k + i) x) ∧
        (decoForest d done f k).2 = k + (preorderF f).length
    | [], k => by simp [decoForest, C04B.flatF, preorderF]
    | t :: r, k => by
      have h1 := decoTree_flat d done t k
      have h2 := decoForest_flat d done r (decoTree d done t k).2
      simp only [decoForest, C04B.flatF, preorderF, List.length_append]
      refine ⟨?_, by rw [h2.2, h1.2]; omega⟩
      rw [h1.1, h2.1, h1.2, List.mapIdx_append]
      congr 1
      apply List.ext_getElem?
      intro i
      simp only [List.getElem?_mapIdx]
      cases (preorderF r)[i]? <;> simp [Nat.add_assoc, Nat.add_comm i]
end

theorem toBDir_id (d : Src) (done : List RDir) (id : Nat) (x : Dir) : (toBDir d done id x).id = id := by
  unfold toBDir; split <;> rfl

theorem flat_dir_mem (t : Build.BTree) : t.dir ∈ C04B.flat t := by
  cases t with
  | node d kids => simp [C04B.flat, Build.BTree.dir]

/-- the ENUM stage locates its diagnostic at a top-level directive of the forest -/
theorem checkRules_located : ∀ (f : List Build.BTree) (seen : List Bytes) (e : Build.BErr),
    Build.checkRules f seen = .error e → ∃ d ∈ C04B.flatF f, d.id = e.id
  | [], seen, e, h => by simp [Build.checkRules] at h
  | t :: r, seen, e, h => by
    unfold Build.checkRules at h
    simp only at h
    have here : t.dir ∈ C04B.flatF (t :: r) := by
      simp only [C04B.flatF, List.mem_append]; exact Or.inl (flat_dir_mem t)
    split at h
    · split at h
      · simp only [Build.fail] at h; injection h with h; subst h; exact ⟨_, here, rfl⟩
      · split at h
        · simp only [Build.fail] at h; injection h with h; subst h; exact ⟨_, here, rfl⟩
        · split at h
          · simp only [Build.fail] at h; injection h with h; subst h; exact ⟨_, here, rfl⟩
          · rcases checkRules_located r _ e h with ⟨d, hd, hid⟩
            exact ⟨d, by simp only [C04B.flatF, List.mem_append]; exact Or.inr hd, hid⟩
    · rcases checkRules_located r _ e h with ⟨d, hd, hid⟩
      exact ⟨d, by simp only [C04B.flatF, List.mem_append]; exact Or.inr hd, hid⟩

/-- **C02 for the composed model, catalog-construction stage**: a diagnostic of that stage is located at the keyword
of a directive of the expanded forest of the document (never at the fallback position of `buildErrAt`) -/
theorem process_build_error_at {content : Bytes} {o : Oracle} {banned : List Kind} {e : Build.BErr} {i be : Nat}
    (h : process content o banned = .error (.build e i be)) :
    ∃ forest done expanded x, scan content o banned = .ok (forest, done) ∧ expand forest = .ok expanded ∧
      (preorderF expanded)[e.id]? = some x ∧ x.id = i := by
  unfold process at h
  cases hs : scan content o banned with
  | error x =>
    simp only [hs] at h; injection h with h; subst h
    -- the scan reports no diagnostic of the catalog construction
    exact absurd (scan_early content o banned _ hs) (by simp [early])
  | ok p =>
    rcases p with ⟨forest, done⟩
    simp only [hs] at h
    cases he : expand forest with
    | error x => simp only [he] at h; cases h
    | ok expanded =>
      simp only [he] at h
      have hflat := decoForest_flat (Src.ofArray content.toArray) done expanded 0
      generalize hbf : decoForest (Src.ofArray content.toArray) done expanded 0 = bf at h hflat
      rcases bf with ⟨bf, n⟩
      simp only at h hflat
      -- both the ENUM stage and the catalog construction locate their diagnostic at a directive of the forest
      have located : ∀ x : Build.BErr, (∃ bd ∈ C04B.flatF bf, bd.id = x.id) →
          buildErrAt done expanded x = .build e i be →
          ∃ forest' done' expanded' y, (Except.ok (forest, done) : Except PErr (List Tree × List RDir)) = .ok (forest', done') ∧
            expand forest' = .ok expanded' ∧ (preorderF expanded')[e.id]? = some y ∧ y.id = i := by
        intro x hx hh
        rcases hx with ⟨bd, hbd, hid⟩
        rw [hflat.1] at hbd
        rcases List.mem_mapIdx.mp hbd with ⟨j, hj, rfl⟩
        rw [toBDir_id] at hid
        have hget : (preorderF expanded)[x.id]? = some (preorderF expanded)[j] := by
          rw [← hid]; simp [List.getElem?_eq_getElem hj]
        unfold buildErrAt at hh
        rw [hget] at hh
        simp only at hh
        injection hh with h1 h2 h3
        subst h1
        exact ⟨forest, done, expanded, _, rfl, he, hget, h2⟩
      cases hru : Build.checkRules bf [] with
      | error x =>
        simp only [hru] at h
        injection h with h
        exact located x (checkRules_located bf [] x hru) h
      | ok u =>
      simp only [hru] at h
      cases hc : Build.compile banned bf with
      | ok c => simp [hc] at h
      | error x =>
        simp only [hc] at h
        injection h with h
        exact located x (C02L.compile_error_located banned bf x hc) h

/-! ## the order of the steps of the scan phase, from the source

`Gen.scanCalls` (regenerated on every run from `core/scan_project*.go` and `core/include.go`) lists every call of the
functions of the scan phase in source order.  The assembly of `Model/Project.lean` (`step`, `flush`, `runLexs`, `runFile`)
performs its steps in a certain ORDER — the pending directive is placed before anything else happens at a keyword, at an
INCLUDE, at ")" and at the end of a file; a banned kind is refused after that and before the directive exists; the
included file's name is read, validated, joined, looked up, and only then is the scanner pushed and the file opened.
These are facts about the source, checked here against the regenerated table (a call added elsewhere in these functions
does not disturb them; a step that is moved, removed or renamed does). -/

/-- in the function `fn` of the scan phase, a call of `a` occurs and the first one precedes the first call of `b` -/
def calledBefore (fn a b : String) : Bool :=
  match Gen.scanCalls.lookup fn with
  | none => false
  | some cs =>
    match cs.findIdx? (· == a), cs.findIdx? (· == b) with
    | some i, some j => decide (i < j)
    | _, _ => false

/-- `f` calls every step of the chain, in this order -/
def chain (fn : String) : List String → Bool
  | a :: b :: r => calledBefore fn a b && chain fn (b :: r)
  | _ => true

theorem scan_phase_order :
    -- the loop: lexemes of the current scanner, then the end of the file, then the including scanner
    chain "scanProject" ["core.drainCurrentScanner", "core.processEOF", "core.isScanningFinished"] = true ∧
    chain "drainCurrentScanner" ["core.scanner.Next", "isIncludeKeyword", "core.processInclude", "core.next"] = true ∧
    -- a keyword: the previous directive is placed, JSIGHT is refused in an included file, the new directive is made
    chain "processKeyword" ["core.processCurrentDirective", "core.scannersStack.Empty", "core.setCurrentDirective"] = true ∧
    chain "setCurrentDirective" ["directive.NewDirectiveType", "core.checkBannedDirective", "directive.NewWithCallStack"] = true ∧
    -- ")" and the end of a file
    chain "processContextEnd" ["core.processCurrentDirective", "core.closeLastExplicitContext"] = true ∧
    chain "processEOF" ["core.processCurrentDirective", "core.HasUnclosedExplicitContext"] = true ∧
    -- INCLUDE (F42: the previous directive first; C18: the ban before any file is looked at)
    chain "processInclude" ["core.processCurrentDirective", "core.checkBannedDirective", "core.getIncludedFilePath", "readFile",
      "core.scannersStack.Push", "scanner.NewJApiScanner"] = true ∧
    chain "getIncludedFilePath" ["core.scanner.Next", "validateIncludeFileName", "filepath.Join", "os.Stat"] = true ∧
    -- a parameter goes through `AppendParameter` of the current directive
    chain "processParameter" ["lexemeWithoutDirective", "core.currentDirective.AppendParameter"] = true := by decide

/-! ## non-vacuity: a concrete document through all the stages -/

/-- `JSIGHT 0.3⏎GET /cats // list⏎  200 any⏎MACRO @m⏎(⏎  Request any⏎)⏎POST /cats⏎  PASTE @m⏎  200 any⏎` -/
def sampleDoc : Bytes := "JSIGHT 0.3\nGET /cats // list\n  200 any\nMACRO @m\n(\n  Request any\n)\nPOST /cats\n  PASTE @m\n  200 any\n".toUTF8.toList

def noOracle : Oracle := ⟨fun _ => .miss, fun _ => .miss⟩

def isOkWith (n : Nat) : Except PErr Build.Cat → Bool
  | .ok c => c.inters.length == n
  | .error _ => false

-- accepted, with two interactions (the PASTE brought the Request into the POST)
example : isOkWith 2 (process sampleDoc noOracle []) = true := by decide +kernel
/-- (stage, index) of a diagnostic: 1 scanner, 2 assembly, 3 context, 4 expansion, 5 catalog construction -/
def stageOf : Except PErr Build.Cat → Nat × Nat
  | .ok _ => (0, 0)
  | .error (.scan i) => (1, i)
  | .error (.unknownDirective i) | .error (.notAllowed i) | .error (.noDirective i) | .error (.param _ i) => (2, i)
  | .error (.ctx _ i) => (3, i)
  | .error (.paste (.inPaste i)) => (4, i)
  | .error (.build _ i _) => (5, i)
  | .error _ => (9, 0)

-- with MACRO banned the same bytes are refused at the MACRO keyword (byte 39)
example : stageOf (process sampleDoc noOracle [.Macro]) = (2, 39) := by decide +kernel
-- a diagnostic of the scanner, of the assembly, of the context resolution, of the expansion, of the catalog construction
example : stageOf (process "GE?".toUTF8.toList noOracle []) = (1, 2) := by decide +kernel
example : stageOf (process "GET /a /b".toUTF8.toList noOracle []) = (2, 7) := by decide +kernel
example : stageOf (process "JSIGHT 0.3\nBody any\n".toUTF8.toList noOracle []) = (3, 11) := by decide +kernel
example : stageOf (process "JSIGHT 0.3\nGET /a\n  PASTE @x\n".toUTF8.toList noOracle []) = (4, 20) := by decide +kernel
example : stageOf (process "GET /a\n  200 any\n".toUTF8.toList noOracle []) = (5, 0) := by decide +kernel
-- a second "(" of one directive has no directive to belong to (F45); one "(" is fine
example : stageOf (process "JSIGHT 0.3\nGET /a\n(\n(\n  200 any\n)\n".toUTF8.toList noOracle []) = (2, 20) := by decide +kernel
example : stageOf (process "JSIGHT 0.3\nGET /a\n(\n  200 any\n)\n".toUTF8.toList noOracle []) = (0, 0) := by decide +kernel

/-! projects: an include cycle (`root → a → root`), an accepted project, a fault inside an included file -/

def b (s : String) : Bytes := s.toUTF8.toList
def noOracleF : Nat → Oracle := fun _ => noOracle

def stageOfF : Except FErr Build.Cat → Nat × Nat × Nat
  | .ok c => (0, 0, c.inters.length)
  | .error ⟨f, .incl .recursion i⟩ => (6, f, i)
  | .error ⟨f, .incl _ i⟩ => (7, f, i)
  | .error ⟨f, .scan i⟩ => (1, f, i)
  | .error ⟨f, _⟩ => (9, f, 0)

-- root.jst includes a.jst, which includes root.jst: root.jst is opened a second time, and its JSIGHT is refused there
example : stageOfF (processFS [(b "root.jst", some (b "JSIGHT 0.3\nINCLUDE a.jst\n")), (b "a.jst", some (b "INCLUDE root.jst\n"))]
    noOracleF []) = (7, 0, 0) := by decide +kernel
-- a.jst and b.jst include one another: a.jst is opened a second time, and ITS INCLUDE is refused (`Push`: recursion)
example : stageOfF (processFS [(b "root.jst", some (b "JSIGHT 0.3\nINCLUDE a.jst\n")), (b "a.jst", some (b "INCLUDE b.jst\n")),
    (b "b.jst", some (b "INCLUDE a.jst\n"))] noOracleF []) = (6, 1, 0) := by decide +kernel
-- an accepted project with a file in a sub-directory that includes its neighbour
example : stageOfF (processFS [(b "root.jst", some (b "JSIGHT 0.3\nINCLUDE sub/a.jst\n")),
    (b "sub/a.jst", some (b "GET /a\n  200 any\nINCLUDE b.jst\n")), (b "sub/b.jst", some (b "GET /b\n  200 any\n"))]
    noOracleF []) = (0, 0, 2) := by decide +kernel
-- a scanner diagnostic inside the included file, a missing file, a directory
example : stageOfF (processFS [(b "root.jst", some (b "JSIGHT 0.3\nINCLUDE a.jst\n")), (b "a.jst", some (b "GE?"))] noOracleF [])
    = (1, 1, 2) := by decide +kernel
example : stageOfF (processFS [(b "root.jst", some (b "JSIGHT 0.3\nINCLUDE a.jst\n")), (b "d", none)] noOracleF [])
    = (7, 0, 11) := by decide +kernel
-- repaired `processEOF` (the unclosed-parenthesis check is made at the end of the ROOT file only): the root opens a
-- parenthesis, INCLUDEs a file with a child directive and closes the parenthesis after the INCLUDE — accepted, one
-- interaction (before the repair: "not all explicit contexts are closed" at the end of inc.jst)
example : stageOfF (processFS [(b "root.jst", some (b "JSIGHT 0.3\nURL /a\n(\n  INCLUDE inc.jst\n)\n")),
    (b "inc.jst", some (b "GET\n  200 any\n"))] noOracleF []) = (0, 0, 1) := by decide +kernel
-- … the parenthesis may also be opened in the included file and closed in the root file
example : stageOfF (processFS [(b "root.jst", some (b "JSIGHT 0.3\nINCLUDE inc.jst\n  GET\n    200 any\n)\n")),
    (b "inc.jst", some (b "URL /a\n(\n"))] noOracleF []) = (0, 0, 1) := by decide +kernel
-- … but a parenthesis that is still open at the end of the ROOT file is refused there (file 0, index 38 = `CurrentIndex() - 1`)
example : (match processFS [(b "root.jst", some (b "JSIGHT 0.3\nURL /a\n(\n  INCLUDE inc.jst\n")),
      (b "inc.jst", some (b "GET\n  200 any\n"))] noOracleF [] with
    | .error ⟨f, .ctx .unclosedAtEOF i⟩ => some (f, i)
    | _ => none) = some (0, 38) := by decide +kernel

end JSight.C01P
