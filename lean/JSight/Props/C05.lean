import JSight.Model.Scanner
import JSight.Proofs.C05
/-!
C05 — line ends, blanks and one-line comments in the scanner table.

* LF and CR (and likewise SPACE and TAB) are indistinguishable to every state function, hence to `interp`.
* A one-line comment `# …` read in a state that starts comments is invisible: the state is saved on the
  stack, the comment text changes nothing else, and the line end that terminates the comment is handled
  by the saved state.

Table facts are Bool checks over `Gen.code`, re-proved by `decide` against the regenerated table on every
run.  Helper lemmas (generic in the table): `JSight/Proofs/C05.lean`.
-/
namespace JSight.C05
open JSight JSight.Gen

/-! ## LF / CR and SPACE / TAB -/

/-- no byte test in a tree separates LF (10) from CR (13) -/
def nlSym {St : Type} : Code St → Bool
  | .leaf _ _ => true
  | .ifB bs t e => (bs.contains 10 == bs.contains 13) && nlSym t && nlSym e
  | .ifC _ t e => nlSym t && nlSym e

theorem mem_all (st : St) : st ∈ St.all := by
  have : St.all.contains st = true := by cases st <;> rfl
  simpa using this

/-- (1) table fact, re-checked against the regenerated table on every run -/
theorem nl_symmetric_table : ∀ st ∈ St.all, nlSym (code st) = true := by decide +kernel

theorem nlSym_eq_symB {S : Type} : ∀ t : Code S, nlSym t = symB 10 13 t
  | .leaf _ _ => rfl
  | .ifB bs t e => by simp only [nlSym, symB, nlSym_eq_symB t, nlSym_eq_symB e]
  | .ifC _ t e => by simp only [nlSym, symB, nlSym_eq_symB t, nlSym_eq_symB e]

/-- (2) every state function treats LF and CR alike -/
theorem nl_symmetric (st : St) (ev : Cond → Bool) : (code st).select 10 ev = (code st).select 13 ev :=
  select_eq_of_symB ev (code st) (by rw [← nlSym_eq_symB]; exact nl_symmetric_table st (mem_all st))

/-- (3) one scanner step on LF equals one scanner step on CR, in every state and situation -/
theorem interp_nl_symmetric (d : Src) (o : Oracle) (fuel : Nat) (st : St) (sc : Sc) :
    interp d o 10 fuel st sc = interp d o 13 fuel st sc :=
  interp_sym d o (by decide) nl_symmetric fuel st sc

/-- SPACE (32) and TAB (9) are likewise indistinguishable -/
def wsSym {St : Type} : Code St → Bool
  | .leaf _ _ => true
  | .ifB bs t e => (bs.contains 32 == bs.contains 9) && wsSym t && wsSym e
  | .ifC _ t e => wsSym t && wsSym e

theorem ws_symmetric_table : ∀ st ∈ St.all, wsSym (code st) = true := by decide +kernel

theorem wsSym_eq_symB {S : Type} : ∀ t : Code S, wsSym t = symB 32 9 t
  | .leaf _ _ => rfl
  | .ifB bs t e => by simp only [wsSym, symB, wsSym_eq_symB t, wsSym_eq_symB e]
  | .ifC _ t e => by simp only [wsSym, symB, wsSym_eq_symB t, wsSym_eq_symB e]

theorem ws_symmetric (st : St) (ev : Cond → Bool) : (code st).select 32 ev = (code st).select 9 ev :=
  select_eq_of_symB ev (code st) (by rw [← wsSym_eq_symB]; exact ws_symmetric_table st (mem_all st))

theorem interp_ws_symmetric (d : Src) (o : Oracle) (fuel : Nat) (st : St) (sc : Sc) :
    interp d o 32 fuel st sc = interp d o 9 fuel st sc :=
  interp_sym d o (by decide) ws_symmetric fuel st sc

/-! ## one-line comments -/

/-- the leaf that starts a comment: `s.stepStack.Push(s.step); s.step = stateCommentStarted; return nil` -/
def commentLeaf : List (Op St) × Cont St := ([Op.pushCur, Op.setStep St.stateCommentStarted], Cont.done)

/-- states whose step function starts a comment on '#': EVERY leaf that byte 35 can select (`allSel`
follows the matching branch of each byte test and both branches of each condition test) is
`[pushCur, setStep stateCommentStarted]` / done -/
def startsComment (st : St) : Bool := allSel 35 (isLeaf commentLeaf) (code st)

/-- meaning of `startsComment`: whatever the conditions evaluate to, '#' selects the comment leaf -/
theorem startsComment_spec {st : St} (h : startsComment st = true) (ev : Cond → Bool) :
    (code st).select 35 ev = commentLeaf :=
  eq_of_isLeaf (allSel_select ev (code st) h)

/-! ### table facts about the two comment states -/

/-- `stateSingleComment` tests the bytes LF, CR, NUL only, and on any other byte does nothing -/
theorem single_other_table :
    allOther [10, 13, 0] (isLeaf ([], Cont.done)) (code St.stateSingleComment) = true := by decide

/-- `stateSingleComment` on LF, CR, NUL: pop the saved state and hand the byte to it -/
theorem single_nl_table : ∀ c ∈ [(10 : UInt8), 13, 0],
    allSel c (isLeaf ([Op.popToStep], Cont.redispatch)) (code St.stateSingleComment) = true := by decide

/-- `stateCommentStarted` on a byte other than '#', LF, CR, NUL: it is a one-line comment -/
theorem started_other_table :
    allOther [35, 10, 13, 0]
      (isLeaf ([Op.setStep St.stateSingleComment], Cont.redispatch))
      (code St.stateCommentStarted) = true := by decide

/-- `stateCommentStarted` on LF, CR, NUL: an empty one-line comment -/
theorem started_nl_table : ∀ c ∈ [(10 : UInt8), 13, 0],
    allSel c (isLeaf ([Op.setStep St.stateSingleComment], Cont.redispatch))
      (code St.stateCommentStarted) = true := by decide

/-! ### one-byte lemmas -/

/-- '#' in a state that starts comments: the state is saved, nothing else changes -/
theorem hash_step (d : Src) (o : Oracle) (sc : Sc) (hsc : startsComment sc.step = true)
    (hrew : sc.rew = 0) (hlt : sc.cur < d.size) (hhash : d.get sc.cur = 35) :
    byteStep d o sc =
      .ok { sc with cur := sc.cur + 1, stack := sc.step :: sc.stack, step := .stateCommentStarted } := by
  have hi : interp d o (d.get sc.cur) stepFuel sc.step sc =
      .ok { sc with stack := sc.step :: sc.stack, step := .stateCommentStarted } := by
    rw [hhash]
    exact interp_done (fuel := 15) (startsComment_spec hsc (evalCond d sc)) rfl
  rw [byteStep_ok hlt (by rw [hhash]; decide) hi hrew]
  cases sc; simp_all

/-- inside a one-line comment any byte other than LF, CR, NUL keeps everything and advances `cur` -/
theorem single_step (d : Src) (o : Oracle) (sc : Sc) (hstep : sc.step = .stateSingleComment)
    (hrew : sc.rew = 0) (hlt : sc.cur < d.size) (hc : d.get sc.cur ∉ [(10 : UInt8), 13, 0]) :
    byteStep d o sc = .ok { sc with cur := sc.cur + 1 } := by
  have hsel := eq_of_isLeaf (allOther_select (evalCond d sc) hc _ single_other_table)
  have hi : interp d o (d.get sc.cur) stepFuel sc.step sc = .ok sc := by
    rw [hstep]
    exact interp_done (fuel := 15) hsel rfl
  rw [byteStep_ok hlt (by intro h; apply hc; simp [h]) hi hrew]
  cases sc; simp_all

/-- the first byte after '#', if it is not '#', LF, CR, NUL, makes it a one-line comment -/
theorem started_step (d : Src) (o : Oracle) (sc : Sc) (hstep : sc.step = .stateCommentStarted)
    (hrew : sc.rew = 0) (hlt : sc.cur < d.size) (hc : d.get sc.cur ∉ [(35 : UInt8), 10, 13, 0]) :
    byteStep d o sc = .ok { sc with cur := sc.cur + 1, step := .stateSingleComment } := by
  have hc' : d.get sc.cur ∉ [(10 : UInt8), 13, 0] := by
    intro h; apply hc; exact List.mem_cons_of_mem _ h
  have hsel := eq_of_isLeaf (allOther_select (evalCond d sc) hc _ started_other_table)
  have hsel' := eq_of_isLeaf (allOther_select
    (evalCond d { sc with step := .stateSingleComment }) hc' _ single_other_table)
  have hi : interp d o (d.get sc.cur) stepFuel sc.step sc =
      .ok { sc with step := .stateSingleComment } := by
    rw [hstep]
    show interp d o _ (15 + 1) _ _ = _
    rw [interp_redispatch (fuel := 15) hsel rfl]
    exact interp_done (fuel := 14) hsel' rfl
  rw [byteStep_ok hlt (by intro h; apply hc; simp [h]) hi hrew]
  cases sc; simp_all

/-! ### (4) the comment is invisible -/

/-- the general run: '#', then `k ≤ |w|` bytes of the comment text -/
theorem comment_run (d : Src) (o : Oracle) (sc : Sc) (w : Bytes) (st : St)
    (hst : sc.step = st) (hsc : startsComment st = true) (hrew : sc.rew = 0)
    (hhash : d.get sc.cur = 35)
    (hw : ∀ i, i < w.length → d.get (sc.cur + 1 + i) = w.getD i 0)
    (hw0 : w.head? ≠ some 35)
    (hwok : ∀ c ∈ w, c ≠ 10 ∧ c ≠ 13 ∧ c ≠ 0)
    (hlen : sc.cur + 1 + w.length ≤ d.size) :
    ∀ k, k ≤ w.length →
      (Nat.repeat (fun r : Except Stop Sc => r.bind (byteStep d o)) (k + 1) (.ok sc)) =
        .ok { sc with cur := sc.cur + 1 + k, stack := st :: sc.stack,
                      step := if k = 0 then .stateCommentStarted else .stateSingleComment } := by
  intro k
  induction k with
  | zero =>
    intro _
    show byteStep d o sc = _
    rw [hash_step d o sc (hst ▸ hsc) hrew (by omega) hhash, hst]
    rfl
  | succ k ih =>
    intro hk
    have hk' : k < w.length := hk
    show (Nat.repeat (fun r : Except Stop Sc => r.bind (byteStep d o)) (k + 1) (.ok sc)).bind (byteStep d o) = _
    rw [ih (Nat.le_of_lt hk')]
    show byteStep d o _ = _
    have hget : d.get (sc.cur + 1 + k) = w[k] := by
      rw [hw k hk']; simp [List.getD, List.getElem?_eq_getElem hk']
    have hmem : w[k] ∈ w := List.getElem_mem hk'
    have hok := hwok _ hmem
    by_cases hk0 : k = 0
    · subst hk0
      have h35 : w[0] ≠ 35 := by
        intro h; apply hw0
        rw [List.head?_eq_getElem?, List.getElem?_eq_getElem hk', h]
      exact started_step d o
        { sc with cur := sc.cur + 1 + 0, stack := st :: sc.stack, step := .stateCommentStarted }
        rfl hrew (by show sc.cur + 1 + 0 < d.size; omega)
        (by show d.get (sc.cur + 1 + 0) ∉ _; rw [hget]; simp [h35, hok])
    · rw [if_neg hk0, if_neg (Nat.succ_ne_zero k)]
      exact single_step d o
        { sc with cur := sc.cur + 1 + k, stack := st :: sc.stack, step := .stateSingleComment }
        rfl hrew (by show sc.cur + 1 + k < d.size; omega)
        (by show d.get (sc.cur + 1 + k) ∉ _; rw [hget]; simp [hok])

/-- (4) a one-line comment "#" ++ w (w non-empty, without '#' as first byte, without NL, NUL),
read in a state that starts comments, leaves finds, evStack and lastParams exactly as they were and has
consumed 1 + w.length bytes: the scanner is inside the comment (`stateSingleComment`) with the original
state saved on top of the stack, looking at the byte after the comment text.
(The statement proposed in the task, plus `w ≠ []`: for the empty `w` see `line_comment_invisible_empty`.) -/
theorem line_comment_invisible (d : Src) (o : Oracle) (sc : Sc) (w : Bytes) (st : St)
    (hst : sc.step = st) (hsc : startsComment st = true) (hrew : sc.rew = 0)
    (hhash : d.get sc.cur = 35)
    (hw : ∀ i, i < w.length → d.get (sc.cur + 1 + i) = w.getD i 0)
    (hw0 : w.head? ≠ some 35)
    (hwok : ∀ c ∈ w, c ≠ 10 ∧ c ≠ 13 ∧ c ≠ 0)
    (hlen : sc.cur + 1 + w.length ≤ d.size)
    (hne : w ≠ []) :
    (Nat.repeat (fun r : Except Stop Sc => r.bind (byteStep d o)) (1 + w.length) (.ok sc)) =
      .ok { sc with cur := sc.cur + 1 + w.length, stack := st :: sc.stack, step := .stateSingleComment } := by
  rw [Nat.add_comm 1 w.length,
    comment_run d o sc w st hst hsc hrew hhash hw hw0 hwok hlen w.length (Nat.le_refl _)]
  have : w.length ≠ 0 := by simpa using hne
  simp [this]

/-- (4, empty comment) after a bare '#' the scanner is in `stateCommentStarted` -/
theorem line_comment_invisible_empty (d : Src) (o : Oracle) (sc : Sc) (st : St)
    (hst : sc.step = st) (hsc : startsComment st = true) (hrew : sc.rew = 0)
    (hhash : d.get sc.cur = 35) (hlen : sc.cur + 1 ≤ d.size) :
    (Nat.repeat (fun r : Except Stop Sc => r.bind (byteStep d o)) 1 (.ok sc)) =
      .ok { sc with cur := sc.cur + 1, stack := st :: sc.stack, step := .stateCommentStarted } :=
  comment_run d o sc [] st hst hsc hrew hhash (by intro i hi; cases hi) (by simp) (by simp)
    hlen 0 (Nat.le_refl _)

/-! ### (5) the line end is handled by the saved state -/

/-- `stateSingleComment` on LF / CR / NUL pops the saved state and runs it on the same byte -/
theorem interp_single_nl (d : Src) (o : Oracle) (c : UInt8) (hc : c ∈ [(10 : UInt8), 13, 0])
    (fuel : Nat) (sc : Sc) (st : St) (stk : List St) (hstack : sc.stack = st :: stk) :
    interp d o c (fuel + 1) .stateSingleComment sc =
      interp d o c fuel st { sc with step := st, stack := stk } := by
  have hsel := eq_of_isLeaf (allSel_select (evalCond d sc) _ (single_nl_table c hc))
  have he : execOps sc [Op.popToStep] = .ok { sc with step := st, stack := stk } := by
    simp [execOps, execOp, hstack]
  exact interp_redispatch hsel he

/-- `stateCommentStarted` on LF / CR / NUL: the same, one call deeper -/
theorem interp_started_nl (d : Src) (o : Oracle) (c : UInt8) (hc : c ∈ [(10 : UInt8), 13, 0])
    (fuel : Nat) (sc : Sc) (st : St) (stk : List St) (hstack : sc.stack = st :: stk) :
    interp d o c (fuel + 2) .stateCommentStarted sc =
      interp d o c fuel st { sc with step := st, stack := stk } := by
  have hsel := eq_of_isLeaf (allSel_select (evalCond d sc) _ (started_nl_table c hc))
  rw [interp_redispatch hsel rfl,
    interp_single_nl d o c hc fuel { sc with step := .stateSingleComment } st stk hstack]

/-- (5, exact form) the byte step on the line end (LF, CR, or the end of the file) from inside a
one-line comment is the byte step of the saved state at that position — run with the step fuel that
is left after the pop (`stepFuel - 1`; `- 2` from `stateCommentStarted`) -/
theorem comment_line_end_exact (d : Src) (o : Oracle) (sc : Sc) (st : St) (stk : List St)
    (hstep : sc.step = .stateSingleComment) (hstack : sc.stack = st :: stk)
    (hnl : curByte d sc = 10 ∨ curByte d sc = 13 ∨ curByte d sc = 0) :
    byteStep d o sc =
      if (sc.cur != d.size && curByte d sc == 0) = true then .error (.diag sc.cur)
      else finishByte (interp d o (curByte d sc) (stepFuel - 1) st { sc with step := st, stack := stk }) := by
  have hc : curByte d sc ∈ [(10 : UInt8), 13, 0] := by
    rcases hnl with h | h | h <;> simp [h]
  rw [byteStep_eq, hstep]
  exact congrArg _ (congrArg finishByte (interp_single_nl d o _ hc 15 sc st stk hstack))

/-- (5) …and the line end that terminates the comment is handled by the original state: unless the
same-byte re-dispatch budget `stepFuel` is exhausted, the byte step on LF / CR / end of file from the
comment state (`stateSingleComment`, or `stateCommentStarted` for the empty comment) equals the byte
step of the saved state `st` (popped off the stack) at that position. -/
theorem comment_line_end (d : Src) (o : Oracle) (sc : Sc) (st : St) (stk : List St)
    (hstep : sc.step = .stateSingleComment ∨ sc.step = .stateCommentStarted)
    (hstack : sc.stack = st :: stk)
    (hnl : curByte d sc = 10 ∨ curByte d sc = 13 ∨ curByte d sc = 0)
    (hfuel : byteStep d o sc ≠ .error (.fault .fuel)) :
    byteStep d o sc = byteStep d o { sc with step := st, stack := stk } := by
  have hc : curByte d sc ∈ [(10 : UInt8), 13, 0] := by
    rcases hnl with h | h | h <;> simp [h]
  rw [byteStep_eq d o { sc with step := st, stack := stk }]
  rw [byteStep_eq] at hfuel ⊢
  show _ = if (sc.cur != d.size && curByte d sc == 0) = true then .error (.diag sc.cur)
      else finishByte (interp d o (curByte d sc) stepFuel st { sc with step := st, stack := stk })
  by_cases hz : (sc.cur != d.size && curByte d sc == 0) = true
  · rw [if_pos hz, if_pos hz]
  · rw [if_neg hz] at hfuel
    rw [if_neg hz, if_neg hz]
    congr 1
    have hne : interp d o (curByte d sc) stepFuel sc.step sc ≠ .error (.fault .fuel) := by
      intro h; rw [h] at hfuel; exact hfuel rfl
    rcases hstep with hs | hs
    · rw [hs] at hne ⊢
      rw [show stepFuel = 15 + 1 from rfl] at hne ⊢
      rw [interp_single_nl d o _ hc 15 sc st stk hstack] at hne ⊢
      exact (interp_mono_add d o _ 15 st _ _ rfl hne 1).symm
    · rw [hs] at hne ⊢
      rw [show stepFuel = 14 + 2 from rfl] at hne ⊢
      rw [interp_started_nl d o _ hc 14 sc st stk hstack] at hne ⊢
      exact (interp_mono_add d o _ 14 st _ _ rfl hne 2).symm

/-- (4)+(5): a one-line comment "#" ++ w followed by a line end (LF, CR or the end of the file), read in a
state `st` that starts comments, is handled exactly as the line end alone at that position:
the `1 + |w| + 1` byte steps from `sc` give what ONE byte step gives from `sc` moved to the line end. -/
theorem line_comment_then_line_end (d : Src) (o : Oracle) (sc : Sc) (w : Bytes) (st : St)
    (hst : sc.step = st) (hsc : startsComment st = true) (hrew : sc.rew = 0)
    (hhash : d.get sc.cur = 35)
    (hw : ∀ i, i < w.length → d.get (sc.cur + 1 + i) = w.getD i 0)
    (hw0 : w.head? ≠ some 35)
    (hwok : ∀ c ∈ w, c ≠ 10 ∧ c ≠ 13 ∧ c ≠ 0)
    (hlen : sc.cur + 1 + w.length ≤ d.size)
    (hnl : curByte d { sc with cur := sc.cur + 1 + w.length } = 10 ∨
           curByte d { sc with cur := sc.cur + 1 + w.length } = 13 ∨
           curByte d { sc with cur := sc.cur + 1 + w.length } = 0)
    (hfuel : Nat.repeat (fun r : Except Stop Sc => r.bind (byteStep d o)) (1 + w.length + 1) (.ok sc)
              ≠ .error (.fault .fuel)) :
    Nat.repeat (fun r : Except Stop Sc => r.bind (byteStep d o)) (1 + w.length + 1) (.ok sc) =
      byteStep d o { sc with cur := sc.cur + 1 + w.length } := by
  have hrun := comment_run d o sc w st hst hsc hrew hhash hw hw0 hwok hlen w.length (Nat.le_refl _)
  have hunf : Nat.repeat (fun r : Except Stop Sc => r.bind (byteStep d o)) (1 + w.length + 1) (.ok sc) =
      (Nat.repeat (fun r : Except Stop Sc => r.bind (byteStep d o)) (w.length + 1) (.ok sc)).bind (byteStep d o) := by
    rw [Nat.add_comm 1 w.length]; rfl
  rw [hunf, hrun] at hfuel ⊢
  have h5 := comment_line_end d o
    { sc with cur := sc.cur + 1 + w.length, stack := st :: sc.stack,
              step := if w.length = 0 then .stateCommentStarted else .stateSingleComment }
    st sc.stack (by by_cases h : w.length = 0 <;> simp [h]) rfl hnl hfuel
  refine h5.trans ?_
  subst hst
  rfl

/-! ## non-vacuity -/

example : startsComment .stateExpectKeyword = true := by decide
example : startsComment .stateBodyEnded = true := by decide
example : startsComment .stateSingleComment = false := by decide
example : startsComment .stateRoot = true := by decide
example : startsComment .stateParameterOrAnnotationAfterFirstSpace = true := by decide

/-- "# hi\nGET" read in `stateExpectKeyword`: after "# hi" the scanner is in the comment with the state saved … -/
example :
    Nat.repeat (fun r : Except Stop Sc => r.bind (byteStep (Src.ofList [35, 32, 104, 105, 10, 71, 69, 84])
      ⟨fun _ => .miss, fun _ => .miss⟩)) 4 (.ok { Sc.init with step := .stateExpectKeyword }) =
    .ok { Sc.init with cur := 4, stack := [.stateExpectKeyword], step := .stateSingleComment } := by
  rfl

/-- … and the hypotheses of (4) and (4)+(5) are satisfiable: the same run obtained from the theorems -/
example :
    Nat.repeat (fun r : Except Stop Sc => r.bind (byteStep (Src.ofList [35, 32, 104, 105, 10, 71, 69, 84])
      ⟨fun _ => .miss, fun _ => .miss⟩)) (1 + 3) (.ok { Sc.init with step := .stateExpectKeyword }) =
    .ok { Sc.init with cur := 0 + 1 + 3, stack := [.stateExpectKeyword], step := .stateSingleComment } :=
  line_comment_invisible (Src.ofList [35, 32, 104, 105, 10, 71, 69, 84]) ⟨fun _ => .miss, fun _ => .miss⟩
    { Sc.init with step := .stateExpectKeyword } [32, 104, 105] .stateExpectKeyword
    rfl (by decide) rfl (by decide) (by decide) (by decide) (by decide) (by decide) (by decide)

example :
    Nat.repeat (fun r : Except Stop Sc => r.bind (byteStep (Src.ofList [35, 32, 104, 105, 10, 71, 69, 84])
      ⟨fun _ => .miss, fun _ => .miss⟩)) (1 + 3 + 1) (.ok { Sc.init with step := .stateExpectKeyword }) =
    byteStep (Src.ofList [35, 32, 104, 105, 10, 71, 69, 84]) ⟨fun _ => .miss, fun _ => .miss⟩
      { Sc.init with step := .stateExpectKeyword, cur := 0 + 1 + 3 } :=
  line_comment_then_line_end (Src.ofList [35, 32, 104, 105, 10, 71, 69, 84]) ⟨fun _ => .miss, fun _ => .miss⟩
    { Sc.init with step := .stateExpectKeyword } [32, 104, 105] .stateExpectKeyword
    rfl (by decide) rfl (by decide) (by decide) (by decide) (by decide) (by decide)
    (by decide) (by intro h; cases h)

end JSight.C05
